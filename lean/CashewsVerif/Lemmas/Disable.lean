import CashewsVerif.Model.Disable
import CashewsVerif.Lemmas.RouteGroup
/-
Lemmas for C17 (disable control): the control state is a per-context value, the middleware
short-circuit, the calls issued by the group loops, and the decorator bypass.
-/
namespace CashewsVerif.Disable
open CashewsVerif.Route

theorem Cmd.mem_all : ∀ x : Cmd, x ∈ Cmd.all := by
  intro x
  cases x <;> decide

/-! ### the control state -/

/-- the ContextVar of a backend has only ever been set through `_set_disable`, which also raises
`_control_set` -/
def World.Ok (w : World) : Prop := ∀ b, w.controlSet b = false → ∀ c, w.var c b = []

theorem World.ok_init (e : Bool) : (World.init e).Ok := by
  intro b _ c
  rfl

theorem ok_setVar {w : World} (h : w.Ok) (c b : Nat) (s : List Cmd) : (setVar w c b s).Ok := by
  intro b' hb' c'
  simp only [setVar] at hb' ⊢
  by_cases e : b' = b
  · simp [e] at hb'
  · simp only [e, if_false] at hb'
    simp [e, h b' hb' c']

theorem ok_fork {w : World} (h : w.Ok) (p ch : Nat) : (fork w p ch).Ok := by
  intro b hb c
  simp only [fork] at hb ⊢
  split
  · exact h b hb p
  · exact h b hb c

theorem ok_ctlStep {t : Table} {w : World} (h : w.Ok) (op : CtlOp) : (ctlStep t w op).1.Ok := by
  cases op with
  | disable c cmds p =>
    simp only [ctlStep]
    split
    · exact h
    · exact ok_setVar h _ _ _
  | enable c cmds p =>
    simp only [ctlStep]
    split
    · exact h
    · exact ok_setVar h _ _ _
  | exitDisabling c cmds p =>
    simp only [ctlStep]
    split
    · exact h
    · exact ok_setVar h _ _ _
  | fork p ch => exact ok_fork h p ch

theorem ok_ctlRun {t : Table} : ∀ (ops : List CtlOp) {w : World}, w.Ok → (ctlRun t w ops).Ok
  | [], _, h => h
  | op :: ops, w, h => by
    simp only [ctlRun, List.foldl_cons]
    exact ok_ctlRun ops (ok_ctlStep h op)

/-- the decision as a function of the set seen in the current context -/
def disabledIn (d : List Cmd) (cmds : List Cmd) : Bool :=
  if cmds.isEmpty && !d.isEmpty then true else cmds.any fun x => d.contains x

def fullIn (d : List Cmd) : Bool := Cmd.all.all fun x => d.contains x

/-- with `enable_by_default = True` the shared flag `_control_set` cannot be observed: the answer is a
function of the context's own set -/
theorem isDisable_eq {w : World} (h : w.Ok) (c b : Nat) (he : w.enableByDefault b = true)
    (cmds : List Cmd) : isDisable w c b cmds = disabledIn (w.var c b) cmds := by
  unfold isDisable disabledIn
  cases hb : w.controlSet b with
  | true => simp
  | false => simp [he, h b hb c]

theorem isFullDisable_eq {w : World} (h : w.Ok) (c b : Nat) (he : w.enableByDefault b = true) :
    isFullDisable w c b = fullIn (w.var c b) := by
  unfold isFullDisable fullIn
  cases hb : w.controlSet b with
  | true => simp
  | false =>
    simp only [he, h b hb c]
    decide

theorem ctlStep_enableByDefault (t : Table) (w : World) (op : CtlOp) :
    (ctlStep t w op).1.enableByDefault = w.enableByDefault := by
  cases op <;> simp only [ctlStep] <;> (try split) <;> rfl

theorem ctlRun_enableByDefault (t : Table) : ∀ (ops : List CtlOp) (w : World),
    (ctlRun t w ops).enableByDefault = w.enableByDefault
  | [], _ => rfl
  | op :: ops, w => by
    simp only [ctlRun, List.foldl_cons]
    exact (ctlRun_enableByDefault t ops _).trans (ctlStep_enableByDefault t w op)

/-- an operation changes the variable only in its own target context -/
theorem ctlStep_var_other (t : Table) (w : World) (op : CtlOp) (c' : Nat) (h : op.target ≠ c') :
    (ctlStep t w op).1.var c' = w.var c' := by
  cases op with
  | disable c cmds p =>
    simp only [ctlStep]
    simp only [CtlOp.target] at h
    split
    · rfl
    · funext b'
      have : ¬ c' = c := fun e => h e.symm
      simp [disableB, setVar, this]
  | enable c cmds p =>
    simp only [ctlStep]
    simp only [CtlOp.target] at h
    split
    · rfl
    · funext b'
      have : ¬ c' = c := fun e => h e.symm
      simp [enableB, setVar, this]
  | exitDisabling c cmds p =>
    simp only [ctlStep]
    simp only [CtlOp.target] at h
    split
    · rfl
    · funext b'
      have : ¬ c' = c := fun e => h e.symm
      simp [enableB, setVar, this]
  | fork p ch =>
    simp only [CtlOp.target] at h
    have : ¬ c' = ch := fun e => h e.symm
    simp [ctlStep, fork, this]

theorem ctlRun_var_other (t : Table) (c' : Nat) : ∀ (ops : List CtlOp) (w : World),
    (∀ op ∈ ops, op.target ≠ c') → (ctlRun t w ops).var c' = w.var c'
  | [], _, _ => rfl
  | op :: ops, w, h => by
    simp only [ctlRun, List.foldl_cons]
    have h1 := ctlRun_var_other t c' ops (ctlStep t w op).1 (fun o ho => h o (List.mem_cons_of_mem _ ho))
    simp only [ctlRun] at h1
    rw [h1]
    exact ctlStep_var_other t w op c' (h op (by simp))

/-- fully disabled ⇒ every single command is disabled -/
theorem isDisable_of_full {w : World} {c b : Nat} (h : isFullDisable w c b = true) (cmd : Cmd) :
    isDisable w c b [cmd] = true := by
  unfold isFullDisable at h
  unfold isDisable
  cases hb : w.controlSet b with
  | false => simpa [hb] using h
  | true =>
    simp only [hb, if_true] at h ⊢
    rw [List.all_eq_true] at h
    simpa using h cmd (Cmd.mem_all cmd)

/-! ### the group loops -/

/-- the value the caller sees for a slot, given what the backend calls answered -/
def evalSlot {ν : Type} (ans : Nat → Nat → ν) (dv nv : ν) : Slot → ν
  | .dflt => dv
  | .resp call pos => ans call pos
  | .missing => nv

/-- the issued calls answered position by position with a value that depends on the backend and the
key only (what C01's `get_many_positional` says about a backend) -/
def Positional {ν : Type} (calls : List Call) (ans : Nat → Nat → ν) (f : Nat → List Nat → ν) : Prop :=
  ∀ ci (h : ci < calls.length) j (hj : j < (calls[ci]).keys.length),
    ans ci j = f (calls[ci]).target.backend ((calls[ci]).keys[j])

theorem groupCalls_length (w : World) (c : Nat) (inTx : Bool) (cmd : Cmd) :
    ∀ (groups : List (Nat × List (List Nat))) (n : Nat),
    (groupCalls w c inTx cmd groups n).2.length = groups.length
  | [], _ => rfl
  | (b, ks) :: r, n => by
    simp only [groupCalls]
    split
    · simp [groupCalls_length w c inTx cmd r n]
    · simp [groupCalls_length w c inTx cmd r (n + 1)]

/-- every call of the loop is an enabled group's command with exactly that group's keys -/
theorem groupCalls_mem (w : World) (c : Nat) (inTx : Bool) (cmd : Cmd) :
    ∀ (groups : List (Nat × List (List Nat))) (n : Nat) (call : Call),
    call ∈ (groupCalls w c inTx cmd groups n).1 →
    ∃ b ks, (b, ks) ∈ groups ∧ call = ⟨targetOf inTx b, cmd, ks⟩ ∧
      isDisable w c (targetOf inTx b).ctl [cmd] = false
  | [], _, _, h => by simp [groupCalls] at h
  | (b, ks) :: r, n, call, h => by
    simp only [groupCalls] at h
    split at h
    · obtain ⟨b', ks', h1, h2, h3⟩ := groupCalls_mem w c inTx cmd r n call h
      exact ⟨b', ks', List.mem_cons_of_mem _ h1, h2, h3⟩
    · rename_i hd
      rcases List.mem_cons.1 h with h | h
      · exact ⟨b, ks, by simp, h, by simpa using hd⟩
      · obtain ⟨b', ks', h1, h2, h3⟩ := groupCalls_mem w c inTx cmd r (n + 1) call h
        exact ⟨b', ks', List.mem_cons_of_mem _ h1, h2, h3⟩

/-- conversely every enabled group issues its call -/
theorem groupCalls_complete (w : World) (c : Nat) (inTx : Bool) (cmd : Cmd) :
    ∀ (groups : List (Nat × List (List Nat))) (n : Nat) (b : Nat) (ks : List (List Nat)),
    (b, ks) ∈ groups → isDisable w c (targetOf inTx b).ctl [cmd] = false →
    ⟨targetOf inTx b, cmd, ks⟩ ∈ (groupCalls w c inTx cmd groups n).1
  | [], _, _, _, h, _ => by simp at h
  | (b0, ks0) :: r, n, b, ks, h, hd => by
    simp only [groupCalls]
    split
    · rename_i hd0
      rcases List.mem_cons.1 h with h | h
      · cases h
        rw [hd0] at hd
        simp at hd
      · exact groupCalls_complete w c inTx cmd r n b ks h hd
    · rcases List.mem_cons.1 h with h | h
      · cases h
        simp
      · exact List.mem_cons_of_mem _ (groupCalls_complete w c inTx cmd r (n + 1) b ks h hd)

theorem target_backend_targetOf (inTx : Bool) (b : Nat) : (targetOf inTx b).backend = b := by
  cases inTx <;> rfl

theorem target_ctl_targetOf (inTx : Bool) (b : Nat) : (targetOf inTx b).ctl = b := by
  cases inTx <;> rfl

/-- the slots of group `i` evaluate to one value per key of the group: the default if the group's
backend has the command disabled, the backend's own answer for that key otherwise -/
theorem groupCalls_eval {ν : Type} (w : World) (c : Nat) (inTx : Bool) (cmd : Cmd)
    (ans : Nat → Nat → ν) (dv nv : ν) (f : Nat → List Nat → ν) :
    ∀ (groups : List (Nat × List (List Nat))) (pre : List Call),
    Positional (pre ++ (groupCalls w c inTx cmd groups pre.length).1) ans f →
    ∀ i (h : i < groups.length),
      (((groupCalls w c inTx cmd groups pre.length).2).getD i []).map (evalSlot ans dv nv) =
        (groups[i]).2.map fun k =>
          if isDisable w c (groups[i]).1 [cmd] then dv else f (groups[i]).1 k
  | [], _, _, i, h => by simp at h
  | (b, ks) :: r, pre, hpos, i, h => by
    simp only [groupCalls] at hpos ⊢
    rw [target_ctl_targetOf] at hpos ⊢
    by_cases hd : isDisable w c b [cmd] = true
    · simp only [hd, if_true] at hpos ⊢
      cases i with
      | zero =>
        simp only [List.getD_cons_zero, List.getElem_cons_zero, hd, if_true]
        rw [List.map_replicate]
        simp [evalSlot, List.map_const']
      | succ i =>
        simp only [List.getD_cons_succ, List.getElem_cons_succ]
        exact groupCalls_eval w c inTx cmd ans dv nv f r pre hpos i (by simpa using h)
    · simp only [hd] at hpos ⊢
      simp only [Bool.false_eq_true, if_false] at hpos ⊢
      cases i with
      | zero =>
        simp only [List.getD_cons_zero, List.getElem_cons_zero, List.map_map]
        apply List.ext_getElem
        · simp
        · intro j h1 h2
          simp only [List.getElem_map, List.getElem_range, Function.comp, evalSlot]
          have hlen : pre.length < (pre ++ ((⟨targetOf inTx b, cmd, ks⟩ : Call) ::
              (groupCalls w c inTx cmd r (pre.length + 1)).1)).length := by simp
          have hj : j < ks.length := by simpa using h2
          have := hpos pre.length hlen j (by simpa using hj)
          simp only [List.getElem_append_right (Nat.le_refl _), Nat.sub_self,
            List.getElem_cons_zero, target_backend_targetOf] at this
          simpa [hd] using this
      | succ i =>
        simp only [List.getD_cons_succ, List.getElem_cons_succ]
        have hpos' : Positional ((pre ++ [(⟨targetOf inTx b, cmd, ks⟩ : Call)]) ++
            (groupCalls w c inTx cmd r (pre ++ [(⟨targetOf inTx b, cmd, ks⟩ : Call)]).length).1) ans f := by
          simpa using hpos
        have := groupCalls_eval w c inTx cmd ans dv nv f r (pre ++ [(⟨targetOf inTx b, cmd, ks⟩ : Call)])
          hpos' i (by simpa using h)
        simpa using this

/-! ### the loops over all registered backends -/

theorem allBackendsCalls_mem (w : World) (c : Nat) (cmd : Cmd) :
    ∀ (bs : List Nat) (call : Call), call ∈ allBackendsCalls w c cmd bs ↔
      ∃ b ∈ bs, call = ⟨.raw b, cmd, []⟩ ∧ isDisable w c b [cmd] = false
  | [], _ => by simp [allBackendsCalls]
  | b :: r, call => by
    simp only [allBackendsCalls]
    split
    · rename_i hd
      rw [allBackendsCalls_mem w c cmd r]
      constructor
      · rintro ⟨b', h1, h2, h3⟩
        exact ⟨b', List.mem_cons_of_mem _ h1, h2, h3⟩
      · rintro ⟨b', h1, h2, h3⟩
        rcases List.mem_cons.1 h1 with rfl | h1
        · rw [hd] at h3
          simp at h3
        · exact ⟨b', h1, h2, h3⟩
    · rename_i hd
      rw [List.mem_cons, allBackendsCalls_mem w c cmd r]
      constructor
      · rintro (h | ⟨b', h1, h2, h3⟩)
        · exact ⟨b, by simp, h, by simpa using hd⟩
        · exact ⟨b', List.mem_cons_of_mem _ h1, h2, h3⟩
      · rintro ⟨b', h1, h2, h3⟩
        rcases List.mem_cons.1 h1 with rfl | h1
        · exact Or.inl h2
        · exact Or.inr ⟨b', h1, h2, h3⟩

/-! ### unwrapping the `dict.get` results -/

theorem map_ofOption_eval {ν : Type} (e : Slot → ν) : ∀ (R : List (Option Slot)) (L : List ν),
    R.map (Option.map e) = L.map some → (R.map Slot.ofOption).map e = L
  | [], L, h => by
    cases L with
    | nil => rfl
    | cons _ _ => simp at h
  | r :: R, L, h => by
    cases L with
    | nil => simp at h
    | cons l L =>
      simp only [List.map_cons, List.cons.injEq] at h ⊢
      refine ⟨?_, map_ofOption_eval e R L h.2⟩
      cases r with
      | none => simp at h
      | some s => simpa [Slot.ofOption] using h.1

/-! ### routing facts used by the property theorems -/

theorem getBackend_mem_backends {t : Table} {key : List Nat} {b : Nat}
    (h : t.getBackend key = some b) : b ∈ t.backends := by
  unfold Table.getBackend at h
  cases hr : t.routePrefix key with
  | none => simp [hr] at h
  | some p =>
    simp only [hr, Option.bind_some] at h
    exact List.mem_map.2 ⟨(p, b), mem_of_dictGet h, rfl⟩

/-! ### decorated functions -/

theorem decoratedCalls_bypass (t : Table) (w : World) (c : Nat) (key : List Nat)
    (hreg : t.regs ≠ []) (hfull : facadeFullDisable t w c = true) :
    ∀ (n : Nat) (st : DecSt),
    decoratedCalls t w c key n st = some { st with execs := st.execs + n }
  | 0, st => rfl
  | n + 1, st => by
    have hne : t.regs.isEmpty = false := by
      cases h : t.regs with
      | nil => exact absurd h hreg
      | cons _ _ => rfl
    simp only [decoratedCalls, decoratedCall, hne, hfull, if_true, Bool.false_eq_true, if_false,
      Option.bind_some]
    rw [decoratedCalls_bypass t w c key hreg hfull n]
    simp [Nat.add_assoc, Nat.add_comm 1 n]

end CashewsVerif.Disable

namespace CashewsVerif.Disable
open CashewsVerif.Route

/-- one call per group at most, in group order -/
theorem groupCalls_backends_sublist (w : World) (c : Nat) (inTx : Bool) (cmd : Cmd) :
    ∀ (groups : List (Nat × List (List Nat))) (n : Nat),
    ((groupCalls w c inTx cmd groups n).1.map fun cl => cl.target.backend).Sublist (groups.map (·.1))
  | [], _ => by simp [groupCalls]
  | (b, ks) :: r, n => by
    simp only [groupCalls]
    split
    · exact (groupCalls_backends_sublist w c inTx cmd r n).trans (List.sublist_cons_self _ _)
    · simp only [List.map_cons, target_backend_targetOf]
      exact (groupCalls_backends_sublist w c inTx cmd r (n + 1)).cons_cons _

/-- what is left of a call when the wrapper object is forgotten -/
def Call.erase (cl : Call) : Nat × Cmd × List (List Nat) := (cl.target.backend, cl.cmd, cl.keys)

/-- inside a transaction the loop takes the same decisions (the wrapper delegates its control state) -/
theorem groupCalls_tx (w : World) (c : Nat) (cmd : Cmd) :
    ∀ (groups : List (Nat × List (List Nat))) (n : Nat),
    (groupCalls w c true cmd groups n).2 = (groupCalls w c false cmd groups n).2 ∧
    (groupCalls w c true cmd groups n).1.map Call.erase =
      (groupCalls w c false cmd groups n).1.map Call.erase
  | [], _ => by simp [groupCalls]
  | (b, ks) :: r, n => by
    simp only [groupCalls, target_ctl_targetOf]
    split
    · have := groupCalls_tx w c cmd r n
      simp [this.1, this.2]
    · have := groupCalls_tx w c cmd r (n + 1)
      simp [this.1, this.2, Call.erase, target_backend_targetOf]

end CashewsVerif.Disable

/-! concrete tables and control states used by the non-vacuity examples of `Props/C17.lean` -/
namespace CashewsVerif.Disable.Ex
open CashewsVerif.Route

/-- "", "a", "ab", "a:", "b" registered in this order as backends 0..4 -/
def T5 : Table :=
  Table.ofList [([], 0), ([97], 1), ([97, 98], 2), ([97, 58], 3), ([98], 4)]

/-- contexts: 0 = parent task, 1 = child task; backend 1 ("a") has `get_many` disabled in context 0 -/
def W1 : World := ctlRun T5 (World.init true) [.disable 0 [.getMany] [97]]

/-- one backend under "" -/
def T1 : Table := Table.ofList [([], 0)]

/-- ... fully disabled in context 0 -/
def Wfull : World := ctlRun T1 (World.init true) [.disable 0 [] []]

end CashewsVerif.Disable.Ex
