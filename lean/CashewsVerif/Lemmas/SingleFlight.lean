import CashewsVerif.Model.SingleFlight
/-
C07 helper lemmas: the inductive invariant of the single-flight transition system, its preservation by
every action, the counting lemma, and the non-interference relation used for cancellation locality.
-/
namespace CashewsVerif.SingleFlight

@[simp] theorem upd_same {β : Type} (f : Nat → β) (a : Nat) (b : β) : upd f a b a = b := by
  simp [upd]

theorem upd_other {β : Type} (f : Nat → β) {a x : Nat} (b : β) (h : x ≠ a) : upd f a b x = f x := by
  simp [upd, h]

theorem upd_apply {β : Type} (f : Nat → β) (a x : Nat) (b : β) : upd f a b x = if x = a then b else f x := rfl

theorem step_call (s : SfSt) (c key n : Nat) (o : Outcome) : step s (.call c key n o) = stepCall s c key n o := rfl
theorem step_bodyStep (s : SfSt) (e : Nat) : step s (.bodyStep e) = stepBody s e := rfl
theorem step_finish (s : SfSt) (e : Nat) : step s (.finish e) = stepFinish s e := rfl
theorem step_cancel (s : SfSt) (c : Nat) : step s (.cancel c) = stepCancel s c := rfl
theorem step_tick (s : SfSt) (d : Nat) : step s (.tick d) = { s with now := s.now + d } := rfl

/-- what a caller's state says about the execution it joined -/
def CallerOk (x : Exec) (st : CSt) : Prop :=
  st = .cancelled ∨ (st = .waiting ∧ x.finished = false) ∨ (st = .got x.outcome ∧ x.finished = true)

/-- The inductive invariant. -/
structure Inv (s : SfSt) : Prop where
  /-- an unfinished execution is registered under its key (`tasks[_key] = task` until the done-callback) -/
  reg : ∀ e x, s.execs e = some x → x.finished = false → s.table x.key = some e
  /-- the table only holds unfinished executions of that key -/
  tab : ∀ k e, s.table k = some e → ∃ x, s.execs e = some x ∧ x.key = k ∧ x.finished = false
  /-- execution ids are ids of callers that have made their call -/
  fresh : ∀ e, s.execs e ≠ none → s.callers e ≠ none
  mem : ∀ e, e ∈ s.created ↔ s.execs e ≠ none
  nodup : s.created.Nodup
  /-- a caller that joined `e` is cancelled, or still waiting on the unfinished `e`, or holds exactly `e`'s outcome -/
  joined : ∀ c e st, s.callers c = some ⟨some e, st⟩ → ∃ x, s.execs e = some x ∧ CallerOk x st

theorem inv_init (b : Bool) (T : Nat) : Inv (init b T) := by
  constructor <;> simp [init]

theorem deliver_apply (callers : Nat → Option Caller) (e : Nat) (o : Outcome) (c : Nat) :
    deliver callers e o c =
      match callers c with
      | some ⟨some e', .waiting⟩ => if e' = e then some ⟨some e', .got o⟩ else some ⟨some e', .waiting⟩
      | r => r := rfl

theorem deliver_none_iff (callers : Nat → Option Caller) (e : Nat) (o : Outcome) (c : Nat) :
    deliver callers e o c = none ↔ callers c = none := by
  rw [deliver_apply]
  split
  · rename_i h; split <;> simp [h]
  · rfl

/-- what `deliver` does to one caller, case by case -/
theorem deliver_cases (callers : Nat → Option Caller) (e : Nat) (o : Outcome) (c : Nat) :
    (callers c = some ⟨some e, .waiting⟩ ∧ deliver callers e o c = some ⟨some e, .got o⟩) ∨
    (callers c ≠ some ⟨some e, .waiting⟩ ∧ deliver callers e o c = callers c) := by
  rw [deliver_apply]
  split
  · rename_i e' h
    by_cases he : e' = e
    · subst he; left; simp [h]
    · right; simp [h, he]
  · rename_i h
    right
    refine ⟨?_, rfl⟩
    intro h'
    exact h e h'

theorem inv_call (s : SfSt) (h : Inv s) (c key n : Nat) (o : Outcome) : Inv (step s (.call c key n o)) := by
  show Inv (stepCall s c key n o)
  unfold stepCall
  split
  · exact h
  · rename_i hc
    split
    · -- join
      rename_i e he
      obtain ⟨x, hx, hk, hf⟩ := h.tab key e he
      constructor
      · exact h.reg
      · exact h.tab
      · intro e' he'
        simp only [upd_apply]
        split
        · simp
        · exact h.fresh e' he'
      · exact h.mem
      · exact h.nodup
      · intro c' e' st hc'
        simp only [upd_apply] at hc'
        split at hc'
        · simp only [Option.some.injEq, Caller.mk.injEq] at hc'
          obtain ⟨h1, h2⟩ := hc'
          subst h2
          have : e = e' := by simpa using h1
          subst this
          exact ⟨x, hx, Or.inr (Or.inl ⟨rfl, hf⟩)⟩
        · exact h.joined c' e' st hc'
    · -- create
      rename_i ht
      have hec : s.execs c = none := by
        cases hh : s.execs c with
        | none => rfl
        | some x => exact absurd hc (h.fresh c (by rw [hh]; simp))
      constructor
      · intro e x he hf
        simp only [upd_apply] at he ⊢
        by_cases hce : e = c
        · subst hce
          simp only [if_true, Option.some.injEq] at he
          subst he
          have hk : (newExec s key n o).key = key := by
            unfold newExec; split <;> rfl
          simp [hk]
        · simp only [hce, if_false] at he
          have := h.reg e x he hf
          by_cases hk : x.key = key
          · rw [hk, ht] at this; simp at this
          · simp [hk, this]
      · intro k e hk
        simp only [upd_apply] at hk ⊢
        by_cases hkk : k = key
        · subst hkk
          simp only [if_true, Option.some.injEq] at hk
          subst hk
          refine ⟨newExec s k n o, by simp, ?_, ?_⟩ <;> (unfold newExec; split <;> rfl)
        · simp only [hkk, if_false] at hk
          obtain ⟨x, hx, hxk, hxf⟩ := h.tab k e hk
          have : e ≠ c := by
            intro hh; subst hh; rw [hec] at hx; simp at hx
          exact ⟨x, by simp [this, hx], hxk, hxf⟩
      · intro e he
        simp only [upd_apply] at he ⊢
        by_cases hce : e = c
        · simp [hce]
        · simp only [hce, if_false] at he ⊢
          exact h.fresh e he
      · intro e
        simp only [upd_apply, List.mem_append, List.mem_singleton]
        by_cases hce : e = c
        · simp [hce]
        · simp only [hce, if_false, or_false]
          exact h.mem e
      · have : c ∉ s.created := by
          intro hm
          exact (h.mem c).1 hm hec
        have this' : ∀ a ∈ s.created, ¬ a = c := fun a ha hac => this (hac ▸ ha)
        simpa [List.nodup_append, h.nodup] using this'
      · intro c' e' st hc'
        simp only [upd_apply] at hc' ⊢
        by_cases hcc : c' = c
        · simp only [hcc, if_true, Option.some.injEq, Caller.mk.injEq] at hc'
          obtain ⟨h1, h2⟩ := hc'
          subst h2
          have : c = e' := by simpa using h1
          subst this
          refine ⟨newExec s key n o, by simp, Or.inr (Or.inl ⟨rfl, ?_⟩)⟩
          unfold newExec; split <;> rfl
        · simp only [hcc, if_false] at hc'
          obtain ⟨x, hx, hok⟩ := h.joined c' e' st hc'
          have : e' ≠ c := by
            intro hh; subst hh; rw [hec] at hx; simp at hx
          exact ⟨x, by simp [this, hx], hok⟩

theorem inv_bodyStep (s : SfSt) (h : Inv s) (e : Nat) : Inv (step s (.bodyStep e)) := by
  show Inv (stepBody s e)
  unfold stepBody
  split
  · exact h
  · rename_i x hx
    split
    · exact h
    · rename_i hcond
      have hfin : x.finished = false := by
        cases hf : x.finished <;> simp_all
      constructor
      · intro e' x' he' hf'
        simp only [upd_apply] at he'
        by_cases hee : e' = e
        · subst hee
          simp only [if_true, Option.some.injEq] at he'
          subst he'
          exact h.reg e' x hx hfin
        · simp only [hee, if_false] at he'
          exact h.reg e' x' he' hf'
      · intro k e' hk
        obtain ⟨x', hx', hk', hf'⟩ := h.tab k e' hk
        simp only [upd_apply]
        by_cases hee : e' = e
        · subst hee
          rw [hx] at hx'
          simp only [Option.some.injEq] at hx'
          subst hx'
          exact ⟨_, if_pos rfl, hk', hf'⟩
        · exact ⟨x', by simp [hee, hx'], hk', hf'⟩
      · intro e' he'
        simp only [upd_apply] at he'
        by_cases hee : e' = e
        · subst hee
          exact h.fresh e' (by rw [hx]; simp)
        · simp only [hee, if_false] at he'
          exact h.fresh e' he'
      · intro e'
        simp only [upd_apply]
        by_cases hee : e' = e
        · subst hee
          simp only [if_true, ne_eq, reduceCtorEq, not_false_eq_true, iff_true]
          exact (h.mem e').2 (by rw [hx]; simp)
        · simp only [hee, if_false]
          exact h.mem e'
      · exact h.nodup
      · intro c e' st hc
        obtain ⟨x', hx', hok⟩ := h.joined c e' st hc
        simp only [upd_apply]
        by_cases hee : e' = e
        · subst hee
          rw [hx] at hx'
          simp only [Option.some.injEq] at hx'
          subst hx'
          exact ⟨_, if_pos rfl, hok⟩
        · exact ⟨x', by simp [hee, hx'], hok⟩

theorem inv_finish (s : SfSt) (h : Inv s) (e : Nat) : Inv (step s (.finish e)) := by
  show Inv (stepFinish s e)
  unfold stepFinish
  split
  · exact h
  · rename_i x hx
    split
    · exact h
    · rename_i hcond
      have hfin : x.finished = false := by
        cases hf : x.finished <;> simp_all
      constructor
      · -- reg
        intro e' x' he' hf'
        simp only [upd_apply] at he' ⊢
        by_cases hee : e' = e
        · subst hee
          simp only [if_true, Option.some.injEq] at he'
          subst he'
          simp at hf'
        · simp only [hee, if_false] at he'
          have h1 := h.reg e' x' he' hf'
          have h2 := h.reg e x hx hfin
          by_cases hk : x'.key = x.key
          · rw [hk, h2] at h1
            simp only [Option.some.injEq] at h1
            exact absurd h1.symm hee
          · simp [hk, h1]
      · -- tab
        intro k e' hk
        simp only [upd_apply] at hk ⊢
        by_cases hkk : k = x.key
        · simp [hkk] at hk
        · simp only [hkk, if_false] at hk
          obtain ⟨x', hx', hk', hf'⟩ := h.tab k e' hk
          have : e' ≠ e := by
            intro hh; subst hh; rw [hx] at hx'
            simp only [Option.some.injEq] at hx'
            subst hx'; exact hkk hk'.symm
          exact ⟨x', by simp [this, hx'], hk', hf'⟩
      · -- fresh
        intro e' he'
        simp only [upd_apply] at he'
        have : s.execs e' ≠ none := by
          by_cases hee : e' = e
          · subst hee; rw [hx]; simp
          · simpa [hee] using he'
        intro hd
        exact h.fresh e' this ((deliver_none_iff _ _ _ _).1 hd)
      · -- mem
        intro e'
        simp only [upd_apply]
        by_cases hee : e' = e
        · subst hee
          simp only [if_true, ne_eq, reduceCtorEq, not_false_eq_true, iff_true]
          exact (h.mem e').2 (by rw [hx]; simp)
        · simp only [hee, if_false]
          exact h.mem e'
      · exact h.nodup
      · -- joined
        intro c e' st hc
        dsimp only at hc ⊢
        simp only [upd_apply]
        rcases deliver_cases s.callers e x.outcome c with ⟨h1, h2⟩ | ⟨h1, h2⟩
        · rw [h2] at hc
          simp only [Option.some.injEq, Caller.mk.injEq] at hc
          obtain ⟨h3, h4⟩ := hc
          have : e = e' := by simpa using h3
          subst this
          subst h4
          exact ⟨_, if_pos rfl, Or.inr (Or.inr ⟨rfl, rfl⟩)⟩
        · rw [h2] at hc
          obtain ⟨x', hx', hok⟩ := h.joined c e' st hc
          by_cases hee : e' = e
          · subst hee
            rw [hx] at hx'
            simp only [Option.some.injEq] at hx'
            subst hx'
            refine ⟨_, if_pos rfl, ?_⟩
            rcases hok with hok | ⟨hok, _⟩ | ⟨_, hok⟩
            · exact Or.inl hok
            · subst hok; exact absurd hc h1
            · rw [hfin] at hok; simp at hok
          · exact ⟨x', by simp [hee, hx'], hok⟩

theorem inv_cancel (s : SfSt) (h : Inv s) (c : Nat) : Inv (step s (.cancel c)) := by
  show Inv (stepCancel s c)
  unfold stepCancel
  split
  · rename_i hc
    constructor
    · exact h.reg
    · exact h.tab
    · intro e he
      simp only [upd_apply]
      split
      · simp
      · exact h.fresh e he
    · exact h.mem
    · exact h.nodup
    · intro c' e' st hc'
      simp only [upd_apply] at hc'
      split at hc'
      · simp at hc'
      · exact h.joined c' e' st hc'
  · rename_i e hc
    constructor
    · exact h.reg
    · exact h.tab
    · intro e' he'
      simp only [upd_apply]
      split
      · simp
      · exact h.fresh e' he'
    · exact h.mem
    · exact h.nodup
    · intro c' e' st hc'
      simp only [upd_apply] at hc'
      split at hc'
      · rename_i hcc
        subst hcc
        simp only [Option.some.injEq, Caller.mk.injEq] at hc'
        obtain ⟨h1, h2⟩ := hc'
        subst h1; subst h2
        obtain ⟨x, hx, _⟩ := h.joined c' e' .waiting hc
        exact ⟨x, hx, Or.inl rfl⟩
      · exact h.joined c' e' st hc'
  · exact h

theorem inv_step (s : SfSt) (h : Inv s) (a : Act) : Inv (step s a) := by
  cases a with
  | call c key n o => exact inv_call s h c key n o
  | bodyStep e => exact inv_bodyStep s h e
  | finish e => exact inv_finish s h e
  | cancel c => exact inv_cancel s h c
  | tick d => exact ⟨h.reg, h.tab, h.fresh, h.mem, h.nodup, h.joined⟩

theorem inv_run (s : SfSt) (h : Inv s) (tr : List Act) : Inv (run s tr) := by
  induction tr generalizing s with
  | nil => exact h
  | cons a tr ih => exact ih (step s a) (inv_step s h a)

theorem run_append (s : SfSt) (t1 t2 : List Act) : run s (t1 ++ t2) = run (run s t1) t2 := by
  simp [run, List.foldl_append]

theorem run_cons (s : SfSt) (a : Act) (t : List Act) : run s (a :: t) = run (step s a) t := rfl

/-- in-flight executions of one key are unique -/
theorem inflight_unique (s : SfSt) (h : Inv s) (key e1 e2 : Nat)
    (h1 : InFlight s e1 key) (h2 : InFlight s e2 key) : e1 = e2 := by
  obtain ⟨x1, hx1, hk1, hf1⟩ := h1
  obtain ⟨x2, hx2, hk2, hf2⟩ := h2
  have a := h.reg e1 x1 hx1 hf1
  have b := h.reg e2 x2 hx2 hf2
  rw [hk1] at a
  rw [hk2, a] at b
  simpa using b

/-- counting: in a duplicate-free list, a predicate satisfied by at most one value is satisfied at most once -/
theorem filter_length_le_one (l : List Nat) (p : Nat → Bool) (hn : l.Nodup)
    (hu : ∀ a b, a ∈ l → b ∈ l → p a = true → p b = true → a = b) : (l.filter p).length ≤ 1 := by
  induction l with
  | nil => simp
  | cons a l ih =>
    have hn' := List.nodup_cons.1 hn
    have ih' := ih hn'.2 (fun x y hx hy => hu x y (List.mem_cons_of_mem _ hx) (List.mem_cons_of_mem _ hy))
    by_cases hp : p a = true
    · have : l.filter p = [] := by
        rw [List.filter_eq_nil_iff]
        intro b hb hpb
        have := hu a b (List.mem_cons_self) (List.mem_cons_of_mem _ hb) hp hpb
        subst this
        exact hn'.1 hb
      simp [hp, this]
    · simp only [List.filter_cons, hp]
      exact ih'

theorem inFlightB_iff (s : SfSt) (key e : Nat) : inFlightB s key e = true ↔ InFlight s e key := by
  unfold inFlightB InFlight
  split
  · rename_i x hx
    constructor
    · intro hb
      simp only [Bool.and_eq_true, beq_iff_eq, Bool.not_eq_true'] at hb
      exact ⟨x, hx, hb.1, hb.2⟩
    · rintro ⟨x', hx', hk, hf⟩
      rw [hx] at hx'
      simp only [Option.some.injEq] at hx'
      subst hx'
      simp [hk, hf]
  · rename_i hx
    constructor
    · intro hb; simp at hb
    · rintro ⟨x', hx', _⟩
      rw [hx] at hx'; simp at hx'

theorem bodyRunningB_imp (s : SfSt) (key e : Nat) (hb : bodyRunningB s key e = true) : inFlightB s key e = true := by
  unfold bodyRunningB at hb
  unfold inFlightB
  split at hb
  · simp only [Bool.and_eq_true] at hb
    simpa using hb.1
  · simp at hb

/-! ### non-interference of a cancellation -/

/-- two states that differ at most in the entry of caller `c`, who has made its call (or was cancelled) in both -/
structure Agree (c : Nat) (s1 s2 : SfSt) : Prop where
  caching : s1.caching = s2.caching
  table : s1.table = s2.table
  execs : s1.execs = s2.execs
  cached : s1.cached = s2.cached
  created : s1.created = s2.created
  others : ∀ c', c' ≠ c → s1.callers c' = s2.callers c'
  here1 : s1.callers c ≠ none
  here2 : s2.callers c ≠ none
  ttl : s1.ttl = s2.ttl
  now : s1.now = s2.now

theorem stepCancel_frame (s : SfSt) (c : Nat) :
    (stepCancel s c).caching = s.caching ∧ (stepCancel s c).table = s.table ∧
    (stepCancel s c).execs = s.execs ∧ (stepCancel s c).cached = s.cached ∧
    (stepCancel s c).created = s.created ∧
    (∀ c', c' ≠ c → (stepCancel s c).callers c' = s.callers c') ∧
    ((stepCancel s c).callers c ≠ none) := by
  unfold stepCancel
  split
  · exact ⟨rfl, rfl, rfl, rfl, rfl, fun c' hc' => by simp [upd_apply, hc'], by simp⟩
  · exact ⟨rfl, rfl, rfl, rfl, rfl, fun c' hc' => by simp [upd_apply, hc'], by simp⟩
  · refine ⟨rfl, rfl, rfl, rfl, rfl, fun _ _ => rfl, ?_⟩
    intro hn
    simp_all

/-- a cancellation touches nothing but the cancelled caller's own entry -/
theorem cancel_frame (s : SfSt) (c : Nat) :
    (step s (.cancel c)).caching = s.caching ∧ (step s (.cancel c)).table = s.table ∧
    (step s (.cancel c)).execs = s.execs ∧ (step s (.cancel c)).cached = s.cached ∧
    (step s (.cancel c)).created = s.created ∧
    (∀ c', c' ≠ c → (step s (.cancel c)).callers c' = s.callers c') ∧
    (step s (.cancel c)).callers c ≠ none := stepCancel_frame s c

theorem stepCancel_clock (s : SfSt) (c : Nat) : (stepCancel s c).ttl = s.ttl ∧ (stepCancel s c).now = s.now := by
  unfold stepCancel
  split <;> exact ⟨rfl, rfl⟩

theorem stepCall_used (s : SfSt) (c key n : Nat) (o : Outcome) (h : s.callers c ≠ none) : stepCall s c key n o = s := by
  unfold stepCall
  cases hh : s.callers c with
  | none => exact absurd hh h
  | some _ => rfl

theorem agree_call (c : Nat) (s1 s2 : SfSt) (h : Agree c s1 s2) (c' key n : Nat) (o : Outcome) :
    Agree c (stepCall s1 c' key n o) (stepCall s2 c' key n o) := by
  obtain ⟨hca, ht, he, hcd, hcr, ho, h1, h2, htt, hnw⟩ := h
  by_cases hcc : c' = c
  · subst hcc
    rw [stepCall_used s1 c' key n o h1, stepCall_used s2 c' key n o h2]
    exact ⟨hca, ht, he, hcd, hcr, ho, h1, h2, htt, hnw⟩
  · have hsame := ho c' hcc
    unfold stepCall
    rw [← hsame, ← ht]
    cases hh : s1.callers c' with
    | some _ => exact ⟨hca, ht, he, hcd, hcr, ho, h1, h2, htt, hnw⟩
    | none =>
      cases hk : s1.table key with
      | some e =>
        dsimp only
        refine ⟨hca, rfl, he, hcd, hcr, ?_, ?_, ?_, htt, hnw⟩
        · intro c'' hc''
          simp only [upd_apply]
          split
          · rfl
          · exact ho c'' hc''
        · simp only [upd_apply]; split <;> simp [h1]
        · simp only [upd_apply]; split <;> simp [h2]
      | none =>
        have hne : newExec s1 key n o = newExec s2 key n o := by
          unfold newExec lookupCached; rw [hca, hcd, hnw]
        dsimp only
        refine ⟨hca, ?_, ?_, hcd, ?_, ?_, ?_, ?_, htt, hnw⟩
        · first | rfl | simp only [ht]
        · first | rfl | simp only [he, hne]
        · first | rfl | simp only [hcr]
        · intro c'' hc''
          simp only [upd_apply]
          split
          · rfl
          · exact ho c'' hc''
        · simp only [upd_apply]; split <;> simp [h1]
        · simp only [upd_apply]; split <;> simp [h2]

theorem agree_body (c : Nat) (s1 s2 : SfSt) (h : Agree c s1 s2) (e : Nat) :
    Agree c (stepBody s1 e) (stepBody s2 e) := by
  obtain ⟨hca, ht, he, hcd, hcr, ho, h1, h2, htt, hnw⟩ := h
  unfold stepBody
  rw [← he]
  cases hx : s1.execs e with
  | none => exact ⟨hca, ht, he, hcd, hcr, ho, h1, h2, htt, hnw⟩
  | some x =>
    simp only
    split
    · exact ⟨hca, ht, he, hcd, hcr, ho, h1, h2, htt, hnw⟩
    · exact ⟨hca, ht, by first | rfl | simp only [he], hcd, hcr, ho, h1, h2, htt, hnw⟩

theorem agree_finish (c : Nat) (s1 s2 : SfSt) (h : Agree c s1 s2) (e : Nat) :
    Agree c (stepFinish s1 e) (stepFinish s2 e) := by
  obtain ⟨hca, ht, he, hcd, hcr, ho, h1, h2, htt, hnw⟩ := h
  unfold stepFinish
  rw [← he]
  cases hx : s1.execs e with
  | none => exact ⟨hca, ht, he, hcd, hcr, ho, h1, h2, htt, hnw⟩
  | some x =>
    simp only
    split
    · exact ⟨hca, ht, he, hcd, hcr, ho, h1, h2, htt, hnw⟩
    · refine ⟨hca, by first | rfl | simp only [ht], by first | rfl | simp only [he], by first | rfl | simp only [hca, hcd, htt, hnw], hcr, ?_, ?_, ?_, htt, hnw⟩
      · intro c' hc'
        simp only [deliver_apply]
        rw [ho c' hc']
      · simp only
        intro hd
        exact h1 ((deliver_none_iff _ _ _ _).1 hd)
      · simp only
        intro hd
        exact h2 ((deliver_none_iff _ _ _ _).1 hd)

theorem stepCancel_other (s : SfSt) (c c' : Nat) (_h : c' ≠ c) (hc : s.callers c ≠ none) :
    (stepCancel s c').callers c ≠ none := by
  unfold stepCancel
  split
  · simp only [upd_apply]; split <;> simp [hc]
  · simp only [upd_apply]; split <;> simp [hc]
  · exact hc

theorem agree_cancel (c : Nat) (s1 s2 : SfSt) (h : Agree c s1 s2) (c' : Nat) :
    Agree c (stepCancel s1 c') (stepCancel s2 c') := by
  obtain ⟨hca, ht, he, hcd, hcr, ho, h1, h2, htt, hnw⟩ := h
  obtain ⟨a3, a4, a5, a6, a7, a2, a1⟩ := stepCancel_frame s1 c'
  obtain ⟨b3, b4, b5, b6, b7, b2, b1⟩ := stepCancel_frame s2 c'
  obtain ⟨a8, a9⟩ := stepCancel_clock s1 c'
  obtain ⟨b8, b9⟩ := stepCancel_clock s2 c'
  by_cases hcc : c' = c
  · subst hcc
    exact ⟨by rw [a3, b3, hca], by rw [a4, b4, ht], by rw [a5, b5, he], by rw [a6, b6, hcd], by rw [a7, b7, hcr],
      fun c'' hc'' => by rw [a2 c'' hc'', b2 c'' hc'', ho c'' hc''], a1, b1, by rw [a8, b8, htt], by rw [a9, b9, hnw]⟩
  · refine ⟨by rw [a3, b3, hca], by rw [a4, b4, ht], by rw [a5, b5, he], by rw [a6, b6, hcd], by rw [a7, b7, hcr],
      ?_, stepCancel_other s1 c c' hcc h1, stepCancel_other s2 c c' hcc h2, by rw [a8, b8, htt], by rw [a9, b9, hnw]⟩
    intro c'' hc''
    by_cases h3 : c'' = c'
    · subst h3
      have hsame := ho c'' hc''
      unfold stepCancel
      rw [← hsame]
      split <;> first | exact hsame | simp
    · rw [a2 c'' h3, b2 c'' h3, ho c'' hc'']

theorem agree_step (c : Nat) (s1 s2 : SfSt) (h : Agree c s1 s2) (a : Act) : Agree c (step s1 a) (step s2 a) := by
  cases a with
  | call c' key n o => exact agree_call c s1 s2 h c' key n o
  | bodyStep e => exact agree_body c s1 s2 h e
  | finish e => exact agree_finish c s1 s2 h e
  | cancel c' => exact agree_cancel c s1 s2 h c'
  | tick d =>
    obtain ⟨hca, ht, he, hcd, hcr, ho, h1, h2, htt, hnw⟩ := h
    exact ⟨hca, ht, he, hcd, hcr, ho, h1, h2, htt, by show s1.now + d = s2.now + d; rw [hnw]⟩

theorem agree_run (c : Nat) (s1 s2 : SfSt) (h : Agree c s1 s2) (tr : List Act) : Agree c (run s1 tr) (run s2 tr) := by
  induction tr generalizing s1 s2 with
  | nil => exact h
  | cons a tr ih => exact ih _ _ (agree_step c s1 s2 h a)

/-! ### scripts are fixed at creation; settled callers stay settled -/

/-- `x'` is a later stage of the same execution as `x` -/
def Exec.Later (x x' : Exec) : Prop :=
  x'.key = x.key ∧ x'.outcome = x.outcome ∧ x'.hit = x.hit ∧ (x.finished = true → x'.finished = true) ∧
  x'.remaining ≤ x.remaining

theorem Exec.later_refl (x : Exec) : Exec.Later x x := ⟨rfl, rfl, rfl, id, Nat.le_refl _⟩

theorem Exec.later_trans {x y z : Exec} (a : Exec.Later x y) (b : Exec.Later y z) : Exec.Later x z :=
  ⟨b.1.trans a.1, b.2.1.trans a.2.1, b.2.2.1.trans a.2.2.1, fun h => b.2.2.2.1 (a.2.2.2.1 h),
   Nat.le_trans b.2.2.2.2 a.2.2.2.2⟩

theorem exec_step (s : SfSt) (h : Inv s) (a : Act) (e : Nat) (x : Exec) (hx : s.execs e = some x) :
    ∃ x', (step s a).execs e = some x' ∧ Exec.Later x x' := by
  cases a with
  | call c key n o =>
    show ∃ x', (stepCall s c key n o).execs e = some x' ∧ _
    unfold stepCall
    split
    · exact ⟨x, hx, Exec.later_refl x⟩
    · rename_i hc
      split
      · exact ⟨x, hx, Exec.later_refl x⟩
      · have : e ≠ c := by
          intro hh; subst hh
          exact h.fresh e (by rw [hx]; simp) hc
        exact ⟨x, by simp [upd_apply, this, hx], Exec.later_refl x⟩
  | bodyStep e' =>
    show ∃ x', (stepBody s e').execs e = some x' ∧ _
    unfold stepBody
    split
    · exact ⟨x, hx, Exec.later_refl x⟩
    · rename_i y hy
      split
      · exact ⟨x, hx, Exec.later_refl x⟩
      · by_cases hee : e = e'
        · subst hee
          rw [hx] at hy
          simp only [Option.some.injEq] at hy
          subst hy
          exact ⟨_, if_pos rfl, rfl, rfl, rfl, id, Nat.sub_le _ _⟩
        · exact ⟨x, by simp [upd_apply, hee, hx], Exec.later_refl x⟩
  | finish e' =>
    show ∃ x', (stepFinish s e').execs e = some x' ∧ _
    unfold stepFinish
    split
    · exact ⟨x, hx, Exec.later_refl x⟩
    · rename_i y hy
      split
      · exact ⟨x, hx, Exec.later_refl x⟩
      · by_cases hee : e = e'
        · subst hee
          rw [hx] at hy
          simp only [Option.some.injEq] at hy
          subst hy
          exact ⟨_, if_pos rfl, rfl, rfl, rfl, fun _ => rfl, Nat.le_refl _⟩
        · exact ⟨x, by simp [upd_apply, hee, hx], Exec.later_refl x⟩
  | cancel c =>
    have := (stepCancel_frame s c).2.2.1
    exact ⟨x, by show (stepCancel s c).execs e = some x; rw [this]; exact hx, Exec.later_refl x⟩
  | tick d => exact ⟨x, hx, Exec.later_refl x⟩

theorem exec_run (s : SfSt) (h : Inv s) (tr : List Act) (e : Nat) (x : Exec) (hx : s.execs e = some x) :
    ∃ x', (run s tr).execs e = some x' ∧ Exec.Later x x' := by
  induction tr generalizing s x with
  | nil => exact ⟨x, hx, Exec.later_refl x⟩
  | cons a tr ih =>
    obtain ⟨y, hy, hl⟩ := exec_step s h a e x hx
    obtain ⟨z, hz, hl'⟩ := ih (step s a) (inv_step s h a) y hy
    exact ⟨z, hz, Exec.later_trans hl hl'⟩

/-- a caller that received an outcome, or was cancelled, never changes again -/
theorem settled_step (s : SfSt) (a : Act) (c : Nat) (e : Option Nat) (st : CSt)
    (hc : s.callers c = some ⟨e, st⟩) (hst : st ≠ .waiting) : (step s a).callers c = some ⟨e, st⟩ := by
  cases a with
  | call c' key n o =>
    show (stepCall s c' key n o).callers c = _
    unfold stepCall
    split
    · exact hc
    · rename_i hc'
      have : c ≠ c' := by
        intro hh; subst hh; rw [hc] at hc'; simp at hc'
      split <;> simp [upd_apply, this, hc]
  | bodyStep e' =>
    show (stepBody s e').callers c = _
    unfold stepBody
    split
    · exact hc
    · split <;> exact hc
  | finish e' =>
    show (stepFinish s e').callers c = _
    unfold stepFinish
    split
    · exact hc
    · split
      · exact hc
      · simp only [deliver_apply, hc]
        cases st with
        | waiting => exact absurd rfl hst
        | got o => cases e <;> rfl
        | cancelled => cases e <;> rfl
  | cancel c' =>
    show (stepCancel s c').callers c = _
    by_cases hcc : c = c'
    · subst hcc
      unfold stepCancel
      rw [hc]
      cases st with
      | waiting => exact absurd rfl hst
      | got o => simp [hc]
      | cancelled => simp [hc]
    · rw [(stepCancel_frame s c').2.2.2.2.2.1 c hcc]
      exact hc
  | tick d => exact hc

theorem settled_run (s : SfSt) (tr : List Act) (c : Nat) (e : Option Nat) (st : CSt)
    (hc : s.callers c = some ⟨e, st⟩) (hst : st ≠ .waiting) : (run s tr).callers c = some ⟨e, st⟩ := by
  induction tr generalizing s with
  | nil => exact hc
  | cons a tr ih => exact ih (step s a) (settled_step s a c e st hc hst)

/-! ### who can become attached to an execution -/

/-- a call by one caller leaves every other caller's entry alone -/
theorem call_other_caller (s : SfSt) (c c' key n : Nat) (o : Outcome) (h : c' ≠ c) :
    (step s (.call c key n o)).callers c' = s.callers c' := by
  show (stepCall s c key n o).callers c' = _
  unfold stepCall
  split
  · rfl
  · split <;> simp [upd_apply, h]

/-- One step attaches a caller to execution `e` only if `e` is unfinished after the step (it joined through the
table, or created it); otherwise the caller was attached to `e` before. -/
theorem attach_step (s : SfSt) (h : Inv s) (a : Act) (c e : Nat) (st : CSt)
    (hc : (step s a).callers c = some ⟨some e, st⟩) :
    (∃ st', s.callers c = some ⟨some e, st'⟩) ∨ (∃ x, (step s a).execs e = some x ∧ x.finished = false) := by
  cases a with
  | call c' key n o =>
    by_cases hcc : c = c'
    · subst hcc
      have hc0 : (stepCall s c key n o).callers c = some ⟨some e, st⟩ := hc
      show _ ∨ (∃ x, (stepCall s c key n o).execs e = some x ∧ _)
      unfold stepCall at hc0 ⊢
      cases hcur : s.callers c with
      | some cl =>
        rw [hcur] at hc0
        simp only at hc0
        rw [hcur] at hc0
        left
        exact ⟨st, by rw [← hc0]⟩
      | none =>
        rw [hcur] at hc0
        simp only at hc0 ⊢
        cases ht : s.table key with
        | some e' =>
          rw [ht] at hc0
          simp only [upd_same, Option.some.injEq, Caller.mk.injEq] at hc0
          obtain ⟨x, hx, _, hf⟩ := h.tab key e' ht
          right
          obtain ⟨h1, _⟩ := hc0
          subst h1
          exact ⟨x, hx, hf⟩
        | none =>
          rw [ht] at hc0
          simp only [upd_same, Option.some.injEq, Caller.mk.injEq] at hc0
          obtain ⟨h1, _⟩ := hc0
          subst h1
          right
          refine ⟨newExec s key n o, by simp, ?_⟩
          unfold newExec; split <;> rfl
    · left
      rw [call_other_caller s c' c key n o hcc] at hc
      exact ⟨st, hc⟩
  | bodyStep e' =>
    left
    have : (stepBody s e').callers = s.callers := by
      unfold stepBody
      split
      · rfl
      · split <;> rfl
    have hc0 : (stepBody s e').callers c = some ⟨some e, st⟩ := hc
    rw [this] at hc0
    exact ⟨st, hc0⟩
  | finish e' =>
    left
    have hc0 : (stepFinish s e').callers c = some ⟨some e, st⟩ := hc
    unfold stepFinish at hc0
    split at hc0
    · exact ⟨st, hc0⟩
    · rename_i x hx
      split at hc0
      · exact ⟨st, hc0⟩
      · dsimp only at hc0
        rcases deliver_cases s.callers e' x.outcome c with ⟨h1, h2⟩ | ⟨_, h2⟩
        · rw [h2] at hc0
          simp only [Option.some.injEq, Caller.mk.injEq] at hc0
          obtain ⟨h3, _⟩ := hc0
          have : e' = e := by simpa using h3
          subst this
          exact ⟨.waiting, h1⟩
        · rw [h2] at hc0
          exact ⟨st, hc0⟩
  | cancel c' =>
    left
    have hc0 : (stepCancel s c').callers c = some ⟨some e, st⟩ := hc
    by_cases hcc : c = c'
    · subst hcc
      unfold stepCancel at hc0
      split at hc0
      · simp at hc0
      · rename_i e0 hcur
        simp only [upd_same, Option.some.injEq, Caller.mk.injEq] at hc0
        obtain ⟨h1, _⟩ := hc0
        subst h1
        exact ⟨.waiting, hcur⟩
      · exact ⟨st, hc0⟩
    · rw [(stepCancel_frame s c').2.2.2.2.2.1 c hcc] at hc0
      exact ⟨st, hc0⟩
  | tick d => exact Or.inl ⟨st, hc⟩

/-- after an execution has finished nobody new is ever attached to it -/
theorem finished_no_new_waiters (s : SfSt) (h : Inv s) (tr : List Act) (e : Nat) (x : Exec)
    (hx : s.execs e = some x) (hf : x.finished = true) (c : Nat) (st : CSt)
    (hc : (run s tr).callers c = some ⟨some e, st⟩) : ∃ st', s.callers c = some ⟨some e, st'⟩ := by
  induction tr generalizing s x st with
  | nil => exact ⟨st, hc⟩
  | cons a tr ih =>
    obtain ⟨y, hy, hl⟩ := exec_step s h a e x hx
    obtain ⟨st', hst'⟩ := ih (step s a) (inv_step s h a) y hy (hl.2.2.2.1 hf) st hc
    rcases attach_step s h a c e st' hst' with hh | ⟨z, hz, hzf⟩
    · exact hh
    · rw [hy] at hz
      simp only [Option.some.injEq] at hz
      subst hz
      rw [hl.2.2.2.1 hf] at hzf
      simp at hzf

/-! ### time: `tick` is a stutter step of single-flight -/

/-- a time step moves the clock and nothing else -/
theorem tick_frame (s : SfSt) (d : Nat) :
    (step s (.tick d)).caching = s.caching ∧ (step s (.tick d)).ttl = s.ttl ∧ (step s (.tick d)).table = s.table ∧
    (step s (.tick d)).execs = s.execs ∧ (step s (.tick d)).callers = s.callers ∧
    (step s (.tick d)).cached = s.cached ∧ (step s (.tick d)).created = s.created ∧
    (step s (.tick d)).now = s.now + d := ⟨rfl, rfl, rfl, rfl, rfl, rfl, rfl, rfl⟩

theorem run_ticks_frame (s : SfSt) (ds : List Nat) :
    (run s (ds.map Act.tick)).caching = s.caching ∧ (run s (ds.map Act.tick)).ttl = s.ttl ∧
    (run s (ds.map Act.tick)).table = s.table ∧ (run s (ds.map Act.tick)).execs = s.execs ∧
    (run s (ds.map Act.tick)).callers = s.callers ∧ (run s (ds.map Act.tick)).cached = s.cached ∧
    (run s (ds.map Act.tick)).created = s.created ∧ (run s (ds.map Act.tick)).now = s.now + ds.sum := by
  induction ds generalizing s with
  | nil => exact ⟨rfl, rfl, rfl, rfl, rfl, rfl, rfl, by simp [run]⟩
  | cons d ds ih =>
    obtain ⟨h1, h2, h3, h4, h5, h6, h7, h8⟩ := ih (step s (.tick d))
    refine ⟨h1, h2, h3, h4, h5, h6, h7, ?_⟩
    show (run (step s (.tick d)) (ds.map Act.tick)).now = _
    rw [h8, List.sum_cons]
    show s.now + d + ds.sum = _
    omega

def Act.isTick : Act → Bool
  | .tick _ => true
  | _ => false

/-- the trace with every time step removed -/
def untimed (tr : List Act) : List Act := tr.filter fun a => !a.isTick

/-- two states that differ at most in the clock -/
structure SameButClock (s1 s2 : SfSt) : Prop where
  caching : s1.caching = s2.caching
  ttl : s1.ttl = s2.ttl
  table : s1.table = s2.table
  execs : s1.execs = s2.execs
  callers : s1.callers = s2.callers
  cached : s1.cached = s2.cached
  created : s1.created = s2.created

theorem caching_step (s : SfSt) (a : Act) : (step s a).caching = s.caching := by
  cases a with
  | call c key n o =>
    show (stepCall s c key n o).caching = _
    unfold stepCall
    split
    · rfl
    · split <;> rfl
  | bodyStep e =>
    show (stepBody s e).caching = _
    unfold stepBody
    split
    · rfl
    · split <;> rfl
  | finish e =>
    show (stepFinish s e).caching = _
    unfold stepFinish
    split
    · rfl
    · split <;> rfl
  | cancel c => exact (stepCancel_frame s c).1
  | tick d => rfl

theorem newExec_bare (s : SfSt) (h : s.caching = false) (key n : Nat) (o : Outcome) :
    newExec s key n o = { key := key, remaining := n, outcome := o, finished := false, hit := false } := by
  unfold newExec lookupCached
  simp [h]

/-- without a cache decorator no action reads the clock: the same action keeps two states that differ only in
the clock that way -/
theorem sbc_step (s1 s2 : SfSt) (h : SameButClock s1 s2) (hb : s1.caching = false) (a : Act) :
    SameButClock (step s1 a) (step s2 a) := by
  obtain ⟨hca, htt, ht, he, hcl, hcd, hcr⟩ := h
  have hb2 : s2.caching = false := by rw [← hca]; exact hb
  cases a with
  | call c key n o =>
    show SameButClock (stepCall s1 c key n o) (stepCall s2 c key n o)
    unfold stepCall
    rw [← hcl, ← ht]
    cases s1.callers c with
    | some _ => exact ⟨hca, htt, ht, he, hcl, hcd, hcr⟩
    | none =>
      cases s1.table key with
      | some e => constructor <;> first | assumption | rfl
      | none =>
        dsimp only
        rw [newExec_bare s1 hb, newExec_bare s2 hb2]
        constructor <;> first | assumption | rfl | (dsimp only; rw [he]) | (dsimp only; rw [hcr])
  | bodyStep e =>
    show SameButClock (stepBody s1 e) (stepBody s2 e)
    unfold stepBody
    rw [← he]
    cases s1.execs e with
    | none => exact ⟨hca, htt, ht, he, hcl, hcd, hcr⟩
    | some x =>
      dsimp only
      split
      · exact ⟨hca, htt, ht, he, hcl, hcd, hcr⟩
      · constructor <;> first | assumption | rfl
  | finish e =>
    show SameButClock (stepFinish s1 e) (stepFinish s2 e)
    unfold stepFinish
    rw [← he]
    cases s1.execs e with
    | none => exact ⟨hca, htt, ht, he, hcl, hcd, hcr⟩
    | some x =>
      dsimp only
      split
      · exact ⟨hca, htt, ht, he, hcl, hcd, hcr⟩
      · refine ⟨hca, htt, ?_, rfl, ?_, ?_, hcr⟩
        · dsimp only; rw [ht]
        · dsimp only; rw [hcl]
        · dsimp only
          simp only [hb, hb2, Bool.false_eq_true, false_and, if_false]
          cases x.outcome <;> exact hcd
  | cancel c =>
    show SameButClock (stepCancel s1 c) (stepCancel s2 c)
    unfold stepCancel
    rw [← hcl]
    cases s1.callers c with
    | none => constructor <;> first | assumption | rfl
    | some cl =>
      obtain ⟨e, st⟩ := cl
      cases st with
      | waiting => constructor <;> first | assumption | rfl
      | got o => exact ⟨hca, htt, ht, he, hcl, hcd, hcr⟩
      | cancelled => exact ⟨hca, htt, ht, he, hcl, hcd, hcr⟩
  | tick d => exact ⟨hca, htt, ht, he, hcl, hcd, hcr⟩

/-- for the bare decorator, removing every time step from a trace changes nothing but the clock -/
theorem untimed_run (s1 s2 : SfSt) (h : SameButClock s1 s2) (hb : s1.caching = false) (tr : List Act) :
    SameButClock (run s1 tr) (run s2 (untimed tr)) := by
  induction tr generalizing s1 s2 with
  | nil => exact h
  | cons a tr ih =>
    cases ha : a.isTick with
    | true =>
      have : untimed (a :: tr) = untimed tr := by simp [untimed, ha]
      rw [this, run_cons]
      cases a with
      | tick d =>
        exact ih _ _ ⟨h.caching, h.ttl, h.table, h.execs, h.callers, h.cached, h.created⟩ hb
      | call _ _ _ _ => simp [Act.isTick] at ha
      | bodyStep _ => simp [Act.isTick] at ha
      | finish _ => simp [Act.isTick] at ha
      | cancel _ => simp [Act.isTick] at ha
    | false =>
      have : untimed (a :: tr) = a :: untimed tr := by simp [untimed, ha]
      rw [this, run_cons, run_cons]
      exact ih _ _ (sbc_step s1 s2 h hb a) (by rw [caching_step]; exact hb)

/-! ### bursts are traces -/

theorem macro_run (s : SfSt) (bursts : List (List Act)) : ∃ tr, bursts.foldl macroStep s = run s tr := by
  induction bursts generalizing s with
  | nil => exact ⟨[], rfl⟩
  | cons b bs ih =>
    obtain ⟨tr, htr⟩ := ih (macroStep s b)
    refine ⟨b ++ (run s b).created.map Act.finish ++ tr, ?_⟩
    rw [List.foldl_cons, htr, run_append, run_append]
    rfl

end CashewsVerif.SingleFlight
