import CashewsVerif.Model.SingleFlight
/-
C07 helper lemmas: the inductive invariant of the single-flight transition system, its preservation by
every action, the counting lemma, and the non-interference relation used for cancellation locality.
-/
namespace CashewsVerif.SingleFlight

@[simp] theorem upd_same {β : Type} (f : Nat → β) (a : Nat) (b : β) : upd f a b a = b := by
  simp [upd]

theorem upd_other {β : Type} (f : Nat → β) {a x : Nat} (b : β) (h : x ≠ a) : upd f a b x = f x := by
  simp [upd, h]

theorem upd_apply {β : Type} (f : Nat → β) (a x : Nat) (b : β) : upd f a b x = if x = a then b else f x := rfl

theorem step_call (s : SfSt) (c key n : Nat) (o : Outcome) : step s (.call c key n o) = stepCall s c key n o := rfl
theorem step_bodyStep (s : SfSt) (e : Nat) : step s (.bodyStep e) = stepBody s e := rfl
theorem step_finish (s : SfSt) (e : Nat) : step s (.finish e) = stepFinish s e := rfl
theorem step_cancel (s : SfSt) (c : Nat) : step s (.cancel c) = stepCancel s c := rfl
theorem step_tick (s : SfSt) (d : Nat) : step s (.tick d) = { s with now := s.now + d } := rfl
theorem step_rstep (s : SfSt) (r : Nat) : step s (.rstep r) = stepRBody s r := rfl
theorem step_rfinish (s : SfSt) (r : Nat) : step s (.rfinish r) = stepRFinish s r := rfl

theorem newExec_key (s : SfSt) (c key n : Nat) (o : Outcome) : (newExec s c key n o).key = key := by
  unfold newExec hitExec
  repeat' split
  all_goals rfl

theorem newExec_unfinished (s : SfSt) (c key n : Nat) (o : Outcome) : (newExec s c key n o).finished = false := by
  unfold newExec hitExec
  repeat' split
  all_goals rfl

/-- what a caller's state says about the execution it joined -/
def CallerOk (x : Exec) (st : CSt) : Prop :=
  st = .cancelled ∨ (st = .waiting ∧ x.finished = false) ∨ (st = .got x.outcome ∧ x.finished = true)

/-- The inductive invariant. -/
structure Inv (s : SfSt) : Prop where
  /-- an unfinished execution is registered under its key (`tasks[_key] = task` until the done-callback) -/
  reg : ∀ e x, s.execs e = some x → x.finished = false → s.table x.key = some e
  /-- the table only holds unfinished executions of that key -/
  tab : ∀ k e, s.table k = some e → ∃ x, s.execs e = some x ∧ x.key = k ∧ x.finished = false
  /-- execution ids are ids of callers that have made their call -/
  fresh : ∀ e, s.execs e ≠ none → s.callers e ≠ none
  mem : ∀ e, e ∈ s.created ↔ s.execs e ≠ none
  nodup : s.created.Nodup
  /-- a caller that joined `e` is cancelled, or still waiting on the unfinished `e`, or holds exactly `e`'s outcome -/
  joined : ∀ c e st, s.callers c = some ⟨some e, st⟩ → ∃ x, s.execs e = some x ∧ CallerOk x st

theorem inv_init (cfg : Cfg) : Inv (init cfg) := by
  constructor <;> simp [init]

theorem deliver_apply (callers : Nat → Option Caller) (e : Nat) (o : Outcome) (c : Nat) :
    deliver callers e o c =
      match callers c with
      | some ⟨some e', .waiting⟩ => if e' = e then some ⟨some e', .got o⟩ else some ⟨some e', .waiting⟩
      | r => r := rfl

theorem deliver_none_iff (callers : Nat → Option Caller) (e : Nat) (o : Outcome) (c : Nat) :
    deliver callers e o c = none ↔ callers c = none := by
  rw [deliver_apply]
  split
  · rename_i h; split <;> simp [h]
  · rfl

/-- what `deliver` does to one caller, case by case -/
theorem deliver_cases (callers : Nat → Option Caller) (e : Nat) (o : Outcome) (c : Nat) :
    (callers c = some ⟨some e, .waiting⟩ ∧ deliver callers e o c = some ⟨some e, .got o⟩) ∨
    (callers c ≠ some ⟨some e, .waiting⟩ ∧ deliver callers e o c = callers c) := by
  rw [deliver_apply]
  split
  · rename_i e' h
    by_cases he : e' = e
    · subst he; left; simp [h]
    · right; simp [h, he]
  · rename_i h
    right
    refine ⟨?_, rfl⟩
    intro h'
    exact h e h'

theorem inv_call (s : SfSt) (h : Inv s) (c key n : Nat) (o : Outcome) : Inv (step s (.call c key n o)) := by
  show Inv (stepCall s c key n o)
  unfold stepCall
  split
  · exact h
  · rename_i hc
    split
    · -- join
      rename_i e he
      obtain ⟨x, hx, hk, hf⟩ := h.tab key e he
      constructor
      · exact h.reg
      · exact h.tab
      · intro e' he'
        simp only [upd_apply]
        split
        · simp
        · exact h.fresh e' he'
      · exact h.mem
      · exact h.nodup
      · intro c' e' st hc'
        simp only [upd_apply] at hc'
        split at hc'
        · simp only [Option.some.injEq, Caller.mk.injEq] at hc'
          obtain ⟨h1, h2⟩ := hc'
          subst h2
          have : e = e' := by simpa using h1
          subst this
          exact ⟨x, hx, Or.inr (Or.inl ⟨rfl, hf⟩)⟩
        · exact h.joined c' e' st hc'
    · -- create
      rename_i ht
      have hec : s.execs c = none := by
        cases hh : s.execs c with
        | none => rfl
        | some x => exact absurd hc (h.fresh c (by rw [hh]; simp))
      constructor
      · intro e x he hf
        simp only [upd_apply] at he ⊢
        by_cases hce : e = c
        · subst hce
          simp only [if_true, Option.some.injEq] at he
          subst he
          simp [newExec_key]
        · simp only [hce, if_false] at he
          have := h.reg e x he hf
          by_cases hk : x.key = key
          · rw [hk, ht] at this; simp at this
          · simp [hk, this]
      · intro k e hk
        simp only [upd_apply] at hk ⊢
        by_cases hkk : k = key
        · subst hkk
          simp only [if_true, Option.some.injEq] at hk
          subst hk
          refine ⟨newExec s c k n o, by simp, ?_, ?_⟩ <;> (first | exact newExec_key _ _ _ _ _ | exact newExec_unfinished _ _ _ _ _)
        · simp only [hkk, if_false] at hk
          obtain ⟨x, hx, hxk, hxf⟩ := h.tab k e hk
          have : e ≠ c := by
            intro hh; subst hh; rw [hec] at hx; simp at hx
          exact ⟨x, by simp [this, hx], hxk, hxf⟩
      · intro e he
        simp only [upd_apply] at he ⊢
        by_cases hce : e = c
        · simp [hce]
        · simp only [hce, if_false] at he ⊢
          exact h.fresh e he
      · intro e
        simp only [upd_apply, List.mem_append, List.mem_singleton]
        by_cases hce : e = c
        · simp [hce]
        · simp only [hce, if_false, or_false]
          exact h.mem e
      · have : c ∉ s.created := by
          intro hm
          exact (h.mem c).1 hm hec
        have this' : ∀ a ∈ s.created, ¬ a = c := fun a ha hac => this (hac ▸ ha)
        simpa [List.nodup_append, h.nodup] using this'
      · intro c' e' st hc'
        simp only [upd_apply] at hc' ⊢
        by_cases hcc : c' = c
        · simp only [hcc, if_true, Option.some.injEq, Caller.mk.injEq] at hc'
          obtain ⟨h1, h2⟩ := hc'
          subst h2
          have : c = e' := by simpa using h1
          subst this
          refine ⟨newExec s c key n o, by simp, Or.inr (Or.inl ⟨rfl, ?_⟩)⟩
          first | exact newExec_key _ _ _ _ _ | exact newExec_unfinished _ _ _ _ _
        · simp only [hcc, if_false] at hc'
          obtain ⟨x, hx, hok⟩ := h.joined c' e' st hc'
          have : e' ≠ c := by
            intro hh; subst hh; rw [hec] at hx; simp at hx
          exact ⟨x, by simp [this, hx], hok⟩

theorem inv_bodyStep (s : SfSt) (h : Inv s) (e : Nat) : Inv (step s (.bodyStep e)) := by
  show Inv (stepBody s e)
  unfold stepBody
  split
  · exact h
  · rename_i x hx
    split
    · exact h
    · rename_i hcond
      have hfin : x.finished = false := by
        cases hf : x.finished <;> simp_all
      constructor
      · intro e' x' he' hf'
        simp only [upd_apply] at he'
        by_cases hee : e' = e
        · subst hee
          simp only [if_true, Option.some.injEq] at he'
          subst he'
          exact h.reg e' x hx hfin
        · simp only [hee, if_false] at he'
          exact h.reg e' x' he' hf'
      · intro k e' hk
        obtain ⟨x', hx', hk', hf'⟩ := h.tab k e' hk
        simp only [upd_apply]
        by_cases hee : e' = e
        · subst hee
          rw [hx] at hx'
          simp only [Option.some.injEq] at hx'
          subst hx'
          exact ⟨_, if_pos rfl, hk', hf'⟩
        · exact ⟨x', by simp [hee, hx'], hk', hf'⟩
      · intro e' he'
        simp only [upd_apply] at he'
        by_cases hee : e' = e
        · subst hee
          exact h.fresh e' (by rw [hx]; simp)
        · simp only [hee, if_false] at he'
          exact h.fresh e' he'
      · intro e'
        simp only [upd_apply]
        by_cases hee : e' = e
        · subst hee
          simp only [if_true, ne_eq, reduceCtorEq, not_false_eq_true, iff_true]
          exact (h.mem e').2 (by rw [hx]; simp)
        · simp only [hee, if_false]
          exact h.mem e'
      · exact h.nodup
      · intro c e' st hc
        obtain ⟨x', hx', hok⟩ := h.joined c e' st hc
        simp only [upd_apply]
        by_cases hee : e' = e
        · subst hee
          rw [hx] at hx'
          simp only [Option.some.injEq] at hx'
          subst hx'
          exact ⟨_, if_pos rfl, hok⟩
        · exact ⟨x', by simp [hee, hx'], hok⟩

theorem inv_finish (s : SfSt) (h : Inv s) (e : Nat) : Inv (step s (.finish e)) := by
  show Inv (stepFinish s e)
  unfold stepFinish
  split
  · exact h
  · rename_i x hx
    split
    · exact h
    · rename_i hcond
      have hfin : x.finished = false := by
        cases hf : x.finished <;> simp_all
      constructor
      · -- reg
        intro e' x' he' hf'
        simp only [upd_apply] at he' ⊢
        by_cases hee : e' = e
        · subst hee
          simp only [if_true, Option.some.injEq] at he'
          subst he'
          simp at hf'
        · simp only [hee, if_false] at he'
          have h1 := h.reg e' x' he' hf'
          have h2 := h.reg e x hx hfin
          by_cases hk : x'.key = x.key
          · rw [hk, h2] at h1
            simp only [Option.some.injEq] at h1
            exact absurd h1.symm hee
          · simp [hk, h1]
      · -- tab
        intro k e' hk
        simp only [upd_apply] at hk ⊢
        by_cases hkk : k = x.key
        · simp [hkk] at hk
        · simp only [hkk, if_false] at hk
          obtain ⟨x', hx', hk', hf'⟩ := h.tab k e' hk
          have : e' ≠ e := by
            intro hh; subst hh; rw [hx] at hx'
            simp only [Option.some.injEq] at hx'
            subst hx'; exact hkk hk'.symm
          exact ⟨x', by simp [this, hx'], hk', hf'⟩
      · -- fresh
        intro e' he'
        simp only [upd_apply] at he'
        have : s.execs e' ≠ none := by
          by_cases hee : e' = e
          · subst hee; rw [hx]; simp
          · simpa [hee] using he'
        intro hd
        exact h.fresh e' this ((deliver_none_iff _ _ _ _).1 hd)
      · -- mem
        intro e'
        simp only [upd_apply]
        by_cases hee : e' = e
        · subst hee
          simp only [if_true, ne_eq, reduceCtorEq, not_false_eq_true, iff_true]
          exact (h.mem e').2 (by rw [hx]; simp)
        · simp only [hee, if_false]
          exact h.mem e'
      · exact h.nodup
      · -- joined
        intro c e' st hc
        dsimp only at hc ⊢
        simp only [upd_apply]
        rcases deliver_cases s.callers e x.outcome c with ⟨h1, h2⟩ | ⟨h1, h2⟩
        · rw [h2] at hc
          simp only [Option.some.injEq, Caller.mk.injEq] at hc
          obtain ⟨h3, h4⟩ := hc
          have : e = e' := by simpa using h3
          subst this
          subst h4
          exact ⟨_, if_pos rfl, Or.inr (Or.inr ⟨rfl, rfl⟩)⟩
        · rw [h2] at hc
          obtain ⟨x', hx', hok⟩ := h.joined c e' st hc
          by_cases hee : e' = e
          · subst hee
            rw [hx] at hx'
            simp only [Option.some.injEq] at hx'
            subst hx'
            refine ⟨_, if_pos rfl, ?_⟩
            rcases hok with hok | ⟨hok, _⟩ | ⟨_, hok⟩
            · exact Or.inl hok
            · subst hok; exact absurd hc h1
            · rw [hfin] at hok; simp at hok
          · exact ⟨x', by simp [hee, hx'], hok⟩

theorem inv_cancel (s : SfSt) (h : Inv s) (c : Nat) : Inv (step s (.cancel c)) := by
  show Inv (stepCancel s c)
  unfold stepCancel
  split
  · rename_i hc
    constructor
    · exact h.reg
    · exact h.tab
    · intro e he
      simp only [upd_apply]
      split
      · simp
      · exact h.fresh e he
    · exact h.mem
    · exact h.nodup
    · intro c' e' st hc'
      simp only [upd_apply] at hc'
      split at hc'
      · simp at hc'
      · exact h.joined c' e' st hc'
  · rename_i e hc
    constructor
    · exact h.reg
    · exact h.tab
    · intro e' he'
      simp only [upd_apply]
      split
      · simp
      · exact h.fresh e' he'
    · exact h.mem
    · exact h.nodup
    · intro c' e' st hc'
      simp only [upd_apply] at hc'
      split at hc'
      · rename_i hcc
        subst hcc
        simp only [Option.some.injEq, Caller.mk.injEq] at hc'
        obtain ⟨h1, h2⟩ := hc'
        subst h1; subst h2
        obtain ⟨x, hx, _⟩ := h.joined c' e' .waiting hc
        exact ⟨x, hx, Or.inl rfl⟩
      · exact h.joined c' e' st hc'
  · exact h

theorem inv_step (s : SfSt) (h : Inv s) (a : Act) : Inv (step s a) := by
  cases a with
  | call c key n o => exact inv_call s h c key n o
  | bodyStep e => exact inv_bodyStep s h e
  | finish e => exact inv_finish s h e
  | cancel c => exact inv_cancel s h c
  | tick d => exact ⟨h.reg, h.tab, h.fresh, h.mem, h.nodup, h.joined⟩
  | rstep r =>
    show Inv (stepRBody s r)
    unfold stepRBody
    split
    · exact h
    · split
      · exact h
      · exact ⟨h.reg, h.tab, h.fresh, h.mem, h.nodup, h.joined⟩
  | rfinish r =>
    show Inv (stepRFinish s r)
    unfold stepRFinish
    split
    · exact h
    · split
      · exact h
      · exact ⟨h.reg, h.tab, h.fresh, h.mem, h.nodup, h.joined⟩

theorem inv_run (s : SfSt) (h : Inv s) (tr : List Act) : Inv (run s tr) := by
  induction tr generalizing s with
  | nil => exact h
  | cons a tr ih => exact ih (step s a) (inv_step s h a)

theorem run_append (s : SfSt) (t1 t2 : List Act) : run s (t1 ++ t2) = run (run s t1) t2 := by
  simp [run, List.foldl_append]

theorem run_cons (s : SfSt) (a : Act) (t : List Act) : run s (a :: t) = run (step s a) t := rfl

/-- in-flight executions of one key are unique -/
theorem inflight_unique (s : SfSt) (h : Inv s) (key e1 e2 : Nat)
    (h1 : InFlight s e1 key) (h2 : InFlight s e2 key) : e1 = e2 := by
  obtain ⟨x1, hx1, hk1, hf1⟩ := h1
  obtain ⟨x2, hx2, hk2, hf2⟩ := h2
  have a := h.reg e1 x1 hx1 hf1
  have b := h.reg e2 x2 hx2 hf2
  rw [hk1] at a
  rw [hk2, a] at b
  simpa using b

/-- counting: in a duplicate-free list, a predicate satisfied by at most one value is satisfied at most once -/
theorem filter_length_le_one (l : List Nat) (p : Nat → Bool) (hn : l.Nodup)
    (hu : ∀ a b, a ∈ l → b ∈ l → p a = true → p b = true → a = b) : (l.filter p).length ≤ 1 := by
  induction l with
  | nil => simp
  | cons a l ih =>
    have hn' := List.nodup_cons.1 hn
    have ih' := ih hn'.2 (fun x y hx hy => hu x y (List.mem_cons_of_mem _ hx) (List.mem_cons_of_mem _ hy))
    by_cases hp : p a = true
    · have : l.filter p = [] := by
        rw [List.filter_eq_nil_iff]
        intro b hb hpb
        have := hu a b (List.mem_cons_self) (List.mem_cons_of_mem _ hb) hp hpb
        subst this
        exact hn'.1 hb
      simp [hp, this]
    · simp only [List.filter_cons, hp]
      exact ih'

theorem inFlightB_iff (s : SfSt) (key e : Nat) : inFlightB s key e = true ↔ InFlight s e key := by
  unfold inFlightB InFlight
  split
  · rename_i x hx
    constructor
    · intro hb
      simp only [Bool.and_eq_true, beq_iff_eq, Bool.not_eq_true'] at hb
      exact ⟨x, hx, hb.1, hb.2⟩
    · rintro ⟨x', hx', hk, hf⟩
      rw [hx] at hx'
      simp only [Option.some.injEq] at hx'
      subst hx'
      simp [hk, hf]
  · rename_i hx
    constructor
    · intro hb; simp at hb
    · rintro ⟨x', hx', _⟩
      rw [hx] at hx'; simp at hx'

theorem bodyRunningB_imp (s : SfSt) (key e : Nat) (hb : bodyRunningB s key e = true) : inFlightB s key e = true := by
  unfold bodyRunningB at hb
  unfold inFlightB
  split at hb
  · simp only [Bool.and_eq_true] at hb
    simpa using hb.1
  · simp at hb

/-! ### non-interference of a cancellation -/

/-- the two states have the same `early` configuration, recalculations, recalculation table and lock keys -/
def Rest (s1 s2 : SfSt) : Prop :=
  s1.early = s2.early ∧ s1.earlyTtl = s2.earlyTtl ∧ s1.background = s2.background ∧ s1.guarded = s2.guarded ∧
  s1.recalcSkip = s2.recalcSkip ∧ s1.recalcs = s2.recalcs ∧ s1.rtable = s2.rtable ∧ s1.lock = s2.lock ∧
  s1.rcreated = s2.rcreated

theorem Rest.early {s1 s2 : SfSt} (h : Rest s1 s2) : s1.early = s2.early := h.1
theorem Rest.earlyTtl {s1 s2 : SfSt} (h : Rest s1 s2) : s1.earlyTtl = s2.earlyTtl := h.2.1
theorem Rest.background {s1 s2 : SfSt} (h : Rest s1 s2) : s1.background = s2.background := h.2.2.1
theorem Rest.guarded {s1 s2 : SfSt} (h : Rest s1 s2) : s1.guarded = s2.guarded := h.2.2.2.1
theorem Rest.recalcSkip {s1 s2 : SfSt} (h : Rest s1 s2) : s1.recalcSkip = s2.recalcSkip := h.2.2.2.2.1
theorem Rest.recalcs {s1 s2 : SfSt} (h : Rest s1 s2) : s1.recalcs = s2.recalcs := h.2.2.2.2.2.1
theorem Rest.rtable {s1 s2 : SfSt} (h : Rest s1 s2) : s1.rtable = s2.rtable := h.2.2.2.2.2.2.1
theorem Rest.lock {s1 s2 : SfSt} (h : Rest s1 s2) : s1.lock = s2.lock := h.2.2.2.2.2.2.2.1
theorem Rest.rcreated {s1 s2 : SfSt} (h : Rest s1 s2) : s1.rcreated = s2.rcreated := h.2.2.2.2.2.2.2.2

theorem look_congr (s1 s2 : SfSt) (hca : s1.caching = s2.caching) (hcd : s1.cached = s2.cached) (hnw : s1.now = s2.now)
    (hr : Rest s1 s2) (key : Nat) : look s1 key = look s2 key := by
  unfold look
  rw [hca, hcd, hnw, hr.early]

theorem spawns_congr (s1 s2 : SfSt) (hca : s1.caching = s2.caching) (hcd : s1.cached = s2.cached) (hnw : s1.now = s2.now)
    (hr : Rest s1 s2) (key : Nat) : spawns s1 key = spawns s2 key := by
  unfold spawns running lockHeld
  rw [look_congr s1 s2 hca hcd hnw hr, hr.guarded, hr.rtable, hr.lock, hnw]

theorem newExec_congr (s1 s2 : SfSt) (hca : s1.caching = s2.caching) (hcd : s1.cached = s2.cached) (hnw : s1.now = s2.now)
    (hr : Rest s1 s2) (c key n : Nat) (o : Outcome) : newExec s1 c key n o = newExec s2 c key n o := by
  unfold newExec running
  rw [look_congr s1 s2 hca hcd hnw hr, spawns_congr s1 s2 hca hcd hnw hr, hr.guarded, hr.rtable, hr.recalcs, hr.background]

theorem newRecalc_congr (s1 s2 : SfSt) (hr : Rest s1 s2) (key n : Nat) (o : Outcome) :
    newRecalc s1 key n o = newRecalc s2 key n o := by
  unfold newRecalc
  rw [hr.recalcSkip]

theorem blocked_congr (s1 s2 : SfSt) (hr : Rest s1 s2) (x : Exec) : blocked s1 x = blocked s2 x := by
  unfold blocked
  rw [hr.recalcs]

theorem rest_refl (s : SfSt) : Rest s s := ⟨rfl, rfl, rfl, rfl, rfl, rfl, rfl, rfl, rfl⟩

/-- two states that differ at most in the entry of caller `c`, who has made its call (or was cancelled) in both -/
structure Agree (c : Nat) (s1 s2 : SfSt) : Prop where
  caching : s1.caching = s2.caching
  table : s1.table = s2.table
  execs : s1.execs = s2.execs
  cached : s1.cached = s2.cached
  created : s1.created = s2.created
  others : ∀ c', c' ≠ c → s1.callers c' = s2.callers c'
  here1 : s1.callers c ≠ none
  here2 : s2.callers c ≠ none
  ttl : s1.ttl = s2.ttl
  now : s1.now = s2.now
  rest : Rest s1 s2

theorem stepCancel_frame (s : SfSt) (c : Nat) :
    (stepCancel s c).caching = s.caching ∧ (stepCancel s c).table = s.table ∧
    (stepCancel s c).execs = s.execs ∧ (stepCancel s c).cached = s.cached ∧
    (stepCancel s c).created = s.created ∧
    (∀ c', c' ≠ c → (stepCancel s c).callers c' = s.callers c') ∧
    ((stepCancel s c).callers c ≠ none) := by
  unfold stepCancel
  split
  · exact ⟨rfl, rfl, rfl, rfl, rfl, fun c' hc' => by simp [upd_apply, hc'], by simp⟩
  · exact ⟨rfl, rfl, rfl, rfl, rfl, fun c' hc' => by simp [upd_apply, hc'], by simp⟩
  · refine ⟨rfl, rfl, rfl, rfl, rfl, fun _ _ => rfl, ?_⟩
    intro hn
    simp_all

/-- a cancellation touches nothing but the cancelled caller's own entry -/
theorem cancel_frame (s : SfSt) (c : Nat) :
    (step s (.cancel c)).caching = s.caching ∧ (step s (.cancel c)).table = s.table ∧
    (step s (.cancel c)).execs = s.execs ∧ (step s (.cancel c)).cached = s.cached ∧
    (step s (.cancel c)).created = s.created ∧
    (∀ c', c' ≠ c → (step s (.cancel c)).callers c' = s.callers c') ∧
    (step s (.cancel c)).callers c ≠ none := stepCancel_frame s c

theorem stepCancel_clock (s : SfSt) (c : Nat) : (stepCancel s c).ttl = s.ttl ∧ (stepCancel s c).now = s.now := by
  unfold stepCancel
  split <;> exact ⟨rfl, rfl⟩

theorem stepCancel_rest (s : SfSt) (c : Nat) : Rest (stepCancel s c) s := by
  unfold stepCancel
  split <;> exact rest_refl _

theorem stepCall_used (s : SfSt) (c key n : Nat) (o : Outcome) (h : s.callers c ≠ none) : stepCall s c key n o = s := by
  unfold stepCall
  cases hh : s.callers c with
  | none => exact absurd hh h
  | some _ => rfl

theorem agree_call (c : Nat) (s1 s2 : SfSt) (h : Agree c s1 s2) (c' key n : Nat) (o : Outcome) :
    Agree c (stepCall s1 c' key n o) (stepCall s2 c' key n o) := by
  obtain ⟨hca, ht, he, hcd, hcr, ho, h1, h2, htt, hnw, hr⟩ := h
  by_cases hcc : c' = c
  · subst hcc
    rw [stepCall_used s1 c' key n o h1, stepCall_used s2 c' key n o h2]
    exact ⟨hca, ht, he, hcd, hcr, ho, h1, h2, htt, hnw, hr⟩
  · have hsame := ho c' hcc
    unfold stepCall
    rw [← hsame, ← ht]
    cases hh : s1.callers c' with
    | some _ => exact ⟨hca, ht, he, hcd, hcr, ho, h1, h2, htt, hnw, hr⟩
    | none =>
      cases hk : s1.table key with
      | some e =>
        dsimp only
        refine ⟨hca, rfl, he, hcd, hcr, ?_, ?_, ?_, htt, hnw, hr⟩
        · intro c'' hc''
          simp only [upd_apply]
          split
          · rfl
          · exact ho c'' hc''
        · simp only [upd_apply]; split <;> simp [h1]
        · simp only [upd_apply]; split <;> simp [h2]
      | none =>
        have hne : newExec s1 c' key n o = newExec s2 c' key n o := newExec_congr s1 s2 hca hcd hnw hr c' key n o
        have hsp : spawns s1 key = spawns s2 key := spawns_congr s1 s2 hca hcd hnw hr key
        have hnr : newRecalc s1 key n o = newRecalc s2 key n o := newRecalc_congr s1 s2 hr key n o
        dsimp only
        refine ⟨hca, ?_, ?_, hcd, ?_, ?_, ?_, ?_, htt, hnw,
          ⟨hr.early, hr.earlyTtl, hr.background, hr.guarded, hr.recalcSkip, ?_, ?_, ?_, ?_⟩⟩
        rotate_right 4
        · dsimp only; rw [hsp, hnr, hr.recalcs]
        · dsimp only; rw [hsp, hr.rtable]
        · dsimp only; rw [hsp, hr.lock, hnw, hr.earlyTtl]
        · dsimp only; rw [hsp, hr.rcreated]
        · first | rfl | simp only [ht]
        · first | rfl | simp only [he, hne]
        · first | rfl | simp only [hcr]
        · intro c'' hc''
          simp only [upd_apply]
          split
          · rfl
          · exact ho c'' hc''
        · simp only [upd_apply]; split <;> simp [h1]
        · simp only [upd_apply]; split <;> simp [h2]

theorem agree_body (c : Nat) (s1 s2 : SfSt) (h : Agree c s1 s2) (e : Nat) :
    Agree c (stepBody s1 e) (stepBody s2 e) := by
  obtain ⟨hca, ht, he, hcd, hcr, ho, h1, h2, htt, hnw, hr⟩ := h
  unfold stepBody
  rw [← he]
  cases hx : s1.execs e with
  | none => exact ⟨hca, ht, he, hcd, hcr, ho, h1, h2, htt, hnw, hr⟩
  | some x =>
    simp only
    split
    · exact ⟨hca, ht, he, hcd, hcr, ho, h1, h2, htt, hnw, hr⟩
    · exact ⟨hca, ht, by first | rfl | simp only [he], hcd, hcr, ho, h1, h2, htt, hnw, hr⟩

theorem agree_finish (c : Nat) (s1 s2 : SfSt) (h : Agree c s1 s2) (e : Nat) :
    Agree c (stepFinish s1 e) (stepFinish s2 e) := by
  obtain ⟨hca, ht, he, hcd, hcr, ho, h1, h2, htt, hnw, hr⟩ := h
  unfold stepFinish
  rw [← he]
  cases hx : s1.execs e with
  | none => exact ⟨hca, ht, he, hcd, hcr, ho, h1, h2, htt, hnw, hr⟩
  | some x =>
    simp only
    rw [← blocked_congr s1 s2 hr x]
    split
    · exact ⟨hca, ht, he, hcd, hcr, ho, h1, h2, htt, hnw, hr⟩
    · refine ⟨hca, by first | rfl | simp only [ht], by first | rfl | simp only [he], by first | rfl | simp only [hca, hcd, htt, hnw, hr.earlyTtl], hcr, ?_, ?_, ?_, htt, hnw, hr⟩
      · intro c' hc'
        simp only [deliver_apply]
        rw [ho c' hc']
      · simp only
        intro hd
        exact h1 ((deliver_none_iff _ _ _ _).1 hd)
      · simp only
        intro hd
        exact h2 ((deliver_none_iff _ _ _ _).1 hd)

theorem stepCancel_other (s : SfSt) (c c' : Nat) (_h : c' ≠ c) (hc : s.callers c ≠ none) :
    (stepCancel s c').callers c ≠ none := by
  unfold stepCancel
  split
  · simp only [upd_apply]; split <;> simp [hc]
  · simp only [upd_apply]; split <;> simp [hc]
  · exact hc

theorem agree_cancel (c : Nat) (s1 s2 : SfSt) (h : Agree c s1 s2) (c' : Nat) :
    Agree c (stepCancel s1 c') (stepCancel s2 c') := by
  obtain ⟨hca, ht, he, hcd, hcr, ho, h1, h2, htt, hnw, hr⟩ := h
  obtain ⟨a3, a4, a5, a6, a7, a2, a1⟩ := stepCancel_frame s1 c'
  obtain ⟨b3, b4, b5, b6, b7, b2, b1⟩ := stepCancel_frame s2 c'
  obtain ⟨a8, a9⟩ := stepCancel_clock s1 c'
  obtain ⟨b8, b9⟩ := stepCancel_clock s2 c'
  have hr' : Rest (stepCancel s1 c') (stepCancel s2 c') := by
    obtain ⟨p1, p2, p3, p4, p5, p6, p7, p8, p9⟩ := stepCancel_rest s1 c'
    obtain ⟨q1, q2, q3, q4, q5, q6, q7, q8, q9⟩ := stepCancel_rest s2 c'
    exact ⟨by rw [p1, q1, hr.early], by rw [p2, q2, hr.earlyTtl], by rw [p3, q3, hr.background], by rw [p4, q4, hr.guarded],
      by rw [p5, q5, hr.recalcSkip], by rw [p6, q6, hr.recalcs], by rw [p7, q7, hr.rtable], by rw [p8, q8, hr.lock],
      by rw [p9, q9, hr.rcreated]⟩
  by_cases hcc : c' = c
  · subst hcc
    exact ⟨by rw [a3, b3, hca], by rw [a4, b4, ht], by rw [a5, b5, he], by rw [a6, b6, hcd], by rw [a7, b7, hcr],
      fun c'' hc'' => by rw [a2 c'' hc'', b2 c'' hc'', ho c'' hc''], a1, b1, by rw [a8, b8, htt], by rw [a9, b9, hnw], hr'⟩
  · refine ⟨by rw [a3, b3, hca], by rw [a4, b4, ht], by rw [a5, b5, he], by rw [a6, b6, hcd], by rw [a7, b7, hcr],
      ?_, stepCancel_other s1 c c' hcc h1, stepCancel_other s2 c c' hcc h2, by rw [a8, b8, htt], by rw [a9, b9, hnw], hr'⟩
    intro c'' hc''
    by_cases h3 : c'' = c'
    · subst h3
      have hsame := ho c'' hc''
      unfold stepCancel
      rw [← hsame]
      split <;> first | exact hsame | simp
    · rw [a2 c'' h3, b2 c'' h3, ho c'' hc'']

theorem agree_step (c : Nat) (s1 s2 : SfSt) (h : Agree c s1 s2) (a : Act) : Agree c (step s1 a) (step s2 a) := by
  cases a with
  | call c' key n o => exact agree_call c s1 s2 h c' key n o
  | bodyStep e => exact agree_body c s1 s2 h e
  | finish e => exact agree_finish c s1 s2 h e
  | cancel c' => exact agree_cancel c s1 s2 h c'
  | tick d =>
    obtain ⟨hca, ht, he, hcd, hcr, ho, h1, h2, htt, hnw, hr⟩ := h
    exact ⟨hca, ht, he, hcd, hcr, ho, h1, h2, htt, by show s1.now + d = s2.now + d; rw [hnw], hr⟩
  | rstep r =>
    obtain ⟨hca, ht, he, hcd, hcr, ho, h1, h2, htt, hnw, hr⟩ := h
    show Agree c (stepRBody s1 r) (stepRBody s2 r)
    unfold stepRBody
    rw [← hr.recalcs]
    cases s1.recalcs r with
    | none => exact ⟨hca, ht, he, hcd, hcr, ho, h1, h2, htt, hnw, hr⟩
    | some y =>
      dsimp only
      split
      · exact ⟨hca, ht, he, hcd, hcr, ho, h1, h2, htt, hnw, hr⟩
      · exact ⟨hca, ht, he, hcd, hcr, ho, h1, h2, htt, hnw,
          ⟨hr.early, hr.earlyTtl, hr.background, hr.guarded, hr.recalcSkip, rfl, hr.rtable, hr.lock, hr.rcreated⟩⟩
  | rfinish r =>
    obtain ⟨hca, ht, he, hcd, hcr, ho, h1, h2, htt, hnw, hr⟩ := h
    show Agree c (stepRFinish s1 r) (stepRFinish s2 r)
    unfold stepRFinish
    rw [← hr.recalcs]
    cases s1.recalcs r with
    | none => exact ⟨hca, ht, he, hcd, hcr, ho, h1, h2, htt, hnw, hr⟩
    | some y =>
      dsimp only
      split
      · exact ⟨hca, ht, he, hcd, hcr, ho, h1, h2, htt, hnw, hr⟩
      · refine ⟨hca, ht, he, ?_, hcr, ho, h1, h2, htt, hnw,
          ⟨hr.early, hr.earlyTtl, hr.background, hr.guarded, hr.recalcSkip, rfl, ?_, ?_, hr.rcreated⟩⟩
        · dsimp only; rw [hcd, hnw, htt, hr.earlyTtl]
        · dsimp only; rw [hr.rtable]
        · dsimp only; rw [hr.lock]

theorem agree_run (c : Nat) (s1 s2 : SfSt) (h : Agree c s1 s2) (tr : List Act) : Agree c (run s1 tr) (run s2 tr) := by
  induction tr generalizing s1 s2 with
  | nil => exact h
  | cons a tr ih => exact ih _ _ (agree_step c s1 s2 h a)

/-- a step of a recalculation's body touches nothing of single-flight proper -/
theorem stepRBody_frame (s : SfSt) (r : Nat) :
    (stepRBody s r).execs = s.execs ∧ (stepRBody s r).callers = s.callers ∧ (stepRBody s r).table = s.table ∧
    (stepRBody s r).created = s.created ∧ (stepRBody s r).caching = s.caching ∧ (stepRBody s r).cached = s.cached := by
  unfold stepRBody
  split
  · exact ⟨rfl, rfl, rfl, rfl, rfl, rfl⟩
  · split <;> exact ⟨rfl, rfl, rfl, rfl, rfl, rfl⟩

/-- the end of a recalculation touches no execution, no caller and not `tasks` -/
theorem stepRFinish_frame (s : SfSt) (r : Nat) :
    (stepRFinish s r).execs = s.execs ∧ (stepRFinish s r).callers = s.callers ∧ (stepRFinish s r).table = s.table ∧
    (stepRFinish s r).created = s.created ∧ (stepRFinish s r).caching = s.caching := by
  unfold stepRFinish
  split
  · exact ⟨rfl, rfl, rfl, rfl, rfl⟩
  · split <;> exact ⟨rfl, rfl, rfl, rfl, rfl⟩

/-! ### scripts are fixed at creation; settled callers stay settled -/

/-- `x'` is a later stage of the same execution as `x` -/
def Exec.Later (x x' : Exec) : Prop :=
  x'.key = x.key ∧ x'.outcome = x.outcome ∧ x'.hit = x.hit ∧ (x.finished = true → x'.finished = true) ∧
  x'.remaining ≤ x.remaining ∧ x'.waitsOn = x.waitsOn

theorem Exec.later_refl (x : Exec) : Exec.Later x x := ⟨rfl, rfl, rfl, id, Nat.le_refl _, rfl⟩

theorem Exec.later_trans {x y z : Exec} (a : Exec.Later x y) (b : Exec.Later y z) : Exec.Later x z :=
  ⟨b.1.trans a.1, b.2.1.trans a.2.1, b.2.2.1.trans a.2.2.1, fun h => b.2.2.2.1 (a.2.2.2.1 h),
   Nat.le_trans b.2.2.2.2.1 a.2.2.2.2.1, b.2.2.2.2.2.trans a.2.2.2.2.2⟩

theorem exec_step (s : SfSt) (h : Inv s) (a : Act) (e : Nat) (x : Exec) (hx : s.execs e = some x) :
    ∃ x', (step s a).execs e = some x' ∧ Exec.Later x x' := by
  cases a with
  | call c key n o =>
    show ∃ x', (stepCall s c key n o).execs e = some x' ∧ _
    unfold stepCall
    split
    · exact ⟨x, hx, Exec.later_refl x⟩
    · rename_i hc
      split
      · exact ⟨x, hx, Exec.later_refl x⟩
      · have : e ≠ c := by
          intro hh; subst hh
          exact h.fresh e (by rw [hx]; simp) hc
        exact ⟨x, by simp [upd_apply, this, hx], Exec.later_refl x⟩
  | bodyStep e' =>
    show ∃ x', (stepBody s e').execs e = some x' ∧ _
    unfold stepBody
    split
    · exact ⟨x, hx, Exec.later_refl x⟩
    · rename_i y hy
      split
      · exact ⟨x, hx, Exec.later_refl x⟩
      · by_cases hee : e = e'
        · subst hee
          rw [hx] at hy
          simp only [Option.some.injEq] at hy
          subst hy
          exact ⟨_, if_pos rfl, rfl, rfl, rfl, id, Nat.sub_le _ _, rfl⟩
        · exact ⟨x, by simp [upd_apply, hee, hx], Exec.later_refl x⟩
  | finish e' =>
    show ∃ x', (stepFinish s e').execs e = some x' ∧ _
    unfold stepFinish
    split
    · exact ⟨x, hx, Exec.later_refl x⟩
    · rename_i y hy
      split
      · exact ⟨x, hx, Exec.later_refl x⟩
      · by_cases hee : e = e'
        · subst hee
          rw [hx] at hy
          simp only [Option.some.injEq] at hy
          subst hy
          exact ⟨_, if_pos rfl, rfl, rfl, rfl, fun _ => rfl, Nat.le_refl _, rfl⟩
        · exact ⟨x, by simp [upd_apply, hee, hx], Exec.later_refl x⟩
  | cancel c =>
    have := (stepCancel_frame s c).2.2.1
    exact ⟨x, by show (stepCancel s c).execs e = some x; rw [this]; exact hx, Exec.later_refl x⟩
  | tick d => exact ⟨x, hx, Exec.later_refl x⟩
  | rstep r => exact ⟨x, by show (stepRBody s r).execs e = some x; rw [(stepRBody_frame s r).1]; exact hx, Exec.later_refl x⟩
  | rfinish r =>
    exact ⟨x, by show (stepRFinish s r).execs e = some x; rw [(stepRFinish_frame s r).1]; exact hx, Exec.later_refl x⟩

theorem exec_run (s : SfSt) (h : Inv s) (tr : List Act) (e : Nat) (x : Exec) (hx : s.execs e = some x) :
    ∃ x', (run s tr).execs e = some x' ∧ Exec.Later x x' := by
  induction tr generalizing s x with
  | nil => exact ⟨x, hx, Exec.later_refl x⟩
  | cons a tr ih =>
    obtain ⟨y, hy, hl⟩ := exec_step s h a e x hx
    obtain ⟨z, hz, hl'⟩ := ih (step s a) (inv_step s h a) y hy
    exact ⟨z, hz, Exec.later_trans hl hl'⟩

/-- a caller that received an outcome, or was cancelled, never changes again -/
theorem settled_step (s : SfSt) (a : Act) (c : Nat) (e : Option Nat) (st : CSt)
    (hc : s.callers c = some ⟨e, st⟩) (hst : st ≠ .waiting) : (step s a).callers c = some ⟨e, st⟩ := by
  cases a with
  | call c' key n o =>
    show (stepCall s c' key n o).callers c = _
    unfold stepCall
    split
    · exact hc
    · rename_i hc'
      have : c ≠ c' := by
        intro hh; subst hh; rw [hc] at hc'; simp at hc'
      split <;> simp [upd_apply, this, hc]
  | bodyStep e' =>
    show (stepBody s e').callers c = _
    unfold stepBody
    split
    · exact hc
    · split <;> exact hc
  | finish e' =>
    show (stepFinish s e').callers c = _
    unfold stepFinish
    split
    · exact hc
    · split
      · exact hc
      · simp only [deliver_apply, hc]
        cases st with
        | waiting => exact absurd rfl hst
        | got o => cases e <;> rfl
        | cancelled => cases e <;> rfl
  | cancel c' =>
    show (stepCancel s c').callers c = _
    by_cases hcc : c = c'
    · subst hcc
      unfold stepCancel
      rw [hc]
      cases st with
      | waiting => exact absurd rfl hst
      | got o => simp [hc]
      | cancelled => simp [hc]
    · rw [(stepCancel_frame s c').2.2.2.2.2.1 c hcc]
      exact hc
  | tick d => exact hc
  | rstep r => show (stepRBody s r).callers c = _; rw [(stepRBody_frame s r).2.1]; exact hc
  | rfinish r => show (stepRFinish s r).callers c = _; rw [(stepRFinish_frame s r).2.1]; exact hc

theorem settled_run (s : SfSt) (tr : List Act) (c : Nat) (e : Option Nat) (st : CSt)
    (hc : s.callers c = some ⟨e, st⟩) (hst : st ≠ .waiting) : (run s tr).callers c = some ⟨e, st⟩ := by
  induction tr generalizing s with
  | nil => exact hc
  | cons a tr ih => exact ih (step s a) (settled_step s a c e st hc hst)

/-! ### who can become attached to an execution -/

/-- a call by one caller leaves every other caller's entry alone -/
theorem call_other_caller (s : SfSt) (c c' key n : Nat) (o : Outcome) (h : c' ≠ c) :
    (step s (.call c key n o)).callers c' = s.callers c' := by
  show (stepCall s c key n o).callers c' = _
  unfold stepCall
  split
  · rfl
  · split <;> simp [upd_apply, h]

/-- One step attaches a caller to execution `e` only if `e` is unfinished after the step (it joined through the
table, or created it); otherwise the caller was attached to `e` before. -/
theorem attach_step (s : SfSt) (h : Inv s) (a : Act) (c e : Nat) (st : CSt)
    (hc : (step s a).callers c = some ⟨some e, st⟩) :
    (∃ st', s.callers c = some ⟨some e, st'⟩) ∨ (∃ x, (step s a).execs e = some x ∧ x.finished = false) := by
  cases a with
  | call c' key n o =>
    by_cases hcc : c = c'
    · subst hcc
      have hc0 : (stepCall s c key n o).callers c = some ⟨some e, st⟩ := hc
      show _ ∨ (∃ x, (stepCall s c key n o).execs e = some x ∧ _)
      unfold stepCall at hc0 ⊢
      cases hcur : s.callers c with
      | some cl =>
        rw [hcur] at hc0
        simp only at hc0
        rw [hcur] at hc0
        left
        exact ⟨st, by rw [← hc0]⟩
      | none =>
        rw [hcur] at hc0
        simp only at hc0 ⊢
        cases ht : s.table key with
        | some e' =>
          rw [ht] at hc0
          simp only [upd_same, Option.some.injEq, Caller.mk.injEq] at hc0
          obtain ⟨x, hx, _, hf⟩ := h.tab key e' ht
          right
          obtain ⟨h1, _⟩ := hc0
          subst h1
          exact ⟨x, hx, hf⟩
        | none =>
          rw [ht] at hc0
          simp only [upd_same, Option.some.injEq, Caller.mk.injEq] at hc0
          obtain ⟨h1, _⟩ := hc0
          subst h1
          right
          refine ⟨newExec s c key n o, by simp, ?_⟩
          first | exact newExec_key _ _ _ _ _ | exact newExec_unfinished _ _ _ _ _
    · left
      rw [call_other_caller s c' c key n o hcc] at hc
      exact ⟨st, hc⟩
  | bodyStep e' =>
    left
    have : (stepBody s e').callers = s.callers := by
      unfold stepBody
      split
      · rfl
      · split <;> rfl
    have hc0 : (stepBody s e').callers c = some ⟨some e, st⟩ := hc
    rw [this] at hc0
    exact ⟨st, hc0⟩
  | finish e' =>
    left
    have hc0 : (stepFinish s e').callers c = some ⟨some e, st⟩ := hc
    unfold stepFinish at hc0
    split at hc0
    · exact ⟨st, hc0⟩
    · rename_i x hx
      split at hc0
      · exact ⟨st, hc0⟩
      · dsimp only at hc0
        rcases deliver_cases s.callers e' x.outcome c with ⟨h1, h2⟩ | ⟨_, h2⟩
        · rw [h2] at hc0
          simp only [Option.some.injEq, Caller.mk.injEq] at hc0
          obtain ⟨h3, _⟩ := hc0
          have : e' = e := by simpa using h3
          subst this
          exact ⟨.waiting, h1⟩
        · rw [h2] at hc0
          exact ⟨st, hc0⟩
  | cancel c' =>
    left
    have hc0 : (stepCancel s c').callers c = some ⟨some e, st⟩ := hc
    by_cases hcc : c = c'
    · subst hcc
      unfold stepCancel at hc0
      split at hc0
      · simp at hc0
      · rename_i e0 hcur
        simp only [upd_same, Option.some.injEq, Caller.mk.injEq] at hc0
        obtain ⟨h1, _⟩ := hc0
        subst h1
        exact ⟨.waiting, hcur⟩
      · exact ⟨st, hc0⟩
    · rw [(stepCancel_frame s c').2.2.2.2.2.1 c hcc] at hc0
      exact ⟨st, hc0⟩
  | tick d => exact Or.inl ⟨st, hc⟩
  | rstep r =>
    have hc0 : (stepRBody s r).callers c = some ⟨some e, st⟩ := hc
    rw [(stepRBody_frame s r).2.1] at hc0
    exact Or.inl ⟨st, hc0⟩
  | rfinish r =>
    have hc0 : (stepRFinish s r).callers c = some ⟨some e, st⟩ := hc
    rw [(stepRFinish_frame s r).2.1] at hc0
    exact Or.inl ⟨st, hc0⟩

/-- after an execution has finished nobody new is ever attached to it -/
theorem finished_no_new_waiters (s : SfSt) (h : Inv s) (tr : List Act) (e : Nat) (x : Exec)
    (hx : s.execs e = some x) (hf : x.finished = true) (c : Nat) (st : CSt)
    (hc : (run s tr).callers c = some ⟨some e, st⟩) : ∃ st', s.callers c = some ⟨some e, st'⟩ := by
  induction tr generalizing s x st with
  | nil => exact ⟨st, hc⟩
  | cons a tr ih =>
    obtain ⟨y, hy, hl⟩ := exec_step s h a e x hx
    obtain ⟨st', hst'⟩ := ih (step s a) (inv_step s h a) y hy (hl.2.2.2.1 hf) st hc
    rcases attach_step s h a c e st' hst' with hh | ⟨z, hz, hzf⟩
    · exact hh
    · rw [hy] at hz
      simp only [Option.some.injEq] at hz
      subst hz
      rw [hl.2.2.2.1 hf] at hzf
      simp at hzf

/-! ### recalculations (`early`): one body per key, counting executions and recalculations -/

/-- The invariant of the recalculation machinery (with the `recalculations` table, `guarded = true`). -/
structure RInv (s : SfSt) : Prop where
  /-- a running recalculation is registered under its key (`recalculations[_cache_key] = task` until the done-callback) -/
  rreg : ∀ r y, s.recalcs r = some y → y.finished = false → s.rtable y.key = some r
  /-- the table only holds running recalculations of that key -/
  rtab : ∀ k r, s.rtable k = some r → ∃ y, s.recalcs r = some y ∧ y.key = k ∧ y.finished = false
  /-- recalculation ids are ids of callers that have made their call -/
  rfresh : ∀ r, s.recalcs r ≠ none → s.callers r ≠ none
  rmem : ∀ r, r ∈ s.rcreated ↔ s.recalcs r ≠ none
  rnodup : s.rcreated.Nodup
  /-- an execution that runs a body and a running recalculation never have the same key -/
  excl : ∀ e x r y, s.execs e = some x → x.finished = false → x.hit = false → s.recalcs r = some y →
    y.finished = false → x.key ≠ y.key
  /-- an execution that awaits a recalculation awaits one of its key and delivers exactly its outcome, after it ended -/
  waits : ∀ e x r, s.execs e = some x → x.waitsOn = some r →
    ∃ y, s.recalcs r = some y ∧ y.key = x.key ∧ y.outcome = x.outcome ∧ (x.finished = true → y.finished = true)
  /-- recalculations exist only under a cache decorator -/
  mode : ∀ r, s.recalcs r ≠ none → s.caching = true

theorem rinv_init (cfg : Cfg) : RInv (init cfg) := by
  constructor <;> simp [init]

theorem guarded_step (s : SfSt) (a : Act) : (step s a).guarded = s.guarded := by
  cases a with
  | call c key n o =>
    show (stepCall s c key n o).guarded = _
    unfold stepCall
    split
    · rfl
    · split <;> rfl
  | bodyStep e =>
    show (stepBody s e).guarded = _
    unfold stepBody
    split
    · rfl
    · split <;> rfl
  | finish e =>
    show (stepFinish s e).guarded = _
    unfold stepFinish
    split
    · rfl
    · split <;> rfl
  | cancel c => exact (stepCancel_rest s c).guarded
  | tick d => rfl
  | rstep r =>
    show (stepRBody s r).guarded = _
    unfold stepRBody
    split
    · rfl
    · split <;> rfl
  | rfinish r =>
    show (stepRFinish s r).guarded = _
    unfold stepRFinish
    split
    · rfl
    · split <;> rfl

theorem guarded_run (s : SfSt) (tr : List Act) : (run s tr).guarded = s.guarded := by
  induction tr generalizing s with
  | nil => rfl
  | cons a tr ih => rw [run_cons, ih, guarded_step]

/-- a recalculation is started only when the table has none for the key -/
theorem spawns_imp (s : SfSt) (key : Nat) (hg : s.guarded = true) (h : spawns s key = true) : s.rtable key = none := by
  unfold spawns running at h
  rw [hg] at h
  split at h
  · simp only [if_true, Bool.and_eq_true, Option.isNone_iff_eq_none] at h
    exact h.1
  · simp at h

theorem look_ne_off (s : SfSt) (key : Nat) (hca : s.caching = true) : look s key ≠ .off := by
  unfold look
  rw [hca]
  simp only [if_true]
  split
  · split
    · split <;> simp
    · simp
  · simp

/-- an execution that runs a body of its own starts no recalculation and found none in the table -/
theorem newExec_body (s : SfSt) (c key n : Nat) (o : Outcome) (hg : s.guarded = true) (hca : s.caching = true)
    (h : (newExec s c key n o).hit = false) : spawns s key = false ∧ s.rtable key = none := by
  unfold newExec hitExec at h
  unfold spawns
  split at h
  · rename_i hl
    exact absurd hl (look_ne_off s key hca)
  · simp at h
  · split at h <;> simp at h
  · rename_i hl
    rw [hl]
    refine ⟨rfl, ?_⟩
    unfold running at h
    rw [hg] at h
    simp only [if_true] at h
    split at h
    · simp at h
    · assumption

/-- what an execution that awaits a recalculation awaits: the one it starts itself (foreground), or the one in the table -/
theorem newExec_waits (s : SfSt) (c key n : Nat) (o : Outcome) (hg : s.guarded = true) (r : Nat)
    (h : (newExec s c key n o).waitsOn = some r) :
    (r = c ∧ spawns s key = true ∧ (newExec s c key n o).outcome = o) ∨
    (s.rtable key = some r ∧ ∀ y, s.recalcs r = some y → (newExec s c key n o).outcome = y.outcome) := by
  unfold newExec hitExec at h ⊢
  split at h
  · simp at h
  · simp at h
  · rename_i v hl
    split at h
    · rename_i hsp
      simp only [Option.some.injEq] at h
      left
      rw [if_pos hsp]
      exact ⟨h.symm, hsp.1, rfl⟩
    · simp at h
  · rename_i hl
    unfold running at h ⊢
    rw [hg] at h ⊢
    simp only [if_true] at h ⊢
    split at h
    · rename_i r' hr'
      simp only [Option.some.injEq] at h
      subst h
      right
      rw [hr']
      refine ⟨rfl, ?_⟩
      intro y hy
      dsimp only
      rw [hy]
    · simp at h

theorem spawns_caching (s : SfSt) (key : Nat) (h : spawns s key = true) : s.caching = true := by
  unfold spawns look at h
  cases hc : s.caching with
  | true => rfl
  | false => rw [hc] at h; simp at h

theorem rinv_call (s : SfSt) (h : Inv s) (hr : RInv s) (hg : s.guarded = true) (c key n : Nat) (o : Outcome) :
    RInv (stepCall s c key n o) := by
  unfold stepCall
  split
  · exact hr
  · rename_i hc
    split
    · -- join: only the caller's entry changes
      refine ⟨hr.rreg, hr.rtab, ?_, hr.rmem, hr.rnodup, hr.excl, hr.waits, hr.mode⟩
      intro r hrr
      simp only [upd_apply]
      split
      · simp
      · exact hr.rfresh r hrr
    · rename_i ht
      have hec : s.execs c = none := by
        cases hh : s.execs c with
        | none => rfl
        | some x => exact absurd hc (h.fresh c (by rw [hh]; simp))
      have hrc : s.recalcs c = none := by
        cases hh : s.recalcs c with
        | none => rfl
        | some x => exact absurd hc (hr.rfresh c (by rw [hh]; simp))
      by_cases hsp : spawns s key = true
      · -- a stale value, no recalculation running, lock free: the execution starts a recalculation
        simp only [hsp, if_true]
        have hrt : s.rtable key = none := spawns_imp s key hg hsp
        refine ⟨?_, ?_, ?_, ?_, ?_, ?_, ?_, ?_⟩
        · intro r y hy hyf
          simp only [upd_apply] at hy ⊢
          by_cases hrc' : r = c
          · subst hrc'
            simp only [if_true, Option.some.injEq] at hy
            subst hy
            simp [newRecalc]
          · simp only [hrc', if_false] at hy
            have := hr.rreg r y hy hyf
            by_cases hk : y.key = key
            · rw [hk, hrt] at this; simp at this
            · simp [hk, this]
        · intro k r hk
          simp only [upd_apply] at hk ⊢
          by_cases hkk : k = key
          · subst hkk
            simp only [if_true, Option.some.injEq] at hk
            subst hk
            exact ⟨newRecalc s k n o, by simp, rfl, rfl⟩
          · simp only [hkk, if_false] at hk
            obtain ⟨y, hy, hyk, hyf⟩ := hr.rtab k r hk
            have : r ≠ c := by
              intro hh; subst hh; rw [hrc] at hy; simp at hy
            exact ⟨y, by simp [this, hy], hyk, hyf⟩
        · intro r hrr
          simp only [upd_apply] at hrr ⊢
          by_cases hrc' : r = c
          · simp [hrc']
          · simp only [hrc', if_false] at hrr ⊢
            exact hr.rfresh r hrr
        · intro r
          simp only [upd_apply, List.mem_append, List.mem_singleton]
          by_cases hrc' : r = c
          · simp [hrc']
          · simp only [hrc', if_false, or_false]
            exact hr.rmem r
        · have : c ∉ s.rcreated := by
            intro hm
            exact (hr.rmem c).1 hm hrc
          have this' : ∀ a ∈ s.rcreated, ¬ a = c := fun a ha hac => this (hac ▸ ha)
          simpa [List.nodup_append, hr.rnodup] using this'
        · intro e x r y he hf hh hy hyf
          simp only [upd_apply] at he hy
          by_cases hce : e = c
          · subst hce
            simp only [if_true, Option.some.injEq] at he
            subst he
            have := (newExec_body s e key n o hg (spawns_caching s key hsp) hh).1
            rw [hsp] at this
            simp at this
          · simp only [hce, if_false] at he
            by_cases hrc' : r = c
            · subst hrc'
              simp only [if_true, Option.some.injEq] at hy
              subst hy
              intro hk
              have := h.reg e x he hf
              rw [hk] at this
              simp only [newRecalc] at this
              rw [ht] at this
              simp at this
            · simp only [hrc', if_false] at hy
              exact hr.excl e x r y he hf hh hy hyf
        · intro e x r he hw
          simp only [upd_apply] at he ⊢
          by_cases hce : e = c
          · subst hce
            simp only [if_true, Option.some.injEq] at he
            subst he
            rcases newExec_waits s e key n o hg r hw with ⟨h1, _, h3⟩ | ⟨h1, _⟩
            · subst h1
              refine ⟨newRecalc s key n o, by simp, ?_, ?_, ?_⟩
              · rw [newExec_key]; rfl
              · rw [h3]; rfl
              · intro hfin; rw [newExec_unfinished] at hfin; simp at hfin
            · rw [hrt] at h1; simp at h1
          · simp only [hce, if_false] at he
            obtain ⟨y, hy, hrest⟩ := hr.waits e x r he hw
            have : r ≠ c := by
              intro hh; subst hh; rw [hrc] at hy; simp at hy
            exact ⟨y, by simp [this, hy], hrest⟩
        · intro r hrr
          simp only [upd_apply] at hrr
          by_cases hrc' : r = c
          · exact spawns_caching s key hsp
          · simp only [hrc', if_false] at hrr
            exact hr.mode r hrr
      · -- no recalculation is started
        have hsf : spawns s key = false := by
          cases h' : spawns s key with
          | false => rfl
          | true => exact absurd h' hsp
        simp only [hsf, Bool.false_eq_true, if_false]
        refine ⟨hr.rreg, hr.rtab, ?_, hr.rmem, hr.rnodup, ?_, ?_, hr.mode⟩
        · intro r hrr
          simp only [upd_apply]
          split
          · simp
          · exact hr.rfresh r hrr
        · intro e x r y he hf hh hy hyf
          simp only [upd_apply] at he
          by_cases hce : e = c
          · subst hce
            simp only [if_true, Option.some.injEq] at he
            subst he
            have hb := (newExec_body s e key n o hg (hr.mode r (by rw [hy]; simp)) hh).2
            have h1 := hr.rreg r y hy hyf
            rw [newExec_key]
            intro hk
            rw [← hk, hb] at h1
            simp at h1
          · simp only [hce, if_false] at he
            exact hr.excl e x r y he hf hh hy hyf
        · intro e x r he hw
          simp only [upd_apply] at he
          by_cases hce : e = c
          · subst hce
            simp only [if_true, Option.some.injEq] at he
            subst he
            rcases newExec_waits s e key n o hg r hw with ⟨_, h2, _⟩ | ⟨h1, h2⟩
            · exact absurd h2 hsp
            · obtain ⟨y, hy, hk, _⟩ := hr.rtab key r h1
              refine ⟨y, hy, by rw [newExec_key]; exact hk, (h2 y hy).symm, ?_⟩
              intro hfin; rw [newExec_unfinished] at hfin; simp at hfin
          · simp only [hce, if_false] at he
            exact hr.waits e x r he hw

theorem rinv_body (s : SfSt) (hr : RInv s) (e : Nat) : RInv (stepBody s e) := by
  unfold stepBody
  split
  · exact hr
  · rename_i x hx
    split
    · exact hr
    · refine ⟨hr.rreg, hr.rtab, hr.rfresh, hr.rmem, hr.rnodup, ?_, ?_, hr.mode⟩
      · intro e' x' r y he' hf hh hy hyf
        simp only [upd_apply] at he'
        by_cases hee : e' = e
        · subst hee
          simp only [if_true, Option.some.injEq] at he'
          subst he'
          exact hr.excl e' x r y hx hf hh hy hyf
        · simp only [hee, if_false] at he'
          exact hr.excl e' x' r y he' hf hh hy hyf
      · intro e' x' r he' hw
        simp only [upd_apply] at he'
        by_cases hee : e' = e
        · subst hee
          simp only [if_true, Option.some.injEq] at he'
          subst he'
          exact hr.waits e' x r hx hw
        · simp only [hee, if_false] at he'
          exact hr.waits e' x' r he' hw

theorem blocked_false (s : SfSt) (x : Exec) (r : Nat) (y : Exec) (hw : x.waitsOn = some r) (hy : s.recalcs r = some y)
    (hb : ¬ blocked s x = true) : y.finished = true := by
  unfold blocked at hb
  rw [hw] at hb
  simp only [hy] at hb
  cases hf : y.finished with
  | true => rfl
  | false => rw [hf] at hb; simp at hb

theorem rinv_finish (s : SfSt) (hr : RInv s) (e : Nat) : RInv (stepFinish s e) := by
  unfold stepFinish
  split
  · exact hr
  · rename_i x hx
    split
    · exact hr
    · rename_i hcond
      have hnb : ¬ blocked s x = true := fun hb => hcond (Or.inr (Or.inr hb))
      refine ⟨hr.rreg, hr.rtab, ?_, hr.rmem, hr.rnodup, ?_, ?_, hr.mode⟩
      · intro r hrr hd
        exact hr.rfresh r hrr ((deliver_none_iff _ _ _ _).1 hd)
      · intro e' x' r y he' hf hh hy hyf
        simp only [upd_apply] at he'
        by_cases hee : e' = e
        · subst hee
          simp only [if_true, Option.some.injEq] at he'
          subst he'
          simp at hf
        · simp only [hee, if_false] at he'
          exact hr.excl e' x' r y he' hf hh hy hyf
      · intro e' x' r he' hw
        simp only [upd_apply] at he'
        by_cases hee : e' = e
        · subst hee
          simp only [if_true, Option.some.injEq] at he'
          subst he'
          obtain ⟨y, hy, hk, ho, _⟩ := hr.waits e' x r hx hw
          exact ⟨y, hy, hk, ho, fun _ => blocked_false s x r y hw hy hnb⟩
        · simp only [hee, if_false] at he'
          exact hr.waits e' x' r he' hw

theorem rinv_cancel (s : SfSt) (hr : RInv s) (c : Nat) : RInv (stepCancel s c) := by
  have hk : ∀ r, s.callers r ≠ none → (stepCancel s c).callers r ≠ none := by
    intro r hrr
    by_cases hrc : r = c
    · subst hrc; exact (stepCancel_frame s r).2.2.2.2.2.2
    · rw [(stepCancel_frame s c).2.2.2.2.2.1 r hrc]; exact hrr
  obtain ⟨_, _, f3, _, _, _, _⟩ := stepCancel_frame s c
  obtain ⟨_, _, _, _, _, p6, p7, _, p9⟩ := stepCancel_rest s c
  refine ⟨?_, ?_, ?_, ?_, ?_, ?_, ?_, ?_⟩
  · rw [p6, p7]; exact hr.rreg
  · rw [p6, p7]; exact hr.rtab
  · rw [p6]; exact fun r hrr => hk r (hr.rfresh r hrr)
  · rw [p6, p9]; exact hr.rmem
  · rw [p9]; exact hr.rnodup
  · rw [p6, f3]; exact hr.excl
  · rw [p6, f3]; exact hr.waits
  · rw [p6, (stepCancel_frame s c).1]; exact hr.mode

theorem rinv_rbody (s : SfSt) (hr : RInv s) (r : Nat) : RInv (stepRBody s r) := by
  unfold stepRBody
  split
  · exact hr
  · rename_i y hy
    split
    · exact hr
    · rename_i hcond
      have hyf : y.finished = false := by
        cases hf : y.finished <;> simp_all
      refine ⟨?_, ?_, ?_, ?_, hr.rnodup, ?_, ?_, ?_⟩
      · intro r' y' hy' hf'
        simp only [upd_apply] at hy'
        by_cases hrr : r' = r
        · subst hrr
          simp only [if_true, Option.some.injEq] at hy'
          subst hy'
          exact hr.rreg r' y hy hyf
        · simp only [hrr, if_false] at hy'
          exact hr.rreg r' y' hy' hf'
      · intro k r' hk
        obtain ⟨y', hy', hk', hf'⟩ := hr.rtab k r' hk
        simp only [upd_apply]
        by_cases hrr : r' = r
        · subst hrr
          rw [hy] at hy'
          simp only [Option.some.injEq] at hy'
          subst hy'
          exact ⟨_, if_pos rfl, hk', hf'⟩
        · exact ⟨y', by simp [hrr, hy'], hk', hf'⟩
      · intro r' hrr'
        simp only [upd_apply] at hrr'
        by_cases hrr : r' = r
        · subst hrr; exact hr.rfresh r' (by rw [hy]; simp)
        · simp only [hrr, if_false] at hrr'
          exact hr.rfresh r' hrr'
      · intro r'
        simp only [upd_apply]
        by_cases hrr : r' = r
        · subst hrr
          simp only [if_true, ne_eq, reduceCtorEq, not_false_eq_true, iff_true]
          exact (hr.rmem r').2 (by rw [hy]; simp)
        · simp only [hrr, if_false]
          exact hr.rmem r'
      · intro e x r' y' he hf hh hy' hyf'
        simp only [upd_apply] at hy'
        by_cases hrr : r' = r
        · subst hrr
          simp only [if_true, Option.some.injEq] at hy'
          subst hy'
          exact hr.excl e x r' y he hf hh hy hyf
        · simp only [hrr, if_false] at hy'
          exact hr.excl e x r' y' he hf hh hy' hyf'
      · intro e x r' he hw
        obtain ⟨y', hy', hrest⟩ := hr.waits e x r' he hw
        simp only [upd_apply]
        by_cases hrr : r' = r
        · subst hrr
          rw [hy] at hy'
          simp only [Option.some.injEq] at hy'
          subst hy'
          exact ⟨_, if_pos rfl, hrest⟩
        · exact ⟨y', by simp [hrr, hy'], hrest⟩
      · intro r' hrr'
        simp only [upd_apply] at hrr'
        by_cases hrr : r' = r
        · subst hrr; exact hr.mode r' (by rw [hy]; simp)
        · simp only [hrr, if_false] at hrr'
          exact hr.mode r' hrr'

theorem rinv_rfinish (s : SfSt) (hr : RInv s) (r : Nat) : RInv (stepRFinish s r) := by
  unfold stepRFinish
  split
  · exact hr
  · rename_i y hy
    split
    · exact hr
    · rename_i hcond
      have hyf : y.finished = false := by
        cases hf : y.finished <;> simp_all
      have hreg := hr.rreg r y hy hyf
      refine ⟨?_, ?_, ?_, ?_, hr.rnodup, ?_, ?_, ?_⟩
      · intro r' y' hy' hf'
        simp only [upd_apply] at hy' ⊢
        by_cases hrr : r' = r
        · subst hrr
          simp only [if_true, Option.some.injEq] at hy'
          subst hy'
          simp at hf'
        · simp only [hrr, if_false] at hy'
          have h1 := hr.rreg r' y' hy' hf'
          by_cases hk : y'.key = y.key
          · rw [hk, hreg] at h1
            simp only [Option.some.injEq] at h1
            exact absurd h1.symm hrr
          · simp [hk, h1]
      · intro k r' hk
        simp only [upd_apply] at hk ⊢
        by_cases hkk : k = y.key
        · simp [hkk] at hk
        · simp only [hkk, if_false] at hk
          obtain ⟨y', hy', hk', hf'⟩ := hr.rtab k r' hk
          have : r' ≠ r := by
            intro hh; subst hh; rw [hy] at hy'
            simp only [Option.some.injEq] at hy'
            subst hy'; exact hkk hk'.symm
          exact ⟨y', by simp [this, hy'], hk', hf'⟩
      · intro r' hrr'
        simp only [upd_apply] at hrr'
        by_cases hrr : r' = r
        · subst hrr; exact hr.rfresh r' (by rw [hy]; simp)
        · simp only [hrr, if_false] at hrr'
          exact hr.rfresh r' hrr'
      · intro r'
        simp only [upd_apply]
        by_cases hrr : r' = r
        · subst hrr
          simp only [if_true, ne_eq, reduceCtorEq, not_false_eq_true, iff_true]
          exact (hr.rmem r').2 (by rw [hy]; simp)
        · simp only [hrr, if_false]
          exact hr.rmem r'
      · intro e x r' y' he hf hh hy' hyf'
        simp only [upd_apply] at hy'
        by_cases hrr : r' = r
        · subst hrr
          simp only [if_true, Option.some.injEq] at hy'
          subst hy'
          simp at hyf'
        · simp only [hrr, if_false] at hy'
          exact hr.excl e x r' y' he hf hh hy' hyf'
      · intro e x r' he hw
        obtain ⟨y', hy', hk, ho, hfin⟩ := hr.waits e x r' he hw
        simp only [upd_apply]
        by_cases hrr : r' = r
        · subst hrr
          rw [hy] at hy'
          simp only [Option.some.injEq] at hy'
          subst hy'
          exact ⟨_, if_pos rfl, hk, ho, fun _ => rfl⟩
        · exact ⟨y', by simp [hrr, hy'], hk, ho, hfin⟩
      · intro r' hrr'
        simp only [upd_apply] at hrr'
        by_cases hrr : r' = r
        · subst hrr; exact hr.mode r' (by rw [hy]; simp)
        · simp only [hrr, if_false] at hrr'
          exact hr.mode r' hrr'

theorem rinv_step (s : SfSt) (h : Inv s) (hr : RInv s) (hg : s.guarded = true) (a : Act) : RInv (step s a) := by
  cases a with
  | call c key n o => exact rinv_call s h hr hg c key n o
  | bodyStep e => exact rinv_body s hr e
  | finish e => exact rinv_finish s hr e
  | cancel c => exact rinv_cancel s hr c
  | tick d => exact ⟨hr.rreg, hr.rtab, hr.rfresh, hr.rmem, hr.rnodup, hr.excl, hr.waits, hr.mode⟩
  | rstep r => exact rinv_rbody s hr r
  | rfinish r => exact rinv_rfinish s hr r

theorem rinv_run (s : SfSt) (h : Inv s) (hr : RInv s) (hg : s.guarded = true) (tr : List Act) : RInv (run s tr) := by
  induction tr generalizing s with
  | nil => exact hr
  | cons a tr ih =>
    exact ih (step s a) (inv_step s h a) (rinv_step s h hr hg a) (by rw [guarded_step]; exact hg)

/-- running recalculations of one key are unique -/
theorem recalculating_unique (s : SfSt) (hr : RInv s) (key r1 r2 : Nat)
    (h1 : Recalculating s r1 key) (h2 : Recalculating s r2 key) : r1 = r2 := by
  obtain ⟨y1, hy1, hk1, hf1⟩ := h1
  obtain ⟨y2, hy2, hk2, hf2⟩ := h2
  have a := hr.rreg r1 y1 hy1 hf1
  have b := hr.rreg r2 y2 hy2 hf2
  rw [hk1] at a
  rw [hk2, a] at b
  simpa using b

theorem recalcRunningB_iff (s : SfSt) (key r : Nat) : recalcRunningB s key r = true ↔ Recalculating s r key := by
  unfold recalcRunningB Recalculating
  split
  · rename_i y hy
    constructor
    · intro hb
      simp only [Bool.and_eq_true, beq_iff_eq, Bool.not_eq_true'] at hb
      exact ⟨y, hy, hb.1, hb.2⟩
    · rintro ⟨y', hy', hk, hf⟩
      rw [hy] at hy'
      simp only [Option.some.injEq] at hy'
      subst hy'
      simp [hk, hf]
  · rename_i hy
    constructor
    · intro hb; simp at hb
    · rintro ⟨y', hy', _⟩
      rw [hy] at hy'; simp at hy'

/-- **one body per key**: bodies run by executions and by recalculations together -/
theorem body_count_le_one (s : SfSt) (h : Inv s) (hr : RInv s) (key : Nat) : bodyRunningCount s key ≤ 1 := by
  unfold bodyRunningCount
  have h1 : (s.created.filter (bodyRunningB s key)).length ≤ 1 := by
    apply filter_length_le_one _ _ h.nodup
    intro a c _ _ ha hc
    exact inflight_unique _ h key a c ((inFlightB_iff _ _ _).1 (bodyRunningB_imp _ _ _ ha))
      ((inFlightB_iff _ _ _).1 (bodyRunningB_imp _ _ _ hc))
  have h2 : (s.rcreated.filter (recalcRunningB s key)).length ≤ 1 := by
    apply filter_length_le_one _ _ hr.rnodup
    intro a c _ _ ha hc
    exact recalculating_unique s hr key a c ((recalcRunningB_iff _ _ _).1 ha) ((recalcRunningB_iff _ _ _).1 hc)
  by_cases hz : s.rcreated.filter (recalcRunningB s key) = []
  · rw [hz]; simpa using h1
  · -- a recalculation of the key is running: no execution runs a body for it
    have hne : ∃ r, r ∈ s.rcreated.filter (recalcRunningB s key) := by
      cases hl : s.rcreated.filter (recalcRunningB s key) with
      | nil => exact absurd hl hz
      | cons r _ => exact ⟨r, by simp⟩
    obtain ⟨r, hrm⟩ := hne
    obtain ⟨y, hy, hyk, hyf⟩ := (recalcRunningB_iff s key r).1 (List.mem_filter.1 hrm).2
    have hzero : s.created.filter (bodyRunningB s key) = [] := by
      rw [List.filter_eq_nil_iff]
      intro e _ hb
      unfold bodyRunningB at hb
      split at hb
      · rename_i x hx
        simp only [Bool.and_eq_true, beq_iff_eq, Bool.not_eq_true'] at hb
        exact hr.excl e x r y hx hb.1.2 hb.2 hy hyf (by rw [hb.1.1, hyk])
      · simp at hb
    rw [hzero]
    simpa using h2

/-! ### time: `tick` is a stutter step of single-flight -/

/-- a time step moves the clock and nothing else -/
theorem tick_frame (s : SfSt) (d : Nat) :
    (step s (.tick d)).caching = s.caching ∧ (step s (.tick d)).ttl = s.ttl ∧ (step s (.tick d)).table = s.table ∧
    (step s (.tick d)).execs = s.execs ∧ (step s (.tick d)).callers = s.callers ∧
    (step s (.tick d)).cached = s.cached ∧ (step s (.tick d)).created = s.created ∧
    (step s (.tick d)).now = s.now + d ∧ Rest (step s (.tick d)) s :=
  ⟨rfl, rfl, rfl, rfl, rfl, rfl, rfl, rfl, rest_refl s⟩

theorem run_ticks_frame (s : SfSt) (ds : List Nat) :
    (run s (ds.map Act.tick)).caching = s.caching ∧ (run s (ds.map Act.tick)).ttl = s.ttl ∧
    (run s (ds.map Act.tick)).table = s.table ∧ (run s (ds.map Act.tick)).execs = s.execs ∧
    (run s (ds.map Act.tick)).callers = s.callers ∧ (run s (ds.map Act.tick)).cached = s.cached ∧
    (run s (ds.map Act.tick)).created = s.created ∧ (run s (ds.map Act.tick)).now = s.now + ds.sum ∧
    Rest (run s (ds.map Act.tick)) s := by
  induction ds generalizing s with
  | nil => exact ⟨rfl, rfl, rfl, rfl, rfl, rfl, rfl, by simp [run], rest_refl s⟩
  | cons d ds ih =>
    obtain ⟨h1, h2, h3, h4, h5, h6, h7, h8, h9⟩ := ih (step s (.tick d))
    refine ⟨h1, h2, h3, h4, h5, h6, h7, ?_, h9⟩
    show (run (step s (.tick d)) (ds.map Act.tick)).now = _
    rw [h8, List.sum_cons]
    show s.now + d + ds.sum = _
    omega

def Act.isTick : Act → Bool
  | .tick _ => true
  | _ => false

/-- the trace with every time step removed -/
def untimed (tr : List Act) : List Act := tr.filter fun a => !a.isTick

/-- two states that differ at most in the clock, and in which no recalculation exists (there is none without `early`) -/
structure SameButClock (s1 s2 : SfSt) : Prop where
  caching : s1.caching = s2.caching
  ttl : s1.ttl = s2.ttl
  table : s1.table = s2.table
  execs : s1.execs = s2.execs
  callers : s1.callers = s2.callers
  cached : s1.cached = s2.cached
  created : s1.created = s2.created
  rest : Rest s1 s2
  norec : ∀ r, s1.recalcs r = none

theorem caching_step (s : SfSt) (a : Act) : (step s a).caching = s.caching := by
  cases a with
  | call c key n o =>
    show (stepCall s c key n o).caching = _
    unfold stepCall
    split
    · rfl
    · split <;> rfl
  | bodyStep e =>
    show (stepBody s e).caching = _
    unfold stepBody
    split
    · rfl
    · split <;> rfl
  | finish e =>
    show (stepFinish s e).caching = _
    unfold stepFinish
    split
    · rfl
    · split <;> rfl
  | cancel c => exact (stepCancel_frame s c).1
  | tick d => rfl
  | rstep r => exact (stepRBody_frame s r).2.2.2.2.1
  | rfinish r => exact (stepRFinish_frame s r).2.2.2.2

theorem look_bare (s : SfSt) (h : s.caching = false) (key : Nat) : look s key = .off := by
  unfold look
  simp [h]

theorem spawns_bare (s : SfSt) (h : s.caching = false) (key : Nat) : spawns s key = false := by
  unfold spawns
  rw [look_bare s h]

theorem newExec_bare (s : SfSt) (h : s.caching = false) (c key n : Nat) (o : Outcome) :
    newExec s c key n o = { key := key, remaining := n, outcome := o, finished := false, hit := false, waitsOn := none } := by
  unfold newExec
  rw [look_bare s h]

/-- without a cache decorator no action reads the clock: the same action keeps two states that differ only in
the clock that way -/
theorem sbc_step (s1 s2 : SfSt) (h : SameButClock s1 s2) (hb : s1.caching = false) (a : Act) :
    SameButClock (step s1 a) (step s2 a) := by
  obtain ⟨hca, htt, ht, he, hcl, hcd, hcr, hr, hn⟩ := h
  have hb2 : s2.caching = false := by rw [← hca]; exact hb
  cases a with
  | call c key n o =>
    show SameButClock (stepCall s1 c key n o) (stepCall s2 c key n o)
    unfold stepCall
    rw [← hcl, ← ht]
    cases s1.callers c with
    | some _ => exact ⟨hca, htt, ht, he, hcl, hcd, hcr, hr, hn⟩
    | none =>
      cases s1.table key with
      | some e => dsimp only; exact ⟨hca, htt, rfl, he, rfl, hcd, hcr, hr, hn⟩
      | none =>
        dsimp only
        rw [newExec_bare s1 hb, newExec_bare s2 hb2, spawns_bare s1 hb, spawns_bare s2 hb2]
        refine ⟨hca, htt, rfl, ?_, rfl, hcd, ?_, hr, hn⟩
        · dsimp only; rw [he]
        · dsimp only; rw [hcr]
  | bodyStep e =>
    show SameButClock (stepBody s1 e) (stepBody s2 e)
    unfold stepBody
    rw [← he]
    cases s1.execs e with
    | none => exact ⟨hca, htt, ht, he, hcl, hcd, hcr, hr, hn⟩
    | some x =>
      dsimp only
      split
      · exact ⟨hca, htt, ht, he, hcl, hcd, hcr, hr, hn⟩
      · exact ⟨hca, htt, ht, rfl, hcl, hcd, hcr, hr, hn⟩
  | finish e =>
    show SameButClock (stepFinish s1 e) (stepFinish s2 e)
    unfold stepFinish
    rw [← he]
    cases s1.execs e with
    | none => exact ⟨hca, htt, ht, he, hcl, hcd, hcr, hr, hn⟩
    | some x =>
      dsimp only
      rw [← blocked_congr s1 s2 hr x]
      split
      · exact ⟨hca, htt, ht, he, hcl, hcd, hcr, hr, hn⟩
      · refine ⟨hca, htt, ?_, rfl, ?_, ?_, hcr, hr, hn⟩
        · dsimp only; rw [ht]
        · dsimp only; rw [hcl]
        · dsimp only
          simp only [hb, hb2, Bool.false_eq_true, false_and, if_false]
          cases x.outcome <;> exact hcd
  | cancel c =>
    show SameButClock (stepCancel s1 c) (stepCancel s2 c)
    unfold stepCancel
    rw [← hcl]
    cases s1.callers c with
    | none => exact ⟨hca, htt, ht, he, rfl, hcd, hcr, hr, hn⟩
    | some cl =>
      obtain ⟨e, st⟩ := cl
      cases st with
      | waiting => exact ⟨hca, htt, ht, he, rfl, hcd, hcr, hr, hn⟩
      | got o => exact ⟨hca, htt, ht, he, hcl, hcd, hcr, hr, hn⟩
      | cancelled => exact ⟨hca, htt, ht, he, hcl, hcd, hcr, hr, hn⟩
  | tick d => exact ⟨hca, htt, ht, he, hcl, hcd, hcr, hr, hn⟩
  | rstep r =>
    show SameButClock (stepRBody s1 r) (stepRBody s2 r)
    unfold stepRBody
    rw [← hr.recalcs, hn r]
    exact ⟨hca, htt, ht, he, hcl, hcd, hcr, hr, hn⟩
  | rfinish r =>
    show SameButClock (stepRFinish s1 r) (stepRFinish s2 r)
    unfold stepRFinish
    rw [← hr.recalcs, hn r]
    exact ⟨hca, htt, ht, he, hcl, hcd, hcr, hr, hn⟩

/-- for the bare decorator, removing every time step from a trace changes nothing but the clock -/
theorem untimed_run (s1 s2 : SfSt) (h : SameButClock s1 s2) (hb : s1.caching = false) (tr : List Act) :
    SameButClock (run s1 tr) (run s2 (untimed tr)) := by
  induction tr generalizing s1 s2 with
  | nil => exact h
  | cons a tr ih =>
    cases ha : a.isTick with
    | true =>
      have : untimed (a :: tr) = untimed tr := by simp [untimed, ha]
      rw [this, run_cons]
      cases a with
      | tick d =>
        exact ih _ _ ⟨h.caching, h.ttl, h.table, h.execs, h.callers, h.cached, h.created, h.rest, h.norec⟩ hb
      | call _ _ _ _ => simp [Act.isTick] at ha
      | bodyStep _ => simp [Act.isTick] at ha
      | finish _ => simp [Act.isTick] at ha
      | cancel _ => simp [Act.isTick] at ha
      | rstep _ => simp [Act.isTick] at ha
      | rfinish _ => simp [Act.isTick] at ha
    | false =>
      have : untimed (a :: tr) = a :: untimed tr := by simp [untimed, ha]
      rw [this, run_cons, run_cons]
      exact ih _ _ (sbc_step s1 s2 h hb a) (by rw [caching_step]; exact hb)

/-! ### bursts are traces -/

theorem macro_run (s : SfSt) (bursts : List (List Act)) : ∃ tr, bursts.foldl macroStep s = run s tr := by
  induction bursts generalizing s with
  | nil => exact ⟨[], rfl⟩
  | cons b bs ih =>
    obtain ⟨tr, htr⟩ := ih (macroStep s b)
    refine ⟨b ++ (run s b).rcreated.map Act.rfinish ++ (run s b).created.map Act.finish ++ tr, ?_⟩
    rw [List.foldl_cons, htr, run_append, run_append, run_append]
    rfl

end CashewsVerif.SingleFlight
