import CashewsVerif.Lemmas.TxMatchRun
import CashewsVerif.Lemmas.TxSample
/- A concrete, non-trivial transaction WITH PATTERN COMMANDS that meets every hypothesis of the
`…_with_patterns` theorems of C03 / C04 (used by the non-vacuity examples in `Props/C03.lean`, `Props/C04.lean`). -/
namespace CashewsVerif.Props.C04
open CashewsVerif Store CashewsVerif.Glob

/-- key names: the user keys 0, 2, 4 are "ka", "kb1", "kb2"; every reserved (odd) key has a ':'-prefixed name -/
def sampleName (k : Nat) : List Char :=
  if k % 2 = 1 then [':', 'l'] else if k = 0 then ['k', 'a'] else if k = 2 then ['k', 'b', '1'] else ['k', 'b', '2']

def pAll : List Char := ['k', '*']
def pB : List Char := ['k', 'b', '*']
def pNone : List Char := ['x', '*']

/-- over `sampleStore` (key 0 without TTL, key 2 with a live deadline, key 4 expired-unpurged): a delete followed by a
`delete_match` of an unrelated pattern, reads by pattern, a matching key written again and `delete_match` with the
IDENTICAL pattern twice more, a conditional write of a key `delete_match` removed, a pattern matching nothing -/
def sampleCmds : List TxCmd :=
  [.op (.delete 0), .deleteMatch pB, .op (.get 0), .scan pAll, .op (.set 2 (.tok 9) none .always), .op (.incr 4 1 none),
   .getMatch pAll, .deleteMatch pB, .deleteMatch pB, .op (.set 2 (.tok 7) none .xx), .deleteMatch pNone,
   .op (.getMany [0, 2, 4]), .op (.adv 1), .scan pAll, .op (.set 0 (.int 3) none .nx)]

theorem sampleName_reserved (k : Nat) (hr : reserved k = true) : sampleName k = [':', 'l'] := by
  simp only [reserved, beq_iff_eq] at hr
  simp [sampleName, hr]

theorem samplePatOk (pat : List Char) (h : glob pat [':', 'l'] = false) : PatOk sampleName pat :=
  fun k hr => by rw [sampleName_reserved k hr]; exact h

theorem sampleClosed : LockClosed sampleK := by
  intro k hk hr m
  simp only [sampleK, List.mem_cons, List.not_mem_nil, or_false] at hk
  rcases hk with h | h | h | h | h | h | h <;> subst h <;> first
    | (exact absurd hr (by decide))
    | (cases m <;> simp [lockKey, sampleK])

theorem sampleSetupC : TxSetupC sampleK sampleName sampleStore sampleCmds := by
  refine ⟨sampleSetup.within, sampleSetup.fits, sampleSetup.fitsOv, sampleSetup.free, sampleClosed, ?_⟩
  intro c hc
  simp only [sampleCmds, List.mem_cons, List.not_mem_nil, or_false] at hc
  rcases hc with h | h | h | h | h | h | h | h | h | h | h | h | h | h | h <;> subst h <;> first
    | exact samplePatOk _ (by decide)
    | (refine ⟨?_, ?_, rfl⟩ <;>
        simp [TxSt.KeysOk, Op.keys, TxSt.writeKeys, sampleK, reserved] <;>
        (intro m; cases m <;> simp [lockKey]))

end CashewsVerif.Props.C04
