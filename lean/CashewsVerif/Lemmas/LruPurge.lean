import CashewsVerif.Lemmas.MemRefine
/-
C11 (c): one sweep of the purge task, `for key in dict(self.store): await self.get(key)`, leaves exactly
the live entries, in their old relative order — although each of its reads does a `move_to_end`.
-/
namespace CashewsVerif
open Store

namespace Store

theorem keys_append (s t : Store) : keys (s ++ t) = keys s ++ keys t := by simp [keys]

theorem keys_cons (k : Key) (e : Entry) (s : Store) : keys ((k, e) :: s) = k :: keys s := rfl

theorem lookup_cons_self (k : Key) (e : Entry) (s : Store) : lookup ((k, e) :: s) k = some e := by
  simp [lookup]

theorem erase_cons_self (k : Key) (e : Entry) (s : Store) : erase ((k, e) :: s) k = erase s k := by
  simp [erase]

end Store

namespace Mem

/-- the sweep, generalised: `rest` = entries not visited yet (still in front, in order), `acc` = live
entries already visited (moved behind, in order) -/
theorem sweep_eq (now : Time) (cap : Nat) :
    ∀ (rest acc : Store), (keys (rest ++ acc)).Nodup →
      (keys rest).foldl (fun s k => (s.rawGet k).1) ({ now := now, cap := cap, store := rest ++ acc } : Mem)
        = { now := now, cap := cap, store := acc ++ rest.filter (fun p => p.2.live now) } := by
  intro rest
  induction rest with
  | nil => intro acc _; simp [keys]
  | cons p rest ih =>
    intro acc hnd
    obtain ⟨k, e⟩ := p
    have hnd' : k ∉ keys (rest ++ acc) ∧ (keys (rest ++ acc)).Nodup := by
      simpa [keys_cons] using hnd
    have her : erase (rest ++ acc) k = rest ++ acc := erase_of_not_mem _ _ hnd'.1
    simp only [keys_cons, List.foldl_cons]
    by_cases hl : e.live now = true
    · have h1 : (({ now := now, cap := cap, store := (k, e) :: rest ++ acc } : Mem).rawGet k).1
          = { now := now, cap := cap, store := rest ++ (acc ++ [(k, e)]) } := by
        unfold rawGet
        simp only [List.cons_append, lookup_cons_self, hl, if_true, put, erase_cons_self, her,
          List.append_assoc]
      rw [h1, ih (acc ++ [(k, e)])]
      · simp [hl]
      · have : (keys (rest ++ (acc ++ [(k, e)]))).Nodup := by
          rw [keys_append, keys_append] at *
          simp only [keys, List.map_cons, List.map_nil] at *
          have h2 := hnd'.2
          have h1 := hnd'.1
          rw [List.nodup_append] at h2 ⊢
          refine ⟨h2.1, ?_, ?_⟩
          · rw [List.nodup_append]
            refine ⟨h2.2.1, by simp, ?_⟩
            intro a ha b hb
            simp only [List.mem_singleton] at hb
            subst hb
            intro hab; subst hab
            exact h1 (List.mem_append_right _ ha)
          · intro a ha b hb
            rw [List.mem_append] at hb
            rcases hb with hb | hb
            · exact h2.2.2 a ha b hb
            · simp only [List.mem_singleton] at hb
              subst hb
              intro hab; subst hab
              exact h1 (List.mem_append_left _ ha)
        exact this
    · have hl' : e.live now = false := by simpa using hl
      have h1 : (({ now := now, cap := cap, store := (k, e) :: rest ++ acc } : Mem).rawGet k).1
          = { now := now, cap := cap, store := rest ++ acc } := by
        unfold rawGet
        simp [List.cons_append, lookup_cons_self, hl', erase_cons_self, her]
      rw [h1, ih acc hnd'.2]
      simp [hl']

/-- **a purge sweep keeps exactly the live entries, in the same relative order** -/
theorem purge_eq (s : Mem) (h : (keys s.store).Nodup) :
    s.purge = { s with store := s.store.filter (fun p => p.2.live s.now) } := by
  have := sweep_eq s.now s.cap s.store [] (by simpa using h)
  simpa [purge] using this

end Mem
end CashewsVerif
