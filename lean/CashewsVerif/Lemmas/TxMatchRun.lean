import CashewsVerif.Lemmas.TxMatch
/-
Whole histories with pattern commands: the concrete transaction (any mode) stays related to an abstract
transaction that simulates direct execution.  The abstract `delete_match` takes the list of scanned store keys
from the concrete run, so the abstract state is carried existentially (one induction gives refinement,
well-formedness, "the backend is not written" and — under the proviso — the simulation and the equality of
the observed answers); the per-command facts for regular commands are those of `TxRefine` / `TxSim` / `TxWf`.
-/
namespace CashewsVerif
open Store CashewsVerif.Glob

/-- a command over user keys of the universe `K` (regular commands: `OpOk`), a pattern that reaches no reserved key -/
def CmdOk (K : List Key) (name : Nat → List Char) : TxCmd → Prop
  | .op o => OpOk K o
  | .deleteMatch pat => PatOk name pat
  | .scan pat => PatOk name pat
  | .getMatch pat => PatOk name pat

/-- the standing assumptions of `TxSetup`, for histories with pattern commands; additionally the key universe
holds the lock keys of its user keys (a `delete_match` locks every store key it deletes) -/
structure TxSetupC (K : List Key) (name : Nat → List Char) (b : Mem) (cmds : List TxCmd) : Prop where
  within : b.Within K
  fits   : K.length ≤ b.cap
  fitsOv : K.length ≤ TxSt.overlaySize
  free   : ∀ k, reserved k = true → b.view k = none
  closed : LockClosed K
  cmds   : ∀ c ∈ cmds, CmdOk K name c

theorem TxSetupC.good {K name b cmds} (h : TxSetupC K name b cmds) : Good K b b.toTtl :=
  ⟨b.refines_toTtl, h.within, h.fits⟩

theorem TxSetupC.prefix {K name b cmds cmds'} (h : TxSetupC K name b (cmds ++ cmds')) : TxSetupC K name b cmds :=
  ⟨h.within, h.fits, h.fitsOv, h.free, h.closed, fun c hc => h.cmds c (by simp [hc])⟩

theorem cmdOk_keys {K name c} (h : CmdOk K name c) : ∀ k ∈ c.timing.keys, k ∈ K := by
  cases c with
  | op o => exact fun k hk => (h.1 k hk).1
  | deleteMatch pat => intro k hk; simp [TxCmd.timing, Op.keys] at hk
  | scan pat => intro k hk; simp [TxCmd.timing, Op.keys] at hk
  | getMatch pat => intro k hk; simp [TxCmd.timing, Op.keys] at hk

theorem TxSetupC.hist {K name b cmds} (h : TxSetupC K name b cmds) : ∀ c ∈ cmds, ∀ k ∈ c.timing.keys, k ∈ K :=
  fun c hc => cmdOk_keys (h.cmds c hc)

theorem TxSetupC.writes {K name b cmds} (h : TxSetupC K name b cmds) : TxSetupC K name b (writesOfC cmds) :=
  ⟨h.within, h.fits, h.fitsOv, h.free, h.closed, fun c hc => h.cmds c (List.mem_filter.mp hc).1⟩

/-- a history of regular commands only is a history -/
theorem TxSetup.toC {K b ops} (h : TxSetup K b ops) (name : Nat → List Char) (hcl : LockClosed K) :
    TxSetupC K name b (ops.map .op) :=
  ⟨h.within, h.fits, h.fitsOv, h.free, hcl, fun c hc => by
    obtain ⟨o, ho, rfl⟩ := List.mem_map.mp hc
    exact h.ops o ho⟩

theorem filterMap_congr' {α β} {f g : α → Option β} : ∀ {l : List α}, (∀ x ∈ l, f x = g x) → l.filterMap f = l.filterMap g
  | [], _ => rfl
  | x :: l, h => by
    simp only [List.filterMap_cons, h x (by simp)]
    rw [filterMap_congr' (fun y hy => h y (by simp [hy]))]

namespace TxSt
variable {K : List Key} {P : Option Time → Prop}

/-- what the induction carries about the answers under the proviso -/
def StepSim (K : List Key) (name : Nat → List Char) (a a' : ATx) (st : TxSt) (c : TxCmd) : Prop :=
  ∀ {T : Time} {t : TtlMap} {m : Mem}, Sim T a t → Good K m t →
    (∀ ttl ∈ c.timing.ttls, dlAfter T (deadlineOf t.now ttl) = true) → t.now + c.timing.dt ≤ T →
    Sim T a' (t.stepC name c) ∧ obsC K c (st.stepC name c).2 = obsC K c (m.stepC name c).2

/-- **one command of a history with pattern commands, in any mode** -/
theorem stepC_master {st : TxSt} {a : ATx} {tb : TtlMap} (hP0 : P none) (hcl : LockClosed K) (name : Nat → List Char)
    (h : TxRef K P st a tb) (hw : a.Wf) (c : TxCmd) (hc : CmdOk K name c)
    (hPt : ∀ ttl ∈ c.timing.ttls, P (deadlineOf st.ov.now ttl)) :
    ∃ a' tb', TxRef K P (st.stepC name c).1 a' tb' ∧ a'.Wf ∧
      a'.b = { a.b with now := a.b.now + c.timing.dt } ∧ StepSim K name a a' st c := by
  cases c with
  | op o =>
    obtain ⟨tb', h', ho⟩ := step_refines h o hc.1 (fun k hk => hc.2.1 k hk st.mode) hP0 hPt
    refine ⟨(a.step o).1, tb', h', ATx.wf_step hw o (opOk_user hc), ATx.step_b a o hc.2.2, ?_⟩
    intro T t m hs g hd hle
    have h1 := sim_step hs o hc.2.2 hd hle
    have h2 := Mem.good_step g o (fun k hk => (hc.1 k hk).1)
    refine ⟨h1.1, ?_⟩
    show COut.out (obs o (st.step o).2) = COut.out (obs o (m.step o).2)
    rw [ho, h1.2, h2.2]
  | deleteMatch pat =>
    obtain ⟨tb', h', ok⟩ := deleteMatchLock_refines h hcl (name := name) (pat := pat) hc
    have hks := fun k => scan_b_spec h (name := name) (pat := pat) hc k
    refine ⟨a.deleteMatchL name pat (Glob.scan name st.b pat), tb', ?_,
      ATx.wf_deleteMatchL hw name pat (fun k hk => (scan_b_user h hc hk).1), ?_, ?_⟩
    · rw [stepC_deleteMatch]; exact h'
    · simp [ATx.deleteMatchL, TxCmd.timing, Op.dt]
    · intro T t m hs g _ _
      refine ⟨sim_deleteMatch hs name pat hks, ?_⟩
      rw [stepC_deleteMatch, ok]; rfl
  | scan pat =>
    refine ⟨a, tb, h, hw, by simp [TxCmd.timing, Op.dt], ?_⟩
    intro T t m hs g _ _
    refine ⟨hs, ?_⟩
    show COut.keys (K.filter fun k => (st.scan name pat).contains k) = COut.keys (K.filter fun k => (Glob.scan name m pat).contains k)
    congr 1
    apply List.filter_congr
    intro k _
    rw [Bool.eq_iff_iff, List.contains_iff_mem, List.contains_iff_mem]
    exact scan_mem_iff h hs g hc k
  | getMatch pat =>
    refine ⟨a, tb, getMatch_refines h name pat, hw, by simp [TxCmd.timing, Op.dt], ?_⟩
    intro T t m hs g _ _
    refine ⟨hs, ?_⟩
    show COut.pairs (K.filterMap fun k => (st.getMatch name pat).2.find? (·.1 == k)) =
      COut.pairs (K.filterMap fun k => (Glob.getMatchAll name m pat).2.find? (·.1 == k))
    congr 1
    apply filterMap_congr'
    intro k _
    exact getMatch_find h hs g hc k

/-- what the induction carries about the answers of a whole history under the proviso -/
def RunSim (K : List Key) (name : Nat → List Char) (a a' : ATx) (st : TxSt) (cmds : List TxCmd) : Prop :=
  ∀ {T : Time} {t : TtlMap} {m : Mem}, Sim T a t → Good K m t →
    assignedOk T t.now (cmds.map TxCmd.timing) = true → endTime t.now (cmds.map TxCmd.timing) ≤ T →
    Sim T a' (t.runC name cmds) ∧ obsAllC K cmds (st.runC name cmds).2 = obsAllC K cmds (m.runC name cmds).2

/-- **a whole history with pattern commands, in any mode**: the final state refines a well-formed abstract
transaction whose backend is the initial one (aged), and under the proviso that abstract transaction simulates
direct execution and every observed answer is the answer of direct execution -/
theorem runC_master (hP0 : P none) (hcl : LockClosed K) (name : Nat → List Char) (cmds : List TxCmd) :
    ∀ {st : TxSt} {a : ATx} {tb : TtlMap}, TxRef K P st a tb → a.Wf → (∀ c ∈ cmds, CmdOk K name c) →
    TtlsOk P a.b.now (cmds.map TxCmd.timing) →
    ∃ a' tb', TxRef K P (st.runC name cmds).1 a' tb' ∧ a'.Wf ∧
      a'.b = { a.b with now := endTime a.b.now (cmds.map TxCmd.timing) } ∧ RunSim K name a a' st cmds := by
  induction cmds with
  | nil =>
    intro st a tb h hw _ _
    exact ⟨a, tb, h, hw, rfl, fun hs _ _ _ => ⟨hs, rfl⟩⟩
  | cons c cs ih =>
    intro st a tb h hw hok ht
    have hc := hok c (by simp)
    have hnow : st.ov.now = a.b.now := by rw [h.ov.ref.1, hw.clock]
    simp only [List.map_cons, TtlsOk] at ht
    obtain ⟨a1, tb1, h1, hw1, hb1, s1⟩ := stepC_master hP0 hcl name h hw c hc (by rw [hnow]; exact ht.1)
    have hb1now : a1.b.now = a.b.now + c.timing.dt := by rw [hb1]
    obtain ⟨a2, tb2, h2, hw2, hb2, s2⟩ := ih h1 hw1 (fun c' h' => hok c' (by simp [h'])) (by rw [hb1now]; exact ht.2)
    refine ⟨a2, tb2, h2, hw2, ?_, ?_⟩
    · rw [hb2, hb1]; simp [endTime]
    · intro T t m hs g has hend
      simp only [List.map_cons, assignedOk, Bool.and_eq_true, List.all_eq_true] at has
      simp only [List.map_cons, endTime] at hend
      have hle : t.now + c.timing.dt ≤ T := Nat.le_trans (endTime_ge _ _) hend
      obtain ⟨hs1, o1⟩ := s1 hs g has.1 hle
      have g1 := Mem.good_stepC g name c (cmdOk_keys hc)
      have hn := TtlMap.stepC_now name t c
      obtain ⟨hs2, o2⟩ := s2 hs1 g1 (by rw [hn]; exact has.2) (by rw [hn]; exact hend)
      refine ⟨hs2, ?_⟩
      simp only [runC, Mem.runC, obsAllC]
      rw [o1, o2]

end TxSt

/-! ### from `begin_` on -/

/-- every history reaches a state that refines a well-formed abstract transaction over the untouched (aged)
store — no proviso -/
theorem reachC {K name b cmds} (h : TxSetupC K name b cmds) (mode : TxMode) (id timeout : Nat) :
    ∃ a tb, TxRef K (fun _ => True) ((TxSt.begin_ b mode id timeout).runC name cmds).1 a tb ∧ a.Wf ∧
      a.b = { b.toTtl with now := endTimeC b.now cmds } := by
  obtain ⟨a, tb, h1, h2, h3, _⟩ := TxSt.runC_master (P := fun _ => True) trivial h.closed name cmds
    (TxSt.begin_refines h.within h.fits h.fitsOv h.free mode id timeout) (ATx.wf_begin _) h.cmds (ttlsOk_true _ _)
  exact ⟨a, tb, h1, h2, h3⟩

/-- the same under the proviso: all overlay deadlines lie beyond the end of the block, the abstract transaction
simulates direct execution and the observed answers are those of direct execution -/
theorem reachNdcC {K name b cmds} (h : TxSetupC K name b cmds) (hn : NoDeadlineCrossedC b cmds = true)
    (mode : TxMode) (id timeout : Nat) :
    ∃ a tb, TxRef K (fun dl => dlAfter (endTimeC b.now cmds) dl = true) ((TxSt.begin_ b mode id timeout).runC name cmds).1 a tb ∧
      a.Wf ∧ a.b = { b.toTtl with now := endTimeC b.now cmds } ∧
      Sim (endTimeC b.now cmds) a (b.toTtl.runC name cmds) ∧
      obsAllC K cmds ((TxSt.begin_ b mode id timeout).runC name cmds).2 = obsAllC K cmds (b.runC name cmds).2 := by
  have hn' := hn
  simp only [NoDeadlineCrossedC, NoDeadlineCrossed, Bool.and_eq_true] at hn'
  obtain ⟨a, tb, h1, h2, h3, h4⟩ := TxSt.runC_master (P := fun dl => dlAfter (endTimeC b.now cmds) dl = true) (by rfl)
    h.closed name cmds (TxSt.begin_refines h.within h.fits h.fitsOv h.free mode id timeout) (ATx.wf_begin _) h.cmds
    (ttlsOk_of_assigned _ _ hn'.2)
  obtain ⟨h5, h6⟩ := h4 (sim_begin hn) h.good hn'.2 (Nat.le_refl _)
  exact ⟨a, tb, h1, h2, h3, h5, h6⟩

/-- every clock of a reachable state shows the end time of the history -/
theorem now_of_refC {K : List Key} {P : Option Time → Prop} {st : TxSt} {a : ATx} {tb : TtlMap} {b : Mem} {T : Time}
    (href : TxRef K P st a tb) (hw : a.Wf) (hb : a.b = { b.toTtl with now := T }) :
    st.ov.now = T ∧ st.b.now = T ∧ tb.now = T := by
  obtain ⟨c1, c2, _⟩ := TxSt.clocks href hw
  have h3 : tb.now = T := by have := href.bnow; rw [hb] at this; exact this
  exact ⟨c1.trans h3, c2.trans h3, h3⟩

/-- the reads by pattern leave the ideal map alone: direct execution of the writes alone ends in the same map -/
theorem TtlMap.runC_writesOfC (name : Nat → List Char) (cmds : List TxCmd) : ∀ t : TtlMap,
    (∀ c ∈ cmds, c.timing.isTxOp = true) → t.runC name (writesOfC cmds) = t.runC name cmds := by
  induction cmds with
  | nil => intro t _; rfl
  | cons c cs ih =>
    intro t h
    have ih' := fun t => ih t (fun c' h' => h c' (by simp [h']))
    cases c with
    | op o =>
      by_cases hwr : o.isWrite = true
      · simp only [writesOfC, List.filter_cons, TxCmd.isWrite, hwr, if_true, TtlMap.runC]
        exact ih' _
      · have hno : (t.step o).1 = t := by
          have := TtlMap.run_writesOf [o] t (fun op hop => by
            rw [List.mem_singleton.mp hop]; exact h (.op o) (by simp))
          simp only [writesOf, List.filter_cons, hwr, List.filter_nil, TtlMap.run] at this
          exact this.symm
        simp only [writesOfC, List.filter_cons, TxCmd.isWrite, hwr, TtlMap.runC, TtlMap.stepC, hno]
        exact ih' _
    | deleteMatch pat =>
      simp only [writesOfC, List.filter_cons, TxCmd.isWrite, if_true, TtlMap.runC]
      exact ih' _
    | scan pat =>
      simp only [writesOfC, List.filter_cons, TxCmd.isWrite, TtlMap.runC, TtlMap.stepC]
      exact ih' _
    | getMatch pat =>
      simp only [writesOfC, List.filter_cons, TxCmd.isWrite, TtlMap.runC, TtlMap.stepC]
      exact ih' _

theorem cmdOk_isTxOp {K name c} (h : CmdOk K name c) : c.timing.isTxOp = true := by
  cases c with
  | op o => exact h.2.2
  | deleteMatch pat => rfl
  | scan pat => rfl
  | getMatch pat => rfl

/-- a history of regular commands runs as `TxSt.run` / `Mem.run` run it -/
theorem TxSt.runC_ops (name : Nat → List Char) (ops : List Op) : ∀ st : TxSt,
    ((st.runC name (ops.map .op)).1 = (st.run ops).1) ∧ (st.runC name (ops.map .op)).2 = (st.run ops).2.map .out := by
  induction ops with
  | nil => intro st; exact ⟨rfl, rfl⟩
  | cons o ops ih =>
    intro st
    simp only [List.map_cons, runC, run, stepC]
    exact ⟨(ih _).1, by rw [(ih _).2]⟩

theorem Mem.runC_ops (name : Nat → List Char) (ops : List Op) : ∀ m : Mem,
    ((m.runC name (ops.map .op)).1 = (m.run ops).1) ∧ (m.runC name (ops.map .op)).2 = (m.run ops).2.map .out := by
  induction ops with
  | nil => intro m; exact ⟨rfl, rfl⟩
  | cons o ops ih =>
    intro m
    simp only [List.map_cons, runC, run, stepC]
    exact ⟨(ih _).1, by rw [(ih _).2]⟩

/-- commands issued inside a block run as `TxSt.runC` runs them -/
theorem Ctx.runC_in (name : Nat → List Char) (cmds : List TxCmd) : ∀ (c : Ctx), c.inTx = true →
    (cmds.foldl (fun c cmd => (c.stepC name cmd).1) c) = { c with st := (c.st.runC name cmds).1 } := by
  induction cmds with
  | nil => intro c _; rfl
  | cons cmd cs ih =>
    intro c hin
    simp only [List.foldl_cons, TxSt.runC]
    have : (c.stepC name cmd).1 = { c with st := (c.st.stepC name cmd).1 } := by simp [Ctx.stepC, hin]
    rw [this]; exact ih { c with st := (c.st.stepC name cmd).1 } hin

end CashewsVerif
