import CashewsVerif.Lemmas.LruLeaves
/-
C11 over the larger alphabet (Model/Lru.lean, `Prog` / `XOp`): ghost erasure and the invariants for histories of
arbitrary programs over the primitives `_get` / `_set` / `_delete`.
-/
namespace CashewsVerif
open Store

namespace Lru

/-- **ghost erasure, one program** -/
theorem exec_mem (p : Prog) : ∀ x : Lru,
    (x.exec p).1.mem = (x.mem.exec p).1 ∧ (x.exec p).2 = (x.mem.exec p).2 := by
  induction p with
  | ret o => intro x; exact ⟨rfl, rfl⟩
  | get k c ih =>
    intro x
    have hg := gGet_mem x k
    simp only [exec, Mem.exec]
    rw [← hg.1, ← hg.2]
    exact ih _ _
  | set k v ttl c ih =>
    intro x
    simp only [exec, Mem.exec]
    rw [← gSet_mem]
    exact ih _
  | del k c ih =>
    intro x
    have hd := gDelete_mem x k
    simp only [exec, Mem.exec]
    rw [← hd.1, ← hd.2]
    exact ih _ _

theorem xstep_mem (x : Lru) (op : XOp) :
    (x.xstep op).1.mem = (x.mem.xstep op).1 ∧ (x.xstep op).2 = (x.mem.xstep op).2 := by
  unfold xstep Mem.xstep
  split
  · exact step_mem x _
  · exact exec_mem _ x

/-- **ghost erasure, whole history over the larger alphabet** -/
theorem xrun_mem (ops : List XOp) : ∀ x : Lru,
    (x.xrun ops).1.mem = (x.mem.xrun ops).1 ∧ (x.xrun ops).2 = (x.mem.xrun ops).2 := by
  induction ops with
  | nil => intro x; exact ⟨rfl, rfl⟩
  | cons op ops ih =>
    intro x
    have h1 := xstep_mem x op
    have h2 := ih (x.xstep op).1
    simp only [xrun, Mem.xrun]
    rw [← h1.1, ← h1.2]
    exact ⟨h2.1, by rw [h2.2]⟩

namespace Closed
variable {P : Lru → Prop}

/-- **any program over the primitives preserves what the primitives preserve** -/
theorem exec (h : Closed P) (p : Prog) : ∀ x, P x → P (x.exec p).1 := by
  induction p with
  | ret o => intro x hx; exact hx
  | get k c ih => intro x hx; exact ih _ _ (h.get x k hx)
  | set k v ttl c ih => intro x hx; exact ih _ (h.set x k v ttl hx)
  | del k c ih => intro x hx; exact ih _ _ (h.del x k hx)

theorem xstep (h : Closed P) (x : Lru) (op : XOp) (hx : P x) : P (x.xstep op).1 := by
  unfold Lru.xstep
  split
  · exact h.step x _ hx
  · exact h.exec _ x hx

theorem xrun (h : Closed P) (ops : List XOp) : ∀ x, P x → P (x.xrun ops).1 := by
  induction ops with
  | nil => intro x hx; exact hx
  | cons op ops ih => intro x hx; exact ih _ (h.xstep x op hx)

end Closed

theorem inv_xrun (cap : Nat) (ops : List XOp) : Inv ((Lru.init cap).xrun ops).1 :=
  inv_closed.xrun ops _ (inv_init cap)

theorem cap_xrun (cap : Nat) (ops : List XOp) : ((Lru.init cap).xrun ops).1.mem.cap = cap :=
  (cap_closed cap).xrun ops _ rfl

theorem disj_xrun (cap : Nat) (ops : List XOp) : Disj ((Lru.init cap).xrun ops).1 :=
  disj_closed.xrun ops _ (disj_init cap)

theorem xrun_snoc (ops : List XOp) (op : XOp) : ∀ x : Lru,
    (x.xrun (ops ++ [op])).1 = ((x.xrun ops).1.xstep op).1 := by
  induction ops with
  | nil => intro x; simp [xrun]
  | cons o ops ih => intro x; simp only [List.cons_append, xrun]; exact ih _

/-- the regular histories are the histories over the larger alphabet that use `reg` only -/
theorem xrun_reg (ops : List Op) : ∀ x : Lru, x.xrun (ops.map .reg) = x.run ops := by
  induction ops with
  | nil => intro x; rfl
  | cons op ops ih => intro x; simp only [List.map_cons, xrun, run, xstep, XOp.reg?, ih]

end Lru
end CashewsVerif
