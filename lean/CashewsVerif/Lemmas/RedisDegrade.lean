import CashewsVerif.Lemmas.RedisSim
/- Safe degradation (C19): what the backend model does when client calls fail - for ANY pattern of failures. -/
set_option linter.unusedSimpArgs false
namespace CashewsVerif.Redis
open KS


def Res.isOk {α} : Res α → Bool
  | .ok _ => true
  | _ => false

def Res.notOther {α} : Res α → Bool
  | .raiseOther => false
  | _ => true

/-- a suppressed client call (other than PING) always hands back a reply: the fallback or a non-error server reply -/
theorem clientCall_sup (cfg : Cfg) (hs : cfg.suppress = true) (c : Cmd) (hp : isPing c = false) (w : World) :
    ∃ r, (clientCall cfg c w).2 = .ok r ∧ (r = fallback c ∨ (r = (w.srv.exec c).2 ∧ r ≠ .err)) := by
  unfold clientCall
  by_cases hd : cfg.down w.calls = true
  · exact ⟨fallback c, by simp [hd, failed, hs, hp], Or.inl rfl⟩
  · by_cases he : (w.srv.exec c).2 = .err
    · exact ⟨fallback c, by simp [hd, he, failed, hs, hp], Or.inl rfl⟩
    · exact ⟨(w.srv.exec c).2, by simp [hd, he], Or.inr ⟨rfl, he⟩⟩

/-- a client call hands back the fallback or a non-error server reply, or raises the documented error - the latter
only when suppression is off or the command is PING -/
theorem clientCall_res (cfg : Cfg) (c : Cmd) (w : World) :
    ((clientCall cfg c w).2 = .raise ∧ (cfg.suppress = false ∨ isPing c = true)) ∨
    ∃ r, (clientCall cfg c w).2 = .ok r ∧ (r = fallback c ∨ (r = (w.srv.exec c).2 ∧ r ≠ .err)) := by
  unfold clientCall failed
  have hside : ¬ ((cfg.suppress && !isPing c) = true) → (cfg.suppress = false ∨ isPing c = true) := by
    intro h; by_cases a : cfg.suppress = true <;> by_cases b : isPing c = true <;> simp_all
  by_cases hd : cfg.down w.calls = true
  · by_cases hs : (cfg.suppress && !isPing c) = true
    · exact Or.inr ⟨fallback c, by simp [hd, hs], Or.inl rfl⟩
    · exact Or.inl ⟨by simp [hd, hs], hside hs⟩
  · by_cases he : (w.srv.exec c).2 = .err
    · by_cases hs : (cfg.suppress && !isPing c) = true
      · exact Or.inr ⟨fallback c, by simp [hd, he, hs], Or.inl rfl⟩
      · exact Or.inl ⟨by simp [hd, he, hs], hside hs⟩
    · exact Or.inr ⟨(w.srv.exec c).2, by simp [hd, he], Or.inr ⟨rfl, he⟩⟩

theorem get_shape (s : Srv) (k) : (s.exec (.get k)).2 = .nil ∨ (∃ b, (s.exec (.get k)).2 = .bulk b) ∨ (s.exec (.get k)).2 = .err := by
  simp only [Srv.exec, Srv.execPrim]; (repeat' split) <;> simp
theorem mget_shape (s : Srv) (ks) : (∃ l, (s.exec (.mget ks)).2 = .bulks l) ∨ (s.exec (.mget ks)).2 = .err := by
  simp only [Srv.exec, Srv.execPrim]; (repeat' split) <;> simp
theorem scan_shape (s : Srv) (c p n) : (∃ x l, (s.exec (.scan c p n)).2 = .scan x l) ∨ (s.exec (.scan c p n)).2 = .err := by
  simp only [Srv.exec, Srv.execPrim]; (repeat' split) <;> simp
theorem spop_shape' (s : Srv) (k n) : (∃ l, (s.exec (.spop k n)).2 = .strs l) ∨ (s.exec (.spop k n)).2 = .err := by
  simp only [Srv.exec, Srv.execPrim]; (repeat' split) <;> simp
theorem bitfield_shape' (s : Srv) (k ops) : (∃ l, (s.exec (.bitfield k ops)).2 = .ints l) ∨ (s.exec (.bitfield k ops)).2 = .err := by
  simp only [Srv.exec, Srv.execPrim]; (repeat' split) <;> simp


/-- a command result that is either a value satisfying `P` or the documented error - the latter only when
suppression is off (or for ping, `b = true`) -/
def FineP {α} (cfg : Cfg) (b : Bool) (P : α → Prop) (x : World × Res α) : Prop :=
  (∃ a, x.2 = .ok a ∧ P a) ∨ (x.2 = .raise ∧ (cfg.suppress = false ∨ b = true))

theorem fine_bind {α β} {cfg : Cfg} {b : Bool} {P : α → Prop} {Q : β → Prop} (x : M α) (f : α → M β) (w : World)
    (hx : FineP cfg b P (x w)) (hf : ∀ a w', P a → FineP cfg b Q (f a w')) : FineP cfg b Q ((x >>=ₘ f) w) := by
  unfold M.bind
  rcases hx with ⟨a, ha, hp⟩ | ⟨hr, hb⟩
  · have : x w = ((x w).1, .ok a) := by rw [← ha]
    rw [this]; exact hf a _ hp
  · have : x w = ((x w).1, .raise) := by rw [← hr]
    rw [this]; exact Or.inr ⟨rfl, hb⟩

theorem fine_pure {α} {cfg : Cfg} {b : Bool} {P : α → Prop} (a : α) (w : World) (h : P a) : FineP cfg b P (M.pure a w) :=
  Or.inl ⟨a, rfl, h⟩

/-- what a reply to command `c` can be once the client hands it over -/
def ReplyOf (c : Cmd) (r : Reply) : Prop := r = fallback c ∨ (∃ s : Srv, r = (s.exec c).2 ∧ r ≠ .err)

theorem call_fine (cfg : Cfg) (c : Cmd) (w : World) : FineP cfg (isPing c) (ReplyOf c) (call cfg c w) := by
  rcases clientCall_res cfg c w with ⟨hr, hside⟩ | ⟨r, hr, hsh⟩
  · exact Or.inr ⟨hr, hside⟩
  · left
    refine ⟨r, hr, ?_⟩
    rcases hsh with h | ⟨h1, h2⟩
    · exact Or.inl h
    · exact Or.inr ⟨w.srv, h1, h2⟩

theorem call_fine' (cfg : Cfg) (c : Cmd) (hp : isPing c = false) (w : World) : FineP cfg false (ReplyOf c) (call cfg c w) := by
  have := call_fine cfg c w
  rwa [hp] at this

theorem pipe_fine (cfg : Cfg) (cs : List Cmd) (w : World) : FineP cfg false (fun _ => True) (pipe cfg cs w) := by
  unfold pipe pipeCall
  by_cases h0 : cs.isEmpty = true
  · simp [h0]; exact Or.inl ⟨(), rfl, trivial⟩
  · by_cases hd : cfg.down w.calls = true
    · by_cases hs : cfg.suppress = true
      · simp [h0, hd, hs]; exact Or.inl ⟨(), rfl, trivial⟩
      · simp [h0, hd, hs]; exact Or.inr ⟨rfl, Or.inl (by simpa using hs)⟩
    · by_cases hs : cfg.suppress = true
      · simp [h0, hd, hs]; exact Or.inl ⟨(), rfl, trivial⟩
      · by_cases hm : multiErr w.srv cs = true
        · simp [h0, hd, hs, hm]; exact Or.inr ⟨rfl, Or.inl (by simpa using hs)⟩
        · simp [h0, hd, hs, hm]; exact Or.inl ⟨(), rfl, trivial⟩

theorem ensureScript_fine (cfg : Cfg) (sc : Script) (w : World) : FineP cfg false (fun _ => True) (ensureScript cfg sc w) := by
  unfold ensureScript
  by_cases hm : sc ∈ w.cached
  · simp [hm]; exact Or.inl ⟨_, rfl, trivial⟩
  · simp only [hm, if_false]
    rcases clientCall_res cfg (.scriptLoad (some sc)) w with ⟨hr, hside⟩ | ⟨r, hr, _⟩
    · have : clientCall cfg (.scriptLoad (some sc)) w = ((clientCall cfg (.scriptLoad (some sc)) w).1, .raise) := by rw [← hr]
      rw [this]
      refine Or.inr ⟨rfl, ?_⟩
      simpa [isPing] using hside
    · have : clientCall cfg (.scriptLoad (some sc)) w = ((clientCall cfg (.scriptLoad (some sc)) w).1, .ok r) := by rw [← hr]
      rw [this]
      cases r <;> exact Or.inl ⟨_, rfl, trivial⟩


abbrev T {α} : α → Prop := fun _ => True

theorem getMany_fine (cfg : Cfg) (ks : List String) (w : World) : FineP cfg false T (getMany cfg ks w) := by
  unfold getMany
  by_cases h0 : ks.isEmpty = true
  · simp only [h0, if_true]; exact fine_pure _ _ trivial
  · simp only [h0]
    refine fine_bind _ _ _ (call_fine' cfg _ rfl w) (fun r w' hr => ?_)
    rcases hr with h | ⟨s, h1, h2⟩
    · subst h; exact fine_pure _ _ trivial
    · rcases mget_shape s ks with ⟨l, hl⟩ | he
      · rw [h1, hl]; exact fine_pure _ _ trivial
      · exact absurd (h1 ▸ he) h2

theorem scanReply (c p n r) (hr : ReplyOf (.scan c p n) r) : ∃ x l, r = .scan x l := by
  rcases hr with h | ⟨s, h1, h2⟩
  · exact ⟨0, [], h⟩
  · rcases scan_shape s c p n with ⟨x, l, hl⟩ | he
    · exact ⟨x, l, h1.trans hl⟩
    · exact absurd (h1 ▸ he) h2

theorem scanLoop_fine (cfg : Cfg) (pat : String) (count : Nat) :
    ∀ fuel cur acc w, FineP cfg false T (scanLoop cfg pat count fuel cur acc w) := by
  intro fuel
  induction fuel with
  | zero => intro cur acc w; exact fine_pure _ _ trivial
  | succ f ih =>
    intro cur acc w
    simp only [scanLoop]
    refine fine_bind _ _ _ (call_fine' cfg _ rfl w) (fun r w' hr => ?_)
    obtain ⟨x, l, rfl⟩ := scanReply _ _ _ _ hr
    by_cases hx : x = 0
    · simp only [hx, if_true]; exact fine_pure _ _ trivial
    · simp only [hx, if_false]; exact ih _ _ _

theorem getMatchLoop_fine (cfg : Cfg) (pat : String) (count : Nat) :
    ∀ fuel cur acc w, FineP cfg false T (getMatchLoop cfg pat count fuel cur acc w) := by
  intro fuel
  induction fuel with
  | zero => intro cur acc w; exact fine_pure _ _ trivial
  | succ f ih =>
    intro cur acc w
    simp only [getMatchLoop]
    refine fine_bind _ _ _ (call_fine' cfg _ rfl w) (fun r w' hr => ?_)
    obtain ⟨x, l, rfl⟩ := scanReply _ _ _ _ hr
    by_cases hl : l.isEmpty = true
    · by_cases hx : x = 0
      · simp only [hl, hx, if_true]; exact fine_pure _ _ trivial
      · simp only [hl, hx, if_true, if_false]; exact ih _ _ _
    · simp only [hl]
      refine fine_bind _ _ _ (getMany_fine cfg l w') (fun vs w'' _ => ?_)
      by_cases hx : x = 0
      · simp only [hx, if_true]; exact fine_pure _ _ trivial
      · simp only [hx, if_false]; exact ih _ _ _

theorem delMatchLoop_fine (cfg : Cfg) (pat : String) :
    ∀ fuel cur w, FineP cfg false T (delMatchLoop cfg pat fuel cur w) := by
  intro fuel
  induction fuel with
  | zero => intro cur w; exact fine_pure _ _ trivial
  | succ f ih =>
    intro cur w
    simp only [delMatchLoop]
    refine fine_bind _ _ _ (call_fine' cfg _ rfl w) (fun r w' hr => ?_)
    obtain ⟨x, l, rfl⟩ := scanReply _ _ _ _ hr
    by_cases hl : l.isEmpty = true
    · by_cases hx : x = 0
      · simp only [hl, hx, if_true]; exact fine_pure _ _ trivial
      · simp only [hl, hx, if_true, if_false]; exact ih _ _
    · simp only [hl]
      exact fine_bind _ _ _ (call_fine' cfg _ rfl w') (fun _ w'' _ => ih _ _)

def isPingOp : ROp → Bool
  | .ping => true
  | _ => false

/-- a proper return value (not one of the two exception markers of `ROut`) -/
def Proper (o : ROut) : Prop := o ≠ .raise ∧ o ≠ .raiseOther

theorem proper_intOrNone (r : Reply) : Proper (intOrNone r) := by
  cases r <;> simp [intOrNone, Proper]

/-- no command of the backend ever lets anything but the documented error escape, and with suppression on only
`ping` raises at all -/
theorem stepM_fine (cfg : Cfg) (op : ROp) (w : World) : FineP cfg (isPingOp op) Proper (stepM cfg op w) := by
  have one : ∀ (c : Cmd) (f : Reply → ROut), isPing c = false → (∀ r, Proper (f r)) →
      FineP cfg false Proper ((call cfg c >>=ₘ fun r => M.pure (f r)) w) :=
    fun c f hp hf => fine_bind _ _ _ (call_fine' cfg c hp w) (fun r w' _ => fine_pure _ _ (hf r))
  cases op with
  | set k v ttl c => exact one _ _ rfl (by intro r; first | exact proper_intOrNone r | simp [Proper])
  | setMany kvs ttl => exact fine_bind _ _ _ (pipe_fine cfg _ w) (fun _ w' _ => fine_pure _ _ (by first | exact proper_intOrNone _ | simp [Proper]))
  | get k =>
    refine fine_bind _ _ _ (call_fine' cfg _ rfl w) (fun r w' hr => ?_)
    rcases hr with h | ⟨s, h1, h2⟩
    · subst h; exact fine_pure _ _ (by first | exact proper_intOrNone _ | simp [Proper])
    · rcases get_shape s k with hn | ⟨b, hb⟩ | he
      · rw [h1, hn]; exact fine_pure _ _ (by first | exact proper_intOrNone _ | simp [Proper])
      · rw [h1, hb]; exact fine_pure _ _ (by first | exact proper_intOrNone _ | simp [Proper])
      · exact absurd (h1 ▸ he) h2
  | getMany ks => exact fine_bind _ _ _ (getMany_fine cfg ks w) (fun _ w' _ => fine_pure _ _ (by first | exact proper_intOrNone _ | simp [Proper]))
  | exists_ k => exact one _ _ rfl (by intro r; first | exact proper_intOrNone r | simp [Proper])
  | incr k by_ ttl =>
    simp only [stepM]
    cases pxOf ttl with
    | none => exact one _ _ rfl (by intro r; first | exact proper_intOrNone r | simp [Proper])
    | some ms =>
      exact fine_bind _ _ _ (ensureScript_fine cfg _ w) (fun sha w' _ =>
        fine_bind _ _ _ (call_fine' cfg _ rfl w') (fun r w'' _ => fine_pure _ _ (by first | exact proper_intOrNone _ | simp [Proper])))
  | delete k => exact one _ _ rfl (by intro r; first | exact proper_intOrNone r | simp [Proper])
  | deleteMany ks => exact one _ _ rfl (by intro r; first | exact proper_intOrNone r | simp [Proper])
  | expire k ms => exact one _ _ rfl (by intro r; first | exact proper_intOrNone r | simp [Proper])
  | getExpire k => exact one _ _ rfl (by intro r; first | exact proper_intOrNone r | simp [Proper])
  | clear => exact one _ _ rfl (by intro r; first | exact proper_intOrNone r | simp [Proper])
  | keysCount => exact one _ _ rfl (by intro r; first | exact proper_intOrNone r | simp [Proper])
  | scan pat count =>
    simp only [stepM]
    exact fine_bind (P := T) _ _ _ (Or.inl ⟨_, rfl, trivial⟩) (fun n w' _ =>
      fine_bind _ _ _ (scanLoop_fine cfg pat count _ _ _ w') (fun _ w'' _ => fine_pure _ _ (by first | exact proper_intOrNone _ | simp [Proper])))
  | getMatch pat count =>
    simp only [stepM]
    exact fine_bind (P := T) _ _ _ (Or.inl ⟨_, rfl, trivial⟩) (fun n w' _ =>
      fine_bind _ _ _ (getMatchLoop_fine cfg pat count _ _ _ w') (fun _ w'' _ => fine_pure _ _ (by first | exact proper_intOrNone _ | simp [Proper])))
  | deleteMatch pat =>
    simp only [stepM]
    by_cases hs : pat.toList.contains '*' = true
    · simp only [hs, if_true]
      exact fine_bind (P := T) _ _ _ (Or.inl ⟨_, rfl, trivial⟩) (fun n w' _ =>
        fine_bind _ _ _ (delMatchLoop_fine cfg pat _ _ w') (fun _ w'' _ => fine_pure _ _ (by first | exact proper_intOrNone _ | simp [Proper])))
    · simp only [hs]
      exact one _ _ rfl (by intro r; first | exact proper_intOrNone r | simp [Proper])
  | setLock k tok ms => exact one _ _ rfl (by intro r; first | exact proper_intOrNone r | simp [Proper])
  | unlock k tok =>
    exact fine_bind _ _ _ (ensureScript_fine cfg _ w) (fun sha w' _ =>
      fine_bind _ _ _ (call_fine' cfg _ rfl w') (fun r w'' _ => fine_pure _ _ (by first | exact proper_intOrNone _ | simp [Proper])))
  | isLocked k => exact one _ _ rfl (by intro r; first | exact proper_intOrNone r | simp [Proper])
  | setAdd k ms ttl =>
    cases ttl with
    | none => exact one _ _ rfl (by intro r; first | exact proper_intOrNone r | simp [Proper])
    | some t' => exact fine_bind _ _ _ (pipe_fine cfg _ w) (fun _ w' _ => fine_pure _ _ (by first | exact proper_intOrNone _ | simp [Proper]))
  | setRemove k ms => exact one _ _ rfl (by intro r; first | exact proper_intOrNone r | simp [Proper])
  | setPop k n =>
    refine fine_bind _ _ _ (call_fine' cfg _ rfl w) (fun r w' hr => ?_)
    rcases hr with h | ⟨s, h1, h2⟩
    · subst h; exact fine_pure _ _ (by first | exact proper_intOrNone _ | simp [Proper])
    · rcases spop_shape' s k n with ⟨l, hl⟩ | he
      · rw [h1, hl]; exact fine_pure _ _ (by first | exact proper_intOrNone _ | simp [Proper])
      · exact absurd (h1 ▸ he) h2
  | getBits k idx size =>
    refine fine_bind _ _ _ (call_fine' cfg _ rfl w) (fun r w' hr => ?_)
    rcases hr with h | ⟨s, h1, h2⟩
    · subst h; exact fine_pure _ _ (by first | exact proper_intOrNone _ | simp [Proper])
    · rcases bitfield_shape' s k _ with ⟨l, hl⟩ | he
      · rw [h1, hl]; exact fine_pure _ _ (by first | exact proper_intOrNone _ | simp [Proper])
      · exact absurd (h1 ▸ he) h2
  | incrBits k idx size by_ =>
    refine fine_bind _ _ _ (call_fine' cfg _ rfl w) (fun r w' hr => ?_)
    rcases hr with h | ⟨s, h1, h2⟩
    · subst h; exact fine_pure _ _ (by first | exact proper_intOrNone _ | simp [Proper])
    · rcases bitfield_shape' s k _ with ⟨l, hl⟩ | he
      · rw [h1, hl]; exact fine_pure _ _ (by first | exact proper_intOrNone _ | simp [Proper])
      · exact absurd (h1 ▸ he) h2
  | sliceIncr k a b m ttl =>
    exact fine_bind _ _ _ (ensureScript_fine cfg _ w) (fun sha w' _ =>
      fine_bind _ _ _ (call_fine' cfg _ rfl w') (fun r w'' _ => fine_pure _ _ (by first | exact proper_intOrNone _ | simp [Proper])))
  | ping => exact fine_bind _ _ _ (call_fine cfg .ping w) (fun r w' _ => fine_pure _ _ (by first | exact proper_intOrNone _ | simp [Proper]))
  | adv dt => exact Or.inl ⟨_, rfl, by simp [Proper]⟩


/-- while the server is unreachable every command answers its failure value (reads: the default; writes: failure)
and leaves the server alone -/
theorem step_all_down (cfg : Cfg) (hs : cfg.suppress = true) (w : World)
    (hd : ∀ n, w.calls ≤ n → cfg.down n = true) (op : ROp) :
    (step cfg w op).2 = Ref.failureValue op ∧ ((∀ dt, op ≠ .adv dt) → (step cfg w op).1.srv = w.srv) := by
  have hd0 : cfg.down w.calls = true := hd _ (Nat.le_refl _)
  have hd1 : cfg.down (w.calls + 1) = true := hd _ (by omega)
  cases op with
  | adv dt => exact ⟨rfl, fun h => absurd rfl (h dt)⟩
  | incr k by_ ttl =>
    cases hp : pxOf ttl <;>
      simp [step, stepM, hp, M.bind, M.pure, call, clientCall, ensureScript, hd0, hd1, failed, hs, isPing, fallback, outOf,
        intOrNone, Ref.failureValue] <;>
      (by_cases hm : Script.incrExpire ∈ w.cached <;> simp [hm, hd0, hd1, failed, hs, isPing, fallback, intOrNone])
  | unlock k tok =>
    by_cases hm : Script.unlock ∈ w.cached <;>
      simp [step, stepM, M.bind, M.pure, call, clientCall, ensureScript, hm, hd0, hd1, failed, hs, isPing, fallback, outOf,
        intOrNone, Ref.failureValue]
  | sliceIncr k a b m ttl =>
    by_cases hm : Script.incrSlice ∈ w.cached <;>
      simp [step, stepM, M.bind, M.pure, call, clientCall, ensureScript, hm, hd0, hd1, failed, hs, isPing, fallback, outOf,
        intOrNone, Ref.failureValue]
  | getMany ks =>
    cases ks <;>
      simp [step, stepM, getMany, M.bind, M.pure, call, clientCall, hd0, failed, hs, isPing, fallback, outOf, Ref.failureValue]
  | setMany kvs ttl =>
    cases kvs <;>
      simp [step, stepM, M.bind, M.pure, pipe, pipeCall, hd0, hs, outOf, Ref.failureValue]
  | setAdd k ms ttl =>
    cases ttl <;>
      simp [step, stepM, M.bind, M.pure, pipe, pipeCall, call, clientCall, hd0, failed, hs, isPing, fallback, outOf, Ref.failureValue]
  | deleteMatch pat =>
    by_cases hstar : '*' ∈ pat.toList <;>
      simp [step, stepM, hstar, M.bind, M.pure, domLen, delMatchLoop, call, clientCall, hd0, failed, hs, isPing, fallback, outOf,
        Ref.failureValue]
  | _ =>
    simp [step, stepM, M.bind, M.pure, domLen, scanLoop, getMatchLoop, call, clientCall, hd0, failed, hs, isPing, fallback,
      outOf, truthy, intOrNone, Ref.failureValue]


/-- commands that talk to the server at all -/
def makesCall : ROp → Bool
  | .adv _ => false
  | .getMany [] => false
  | .setMany [] _ => false
  | _ => true

/-- suppression off: a command whose first client call fails raises the documented error -/
theorem step_unsuppressed_down (cfg : Cfg) (hs : cfg.suppress = false) (w : World)
    (hd0 : cfg.down w.calls = true) (op : ROp) (hop : makesCall op = true) :
    (step cfg w op).2 = .raise := by
  cases op with
  | adv dt => simp [makesCall] at hop
  | incr k by_ ttl =>
    cases hp : pxOf ttl <;>
      simp [step, stepM, hp, M.bind, M.pure, call, clientCall, ensureScript, hd0, failed, hs, isPing, fallback, outOf] <;>
      (by_cases hm : Script.incrExpire ∈ w.cached <;> simp [hm, hd0, failed, hs, isPing, fallback])
  | unlock k tok =>
    by_cases hm : Script.unlock ∈ w.cached <;>
      simp [step, stepM, M.bind, M.pure, call, clientCall, ensureScript, hm, hd0, failed, hs, isPing, fallback, outOf]
  | sliceIncr k a b m ttl =>
    by_cases hm : Script.incrSlice ∈ w.cached <;>
      simp [step, stepM, M.bind, M.pure, call, clientCall, ensureScript, hm, hd0, failed, hs, isPing, fallback, outOf]
  | getMany ks =>
    cases ks with
    | nil => simp [makesCall] at hop
    | cons k ks => simp [step, stepM, getMany, M.bind, M.pure, call, clientCall, hd0, failed, hs, isPing, fallback, outOf]
  | setMany kvs ttl =>
    cases kvs with
    | nil => simp [makesCall] at hop
    | cons kv kvs => simp [step, stepM, M.bind, M.pure, pipe, pipeCall, hd0, hs, outOf]
  | setAdd k ms ttl =>
    cases ttl <;>
      simp [step, stepM, M.bind, M.pure, pipe, pipeCall, call, clientCall, hd0, failed, hs, isPing, fallback, outOf]
  | deleteMatch pat =>
    by_cases hstar : '*' ∈ pat.toList <;>
      simp [step, stepM, hstar, M.bind, M.pure, domLen, delMatchLoop, call, clientCall, hd0, failed, hs, isPing, fallback, outOf]
  | _ =>
    simp [step, stepM, M.bind, M.pure, domLen, scanLoop, getMatchLoop, call, clientCall, hd0, failed, hs, isPing, fallback, outOf]



end CashewsVerif.Redis
