import CashewsVerif.Lemmas.TagsCov
/-
Lemmas about the tag model, part 4: explicit deletion of key lists and the batch loop of
`_delete_tag` (`set_pop(count=100)` / `delete_many` until a short batch comes back).
-/
namespace CashewsVerif.Tags
open St

/-! ### one explicit deletion -/

@[simp] theorem delKey_now (cfg : Cfg) (s : St) (k : Nat) : (s.delKey cfg k).now = s.now := by simp [delKey, noteDelete]
@[simp] theorem delKey_last (cfg : Cfg) (s : St) (k : Nat) : (s.delKey cfg k).last = s.last := by simp [delKey, noteDelete]
theorem delKey_ts (cfg : Cfg) (s : St) (k : Nat) : (s.delKey cfg k).ts = (s.rawDelete cfg k).1.ts := rfl
theorem delKey_kv (cfg : Cfg) (s : St) (k k' : Nat) : (s.delKey cfg k).kv k' = if k' = k then none else s.kv k' := by
  simp only [delKey, noteDelete]; exact rawDelete_kv cfg s k k'
theorem delKey_since (cfg : Cfg) (s : St) (k k' : Nat) : (s.delKey cfg k).since k' = if k' = k then [] else s.since k' := by
  simp [delKey, noteDelete, upd]

theorem lm_delKey (cfg : Cfg) (s : St) (k t : Nat) : lm (s.delKey cfg k) t = lm (s.rawDelete cfg k).1 t :=
  lm_other (by simp) rfl

theorem cov_delKey {s : St} {k' t' : Nat} (cfg : Cfg) (k : Nat) (h : Cov s k' t') : Cov (s.delKey cfg k) k' t' :=
  cov_congr (s := (s.rawDelete cfg k).1) (by simp) rfl rfl (cov_rawDelete cfg k h)

/-! ### deleting a list of keys (`delete_many`) -/

theorem foldl_delKey_frame (cfg : Cfg) (ks : List Nat) (s : St) :
    (ks.foldl (delKey cfg) s).now = s.now ∧ (ks.foldl (delKey cfg) s).last = s.last := by
  induction ks generalizing s with
  | nil => simp
  | cons k r ih => have := ih (s.delKey cfg k); simpa using this

theorem foldl_delKey_kv (cfg : Cfg) (ks : List Nat) (s : St) (k' : Nat) :
    (ks.foldl (delKey cfg) s).kv k' = if k' ∈ ks then none else s.kv k' := by
  induction ks generalizing s with
  | nil => simp
  | cons k r ih =>
    simp only [List.foldl_cons, ih, delKey_kv]
    by_cases h1 : k' = k <;> by_cases h2 : k' ∈ r <;> simp [h1, h2]

theorem foldl_delKey_since (cfg : Cfg) (ks : List Nat) (s : St) (k' : Nat) :
    (ks.foldl (delKey cfg) s).since k' = if k' ∈ ks then [] else s.since k' := by
  induction ks generalizing s with
  | nil => simp
  | cons k r ih =>
    simp only [List.foldl_cons, ih, delKey_since]
    by_cases h1 : k' = k <;> by_cases h2 : k' ∈ r <;> simp [h1, h2]

theorem mem_lm_foldl_delKey {cfg : Cfg} {ks : List Nat} {s : St} {t x : Nat}
    (h : x ∈ lm (ks.foldl (delKey cfg) s) t) : x ∈ lm s t := by
  induction ks generalizing s with
  | nil => exact h
  | cons k r ih =>
    have := ih (s := s.delKey cfg k) h
    rw [lm_delKey] at this
    exact mem_lm_rawDelete this

theorem mem_lm_foldl_delKey_of_notMem {cfg : Cfg} {ks : List Nat} {s : St} {t x : Nat}
    (h : x ∈ lm s t) (hx : x ∉ ks) : x ∈ lm (ks.foldl (delKey cfg) s) t := by
  induction ks generalizing s with
  | nil => exact h
  | cons k r ih =>
    simp only [List.mem_cons, not_or] at hx
    apply ih (s := s.delKey cfg k) _ hx.2
    rw [lm_delKey]
    exact mem_lm_rawDelete_of_ne h hx.1

theorem length_lm_foldl_delKey (cfg : Cfg) (ks : List Nat) (s : St) (t : Nat) :
    (lm (ks.foldl (delKey cfg) s) t).length ≤ (lm s t).length := by
  induction ks generalizing s with
  | nil => exact Nat.le_refl _
  | cons k r ih =>
    refine Nat.le_trans (ih (s := s.delKey cfg k)) ?_
    rw [lm_delKey]
    exact length_lm_rawDelete cfg s k t

theorem cov_foldl_delKey {s : St} {k' t' : Nat} (cfg : Cfg) (ks : List Nat) (h : Cov s k' t') :
    Cov (ks.foldl (delKey cfg) s) k' t' := by
  induction ks generalizing s with
  | nil => exact h
  | cons k r ih => exact ih (cov_delKey cfg k h)

/-- a property kept by every explicit deletion is kept by `delete_many` -/
theorem foldl_delKey_preserves {P : St → Prop} (cfg : Cfg) (hdel : ∀ s k, P s → P (s.delKey cfg k))
    (ks : List Nat) (s : St) (h : P s) : P (ks.foldl (delKey cfg) s) := by
  induction ks generalizing s with
  | nil => exact h
  | cons k r ih => exact ih _ (hdel s k h)

/-! ### one round of `_delete_tag`: pop a batch, delete it -/

/-- the state after one round -/
def round (cfg : Cfg) (s : St) (t : Nat) : St := ((lm s t).take cfg.batch).foldl (delKey cfg) (s.setPop t cfg.batch).1

theorem deleteTagLoop_succ (cfg : Cfg) (fuel : Nat) (s : St) (t : Nat) :
    deleteTagLoop cfg (fuel + 1) s t =
      if ((lm s t).take cfg.batch).isEmpty then (s.setPop t cfg.batch).1
      else if ((lm s t).take cfg.batch).length ≠ cfg.batch then round cfg s t
      else deleteTagLoop cfg fuel (round cfg s t) t := rfl

theorem cov_round {s : St} {k' t' : Nat} (cfg : Cfg) (t : Nat) (h : Cov s k' t') : Cov (round cfg s t) k' t' := by
  unfold round
  by_cases hk : k' ∈ (lm s t).take cfg.batch
  · exact cov_of_kv_none (by rw [foldl_delKey_kv]; simp [hk])
  · exact cov_foldl_delKey cfg _ (cov_setPop t cfg.batch (Or.inl hk) h)

theorem cov_popEmpty {s : St} {k' t' : Nat} (t c : Nat) (he : ((lm s t).take c).isEmpty = true) (h : Cov s k' t') :
    Cov (s.setPop t c).1 k' t' := by
  apply cov_setPop t c _ h
  left
  have : (lm s t).take c = [] := by simpa using he
  simp [this]

theorem round_frame (cfg : Cfg) (s : St) (t : Nat) : (round cfg s t).now = s.now ∧ (round cfg s t).last = s.last := by
  have := foldl_delKey_frame cfg ((lm s t).take cfg.batch) (s.setPop t cfg.batch).1
  simpa [round] using this

theorem round_kv (cfg : Cfg) (s : St) (t k' : Nat) :
    (round cfg s t).kv k' = if k' ∈ (lm s t).take cfg.batch then none else s.kv k' := by
  simp [round, foldl_delKey_kv]

theorem round_since (cfg : Cfg) (s : St) (t k' : Nat) :
    (round cfg s t).since k' = if k' ∈ (lm s t).take cfg.batch then [] else s.since k' := by
  simp [round, foldl_delKey_since]

theorem mem_lm_round {cfg : Cfg} {s : St} {t t' x : Nat} (h : x ∈ lm (round cfg s t) t') :
    x ∈ lm s t' ∧ (t' = t → x ∈ (lm s t).drop cfg.batch) := by
  have h1 := mem_lm_foldl_delKey h
  rw [lm_setPop] at h1
  constructor
  · split at h1
    · rename_i ht; subst ht; exact List.mem_of_mem_drop h1
    · exact h1
  · intro ht; subst ht; simpa using h1

theorem mem_lm_round_of {cfg : Cfg} {s : St} {t x : Nat} (h : x ∈ (lm s t).drop cfg.batch)
    (hx : x ∉ (lm s t).take cfg.batch) : x ∈ lm (round cfg s t) t := by
  apply mem_lm_foldl_delKey_of_notMem _ hx
  rw [lm_setPop]; simpa using h

theorem length_lm_round (cfg : Cfg) (s : St) (t : Nat) : (lm (round cfg s t) t).length ≤ (lm s t).length - cfg.batch := by
  refine Nat.le_trans (length_lm_foldl_delKey cfg _ _ t) ?_
  rw [lm_setPop]; simp

/-! ### the whole loop -/

theorem loop_frame (cfg : Cfg) (t : Nat) : ∀ fuel s,
    (deleteTagLoop cfg fuel s t).now = s.now ∧ (deleteTagLoop cfg fuel s t).last = s.last := by
  intro fuel
  induction fuel with
  | zero => intro s; simp [deleteTagLoop]
  | succ n ih =>
    intro s
    rw [deleteTagLoop_succ]
    split
    · simp
    · split
      · exact round_frame cfg s t
      · have h1 := ih (round cfg s t)
        have h2 := round_frame cfg s t
        exact ⟨h1.1.trans h2.1, h1.2.trans h2.2⟩

theorem cov_loop {k' t' : Nat} (cfg : Cfg) (t : Nat) : ∀ fuel s, Cov s k' t' → Cov (deleteTagLoop cfg fuel s t) k' t' := by
  intro fuel
  induction fuel with
  | zero => intro s h; exact h
  | succ n ih =>
    intro s h
    rw [deleteTagLoop_succ]
    split
    · rename_i he; exact cov_popEmpty t cfg.batch he h
    · split
      · exact cov_round cfg t h
      · exact ih _ (cov_round cfg t h)

/-- the loop only ever removes data keys -/
theorem loop_kv_cases (cfg : Cfg) (t k : Nat) : ∀ fuel s,
    (deleteTagLoop cfg fuel s t).kv k = s.kv k ∨ (deleteTagLoop cfg fuel s t).kv k = none := by
  intro fuel
  induction fuel with
  | zero => intro s; left; rfl
  | succ n ih =>
    intro s
    rw [deleteTagLoop_succ]
    have hr : (round cfg s t).kv k = s.kv k ∨ (round cfg s t).kv k = none := by
      rw [round_kv]; split <;> simp
    split
    · left; rfl
    · split
      · exact hr
      · rcases ih (round cfg s t) with h | h
        · rw [h]; exact hr
        · right; exact h

/-- a key that is not a member of the tag set is not touched (entry and ghost `since`) -/
theorem loop_other (cfg : Cfg) (t k : Nat) : ∀ fuel s, k ∉ lm s t →
    (deleteTagLoop cfg fuel s t).kv k = s.kv k ∧ (deleteTagLoop cfg fuel s t).since k = s.since k := by
  intro fuel
  induction fuel with
  | zero => intro s _; exact ⟨rfl, rfl⟩
  | succ n ih =>
    intro s hk
    have hk' : k ∉ (lm s t).take cfg.batch := fun h => hk (List.mem_of_mem_take h)
    have hr : (round cfg s t).kv k = s.kv k ∧ (round cfg s t).since k = s.since k := by
      rw [round_kv, round_since]; simp [hk']
    rw [deleteTagLoop_succ]
    split
    · exact ⟨rfl, rfl⟩
    · split
      · exact hr
      · have hk2 : k ∉ lm (round cfg s t) t := fun h => hk (mem_lm_round h).1
        have := ih (round cfg s t) hk2
        exact ⟨this.1.trans hr.1, this.2.trans hr.2⟩

/-- **all members go**: with enough fuel and a positive batch size the loop deletes every member -/
theorem loop_complete (cfg : Cfg) (hb : 0 < cfg.batch) (t k : Nat) : ∀ fuel s, (lm s t).length < fuel →
    k ∈ lm s t → (deleteTagLoop cfg fuel s t).kv k = none := by
  intro fuel
  induction fuel with
  | zero => intro s h; omega
  | succ n ih =>
    intro s hf hk
    rw [deleteTagLoop_succ]
    split
    · rename_i he
      have : (lm s t).take cfg.batch = [] := by simpa using he
      rw [List.take_eq_nil_iff] at this
      rcases this with h | h
      · omega
      · rw [h] at hk; simp at hk
    · rename_i hne
      split
      · rename_i hlen
        -- a short batch: it was the whole set
        have hlt : (lm s t).length < cfg.batch := by
          rw [List.length_take] at hlen; omega
        have : (lm s t).take cfg.batch = lm s t := List.take_of_length_le (Nat.le_of_lt hlt)
        rw [round_kv, this]; simp [hk]
      · rename_i hlen
        have hlen : ((lm s t).take cfg.batch).length = cfg.batch := by simpa using hlen
        by_cases hp : k ∈ (lm s t).take cfg.batch
        · have h0 : (round cfg s t).kv k = none := by rw [round_kv]; simp [hp]
          rcases loop_kv_cases cfg t k n (round cfg s t) with h | h
          · rw [h]; exact h0
          · exact h
        · have hd : k ∈ (lm s t).drop cfg.batch := by
            have : k ∈ (lm s t).take cfg.batch ++ (lm s t).drop cfg.batch := by rw [List.take_append_drop]; exact hk
            rcases List.mem_append.mp this with h | h
            · exact absurd h hp
            · exact h
          apply ih (round cfg s t) _ (mem_lm_round_of hd hp)
          have := length_lm_round cfg s t
          rw [List.length_take] at hlen
          omega

/-- a property kept by `set_pop` and by explicit deletions is kept by the loop -/
theorem loop_preserves {P : St → Prop} (cfg : Cfg) (hpop : ∀ s t c, P s → P (s.setPop t c).1)
    (hdel : ∀ s k, P s → P (s.delKey cfg k)) (t : Nat) : ∀ fuel s, P s → P (deleteTagLoop cfg fuel s t) := by
  intro fuel
  induction fuel with
  | zero => intro s h; exact h
  | succ n ih =>
    intro s h
    have hr : P (round cfg s t) := foldl_delKey_preserves cfg hdel _ _ (hpop s t cfg.batch h)
    rw [deleteTagLoop_succ]
    split
    · exact hpop s t cfg.batch h
    · split
      · exact hr
      · exact ih _ hr

end CashewsVerif.Tags
