import CashewsVerif.Lemmas.TxFault
/-
C16: what the body of a transaction block and a rollback can NOT do — touch the data of a real backend —
and the bookkeeping of the command counter: a computation that returns normally met no failing command.
-/
namespace CashewsVerif.TxFault

/-! ### `RBody`: the counter only grows, the backends' data is untouched, and no command that could touch it is even SENT
(every newly logged command is a read, a `set_lock` or an `unlock`) -/

def RBody (w w' : FWorld) : Prop :=
  w.counter ≤ w'.counter ∧ w'.data = w.data ∧ ∀ ev, ev ∈ w'.log → ev ∈ w.log ∨ ev.cmd.noData

theorem RBody.pre : Pre RBody :=
  ⟨fun _ => ⟨Nat.le_refl _, rfl, fun _ h => Or.inl h⟩,
   fun h1 h2 => ⟨Nat.le_trans h1.1 h2.1, h2.2.1.trans h1.2.1, fun ev h =>
     match h2.2.2 ev h with
     | Or.inl h' => h1.2.2 ev h'
     | Or.inr h' => Or.inr h'⟩⟩

/-- a step that touches neither counter, data nor log -/
theorem RBody.same {w w' : FWorld} (hc : w'.counter = w.counter) (hd : w'.data = w.data) (hl : w'.log = w.log) :
    RBody w w' := ⟨by rw [hc]; exact Nat.le_refl _, hd, fun _ h => Or.inl (hl ▸ h)⟩

theorem backendCmd_RBody (cfg : Cfg) (b : Nat) (c : BCmd) (hc : c.noData) : Rel RBody (backendCmd cfg b c) := by
  intro w
  cases hf : cfg.fails w.counter
  · rw [backendCmd_ok cfg b c w hf]
    refine ⟨by simp [applyCmd_counter, logged], by simp [applyCmd_data _ _ _ hc, logged], fun ev h => ?_⟩
    simp only [applyCmd_log, logged, List.mem_append, List.mem_singleton] at h
    rcases h with h | rfl
    · exact Or.inl h
    · exact Or.inr hc
  · rw [backendCmd_fail cfg b c w hf]
    refine ⟨by simp [logged], rfl, fun ev h => ?_⟩
    simp only [logged, List.mem_append, List.mem_singleton] at h
    rcases h with h | rfl
    · exact Or.inl h
    · exact Or.inr hc

theorem modB_RBody (b : Nat) (f : TxB → TxB) : Rel RBody (modB b f) :=
  Rel.modW _ fun _ => RBody.same rfl rfl rfl

/-- structural steps of a relational proof; the leaves are left to the caller -/
macro "rel_steps" h:term : tactic => `(tactic| repeat' (first
  | exact Rel.pure $h _ | exact Rel.throw $h _ | exact Rel.getW $h
  | refine Rel.bind $h ?_ (fun _ => ?_) | split))

theorem lockLoop_RBody (cfg : Cfg) (b lk : Nat) (n : Nat) : Rel RBody (lockLoop cfg b lk n) := by
  induction n with
  | zero => exact Rel.throw RBody.pre _
  | succ n ih =>
    unfold lockLoop
    simp only [bind_eq]
    rel_steps RBody.pre
    all_goals first
      | exact backendCmd_RBody _ _ _ trivial
      | exact modB_RBody _ _
      | exact Rel.modW _ fun _ => RBody.same rfl rfl rfl
      | exact ih

theorem lockUpdates_RBody (cfg : Cfg) (b k : Nat) : Rel RBody (lockUpdates cfg b k) := by
  unfold lockUpdates
  simp only [bind_eq, pure_eq]
  rel_steps RBody.pre
  exact lockLoop_RBody _ _ _ _


theorem incrSeed_RBody (cfg : Cfg) (b k : Nat) : Rel RBody (incrSeed cfg b k) := by
  unfold incrSeed
  simp only [bind_eq, pure_eq]
  rel_steps RBody.pre
  exact backendCmd_RBody _ _ _ trivial

theorem txSet_RBody (cfg : Cfg) (b k : Nat) (v : Int) (ttl : Option Nat) : Rel RBody (txSet cfg b k v ttl) := by
  unfold txSet wrap
  simp only [bind_eq, pure_eq]
  rel_steps RBody.pre
  exact lockUpdates_RBody _ _ _

theorem txIncr_RBody (cfg : Cfg) (b k : Nat) (ttl : Option Nat) : Rel RBody (txIncr cfg b k ttl) := by
  unfold txIncr wrap
  simp only [bind_eq, pure_eq]
  rel_steps RBody.pre
  all_goals first | exact lockUpdates_RBody _ _ _ | exact incrSeed_RBody _ _ _ | exact backendCmd_RBody _ _ _ trivial

theorem txGet_RBody (cfg : Cfg) (b k : Nat) : Rel RBody (txGet cfg b k) := by
  unfold txGet wrap
  simp only [bind_eq, pure_eq]
  rel_steps RBody.pre
  exact backendCmd_RBody _ _ _ trivial

theorem txDelete_RBody (cfg : Cfg) (b k : Nat) : Rel RBody (txDelete cfg b k) := by
  unfold txDelete wrap
  simp only [bind_eq, pure_eq]
  rel_steps RBody.pre
  exact lockUpdates_RBody _ _ _

theorem lockAll_RBody (cfg : Cfg) (b : Nat) (ks : List Nat) : Rel RBody (lockAll cfg b ks) := by
  induction ks with
  | nil => exact Rel.pure RBody.pre _
  | cons k rest ih =>
    unfold lockAll
    simp only [bind_eq]
    exact Rel.bind RBody.pre (lockUpdates_RBody _ _ _) fun _ => ih

theorem txSetMany_RBody (cfg : Cfg) (b : Nat) (kvs : List (Nat × Int)) (ttl : Option Nat) :
    Rel RBody (txSetMany cfg b kvs ttl) := by
  unfold txSetMany wrap
  simp only [bind_eq, pure_eq]
  rel_steps RBody.pre
  all_goals first | exact lockAll_RBody _ _ _ | exact modB_RBody _ _

theorem txDelMany_RBody (cfg : Cfg) (b : Nat) (ks : List Nat) : Rel RBody (txDelMany cfg b ks) := by
  unfold txDelMany wrap
  simp only [bind_eq, pure_eq]
  rel_steps RBody.pre
  all_goals first | exact lockAll_RBody _ _ _ | exact modB_RBody _ _

theorem txExists_RBody (cfg : Cfg) (b k : Nat) : Rel RBody (txExists cfg b k) := by
  unfold txExists
  simp only [bind_eq, pure_eq]
  rel_steps RBody.pre
  all_goals first | exact modB_RBody _ _ | exact backendCmd_RBody _ _ _ trivial

theorem txSetIf_RBody (cfg : Cfg) (b k : Nat) (v : Int) (ttl : Option Nat) (ex : Bool) :
    Rel RBody (txSetIf cfg b k v ttl ex) := by
  unfold txSetIf wrap
  simp only [bind_eq, pure_eq]
  rel_steps RBody.pre
  all_goals first | exact modB_RBody _ _ | exact lockUpdates_RBody _ _ _ | exact backendCmd_RBody _ _ _ trivial

/-- `expire` inside a transaction sends only a READ to the backend: the store keeps value and deadline until commit -/
theorem txExpire_RBody (cfg : Cfg) (b k ttl : Nat) : Rel RBody (txExpire cfg b k ttl) := by
  unfold txExpire wrap
  simp only [bind_eq, pure_eq]
  rel_steps RBody.pre
  all_goals first | exact modB_RBody _ _ | exact lockUpdates_RBody _ _ _ | exact backendCmd_RBody _ _ _ trivial

theorem emit_RBody (r : Reply) : Rel RBody (emit r) := Rel.modW _ fun _ => RBody.same rfl rfl rfl

/-! (the body as a whole: `bodyStep_RIn` / `runBody_RIn` below — a nested block needs the context variable) -/

/-! the rollback path issues `unlock`s only -/

theorem gatherUnlock_RBody (cfg : Cfg) (b : Nat) (ls : List Nat) : Rel RBody (gatherUnlock cfg b ls) := by
  induction ls with
  | nil => exact Rel.pure RBody.pre _
  | cons lk rest ih =>
    intro w
    rw [gatherUnlock_snd]
    exact RBody.pre.trans (backendCmd_RBody cfg b (.unlock lk) trivial w) (ih _)

theorem rollbackOne_RBody (cfg : Cfg) (t : TxB) : Rel RBody (rollbackOne cfg t) :=
  Rel.tryFinally RBody.pre (Rel.pure RBody.pre _) (fun w => gatherUnlock_RBody _ _ _ w)

theorem rollbackList_RBody (cfg : Cfg) (ts : List TxB) (w : FWorld) : RBody w (rollbackList cfg ts w).2 := by
  induction ts generalizing w with
  | nil => exact RBody.pre.refl w
  | cons t rest ih =>
    rcases rollbackList_snd cfg t rest w with h | ⟨h, _⟩ <;> rw [h]
    · exact RBody.pre.trans (rollbackOne_RBody cfg t w) (ih _)
    · exact rollbackOne_RBody cfg t w

theorem txRollback_RBody (cfg : Cfg) (ts : List TxB) : Rel RBody (txRollback cfg ts) := by
  intro w
  rw [txRollback_snd]
  exact rollbackList_RBody cfg ts w

theorem closeOn_RBody (o : Option Nat) : Rel RBody (closeOn o) := by
  refine Rel.modW _ fun w => ?_
  cases o <;> exact RBody.same rfl rfl rfl

/-- leaving the block after a failed body: rollback, then `close()` -/
theorem aexitOn_exc_RBody (cfg : Cfg) (o : Option Nat) : Rel RBody (aexitOn cfg o true) := by
  intro w
  unfold aexitOn
  split
  · exact RBody.pre.refl w
  · exact Rel.tryFinally RBody.pre (txRollback_RBody _ _) (closeOn_RBody o) w

/-! ### `Clean`: a computation that returned normally met no failing command -/

def Res.isOk {α} : Res α → Bool
  | .ok _ => true
  | .err _ => false

def Clean (cfg : Cfg) {α} (m : M α) : Prop :=
  ∀ w, w.counter ≤ (m w).2.counter ∧
    ((m w).1.isOk = true → ∀ i, w.counter ≤ i → i < (m w).2.counter → cfg.fails i = false)

namespace Clean
variable {cfg : Cfg} {α β : Type}

theorem pure (a : α) : Clean cfg (M.pure a) := fun w => ⟨Nat.le_refl _, fun _ i h1 h2 => by
  simp only [M.pure] at h2; omega⟩

theorem throw (e : Err) : Clean cfg (throw e : M α) := fun w => ⟨Nat.le_refl _, fun h => by
  simp [TxFault.throw, Res.isOk] at h⟩

theorem getW : Clean cfg getW := fun w => ⟨Nat.le_refl _, fun _ i h1 h2 => by
  simp only [TxFault.getW] at h2; omega⟩

theorem modW (f : FWorld → FWorld) (hf : ∀ w, (f w).counter = w.counter) : Clean cfg (modW f) := fun w =>
  ⟨by simp [TxFault.modW, hf], fun _ i h1 h2 => by simp only [TxFault.modW, hf] at h2; omega⟩

theorem bind {m : M α} {f : α → M β} (hm : Clean cfg m) (hf : ∀ a, Clean cfg (f a)) : Clean cfg (M.bind m f) := by
  intro w
  have h1 := hm w
  unfold M.bind
  cases hmw : m w with
  | mk r w1 =>
    rw [hmw] at h1
    cases r with
    | err e => exact ⟨h1.1, fun h => by simp [Res.isOk] at h⟩
    | ok a =>
      have h2 := hf a w1
      simp only at h1 h2 ⊢
      refine ⟨Nat.le_trans h1.1 h2.1, fun hok i hi1 hi2 => ?_⟩
      by_cases hlt : i < w1.counter
      · exact h1.2 rfl i hi1 hlt
      · exact h2.2 hok i (by omega) hi2

theorem backendCmd (b : Nat) (c : BCmd) : Clean cfg (backendCmd cfg b c) := by
  intro w
  cases hf : cfg.fails w.counter
  · rw [backendCmd_ok cfg b c w hf]
    refine ⟨by simp [applyCmd_counter, logged], fun _ i h1 h2 => ?_⟩
    simp only [applyCmd_counter, logged] at h2
    have : i = w.counter := by omega
    subst this; exact hf
  · rw [backendCmd_fail cfg b c w hf]
    exact ⟨by simp [logged], fun h => by simp [Res.isOk] at h⟩

end Clean

/-- structural steps of a `Clean` proof -/
macro "clean_steps" : tactic => `(tactic| repeat' (first
  | exact Clean.pure _ | exact Clean.throw _ | exact Clean.getW | exact Clean.backendCmd _ _
  | exact Clean.modW _ (fun _ => rfl)
  | refine Clean.bind ?_ (fun _ => ?_) | split))

theorem modB_Clean (cfg : Cfg) (b : Nat) (f : TxB → TxB) : Clean cfg (modB b f) := Clean.modW _ fun _ => rfl

theorem lockLoop_Clean (cfg : Cfg) (b lk : Nat) (n : Nat) : Clean cfg (lockLoop cfg b lk n) := by
  induction n with
  | zero => exact Clean.throw _
  | succ n ih =>
    unfold lockLoop
    simp only [bind_eq]
    clean_steps
    all_goals first | exact modB_Clean _ _ _ | exact ih

theorem lockUpdates_Clean (cfg : Cfg) (b k : Nat) : Clean cfg (lockUpdates cfg b k) := by
  unfold lockUpdates
  simp only [bind_eq, pure_eq]
  clean_steps
  exact lockLoop_Clean _ _ _ _

theorem incrSeed_Clean (cfg : Cfg) (b k : Nat) : Clean cfg (incrSeed cfg b k) := by
  unfold incrSeed
  simp only [bind_eq, pure_eq]
  clean_steps
  all_goals exact modB_Clean _ _ _

theorem txSet_Clean (cfg : Cfg) (b k : Nat) (v : Int) (ttl : Option Nat) : Clean cfg (txSet cfg b k v ttl) := by
  unfold txSet wrap
  simp only [bind_eq, pure_eq]
  clean_steps
  all_goals first | exact modB_Clean _ _ _ | exact lockUpdates_Clean _ _ _

theorem txIncr_Clean (cfg : Cfg) (b k : Nat) (ttl : Option Nat) : Clean cfg (txIncr cfg b k ttl) := by
  unfold txIncr wrap
  simp only [bind_eq, pure_eq]
  clean_steps
  all_goals first | exact modB_Clean _ _ _ | exact lockUpdates_Clean _ _ _ | exact incrSeed_Clean _ _ _

theorem txGet_Clean (cfg : Cfg) (b k : Nat) : Clean cfg (txGet cfg b k) := by
  unfold txGet wrap
  simp only [bind_eq, pure_eq]
  clean_steps
  all_goals exact modB_Clean _ _ _

theorem txDelete_Clean (cfg : Cfg) (b k : Nat) : Clean cfg (txDelete cfg b k) := by
  unfold txDelete wrap
  simp only [bind_eq, pure_eq]
  clean_steps
  all_goals first | exact modB_Clean _ _ _ | exact lockUpdates_Clean _ _ _

theorem lockAll_Clean (cfg : Cfg) (b : Nat) (ks : List Nat) : Clean cfg (lockAll cfg b ks) := by
  induction ks with
  | nil => exact Clean.pure _
  | cons k rest ih =>
    unfold lockAll
    simp only [bind_eq]
    exact Clean.bind (lockUpdates_Clean _ _ _) fun _ => ih

theorem txSetMany_Clean (cfg : Cfg) (b : Nat) (kvs : List (Nat × Int)) (ttl : Option Nat) :
    Clean cfg (txSetMany cfg b kvs ttl) := by
  unfold txSetMany wrap
  simp only [bind_eq, pure_eq]
  clean_steps
  all_goals first | exact modB_Clean _ _ _ | exact lockAll_Clean _ _ _

theorem txDelMany_Clean (cfg : Cfg) (b : Nat) (ks : List Nat) : Clean cfg (txDelMany cfg b ks) := by
  unfold txDelMany wrap
  simp only [bind_eq, pure_eq]
  clean_steps
  all_goals first | exact modB_Clean _ _ _ | exact lockAll_Clean _ _ _

theorem txExists_Clean (cfg : Cfg) (b k : Nat) : Clean cfg (txExists cfg b k) := by
  unfold txExists
  simp only [bind_eq, pure_eq]
  clean_steps
  all_goals exact modB_Clean _ _ _

theorem txSetIf_Clean (cfg : Cfg) (b k : Nat) (v : Int) (ttl : Option Nat) (ex : Bool) :
    Clean cfg (txSetIf cfg b k v ttl ex) := by
  unfold txSetIf wrap
  simp only [bind_eq, pure_eq]
  clean_steps
  all_goals first | exact modB_Clean _ _ _ | exact lockUpdates_Clean _ _ _ | exact txExists_Clean _ _ _

theorem txExpire_Clean (cfg : Cfg) (b k ttl : Nat) : Clean cfg (txExpire cfg b k ttl) := by
  unfold txExpire wrap
  simp only [bind_eq, pure_eq]
  clean_steps
  all_goals first | exact modB_Clean _ _ _ | exact lockUpdates_Clean _ _ _

theorem emit_Clean (cfg : Cfg) (r : Reply) : Clean cfg (emit r) := Clean.modW _ fun _ => rfl

/-! `Clean` on the way out: a commit / rollback that returned normally met no failing command either -/

theorem Clean.tryFinally {cfg : Cfg} {α} {m : M α} {fin : M Unit} (hm : Clean cfg m) (hf : Clean cfg fin) :
    Clean cfg (tryFinally m fin) := by
  intro w
  have h1 := hm w
  unfold TxFault.tryFinally
  generalize m w = p at h1
  obtain ⟨r, w1⟩ := p
  have h2 := hf w1
  simp only at h1 h2 ⊢
  generalize fin w1 = q at h2
  obtain ⟨r2, w2⟩ := q
  cases r2 with
  | err e => exact ⟨Nat.le_trans h1.1 h2.1, fun h => by simp [Res.isOk] at h⟩
  | ok u =>
    simp only at h2 ⊢
    refine ⟨Nat.le_trans h1.1 h2.1, fun hok i hi1 hi2 => ?_⟩
    by_cases hlt : i < w1.counter
    · exact h1.2 hok i hi1 hlt
    · exact h2.2 rfl i (by omega) hi2

theorem gatherUnlock_Clean (cfg : Cfg) (b : Nat) (ls : List Nat) : Clean cfg (gatherUnlock cfg b ls) := by
  induction ls with
  | nil => exact Clean.pure _
  | cons lk rest ih =>
    intro w
    simp only [gatherUnlock]
    have h1 := Clean.backendCmd (cfg := cfg) b (.unlock lk) w
    generalize backendCmd cfg b (.unlock lk) w = p at h1
    obtain ⟨r, w1⟩ := p
    have h2 := ih w1
    simp only at h1 h2 ⊢
    generalize gatherUnlock cfg b rest w1 = q at h2
    obtain ⟨r2, w2⟩ := q
    cases r with
    | err e => exact ⟨Nat.le_trans h1.1 h2.1, fun h => by simp [Res.isOk] at h⟩
    | ok a =>
      simp only at h2 ⊢
      refine ⟨Nat.le_trans h1.1 h2.1, fun hok i hi1 hi2 => ?_⟩
      by_cases hlt : i < w1.counter
      · exact h1.2 rfl i hi1 hlt
      · exact h2.2 hok i (by omega) hi2

theorem runCmds_Clean (cfg : Cfg) (b : Nat) (cs : List BCmd) : Clean cfg (runCmds cfg b cs) := by
  induction cs with
  | nil => exact Clean.pure _
  | cons c rest ih =>
    unfold runCmds
    simp only [bind_eq]
    exact Clean.bind (Clean.backendCmd _ _) fun _ => ih

theorem baseCommit_Clean (cfg : Cfg) (t : TxB) : Clean cfg (baseCommit cfg t) := by
  unfold baseCommit
  simp only [bind_eq]
  exact Clean.bind Clean.getW fun _ => runCmds_Clean _ _ _

theorem commitOne_Clean (cfg : Cfg) (t : TxB) : Clean cfg (commitOne cfg t) :=
  Clean.tryFinally (baseCommit_Clean cfg t) (fun w => gatherUnlock_Clean _ _ _ w)

theorem rollbackOne_Clean (cfg : Cfg) (t : TxB) : Clean cfg (rollbackOne cfg t) :=
  Clean.tryFinally (Clean.pure _) (fun w => gatherUnlock_Clean _ _ _ w)

/-- `_rollback` returns no error only if no command of it failed -/
theorem rollbackList_clean (cfg : Cfg) (ts : List TxB) (w : FWorld) :
    w.counter ≤ (rollbackList cfg ts w).2.counter ∧
    ((rollbackList cfg ts w).1 = .ok none → ∀ i, w.counter ≤ i → i < (rollbackList cfg ts w).2.counter → cfg.fails i = false) := by
  induction ts generalizing w with
  | nil => exact ⟨Nat.le_refl _, fun _ i h1 h2 => by simp only [rollbackList] at h2; omega⟩
  | cons t rest ih =>
    simp only [rollbackList]
    have h1 := rollbackOne_Clean cfg t w
    generalize rollbackOne cfg t w = p at h1
    obtain ⟨r, w1⟩ := p
    have h2 := ih w1
    simp only at h1 h2 ⊢
    cases r with
    | err e =>
      simp only
      cases e.isBase with
      | true =>
        simp only [if_true]
        cases cfg.rbAll with
        | true => exact ⟨Nat.le_trans h1.1 h2.1, fun h => by simp at h⟩
        | false => exact ⟨h1.1, fun h => by simp at h⟩
      | false =>
        simp only [Bool.false_eq_true, if_false]
        generalize rollbackList cfg rest w1 = q at h2
        obtain ⟨r2, w2⟩ := q
        cases r2 <;> exact ⟨Nat.le_trans h1.1 h2.1, fun h => by simp at h⟩
    | ok a =>
      simp only at h2 ⊢
      refine ⟨Nat.le_trans h1.1 h2.1, fun hnone i hi1 hi2 => ?_⟩
      by_cases hlt : i < w1.counter
      · exact h1.2 rfl i hi1 hlt
      · exact h2.2 hnone i (by omega) hi2

theorem txRollback_Clean (cfg : Cfg) (ts : List TxB) : Clean cfg (txRollback cfg ts) := by
  intro w
  unfold txRollback
  have h := rollbackList_clean cfg ts w
  generalize rollbackList cfg ts w = p at h
  obtain ⟨r, w1⟩ := p
  cases r with
  | err e => exact ⟨h.1, fun h' => by simp [Res.isOk] at h'⟩
  | ok e =>
    cases e with
    | some e => exact ⟨h.1, fun h' => by simp [Res.isOk] at h'⟩
    | none => exact ⟨h.1, fun _ => h.2 rfl⟩

theorem commitLoop_Clean (cfg : Cfg) (ts : List TxB) : Clean cfg (commitLoop cfg ts) := by
  induction ts with
  | nil => exact Clean.pure _
  | cons t rest ih =>
    intro w
    simp only [commitLoop]
    have h1 := commitOne_Clean cfg t w
    generalize commitOne cfg t w = p at h1
    obtain ⟨r, w1⟩ := p
    cases r with
    | err e =>
      simp only at h1 ⊢
      have h3 := (rollbackList_clean cfg rest w1).1
      generalize rollbackList cfg rest w1 = q at h3
      obtain ⟨r2, w2⟩ := q
      cases r2 <;> exact ⟨Nat.le_trans h1.1 h3, fun h => by simp [Res.isOk] at h⟩
    | ok a =>
      have h2 := ih w1
      simp only at h1 h2 ⊢
      refine ⟨Nat.le_trans h1.1 h2.1, fun hok i hi1 hi2 => ?_⟩
      by_cases hlt : i < w1.counter
      · exact h1.2 rfl i hi1 hlt
      · exact h2.2 hok i (by omega) hi2

theorem closeOn_Clean (cfg : Cfg) (o : Option Nat) : Clean cfg (closeOn o) := by
  refine Clean.modW _ fun w => ?_
  cases o <;> rfl

theorem aexitOn_Clean (cfg : Cfg) (o : Option Nat) (exc : Bool) : Clean cfg (aexitOn cfg o exc) := by
  intro w
  unfold aexitOn
  split
  · exact ⟨Nat.le_refl _, fun _ i h1 h2 => by simp only at h2; omega⟩
  · cases exc
    · exact Clean.tryFinally (commitLoop_Clean cfg _) (closeOn_Clean cfg o) w
    · exact Clean.tryFinally (txRollback_Clean cfg _) (closeOn_Clean cfg o) w

theorem exitOn_Clean (cfg : Cfg) (o : Option Nat) (joined exc : Bool) : Clean cfg (exitOn cfg o joined exc) := by
  intro w
  unfold exitOn
  cases o with
  | none =>
    simp only
    split
    · exact ⟨Nat.le_refl _, fun _ i h1 h2 => by simp only at h2; omega⟩
    · exact aexitOn_Clean cfg none exc w
  | some i =>
    simp only
    split
    · exact ⟨Nat.le_refl _, fun _ i h1 h2 => by simp only [putObj] at h2; omega⟩
    · split
      · exact aexitOn_Clean cfg (some i) exc w
      · exact ⟨Nat.le_refl _, fun _ i h1 h2 => by simp only at h2; omega⟩

theorem enterOn_counter (o : Option Nat) (w : FWorld) : (enterOn o w).2.counter = w.counter := by
  unfold enterOn
  cases w.ctx <;> cases o <;> rfl

/-- a nested block that returned normally met no failing command: neither its body nor its `__aexit__` -/
theorem Clean.blockOn {cfg : Cfg} (o : Option Nat) {inner : M Unit} (hin : Clean cfg inner) :
    Clean cfg (blockOn cfg o inner) := by
  intro w
  unfold TxFault.blockOn
  have h1 := hin (enterOn o w).2
  rw [enterOn_counter] at h1
  generalize inner (enterOn o w).2 = p at h1
  obtain ⟨r, w2⟩ := p
  cases r with
  | ok a =>
    have h2 := exitOn_Clean cfg o (enterOn o w).1 false w2
    simp only at h1 h2 ⊢
    refine ⟨Nat.le_trans h1.1 h2.1, fun hok i hi1 hi2 => ?_⟩
    by_cases hlt : i < w2.counter
    · exact h1.2 rfl i hi1 hlt
    · exact h2.2 hok i (by omega) hi2
  | err e =>
    have h2 := (exitOn_Clean cfg o (enterOn o w).1 true w2).1
    simp only at h1 h2 ⊢
    generalize exitOn cfg o (enterOn o w).1 true w2 = q at h2
    obtain ⟨r', w3⟩ := q
    cases r' <;> exact ⟨Nat.le_trans h1.1 h2, fun h => by simp [Res.isOk] at h⟩

theorem txCommitNow_Clean (cfg : Cfg) : Clean cfg (txCommitNow cfg) := by
  intro w
  unfold txCommitNow
  split
  · exact ⟨Nat.le_refl _, fun _ i h1 h2 => by simp only at h2; omega⟩
  · rename_i tx _
    have h := commitLoop_Clean cfg tx.backs w
    generalize commitLoop cfg tx.backs w = p at h
    obtain ⟨r, w1⟩ := p
    exact h

theorem txRollbackNow_Clean (cfg : Cfg) : Clean cfg (txRollbackNow cfg) := by
  intro w
  unfold txRollbackNow
  split
  · exact ⟨Nat.le_refl _, fun _ i h1 h2 => by simp only at h2; omega⟩
  · rename_i tx _
    have h := txRollback_Clean cfg tx.backs w
    generalize txRollback cfg tx.backs w = p at h
    obtain ⟨r, w1⟩ := p
    exact h

mutual
theorem bodyStep_Clean (cfg : Cfg) : (c : BodyCmd) → Clean cfg (bodyStep cfg c)
  | .set .. => by unfold bodyStep; exact Clean.bind (txSet_Clean _ _ _ _ _) fun _ => emit_Clean _ _
  | .incr .. => by unfold bodyStep; exact Clean.bind (txIncr_Clean _ _ _ _) fun _ => emit_Clean _ _
  | .get .. => by unfold bodyStep; exact Clean.bind (txGet_Clean _ _ _) fun _ => emit_Clean _ _
  | .delete .. => by unfold bodyStep; exact Clean.bind (txDelete_Clean _ _ _) fun _ => emit_Clean _ _
  | .adv _ => by unfold bodyStep; exact Clean.modW _ fun _ => rfl
  | .raise => by unfold bodyStep; exact Clean.throw _
  | .setMany .. => by unfold bodyStep; exact Clean.bind (txSetMany_Clean _ _ _ _) fun _ => emit_Clean _ _
  | .delMany .. => by unfold bodyStep; exact Clean.bind (txDelMany_Clean _ _ _) fun _ => emit_Clean _ _
  | .expire .. => by unfold bodyStep; exact Clean.bind (txExpire_Clean _ _ _ _) fun _ => emit_Clean _ _
  | .setIf .. => by unfold bodyStep; exact Clean.bind (txSetIf_Clean _ _ _ _ _ _) fun _ => emit_Clean _ _
  | .block o body => by unfold bodyStep; exact Clean.blockOn o (runBody_Clean cfg body)
  | .commit => by unfold bodyStep; exact txCommitNow_Clean cfg
  | .rollback => by unfold bodyStep; exact txRollbackNow_Clean cfg

theorem runBody_Clean (cfg : Cfg) : (body : List BodyCmd) → Clean cfg (runBody cfg body)
  | [] => by unfold runBody; exact Clean.pure _
  | c :: rest => by unfold runBody; exact Clean.bind (bodyStep_Clean cfg c) fun _ => runBody_Clean cfg rest
end

/-! ### `RK`: plain commands leave the context variable set / unset as it was and do not touch the context objects -/

def RK (w w' : FWorld) : Prop := w'.ctx.isSome = w.ctx.isSome ∧ w'.objs = w.objs

theorem RK.pre : Pre RK := ⟨fun _ => ⟨rfl, rfl⟩, fun h1 h2 => ⟨h2.1.trans h1.1, h2.2.trans h1.2⟩⟩

theorem backendCmd_RK (cfg : Cfg) (b : Nat) (c : BCmd) : Rel RK (backendCmd cfg b c) := by
  intro w
  cases hf : cfg.fails w.counter
  · rw [backendCmd_ok cfg b c w hf]
    exact ⟨by simp [applyCmd_ctx, logged], by simp [applyCmd_objs, logged]⟩
  · rw [backendCmd_fail cfg b c w hf]
    exact ⟨rfl, rfl⟩

theorem modB_RK (b : Nat) (f : TxB → TxB) : Rel RK (modB b f) := by
  refine Rel.modW _ fun w => ⟨?_, rfl⟩
  simp

/-- leaves of the `RK` proofs -/
macro "rk_leaf" : tactic => `(tactic| first
  | exact backendCmd_RK _ _ _
  | exact modB_RK _ _
  | exact Rel.modW _ fun _ => ⟨rfl, rfl⟩
  | assumption)

theorem lockLoop_RK (cfg : Cfg) (b lk : Nat) (n : Nat) : Rel RK (lockLoop cfg b lk n) := by
  induction n with
  | zero => exact Rel.throw RK.pre _
  | succ n ih =>
    unfold lockLoop
    simp only [bind_eq]
    rel_steps RK.pre
    all_goals rk_leaf

theorem lockUpdates_RK (cfg : Cfg) (b k : Nat) : Rel RK (lockUpdates cfg b k) := by
  unfold lockUpdates
  simp only [bind_eq, pure_eq]
  rel_steps RK.pre
  exact lockLoop_RK _ _ _ _

theorem lockAll_RK (cfg : Cfg) (b : Nat) (ks : List Nat) : Rel RK (lockAll cfg b ks) := by
  induction ks with
  | nil => exact Rel.pure RK.pre _
  | cons k rest ih =>
    unfold lockAll
    simp only [bind_eq]
    exact Rel.bind RK.pre (lockUpdates_RK _ _ _) fun _ => ih

/-- the rest of an `RK` proof of a facade command -/
macro "rk_cmd" : tactic => `(tactic| (
  simp only [bind_eq, pure_eq]
  rel_steps RK.pre
  all_goals first | exact lockUpdates_RK _ _ _ | exact lockAll_RK _ _ _ | rk_leaf))

theorem emit_RK (r : Reply) : Rel RK (emit r) := Rel.modW _ fun _ => ⟨rfl, rfl⟩
theorem txSet_RK (cfg : Cfg) (b k : Nat) (v : Int) (ttl : Option Nat) : Rel RK (txSet cfg b k v ttl) := by
  unfold txSet wrap; rk_cmd
theorem incrSeed_RK (cfg : Cfg) (b k : Nat) : Rel RK (incrSeed cfg b k) := by
  unfold incrSeed; rk_cmd
theorem txIncr_RK (cfg : Cfg) (b k : Nat) (ttl : Option Nat) : Rel RK (txIncr cfg b k ttl) := by
  unfold txIncr wrap
  simp only [bind_eq, pure_eq]
  rel_steps RK.pre
  all_goals first | exact lockUpdates_RK _ _ _ | exact incrSeed_RK _ _ _ | rk_leaf
theorem txGet_RK (cfg : Cfg) (b k : Nat) : Rel RK (txGet cfg b k) := by
  unfold txGet wrap; rk_cmd
theorem txDelete_RK (cfg : Cfg) (b k : Nat) : Rel RK (txDelete cfg b k) := by
  unfold txDelete wrap; rk_cmd
theorem txSetMany_RK (cfg : Cfg) (b : Nat) (kvs : List (Nat × Int)) (ttl : Option Nat) : Rel RK (txSetMany cfg b kvs ttl) := by
  unfold txSetMany wrap; rk_cmd
theorem txDelMany_RK (cfg : Cfg) (b : Nat) (ks : List Nat) : Rel RK (txDelMany cfg b ks) := by
  unfold txDelMany wrap; rk_cmd
theorem txExpire_RK (cfg : Cfg) (b k ttl : Nat) : Rel RK (txExpire cfg b k ttl) := by
  unfold txExpire wrap; rk_cmd
theorem txSetIf_RK (cfg : Cfg) (b k : Nat) (v : Int) (ttl : Option Nat) (ex : Bool) : Rel RK (txSetIf cfg b k v ttl ex) := by
  unfold txSetIf wrap; rk_cmd

/-! ### `RIn`: what a body does INSIDE a transaction — nested blocks included: the task stays inside the transaction, every
context object is left as it was found, no write reaches a backend -/

theorem objOf_putObj (w : FWorld) (i j : Nat) (v : CtxObj) :
    objOf (putObj w i v) j = if i = j then v else objOf w j := by
  unfold objOf putObj
  simp only [alLookup_put]
  split <;> rfl

/-! ### commit / rollback do not touch the context objects either -/

theorem gatherUnlock_RK (cfg : Cfg) (b : Nat) (ls : List Nat) : Rel RK (gatherUnlock cfg b ls) := by
  induction ls with
  | nil => exact Rel.pure RK.pre _
  | cons lk rest ih =>
    intro w
    rw [gatherUnlock_snd]
    exact RK.pre.trans (backendCmd_RK cfg b (.unlock lk) w) (ih _)

theorem runCmds_RK (cfg : Cfg) (b : Nat) (cs : List BCmd) : Rel RK (runCmds cfg b cs) := by
  induction cs with
  | nil => exact Rel.pure RK.pre _
  | cons c rest ih =>
    unfold runCmds
    simp only [bind_eq]
    exact Rel.bind RK.pre (backendCmd_RK cfg b c) fun _ => ih

theorem commitOne_RK (cfg : Cfg) (t : TxB) : Rel RK (commitOne cfg t) := by
  refine Rel.tryFinally RK.pre ?_ (fun w => gatherUnlock_RK _ _ _ w)
  unfold baseCommit
  simp only [bind_eq]
  exact Rel.bind RK.pre (Rel.getW RK.pre) fun _ => runCmds_RK _ _ _

theorem rollbackOne_RK (cfg : Cfg) (t : TxB) : Rel RK (rollbackOne cfg t) :=
  Rel.tryFinally RK.pre (Rel.pure RK.pre _) (fun w => gatherUnlock_RK _ _ _ w)

theorem rollbackList_RK (cfg : Cfg) (ts : List TxB) (w : FWorld) : RK w (rollbackList cfg ts w).2 := by
  induction ts generalizing w with
  | nil => exact RK.pre.refl w
  | cons t rest ih =>
    rcases rollbackList_snd cfg t rest w with h | ⟨h, _⟩ <;> rw [h]
    · exact RK.pre.trans (rollbackOne_RK cfg t w) (ih _)
    · exact rollbackOne_RK cfg t w

theorem commitLoop_RK (cfg : Cfg) (ts : List TxB) (w : FWorld) : RK w (commitLoop cfg ts w).2 := by
  induction ts generalizing w with
  | nil => exact RK.pre.refl w
  | cons t rest ih =>
    rcases commitLoop_snd cfg t rest w with h | h <;> rw [h]
    · exact RK.pre.trans (commitOne_RK cfg t w) (ih _)
    · exact RK.pre.trans (commitOne_RK cfg t w) (rollbackList_RK cfg rest _)

theorem txCommitNow_RK (cfg : Cfg) : Rel RK (txCommitNow cfg) := by
  intro w
  unfold txCommitNow
  split
  · exact RK.pre.refl w
  · rename_i tx _
    have h := commitLoop_RK cfg tx.backs w
    generalize commitLoop cfg tx.backs w = p at h
    obtain ⟨r, w1⟩ := p
    exact ⟨by simp only [Option.isSome_map]; exact h.1, h.2⟩

theorem txRollbackNow_RK (cfg : Cfg) : Rel RK (txRollbackNow cfg) := by
  intro w
  unfold txRollbackNow
  split
  · exact RK.pre.refl w
  · rename_i tx _
    have h : RK w (txRollback cfg tx.backs w).2 := by rw [txRollback_snd]; exact rollbackList_RK cfg tx.backs w
    generalize txRollback cfg tx.backs w = p at h
    obtain ⟨r, w1⟩ := p
    exact ⟨by simp only [Option.isSome_map]; exact h.1, h.2⟩

/-- an explicit `tx.rollback()` sends unlocks only -/
theorem txRollbackNow_RBody (cfg : Cfg) : Rel RBody (txRollbackNow cfg) := by
  intro w
  unfold txRollbackNow
  split
  · exact RBody.pre.refl w
  · rename_i tx _
    have h := txRollback_RBody cfg tx.backs w
    generalize txRollback cfg tx.backs w = p at h
    obtain ⟨r, w1⟩ := p
    exact h

/-- `RInP P`: inside a transaction the task stays inside it, every context object is left as found, and `P` -/
def RInP (P : FWorld → FWorld → Prop) (w w' : FWorld) : Prop :=
  w.ctx.isSome = true → w'.ctx.isSome = true ∧ (∀ i, objOf w' i = objOf w i) ∧ P w w'

theorem RInP.pre {P : FWorld → FWorld → Prop} (hP : Pre P) : Pre (RInP P) :=
  ⟨fun w _ => ⟨‹_›, fun _ => rfl, hP.refl w⟩,
   fun h1 h2 h => by
     obtain ⟨a, b, c⟩ := h1 h
     obtain ⟨a', b', c'⟩ := h2 a
     exact ⟨a', fun i => (b' i).trans (b i), hP.trans c c'⟩⟩

theorem RInP.of {P : FWorld → FWorld → Prop} {α} {m : M α} (h1 : Rel P m) (h2 : Rel RK m) : Rel (RInP P) m := fun w hs =>
  ⟨(h2 w).1.trans hs, fun i => by unfold objOf; rw [(h2 w).2], h1 w⟩

/-- nothing asked -/
def RTrue (_ _ : FWorld) : Prop := True
theorem RTrue.pre : Pre RTrue := ⟨fun _ => trivial, fun _ _ => trivial⟩

/-- with `RBody`: no write reaches a backend (bodies without `tx.commit()`) -/
def RIn := RInP RBody
/-- for every body: the context variable and the context objects -/
def RInK := RInP RTrue

/-- **a nested block inside a running transaction is transparent**: entering it bumps the `_inner` of its object (if it is a
shared one), leaving it — normally or not — takes the bump back and does nothing else; in particular it does not commit,
roll back, unlock or reset the context variable, whichever object it is opened on (the very object of the outermost
block included) -/
theorem blockOn_RInP {P : FWorld → FWorld → Prop} (hP : Pre P) (hput : ∀ w i v, P w (putObj w i v))
    (cfg : Cfg) (o : Option Nat) {inner : M Unit} (hin : Rel (RInP P) inner) : Rel (RInP P) (blockOn cfg o inner) := by
  intro w hs
  obtain ⟨t, ht⟩ := Option.isSome_iff_exists.1 hs
  unfold blockOn
  cases o with
  | none =>
    have he : enterOn none w = (true, w) := by simp [enterOn, ht]
    rw [he]
    have h1 := hin w hs
    generalize inner w = p at h1
    obtain ⟨r, w2⟩ := p
    cases r <;> simp only [exitOn, if_true] <;> exact h1
  | some i =>
    have he : enterOn (some i) w = (true, putObj w i { objOf w i with inner := (objOf w i).inner + 1 }) := by
      simp [enterOn, ht]
    rw [he]
    generalize hw1 : putObj w i { objOf w i with inner := (objOf w i).inner + 1 } = w1
    have hs1 : w1.ctx.isSome = true := by rw [← hw1]; exact hs
    have hb1 : P w w1 := by rw [← hw1]; exact hput _ _ _
    have ho1 : objOf w1 i = { objOf w i with inner := (objOf w i).inner + 1 } := by
      rw [← hw1, objOf_putObj, if_pos rfl]
    have ho1' : ∀ j, j ≠ i → objOf w1 j = objOf w j := by
      intro j hj
      rw [← hw1, objOf_putObj, if_neg (Ne.symm hj)]
    obtain ⟨hs2, ho2, hb2⟩ := hin w1 hs1
    -- `__aexit__`: `_inner` is not 0 — it is taken back, nothing else happens
    have hexit : ∀ exc, exitOn cfg (some i) true exc (inner w1).2 =
        (.ok (), putObj (inner w1).2 i { objOf (inner w1).2 i with inner := (objOf (inner w1).2 i).inner - 1 }) := by
      intro exc
      have : (objOf (inner w1).2 i).inner ≠ 0 := by rw [ho2 i, ho1]; simp
      simp only [exitOn, this, ne_eq, not_false_eq_true, if_true]
    have hfin : RInP P w (putObj (inner w1).2 i { objOf (inner w1).2 i with inner := (objOf (inner w1).2 i).inner - 1 }) := by
      intro _
      refine ⟨hs2, fun j => ?_, hP.trans (hP.trans hb1 hb2) (hput _ _ _)⟩
      rw [objOf_putObj]
      by_cases hj : i = j
      · subst hj
        rw [if_pos rfl, ho2 i, ho1]
        simp
      · rw [if_neg hj, ho2 j, ho1' j (Ne.symm hj)]
    generalize hp : inner w1 = p at hexit hfin
    obtain ⟨r, w2⟩ := p
    cases r with
    | ok a => simp only; rw [hexit false]; exact hfin hs
    | err e => simp only; rw [hexit true]; exact hfin hs

theorem RIn.pre : Pre RIn := RInP.pre RBody.pre
theorem RInK.pre : Pre RInK := RInP.pre RTrue.pre

theorem blockOn_RIn (cfg : Cfg) (o : Option Nat) {inner : M Unit} (hin : Rel RIn inner) : Rel RIn (blockOn cfg o inner) :=
  blockOn_RInP RBody.pre (fun _ _ _ => RBody.same rfl rfl rfl) cfg o hin

theorem blockOn_RInK (cfg : Cfg) (o : Option Nat) {inner : M Unit} (hin : Rel RInK inner) : Rel RInK (blockOn cfg o inner) :=
  blockOn_RInP RTrue.pre (fun _ _ _ => trivial) cfg o hin

theorem RInK.of {α} {m : M α} (h2 : Rel RK m) : Rel RInK m := RInP.of (fun _ => trivial) h2
theorem RIn.of {α} {m : M α} (h1 : Rel RBody m) (h2 : Rel RK m) : Rel RIn m := RInP.of h1 h2

/- every body, explicit `tx.commit()` / `tx.rollback()` included: the task stays inside the transaction, the context objects
are left as found -/
mutual
theorem bodyStep_RInK (cfg : Cfg) : (c : BodyCmd) → Rel RInK (bodyStep cfg c)
  | .set .. => by unfold bodyStep; exact RInK.of (Rel.bind RK.pre (txSet_RK _ _ _ _ _) fun _ => emit_RK _)
  | .incr .. => by unfold bodyStep; exact RInK.of (Rel.bind RK.pre (txIncr_RK _ _ _ _) fun _ => emit_RK _)
  | .get .. => by unfold bodyStep; exact RInK.of (Rel.bind RK.pre (txGet_RK _ _ _) fun _ => emit_RK _)
  | .delete .. => by unfold bodyStep; exact RInK.of (Rel.bind RK.pre (txDelete_RK _ _ _) fun _ => emit_RK _)
  | .adv _ => by unfold bodyStep; exact RInK.of (Rel.modW _ fun _ => ⟨rfl, rfl⟩)
  | .raise => by unfold bodyStep; exact Rel.throw RInK.pre _
  | .setMany .. => by unfold bodyStep; exact RInK.of (Rel.bind RK.pre (txSetMany_RK _ _ _ _) fun _ => emit_RK _)
  | .delMany .. => by unfold bodyStep; exact RInK.of (Rel.bind RK.pre (txDelMany_RK _ _ _) fun _ => emit_RK _)
  | .expire .. => by unfold bodyStep; exact RInK.of (Rel.bind RK.pre (txExpire_RK _ _ _ _) fun _ => emit_RK _)
  | .setIf .. => by unfold bodyStep; exact RInK.of (Rel.bind RK.pre (txSetIf_RK _ _ _ _ _ _) fun _ => emit_RK _)
  | .block o body => by unfold bodyStep; exact blockOn_RInK cfg o (runBody_RInK cfg body)
  | .commit => by unfold bodyStep; exact RInK.of (txCommitNow_RK cfg)
  | .rollback => by unfold bodyStep; exact RInK.of (txRollbackNow_RK cfg)

theorem runBody_RInK (cfg : Cfg) : (body : List BodyCmd) → Rel RInK (runBody cfg body)
  | [] => by unfold runBody; exact Rel.pure RInK.pre _
  | c :: rest => by unfold runBody; exact Rel.bind RInK.pre (bodyStep_RInK cfg c) fun _ => runBody_RInK cfg rest
end

/- a body without `tx.commit()` (explicit rollbacks allowed): additionally no write reaches a backend -/
mutual
theorem bodyStep_RIn (cfg : Cfg) : (c : BodyCmd) → c.hasCommit = false → Rel RIn (bodyStep cfg c)
  | .set .., _ => by
    unfold bodyStep
    exact RIn.of (Rel.bind RBody.pre (txSet_RBody _ _ _ _ _) fun _ => emit_RBody _) (Rel.bind RK.pre (txSet_RK _ _ _ _ _) fun _ => emit_RK _)
  | .incr .., _ => by
    unfold bodyStep
    exact RIn.of (Rel.bind RBody.pre (txIncr_RBody _ _ _ _) fun _ => emit_RBody _) (Rel.bind RK.pre (txIncr_RK _ _ _ _) fun _ => emit_RK _)
  | .get .., _ => by
    unfold bodyStep
    exact RIn.of (Rel.bind RBody.pre (txGet_RBody _ _ _) fun _ => emit_RBody _) (Rel.bind RK.pre (txGet_RK _ _ _) fun _ => emit_RK _)
  | .delete .., _ => by
    unfold bodyStep
    exact RIn.of (Rel.bind RBody.pre (txDelete_RBody _ _ _) fun _ => emit_RBody _) (Rel.bind RK.pre (txDelete_RK _ _ _) fun _ => emit_RK _)
  | .adv _, _ => by
    unfold bodyStep
    exact RIn.of (Rel.modW _ fun _ => RBody.same rfl rfl rfl) (Rel.modW _ fun _ => ⟨rfl, rfl⟩)
  | .raise, _ => by
    unfold bodyStep
    exact Rel.throw RIn.pre _
  | .setMany .., _ => by
    unfold bodyStep
    exact RIn.of (Rel.bind RBody.pre (txSetMany_RBody _ _ _ _) fun _ => emit_RBody _) (Rel.bind RK.pre (txSetMany_RK _ _ _ _) fun _ => emit_RK _)
  | .delMany .., _ => by
    unfold bodyStep
    exact RIn.of (Rel.bind RBody.pre (txDelMany_RBody _ _ _) fun _ => emit_RBody _) (Rel.bind RK.pre (txDelMany_RK _ _ _) fun _ => emit_RK _)
  | .expire .., _ => by
    unfold bodyStep
    exact RIn.of (Rel.bind RBody.pre (txExpire_RBody _ _ _ _) fun _ => emit_RBody _) (Rel.bind RK.pre (txExpire_RK _ _ _ _) fun _ => emit_RK _)
  | .setIf .., _ => by
    unfold bodyStep
    exact RIn.of (Rel.bind RBody.pre (txSetIf_RBody _ _ _ _ _ _) fun _ => emit_RBody _) (Rel.bind RK.pre (txSetIf_RK _ _ _ _ _ _) fun _ => emit_RK _)
  | .block o body, h => by
    unfold bodyStep
    exact blockOn_RIn cfg o (runBody_RIn cfg body (by simpa [BodyCmd.hasCommit] using h))
  | .commit, h => by simp [BodyCmd.hasCommit] at h
  | .rollback, _ => by
    unfold bodyStep
    exact RIn.of (txRollbackNow_RBody cfg) (txRollbackNow_RK cfg)

theorem runBody_RIn (cfg : Cfg) : (body : List BodyCmd) → hasCommitL body = false → Rel RIn (runBody cfg body)
  | [], _ => by unfold runBody; exact Rel.pure RIn.pre _
  | c :: rest, h => by
    unfold runBody
    have h' : c.hasCommit = false ∧ hasCommitL rest = false := by simpa [hasCommitL] using h
    exact Rel.bind RIn.pre (bodyStep_RIn cfg c h'.1) fun _ => runBody_RIn cfg rest h'.2
end

/-! ### the outermost block -/

/-- the block object is not in the middle of another use: none of its blocks is open -/
def ObjIdle (w : FWorld) (o : Option Nat) : Prop := ∀ i, o = some i → (objOf w i).inner = 0

theorem enteredOn_ctx (o : Option Nat) (w : FWorld) (h : w.ctx = none) : (enteredOn o w).ctx = some ⟨[]⟩ := by
  unfold enteredOn enterOn
  cases o <;> simp [h, putObj]

theorem enterOn_none (o : Option Nat) (w : FWorld) (h : w.ctx = none) : (enterOn o w).1 = false := by
  unfold enterOn
  simp [h]

theorem enteredOn_locks (o : Option Nat) (w : FWorld) : (enteredOn o w).locks = w.locks := by
  unfold enteredOn enterOn
  cases w.ctx <;> cases o <;> rfl

theorem enteredOn_now (o : Option Nat) (w : FWorld) : (enteredOn o w).now = w.now := by
  unfold enteredOn enterOn
  cases w.ctx <;> cases o <;> rfl

theorem enteredOn_RBody (o : Option Nat) (w : FWorld) : RBody w (enteredOn o w) := by
  unfold enteredOn enterOn
  cases w.ctx <;> cases o <;> exact RBody.same rfl rfl rfl

/-- the body of the outermost block — ANY body, explicit `tx.commit()` / `tx.rollback()` and nested blocks included: it ends
inside the transaction, the context objects are as `__aenter__` left them, the command counter has not gone back -/
theorem runBody_outerK (cfg : Cfg) (o : Option Nat) (body : List BodyCmd) (w : FWorld) (h : w.ctx = none) :
    (runBody cfg body (enteredOn o w)).2.ctx.isSome = true ∧
    (∀ i, objOf (runBody cfg body (enteredOn o w)).2 i = objOf (enteredOn o w) i) ∧
    w.counter ≤ (runBody cfg body (enteredOn o w)).2.counter := by
  obtain ⟨a, b, _⟩ := runBody_RInK cfg body (enteredOn o w) (by rw [enteredOn_ctx o w h]; rfl)
  refine ⟨a, b, ?_⟩
  have := (runBody_Clean cfg body (enteredOn o w)).1
  rwa [show (enteredOn o w).counter = w.counter from enterOn_counter o w] at this

/-- … and a body without `tx.commit()`: no write reaches a backend before `__aexit__` -/
theorem runBody_outer (cfg : Cfg) (o : Option Nat) (body : List BodyCmd) (w : FWorld) (h : w.ctx = none)
    (hnc : hasCommitL body = false) :
    RBody w (runBody cfg body (enteredOn o w)).2 := by
  obtain ⟨_, _, c⟩ := runBody_RIn cfg body hnc (enteredOn o w) (by rw [enteredOn_ctx o w h]; rfl)
  exact RBody.pre.trans (enteredOn_RBody o w) c

/-- **the `__aexit__` of the outermost block finishes the transaction**: whatever blocks the body opened and left in
between (on other objects, on this very object), when the outermost block of an idle object is left its `_inner` is 0 and
its `_tx` is set, so it commits / rolls back and closes -/
theorem exitOn_outer (cfg : Cfg) (o : Option Nat) (body : List BodyCmd) (w : FWorld) (h : w.ctx = none)
    (hidle : ObjIdle w o) (exc : Bool) :
    exitOn cfg o (enterOn o w).1 exc (runBody cfg body (enteredOn o w)).2 =
      aexitOn cfg o exc (runBody cfg body (enteredOn o w)).2 := by
  obtain ⟨_, hobj, _⟩ := runBody_outerK cfg o body w h
  unfold exitOn
  cases o with
  | none => simp [enterOn_none none w h]
  | some i =>
    have : objOf (enteredOn (some i) w) i = { objOf w i with tx := true } := by
      unfold enteredOn enterOn
      simp only [h]
      show objOf ({ putObj w i _ with ctx := _ }) i = _
      have : ∀ v, objOf ({ putObj w i v with ctx := some ⟨[]⟩ }) i = v := by
        intro v
        have := objOf_putObj w i i v
        rw [if_pos rfl] at this
        exact this
      exact this _
    simp only [hobj i, this, hidle i rfl, ne_eq, not_true_eq_false, if_false, if_true]

/-- where the outermost block leaves the world: the body's world, then commit / rollback (`exc_tb` set iff the body raised)
and `close()` -/
theorem runBlockOn_world (cfg : Cfg) (o : Option Nat) (body : List BodyCmd) (w : FWorld) (h : w.ctx = none)
    (hidle : ObjIdle w o) :
    (runBlockOn cfg o body w).2 =
      (aexitOn cfg o (!(runBody cfg body (enteredOn o w)).1.isOk) (runBody cfg body (enteredOn o w)).2).2 := by
  have hx := exitOn_outer cfg o body w h hidle
  unfold runBlockOn blockOn
  change (match runBody cfg body (enteredOn o w) with
    | (.ok _, w2) => exitOn cfg o (enterOn o w).1 false w2
    | (.err e, w2) =>
      match exitOn cfg o (enterOn o w).1 true w2 with
      | (.ok _, w3) => (.err e, w3)
      | (.err e', w3) => (.err e', w3)).2 = _
  generalize runBody cfg body (enteredOn o w) = p at hx
  obtain ⟨r, w2⟩ := p
  cases r with
  | ok a => simp only [Res.isOk, Bool.not_true]; rw [hx false]
  | err e =>
    simp only [Res.isOk, Bool.not_false]
    rw [hx true]
    generalize aexitOn cfg o true w2 = q
    obtain ⟨r', w3⟩ := q
    cases r' <;> rfl

/-- … and what the caller sees -/
theorem runBlockOn_res (cfg : Cfg) (o : Option Nat) (body : List BodyCmd) (w : FWorld) (h : w.ctx = none)
    (hidle : ObjIdle w o) :
    runBlockOn cfg o body w =
      match runBody cfg body (enteredOn o w) with
      | (.ok _, w2) => aexitOn cfg o false w2
      | (.err e, w2) =>
        match aexitOn cfg o true w2 with
        | (.ok _, w3) => (.err e, w3)
        | (.err e', w3) => (.err e', w3) := by
  have hx := exitOn_outer cfg o body w h hidle
  unfold runBlockOn blockOn
  change (match runBody cfg body (enteredOn o w) with
    | (.ok _, w2) => exitOn cfg o (enterOn o w).1 false w2
    | (.err e, w2) =>
      match exitOn cfg o (enterOn o w).1 true w2 with
      | (.ok _, w3) => (.err e, w3)
      | (.err e', w3) => (.err e', w3)) = _
  generalize runBody cfg body (enteredOn o w) = p at hx
  obtain ⟨r, w2⟩ := p
  cases r with
  | ok a => simp only; rw [hx false]
  | err e => simp only; rw [hx true]

/-- the fields of every context object once the outermost block of object `o` has been left: `o` is as constructed again
(`_tx = None`; its `_inner` was 0 and still is), every other object is untouched -/
theorem runBlockOn_objs (cfg : Cfg) (o : Option Nat) (body : List BodyCmd) (w : FWorld) (h : w.ctx = none)
    (hidle : ObjIdle w o) (i : Nat) :
    objOf (runBlockOn cfg o body w).2 i = if o = some i then { objOf w i with tx := false } else objOf w i := by
  rw [runBlockOn_world cfg o body w h hidle]
  obtain ⟨hs, hobj, _⟩ := runBody_outerK cfg o body w h
  generalize (runBody cfg body (enteredOn o w)).2 = w2 at hs hobj
  generalize (!(runBody cfg body (enteredOn o w)).1.isOk) = exc
  obtain ⟨tx, htx⟩ := Option.isSome_iff_exists.1 hs
  unfold aexitOn
  simp only [htx]
  rw [tryFinally_snd]
  have hk : RK w2 ((if exc = true then txRollback cfg tx.backs else commitLoop cfg tx.backs) w2).2 := by
    cases exc
    · exact commitLoop_RK cfg tx.backs w2
    · simp only [if_true]; rw [txRollback_snd]; exact rollbackList_RK cfg tx.backs w2
  generalize ((if exc = true then txRollback cfg tx.backs else commitLoop cfg tx.backs) w2).2 = w3 at hk
  have h3 : ∀ j, objOf w3 j = objOf (enteredOn o w) j := fun j => by
    rw [← hobj j]; unfold objOf; rw [hk.2]
  have hent : ∀ j, objOf (enteredOn o w) j = match o with
      | none => objOf w j
      | some k => if k = j then { objOf w k with tx := true } else objOf w j := by
    intro j
    unfold enteredOn enterOn
    simp only [h]
    cases o with
    | none => rfl
    | some k => exact objOf_putObj w k j _
  cases o with
  | none =>
    simp only [closeOn, modW, reduceCtorEq, if_false]
    show objOf { w3 with ctx := none } i = _
    exact (h3 i).trans (hent i)
  | some k =>
    simp only [closeOn, modW, Option.some.injEq]
    show objOf { putObj w3 k { objOf w3 k with tx := false } with ctx := none } i = _
    have : objOf { putObj w3 k { objOf w3 k with tx := false } with ctx := none } i =
        if k = i then { objOf w3 k with tx := false } else objOf w3 i := objOf_putObj w3 k i _
    rw [this]
    by_cases hki : k = i
    · subst hki
      rw [if_pos rfl, if_pos rfl, h3 k, hent k]
      simp
    · rw [if_neg hki, if_neg hki, h3 i, hent i]
      simp [hki]

/-- a body in two parts: the second part runs in the world the first one left, unless the first one raised -/
theorem runBody_append (cfg : Cfg) (b1 b2 : List BodyCmd) (w : FWorld) :
    runBody cfg (b1 ++ b2) w =
      match runBody cfg b1 w with
      | (.ok _, w1) => runBody cfg b2 w1
      | (.err e, w1) => (.err e, w1) := by
  induction b1 generalizing w with
  | nil => simp [runBody, M.pure]
  | cons c rest ih =>
    simp only [List.cons_append, runBody, M.bind]
    generalize bodyStep cfg c w = p
    obtain ⟨r, w1⟩ := p
    cases r with
    | ok a => exact ih w1
    | err e => rfl

end CashewsVerif.TxFault
