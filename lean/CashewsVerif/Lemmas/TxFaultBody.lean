import CashewsVerif.Lemmas.TxFault
/-
C16: what the body of a transaction block and a rollback can NOT do — touch the data of a real backend —
and the bookkeeping of the command counter: a computation that returns normally met no failing command.
-/
namespace CashewsVerif.TxFault

/-! ### `RBody`: the counter only grows, the backends' data is untouched, and no command that could touch it is even SENT
(every newly logged command is a read, a `set_lock` or an `unlock`) -/

def RBody (w w' : FWorld) : Prop :=
  w.counter ≤ w'.counter ∧ w'.data = w.data ∧ ∀ ev, ev ∈ w'.log → ev ∈ w.log ∨ ev.cmd.noData

theorem RBody.pre : Pre RBody :=
  ⟨fun _ => ⟨Nat.le_refl _, rfl, fun _ h => Or.inl h⟩,
   fun h1 h2 => ⟨Nat.le_trans h1.1 h2.1, h2.2.1.trans h1.2.1, fun ev h =>
     match h2.2.2 ev h with
     | Or.inl h' => h1.2.2 ev h'
     | Or.inr h' => Or.inr h'⟩⟩

/-- a step that touches neither counter, data nor log -/
theorem RBody.same {w w' : FWorld} (hc : w'.counter = w.counter) (hd : w'.data = w.data) (hl : w'.log = w.log) :
    RBody w w' := ⟨by rw [hc]; exact Nat.le_refl _, hd, fun _ h => Or.inl (hl ▸ h)⟩

theorem backendCmd_RBody (cfg : Cfg) (b : Nat) (c : BCmd) (hc : c.noData) : Rel RBody (backendCmd cfg b c) := by
  intro w
  cases hf : cfg.fails w.counter
  · rw [backendCmd_ok cfg b c w hf]
    refine ⟨by simp [applyCmd_counter, logged], by simp [applyCmd_data _ _ _ hc, logged], fun ev h => ?_⟩
    simp only [applyCmd_log, logged, List.mem_append, List.mem_singleton] at h
    rcases h with h | rfl
    · exact Or.inl h
    · exact Or.inr hc
  · rw [backendCmd_fail cfg b c w hf]
    refine ⟨by simp [logged], rfl, fun ev h => ?_⟩
    simp only [logged, List.mem_append, List.mem_singleton] at h
    rcases h with h | rfl
    · exact Or.inl h
    · exact Or.inr hc

theorem modB_RBody (b : Nat) (f : TxB → TxB) : Rel RBody (modB b f) :=
  Rel.modW _ fun _ => RBody.same rfl rfl rfl

/-- structural steps of a relational proof; the leaves are left to the caller -/
macro "rel_steps" h:term : tactic => `(tactic| repeat' (first
  | exact Rel.pure $h _ | exact Rel.throw $h _ | exact Rel.getW $h
  | refine Rel.bind $h ?_ (fun _ => ?_) | split))

theorem lockLoop_RBody (cfg : Cfg) (b lk : Nat) (n : Nat) : Rel RBody (lockLoop cfg b lk n) := by
  induction n with
  | zero => exact Rel.throw RBody.pre _
  | succ n ih =>
    unfold lockLoop
    simp only [bind_eq]
    rel_steps RBody.pre
    all_goals first
      | exact backendCmd_RBody _ _ _ trivial
      | exact modB_RBody _ _
      | exact Rel.modW _ fun _ => RBody.same rfl rfl rfl
      | exact ih

theorem lockUpdates_RBody (cfg : Cfg) (b k : Nat) : Rel RBody (lockUpdates cfg b k) := by
  unfold lockUpdates
  simp only [bind_eq, pure_eq]
  rel_steps RBody.pre
  exact lockLoop_RBody _ _ _ _


theorem incrSeed_RBody (cfg : Cfg) (b k : Nat) : Rel RBody (incrSeed cfg b k) := by
  unfold incrSeed
  simp only [bind_eq, pure_eq]
  rel_steps RBody.pre
  exact backendCmd_RBody _ _ _ trivial

theorem txSet_RBody (cfg : Cfg) (b k : Nat) (v : Int) (ttl : Option Nat) : Rel RBody (txSet cfg b k v ttl) := by
  unfold txSet wrap
  simp only [bind_eq, pure_eq]
  rel_steps RBody.pre
  exact lockUpdates_RBody _ _ _

theorem txIncr_RBody (cfg : Cfg) (b k : Nat) (ttl : Option Nat) : Rel RBody (txIncr cfg b k ttl) := by
  unfold txIncr wrap
  simp only [bind_eq, pure_eq]
  rel_steps RBody.pre
  all_goals first | exact lockUpdates_RBody _ _ _ | exact incrSeed_RBody _ _ _ | exact backendCmd_RBody _ _ _ trivial

theorem txGet_RBody (cfg : Cfg) (b k : Nat) : Rel RBody (txGet cfg b k) := by
  unfold txGet wrap
  simp only [bind_eq, pure_eq]
  rel_steps RBody.pre
  exact backendCmd_RBody _ _ _ trivial

theorem txDelete_RBody (cfg : Cfg) (b k : Nat) : Rel RBody (txDelete cfg b k) := by
  unfold txDelete wrap
  simp only [bind_eq, pure_eq]
  rel_steps RBody.pre
  exact lockUpdates_RBody _ _ _

theorem lockAll_RBody (cfg : Cfg) (b : Nat) (ks : List Nat) : Rel RBody (lockAll cfg b ks) := by
  induction ks with
  | nil => exact Rel.pure RBody.pre _
  | cons k rest ih =>
    unfold lockAll
    simp only [bind_eq]
    exact Rel.bind RBody.pre (lockUpdates_RBody _ _ _) fun _ => ih

theorem txSetMany_RBody (cfg : Cfg) (b : Nat) (kvs : List (Nat × Int)) (ttl : Option Nat) :
    Rel RBody (txSetMany cfg b kvs ttl) := by
  unfold txSetMany wrap
  simp only [bind_eq, pure_eq]
  rel_steps RBody.pre
  all_goals first | exact lockAll_RBody _ _ _ | exact modB_RBody _ _

theorem txDelMany_RBody (cfg : Cfg) (b : Nat) (ks : List Nat) : Rel RBody (txDelMany cfg b ks) := by
  unfold txDelMany wrap
  simp only [bind_eq, pure_eq]
  rel_steps RBody.pre
  all_goals first | exact lockAll_RBody _ _ _ | exact modB_RBody _ _

theorem txExists_RBody (cfg : Cfg) (b k : Nat) : Rel RBody (txExists cfg b k) := by
  unfold txExists
  simp only [bind_eq, pure_eq]
  rel_steps RBody.pre
  all_goals first | exact modB_RBody _ _ | exact backendCmd_RBody _ _ _ trivial

theorem txSetIf_RBody (cfg : Cfg) (b k : Nat) (v : Int) (ttl : Option Nat) (ex : Bool) :
    Rel RBody (txSetIf cfg b k v ttl ex) := by
  unfold txSetIf wrap
  simp only [bind_eq, pure_eq]
  rel_steps RBody.pre
  all_goals first | exact modB_RBody _ _ | exact lockUpdates_RBody _ _ _ | exact backendCmd_RBody _ _ _ trivial

/-- `expire` inside a transaction sends only a READ to the backend: the store keeps value and deadline until commit -/
theorem txExpire_RBody (cfg : Cfg) (b k ttl : Nat) : Rel RBody (txExpire cfg b k ttl) := by
  unfold txExpire wrap
  simp only [bind_eq, pure_eq]
  rel_steps RBody.pre
  all_goals first | exact modB_RBody _ _ | exact lockUpdates_RBody _ _ _ | exact backendCmd_RBody _ _ _ trivial

theorem emit_RBody (r : Reply) : Rel RBody (emit r) := Rel.modW _ fun _ => RBody.same rfl rfl rfl

theorem bodyStep_RBody (cfg : Cfg) (c : BodyCmd) : Rel RBody (bodyStep cfg c) := by
  cases c <;> unfold bodyStep <;> simp only [bind_eq]
  · exact Rel.bind RBody.pre (txSet_RBody _ _ _ _ _) fun _ => emit_RBody _
  · exact Rel.bind RBody.pre (txIncr_RBody _ _ _ _) fun _ => emit_RBody _
  · exact Rel.bind RBody.pre (txGet_RBody _ _ _) fun _ => emit_RBody _
  · exact Rel.bind RBody.pre (txDelete_RBody _ _ _) fun _ => emit_RBody _
  · exact Rel.modW _ fun _ => RBody.same rfl rfl rfl
  · exact Rel.throw RBody.pre _
  · exact Rel.bind RBody.pre (txSetMany_RBody _ _ _ _) fun _ => emit_RBody _
  · exact Rel.bind RBody.pre (txDelMany_RBody _ _ _) fun _ => emit_RBody _
  · exact Rel.bind RBody.pre (txExpire_RBody _ _ _ _) fun _ => emit_RBody _
  · exact Rel.bind RBody.pre (txSetIf_RBody _ _ _ _ _ _) fun _ => emit_RBody _

theorem runBody_RBody (cfg : Cfg) (body : List BodyCmd) : Rel RBody (runBody cfg body) := by
  induction body with
  | nil => exact Rel.pure RBody.pre _
  | cons c rest ih => exact Rel.bind RBody.pre (bodyStep_RBody cfg c) fun _ => ih

/-! the rollback path issues `unlock`s only -/

theorem gatherUnlock_RBody (cfg : Cfg) (b : Nat) (ls : List Nat) : Rel RBody (gatherUnlock cfg b ls) := by
  induction ls with
  | nil => exact Rel.pure RBody.pre _
  | cons lk rest ih =>
    intro w
    rw [gatherUnlock_snd]
    exact RBody.pre.trans (backendCmd_RBody cfg b (.unlock lk) trivial w) (ih _)

theorem rollbackOne_RBody (cfg : Cfg) (t : TxB) : Rel RBody (rollbackOne cfg t) :=
  Rel.tryFinally RBody.pre (Rel.pure RBody.pre _) (gatherUnlock_RBody _ _ _)

theorem rollbackList_RBody (cfg : Cfg) (ts : List TxB) (w : FWorld) : RBody w (rollbackList cfg ts w).2 := by
  induction ts generalizing w with
  | nil => exact RBody.pre.refl w
  | cons t rest ih =>
    rcases rollbackList_snd cfg t rest w with h | ⟨h, _⟩ <;> rw [h]
    · exact RBody.pre.trans (rollbackOne_RBody cfg t w) (ih _)
    · exact rollbackOne_RBody cfg t w

theorem txRollback_RBody (cfg : Cfg) (ts : List TxB) : Rel RBody (txRollback cfg ts) := by
  intro w
  rw [txRollback_snd]
  exact rollbackList_RBody cfg ts w

theorem close_RBody : Rel RBody close := Rel.modW _ fun _ => RBody.same rfl rfl rfl

/-- leaving the block after a failed body: rollback, then `close()` -/
theorem aexit_exc_RBody (cfg : Cfg) : Rel RBody (aexit cfg true) := by
  intro w
  unfold aexit
  split
  · exact RBody.pre.refl w
  · exact Rel.tryFinally RBody.pre (txRollback_RBody _ _) close_RBody w

/-! ### `Clean`: a computation that returned normally met no failing command -/

def Res.isOk {α} : Res α → Bool
  | .ok _ => true
  | .err _ => false

def Clean (cfg : Cfg) {α} (m : M α) : Prop :=
  ∀ w, w.counter ≤ (m w).2.counter ∧
    ((m w).1.isOk = true → ∀ i, w.counter ≤ i → i < (m w).2.counter → cfg.fails i = false)

namespace Clean
variable {cfg : Cfg} {α β : Type}

theorem pure (a : α) : Clean cfg (M.pure a) := fun w => ⟨Nat.le_refl _, fun _ i h1 h2 => by
  simp only [M.pure] at h2; omega⟩

theorem throw (e : Err) : Clean cfg (throw e : M α) := fun w => ⟨Nat.le_refl _, fun h => by
  simp [TxFault.throw, Res.isOk] at h⟩

theorem getW : Clean cfg getW := fun w => ⟨Nat.le_refl _, fun _ i h1 h2 => by
  simp only [TxFault.getW] at h2; omega⟩

theorem modW (f : FWorld → FWorld) (hf : ∀ w, (f w).counter = w.counter) : Clean cfg (modW f) := fun w =>
  ⟨by simp [TxFault.modW, hf], fun _ i h1 h2 => by simp only [TxFault.modW, hf] at h2; omega⟩

theorem bind {m : M α} {f : α → M β} (hm : Clean cfg m) (hf : ∀ a, Clean cfg (f a)) : Clean cfg (M.bind m f) := by
  intro w
  have h1 := hm w
  unfold M.bind
  cases hmw : m w with
  | mk r w1 =>
    rw [hmw] at h1
    cases r with
    | err e => exact ⟨h1.1, fun h => by simp [Res.isOk] at h⟩
    | ok a =>
      have h2 := hf a w1
      simp only at h1 h2 ⊢
      refine ⟨Nat.le_trans h1.1 h2.1, fun hok i hi1 hi2 => ?_⟩
      by_cases hlt : i < w1.counter
      · exact h1.2 rfl i hi1 hlt
      · exact h2.2 hok i (by omega) hi2

theorem backendCmd (b : Nat) (c : BCmd) : Clean cfg (backendCmd cfg b c) := by
  intro w
  cases hf : cfg.fails w.counter
  · rw [backendCmd_ok cfg b c w hf]
    refine ⟨by simp [applyCmd_counter, logged], fun _ i h1 h2 => ?_⟩
    simp only [applyCmd_counter, logged] at h2
    have : i = w.counter := by omega
    subst this; exact hf
  · rw [backendCmd_fail cfg b c w hf]
    exact ⟨by simp [logged], fun h => by simp [Res.isOk] at h⟩

end Clean

/-- structural steps of a `Clean` proof -/
macro "clean_steps" : tactic => `(tactic| repeat' (first
  | exact Clean.pure _ | exact Clean.throw _ | exact Clean.getW | exact Clean.backendCmd _ _
  | exact Clean.modW _ (fun _ => rfl)
  | refine Clean.bind ?_ (fun _ => ?_) | split))

theorem modB_Clean (cfg : Cfg) (b : Nat) (f : TxB → TxB) : Clean cfg (modB b f) := Clean.modW _ fun _ => rfl

theorem lockLoop_Clean (cfg : Cfg) (b lk : Nat) (n : Nat) : Clean cfg (lockLoop cfg b lk n) := by
  induction n with
  | zero => exact Clean.throw _
  | succ n ih =>
    unfold lockLoop
    simp only [bind_eq]
    clean_steps
    all_goals first | exact modB_Clean _ _ _ | exact ih

theorem lockUpdates_Clean (cfg : Cfg) (b k : Nat) : Clean cfg (lockUpdates cfg b k) := by
  unfold lockUpdates
  simp only [bind_eq, pure_eq]
  clean_steps
  exact lockLoop_Clean _ _ _ _

theorem incrSeed_Clean (cfg : Cfg) (b k : Nat) : Clean cfg (incrSeed cfg b k) := by
  unfold incrSeed
  simp only [bind_eq, pure_eq]
  clean_steps
  all_goals exact modB_Clean _ _ _

theorem txSet_Clean (cfg : Cfg) (b k : Nat) (v : Int) (ttl : Option Nat) : Clean cfg (txSet cfg b k v ttl) := by
  unfold txSet wrap
  simp only [bind_eq, pure_eq]
  clean_steps
  all_goals first | exact modB_Clean _ _ _ | exact lockUpdates_Clean _ _ _

theorem txIncr_Clean (cfg : Cfg) (b k : Nat) (ttl : Option Nat) : Clean cfg (txIncr cfg b k ttl) := by
  unfold txIncr wrap
  simp only [bind_eq, pure_eq]
  clean_steps
  all_goals first | exact modB_Clean _ _ _ | exact lockUpdates_Clean _ _ _ | exact incrSeed_Clean _ _ _

theorem txGet_Clean (cfg : Cfg) (b k : Nat) : Clean cfg (txGet cfg b k) := by
  unfold txGet wrap
  simp only [bind_eq, pure_eq]
  clean_steps
  all_goals exact modB_Clean _ _ _

theorem txDelete_Clean (cfg : Cfg) (b k : Nat) : Clean cfg (txDelete cfg b k) := by
  unfold txDelete wrap
  simp only [bind_eq, pure_eq]
  clean_steps
  all_goals first | exact modB_Clean _ _ _ | exact lockUpdates_Clean _ _ _

theorem lockAll_Clean (cfg : Cfg) (b : Nat) (ks : List Nat) : Clean cfg (lockAll cfg b ks) := by
  induction ks with
  | nil => exact Clean.pure _
  | cons k rest ih =>
    unfold lockAll
    simp only [bind_eq]
    exact Clean.bind (lockUpdates_Clean _ _ _) fun _ => ih

theorem txSetMany_Clean (cfg : Cfg) (b : Nat) (kvs : List (Nat × Int)) (ttl : Option Nat) :
    Clean cfg (txSetMany cfg b kvs ttl) := by
  unfold txSetMany wrap
  simp only [bind_eq, pure_eq]
  clean_steps
  all_goals first | exact modB_Clean _ _ _ | exact lockAll_Clean _ _ _

theorem txDelMany_Clean (cfg : Cfg) (b : Nat) (ks : List Nat) : Clean cfg (txDelMany cfg b ks) := by
  unfold txDelMany wrap
  simp only [bind_eq, pure_eq]
  clean_steps
  all_goals first | exact modB_Clean _ _ _ | exact lockAll_Clean _ _ _

theorem txExists_Clean (cfg : Cfg) (b k : Nat) : Clean cfg (txExists cfg b k) := by
  unfold txExists
  simp only [bind_eq, pure_eq]
  clean_steps
  all_goals exact modB_Clean _ _ _

theorem txSetIf_Clean (cfg : Cfg) (b k : Nat) (v : Int) (ttl : Option Nat) (ex : Bool) :
    Clean cfg (txSetIf cfg b k v ttl ex) := by
  unfold txSetIf wrap
  simp only [bind_eq, pure_eq]
  clean_steps
  all_goals first | exact modB_Clean _ _ _ | exact lockUpdates_Clean _ _ _ | exact txExists_Clean _ _ _

theorem txExpire_Clean (cfg : Cfg) (b k ttl : Nat) : Clean cfg (txExpire cfg b k ttl) := by
  unfold txExpire wrap
  simp only [bind_eq, pure_eq]
  clean_steps
  all_goals first | exact modB_Clean _ _ _ | exact lockUpdates_Clean _ _ _

theorem emit_Clean (cfg : Cfg) (r : Reply) : Clean cfg (emit r) := Clean.modW _ fun _ => rfl

theorem bodyStep_Clean (cfg : Cfg) (c : BodyCmd) : Clean cfg (bodyStep cfg c) := by
  cases c <;> unfold bodyStep <;> simp only [bind_eq]
  · exact Clean.bind (txSet_Clean _ _ _ _ _) fun _ => emit_Clean _ _
  · exact Clean.bind (txIncr_Clean _ _ _ _) fun _ => emit_Clean _ _
  · exact Clean.bind (txGet_Clean _ _ _) fun _ => emit_Clean _ _
  · exact Clean.bind (txDelete_Clean _ _ _) fun _ => emit_Clean _ _
  · exact Clean.modW _ fun _ => rfl
  · exact Clean.throw _
  · exact Clean.bind (txSetMany_Clean _ _ _ _) fun _ => emit_Clean _ _
  · exact Clean.bind (txDelMany_Clean _ _ _) fun _ => emit_Clean _ _
  · exact Clean.bind (txExpire_Clean _ _ _ _) fun _ => emit_Clean _ _
  · exact Clean.bind (txSetIf_Clean _ _ _ _ _ _) fun _ => emit_Clean _ _

theorem runBody_Clean (cfg : Cfg) (body : List BodyCmd) : Clean cfg (runBody cfg body) := by
  induction body with
  | nil => exact Clean.pure _
  | cons c rest ih => exact Clean.bind (bodyStep_Clean cfg c) fun _ => ih

/-! `Clean` on the way out: a commit / rollback that returned normally met no failing command either -/

theorem Clean.tryFinally {cfg : Cfg} {α} {m : M α} {fin : M Unit} (hm : Clean cfg m) (hf : Clean cfg fin) :
    Clean cfg (tryFinally m fin) := by
  intro w
  have h1 := hm w
  unfold TxFault.tryFinally
  generalize m w = p at h1
  obtain ⟨r, w1⟩ := p
  have h2 := hf w1
  simp only at h1 h2 ⊢
  generalize fin w1 = q at h2
  obtain ⟨r2, w2⟩ := q
  cases r2 with
  | err e => exact ⟨Nat.le_trans h1.1 h2.1, fun h => by simp [Res.isOk] at h⟩
  | ok u =>
    simp only at h2 ⊢
    refine ⟨Nat.le_trans h1.1 h2.1, fun hok i hi1 hi2 => ?_⟩
    by_cases hlt : i < w1.counter
    · exact h1.2 hok i hi1 hlt
    · exact h2.2 rfl i (by omega) hi2

theorem gatherUnlock_Clean (cfg : Cfg) (b : Nat) (ls : List Nat) : Clean cfg (gatherUnlock cfg b ls) := by
  induction ls with
  | nil => exact Clean.pure _
  | cons lk rest ih =>
    intro w
    simp only [gatherUnlock]
    have h1 := Clean.backendCmd (cfg := cfg) b (.unlock lk) w
    generalize backendCmd cfg b (.unlock lk) w = p at h1
    obtain ⟨r, w1⟩ := p
    have h2 := ih w1
    simp only at h1 h2 ⊢
    generalize gatherUnlock cfg b rest w1 = q at h2
    obtain ⟨r2, w2⟩ := q
    cases r with
    | err e => exact ⟨Nat.le_trans h1.1 h2.1, fun h => by simp [Res.isOk] at h⟩
    | ok a =>
      simp only at h2 ⊢
      refine ⟨Nat.le_trans h1.1 h2.1, fun hok i hi1 hi2 => ?_⟩
      by_cases hlt : i < w1.counter
      · exact h1.2 rfl i hi1 hlt
      · exact h2.2 hok i (by omega) hi2

theorem runCmds_Clean (cfg : Cfg) (b : Nat) (cs : List BCmd) : Clean cfg (runCmds cfg b cs) := by
  induction cs with
  | nil => exact Clean.pure _
  | cons c rest ih =>
    unfold runCmds
    simp only [bind_eq]
    exact Clean.bind (Clean.backendCmd _ _) fun _ => ih

theorem baseCommit_Clean (cfg : Cfg) (t : TxB) : Clean cfg (baseCommit cfg t) := by
  unfold baseCommit
  simp only [bind_eq]
  exact Clean.bind Clean.getW fun _ => runCmds_Clean _ _ _

theorem commitOne_Clean (cfg : Cfg) (t : TxB) : Clean cfg (commitOne cfg t) :=
  Clean.tryFinally (baseCommit_Clean cfg t) (gatherUnlock_Clean _ _ _)

theorem rollbackOne_Clean (cfg : Cfg) (t : TxB) : Clean cfg (rollbackOne cfg t) :=
  Clean.tryFinally (Clean.pure _) (gatherUnlock_Clean _ _ _)

/-- `_rollback` returns no error only if no command of it failed -/
theorem rollbackList_clean (cfg : Cfg) (ts : List TxB) (w : FWorld) :
    w.counter ≤ (rollbackList cfg ts w).2.counter ∧
    ((rollbackList cfg ts w).1 = .ok none → ∀ i, w.counter ≤ i → i < (rollbackList cfg ts w).2.counter → cfg.fails i = false) := by
  induction ts generalizing w with
  | nil => exact ⟨Nat.le_refl _, fun _ i h1 h2 => by simp only [rollbackList] at h2; omega⟩
  | cons t rest ih =>
    simp only [rollbackList]
    have h1 := rollbackOne_Clean cfg t w
    generalize rollbackOne cfg t w = p at h1
    obtain ⟨r, w1⟩ := p
    have h2 := ih w1
    simp only at h1 h2 ⊢
    cases r with
    | err e =>
      simp only
      cases e.isBase with
      | true =>
        simp only [if_true]
        cases cfg.rbAll with
        | true => exact ⟨Nat.le_trans h1.1 h2.1, fun h => by simp at h⟩
        | false => exact ⟨h1.1, fun h => by simp at h⟩
      | false =>
        simp only [Bool.false_eq_true, if_false]
        generalize rollbackList cfg rest w1 = q at h2
        obtain ⟨r2, w2⟩ := q
        cases r2 <;> exact ⟨Nat.le_trans h1.1 h2.1, fun h => by simp at h⟩
    | ok a =>
      simp only at h2 ⊢
      refine ⟨Nat.le_trans h1.1 h2.1, fun hnone i hi1 hi2 => ?_⟩
      by_cases hlt : i < w1.counter
      · exact h1.2 rfl i hi1 hlt
      · exact h2.2 hnone i (by omega) hi2

theorem txRollback_Clean (cfg : Cfg) (ts : List TxB) : Clean cfg (txRollback cfg ts) := by
  intro w
  unfold txRollback
  have h := rollbackList_clean cfg ts w
  generalize rollbackList cfg ts w = p at h
  obtain ⟨r, w1⟩ := p
  cases r with
  | err e => exact ⟨h.1, fun h' => by simp [Res.isOk] at h'⟩
  | ok e =>
    cases e with
    | some e => exact ⟨h.1, fun h' => by simp [Res.isOk] at h'⟩
    | none => exact ⟨h.1, fun _ => h.2 rfl⟩

theorem commitLoop_Clean (cfg : Cfg) (ts : List TxB) : Clean cfg (commitLoop cfg ts) := by
  induction ts with
  | nil => exact Clean.pure _
  | cons t rest ih =>
    intro w
    simp only [commitLoop]
    have h1 := commitOne_Clean cfg t w
    generalize commitOne cfg t w = p at h1
    obtain ⟨r, w1⟩ := p
    cases r with
    | err e =>
      simp only at h1 ⊢
      have h3 := (rollbackList_clean cfg rest w1).1
      generalize rollbackList cfg rest w1 = q at h3
      obtain ⟨r2, w2⟩ := q
      cases r2 <;> exact ⟨Nat.le_trans h1.1 h3, fun h => by simp [Res.isOk] at h⟩
    | ok a =>
      have h2 := ih w1
      simp only at h1 h2 ⊢
      refine ⟨Nat.le_trans h1.1 h2.1, fun hok i hi1 hi2 => ?_⟩
      by_cases hlt : i < w1.counter
      · exact h1.2 rfl i hi1 hlt
      · exact h2.2 hok i (by omega) hi2

theorem close_Clean (cfg : Cfg) : Clean cfg close := Clean.modW _ fun _ => rfl

theorem aexit_Clean (cfg : Cfg) (exc : Bool) : Clean cfg (aexit cfg exc) := by
  intro w
  unfold aexit
  split
  · exact ⟨Nat.le_refl _, fun _ i h1 h2 => by simp only at h2; omega⟩
  · cases exc
    · exact Clean.tryFinally (commitLoop_Clean cfg _) (close_Clean cfg) w
    · exact Clean.tryFinally (txRollback_Clean cfg _) (close_Clean cfg) w

/-- where the block leaves the world: the body's world, then `__aexit__` with `exc_tb` set iff the body raised -/
theorem runBlock_world (cfg : Cfg) (body : List BodyCmd) (w : FWorld) (h : w.ctx = none) :
    (runBlock cfg body w).2 =
      (aexit cfg (!(runBody cfg body (entered w)).1.isOk) (runBody cfg body (entered w)).2).2 := by
  unfold runBlock
  simp only [h]
  generalize runBody cfg body (entered w) = p
  obtain ⟨r, w2⟩ := p
  cases r with
  | ok a => rfl
  | err e =>
    simp only [Res.isOk, Bool.not_false]
    generalize aexit cfg true w2 = q
    obtain ⟨r', w3⟩ := q
    cases r' <;> rfl

end CashewsVerif.TxFault
