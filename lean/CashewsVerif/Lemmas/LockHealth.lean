import CashewsVerif.Lemmas.LockInv
/-
C06 — what the health of the configured backends and the transactions of the threads can and cannot do
to the lock protocol (`Model/Lock.lean`).

* routing is fixed, health changes only by `setHealth`;
* as long as the backend that OWNS a key is healthy (SET_LOCK enabled, PING answered) nobody is ever in
  the section of that key without a lock (`run_no_unguarded`) - whatever the other backends do;
* the transaction actions touch nothing but the thread's own overlay; the lock actions do not read or
  write any overlay.
-/
namespace CashewsVerif.Lock

variable {σ : Type} {B : LockOps σ}

/-- the action does not make backend `b` unhealthy -/
def Act.keepsHealthy (b : Nat) : Act → Prop
  | .setHealth b' h => b' = b → h = Health.ok
  | _ => True

/-- the parts of the state the lock commands work on -/
structure SameCore (s s' : LockSt σ) : Prop where
  be : s'.be = s.be
  tasks : s'.tasks = s.tasks
  next : s'.next = s.next
  thr : s'.thr = s.thr
  route : s'.route = s.route
  health : s'.health = s.health

theorem attemptCore_route (s : LockSt σ) (t key : Nat) (ttl : Option Nat) (wait : Bool) (tok : Nat)
    (h : Health) : (attemptCore B s t key ttl wait tok h).1.route = s.route := by
  unfold attemptCore
  dsimp only
  cases h.setLock <;> cases h.ping <;> cases wait <;>
    cases (B.setLock s.be key (ownTok tok) ttl).2 <;> rfl

theorem attemptCore_health (s : LockSt σ) (t key : Nat) (ttl : Option Nat) (wait : Bool) (tok : Nat)
    (h : Health) : (attemptCore B s t key ttl wait tok h).1.health = s.health := by
  unfold attemptCore
  dsimp only
  cases h.setLock <;> cases h.ping <;> cases wait <;>
    cases (B.setLock s.be key (ownTok tok) ttl).2 <;> rfl

theorem attemptCore_tx (s : LockSt σ) (t key : Nat) (ttl : Option Nat) (wait : Bool) (tok : Nat)
    (h : Health) : (attemptCore B s t key ttl wait tok h).1.tx = s.tx := by
  unfold attemptCore
  dsimp only
  cases h.setLock <;> cases h.ping <;> cases wait <;>
    cases (B.setLock s.be key (ownTok tok) ttl).2 <;> rfl

/-- routing never changes -/
theorem step_route (s : LockSt σ) (a : Act) : (step B s a).1.route = s.route := by
  cases a with
  | enter t th key ttl wait => simp only [step]; split <;> rfl
  | attempt t =>
    simp only [step]
    split
    · exact attemptCore_route ..
    · rfl
  | leave t how => simp only [step]; split <;> rfl
  | giveUp t => simp only [step]; split <;> rfl
  | tick dt => rfl
  | foreignUnlock key n => rfl
  | probe key => rfl
  | purge => rfl
  | setHealth b h => rfl
  | txBegin th mode => rfl
  | txSet th k v => simp only [step]; split <;> rfl
  | txEnd th c => simp only [step]; split <;> rfl

theorem run_route (s : LockSt σ) (tr : List Act) : (run B s tr).route = s.route := by
  induction tr generalizing s with
  | nil => rfl
  | cons a as ih => simp only [run]; rw [ih, step_route]

/-- the health of a backend changes only by a `setHealth` naming it -/
theorem step_health (s : LockSt σ) (a : Act) (b : Nat) (ha : a.keepsHealthy b)
    (hb : s.health b = Health.ok) : (step B s a).1.health b = Health.ok := by
  cases a with
  | enter t th key ttl wait => simp only [step]; split <;> exact hb
  | attempt t =>
    simp only [step]
    split
    · rw [attemptCore_health]; exact hb
    · exact hb
  | leave t how => simp only [step]; split <;> exact hb
  | giveUp t => simp only [step]; split <;> exact hb
  | tick dt => exact hb
  | foreignUnlock key n => exact hb
  | probe key => exact hb
  | purge => exact hb
  | setHealth b' h =>
    simp only [step]
    by_cases e : b = b'
    · simp only [e, if_true]; exact ha e.symm
    · simp only [e, if_false]; exact hb
  | txBegin th mode => exact hb
  | txSet th k v => simp only [step]; split <;> exact hb
  | txEnd th c => simp only [step]; split <;> exact hb

/-- an attempt puts somebody into a section without a lock only if it is the caller, on its own key, and
one of its two inputs is negative -/
theorem attemptCore_unguarded (s : LockSt σ) (t key : Nat) (ttl : Option Nat) (wait : Bool) (tok : Nat)
    (h : Health) (t' k' : Nat)
    (hc : (attemptCore B s t key ttl wait tok h).1.tasks t' = .unguarded k') :
    s.tasks t' = .unguarded k' ∨ (t' = t ∧ k' = key ∧ (h.setLock = false ∨ h.ping = false)) := by
  obtain ⟨sl, pg⟩ := h
  unfold attemptCore at hc
  dsimp only at hc
  by_cases e : t' = t
  · revert hc
    cases sl <;> cases pg <;> cases wait <;>
      cases (B.setLock s.be key (ownTok tok) ttl).2 <;>
      simp [setTask_tasks, e] <;> (try (intro hk; simp [hk])) <;> (try (intro hk; rw [← e]; exact Or.inl hk))
  · revert hc
    cases sl <;> cases pg <;> cases wait <;>
      cases (B.setLock s.be key (ownTok tok) ttl).2 <;>
      simp [setTask_tasks, e] <;> (intro hk; exact Or.inl hk)

/-- with explicit healthy inputs an attempt never lets the caller in without a lock: it acquires,
retries, or fails with `LockedError` -/
theorem attemptCore_healthy (s : LockSt σ) (t key : Nat) (ttl : Option Nat) (wait : Bool) (tok : Nat) :
    (attemptCore B s t key ttl wait tok Health.ok).2 ≠ .noLocking ∧
    (attemptCore B s t key ttl wait tok Health.ok).2 ≠ .down ∧
    ∀ t' k, (attemptCore B s t key ttl wait tok Health.ok).1.tasks t' = .unguarded k →
      s.tasks t' = .unguarded k := by
  refine ⟨?_, ?_, ?_⟩
  · unfold attemptCore; dsimp only [Health.ok]
    cases wait <;> cases (B.setLock s.be key (ownTok tok) ttl).2 <;> simp
  · unfold attemptCore; dsimp only [Health.ok]
    cases wait <;> cases (B.setLock s.be key (ownTok tok) ttl).2 <;> simp
  · intro t' k hc
    rcases attemptCore_unguarded s t key ttl wait tok Health.ok t' k hc with h | ⟨_, _, h | h⟩
    · exact h
    · simp [Health.ok] at h
    · simp [Health.ok] at h

/-- one step keeps "nobody is in the section of `key` without a lock", provided the owning backend is healthy -/
theorem step_no_unguarded (s : LockSt σ) (a : Act) (key : Nat)
    (hh : s.health (s.route key) = Health.ok)
    (hno : ∀ t, s.tasks t ≠ .unguarded key) :
    ∀ t, (step B s a).1.tasks t ≠ .unguarded key := by
  cases a with
  | enter t th k ttl wait =>
    simp only [step]
    split
    · exact hno
    · intro t'
      show (setTask s t _).tasks t' ≠ _
      simp only [setTask_tasks]
      by_cases e : t' = t
      · simp [e]
      · simp only [e, if_false]; exact hno t'
  | attempt t =>
    simp only [step]
    split
    · rename_i k ttl wait tok hts
      intro t' hc
      rcases attemptCore_unguarded s t k ttl wait tok _ t' key hc with h | ⟨_, ek, h⟩
      · exact hno t' h
      · rw [← ek, hh] at h
        simp [Health.ok] at h
    · exact hno
  | leave t how =>
    simp only [step]
    split
    · intro t'
      simp only [setTask_tasks]
      by_cases e : t' = t
      · simp [e]
      · simp only [e, if_false]; exact hno t'
    · intro t'
      simp only [setTask_tasks]
      by_cases e : t' = t
      · simp [e]
      · simp only [e, if_false]; exact hno t'
    · exact hno
  | giveUp t =>
    simp only [step]
    split
    · intro t'
      simp only [setTask_tasks]
      by_cases e : t' = t
      · simp [e]
      · simp only [e, if_false]; exact hno t'
    · exact hno
  | tick dt => exact hno
  | foreignUnlock k n => exact hno
  | probe k => exact hno
  | purge => exact hno
  | setHealth b h => exact hno
  | txBegin th mode => exact hno
  | txSet th k v => simp only [step]; split <;> exact hno
  | txEnd th c => simp only [step]; split <;> exact hno

/-- along any run in which the backend owning `key` stays healthy, nobody is ever in the section of
`key` without a lock -/
theorem run_no_unguarded (s : LockSt σ) (tr : List Act) (key : Nat)
    (hh : s.health (s.route key) = Health.ok)
    (hacts : ∀ a ∈ tr, a.keepsHealthy (s.route key))
    (hno : ∀ t, s.tasks t ≠ .unguarded key) :
    ∀ t, (run B s tr).tasks t ≠ .unguarded key := by
  induction tr generalizing s with
  | nil => exact hno
  | cons a as ih =>
    simp only [run]
    have hr : (step B s a).1.route = s.route := step_route s a
    apply ih
    · rw [hr]; exact step_health s a _ (hacts a (by simp)) hh
    · intro b hb; rw [hr]; exact hacts b (by simp [hb])
    · exact step_no_unguarded s a key hh hno

theorem run_health (s : LockSt σ) (tr : List Act) (b : Nat)
    (hh : s.health b = Health.ok) (hacts : ∀ a ∈ tr, a.keepsHealthy b) :
    (run B s tr).health b = Health.ok := by
  induction tr generalizing s with
  | nil => exact hh
  | cons a as ih =>
    simp only [run]
    exact ih _ (step_health s a b (hacts a (by simp)) hh) (fun c hc => hacts c (by simp [hc]))

/-! ### transactions -/

/-- the action is one of the lock commands (`set_lock` / `unlock` / `is_locked` and the task-local moves
of `lock()`), time, or the backend's own sweep -/
def Act.isLockCmd : Act → Bool
  | .attempt _ | .leave _ _ | .giveUp _ | .foreignUnlock _ _ | .probe _ | .tick _ | .purge => true
  | _ => false

/-- the action is one of the transaction moves of a thread -/
def Act.isTxAct : Act → Bool
  | .txBegin _ _ | .txSet _ _ _ | .txEnd _ _ => true
  | _ => false

/-- the same state with other transactions -/
def withTx (s : LockSt σ) (x : Nat → Option TxCtx) : LockSt σ := { s with tx := x }

theorem attemptCore_withTx (s : LockSt σ) (x : Nat → Option TxCtx) (t key : Nat) (ttl : Option Nat)
    (wait : Bool) (tok : Nat) (h : Health) :
    attemptCore B (withTx s x) t key ttl wait tok h =
      (withTx (attemptCore B s t key ttl wait tok h).1 x, (attemptCore B s t key ttl wait tok h).2) := by
  unfold attemptCore withTx
  dsimp only
  cases h.setLock <;> cases h.ping <;> cases wait <;>
    cases (B.setLock s.be key (ownTok tok) ttl).2 <;> rfl

/-- every action that is not a transaction move - in particular every lock command - computes the same
thing whatever transactions are open, and leaves them as they are -/
theorem step_withTx (s : LockSt σ) (x : Nat → Option TxCtx) (a : Act) (ha : a.isTxAct = false) :
    step B (withTx s x) a = (withTx (step B s a).1 x, (step B s a).2) := by
  cases a with
  | attempt t =>
    have e : (withTx s x).tasks t = s.tasks t := rfl
    simp only [step, e]
    cases s.tasks t with
    | trying key ttl wait tok => exact attemptCore_withTx ..
    | _ => rfl
  | leave t how =>
    have e : (withTx s x).tasks t = s.tasks t := rfl
    simp only [step, e]
    cases s.tasks t <;> rfl
  | giveUp t =>
    have e : (withTx s x).tasks t = s.tasks t := rfl
    simp only [step, e]
    cases s.tasks t <;> rfl
  | tick dt => rfl
  | foreignUnlock key n => rfl
  | probe key => rfl
  | purge => rfl
  | enter t th key ttl wait =>
    have e : (withTx s x).tasks t = s.tasks t := rfl
    simp only [step, e]
    cases (s.tasks t).busy <;> rfl
  | setHealth b h => rfl
  | txBegin th mode => simp [Act.isTxAct] at ha
  | txSet th k v => simp [Act.isTxAct] at ha
  | txEnd th c => simp [Act.isTxAct] at ha

/-- a transaction move changes nothing the lock commands work on, and only the mover's own transaction -/
theorem step_txAct (s : LockSt σ) (a : Act) (ha : a.isTxAct = true) :
    SameCore s (step B s a).1 := by
  cases a with
  | txBegin th mode => exact ⟨rfl, rfl, rfl, rfl, rfl, rfl⟩
  | txSet th k v => simp only [step]; split <;> exact ⟨rfl, rfl, rfl, rfl, rfl, rfl⟩
  | txEnd th c => simp only [step]; split <;> exact ⟨rfl, rfl, rfl, rfl, rfl, rfl⟩
  | enter t th key ttl wait => simp [Act.isTxAct] at ha
  | attempt t => simp [Act.isTxAct] at ha
  | leave t how => simp [Act.isTxAct] at ha
  | giveUp t => simp [Act.isTxAct] at ha
  | tick dt => simp [Act.isTxAct] at ha
  | foreignUnlock key n => simp [Act.isTxAct] at ha
  | probe key => simp [Act.isTxAct] at ha
  | purge => simp [Act.isTxAct] at ha
  | setHealth b h => simp [Act.isTxAct] at ha

theorem sameCore_eq {s s' : LockSt σ} (h : SameCore s s') : s' = withTx s s'.tx := by
  obtain ⟨h1, h2, h3, h4, h5, h6⟩ := h
  cases s; cases s'
  simp only at h1 h2 h3 h4 h5 h6
  simp [withTx, h1, h2, h3, h4, h5, h6]

/-- the trace without the transaction moves -/
def eraseTx : List Act → List Act := List.filter fun a => !a.isTxAct

/-- running a trace from a state with any transactions open = running the trace without its transaction
moves, as far as everything but the transactions is concerned -/
theorem run_eraseTx (s : LockSt σ) (x : Nat → Option TxCtx) (tr : List Act) :
    ∃ x', run B (withTx s x) tr = withTx (run B s (eraseTx tr)) x' := by
  induction tr generalizing s x with
  | nil => exact ⟨x, rfl⟩
  | cons a as ih =>
    by_cases ha : a.isTxAct = true
    · have hc := step_txAct (B := B) (withTx s x) a ha
      have he := sameCore_eq hc
      have : eraseTx (a :: as) = eraseTx as := by simp [eraseTx, ha]
      rw [this]
      simp only [run]
      rw [he]
      exact ih s _
    · have ha' : a.isTxAct = false := by simpa using ha
      have : eraseTx (a :: as) = a :: eraseTx as := by simp [eraseTx, ha']
      rw [this]
      simp only [run]
      rw [step_withTx s x a ha']
      exact ih _ x

/-- an action other than `setHealth` leaves the health of every backend as it is -/
theorem step_health_eq (s : LockSt σ) (a : Act) (ha : ∀ b h, a ≠ .setHealth b h) :
    (step B s a).1.health = s.health := by
  cases a with
  | enter t th key ttl wait => simp only [step]; split <;> rfl
  | attempt t =>
    simp only [step]
    split
    · exact attemptCore_health ..
    · rfl
  | leave t how => simp only [step]; split <;> rfl
  | giveUp t => simp only [step]; split <;> rfl
  | tick dt => rfl
  | foreignUnlock key n => rfl
  | probe key => rfl
  | purge => rfl
  | setHealth b h => exact absurd rfl (ha b h)
  | txBegin th mode => rfl
  | txSet th k v => simp only [step]; split <;> rfl
  | txEnd th c => simp only [step]; split <;> rfl

theorem run_snoc (s : LockSt σ) (tr : List Act) (a : Act) :
    run B s (tr ++ [a]) = (step B (run B s tr) a).1 := by
  induction tr generalizing s with
  | nil => rfl
  | cons b bs ih => simp only [List.cons_append, run]; exact ih _

end CashewsVerif.Lock
