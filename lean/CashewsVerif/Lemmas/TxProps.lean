import CashewsVerif.Lemmas.TxMain
/- Glue between the layers, in the shape the property theorems of C03 / C04 need. -/
namespace CashewsVerif
open Store

/-- the standing assumptions of a single-task transaction over the key universe `K`: the store holds
distinct keys of `K`, `K` fits the capacities (no eviction: C11's business), no foreign lock is live,
and every command is a transaction command over user keys of `K` whose lock keys are in `K` too -/
structure TxSetup (K : List Key) (b : Mem) (ops : List Op) : Prop where
  within : b.Within K
  fits   : K.length ≤ b.cap
  fitsOv : K.length ≤ TxSt.overlaySize
  free   : ∀ k, reserved k = true → b.view k = none
  ops    : ∀ op ∈ ops, OpOk K op

theorem TxSetup.hist {K b ops} (h : TxSetup K b ops) : ∀ op ∈ ops, ∀ k ∈ op.keys, k ∈ K :=
  fun op hop k hk => ((h.ops op hop).1 k hk).1

theorem TxSetup.good {K b ops} (h : TxSetup K b ops) : Good K b b.toTtl := ⟨b.refines_toTtl, h.within, h.fits⟩

theorem TxSetup.prefix {K b ops ops'} (h : TxSetup K b (ops ++ ops')) : TxSetup K b ops :=
  ⟨h.within, h.fits, h.fitsOv, h.free, fun op hop => h.ops op (by simp [hop])⟩

theorem ttlsOk_true (ops : List Op) : ∀ now, TtlsOk (fun _ => True) now ops := by
  induction ops with
  | nil => intro _; trivial
  | cons op ops ih => intro now; exact ⟨fun _ _ => trivial, ih _⟩

theorem ttlsOk_of_assigned {T : Time} (ops : List Op) : ∀ now, assignedOk T now ops = true →
    TtlsOk (fun dl => dlAfter T dl = true) now ops := by
  induction ops with
  | nil => intro _ _; trivial
  | cons op ops ih =>
    intro now h
    simp only [assignedOk, Bool.and_eq_true, List.all_eq_true] at h
    exact ⟨h.1, ih _ h.2⟩

/-- reachable transaction states, any mode, related to the abstract run (no proviso needed) -/
theorem reach {K b ops} (h : TxSetup K b ops) (mode : TxMode) (id timeout : Nat) :
    ∃ tb, TxRef K (fun _ => True) ((TxSt.begin_ b mode id timeout).run ops).1 ((ATx.begin_ b.toTtl).run ops).1 tb ∧
      ((TxSt.begin_ b mode id timeout).run ops).2 = ((ATx.begin_ b.toTtl).run ops).2 :=
  TxSt.run_refines trivial ops (TxSt.begin_refines h.within h.fits h.fitsOv h.free mode id timeout)
    (ATx.wf_begin _) h.ops (ttlsOk_true ops _)

/-- the same under the proviso: additionally every overlay deadline lies beyond the end of the block -/
theorem reachNdc {K b ops} (h : TxSetup K b ops) (hn : NoDeadlineCrossed b ops = true) (mode : TxMode) (id timeout : Nat) :
    ∃ tb, TxRef K (fun dl => dlAfter (endTime b.now ops) dl = true) ((TxSt.begin_ b mode id timeout).run ops).1
        ((ATx.begin_ b.toTtl).run ops).1 tb ∧
      ((TxSt.begin_ b mode id timeout).run ops).2 = ((ATx.begin_ b.toTtl).run ops).2 := by
  have hn' := hn
  simp only [NoDeadlineCrossed, Bool.and_eq_true] at hn'
  exact TxSt.run_refines (by rfl) ops (TxSt.begin_refines h.within h.fits h.fitsOv h.free mode id timeout)
    (ATx.wf_begin _) h.ops (ttlsOk_of_assigned ops _ hn'.2)

theorem wfReach {K b ops} (h : TxSetup K b ops) : ((ATx.begin_ b.toTtl).run ops).1.Wf :=
  ATx.wf_run ops (ATx.wf_begin _) (fun op hop => TxSt.opOk_user (h.ops op hop))

theorem simReach {K b ops} (h : TxSetup K b ops) (hn : NoDeadlineCrossed b ops = true) :
    Sim (endTime b.now ops) ((ATx.begin_ b.toTtl).run ops).1 (b.toTtl.run ops).1 ∧
    obsAll ops ((ATx.begin_ b.toTtl).run ops).2 = obsAll ops (b.toTtl.run ops).2 := by
  have hn' := hn
  simp only [NoDeadlineCrossed, Bool.and_eq_true] at hn'
  exact sim_run ops (sim_begin hn) (fun op hop => (h.ops op hop).2.2) hn'.2 (Nat.le_refl _)

/-- direct execution on the store and on its ideal map -/
theorem directReach {K b ops} (h : TxSetup K b ops) :
    Good K (b.run ops).1 (b.toTtl.run ops).1 ∧ (b.run ops).2 = (b.toTtl.run ops).2 :=
  Mem.good_run ops h.good h.hist

theorem view_toTtl_now (b : Mem) (x : Time) (k : Key) :
    ({ b.toTtl with now := x } : TtlMap).find k = ({ b with now := x } : Mem).view k := by
  rw [TtlMap.find_eq]; rfl

/-- the final time of the abstract run -/
theorem abs_b_run {K b ops} (h : TxSetup K b ops) :
    ((ATx.begin_ b.toTtl).run ops).1.b = { b.toTtl with now := endTime b.now ops } :=
  ATx.run_b ops _ (fun op hop => (h.ops op hop).2.2)

/-- every clock of a reachable transaction state shows the end time of the commands run so far -/
theorem now_of_ref {K : List Key} {P : Option Time → Prop} {st : TxSt} {tb : TtlMap} {b : Mem} {ops : List Op}
    (hs : TxSetup K b ops) (href : TxRef K P st ((ATx.begin_ b.toTtl).run ops).1 tb) :
    st.ov.now = endTime b.now ops ∧ st.b.now = endTime b.now ops ∧ tb.now = endTime b.now ops := by
  obtain ⟨c1, c2, _⟩ := TxSt.clocks href (wfReach hs)
  have h3 : tb.now = endTime b.now ops := by
    have := href.bnow; rw [abs_b_run hs] at this; exact this
  exact ⟨c1.trans h3, c2.trans h3, h3⟩

/-- the commands that are not writes leave the ideal map alone -/
theorem TtlMap.run_writesOf (ops : List Op) : ∀ t : TtlMap, (∀ op ∈ ops, op.isTxOp = true) →
    (t.run (writesOf ops)).1 = (t.run ops).1 := by
  induction ops with
  | nil => intro t _; rfl
  | cons op ops ih =>
    intro t h
    have ih' := fun t => ih t (fun op' h' => h op' (by simp [h']))
    have htx := h op (by simp)
    cases op <;> simp only [writesOf, List.filter_cons, Op.isWrite, if_true, TtlMap.run, Bool.false_eq_true, if_false] <;>
      first
      | (exact ih' _)
      | (simp [Op.isTxOp] at htx)

theorem commitAt_vals {T : Time} {a : ATx} {t : TtlMap} (h : Sim T a t) (k : Key) :
    (a.commitAt k).map (·.val) = (t.find k).map (·.val) := by
  rw [← h.vals' k]
  unfold ATx.commitAt ATx.view
  cases ho : a.ov.find k with
  | some e => simp [h.notDel_of_ov ho]
  | none => by_cases hd : k ∈ a.del <;> simp [hd]

/-- under the proviso no overlay entry has expired when the block ends -/
theorem expired_nil_of_fresh {K : List Key} {T : Time} {st : TxSt} {a : ATx} {tb : TtlMap}
    (h : TxRef K (fun dl => dlAfter T dl = true) st a tb) (hle : st.b.now ≤ T) :
    TxSt.expiredKeys st.b.now st.ov.store = [] := by
  apply TxSt.expiredKeys_nil
  intro ke hke
  have := (h.fresh ke hke).2
  unfold Entry.live
  cases hd : ke.2.dl with
  | none => rfl
  | some d => rw [hd] at this; simp [dlAfter] at this ⊢; omega

theorem commitAt_nil_del (a : ATx) : ({ a with del := a.del ++ [] } : ATx) = a := by simp

end CashewsVerif
