import CashewsVerif.Lemmas.MemStep
import CashewsVerif.Spec.TxSpec
/- Facts about the ideal `TtlMap` used by the transaction proofs: what `find` sees after a write,
a removal, an increment, a time advance. -/
namespace CashewsVerif
namespace TtlMap

/-- the deadline `write` stores -/
def writeDl (t : TtlMap) (k : Key) (ttl : Option Nat) : Option Time :=
  match deadlineOf t.now ttl with
  | some d => some d
  | none => (t.find k).bind (·.dl)

theorem deadlineOf_gt {now : Time} {ttl : Option Nat} {d : Time} (h : deadlineOf now ttl = some d) : now < d := by
  unfold deadlineOf at h
  split at h <;> simp at h
  omega

theorem find_live {t : TtlMap} {k : Key} {e : Entry} (h : t.find k = some e) : e.live t.now = true := by
  rw [find_eq] at h
  cases hm : t.m k with
  | none => simp [hm] at h
  | some e' =>
    by_cases hl : e'.live t.now
    · simp [hm, Option.filter, hl] at h; subst h; exact hl
    · simp [hm, Option.filter, hl] at h

theorem writeDl_live (t : TtlMap) (k : Key) (v : Val) (ttl : Option Nat) :
    (⟨v, t.writeDl k ttl⟩ : Entry).live t.now = true := by
  unfold writeDl Entry.live
  cases hd : deadlineOf t.now ttl with
  | some d => simpa using deadlineOf_gt hd
  | none =>
    cases hf : t.find k with
    | none => simp
    | some e =>
      have := find_live hf
      cases hdl : e.dl with
      | none => simp [hdl]
      | some d => simpa [Entry.live, hdl] using this

@[simp] theorem write_now (t : TtlMap) (k : Key) (v : Val) (ttl : Option Nat) : (t.write k v ttl).now = t.now := rfl
@[simp] theorem remove_now (t : TtlMap) (k : Key) : (t.remove k).now = t.now := rfl

theorem find_write (t : TtlMap) (k k' : Key) (v : Val) (ttl : Option Nat) :
    (t.write k v ttl).find k' = if k' = k then some ⟨v, t.writeDl k ttl⟩ else t.find k' := by
  by_cases h : k' = k
  · subst h
    have hl := writeDl_live t k' v ttl
    simp only [if_true]
    rw [find_eq]
    show Option.filter (·.live t.now) (if k' = k' then some ⟨v, t.writeDl k' ttl⟩ else t.m k') = _
    simp [Option.filter, hl]
  · simp only [h, if_false]
    rw [find_eq, find_eq]
    show Option.filter (·.live t.now) (if k' = k then _ else t.m k') = _
    simp [h]

theorem find_remove (t : TtlMap) (k k' : Key) :
    (t.remove k).find k' = if k' = k then none else t.find k' := by
  rw [find_eq, find_eq]
  show Option.filter (·.live t.now) (if k' = k then none else t.m k') = _
  by_cases h : k' = k <;> simp [h]

theorem find_adv (t : TtlMap) (dt : Nat) (k : Key) :
    ({ t with now := t.now + dt } : TtlMap).find k = (t.find k).filter (·.live (t.now + dt)) := by
  rw [find_eq, find_eq]
  exact Mem.filter_live_adv (t.m k) t.now dt

theorem roundTicks_nonneg (d : Nat) : 0 ≤ roundTicks d := by
  unfold roundTicks
  simp only
  split
  · omega
  · split
    · omega
    · split <;> omega

theorem getExpire_missing (t : TtlMap) (k : Key) : t.getExpire k = -2 ↔ t.find k = none := by
  unfold getExpire
  cases hf : t.find k with
  | none => simp
  | some e =>
    cases hd : e.dl with
    | none => simp [hd]
    | some d =>
      have := roundTicks_nonneg (d - t.now)
      simp only [hd, reduceCtorEq, iff_false]
      omega

theorem getExpire_cases (t : TtlMap) (k : Key) :
    (t.getExpire k = -2 ∧ t.find k = none) ∨
    (t.getExpire k = -1 ∧ ∃ e, t.find k = some e ∧ e.dl = none) ∨
    (0 ≤ t.getExpire k ∧ ∃ e d, t.find k = some e ∧ e.dl = some d) := by
  unfold getExpire
  cases hf : t.find k with
  | none => simp
  | some e =>
    cases hd : e.dl with
    | none => right; left; simp [hd]
    | some d => right; right; simp only [hd]; exact ⟨roundTicks_nonneg _, e, d, rfl, hd⟩

end TtlMap
end CashewsVerif
