import CashewsVerif.Lemmas.Sweep
import CashewsVerif.Lemmas.LruLeaves
/-
A sweep that works from a snapshot of the expired keys, uninterrupted, is the model's `purge` in every
reachable state (the keys of a reachable store are pairwise distinct: Lemmas/LruOrder.lean).
-/
namespace CashewsVerif
open Store

namespace Mem

theorem nodup_reachable (cap : Nat) (ops : List Op) : (keys ((Mem.init cap).run ops).1.store).Nodup := by
  have h : ((Lru.init cap).run ops).1.mem = ((Mem.init cap).run ops).1 := (Lru.run_mem ops (Lru.init cap)).1
  rw [← h]
  exact (Lru.inv_run cap ops).ord.nodup

theorem atomic_stale_history (cap : Nat) (h : List Item) : ∀ pre : List Op,
    ((Mem.init cap).run pre).1.runEv (((Mem.init cap).run pre).1.atomicStaleEvents h)
      = ((Mem.init cap).run pre).1.runItems h := by
  induction h with
  | nil => intro pre; rfl
  | cons it r ih =>
    intro pre
    cases it with
    | cmd op =>
      have hs : (((Mem.init cap).run pre).1.step op).1 = ((Mem.init cap).run (pre ++ [op])).1 := by
        rw [run_append_state]; rfl
      simp only [atomicStaleEvents, runEv, runItems]
      rw [hs, ih (pre ++ [op])]
    | tick =>
      have hs : ((Mem.init cap).run pre).1.purge = ((Mem.init cap).run (pre ++ [.purge])).1 := by
        rw [run_append_state]; rfl
      simp only [atomicStaleEvents, runItems]
      rw [stale_block_eq_purge _ (nodup_reachable cap pre), hs]
      exact ih (pre ++ [.purge])

end Mem
end CashewsVerif
