import CashewsVerif.Lemmas.Bits
import CashewsVerif.Model.Bloom
/-
Helper lemmas for C18 (Bloom filter): adding an element sets exactly its bits; set bits stay set.
-/
namespace CashewsVerif.Bloom
open CashewsVerif.Bits

theorem incrBits_fst (w : Nat) (by_ : Int) (idxs : List Nat) :
    ∀ (a : Nat) (acc : List Nat),
      (idxs.foldl (fun (s : Nat × List Nat) i =>
        let a' := incr s.1 i w by_
        (a', s.2 ++ [get a' i w])) (a, acc)).1 = idxs.foldl (fun a i => incr a i w by_) a := by
  induction idxs with
  | nil => intros; rfl
  | cons i rest ih => intro a acc; simp only [List.foldl_cons]; exact ih _ _

theorem addBits_eq (a : Nat) (idxs : List Nat) :
    addBits a idxs = idxs.foldl (fun a i => incr a i 1 1) a := incrBits_fst 1 1 idxs a []

theorem satAdd_one (x : Nat) : Counters.satAdd 1 x 1 = 1 := by
  unfold Counters.satAdd
  omega

/-- a one-bit field after `incr … by 1` -/
theorem get_incr_one (a i j : Nat) :
    get (incr a i 1 1) j 1 = if i = j then 1 else get a j 1 := by
  rw [get_incr, satAdd_one]

/-- **adding sets exactly the element's bits** -/
theorem get_addBits (idxs : List Nat) : ∀ (a j : Nat),
    get (addBits a idxs) j 1 = if j ∈ idxs then 1 else get a j 1 := by
  intro a j
  rw [addBits_eq]
  induction idxs generalizing a with
  | nil => simp
  | cons i rest ih =>
    simp only [List.foldl_cons]
    rw [ih, get_incr_one]
    by_cases h1 : j ∈ rest
    · simp [h1]
    · by_cases h2 : i = j
      · subst h2; simp
      · have : ¬ j = i := fun h => h2 h.symm
        simp [h1, h2, this]

theorem allSet_iff (a : Nat) (idxs : List Nat) :
    allSet a idxs = true ↔ ∀ i ∈ idxs, get a i 1 ≠ 0 := by
  simp [allSet, getBits]

/-- the filter's bits after a sequence of adds, exactly -/
theorem get_runAdds (adds : List (List Nat × Bool)) : ∀ (a j : Nat),
    get (runAdds a adds) j 1 =
      if ∃ p ∈ adds, p.2 = true ∧ j ∈ p.1 then 1 else get a j 1 := by
  induction adds with
  | nil => intro a j; simp [runAdds]
  | cons p rest ih =>
    intro a j
    obtain ⟨idxs, r⟩ := p
    simp only [runAdds]
    rw [ih]
    by_cases hrest : ∃ p ∈ rest, p.2 = true ∧ j ∈ p.1
    · have : ∃ p ∈ (idxs, r) :: rest, p.2 = true ∧ j ∈ p.1 := by
        obtain ⟨p, hp, h⟩ := hrest
        exact ⟨p, List.mem_cons_of_mem _ hp, h⟩
      rw [if_pos hrest, if_pos this]
    · rw [if_neg hrest]
      by_cases hhead : r = true ∧ j ∈ idxs
      · have : ∃ p ∈ (idxs, r) :: rest, p.2 = true ∧ j ∈ p.1 := ⟨(idxs, r), by simp, hhead⟩
        rw [if_pos this]
        simp only [add, hhead.1, if_true]
        rw [get_addBits, if_pos hhead.2]
      · have : ¬ ∃ p ∈ (idxs, r) :: rest, p.2 = true ∧ j ∈ p.1 := by
          rintro ⟨p, hp, h⟩
          rcases List.mem_cons.1 hp with rfl | hp
          · exact hhead h
          · exact hrest ⟨p, hp, h⟩
        rw [if_neg this]
        unfold add
        split
        · rename_i hr
          rw [get_addBits]
          have : j ∉ idxs := fun hj => hhead ⟨hr, hj⟩
          rw [if_neg this]
        · rfl

/-! ### a filter whose key has a lifetime -/

theorem tallSet_eq (t : TState) (idxs : List Nat) :
    tallSet t idxs = allSet ((t.view.map (·.a)).getD 0) idxs := by
  simp only [tallSet, allSet, tstep, tget_snd]

/-- `incr_bits` on whatever the key holds (stale entry or not): the key then logically holds the
incremented array — of the live array, or of a fresh one — and inherits the live deadline -/
theorem view_incrBits (w : Nat) (t : TState) (idxs : List Nat) (by_ : Int) :
    (tstep w t (.incrBits idxs by_)).1.view =
      some ⟨(incrBits ((t.view.map (·.a)).getD 0) idxs w by_).1, t.view.bind (·.dl)⟩ := by
  simp only [tstep, tget_snd]
  rw [tset_view _ (by rw [tget_slot, tget_view])]
  simp [tget_view]

/-- a step that leaves the key alive does not clear a bit -/
theorem bit_kept (t : TState) (op : FOp) (sl sl' : Slot) (h : t.view = some sl)
    (h' : (fstep t op).view = some sl') (j : Nat) (hj : get sl.a j 1 = 1) : get sl'.a j 1 = 1 := by
  cases op with
  | add idxs r =>
    cases r with
    | false =>
      have e : fstep t (.add idxs false) = t := by simp [fstep]
      rw [e, h] at h'; cases h'; exact hj
    | true =>
      have e : fstep t (.add idxs true) = (tstep 1 t (.incrBits idxs 1)).1 := by simp [fstep]
      rw [e, view_incrBits, h] at h'
      cases h'
      show get (addBits sl.a idxs) j 1 = 1
      rw [get_addBits]; split <;> simp [hj]
  | query idxs =>
    simp only [fstep, tstep] at h'
    rw [tget_view, h] at h'; cases h'; exact hj
  | expire ttl =>
    simp only [fstep, tstep, tget_snd, h] at h'
    rw [tset_view _ (by rw [tget_slot, tget_view])] at h'
    cases h'; exact hj
  | delete =>
    simp only [fstep, tstep] at h'
    cases hs : t.slot with
    | none => simp [TState.view, hs] at h
    | some s => simp [hs, TState.view] at h'
  | touch =>
    simp only [fstep, tstep] at h'
    rw [tget_view, h] at h'; cases h'; exact hj
  | adv dt =>
    simp only [fstep, tstep] at h'
    cases hs : t.slot with
    | none => simp [TState.view, hs] at h
    | some s =>
      have hsl : s = sl := by
        simp only [TState.view, hs] at h
        split at h <;> simp_all
      simp only [TState.view, hs] at h'
      split at h'
      · cases h'
      · cases h'; subst hsl; exact hj

theorem bits_kept_through (idxs : List Nat) (ops : List FOp) : ∀ (t : TState) (sl : Slot),
    t.view = some sl → (∀ j ∈ idxs, get sl.a j 1 = 1) → aliveThrough t ops = true →
    tallSet (frun t ops) idxs = true := by
  induction ops with
  | nil =>
    intro t sl h hb _
    rw [frun, tallSet_eq, allSet_iff, h]
    intro i hi; simp [hb i hi]
  | cons op rest ih =>
    intro t sl h hb ha
    simp only [aliveThrough, Bool.and_eq_true] at ha
    obtain ⟨sl', hsl'⟩ := Option.isSome_iff_exists.1 ha.1
    exact ih (fstep t op) sl' hsl' (fun j hj => bit_kept t op sl sl' h hsl' j (hb j hj)) ha.2

/-! ### `dual_bloom`: the true filter only grows; an element recorded there is never answered False by the filters -/

theorem allSet_addBits_mono (a : Nat) (idxs q : List Nat) (h : allSet a q = true) :
    allSet (addBits a idxs) q = true := by
  rw [allSet_iff] at h ⊢
  intro i hi
  rw [get_addBits]
  split
  · decide
  · exact h i hi

theorem dualCall_t_mono (s : Dual) (it if_ : List Nat) (nc u : Bool) (q : List Nat)
    (h : allSet s.t q = true) : allSet (dualCall s it if_ nc u).1.t q = true := by
  unfold dualCall
  split
  · simp only
    split
    · exact allSet_addBits_mono _ _ _ h
    · exact h
  · split
    · exact h
    · split <;> exact h

theorem dualRun_t_mono (nc : Bool) (calls : List (List Nat × List Nat × Bool)) : ∀ (s : Dual) (q : List Nat),
    allSet s.t q = true → allSet (dualRun nc s calls).t q = true := by
  induction calls with
  | nil => intro s q h; exact h
  | cons c rest ih =>
    intro s q h
    obtain ⟨it, if_, u⟩ := c
    exact ih _ q (dualCall_t_mono s it if_ nc u q h)

theorem dualCall_recorded (s : Dual) (it if_ : List Nat) (nc u : Bool) (h : allSet s.t it = true) :
    (dualCall s it if_ nc u).2.1 = true ∨ (dualCall s it if_ nc u).2.1 = u := by
  unfold dualCall
  simp only [notSet, h, Bool.not_true, Bool.false_and, Bool.false_eq_true, if_false]
  split
  · left; rfl
  · right; rfl

end CashewsVerif.Bloom
