import CashewsVerif.Lemmas.Bits
import CashewsVerif.Model.Bloom
/-
Helper lemmas for C18 (Bloom filter): adding an element sets exactly its bits; set bits stay set.
-/
namespace CashewsVerif.Bloom
open CashewsVerif.Bits

theorem incrBits_fst (w : Nat) (by_ : Int) (idxs : List Nat) :
    ∀ (a : Nat) (acc : List Nat),
      (idxs.foldl (fun (s : Nat × List Nat) i =>
        let a' := incr s.1 i w by_
        (a', s.2 ++ [get a' i w])) (a, acc)).1 = idxs.foldl (fun a i => incr a i w by_) a := by
  induction idxs with
  | nil => intros; rfl
  | cons i rest ih => intro a acc; simp only [List.foldl_cons]; exact ih _ _

theorem addBits_eq (a : Nat) (idxs : List Nat) :
    addBits a idxs = idxs.foldl (fun a i => incr a i 1 1) a := incrBits_fst 1 1 idxs a []

theorem satAdd_one (x : Nat) : Counters.satAdd 1 x 1 = 1 := by
  unfold Counters.satAdd
  omega

/-- a one-bit field after `incr … by 1` -/
theorem get_incr_one (a i j : Nat) :
    get (incr a i 1 1) j 1 = if i = j then 1 else get a j 1 := by
  rw [get_incr, satAdd_one]

/-- **adding sets exactly the element's bits** -/
theorem get_addBits (idxs : List Nat) : ∀ (a j : Nat),
    get (addBits a idxs) j 1 = if j ∈ idxs then 1 else get a j 1 := by
  intro a j
  rw [addBits_eq]
  induction idxs generalizing a with
  | nil => simp
  | cons i rest ih =>
    simp only [List.foldl_cons]
    rw [ih, get_incr_one]
    by_cases h1 : j ∈ rest
    · simp [h1]
    · by_cases h2 : i = j
      · subst h2; simp
      · have : ¬ j = i := fun h => h2 h.symm
        simp [h1, h2, this]

theorem allSet_iff (a : Nat) (idxs : List Nat) :
    allSet a idxs = true ↔ ∀ i ∈ idxs, get a i 1 ≠ 0 := by
  simp [allSet, getBits]

/-- the filter's bits after a sequence of adds, exactly -/
theorem get_runAdds (adds : List (List Nat × Bool)) : ∀ (a j : Nat),
    get (runAdds a adds) j 1 =
      if ∃ p ∈ adds, p.2 = true ∧ j ∈ p.1 then 1 else get a j 1 := by
  induction adds with
  | nil => intro a j; simp [runAdds]
  | cons p rest ih =>
    intro a j
    obtain ⟨idxs, r⟩ := p
    simp only [runAdds]
    rw [ih]
    by_cases hrest : ∃ p ∈ rest, p.2 = true ∧ j ∈ p.1
    · have : ∃ p ∈ (idxs, r) :: rest, p.2 = true ∧ j ∈ p.1 := by
        obtain ⟨p, hp, h⟩ := hrest
        exact ⟨p, List.mem_cons_of_mem _ hp, h⟩
      rw [if_pos hrest, if_pos this]
    · rw [if_neg hrest]
      by_cases hhead : r = true ∧ j ∈ idxs
      · have : ∃ p ∈ (idxs, r) :: rest, p.2 = true ∧ j ∈ p.1 := ⟨(idxs, r), by simp, hhead⟩
        rw [if_pos this]
        simp only [add, hhead.1, if_true]
        rw [get_addBits, if_pos hhead.2]
      · have : ¬ ∃ p ∈ (idxs, r) :: rest, p.2 = true ∧ j ∈ p.1 := by
          rintro ⟨p, hp, h⟩
          rcases List.mem_cons.1 hp with rfl | hp
          · exact hhead h
          · exact hrest ⟨p, hp, h⟩
        rw [if_neg this]
        unfold add
        split
        · rename_i hr
          rw [get_addBits]
          have : j ∉ idxs := fun hj => hhead ⟨hr, hj⟩
          rw [if_neg this]
        · rfl

end CashewsVerif.Bloom
