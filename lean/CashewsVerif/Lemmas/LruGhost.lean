import CashewsVerif.Model.Lru
import CashewsVerif.Lemmas.LruPurge
/-
C11: (1) the ghost fields of `Lru` only observe — erasing them gives back `Mem.step` / `Mem.run`;
(2) the three shapes of a ghost read; (3) an induction principle: a predicate closed under the six
primitive actions holds along every history.
-/
namespace CashewsVerif
open Store

namespace Lru

/-! ### the three shapes of `gGet` -/

theorem gGet_absent {x : Lru} {k : Key} (h : lookup x.mem.store k = none) : x.gGet k = (x, none) := by
  unfold gGet; simp [h]

theorem gGet_hit {x : Lru} {k : Key} {e : Entry} (h : lookup x.mem.store k = some e)
    (hl : e.live x.mem.now = true) :
    x.gGet k = ({ x with mem := { x.mem with store := put x.mem.store k e }, log := k :: x.log }, some e.val) := by
  unfold gGet Mem.rawGet; simp [h, hl]

theorem gGet_dead {x : Lru} {k : Key} {e : Entry} (h : lookup x.mem.store k = some e)
    (hl : e.live x.mem.now = false) :
    x.gGet k = ({ x with mem := { x.mem with store := erase x.mem.store k }, gone := k :: x.gone }, none) := by
  unfold gGet Mem.rawGet; simp [h, hl]

theorem gDelete_absent {x : Lru} {k : Key} (h : lookup x.mem.store k = none) : x.gDelete k = (x, false) := by
  unfold gDelete Mem.rawDelete; simp [h]

theorem gDelete_present {x : Lru} {k : Key} {e : Entry} (h : lookup x.mem.store k = some e) :
    x.gDelete k = ({ x with mem := { x.mem with store := erase x.mem.store k }, gone := k :: x.gone },
                   e.live x.mem.now) := by
  unfold gDelete Mem.rawDelete; simp [h]

/-! ### erasure -/

theorem gGet_mem (x : Lru) (k : Key) : (x.gGet k).1.mem = (x.mem.rawGet k).1 ∧ (x.gGet k).2 = (x.mem.rawGet k).2 := by
  unfold gGet Mem.rawGet
  cases lookup x.mem.store k with
  | none => exact ⟨rfl, rfl⟩
  | some e => by_cases hl : e.live x.mem.now = true <;> simp [hl]

theorem gSet_mem (x : Lru) (k : Key) (v : Val) (ttl : Option Nat) : (x.gSet k v ttl).mem = x.mem.rawSet k v ttl := rfl

theorem gDelete_mem (x : Lru) (k : Key) :
    (x.gDelete k).1.mem = (x.mem.rawDelete k).1 ∧ (x.gDelete k).2 = (x.mem.rawDelete k).2 := ⟨rfl, rfl⟩

theorem gGetMany_mem (ks : List Key) : ∀ (x : Lru),
    (x.gGetMany ks).1.mem = (x.mem.getMany ks).1 ∧ (x.gGetMany ks).2 = (x.mem.getMany ks).2 := by
  induction ks with
  | nil => intro x; exact ⟨rfl, rfl⟩
  | cons k ks ih =>
    intro x
    have h1 := gGet_mem x k
    have h2 := ih (x.gGet k).1
    simp only [gGetMany, Mem.getMany]
    rw [← h1.1, ← h1.2]
    exact ⟨h2.1, by rw [h2.2]⟩

theorem setMany_mem (ttl : Option Nat) (kvs : List (Key × Val)) : ∀ (x : Lru),
    (kvs.foldl (fun x kv => x.gSet kv.1 kv.2 ttl) x).mem = kvs.foldl (fun s kv => s.rawSet kv.1 kv.2 ttl) x.mem := by
  induction kvs with
  | nil => intro x; rfl
  | cons kv kvs ih => intro x; simp only [List.foldl_cons]; rw [ih]; rfl

theorem deleteMany_mem (ks : List Key) : ∀ (x : Lru),
    (ks.foldl (fun x k => (x.gDelete k).1) x).mem = ks.foldl (fun s k => (s.rawDelete k).1) x.mem := by
  induction ks with
  | nil => intro x; rfl
  | cons k ks ih => intro x; simp only [List.foldl_cons]; rw [ih]; rfl

/-- **ghost erasure, one command**: the `mem` component and the answer of the instrumented step are
those of `Mem.step`. -/
theorem step_mem (x : Lru) (op : Op) :
    (x.step op).1.mem = (x.mem.step op).1 ∧ (x.step op).2 = (x.mem.step op).2 := by
  have hg := fun k => gGet_mem x k
  cases op with
  | set k v ttl c =>
    cases c with
    | always => exact ⟨rfl, rfl⟩
    | nx =>
      simp only [step, Mem.step]
      rw [← (hg k).1, ← (hg k).2]
      cases (x.gGet k).2 <;> simp [gSet_mem]
    | xx =>
      simp only [step, Mem.step]
      rw [← (hg k).1, ← (hg k).2]
      cases (x.gGet k).2 <;> simp [gSet_mem]
  | setMany kvs ttl => exact ⟨setMany_mem ttl kvs x, rfl⟩
  | get k => simp only [step, Mem.step]; exact ⟨(hg k).1, by rw [(hg k).2]⟩
  | getMany ks =>
    have h := gGetMany_mem ks x
    simp only [step, Mem.step]; exact ⟨h.1, by rw [h.2]⟩
  | exists_ k => simp only [step, Mem.step]; exact ⟨(hg k).1, by rw [(hg k).2]⟩
  | incr k by_ ttl =>
    simp only [step, Mem.step]
    rw [← (hg k).1, ← (hg k).2]
    cases (x.gGet k).2 with
    | none => exact ⟨rfl, rfl⟩
    | some v =>
      simp only
      cases v.toInt? <;> exact ⟨rfl, rfl⟩
  | delete k => exact ⟨rfl, rfl⟩
  | deleteMany ks => exact ⟨deleteMany_mem ks x, rfl⟩
  | expire k ttl =>
    simp only [step, Mem.step]
    rw [← (hg k).1, ← (hg k).2]
    cases (x.gGet k).2 with
    | none => exact ⟨rfl, rfl⟩
    | some v =>
      have h2 := gGet_mem (x.gGet k).1 k
      simp only
      rw [← h2.1, ← h2.2]
      cases ((x.gGet k).1.gGet k).2 <;> exact ⟨rfl, rfl⟩
  | getExpire k => exact ⟨rfl, rfl⟩
  | clear => exact ⟨rfl, rfl⟩
  | adv dt => exact ⟨rfl, rfl⟩
  | purge => exact ⟨rfl, rfl⟩

/-- **ghost erasure, whole history** -/
theorem run_mem (ops : List Op) : ∀ (x : Lru),
    (x.run ops).1.mem = (x.mem.run ops).1 ∧ (x.run ops).2 = (x.mem.run ops).2 := by
  induction ops with
  | nil => intro x; exact ⟨rfl, rfl⟩
  | cons op ops ih =>
    intro x
    have h1 := step_mem x op
    have h2 := ih (x.step op).1
    simp only [run, Mem.run]
    rw [← h1.1, ← h1.2]
    exact ⟨h2.1, by rw [h2.2]⟩

/-! ### induction over the primitive actions -/

/-- a predicate on ghost states that every primitive action preserves -/
structure Closed (P : Lru → Prop) : Prop where
  get : ∀ x k, P x → P (x.gGet k).1
  set : ∀ x k v ttl, P x → P (x.gSet k v ttl)
  del : ∀ x k, P x → P (x.gDelete k).1
  clear : ∀ x, P x → P x.gClear
  adv : ∀ x dt, P x → P (x.gAdv dt)
  purge : ∀ x, P x → P x.gPurge

namespace Closed
variable {P : Lru → Prop}

theorem getMany (h : Closed P) (ks : List Key) : ∀ x, P x → P (x.gGetMany ks).1 := by
  induction ks with
  | nil => intro x hx; exact hx
  | cons k ks ih => intro x hx; simp only [gGetMany]; exact ih _ (h.get x k hx)

theorem setMany (h : Closed P) (ttl : Option Nat) (kvs : List (Key × Val)) :
    ∀ x, P x → P (kvs.foldl (fun x kv => x.gSet kv.1 kv.2 ttl) x) := by
  induction kvs with
  | nil => intro x hx; exact hx
  | cons kv kvs ih => intro x hx; simp only [List.foldl_cons]; exact ih _ (h.set x _ _ _ hx)

theorem deleteMany (h : Closed P) (ks : List Key) :
    ∀ x, P x → P (ks.foldl (fun x k => (x.gDelete k).1) x) := by
  induction ks with
  | nil => intro x hx; exact hx
  | cons k ks ih => intro x hx; simp only [List.foldl_cons]; exact ih _ (h.del x k hx)

theorem step (h : Closed P) (x : Lru) (op : Op) (hx : P x) : P (x.step op).1 := by
  have hg := fun k => h.get x k hx
  cases op with
  | set k v ttl c =>
    cases c with
    | always => exact h.set x k v ttl hx
    | nx =>
      simp only [Lru.step]
      cases (x.gGet k).2 with
      | none => exact h.set _ k v ttl (hg k)
      | some _ => exact hg k
    | xx =>
      simp only [Lru.step]
      cases (x.gGet k).2 with
      | none => exact hg k
      | some _ => exact h.set _ k v ttl (hg k)
  | setMany kvs ttl => exact h.setMany ttl kvs x hx
  | get k => exact hg k
  | getMany ks => exact h.getMany ks x hx
  | exists_ k => exact hg k
  | incr k by_ ttl =>
    simp only [Lru.step]
    cases (x.gGet k).2 with
    | none => exact h.set _ _ _ _ (hg k)
    | some v =>
      simp only
      cases v.toInt? with
      | none => exact hg k
      | some c => exact h.set _ _ _ _ (hg k)
  | delete k => exact h.del x k hx
  | deleteMany ks => exact h.deleteMany ks x hx
  | expire k ttl =>
    simp only [Lru.step]
    cases (x.gGet k).2 with
    | none => exact hg k
    | some v =>
      have h2 := h.get _ k (hg k)
      simp only
      cases ((x.gGet k).1.gGet k).2 with
      | none => exact h2
      | some v => exact h.set _ _ _ _ h2
  | getExpire k => exact hx
  | clear => exact h.clear x hx
  | adv dt => exact h.adv x dt hx
  | purge => exact h.purge x hx

theorem run (h : Closed P) (ops : List Op) : ∀ x, P x → P (x.run ops).1 := by
  induction ops with
  | nil => intro x hx; exact hx
  | cons op ops ih => intro x hx; simp only [Lru.run]; exact ih _ (h.step x op hx)

end Closed
end Lru
end CashewsVerif
