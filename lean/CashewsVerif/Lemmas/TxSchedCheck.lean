import CashewsVerif.Lemmas.TxSchedOwn
/- A decidable check of the `WithinTimeout` hypothesis for concrete schedules (used by the non-vacuity examples). -/
namespace CashewsVerif.TxSched

def Task.inTxB (t : Task) : Bool :=
  t.ctx && !(match t.pc with | .finished _ => true | _ => false)

def safeB (n : Nat) (w : World) : Bool :=
  (List.range n).all fun i => !(w.tasks i).inTxB || decide (w.now < (w.tasks i).enterAt + (w.tasks i).timeout)

def withinB (store : Store) (ts : List Task) (sched : List Act) : Bool :=
  (List.range (sched.length + 1)).all fun n => safeB ts.length ((World.init store ts).run (sched.take n))

theorem inTxB_of_inTx {t : Task} (h : t.inTx) : t.inTxB = true := by
  unfold Task.inTxB
  rw [h.1]
  cases hpc : t.pc <;> simp
  exact absurd hpc (h.2 _)

theorem withinTimeout_of_check (store : Store) (ts : List Task) (hf : ∀ t ∈ ts, t.Fresh) (sched : List Act)
    (h : withinB store ts sched = true) : WithinTimeout (World.init store ts) sched := by
  intro p hp i hin
  have hlen := hp.length_le
  have hpe : p = sched.take p.length := List.prefix_iff_eq_take.mp hp
  by_cases hi : i < ts.length
  · have h1 := List.all_eq_true.mp h p.length (List.mem_range.mpr (by omega))
    rw [← hpe] at h1
    have h2 := List.all_eq_true.mp h1 i (List.mem_range.mpr hi)
    simp [inTxB_of_inTx hin] at h2
    exact h2
  · exfalso
    have hx : (((World.init store ts).run p).tasks i).isTx = false := by
      rw [isTx_run]
      show (ts.getD i Task.inert).isTx = false
      rw [List.getD_eq_getElem?_getD, List.getElem?_eq_none (by omega)]; rfl
    have := (AllTI_run store ts hf p i).plain_ctx hx
    rw [hin.1] at this; cases this

end CashewsVerif.TxSched
