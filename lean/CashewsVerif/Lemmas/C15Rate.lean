import CashewsVerif.Lemmas.C15Base
/-
Helper lemmas for C15, fixed window: what one call does to the counter cell, and the invariant
tying the cell to the current window of the observed trace.
-/
namespace CashewsVerif.Decor.Rate
open CashewsVerif CashewsVerif.Decor CashewsVerif.Decor.Spec

theorem effTtl_pos (p : Params) (hp : 0 < p.period) : 0 < p.effTtl := by
  unfold Params.effTtl
  split <;> omega

/-- a call that finds the counter live (value `n ≥ 1`, deadline `d` still ahead) -/
theorem call_live (p : Params) (hp : 0 < p.period) (t : TtlMap) (dt n d : Nat) (hn : 0 < n)
    (hc : t.m key = some ⟨.int n, some d⟩) (hl : t.now + dt < d) :
    (call p t dt).2 = ⟨t.now + dt, if n < p.limit then .run else .reject⟩ ∧ (call p t dt).1.now = t.now + dt ∧
      (call p t dt).1.m key = some ⟨.int (n + 1 : Nat), some (if n = p.limit then t.now + dt + p.effTtl else d)⟩ := by
  have he := effTtl_pos p hp
  have hne : p.effTtl ≠ 0 := by omega
  have hf : (t.step (.adv dt)).1.find key = some ⟨.int n, some d⟩ :=
    TtlMap.find_live (by rw [TtlMap.adv_m]; exact hc) (by rw [TtlMap.adv_now]; simpa [Entry.live] using hl)
  have hincr := TtlMap.incr_find_int hf 1 (some p.period)
  have hn1 : ¬ ((n : Int) + 1 = 1) := by omega
  unfold call
  simp only [show ∀ (t : TtlMap) k b ttl, t.step (.incr k b ttl) = t.incr k b ttl from fun _ _ _ _ => rfl, hincr, hn1, if_false]
  have hrej : rejects p ((n : Int) + 1) = decide (p.limit ≤ n) := by
    unfold rejects
    rw [Bool.eq_iff_iff]; simp; omega
  have hban : bans p ((n : Int) + 1) = decide (n = p.limit) := by
    unfold bans
    rw [Bool.eq_iff_iff]; simp [hne]; omega
  rw [hrej, hban]
  -- the counter after the increment: same deadline `d` (no TTL is applied to a value other than 1)
  have hw : ((t.step (.adv dt)).1.write key (.int ((n : Int) + 1)) none).m key = some ⟨.int ((n : Int) + 1), some d⟩ := by
    rw [TtlMap.write_m_same, TtlMap.deadlineOf_none, hf]; rfl
  have hwl : ((t.step (.adv dt)).1.write key (.int ((n : Int) + 1)) none).find key = some ⟨.int ((n : Int) + 1), some d⟩ :=
    TtlMap.find_live hw (by simp [Entry.live, TtlMap.adv_now, hl])
  by_cases h1 : n < p.limit
  · have h2 : ¬ p.limit ≤ n := by omega
    simp only [h2, decide_false, h1, if_true, Bool.false_eq_true, if_false, TtlMap.write_now, TtlMap.adv_now, hw]
    simp [show n ≠ p.limit by omega]
  · have h2 : p.limit ≤ n := by omega
    by_cases h3 : n = p.limit
    · have hx := TtlMap.expire_find_some hwl (some p.effTtl)
      have hd : decide (n = p.limit) = true := by simp [h3]
      simp only [h2, decide_true, hd, h1, if_true, if_false, hx, TtlMap.write_now,
        TtlMap.adv_now, TtlMap.write_m_same, TtlMap.deadlineOf_pos _ he]
      simp [h3]
    · simp only [h2, decide_true, h1, h3, decide_false, if_true, if_false, Bool.false_eq_true, TtlMap.write_now, TtlMap.adv_now, hw]
      simp

/-- a call that finds no live counter (never written, or lapsed) starts a new one -/
theorem call_dead (p : Params) (hp : 0 < p.period) (t : TtlMap) (dt : Nat)
    (hf : (t.step (.adv dt)).1.find key = none) :
    (call p t dt).2 = ⟨t.now + dt, if 0 < p.limit then .run else .reject⟩ ∧ (call p t dt).1.now = t.now + dt ∧
      (call p t dt).1.m key = some ⟨.int (1 : Nat), some (t.now + dt + if 0 < p.limit then p.period else p.effTtl)⟩ := by
  have he := effTtl_pos p hp
  have hne : p.effTtl ≠ 0 := by omega
  have hincr := TtlMap.incr_find_none hf 1 (some p.period)
  unfold call
  simp only [show ∀ (t : TtlMap) k b ttl, t.step (.incr k b ttl) = t.incr k b ttl from fun _ _ _ _ => rfl, hincr,
    show (0 : Int) + 1 = 1 from rfl, if_true]
  have hrej : rejects p 1 = decide (p.limit = 0) := by
    unfold rejects
    rw [Bool.eq_iff_iff]; simp; omega
  have hban : bans p 1 = decide (p.limit = 0) := by
    unfold bans
    rw [Bool.eq_iff_iff]; simp [hne]; omega
  rw [hrej, hban]
  have hw : ((t.step (.adv dt)).1.write key (.int 1) (some p.period)).m key = some ⟨.int 1, some (t.now + dt + p.period)⟩ := by
    rw [TtlMap.write_m_same, TtlMap.deadlineOf_pos _ hp, TtlMap.adv_now]
  have hwl : ((t.step (.adv dt)).1.write key (.int 1) (some p.period)).find key = some ⟨.int 1, some (t.now + dt + p.period)⟩ :=
    TtlMap.find_live hw (by simp [Entry.live, TtlMap.adv_now, hp])
  by_cases h0 : p.limit = 0
  · have hx := TtlMap.expire_find_some hwl (some p.effTtl)
    simp only [h0, decide_true, if_true, hx, TtlMap.write_now, TtlMap.adv_now, TtlMap.write_m_same,
      TtlMap.deadlineOf_pos _ he]
    simp
  · have : 0 < p.limit := by omega
    simp only [h0, decide_false, Bool.false_eq_true, if_false, TtlMap.write_now, TtlMap.adv_now, hw, this, if_true]
    simp

/-! ### the spec side: windows of a trace -/

theorem firstRejection_append (cur : List Ev) (e : Ev) :
    firstRejection (cur ++ [e]) = (firstRejection cur).or (if e.ran then none else some e) := by
  unfold firstRejection
  rw [List.find?_append]
  cases h : e.ran <;> simp [List.find?, h]

theorem firstRejection_none_of_short {limit : Nat} {cur : List Ev} (h : RunsFirst limit cur)
    (hl : cur.length ≤ limit) : firstRejection cur = none := by
  unfold firstRejection
  rw [List.find?_eq_none]
  intro e he
  obtain ⟨i, hi, rfl⟩ := List.getElem_of_mem he
  have := h i cur[i] (List.getElem?_eq_getElem hi)
  simp [Ev.ran, this, show i < limit by omega]

theorem firstRejection_some_of_long {limit : Nat} {cur : List Ev} (h : RunsFirst limit cur)
    (hl : limit < cur.length) : ∃ r, firstRejection cur = some r := by
  unfold firstRejection
  rw [← Option.isSome_iff_exists, List.find?_isSome]
  refine ⟨cur[limit], List.getElem_mem hl, ?_⟩
  have := h limit cur[limit] (List.getElem?_eq_getElem hl)
  simp [Ev.ran, this]

theorem runsFirst_append {limit : Nat} {cur : List Ev} (h : RunsFirst limit cur) (e : Ev)
    (he : e.dec = if cur.length < limit then .run else .reject) : RunsFirst limit (cur ++ [e]) := by
  intro i x hx
  by_cases hi : i < cur.length
  · rw [List.getElem?_append_left hi] at hx
    exact h i x hx
  · rw [List.getElem?_append_right (by omega)] at hx
    by_cases hi2 : i = cur.length
    · subst hi2
      simp at hx
      subst hx
      exact he
    · have : i - cur.length ≠ 0 := by omega
      cases hk : i - cur.length with
      | zero => omega
      | succ k => simp [hk] at hx

theorem runsFirst_single (limit : Nat) (e : Ev) (he : e.dec = if 0 < limit then .run else .reject) :
    RunsFirst limit [e] := by
  have := runsFirst_append (limit := limit) (cur := []) (by intro i x hx; simp at hx) e (by simpa using he)
  simpa using this

theorem runsFirst_zero {w : List Ev} (h : RunsFirst 0 w) : ∀ e ∈ w, e.dec = .reject := by
  intro e he
  obtain ⟨i, hi, rfl⟩ := List.getElem_of_mem he
  simpa using h i w[i] (List.getElem?_eq_getElem hi)

theorem runsFirst_tail {limit : Nat} {e : Ev} {r : List Ev} (h : RunsFirst (limit + 1) (e :: r)) : RunsFirst limit r := by
  intro i x hx
  have := h (i + 1) x (by simpa using hx)
  simpa using this

/-- a window that runs exactly its first `limit` calls has at most `limit` runs … -/
theorem countP_ran_le : ∀ (limit : Nat) (w : List Ev), RunsFirst limit w → w.countP (·.ran) ≤ limit := by
  intro limit
  induction limit with
  | zero =>
    intro w h
    rw [Nat.le_zero, List.countP_eq_zero]
    intro e he
    simp [Ev.ran, runsFirst_zero h e he]
  | succ l ih =>
    intro w h
    cases w with
    | nil => simp
    | cons e r =>
      have := ih r (runsFirst_tail h)
      rw [List.countP_cons]
      split <;> omega

/-- … and nothing runs after its first rejection -/
theorem after_rejection : ∀ (limit : Nat) (w : List Ev), RunsFirst limit w → ∀ e ∈ w.dropWhile (·.ran), e.dec = .reject := by
  intro limit
  induction limit with
  | zero =>
    intro w h e he
    exact runsFirst_zero h e (List.dropWhile_subset _ he)
  | succ l ih =>
    intro w h
    cases w with
    | nil => simp
    | cons x r =>
      have hx : x.dec = .run := by simpa using h 0 x rfl
      have : x.ran = true := by simp [Ev.ran, hx]
      rw [List.dropWhile_cons, if_pos this]
      exact ih r (runsFirst_tail h)

theorem windowHolds_of_runsFirst {limit : Nat} {w : List Ev} (h : RunsFirst limit w) : windowHolds limit w = true := by
  unfold windowHolds
  rw [Bool.and_eq_true]
  refine ⟨by simpa using countP_ran_le limit w h, ?_⟩
  rw [List.all_eq_true]
  intro e he
  simpa using after_rejection limit w h e he

/-- the windows of a trace contain every call exactly once, in order -/
theorem windows_flatten (period ttl : Nat) : ∀ (tr cur : List Ev), (windows period ttl cur tr).flatten = cur ++ tr := by
  intro tr
  induction tr with
  | nil =>
    intro cur
    unfold windows
    cases cur <;> simp
  | cons e rest ih =>
    intro cur
    unfold windows
    split
    · rw [ih]; simp
    · split
      · rename_i h; rw [ih]; simp [List.isEmpty_iff.mp h]
      · rw [List.flatten_cons, ih]; simp

/-- the counter cell mirrors the current window `cur` of the trace -/
def Cell (p : Params) (t : TtlMap) (cur : List Ev) : Prop :=
  (cur = [] → t.m key = none) ∧
  (cur ≠ [] → t.m key = some ⟨.int cur.length, some (lapseOf p.period p.effTtl cur)⟩)

theorem lapseOf_append_live {limit : Nat} (period ttl : Nat) {cur : List Ev} (hne : cur ≠ []) (h : RunsFirst limit cur) (e : Ev)
    (he : e.dec = if cur.length < limit then .run else .reject) :
    lapseOf period ttl (cur ++ [e]) = if cur.length = limit then e.ts + ttl else lapseOf period ttl cur := by
  unfold lapseOf
  rw [firstRejection_append]
  by_cases h1 : cur.length < limit
  · have hr : e.ran = true := by simp [Ev.ran, he, h1]
    rw [firstRejection_none_of_short h (by omega)]
    simp only [hr, if_true, Option.or_none]
    have : cur.length ≠ limit := by omega
    simp only [this, if_false]
    cases cur with
    | nil => exact absurd rfl hne
    | cons a r => simp
  · have hr : e.ran = false := by simp [Ev.ran, he, h1]
    by_cases h2 : cur.length = limit
    · rw [firstRejection_none_of_short h (by omega)]
      simp [hr, h2]
    · obtain ⟨r, hr'⟩ := firstRejection_some_of_long h (by omega)
      simp [hr', h2]

theorem lapseOf_single (period ttl : Nat) (e : Ev) :
    lapseOf period ttl [e] = e.ts + if e.ran then period else ttl := by
  unfold lapseOf firstRejection
  cases h : e.ran <;> simp [List.find?, h]

/-- **every window of a model trace runs exactly its first `limit` calls** (generalised over the
    reachable state: `cur` is the window in progress, mirrored by the counter cell) -/
theorem windows_runsFirst (p : Params) (hp : 0 < p.period) :
    ∀ (calls : List Nat) (t : TtlMap) (cur : List Ev), Cell p t cur → RunsFirst p.limit cur →
      ∀ w ∈ windows p.period p.effTtl cur (run p t calls), RunsFirst p.limit w := by
  intro calls
  induction calls with
  | nil =>
    intro t cur _ hr w hw
    simp only [run, windows] at hw
    split at hw
    · simp at hw
    · simp at hw; subst hw; exact hr
  | cons dt rest ih =>
    intro t cur hc hr w hw
    simp only [run] at hw
    by_cases hlive : cur ≠ [] ∧ t.now + dt < lapseOf p.period p.effTtl cur
    · obtain ⟨hne, hl⟩ := hlive
      have hpos : 0 < cur.length := List.length_pos_iff.mpr hne
      obtain ⟨h1, h2, h3⟩ := call_live p hp t dt cur.length _ hpos (hc.2 hne) hl
      have hev : (call p t dt).2.dec = if cur.length < p.limit then .run else .reject := by rw [h1]
      have hts : (call p t dt).2.ts = t.now + dt := by rw [h1]
      have hcond : (!cur.isEmpty && decide ((call p t dt).2.ts < lapseOf p.period p.effTtl cur)) = true := by
        simp [hts, hl, hne]
      rw [windows, hcond, if_pos rfl] at hw
      refine ih _ _ ⟨fun h => by simp at h, fun _ => ?_⟩ (runsFirst_append hr _ hev) w hw
      rw [h3, lapseOf_append_live _ _ hne hr _ hev, hts]
      simp
    · have hf : (t.step (.adv dt)).1.find key = none := by
        by_cases hne : cur = []
        · exact TtlMap.find_none (by rw [TtlMap.adv_m]; exact hc.1 hne)
        · have : ¬ t.now + dt < lapseOf p.period p.effTtl cur := fun h => hlive ⟨hne, h⟩
          exact TtlMap.find_dead (by rw [TtlMap.adv_m]; exact hc.2 hne) (by rw [TtlMap.adv_now]; exact decide_eq_false this)
      obtain ⟨h1, h2, h3⟩ := call_dead p hp t dt hf
      have hev : (call p t dt).2.dec = if 0 < p.limit then .run else .reject := by rw [h1]
      have hts : (call p t dt).2.ts = t.now + dt := by rw [h1]
      have hcond : (!cur.isEmpty && decide ((call p t dt).2.ts < lapseOf p.period p.effTtl cur)) = false := by
        by_cases hne : cur = []
        · simp [hne]
        · have : ¬ t.now + dt < lapseOf p.period p.effTtl cur := fun h => hlive ⟨hne, h⟩
          simp [hts, this]
      have hnext : ∀ w ∈ windows p.period p.effTtl [(call p t dt).2] (run p (call p t dt).1 rest), RunsFirst p.limit w := by
        refine ih _ _ ⟨fun h => by simp at h, fun _ => ?_⟩ (runsFirst_single _ _ hev)
        rw [h3, lapseOf_single, hts]
        have : (call p t dt).2.ran = decide (0 < p.limit) := by
          simp only [Ev.ran, hev]
          by_cases h0 : 0 < p.limit <;> simp [h0]
        by_cases h0 : 0 < p.limit <;> simp [this, h0]
      rw [windows, hcond] at hw
      simp only [Bool.false_eq_true, if_false] at hw
      split at hw
      · exact hnext w hw
      · rcases List.mem_cons.mp hw with rfl | hw
        · exact hr
        · exact hnext w hw

/-! ### windows in time: at most `limit` runs per `period` when the ban is not shorter than the period -/

/-- the windows follow each other in time: inside a window every call is at or after the first one and
    strictly before the window's lapse; every call of every later window is at or after that lapse -/
def Chrono (period ttl : Nat) : List (List Ev) → Prop
  | [] => True
  | w :: rest =>
    (∀ e0, w.head? = some e0 → ∀ e ∈ w, e0.ts ≤ e.ts) ∧ (∀ e ∈ w, e.ts < lapseOf period ttl w) ∧
    (∀ w' ∈ rest, ∀ e ∈ w', lapseOf period ttl w ≤ e.ts) ∧ Chrono period ttl rest

theorem runsIn_append (a b : List Ev) (t len : Nat) : runsIn (a ++ b) t len = runsIn a t len + runsIn b t len := by
  simp [runsIn, List.countP_append]

theorem runsIn_eq_zero {l : List Ev} {t len : Nat} (h : ∀ e ∈ l, e.ts < t ∨ t + len ≤ e.ts) : runsIn l t len = 0 := by
  unfold runsIn
  rw [List.countP_eq_zero]
  intro e he
  have := h e he
  simp; omega

theorem runsIn_le_countP (l : List Ev) (t len : Nat) : runsIn l t len ≤ l.countP (·.ran) := by
  unfold runsIn
  apply List.countP_mono_left
  intro e _ h
  simp at h
  exact h.1.1

/-- a window lasts at least `period` when the ban is not shorter than the period -/
theorem lapse_ge (period ttl : Nat) (h : period ≤ ttl) (w : List Ev) (e0 : Ev) (hh : w.head? = some e0)
    (hmono : ∀ e ∈ w, e0.ts ≤ e.ts) : e0.ts + period ≤ lapseOf period ttl w := by
  unfold lapseOf
  cases hr : firstRejection w with
  | none => simp [hh]
  | some r =>
    have : r ∈ w := List.mem_of_find?_eq_some hr
    have := hmono r this
    simp; omega

theorem chrono_count (limit period ttl : Nat) (httl : period ≤ ttl) :
    ∀ ws : List (List Ev), Chrono period ttl ws → (∀ w ∈ ws, w.countP (·.ran) ≤ limit) →
      ∀ w ∈ ws, ∀ e0, w.head? = some e0 → runsIn ws.flatten e0.ts period ≤ limit := by
  intro ws
  induction ws with
  | nil => intro _ _ w hw; simp at hw
  | cons w0 rest ih =>
    intro hc hcnt w hw e0 he0
    obtain ⟨h1, h2, h3, h4⟩ := hc
    rw [List.flatten_cons, runsIn_append]
    rcases List.mem_cons.mp hw with rfl | hw
    · have hl := lapse_ge period ttl httl w e0 he0 (h1 e0 he0)
      have hz : runsIn rest.flatten e0.ts period = 0 := by
        apply runsIn_eq_zero
        intro e he
        obtain ⟨w', hw', hew'⟩ := List.mem_flatten.mp he
        have := h3 w' hw' e hew'
        omega
      have := runsIn_le_countP w e0.ts period
      have := hcnt w (by simp)
      omega
    · have he0w : e0 ∈ w := List.mem_of_mem_head? he0
      have hz : runsIn w0 e0.ts period = 0 := by
        apply runsIn_eq_zero
        intro e he
        have := h2 e he
        have := h3 w hw e0 he0w
        omega
      have := ih h4 (fun w' hw' => hcnt w' (by simp [hw'])) w hw e0 he0
      omega

theorem incr_now (t : TtlMap) (k : Nat) (b : Int) (ttl : Option Nat) : (t.incr k b ttl).1.now = t.now := by
  simp only [TtlMap.incr]
  cases t.find k with
  | none => rfl
  | some e =>
    simp only []
    cases e.val.toInt? <;> rfl

theorem expire_now (t : TtlMap) (k : Nat) (ttl : Option Nat) : (t.step (.expire k ttl)).1.now = t.now := by
  simp only [TtlMap.step]
  split <;> rfl

/-- whatever the counter holds, a call is stamped `t.now + dt` and leaves the clock there -/
theorem call_ts_now (p : Params) (t : TtlMap) (dt : Nat) :
    (call p t dt).2.ts = t.now + dt ∧ (call p t dt).1.now = t.now + dt := by
  have hin : ((t.step (.adv dt)).1.step (.incr key 1 (some p.period))).1.now = t.now + dt := incr_now _ _ _ _
  simp only [call]
  generalize (t.step (.adv dt)).1.step (.incr key 1 (some p.period)) = r at hin
  obtain ⟨t1, o⟩ := r
  simp only at hin
  cases o with
  | int n =>
    simp only []
    by_cases hr : rejects p n = true
    · by_cases hb : bans p n = true
      · simp only [hr, hb, if_true]
        exact ⟨rfl, by rw [expire_now]; exact hin⟩
      · simp only [hr, hb, if_true, if_false, Bool.false_eq_true]
        exact ⟨rfl, hin⟩
    · simp only [hr, if_false, Bool.false_eq_true]
      exact ⟨rfl, hin⟩
  | unit => exact ⟨rfl, hin⟩
  | bool b => exact ⟨rfl, hin⟩
  | val v => exact ⟨rfl, hin⟩
  | vals vs => exact ⟨rfl, hin⟩
  | err => exact ⟨rfl, hin⟩

theorem run_ts_ge (p : Params) : ∀ (calls : List Nat) (t : TtlMap), ∀ e ∈ run p t calls, t.now ≤ e.ts := by
  intro calls
  induction calls with
  | nil => intro t e he; simp [run] at he
  | cons dt rest ih =>
    intro t e he
    simp only [run] at he
    obtain ⟨h1, h2⟩ := call_ts_now p t dt
    rcases List.mem_cons.mp he with rfl | he
    · omega
    · have := ih _ e he
      omega

theorem mem_windows (period ttl : Nat) : ∀ (evs cur : List Ev), ∀ w ∈ windows period ttl cur evs, ∀ e ∈ w, e ∈ cur ∨ e ∈ evs := by
  intro evs
  induction evs with
  | nil =>
    intro cur w hw e he
    unfold windows at hw
    split at hw
    · simp at hw
    · simp at hw; subst hw; exact .inl he
  | cons x rest ih =>
    intro cur w hw e he
    unfold windows at hw
    split at hw
    · rcases ih _ w hw e he with h | h
      · rcases List.mem_append.mp h with h | h
        · exact .inl h
        · simp at h; subst h; exact .inr (by simp)
      · exact .inr (by simp [h])
    · split at hw
      · rcases ih _ w hw e he with h | h
        · simp at h; subst h; exact .inr (by simp)
        · exact .inr (by simp [h])
      · rcases List.mem_cons.mp hw with rfl | hw
        · exact .inl he
        · rcases ih _ w hw e he with h | h
          · simp at h; subst h; exact .inr (by simp)
          · exact .inr (by simp [h])

/-- the window in progress is in order, not ahead of the clock, and all of it is before its lapse -/
def CurOK (p : Params) (t : TtlMap) (cur : List Ev) : Prop :=
  (∀ e0, cur.head? = some e0 → ∀ e ∈ cur, e0.ts ≤ e.ts) ∧ (∀ e ∈ cur, e.ts ≤ t.now) ∧
  (∀ e ∈ cur, e.ts < lapseOf p.period p.effTtl cur)

theorem windows_chrono (p : Params) (hp : 0 < p.period) :
    ∀ (calls : List Nat) (t : TtlMap) (cur : List Ev), Cell p t cur → RunsFirst p.limit cur → CurOK p t cur →
      Chrono p.period p.effTtl (windows p.period p.effTtl cur (run p t calls)) := by
  have he := effTtl_pos p hp
  intro calls
  induction calls with
  | nil =>
    intro t cur _ _ hok
    simp only [run, windows]
    split
    · trivial
    · exact ⟨hok.1, hok.2.2, by simp, trivial⟩
  | cons dt rest ih =>
    intro t cur hc hr hok
    simp only [run]
    obtain ⟨hts, hnow⟩ := call_ts_now p t dt
    by_cases hlive : cur ≠ [] ∧ t.now + dt < lapseOf p.period p.effTtl cur
    · obtain ⟨hne, hl⟩ := hlive
      have hpos : 0 < cur.length := List.length_pos_iff.mpr hne
      obtain ⟨h1, h2, h3⟩ := call_live p hp t dt cur.length _ hpos (hc.2 hne) hl
      have hev : (call p t dt).2.dec = if cur.length < p.limit then .run else .reject := by rw [h1]
      have hcond : (!cur.isEmpty && decide ((call p t dt).2.ts < lapseOf p.period p.effTtl cur)) = true := by
        simp [hts, hl, hne]
      rw [windows, hcond, if_pos rfl]
      have hlapse := lapseOf_append_live p.period p.effTtl hne hr _ hev
      refine ih _ _ ⟨fun h => by simp at h, fun _ => ?_⟩ (runsFirst_append hr _ hev) ⟨?_, ?_, ?_⟩
      · rw [h3, hlapse, hts]; simp
      · intro e0 he0 e hmem
        have he0' : cur.head? = some e0 := by
          cases cur with
          | nil => exact absurd rfl hne
          | cons a r => simpa using he0
        rcases List.mem_append.mp hmem with hm | hm
        · exact hok.1 e0 he0' e hm
        · simp at hm; subst hm
          have := hok.2.1 e0 (List.mem_of_mem_head? he0')
          omega
      · intro e hmem
        rw [hnow]
        rcases List.mem_append.mp hmem with hm | hm
        · have := hok.2.1 e hm; omega
        · simp at hm; subst hm; omega
      · intro e hmem
        rw [hlapse]
        rcases List.mem_append.mp hmem with hm | hm
        · split
          · have := hok.2.1 e hm; omega
          · exact hok.2.2 e hm
        · simp at hm; subst hm
          split <;> omega
    · obtain ⟨h1, h2, h3⟩ := call_dead p hp t dt (by
        by_cases hne : cur = []
        · exact TtlMap.find_none (by rw [TtlMap.adv_m]; exact hc.1 hne)
        · have : ¬ t.now + dt < lapseOf p.period p.effTtl cur := fun h => hlive ⟨hne, h⟩
          exact TtlMap.find_dead (by rw [TtlMap.adv_m]; exact hc.2 hne) (by rw [TtlMap.adv_now]; exact decide_eq_false this))
      have hev : (call p t dt).2.dec = if 0 < p.limit then .run else .reject := by rw [h1]
      have hcond : (!cur.isEmpty && decide ((call p t dt).2.ts < lapseOf p.period p.effTtl cur)) = false := by
        by_cases hne : cur = []
        · simp [hne]
        · have : ¬ t.now + dt < lapseOf p.period p.effTtl cur := fun h => hlive ⟨hne, h⟩
          simp [hts, this]
      have hran : (call p t dt).2.ran = decide (0 < p.limit) := by
        simp only [Ev.ran, hev]
        by_cases h0 : 0 < p.limit <;> simp [h0]
      have hnext : Chrono p.period p.effTtl (windows p.period p.effTtl [(call p t dt).2] (run p (call p t dt).1 rest)) := by
        refine ih _ _ ⟨fun h => by simp at h, fun _ => ?_⟩ (runsFirst_single _ _ hev) ⟨?_, ?_, ?_⟩
        · rw [h3, lapseOf_single, hts]
          by_cases h0 : 0 < p.limit <;> simp [hran, h0]
        · intro e0 he0 e hmem
          simp at he0 hmem
          subst he0; subst hmem; omega
        · intro e hmem
          simp at hmem; subst hmem; omega
        · intro e hmem
          simp at hmem; subst hmem
          rw [lapseOf_single]
          split <;> omega
      rw [windows, hcond]
      simp only [Bool.false_eq_true, if_false]
      split
      · exact hnext
      · rename_i hne
        have hne' : cur ≠ [] := by simpa [List.isEmpty_iff] using hne
        have hdead : lapseOf p.period p.effTtl cur ≤ t.now + dt := by
          have : ¬ t.now + dt < lapseOf p.period p.effTtl cur := fun h => hlive ⟨hne', h⟩
          omega
        refine ⟨hok.1, hok.2.2, ?_, hnext⟩
        intro w' hw' e hmem
        rcases mem_windows _ _ _ _ w' hw' e hmem with hm | hm
        · simp at hm; subst hm; omega
        · have := run_ts_ge p rest _ e hm
          omega

end CashewsVerif.Decor.Rate
