import CashewsVerif.Lemmas.LruGhost
/-
C11: the invariant behind the capacity bound and the LRU victim rule.

  Ord      the store, read front to back, is strictly increasing in `lastUse` (front = least recently used)
  Bounded  at most `cap` entries
  EvsGood  every recorded eviction had `cap` distinct other keys used after the victim's last use
  Held     a key that was ever used is still held, or is `gone` (deleted / cleared / collected as expired),
           or `cap` distinct other keys were used after its last use
-/
namespace CashewsVerif
open Store

/-! ### the use log -/

theorem lastUse_le (log : List Key) (k : Key) : lastUse log k ≤ log.length := by
  induction log with
  | nil => simp [lastUse]
  | cons u l ih =>
    by_cases h : u = k
    · simp [lastUse, h]
    · simp only [lastUse, h, if_false, List.length_cons]; omega

theorem lastUse_cons_self (log : List Key) (k : Key) : lastUse (k :: log) k = log.length + 1 := by
  simp [lastUse]

theorem lastUse_cons_ne (log : List Key) {u k : Key} (h : u ≠ k) : lastUse (u :: log) k = lastUse log k := by
  simp [lastUse, h]

theorem lastUse_pos_iff (log : List Key) (k : Key) : 0 < lastUse log k ↔ k ∈ log := by
  induction log with
  | nil => simp [lastUse]
  | cons u l ih =>
    by_cases h : u = k
    · simp [lastUse, h]
    · have h' : ¬ k = u := fun e => h e.symm
      simp [lastUse, h, h', ih]

theorem usedSince_cons_ne (log : List Key) {u k : Key} (h : u ≠ k) : usedSince (u :: log) k = u :: usedSince log k := by
  simp [usedSince, h]

theorem usedSince_cons_self (log : List Key) (k : Key) : usedSince (k :: log) k = [] := by
  simp [usedSince]

theorem ne_of_mem_usedSince {log : List Key} {k w : Key} (h : w ∈ usedSince log k) : w ≠ k := by
  induction log with
  | nil => simp [usedSince] at h
  | cons u l ih =>
    by_cases hu : u = k
    · subst hu; simp [usedSince_cons_self] at h
    · rw [usedSince_cons_ne l hu] at h
      rcases List.mem_cons.mp h with h | h
      · exact h ▸ hu
      · exact ih h

/-- a key with a larger `lastUse` was used after the latest use of `k` -/
theorem mem_usedSince_of_lastUse_lt {log : List Key} {k w : Key} (h : lastUse log k < lastUse log w) :
    w ∈ usedSince log k := by
  induction log with
  | nil => simp [lastUse] at h
  | cons u l ih =>
    by_cases hu : u = k
    · subst hu
      have := lastUse_le (u :: l) w
      rw [lastUse_cons_self] at h
      simp only [List.length_cons] at this
      omega
    · rw [usedSince_cons_ne l hu]
      by_cases hw : u = w
      · subst hw; exact List.mem_cons_self
      · rw [lastUse_cons_ne l hu, lastUse_cons_ne l hw] at h
        exact List.mem_cons_of_mem _ (ih h)

/-- the converse: what was used after the latest use of `k` has a larger `lastUse` -/
theorem lastUse_lt_of_mem_usedSince {log : List Key} {k w : Key} (h : w ∈ usedSince log k) :
    lastUse log k < lastUse log w := by
  induction log with
  | nil => simp [usedSince] at h
  | cons u l ih =>
    by_cases hu : u = k
    · subst hu; simp [usedSince_cons_self] at h
    · rw [usedSince_cons_ne l hu] at h
      rw [lastUse_cons_ne l hu]
      by_cases hw : u = w
      · subst hw
        rw [lastUse_cons_self]
        have := lastUse_le l k
        omega
      · rw [lastUse_cons_ne l hw]
        rcases List.mem_cons.mp h with h | h
        · exact absurd h.symm hw
        · exact ih h

/-- "at least `n` distinct other keys were used more recently than `k`" -/
def ManyRecentOthers (n : Nat) (log : List Key) (k : Key) : Prop :=
  ∃ W : List Key, W.Nodup ∧ n ≤ W.length ∧ ∀ w ∈ W, w ≠ k ∧ w ∈ usedSince log k

theorem ManyRecentOthers.cons {n : Nat} {log : List Key} {k u : Key}
    (h : ManyRecentOthers n log k) (hu : u ≠ k) : ManyRecentOthers n (u :: log) k := by
  obtain ⟨W, h1, h2, h3⟩ := h
  refine ⟨W, h1, h2, fun w hw => ⟨(h3 w hw).1, ?_⟩⟩
  rw [usedSince_cons_ne log hu]
  exact List.mem_cons_of_mem _ (h3 w hw).2

/-- the countable form -/
theorem ManyRecentOthers.count {n : Nat} {log : List Key} {k : Key} (h : ManyRecentOthers n log k) :
    n ≤ (recentOthers log k).length := by
  obtain ⟨W, h1, h2, h3⟩ := h
  have : W ⊆ recentOthers log k := fun w hw => by
    unfold recentOthers
    exact List.mem_eraseDups.mpr (h3 w hw).2
  exact Nat.le_trans h2 (h1.length_le_of_subset this)

/-! ### store facts -/

namespace Store

theorem length_erase_lt {s : Store} {k : Key} {e : Entry} (h : lookup s k = some e) :
    (erase s k).length < s.length := by
  induction s with
  | nil => simp at h
  | cons p s ih =>
    obtain ⟨k0, e0⟩ := p
    by_cases h0 : k0 = k
    · have := length_erase_le s k
      simp only [erase, h0, if_true, List.length_cons]; omega
    · simp only [lookup, h0, if_false] at h
      have := ih h
      simp only [erase, h0, if_false, List.length_cons]; omega

theorem length_put_le (s : Store) (k : Key) (e : Entry) : (put s k e).length ≤ s.length + 1 := by
  have := length_erase_le s k
  simp only [put, List.length_append, List.length_cons, List.length_nil]; omega

theorem length_put_of_mem {s : Store} {k : Key} {e0 : Entry} (h : lookup s k = some e0) (e : Entry) :
    (put s k e).length ≤ s.length := by
  have := length_erase_lt h
  simp only [put, List.length_append, List.length_cons, List.length_nil]; omega

theorem mem_keys_put (s : Store) (k k' : Key) (e : Entry) : k' ∈ keys (put s k e) ↔ k' = k ∨ k' ∈ keys s := by
  rw [Mem.keys_put]
  simp only [List.mem_append, List.mem_filter, List.mem_singleton, decide_eq_true_eq]
  by_cases h : k' = k <;> simp [h]

theorem mem_keys_erase (s : Store) (k k' : Key) : k' ∈ keys (erase s k) ↔ k' ≠ k ∧ k' ∈ keys s := by
  rw [keys_erase]
  simp only [List.mem_filter, decide_eq_true_eq]
  exact And.comm

theorem keys_erase_sublist (s : Store) (k : Key) : (keys (erase s k)).Sublist (keys s) := by
  rw [keys_erase]; exact List.filter_sublist

theorem keys_trim_sublist (cap : Nat) (s : Store) : (keys (Mem.trim cap s)).Sublist (keys s) := by
  unfold Mem.trim
  split
  · unfold keys; rw [List.map_tail]; exact List.tail_sublist _
  · exact List.Sublist.refl _

theorem length_trim_le {cap : Nat} {s : Store} (h : s.length ≤ cap + 1) : (Mem.trim cap s).length ≤ cap := by
  unfold Mem.trim
  split
  · simp only [List.length_tail]; omega
  · omega

/-- a key of the store survives `trim` unless it is the victim -/
theorem trim_cases (cap : Nat) (s : Store) {k : Key} (h : k ∈ keys s) :
    k ∈ keys (Mem.trim cap s) ∨ victim? cap s = some k := by
  unfold Mem.trim victim?
  split
  · cases s with
    | nil => simp [keys] at h
    | cons p s =>
      obtain ⟨k0, e0⟩ := p
      simp only [keys, List.map_cons, List.mem_cons] at h
      rcases h with h | h
      · right; simp [h]
      · left; simpa [keys] using h
  · exact Or.inl h

theorem mem_keys_exists {s : Store} {k : Key} (h : k ∈ keys s) : ∃ e, (k, e) ∈ s := by
  simp only [keys, List.mem_map] at h
  obtain ⟨⟨k0, e⟩, h1, h2⟩ := h
  exact ⟨e, by simp only at h2; subst h2; exact h1⟩

theorem keys_filter_sublist (p : Key × Entry → Bool) (s : Store) : (keys (s.filter p)).Sublist (keys s) :=
  List.Sublist.map _ List.filter_sublist

end Store

/-! ### the invariant -/

namespace Lru

def MoreRecent (log : List Key) (a b : Key) : Prop := lastUse log a < lastUse log b

/-- store order = recency order: front to back strictly increasing in `lastUse` -/
def Ord (x : Lru) : Prop := (keys x.mem.store).Pairwise (MoreRecent x.log)

def Bounded (x : Lru) : Prop := x.mem.store.length ≤ x.mem.cap

def EvsGood (x : Lru) : Prop := ∀ ev ∈ x.evs, ManyRecentOthers x.mem.cap ev.2 ev.1

def Held (x : Lru) : Prop :=
  ∀ k ∈ x.log, k ∈ keys x.mem.store ∨ k ∈ x.gone ∨ ManyRecentOthers x.mem.cap x.log k

structure Inv (x : Lru) : Prop where
  ord : Ord x
  bounded : Bounded x
  evs : EvsGood x
  held : Held x

theorem Ord.nodup {x : Lru} (h : Ord x) : (keys x.mem.store).Nodup := by
  rw [List.nodup_iff_pairwise_ne]
  exact List.Pairwise.imp (fun {a b} (hab : lastUse x.log a < lastUse x.log b) => by
    intro e; subst e; exact Nat.lt_irrefl _ hab) h

/-- order after `put` + a use of `k` -/
theorem pairwise_put {log : List Key} {st : Store} (h : (keys st).Pairwise (MoreRecent log)) (k : Key) (e : Entry) :
    (keys (put st k e)).Pairwise (MoreRecent (k :: log)) := by
  rw [Mem.keys_put, List.pairwise_append]
  refine ⟨?_, List.pairwise_singleton _ _, ?_⟩
  · have h1 : ((keys st).filter (· ≠ k)).Pairwise (MoreRecent log) := h.sublist List.filter_sublist
    refine List.Pairwise.imp_of_mem ?_ h1
    intro a b ha hb hab
    have ha' : a ≠ k := by simpa using (List.mem_filter.mp ha).2
    have hb' : b ≠ k := by simpa using (List.mem_filter.mp hb).2
    unfold MoreRecent at hab ⊢
    rw [lastUse_cons_ne log (Ne.symm ha'), lastUse_cons_ne log (Ne.symm hb')]
    exact hab
  · intro a ha b hb
    have ha' : a ≠ k := by simpa using (List.mem_filter.mp ha).2
    simp only [List.mem_singleton] at hb
    subst hb
    unfold MoreRecent
    rw [lastUse_cons_ne log (Ne.symm ha'), lastUse_cons_self]
    have := lastUse_le log a
    omega

/-- **victim lemma**: in a store ordered by recency that exceeds the capacity, the front key has at least
`cap` distinct other keys behind it, all used more recently -/
theorem victim_many {cap : Nat} {log : List Key} {st : Store} (h : (keys st).Pairwise (MoreRecent log))
    {kv : Key} (hv : victim? cap st = some kv) : ManyRecentOthers cap log kv := by
  unfold victim? at hv
  split at hv
  · rename_i hlen
    cases st with
    | nil => simp at hv
    | cons p st =>
      obtain ⟨k0, e0⟩ := p
      simp only [List.head?_cons, Option.map_some, Option.some.injEq] at hv
      subst hv
      simp only [keys, List.map_cons, List.pairwise_cons] at h
      refine ⟨keys st, ?_, ?_, ?_⟩
      · rw [List.nodup_iff_pairwise_ne]
        exact List.Pairwise.imp (fun {a b} (hab : lastUse log a < lastUse log b) => by
          intro e; subst e; exact Nat.lt_irrefl _ hab) h.2
      · simp only [List.length_cons] at hlen
        simp only [keys, List.length_map]; omega
      · intro w hw
        have hlt : lastUse log k0 < lastUse log w := h.1 w hw
        refine ⟨?_, mem_usedSince_of_lastUse_lt hlt⟩
        intro e; subst e; exact Nat.lt_irrefl _ hlt
  · simp at hv

/-! #### each primitive action preserves the invariant -/

theorem inv_init (cap : Nat) : Inv (Lru.init cap) :=
  ⟨by simp [Ord, init, Mem.init, keys], by simp [Bounded, init, Mem.init], by simp [EvsGood, init],
   by simp [Held, init]⟩

theorem inv_gGet (x : Lru) (k : Key) (h : Inv x) : Inv (x.gGet k).1 := by
  cases hl : lookup x.mem.store k with
  | none => rw [gGet_absent hl]; exact h
  | some e =>
    by_cases hlive : e.live x.mem.now = true
    · rw [gGet_hit hl hlive]
      refine ⟨pairwise_put h.ord k e, ?_, h.evs, ?_⟩
      · exact Nat.le_trans (length_put_of_mem hl e) h.bounded
      · intro k' hk'
        simp only [List.mem_cons] at hk'
        by_cases hkk : k' = k
        · left; exact (mem_keys_put _ _ _ _).mpr (Or.inl hkk)
        · rcases hk' with hk' | hk'
          · exact absurd hk' hkk
          · rcases h.held k' hk' with h1 | h1 | h1
            · left; exact (mem_keys_put _ _ _ _).mpr (Or.inr h1)
            · right; left; exact h1
            · right; right; exact h1.cons (Ne.symm hkk)
    · have hdead : e.live x.mem.now = false := by simpa using hlive
      rw [gGet_dead hl hdead]
      refine ⟨h.ord.sublist (keys_erase_sublist _ _), ?_, h.evs, ?_⟩
      · exact Nat.le_trans (length_erase_le _ _) h.bounded
      · intro k' hk'
        rcases h.held k' hk' with h1 | h1 | h1
        · by_cases hkk : k' = k
          · right; left; simp [hkk]
          · left; exact (mem_keys_erase _ _ _).mpr ⟨hkk, h1⟩
        · right; left; exact List.mem_cons_of_mem _ h1
        · right; right; exact h1

theorem inv_gSet (x : Lru) (k : Key) (v : Val) (ttl : Option Nat) (h : Inv x) : Inv (x.gSet k v ttl) := by
  have hp := pairwise_put h.ord k ⟨v, x.mem.newDeadline k ttl⟩
  refine ⟨?_, ?_, ?_, ?_⟩
  · exact hp.sublist (keys_trim_sublist _ _)
  · have h1 := length_put_le x.mem.store k ⟨v, x.mem.newDeadline k ttl⟩
    have h2 := h.bounded
    unfold Bounded at h2
    exact length_trim_le (by omega)
  · intro ev hev
    simp only [gSet] at hev
    split at hev
    · rename_i kv hkv
      rcases List.mem_cons.mp hev with hev | hev
      · subst hev; exact victim_many hp hkv
      · exact h.evs ev hev
    · exact h.evs ev hev
  · intro k' hk'
    have key : k' ∈ keys (put x.mem.store k ⟨v, x.mem.newDeadline k ttl⟩) →
        k' ∈ keys (x.gSet k v ttl).mem.store ∨ k' ∈ (x.gSet k v ttl).gone ∨
          ManyRecentOthers (x.gSet k v ttl).mem.cap (x.gSet k v ttl).log k' := by
      intro hmem
      rcases trim_cases x.mem.cap _ hmem with h1 | h1
      · exact Or.inl h1
      · exact Or.inr (Or.inr (victim_many hp h1))
    simp only [gSet, List.mem_cons] at hk'
    by_cases hkk : k' = k
    · exact key ((mem_keys_put _ _ _ _).mpr (Or.inl hkk))
    · rcases hk' with hk' | hk'
      · exact absurd hk' hkk
      · rcases h.held k' hk' with h1 | h1 | h1
        · exact key ((mem_keys_put _ _ _ _).mpr (Or.inr h1))
        · right; left
          simp only [gSet, List.mem_filter]
          exact ⟨h1, by simpa using hkk⟩
        · right; right; exact h1.cons (Ne.symm hkk)

theorem inv_gDelete (x : Lru) (k : Key) (h : Inv x) : Inv (x.gDelete k).1 := by
  cases hl : lookup x.mem.store k with
  | none => rw [gDelete_absent hl]; exact h
  | some e =>
    rw [gDelete_present hl]
    refine ⟨h.ord.sublist (keys_erase_sublist _ _), ?_, h.evs, ?_⟩
    · exact Nat.le_trans (length_erase_le _ _) h.bounded
    · intro k' hk'
      rcases h.held k' hk' with h1 | h1 | h1
      · by_cases hkk : k' = k
        · right; left; simp [hkk]
        · left; exact (mem_keys_erase _ _ _).mpr ⟨hkk, h1⟩
      · right; left; exact List.mem_cons_of_mem _ h1
      · right; right; exact h1

theorem inv_gClear (x : Lru) (h : Inv x) : Inv x.gClear := by
  refine ⟨by simp [Ord, gClear, keys], by simp [Bounded, gClear], h.evs, ?_⟩
  intro k' hk'
  rcases h.held k' hk' with h1 | h1 | h1
  · right; left; exact List.mem_append_left _ h1
  · right; left; exact List.mem_append_right _ h1
  · right; right; exact h1

theorem inv_gAdv (x : Lru) (dt : Nat) (h : Inv x) : Inv (x.gAdv dt) := ⟨h.ord, h.bounded, h.evs, h.held⟩

theorem inv_gPurge (x : Lru) (h : Inv x) : Inv x.gPurge := by
  have hp := Mem.purge_eq x.mem h.ord.nodup
  unfold gPurge
  rw [hp]
  refine ⟨h.ord.sublist (keys_filter_sublist _ _), ?_, h.evs, ?_⟩
  · exact Nat.le_trans (List.length_filter_le _ _) h.bounded
  · intro k' hk'
    rcases h.held k' hk' with h1 | h1 | h1
    · obtain ⟨e, he⟩ := mem_keys_exists h1
      by_cases hlive : e.live x.mem.now = true
      · left
        have : (k', e) ∈ x.mem.store.filter (fun p => p.2.live x.mem.now) := List.mem_filter.mpr ⟨he, hlive⟩
        exact List.mem_map.mpr ⟨(k', e), this, rfl⟩
      · right; left
        have : (k', e) ∈ x.mem.store.filter (fun p => !p.2.live x.mem.now) :=
          List.mem_filter.mpr ⟨he, by simpa using hlive⟩
        exact List.mem_append_left _ (List.mem_map.mpr ⟨(k', e), this, rfl⟩)
    · right; left; exact List.mem_append_right _ h1
    · right; right; exact h1

theorem inv_closed : Closed Inv :=
  ⟨inv_gGet, inv_gSet, inv_gDelete, inv_gClear, inv_gAdv, inv_gPurge⟩

/-- the invariant holds after every history -/
theorem inv_run (cap : Nat) (ops : List Op) : Inv ((Lru.init cap).run ops).1 :=
  inv_closed.run ops _ (inv_init cap)

/-! #### the capacity never changes -/

theorem cap_closed (c : Nat) : Closed (fun x => x.mem.cap = c) := by
  refine ⟨?_, ?_, ?_, ?_, ?_, ?_⟩
  · intro x k h; rw [(gGet_mem x k).1, Mem.rawGet_cap]; exact h
  · intro x k v ttl h; exact h
  · intro x k h; rw [(gDelete_mem x k).1, Mem.rawDelete_cap]; exact h
  · intro x h; exact h
  · intro x dt h; exact h
  · intro x h
    show x.mem.purge.cap = c
    unfold Mem.purge
    generalize keys x.mem.store = ks
    have : ∀ (ks : List Key) (s : Mem), (ks.foldl (fun s k => (s.rawGet k).1) s).cap = s.cap := by
      intro ks
      induction ks with
      | nil => intro s; rfl
      | cons k ks ih => intro s; simp only [List.foldl_cons]; rw [ih, Mem.rawGet_cap]
    rw [this]; exact h

theorem cap_run (cap : Nat) (ops : List Op) : ((Lru.init cap).run ops).1.mem.cap = cap :=
  (cap_closed cap).run ops _ rfl

end Lru
end CashewsVerif
