import CashewsVerif.Lemmas.LockHealth
import CashewsVerif.Lemmas.TtlFacade
/-
C06 — the facade-level view of `lock()`: the ttl as the application writes it, and user middlewares.

`Cache.set_lock(key, value, expire)` (reached from `cache.lock(key, expire=…)`) and `decorators.locked(ttl=…)`
(`@cache.locked`) hand the ttl through `ttl_to_seconds` before the backend sees it.  `Model/TtlFacade.lean` says
what each spelling denotes; here the facade-level `lock()` call is lowered to the `enter` action of
`Model/Lock.lean`, so that every theorem of `Props/C06.lean` holds with "lease" = the DENOTED duration.
-/
namespace CashewsVerif.Lock
open CashewsVerif.Ttl

/-- `cache.lock(key, expire=…, wait=…)` / a call of a `@cache.locked(ttl=…, wait=…)` function, as written -/
structure FEnter where
  t : Nat
  th : Nat
  key : Nat
  expire : Option Plain
  wait : Bool

/-- `expire=ttl_to_seconds(expire)`; `none` = `ttl_to_seconds` raised (ValueError) before any backend was reached -/
def FEnter.lower (e : FEnter) : Option Act :=
  (lowerOpt e.expire).map fun ttl => .enter e.t e.th e.key ttl e.wait

theorem FEnter.lower_of_denotes (e : FEnter) (ttl : Option Nat) (h : DenotesOpt e.expire ttl) :
    e.lower = some (.enter e.t e.th e.key ttl e.wait) := by
  simp [FEnter.lower, DenotesOpt.lower_eq h]

/-- a call, with arguments `args`, of a function decorated with `@locked(ttl=sp)` / `@cache.locked(ttl=sp)`: the ttl may be
a callable of the call's arguments (`Ttl.Spelling`) -/
structure FCall where
  t : Nat
  th : Nat
  key : Nat
  ttl : Option Spelling
  args : Nat
  wait : Bool

/-- `_ttl = ttl_to_seconds(ttl, *args, **kwargs, with_callable=True)` in `_wrap`, i.e. on EVERY call, with the arguments of
that call; `none` = ValueError -/
def FCall.lower (c : FCall) : Option Act :=
  match c.ttl with
  | none => some (.enter c.t c.th c.key none c.wait)
  | some sp => (sp.ticks c.args 0).map fun d => .enter c.t c.th c.key (some d) c.wait

theorem FCall.lower_callable (c : FCall) (f : Nat → Nat → Plain) (d : Nat) (hs : c.ttl = some (.callable f))
    (hd : Denotes (f c.args 0) d) : c.lower = some (.enter c.t c.th c.key (some d) c.wait) := by
  simp [FCall.lower, hs, Spelling.ticks, hd.ticks_eq]

/-- the seeded defect as a lowering: a timedelta loses its sub-second part (`days * 86400 + seconds`) -/
def truncDelta (d : TDelta) : Nat := 8 * (86400 * d.days + d.seconds)

/-- A holds key 0 under a lease of `ttlA` ticks from instant 0, B waits; at tick 16 B attempts -/
def trLease (ttlA : Nat) : List Act :=
  [.enter 0 0 0 (some ttlA) true, .attempt 0, .enter 1 1 0 (some 8) true, .attempt 1, .tick 16, .attempt 1]

theorem mapKey_keysIn (f : Nat → Nat) (keyOk : Key → Prop) (a : Act) (h : a.keysIn (fun k => keyOk (f k))) :
    (a.mapKey f).keysIn keyOk := by
  cases a <;> simpa [Act.mapKey, Act.keysIn] using h

end CashewsVerif.Lock
