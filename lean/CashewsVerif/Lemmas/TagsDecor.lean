import CashewsVerif.Lemmas.TagsMatch
/-
Lemmas about the tag model, part 9: the decorators that write a key again while it is alive (`early`, `soft`,
`hit` / `dynamic`).  Their calls are programs over the wrapper commands (`Model/Tags.lean`: `earlyCall`, `softCall`,
`hitCall`); whenever the body ran, the program contains the tagged write `decorWrite k _ ttl tags` and nothing after it
writes `k` - so the ghost `last k` (= `latestTags`) is the tag list of the call, and the history theorems apply.
-/
namespace CashewsVerif.Tags
open St

/-- a command that does not write `k` leaves "the tags of the latest write of `k`" alone -/
theorem step_last_frame (cfg : Cfg) (s : St) (op : TOp) (k : Nat) (h : op.writes k = false) :
    (step cfg s op).1.last k = s.last k := by
  rw [step_last, h]; simp

theorem exec_last_frame (cfg : Cfg) (ops : List TOp) (s : St) (k : Nat) (h : ∀ op ∈ ops, op.writes k = false) :
    (exec cfg s ops).last k = s.last k := by
  induction ops generalizing s with
  | nil => rfl
  | cons op r ih =>
    rw [exec_cons, ih _ (fun o ho => h o (List.mem_cons_of_mem _ ho)),
      step_last_frame cfg s op k (h op (List.mem_cons_self ..))]

/-- the decorator's write sets "the tags of the latest write" to the tags of the call -/
theorem decorWrite_last (cfg : Cfg) (s : St) (k : Nat) (v : Val) (ttl : Option Nat) (tags : List Nat) :
    (step cfg s (decorWrite k v ttl tags)).1.last k = tags := by
  rw [step_last]
  simp [decorWrite, step, wset, TOp.writes, TOp.wrote, TOp.tagsFor]

/-- a program that contains the decorator's write of `k`, followed only by commands that do not write `k` -/
theorem last_after_decorWrite (cfg : Cfg) (s : St) (pre post : List TOp) (k : Nat) (v : Val) (ttl : Option Nat)
    (tags : List Nat) (hpost : ∀ op ∈ post, op.writes k = false) :
    (exec cfg s (pre ++ decorWrite k v ttl tags :: post)).last k = tags := by
  rw [exec_append, exec_cons, exec_last_frame cfg post _ k hpost, decorWrite_last]

theorem delete_not_writes (k lk : Nat) : (TOp.delete lk).writes k = false := rfl

/-- the shape of a program in which the decorator wrote `k` with `tags`, and nothing after that writes `k` -/
def WritesLast (k : Nat) (ttl : Option Nat) (tags : List Nat) (ops : List TOp) : Prop :=
  ∃ pre post v, ops = pre ++ decorWrite k v ttl tags :: post ∧ ∀ op ∈ post, op.writes k = false

theorem simpleCall_shape (cfg : Cfg) (s : St) (k : Nat) (v : Val) (ttl : Option Nat) (tags : List Nat) (r : Run) :
    bodyRan (simpleCall cfg s k v ttl tags r).2 = true → WritesLast k ttl tags (simpleCall cfg s k v ttl tags r).1 := by
  unfold simpleCall
  split
  · intro h; simp [bodyRan] at h
  · split
    · intro _; exact ⟨[.get k, .adv r.dur], [], _, rfl, by simp⟩
    · intro h; simp [bodyRan] at h

theorem earlyCall_shape (cfg : Cfg) (s : St) (k lk x : Nat) (ttl : Option Nat) (early : Nat) (tags : List Nat) (r : Run) :
    bodyRan (earlyCall cfg s k lk x ttl early tags r).2 = true →
      WritesLast k ttl tags (earlyCall cfg s k lk x ttl early tags r).1 := by
  unfold earlyCall earlyCallWith
  simp only
  split
  · split
    · intro _; exact ⟨[.get k, .adv r.dur], [], _, rfl, by simp⟩
    · intro h; simp [bodyRan] at h
  · split
    · intro h; simp [bodyRan] at h
    · split
      · split
        · intro _
          exact ⟨[.get k, .set lk (.tok 1) (some early) .nx [], .adv r.dur], [.delete lk], _, rfl,
            by intro op ho; simp at ho; subst ho; rfl⟩
        · intro h; simp [bodyRan] at h
      · intro h; simp [bodyRan] at h
  · intro h; simp [bodyRan] at h

theorem softCall_shape (cfg : Cfg) (s : St) (k x : Nat) (ttl : Option Nat) (soft : Nat) (tags : List Nat) (r : Run) :
    bodyRan (softCall cfg s k x ttl soft tags r).2 = true → WritesLast k ttl tags (softCall cfg s k x ttl soft tags r).1 := by
  have hc : bodyRan (if r.accept = true then
        (([.get k, .adv r.dur, decorWrite k (.nums [s.now + r.dur + soft, x]) ttl tags], .vals [some (.tok x)]) : List TOp × Out)
      else ([.get k, .adv r.dur], .vals [none])).2 = true →
      WritesLast k ttl tags (if r.accept = true then
        (([.get k, .adv r.dur, decorWrite k (.nums [s.now + r.dur + soft, x]) ttl tags], .vals [some (.tok x)]) : List TOp × Out)
      else ([.get k, .adv r.dur], .vals [none])).1 := by
    split
    · intro _; exact ⟨[.get k, .adv r.dur], [], _, rfl, by simp⟩
    · intro h; simp [bodyRan] at h
  unfold softCall
  simp only
  split
  · exact hc
  · split
    · intro h; simp [bodyRan] at h
    · exact hc
  · intro h; simp [bodyRan] at h

theorem hitCall_shape (cfg : Cfg) (s : St) (k kc x : Nat) (ttl : Option Nat) (tags : List Nat) (ch ua : Nat) (r : Run) :
    bodyRan (hitCall cfg s k kc x ttl tags ch ua r).2 = true → WritesLast k ttl tags (hitCall cfg s k kc x ttl tags ch ua r).1 := by
  have hs : ∀ acc : Bool, bodyRan (if acc = true then
        (([.get k, .incr kc 1 ttl tags, .adv r.dur, .delete kc, decorWrite k (.tok x) ttl tags], .vals [some (.tok x)]) : List TOp × Out)
      else ([.get k, .incr kc 1 ttl tags, .adv r.dur], .vals [none])).2 = true →
      WritesLast k ttl tags (if acc = true then
        (([.get k, .incr kc 1 ttl tags, .adv r.dur, .delete kc, decorWrite k (.tok x) ttl tags], .vals [some (.tok x)]) : List TOp × Out)
      else ([.get k, .incr kc 1 ttl tags, .adv r.dur], .vals [none])).1 := by
    intro acc
    split
    · intro _; exact ⟨[.get k, .incr kc 1 ttl tags, .adv r.dur, .delete kc], [], _, rfl, by simp⟩
    · intro h; simp [bodyRan] at h
  unfold hitCall
  simp only
  split
  · split
    · split
      · exact hs _
      · intro h; simp [bodyRan] at h
    · exact hs _
  · exact hs _
  · intro h; simp [bodyRan] at h

/-- **whenever the body of a decorated call ran and its result was stored, the latest write of its key carries the call's
tags** - for the simple decorator's miss and for every re-write path of `early` (recalculation ahead of the deadline),
`soft` (recomputation after the soft deadline) and `hit` / `dynamic` (update at `update_after`, recomputation beyond
`cache_hits`), under every option that changes the wrapping path (`Run`: `upper=True`, `lock=True`, `protected=False`,
`time_condition=`) -/
theorem decorCall_last {cfg : Cfg} {s : St} {k : Nat} {ttl : Option Nat} {tags : List Nat} {p : List TOp × Out}
    (hp : DecorCall cfg s k ttl tags p) (hran : bodyRan p.2 = true) : (exec cfg s p.1).last k = tags := by
  have fin : ∀ ops, WritesLast k ttl tags ops → (exec cfg s ops).last k = tags := by
    intro ops ⟨pre, post, v, he, hpost⟩
    rw [he]; exact last_after_decorWrite cfg s pre post k v ttl tags hpost
  cases hp with
  | simple v =>
    show (step cfg s (.call k v ttl tags)).1.last k = tags
    rw [step_last]
    cases hout : (step cfg s (.call k v ttl tags)).2 <;> simp [hout, bodyRan] at hran ⊢ <;>
      simp [TOp.writes, TOp.wrote, TOp.tagsFor]
  | simpleOpt v r => exact fin _ (simpleCall_shape cfg s k v ttl tags r hran)
  | early lk x early r hne => exact fin _ (earlyCall_shape cfg s k lk x ttl early tags r hran)
  | soft x soft r => exact fin _ (softCall_shape cfg s k x ttl soft tags r hran)
  | hit kc x ch ua r hne => exact fin _ (hitCall_shape cfg s k kc x ttl tags ch ua r hran)

/-! ### `delete_many` over prefix-routed backends -/

theorem mem_ownersOf (owner : Nat → Nat) (ks : List Nat) (k : Nat) (h : k ∈ ks) : owner k ∈ ownersOf owner ks := by
  induction ks with
  | nil => cases h
  | cons x r ih =>
    simp only [ownersOf, List.mem_cons, List.mem_filter]
    by_cases hx : owner k = owner x
    · exact Or.inl hx
    · right
      rcases List.mem_cons.mp h with h' | h'
      · subst h'; exact absurd rfl hx
      · exact ⟨ih h', by simpa using hx⟩

theorem mem_groupsBy (owner : Nat → Nat) (ks : List Nat) (k : Nat) :
    (∃ g ∈ groupsBy owner ks, k ∈ g) ↔ k ∈ ks := by
  constructor
  · rintro ⟨g, hg, hk⟩
    simp only [groupsBy, List.mem_map] at hg
    obtain ⟨b, _, rfl⟩ := hg
    exact (List.mem_filter.mp hk).1
  · intro hk
    refine ⟨ks.filter (owner · = owner k), ?_, ?_⟩
    · simp only [groupsBy, List.mem_map]
      exact ⟨owner k, mem_ownersOf owner ks k hk, rfl⟩
    · exact List.mem_filter.mpr ⟨hk, by simp⟩

theorem foldl_groups_kv_since (cfg : Cfg) (gs : List (List Nat)) (s : St) (k : Nat) :
    ((gs.foldl (fun s g => g.foldl (delKey cfg) s) s).kv k = if (∃ g ∈ gs, k ∈ g) then none else s.kv k) ∧
    ((gs.foldl (fun s g => g.foldl (delKey cfg) s) s).since k = if (∃ g ∈ gs, k ∈ g) then [] else s.since k) := by
  induction gs generalizing s with
  | nil => simp
  | cons g r ih =>
    simp only [List.foldl_cons]
    obtain ⟨h1, h2⟩ := ih (g.foldl (delKey cfg) s)
    rw [h1, h2, foldl_delKey_kv, foldl_delKey_since]
    by_cases hr : ∃ g' ∈ r, k ∈ g'
    · have : ∃ g' ∈ g :: r, k ∈ g' := by obtain ⟨g', hg', hk⟩ := hr; exact ⟨g', List.mem_cons_of_mem _ hg', hk⟩
      simp [hr]
    · by_cases hg : k ∈ g
      · have : ∃ g' ∈ g :: r, k ∈ g' := ⟨g, List.mem_cons_self .., hg⟩
        simp [hr, hg]
      · have : ¬ ∃ g' ∈ g :: r, k ∈ g' := by
          rintro ⟨g', hg', hk⟩
          rcases List.mem_cons.mp hg' with e | e
          · subst e; exact hg hk
          · exact hr ⟨g', e, hk⟩
        simp [hr, hg]

end CashewsVerif.Tags
