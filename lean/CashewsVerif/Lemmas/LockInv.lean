import CashewsVerif.Lemmas.LockContract
/-
The invariant of the lock protocol (C06) over any backend that satisfies the lock contract,
and its preservation by every action.
-/
namespace CashewsVerif.Lock

variable {σ : Type} {B : LockOps σ} {Ok : σ → Prop} {keyOk : Key → Prop}

/-- the keys an action names are in the backend's key universe -/
def Act.keysIn (keyOk : Key → Prop) : Act → Prop
  | .enter _ _ key _ _ => keyOk key
  | _ => True

structure Inv (B : LockOps σ) (Ok : σ → Prop) (keyOk : Key → Prop) (s : LockSt σ) : Prop where
  ok : Ok s.be
  /-- identifiers in use were drawn from the oracle -/
  fresh : ∀ t n, (s.tasks t).tok? = some n → n < s.next
  /-- no two activations carry the same identifier -/
  distinct : ∀ t1 t2 n, (s.tasks t1).tok? = some n → (s.tasks t2).tok? = some n → t1 = t2
  keys : ∀ t key ttl wait tok, s.tasks t = .trying key ttl wait tok → keyOk key
  /-- a task inside its section and within its lease owns the live lock -/
  holds : ∀ t key tok dl, s.tasks t = .inside key tok dl → liveAt dl (B.now s.be) = true →
      B.owner s.be key = some (ownTok tok, dl)
  /-- every live lock belongs to a task that is inside the section under exactly that lease -/
  owned : ∀ key v dl, B.owner s.be key = some (v, dl) →
      ∃ t tok, v = ownTok tok ∧ s.tasks t = .inside key tok dl

theorem setTask_tasks (s : LockSt σ) (t t' : Nat) (x : TState) :
    (setTask s t x).tasks t' = if t' = t then x else s.tasks t' := rfl

theorem ownTok_inj {a b : Nat} (h : ownTok a = ownTok b) : a = b := by
  simpa [ownTok] using h

theorem ownTok_ne_alien (a b : Nat) : ownTok a ≠ alienTok b := by
  simp [ownTok, alienTok]

/-- the start states: a backend without live locks, nobody has called `lock()` yet -/
def Start (B : LockOps σ) (Ok : σ → Prop) (s : LockSt σ) : Prop :=
  Ok s.be ∧ (∀ k, B.owner s.be k = none) ∧ ∀ t, s.tasks t = .idle

theorem inv_start {s : LockSt σ} (h : Start B Ok s) : Inv B Ok keyOk s where
  ok := h.1
  fresh := by intro t n ht; rw [h.2.2 t] at ht; simp [TState.tok?] at ht
  distinct := by intro t1 t2 n ht; rw [h.2.2 t1] at ht; simp [TState.tok?] at ht
  keys := by intro t key ttl wait tok ht; rw [h.2.2 t] at ht; simp at ht
  holds := by intro t key tok dl ht; rw [h.2.2 t] at ht; simp at ht
  owned := by intro key v dl ho; rw [h.2.1 key] at ho; simp at ho

/-- the invariant reads only the store, the activations and the identifier counter -/
theorem inv_of_same_core {s s' : LockSt σ} (h : Inv B Ok keyOk s)
    (hbe : s'.be = s.be) (htasks : s'.tasks = s.tasks) (hnext : s'.next = s.next) :
    Inv B Ok keyOk s' := by
  obtain ⟨ok, fresh, distinct, keys, holds, owned⟩ := h
  refine ⟨by rw [hbe]; exact ok, ?_, ?_, ?_, ?_, ?_⟩
  · intro t n; rw [htasks, hnext]; exact fresh t n
  · intro t1 t2 n; rw [htasks]; exact distinct t1 t2 n
  · intro t key ttl wait tok; rw [htasks]; exact keys t key ttl wait tok
  · intro t key tok dl; rw [htasks, hbe]; exact holds t key tok dl
  · intro key v dl; rw [htasks, hbe]; exact owned key v dl

theorem inv_enter {s : LockSt σ} (h : Inv B Ok keyOk s)
    (t th key : Nat) (ttl : Option Nat) (wait : Bool) (hk : keyOk key) :
    Inv B Ok keyOk (step B s (.enter t th key ttl wait)).1 := by
  unfold step
  by_cases hb : (s.tasks t).busy
  · simp only [hb, if_true]; exact h
  · simp only [hb, Bool.false_eq_true, if_false]
    have hnt : (s.tasks t).tok? = none := by
      cases hs : s.tasks t <;> simp [hs, TState.busy, TState.tok?] at hb ⊢
    refine ⟨h.ok, ?_, ?_, ?_, ?_, ?_⟩
    · intro t' n ht
      simp only [setTask_tasks] at ht
      by_cases e : t' = t
      · simp [e, TState.tok?] at ht; show n < s.next + 1; omega
      · simp only [e, if_false] at ht; have := h.fresh t' n ht; show n < s.next + 1; omega
    · intro t1 t2 n h1 h2
      simp only [setTask_tasks] at h1 h2
      by_cases e1 : t1 = t <;> by_cases e2 : t2 = t
      · rw [e1, e2]
      · simp [e1, TState.tok?] at h1; simp only [e2, if_false] at h2
        have := h.fresh t2 n h2; omega
      · simp [e2, TState.tok?] at h2; simp only [e1, if_false] at h1
        have := h.fresh t1 n h1; omega
      · simp only [e1, e2, if_false] at h1 h2; exact h.distinct t1 t2 n h1 h2
    · intro t' key' ttl' wait' tok' ht
      simp only [setTask_tasks] at ht
      by_cases e : t' = t
      · simp [e] at ht; rw [← ht.1]; exact hk
      · simp only [e, if_false] at ht; exact h.keys t' key' ttl' wait' tok' ht
    · intro t' key' tok' dl ht hl
      simp only [setTask_tasks] at ht
      by_cases e : t' = t
      · simp [e] at ht
      · simp only [e, if_false] at ht; exact h.holds t' key' tok' dl ht hl
    · intro key' v dl ho
      obtain ⟨t0, tok0, hv, ht0⟩ := h.owned key' v dl ho
      refine ⟨t0, tok0, hv, ?_⟩
      simp only [setTask_tasks]
      have : t0 ≠ t := by
        intro e; rw [e] at ht0; rw [ht0] at hnt; simp [TState.tok?] at hnt
      simp only [this, if_false]; exact ht0

/-- changing only the backend, with the same clock and the same live locks, keeps the invariant -/
theorem inv_of_same_view {s : LockSt σ} (h : Inv B Ok keyOk s) (be' : σ) (hok : Ok be')
    (hnow : B.now be' = B.now s.be) (hown : ∀ k, B.owner be' k = B.owner s.be k) :
    Inv B Ok keyOk { s with be := be' } where
  ok := hok
  fresh := h.fresh
  distinct := h.distinct
  keys := h.keys
  holds := by
    intro t key tok dl ht hl
    show B.owner be' key = _
    rw [hown]; exact h.holds t key tok dl ht (by rw [← hnow]; exact hl)
  owned := by
    intro key v dl ho
    exact h.owned key v dl (by rw [← hown]; exact ho)

/-- a task that stops being busy (or stays as it is) without touching the backend -/
theorem inv_retire {s : LockSt σ} (h : Inv B Ok keyOk s) (t : Nat) (x : TState)
    (hx : x.tok? = none) (hnot : ∀ key tok dl, s.tasks t ≠ .inside key tok dl) :
    Inv B Ok keyOk (setTask s t x) where
  ok := h.ok
  fresh := by
    intro t' n ht
    simp only [setTask_tasks] at ht
    by_cases e : t' = t
    · simp [e, hx] at ht
    · simp only [e, if_false] at ht; exact h.fresh t' n ht
  distinct := by
    intro t1 t2 n h1 h2
    simp only [setTask_tasks] at h1 h2
    by_cases e1 : t1 = t
    · simp [e1, hx] at h1
    · by_cases e2 : t2 = t
      · simp [e2, hx] at h2
      · simp only [e1, e2, if_false] at h1 h2; exact h.distinct t1 t2 n h1 h2
  keys := by
    intro t' key ttl wait tok ht
    simp only [setTask_tasks] at ht
    by_cases e : t' = t
    · simp only [e, if_true] at ht; rw [ht] at hx; simp [TState.tok?] at hx
    · simp only [e, if_false] at ht; exact h.keys t' key ttl wait tok ht
  holds := by
    intro t' key tok dl ht hl
    simp only [setTask_tasks] at ht
    by_cases e : t' = t
    · simp only [e, if_true] at ht; rw [ht] at hx; simp [TState.tok?] at hx
    · simp only [e, if_false] at ht; exact h.holds t' key tok dl ht hl
  owned := by
    intro key v dl ho
    obtain ⟨t0, tok0, hv, ht0⟩ := h.owned key v dl ho
    refine ⟨t0, tok0, hv, ?_⟩
    simp only [setTask_tasks]
    have : t0 ≠ t := by intro e; rw [e] at ht0; exact hnot _ _ _ ht0
    simp only [this, if_false]; exact ht0

theorem inv_attemptCore (C : LockContract B Ok keyOk) {s : LockSt σ} (h : Inv B Ok keyOk s) (t : Nat)
    (key : Nat) (ttl : Option Nat) (wait : Bool) (tok : Nat) (hl : Health)
    (hts : s.tasks t = .trying key ttl wait tok) :
    Inv B Ok keyOk (attemptCore B s t key ttl wait tok hl).1 := by
  have hk : keyOk key := h.keys t key ttl wait tok hts
  unfold attemptCore
  cases hsl : hl.setLock with
  | false =>
    -- the command is disabled: nothing reaches the backend, the caller walks in without a lock
    simp only [Bool.false_eq_true, if_false]
    exact inv_retire h t (.unguarded key) rfl (by intro k' tk dl; rw [hts]; simp)
  | true =>
    simp only [if_true]
    cases hown : B.owner s.be key with
    | some o =>
      -- a live lock is there: `set_lock` answers False and changes nothing
      obtain ⟨hres, hkeep⟩ := C.setLock_held s.be key (ownTok tok) ttl o h.ok hk hown
      have hview : ∀ k, B.owner (B.setLock s.be key (ownTok tok) ttl).1 k = B.owner s.be k := by
        intro k
        by_cases e : k = key
        · rw [e, hkeep, hown]
        · exact C.setLock_frame s.be key (ownTok tok) ttl k h.ok hk e
      have h1 := inv_of_same_view h _ (C.setLock_ok s.be key (ownTok tok) ttl h.ok hk)
        (C.setLock_now s.be key (ownTok tok) ttl) hview
      simp only [hres, Bool.false_eq_true, if_false]
      cases hl.ping with
      | false =>
        simp only [Bool.false_eq_true, if_false]
        exact inv_retire h1 t (.unguarded key) rfl
          (by intro k' tk dl; show s.tasks t ≠ _; rw [hts]; simp)
      | true =>
        simp only [if_true]
        cases wait with
        | true => exact h1
        | false =>
          simp only [Bool.false_eq_true, if_false]
          exact inv_retire h1 t .failed rfl (by intro k' tk dl; show s.tasks t ≠ _; rw [hts]; simp)
    | none =>
      -- no live lock: `set_lock` answers True and the caller owns the key
      obtain ⟨hres, hnew⟩ := C.setLock_free s.be key (ownTok tok) ttl h.ok hk hown
      simp only [hres, if_true]
      have hnow := C.setLock_now s.be key (ownTok tok) ttl
      have hfr := fun k' (e : k' ≠ key) => C.setLock_frame s.be key (ownTok tok) ttl k' h.ok hk e
      refine ⟨C.setLock_ok s.be key (ownTok tok) ttl h.ok hk, ?_, ?_, ?_, ?_, ?_⟩
      · intro t' n ht
        simp only [setTask_tasks] at ht
        by_cases e : t' = t
        · simp [e, TState.tok?] at ht
          exact h.fresh t n (by rw [hts]; simp [TState.tok?, ht])
        · simp only [e, if_false] at ht; exact h.fresh t' n ht
      · intro t1 t2 n h1 h2
        simp only [setTask_tasks] at h1 h2
        have key1 : ∀ t', (if t' = t then TState.inside key tok (deadlineOf (B.now s.be) ttl)
            else s.tasks t').tok? = (s.tasks t').tok? := by
          intro t'
          by_cases e : t' = t
          · simp [e, hts, TState.tok?]
          · simp [e]
        rw [key1] at h1 h2
        exact h.distinct t1 t2 n h1 h2
      · intro t' key' ttl' wait' tok' ht
        simp only [setTask_tasks] at ht
        by_cases e : t' = t
        · simp [e] at ht
        · simp only [e, if_false] at ht; exact h.keys t' key' ttl' wait' tok' ht
      · intro t' key' tok' dl ht hl
        simp only [setTask_tasks] at ht
        show B.owner (B.setLock s.be key (ownTok tok) ttl).1 key' = _
        by_cases e : t' = t
        · simp only [e, if_true, TState.inside.injEq] at ht
          obtain ⟨e1, e2, e3⟩ := ht
          rw [← e1, ← e2, ← e3]; exact hnew
        · simp only [e, if_false] at ht
          have hl' : liveAt dl (B.now s.be) = true := by
            have : B.now (B.setLock s.be key (ownTok tok) ttl).1 = B.now s.be := hnow
            rw [← this]; exact hl
          have hold := h.holds t' key' tok' dl ht hl'
          by_cases ek : key' = key
          · rw [ek, hown] at hold; simp at hold
          · rw [hfr key' ek]; exact hold
      · intro key' v dl ho
        have ho' : B.owner (B.setLock s.be key (ownTok tok) ttl).1 key' = some (v, dl) := ho
        by_cases ek : key' = key
        · rw [ek, hnew] at ho'
          simp only [Option.some.injEq, Prod.mk.injEq] at ho'
          refine ⟨t, tok, ho'.1.symm, ?_⟩
          simp only [setTask_tasks, if_true, ek, ho'.2]
        · rw [hfr key' ek] at ho'
          obtain ⟨t0, tok0, hv, ht0⟩ := h.owned key' v dl ho'
          refine ⟨t0, tok0, hv, ?_⟩
          simp only [setTask_tasks]
          have : t0 ≠ t := by intro e; rw [e, hts] at ht0; simp at ht0
          simp only [this, if_false]; exact ht0

theorem inv_attempt (C : LockContract B Ok keyOk) {s : LockSt σ} (h : Inv B Ok keyOk s) (t : Nat) :
    Inv B Ok keyOk (step B s (.attempt t)).1 := by
  simp only [step]
  cases hts : s.tasks t with
  | idle => exact h
  | failed => exact h
  | done => exact h
  | inside _ _ _ => exact h
  | unguarded _ => exact h
  | trying key ttl wait tok => exact inv_attemptCore C h t key ttl wait tok _ hts

theorem inv_leave (C : LockContract B Ok keyOk) {s : LockSt σ} (h : Inv B Ok keyOk s) (t : Nat)
    (how : How) : Inv B Ok keyOk (step B s (.leave t how)).1 := by
  simp only [step]
  cases hts : s.tasks t with
  | idle => exact h
  | failed => exact h
  | done => exact h
  | trying _ _ _ _ => exact h
  | unguarded key =>
    exact inv_retire h t .done rfl (by intro k' tk dl; rw [hts]; simp)
  | inside key tok dl =>
    simp only
    have hnow := C.unlock_now s.be key (ownTok tok)
    have hfr := fun k' (e : k' ≠ key) => C.unlock_frame s.be key (ownTok tok) k' h.ok e
    have hok := C.unlock_ok s.be key (ownTok tok) h.ok
    -- whatever `unlock` answers: the other keys keep their locks, and on `key` either nothing
    -- changes (the caller is not the owner) or the caller's own lock goes away
    have hcase : (∀ k, B.owner (B.unlock s.be key (ownTok tok)).1 k = B.owner s.be k) ∨
        ((∃ d, B.owner s.be key = some (ownTok tok, d)) ∧
          B.owner (B.unlock s.be key (ownTok tok)).1 key = none) := by
      by_cases hmine : ∃ d, B.owner s.be key = some (ownTok tok, d)
      · obtain ⟨d, hd⟩ := hmine
        exact Or.inr ⟨⟨d, hd⟩, (C.unlock_owner s.be key (ownTok tok) d h.ok hd).2⟩
      · refine Or.inl fun k => ?_
        by_cases e : k = key
        · rw [e]
          exact (C.unlock_other s.be key (ownTok tok) h.ok
            (fun d hd => hmine ⟨d, hd⟩)).2
        · exact hfr k e
    refine ⟨hok, ?_, ?_, ?_, ?_, ?_⟩
    · intro t' n ht
      simp only [setTask_tasks] at ht
      by_cases e : t' = t
      · simp [e, TState.tok?] at ht
      · simp only [e, if_false] at ht; exact h.fresh t' n ht
    · intro t1 t2 n h1 h2
      simp only [setTask_tasks] at h1 h2
      by_cases e1 : t1 = t
      · simp [e1, TState.tok?] at h1
      · by_cases e2 : t2 = t
        · simp [e2, TState.tok?] at h2
        · simp only [e1, e2, if_false] at h1 h2; exact h.distinct t1 t2 n h1 h2
    · intro t' key' ttl' wait' tok' ht
      simp only [setTask_tasks] at ht
      by_cases e : t' = t
      · simp [e] at ht
      · simp only [e, if_false] at ht; exact h.keys t' key' ttl' wait' tok' ht
    · intro t' key' tok' dl' ht hl
      simp only [setTask_tasks] at ht
      show B.owner (B.unlock s.be key (ownTok tok)).1 key' = _
      by_cases e : t' = t
      · simp [e] at ht
      · simp only [e, if_false] at ht
        have hl' : liveAt dl' (B.now s.be) = true := by
          have : B.now (B.unlock s.be key (ownTok tok)).1 = B.now s.be := hnow
          rw [← this]; exact hl
        have hold := h.holds t' key' tok' dl' ht hl'
        rcases hcase with hsame | ⟨⟨d, hd⟩, _⟩
        · rw [hsame]; exact hold
        · by_cases ek : key' = key
          · -- the other task would own the same live lock with a different identifier
            rw [ek, hd] at hold
            simp only [Option.some.injEq, Prod.mk.injEq] at hold
            have : tok = tok' := ownTok_inj hold.1
            have : t = t' := h.distinct t t' tok (by rw [hts]; rfl) (by rw [ht, this]; rfl)
            exact absurd this.symm e
          · rw [hfr key' ek]; exact hold
    · intro key' v dl' ho
      have ho' : B.owner (B.unlock s.be key (ownTok tok)).1 key' = some (v, dl') := ho
      have hold : B.owner s.be key' = some (v, dl') := by
        rcases hcase with hsame | ⟨_, hgone⟩
        · rw [← hsame]; exact ho'
        · by_cases ek : key' = key
          · rw [ek, hgone] at ho'; simp at ho'
          · rw [← hfr key' ek]; exact ho'
      obtain ⟨t0, tok0, hv, ht0⟩ := h.owned key' v dl' hold
      refine ⟨t0, tok0, hv, ?_⟩
      simp only [setTask_tasks]
      have : t0 ≠ t := by
        intro e
        rw [e, hts] at ht0
        simp only [TState.inside.injEq] at ht0
        obtain ⟨e1, e2, e3⟩ := ht0
        -- then the leaving task was the owner, and its unlock removed the lock
        rw [← e1] at hold ho'
        rw [hv, ← e2] at hold
        have := (C.unlock_owner s.be key (ownTok tok) dl' h.ok hold).2
        rw [this] at ho'; simp at ho'
      simp only [this, if_false]; exact ht0

theorem inv_giveUp {s : LockSt σ} (h : Inv B Ok keyOk s) (t : Nat) :
    Inv B Ok keyOk (step B s (.giveUp t)).1 := by
  simp only [step]
  cases hts : s.tasks t with
  | idle => exact h
  | failed => exact h
  | done => exact h
  | inside _ _ _ => exact h
  | unguarded _ => exact h
  | trying key ttl wait tok =>
    exact inv_retire h t .failed rfl (by intro k' tk dl; rw [hts]; simp)

theorem liveAt_mono {dl : Option Nat} {now dt : Nat} (h : liveAt dl (now + dt) = true) :
    liveAt dl now = true := by
  unfold liveAt at *
  cases dl with
  | none => rfl
  | some d => simp at h ⊢; omega

theorem inv_tick (C : LockContract B Ok keyOk) {s : LockSt σ} (h : Inv B Ok keyOk s) (dt : Nat) :
    Inv B Ok keyOk (step B s (.tick dt)).1 := by
  simp only [step]
  refine ⟨C.tick_ok s.be dt h.ok, h.fresh, h.distinct, h.keys, ?_, ?_⟩
  · intro t key tok dl ht hl
    show B.owner (B.tick s.be dt) key = _
    have hl' : liveAt dl (B.now s.be + dt) = true := by
      rw [← C.tick_now s.be dt]; exact hl
    rw [C.tick_owner s.be dt key h.ok, h.holds t key tok dl ht (liveAt_mono hl')]
    simp [Option.filter, hl']
  · intro key v dl ho
    have ho' : B.owner (B.tick s.be dt) key = some (v, dl) := ho
    rw [C.tick_owner s.be dt key h.ok] at ho'
    cases hown : B.owner s.be key with
    | none => rw [hown] at ho'; simp at ho'
    | some o =>
      rw [hown] at ho'
      by_cases hl : liveAt o.2 (B.now s.be + dt)
      · simp [Option.filter, hl] at ho'
        exact h.owned key v dl (by rw [hown, ho'])
      · simp [Option.filter, hl] at ho'

theorem inv_foreignUnlock (C : LockContract B Ok keyOk) {s : LockSt σ} (h : Inv B Ok keyOk s)
    (key n : Nat) : Inv B Ok keyOk (step B s (.foreignUnlock key n)).1 := by
  simp only [step]
  have hne : ∀ d, B.owner s.be key ≠ some (alienTok n, d) := by
    intro d hd
    obtain ⟨t0, tok0, hv, _⟩ := h.owned key _ d hd
    exact ownTok_ne_alien tok0 n hv.symm
  refine inv_of_same_view h _ (C.unlock_ok s.be key (alienTok n) h.ok)
    (C.unlock_now s.be key (alienTok n)) ?_
  intro k
  by_cases e : k = key
  · rw [e]; exact (C.unlock_other s.be key (alienTok n) h.ok hne).2
  · exact C.unlock_frame s.be key (alienTok n) k h.ok e

theorem inv_probe (C : LockContract B Ok keyOk) {s : LockSt σ} (h : Inv B Ok keyOk s)
    (key : Nat) : Inv B Ok keyOk (step B s (.probe key)).1 := by
  simp only [step]
  exact inv_of_same_view h _ (C.isLocked_ok s.be key h.ok) (C.isLocked_now s.be key)
    (fun k => C.isLocked_owner s.be key k h.ok)

theorem inv_purge (C : LockContract B Ok keyOk) {s : LockSt σ} (h : Inv B Ok keyOk s) :
    Inv B Ok keyOk (step B s .purge).1 := by
  simp only [step]
  exact inv_of_same_view h _ (C.purge_ok s.be h.ok) (C.purge_now s.be)
    (fun k => C.purge_owner s.be k h.ok)

theorem inv_step (C : LockContract B Ok keyOk) {s : LockSt σ} (h : Inv B Ok keyOk s) (a : Act)
    (ha : a.keysIn keyOk) : Inv B Ok keyOk (step B s a).1 := by
  cases a with
  | enter t th key ttl wait => exact inv_enter h t th key ttl wait ha
  | attempt t => exact inv_attempt C h t
  | leave t how => exact inv_leave C h t how
  | giveUp t => exact inv_giveUp h t
  | tick dt => exact inv_tick C h dt
  | foreignUnlock key n => exact inv_foreignUnlock C h key n
  | probe key => exact inv_probe C h key
  | purge => exact inv_purge C h
  | setHealth b hl => exact inv_of_same_core h rfl rfl rfl
  | txBegin th mode => exact inv_of_same_core h rfl rfl rfl
  | txSet th k v =>
    simp only [step]
    cases s.tx th <;> exact inv_of_same_core h rfl rfl rfl
  | txEnd th c =>
    simp only [step]
    cases s.tx th <;> exact inv_of_same_core h rfl rfl rfl

theorem inv_run (C : LockContract B Ok keyOk) {s : LockSt σ} (h : Inv B Ok keyOk s)
    (tr : List Act) (htr : ∀ a ∈ tr, a.keysIn keyOk) : Inv B Ok keyOk (run B s tr) := by
  induction tr generalizing s with
  | nil => exact h
  | cons a as ih =>
    simp only [run]
    exact ih (inv_step C h a (htr a (by simp))) (fun b hb => htr b (by simp [hb]))

/-- every state reached from a start state satisfies the invariant -/
theorem inv_reach (C : LockContract B Ok keyOk) {s0 : LockSt σ} (h0 : Start B Ok s0)
    (tr : List Act) (htr : ∀ a ∈ tr, a.keysIn keyOk) : Inv B Ok keyOk (run B s0 tr) :=
  inv_run C (inv_start h0) tr htr

end CashewsVerif.Lock
