import CashewsVerif.Spec.TtlMapMs
/- Basic facts about the keyspace `KS` and the server primitives (C19, C20). -/
namespace CashewsVerif.Redis
namespace KS

theorem ext' {a b : KS} (h1 : a.now = b.now) (h2 : a.m = b.m) (h3 : a.dom = b.dom) : a = b := by
  cases a; cases b; simp_all

@[simp] theorem put_now (s : KS) (k e) : (s.put k e).now = s.now := rfl
@[simp] theorem del_now (s : KS) (k) : (s.del k).now = s.now := rfl
@[simp] theorem del_dom (s : KS) (k) : (s.del k).dom = s.dom := rfl

@[simp] theorem delMany_now (s : KS) (ks) : (s.delMany ks).now = s.now := by
  induction ks generalizing s with
  | nil => rfl
  | cons k ks ih => simp [delMany, List.foldl] at ih ⊢; rw [ih]; rfl

@[simp] theorem delMany_dom (s : KS) (ks) : (s.delMany ks).dom = s.dom := by
  induction ks generalizing s with
  | nil => rfl
  | cons k ks ih => simp [delMany, List.foldl] at ih ⊢; rw [ih]; rfl

theorem find_live {s : KS} {k e} (h : s.find k = some e) : e.live s.now = true := by
  unfold find at h
  simp only [Option.filter_eq_some_iff] at h
  exact h.2

theorem find_put_self (s : KS) (k e) : (s.put k e).find k = if e.live s.now then some e else none := by
  by_cases h : e.live s.now <;> simp [find, put, Option.filter, h]

theorem find_put_self_live (s : KS) (k e) (h : e.live s.now = true) : (s.put k e).find k = some e := by
  simp [find_put_self, h]

theorem find_put_ne (s : KS) {k k'} (e) (h : k' ≠ k) : (s.put k e).find k' = s.find k' := by
  simp [find, put, h]

@[simp] theorem find_del_self (s : KS) (k) : (s.del k).find k = none := by
  simp [find, del]

theorem find_del_ne (s : KS) {k k'} (h : k' ≠ k) : (s.del k).find k' = s.find k' := by
  simp [find, del, h]

theorem find_del (s : KS) (k k') : (s.del k).find k' = if k' = k then none else s.find k' := by
  by_cases h : k' = k
  · subst h; simp
  · simp [find_del_ne s h, h]

@[simp] theorem put_put (s : KS) (k a b) : (s.put k a).put k b = s.put k b := by
  apply ext'
  · rfl
  · funext k'; simp only [put]; by_cases h : k' = k <;> simp [h]
  · simp only [put]; by_cases h : k ∈ s.dom <;> simp [h]

@[simp] theorem del_put (s : KS) (k a) : (s.del k).put k a = s.put k a := by
  apply ext'
  · rfl
  · funext k'; simp only [put, del]; by_cases h : k' = k <;> simp [h]
  · rfl

theorem present_del (s : KS) (k k') : (s.del k).present k' = (s.present k' && !decide (k' = k)) := by
  simp only [present, find_del]
  by_cases h : k' = k <;> simp [h]

theorem present_delMany (s : KS) (ks : List String) (k' : String) :
    (s.delMany ks).present k' = (s.present k' && !(ks.contains k')) := by
  induction ks generalizing s with
  | nil => simp [delMany]
  | cons k ks ih =>
    simp only [delMany, List.foldl] at ih ⊢
    rw [ih, present_del]
    by_cases h : k' = k
    · subst h; simp
    · have : (k == k') = false := by simpa using fun h' => h h'.symm
      simp [h]

theorem delMany_append (s : KS) (a b : List String) : s.delMany (a ++ b) = (s.delMany a).delMany b := by
  simp [delMany, List.foldl_append]

end KS
end CashewsVerif.Redis
