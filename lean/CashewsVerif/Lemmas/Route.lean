import CashewsVerif.Model.Route
/-
Lemmas for C17 (routing): Python's string order is a strict total order in which a proper prefix
is smaller than its extensions; sorting distinct prefixes descending; first match = longest match;
insertion-ordered dict primitives; grouping of keys per backend; re-assembly of `get_many`.
-/
namespace CashewsVerif.Route

/-! ### Python's `<` on strings -/

theorem pyLt_irrefl : ∀ a : List Nat, pyLt a a = false
  | [] => rfl
  | x :: xs => by simp [pyLt, pyLt_irrefl xs]

theorem pyLt_asymm : ∀ {a b : List Nat}, pyLt a b = true → pyLt b a = false
  | [], [], h => by simp [pyLt] at h
  | [], _ :: _, _ => by simp [pyLt]
  | _ :: _, [], h => by simp [pyLt] at h
  | x :: xs, y :: ys, h => by
    simp only [pyLt] at h ⊢
    by_cases h1 : x < y
    · have : ¬ y < x := by omega
      simp [this, h1]
    · by_cases h2 : y < x
      · simp [h1, h2] at h
      · simp only [h1, h2, if_false] at h ⊢
        exact pyLt_asymm h

theorem pyLt_trans : ∀ {a b c : List Nat}, pyLt a b = true → pyLt b c = true → pyLt a c = true
  | [], [], _, h, _ => by simp [pyLt] at h
  | [], _ :: _, [], _, h => by simp [pyLt] at h
  | [], _ :: _, _ :: _, _, _ => by simp [pyLt]
  | _ :: _, [], _, h, _ => by simp [pyLt] at h
  | _ :: _, _ :: _, [], _, h => by simp [pyLt] at h
  | x :: xs, y :: ys, z :: zs, h1, h2 => by
    simp only [pyLt] at h1 h2 ⊢
    by_cases a1 : x < y
    · by_cases b1 : y < z
      · have : x < z := by omega
        simp [this]
      · by_cases b2 : z < y
        · simp [b1, b2] at h2
        · have : x < z := by omega
          simp [this]
    · by_cases a2 : y < x
      · simp [a1, a2] at h1
      · simp only [a1, a2, if_false] at h1
        have hxy : x = y := by omega
        subst hxy
        by_cases b1 : x < z
        · simp [b1]
        · by_cases b2 : z < x
          · simp [b1, b2] at h2
          · simp only [b1, b2, if_false] at h2 ⊢
            exact pyLt_trans h1 h2

theorem pyLt_total : ∀ {a b : List Nat}, a ≠ b → pyLt a b = true ∨ pyLt b a = true
  | [], [], h => by simp at h
  | [], _ :: _, _ => by simp [pyLt]
  | _ :: _, [], _ => by simp [pyLt]
  | x :: xs, y :: ys, h => by
    simp only [pyLt]
    by_cases h1 : x < y
    · simp [h1]
    · by_cases h2 : y < x
      · simp [h2]
      · have hxy : x = y := by omega
        subst hxy
        have : xs ≠ ys := fun e => h (by rw [e])
        simpa [h1] using pyLt_total this

/-- a proper prefix is smaller than its extension -/
theorem pyLt_of_prefix : ∀ {a b : List Nat}, a <+: b → a ≠ b → pyLt a b = true
  | [], [], _, h => by simp at h
  | [], _ :: _, _, _ => by simp [pyLt]
  | _ :: _, [], h, _ => by simp at h
  | x :: xs, y :: ys, h, hne => by
    rw [List.cons_prefix_cons] at h
    obtain ⟨rfl, h⟩ := h
    have : xs ≠ ys := fun e => hne (by rw [e])
    simpa [pyLt] using pyLt_of_prefix h this

/-! ### `sorted(..., reverse=True)` on distinct strings -/

/-- strictly descending in Python's string order -/
def Desc (l : List (List Nat)) : Prop := l.Pairwise fun a b => pyLt b a = true

theorem mem_insertDesc {x y : List Nat} : ∀ {l : List (List Nat)}, y ∈ insertDesc x l ↔ y = x ∨ y ∈ l
  | [] => by simp [insertDesc]
  | z :: zs => by
    simp only [insertDesc]
    split
    · simp
    · simp only [List.mem_cons, mem_insertDesc (l := zs)]
      constructor
      · rintro (h | h | h) <;> simp [h]
      · rintro (h | h | h) <;> simp [h]

theorem mem_sortDesc {y : List Nat} : ∀ {l : List (List Nat)}, y ∈ sortDesc l ↔ y ∈ l
  | [] => by simp [sortDesc]
  | x :: xs => by simp [sortDesc, mem_insertDesc, mem_sortDesc (l := xs)]

theorem length_insertDesc (x : List Nat) : ∀ l : List (List Nat), (insertDesc x l).length = l.length + 1
  | [] => rfl
  | z :: zs => by
    simp only [insertDesc]
    split
    · simp
    · simp [length_insertDesc x zs]

theorem length_sortDesc : ∀ l : List (List Nat), (sortDesc l).length = l.length
  | [] => rfl
  | x :: xs => by simp [sortDesc, length_insertDesc, length_sortDesc xs]

theorem desc_insertDesc {x : List Nat} : ∀ {l : List (List Nat)}, Desc l → x ∉ l → Desc (insertDesc x l)
  | [], _, _ => by simp [insertDesc, Desc]
  | z :: zs, hd, hx => by
    have hd' := hd
    unfold Desc at hd
    rw [List.pairwise_cons] at hd
    simp only [insertDesc]
    split
    · rename_i hzx
      unfold Desc
      rw [List.pairwise_cons]
      refine ⟨?_, hd'⟩
      intro a ha
      rcases List.mem_cons.1 ha with rfl | ha
      · exact hzx
      · exact pyLt_trans (hd.1 a ha) hzx
    · rename_i hzx
      have hne : x ≠ z := fun e => hx (by simp [e])
      have hxz : pyLt x z = true := by
        rcases pyLt_total hne with h | h
        · exact h
        · exact absurd h hzx
      unfold Desc
      rw [List.pairwise_cons]
      refine ⟨?_, desc_insertDesc hd.2 (fun h => hx (List.mem_cons_of_mem _ h))⟩
      intro a ha
      rcases mem_insertDesc.1 ha with rfl | ha
      · exact hxz
      · exact hd.1 a ha

theorem desc_sortDesc : ∀ {l : List (List Nat)}, l.Nodup → Desc (sortDesc l)
  | [], _ => by simp [sortDesc, Desc]
  | x :: xs, h => by
    rw [List.nodup_cons] at h
    exact desc_insertDesc (desc_sortDesc h.2) (fun hm => h.1 (mem_sortDesc.1 hm))

/-! ### first match in a descending list = longest match -/

theorem firstMatch_cons (x : List Nat) (xs : List (List Nat)) (key : List Nat) :
    firstMatch (x :: xs) key = if x.isPrefixOf key then some x else firstMatch xs key := by
  unfold firstMatch
  rw [List.find?_cons]
  cases x.isPrefixOf key <;> rfl

/-- two prefixes of one key: the longer one extends the shorter one, so it is the larger string -/
theorem not_pyLt_of_longer {p q key : List Nat} (hp : p <+: key) (hq : q <+: key)
    (hlt : p.length < q.length) : pyLt q p = false := by
  have hpq : p <+: q := List.prefix_of_prefix_length_le hp hq (Nat.le_of_lt hlt)
  have hne : p ≠ q := fun e => by rw [e] at hlt; omega
  exact pyLt_asymm (pyLt_of_prefix hpq hne)

theorem firstMatch_spec : ∀ {sp : List (List Nat)} {key p : List Nat}, Desc sp →
    firstMatch sp key = some p →
    p ∈ sp ∧ p <+: key ∧ ∀ q ∈ sp, q <+: key → q.length ≤ p.length
  | [], _, _, _, h => by simp [firstMatch] at h
  | x :: xs, key, p, hd, h => by
    unfold Desc at hd
    rw [List.pairwise_cons] at hd
    rw [firstMatch_cons] at h
    split at h
    · rename_i hx
      have hp : x = p := by simpa using h
      subst hp
      have hxk : x <+: key := List.isPrefixOf_iff_prefix.1 hx
      refine ⟨by simp, hxk, ?_⟩
      intro q hq hqk
      rcases List.mem_cons.1 hq with rfl | hq
      · exact Nat.le_refl _
      · apply Nat.le_of_not_lt
        intro hlt
        have := not_pyLt_of_longer hxk hqk hlt
        rw [hd.1 q hq] at this
        exact absurd this (by simp)
    · rename_i hx
      obtain ⟨h1, h2, h3⟩ := firstMatch_spec hd.2 h
      refine ⟨List.mem_cons_of_mem _ h1, h2, ?_⟩
      intro q hq hqk
      rcases List.mem_cons.1 hq with rfl | hq
      · exact absurd (List.isPrefixOf_iff_prefix.2 hqk) hx
      · exact h3 q hq hqk

theorem firstMatch_none {sp : List (List Nat)} {key : List Nat} :
    firstMatch sp key = none ↔ ∀ q ∈ sp, ¬ q <+: key := by
  unfold firstMatch
  rw [List.find?_eq_none]
  constructor
  · intro h q hq hqk
    exact h q hq (List.isPrefixOf_iff_prefix.2 hqk)
  · intro h q hq hqk
    exact h q hq (List.isPrefixOf_iff_prefix.1 hqk)

/-- the longest matching prefix is unique -/
theorem longest_unique {ps : List (List Nat)} {key p p' : List Nat}
    (hp : p ∈ ps) (hpk : p <+: key) (hpl : ∀ q ∈ ps, q <+: key → q.length ≤ p.length)
    (hp' : p' ∈ ps) (hpk' : p' <+: key) (hpl' : ∀ q ∈ ps, q <+: key → q.length ≤ p'.length) :
    p = p' := by
  have h1 := hpl p' hp' hpk'
  have h2 := hpl' p hp hpk
  exact (List.prefix_of_prefix_length_le hpk hpk' h2).eq_of_length (by omega)

theorem longestMatch_none : ∀ {ps : List (List Nat)} {key : List Nat},
    longestMatch ps key = none ↔ ∀ q ∈ ps, ¬ q <+: key
  | [], _ => by simp [longestMatch]
  | x :: xs, key => by
    simp only [longestMatch]
    split
    · rename_i hx
      constructor
      · intro h
        split at h
        · simp at h
        · split at h <;> simp at h
      · intro h
        exact absurd (List.isPrefixOf_iff_prefix.1 hx) (h x (by simp))
    · rename_i hx
      rw [longestMatch_none (ps := xs)]
      constructor
      · intro h q hq hqk
        rcases List.mem_cons.1 hq with rfl | hq
        · exact hx (List.isPrefixOf_iff_prefix.2 hqk)
        · exact h q hq hqk
      · intro h q hq
        exact h q (List.mem_cons_of_mem _ hq)

theorem longestMatch_spec : ∀ {ps : List (List Nat)} {key p : List Nat},
    longestMatch ps key = some p →
    p ∈ ps ∧ p <+: key ∧ ∀ q ∈ ps, q <+: key → q.length ≤ p.length
  | [], _, _, h => by simp [longestMatch] at h
  | x :: xs, key, p, h => by
    simp only [longestMatch] at h
    split at h
    · rename_i hx
      have hxk : x <+: key := List.isPrefixOf_iff_prefix.1 hx
      split at h
      · rename_i hnone
        have hp : x = p := by simpa using h
        subst hp
        refine ⟨by simp, hxk, ?_⟩
        intro q hq hqk
        rcases List.mem_cons.1 hq with rfl | hq
        · exact Nat.le_refl _
        · exact absurd hqk (longestMatch_none.1 hnone q hq)
      · rename_i r hr
        obtain ⟨h1, h2, h3⟩ := longestMatch_spec hr
        split at h
        · rename_i hlt
          have hp : r = p := by simpa using h
          subst hp
          refine ⟨List.mem_cons_of_mem _ h1, h2, ?_⟩
          intro q hq hqk
          rcases List.mem_cons.1 hq with rfl | hq
          · omega
          · exact h3 q hq hqk
        · rename_i hlt
          have hp : x = p := by simpa using h
          subst hp
          refine ⟨by simp, hxk, ?_⟩
          intro q hq hqk
          rcases List.mem_cons.1 hq with rfl | hq
          · exact Nat.le_refl _
          · have := h3 q hq hqk
            omega
    · rename_i hx
      obtain ⟨h1, h2, h3⟩ := longestMatch_spec h
      refine ⟨List.mem_cons_of_mem _ h1, h2, ?_⟩
      intro q hq hqk
      rcases List.mem_cons.1 hq with rfl | hq
      · exact absurd (List.isPrefixOf_iff_prefix.2 hqk) hx
      · exact h3 q hq hqk

/-! ### insertion-ordered dicts -/

section Dict
variable {κ ν : Type} [DecidableEq κ]

theorem dictGet_dictSet (k k' : κ) (v : ν) : ∀ d : List (κ × ν),
    dictGet k' (dictSet k v d) = if k = k' then some v else dictGet k' d
  | [] => by simp [dictSet, dictGet]
  | (a, w) :: r => by
    simp only [dictSet]
    by_cases h : a = k
    · subst h
      by_cases h' : a = k' <;> simp [dictGet, h']
    · by_cases h' : a = k'
      · subst h'
        have : ¬ k = a := fun e => h e.symm
        simp [dictGet, h, this]
      · simp [dictGet, h, h', dictGet_dictSet k k' v r]

theorem dictSet_keys (k : κ) (v : ν) : ∀ d : List (κ × ν),
    (dictSet k v d).map (·.1) = if k ∈ d.map (·.1) then d.map (·.1) else d.map (·.1) ++ [k]
  | [] => by simp [dictSet]
  | (a, w) :: r => by
    simp only [dictSet]
    by_cases h : a = k
    · subst h
      simp
    · have h' : ¬ k = a := fun e => h e.symm
      simp only [h, if_false, List.map_cons, List.mem_cons, h', false_or, dictSet_keys k v r]
      split <;> simp

theorem dictGet_of_mem : ∀ {d : List (κ × ν)} {k : κ} {v : ν}, (d.map (·.1)).Nodup → (k, v) ∈ d →
    dictGet k d = some v
  | [], _, _, _, h => by simp at h
  | (a, w) :: r, k, v, hn, h => by
    simp only [List.map_cons, List.nodup_cons] at hn
    rcases List.mem_cons.1 h with h | h
    · cases h
      simp [dictGet]
    · have : a ≠ k := by
        intro e
        subst e
        exact hn.1 (List.mem_map.2 ⟨(a, v), h, rfl⟩)
      simp [dictGet, this, dictGet_of_mem hn.2 h]

theorem mem_of_dictGet : ∀ {d : List (κ × ν)} {k : κ} {v : ν}, dictGet k d = some v → (k, v) ∈ d
  | [], _, _, h => by simp [dictGet] at h
  | (a, w) :: r, k, v, h => by
    simp only [dictGet] at h
    split at h
    · rename_i e
      cases h
      simp [e]
    · exact List.mem_cons_of_mem _ (mem_of_dictGet h)

theorem dictGet_isSome_iff : ∀ {d : List (κ × ν)} {k : κ}, (dictGet k d).isSome ↔ k ∈ d.map (·.1)
  | [], _ => by simp [dictGet]
  | (a, w) :: r, k => by
    simp only [dictGet]
    by_cases h : a = k
    · simp [h]
    · have h' : ¬ k = a := fun e => h e.symm
      simp [h, h', dictGet_isSome_iff (d := r)]

end Dict

/-! ### the routing table -/

/-- the prefixes of a table are distinct (they are `dict` keys) -/
def Table.WF (t : Table) : Prop := t.prefixes.Nodup

theorem Table.wf_empty : Table.empty.WF := by simp [Table.WF, Table.prefixes, Table.empty]

theorem Table.wf_add {t : Table} (h : t.WF) (p : List Nat) (b : Nat) : (t.add p b).WF := by
  unfold Table.WF Table.prefixes Table.add at *
  rw [dictSet_keys]
  split
  · exact h
  · rename_i hp
    rw [List.nodup_append]
    refine ⟨h, by simp, ?_⟩
    intro a ha b hb
    simp at hb
    subst hb
    intro e
    subst e
    exact hp ha

/-- the table reached by a sequence of `cache.setup(..., prefix=p)` calls -/
def Table.ofList (regs : List (List Nat × Nat)) : Table :=
  regs.foldl (fun t r => t.add r.1 r.2) Table.empty

theorem Table.wf_ofList (regs : List (List Nat × Nat)) : (Table.ofList regs).WF := by
  unfold Table.ofList
  have : ∀ (t : Table), t.WF → (regs.foldl (fun t r => t.add r.1 r.2) t).WF := by
    induction regs with
    | nil => intro t h; exact h
    | cons r rs ih => intro t h; exact ih _ (Table.wf_add h _ _)
  exact this _ Table.wf_empty

theorem Table.desc_sorted {t : Table} (h : t.WF) : Desc t.sorted := desc_sortDesc h

theorem Table.mem_sorted {t : Table} {p : List Nat} : p ∈ t.sorted ↔ p ∈ t.prefixes := mem_sortDesc

/-- **routing = longest registered prefix**, as an equivalence -/
theorem Table.routePrefix_iff {t : Table} (h : t.WF) (key p : List Nat) :
    t.routePrefix key = some p ↔
      p ∈ t.prefixes ∧ p <+: key ∧ ∀ q ∈ t.prefixes, q <+: key → q.length ≤ p.length := by
  constructor
  · intro hr
    obtain ⟨h1, h2, h3⟩ := firstMatch_spec (Table.desc_sorted h) hr
    exact ⟨Table.mem_sorted.1 h1, h2, fun q hq => h3 q (Table.mem_sorted.2 hq)⟩
  · rintro ⟨h1, h2, h3⟩
    cases hr : t.routePrefix key with
    | none =>
      exact absurd h2 (firstMatch_none.1 hr p (Table.mem_sorted.2 h1))
    | some p' =>
      obtain ⟨g1, g2, g3⟩ := firstMatch_spec (Table.desc_sorted h) hr
      have := longest_unique (ps := t.prefixes) (Table.mem_sorted.1 g1) g2
        (fun q hq => g3 q (Table.mem_sorted.2 hq)) h1 h2 h3
      rw [this]

theorem Table.routePrefix_none {t : Table} (key : List Nat) :
    t.routePrefix key = none ↔ ∀ q ∈ t.prefixes, ¬ q <+: key := by
  unfold Table.routePrefix
  rw [firstMatch_none]
  constructor
  · intro h q hq; exact h q (Table.mem_sorted.2 hq)
  · intro h q hq; exact h q (Table.mem_sorted.1 hq)

theorem Table.routePrefix_eq_longestMatch {t : Table} (h : t.WF) (key : List Nat) :
    t.routePrefix key = longestMatch t.prefixes key := by
  cases hl : longestMatch t.prefixes key with
  | none => exact (Table.routePrefix_none key).2 (longestMatch_none.1 hl)
  | some p => exact (Table.routePrefix_iff h key p).2 (longestMatch_spec hl)

theorem Table.getBackend_iff {t : Table} (h : t.WF) (key : List Nat) (b : Nat) :
    t.getBackend key = some b ↔
      ∃ p, (p, b) ∈ t.regs ∧ p <+: key ∧ ∀ q ∈ t.prefixes, q <+: key → q.length ≤ p.length := by
  unfold Table.getBackend
  constructor
  · intro hg
    cases hr : t.routePrefix key with
    | none => simp [hr] at hg
    | some p =>
      simp only [hr, Option.bind_some] at hg
      obtain ⟨_, h2, h3⟩ := (Table.routePrefix_iff h key p).1 hr
      exact ⟨p, mem_of_dictGet hg, h2, h3⟩
  · rintro ⟨p, h1, h2, h3⟩
    have hp : p ∈ t.prefixes := List.mem_map.2 ⟨(p, b), h1, rfl⟩
    rw [(Table.routePrefix_iff h key p).2 ⟨hp, h2, h3⟩]
    simp only [Option.bind_some]
    exact dictGet_of_mem h h1

theorem Table.getBackend_none {t : Table} (key : List Nat) :
    t.getBackend key = none ↔ ∀ q ∈ t.prefixes, ¬ q <+: key := by
  unfold Table.getBackend
  constructor
  · intro hg
    cases hr : t.routePrefix key with
    | none => exact (Table.routePrefix_none key).1 hr
    | some p =>
      exfalso
      simp only [hr, Option.bind_some] at hg
      have hp : p ∈ t.sorted := by
        have := List.mem_of_find?_eq_some hr
        exact this
      have : (dictGet p t.regs).isSome := dictGet_isSome_iff.2 (Table.mem_sorted.1 hp)
      rw [hg] at this
      simp at this
  · intro hn
    rw [(Table.routePrefix_none key).2 hn]
    rfl

end CashewsVerif.Route
