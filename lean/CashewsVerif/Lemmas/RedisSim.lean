import CashewsVerif.Lemmas.RedisScan
/- Every command simulates; histories by induction. -/
namespace CashewsVerif.Redis

theorem sim_step (cfg : Cfg) (hup : ∀ n, cfg.down n = false) (w : World) (t : KS) (h : Inv w t) (op : ROp) :
    Sim cfg w t op := by
  cases op with
  | set k v ttl c => exact sim_set cfg hup w t h k v ttl c
  | setMany kvs ttl => exact sim_setMany cfg hup w t h kvs ttl
  | get k => exact sim_get cfg hup w t h k
  | getMany ks => exact sim_getMany cfg hup w t h ks
  | exists_ k => exact sim_exists cfg hup w t h k
  | incr k by_ ttl =>
    cases hp : pxOf ttl with
    | none => exact sim_incr_nottl cfg hup w t h k by_ ttl hp
    | some ms => exact sim_incr_ttl cfg hup w t h k by_ ttl ms hp
  | delete k => exact sim_delete cfg hup w t h k
  | deleteMany ks => exact sim_deleteMany cfg hup w t h ks
  | expire k ms => exact sim_expire cfg hup w t h k ms
  | getExpire k => exact sim_getExpire cfg hup w t h k
  | clear => exact sim_clear cfg hup w t h
  | keysCount => exact sim_keysCount cfg hup w t h
  | scan pat count => exact sim_scan cfg hup w t h pat count
  | getMatch pat count => exact sim_getMatch cfg hup w t h pat count
  | deleteMatch pat => exact sim_deleteMatch cfg hup w t h pat
  | setLock k tok ms => exact sim_setLock cfg hup w t h k tok ms
  | unlock k tok => exact sim_unlock cfg hup w t h k tok
  | isLocked k => exact sim_isLocked cfg hup w t h k
  | setAdd k ms ttl =>
    cases ttl with
    | none => exact sim_setAdd_nottl cfg hup w t h k ms
    | some t' => exact sim_setAdd_ttl cfg hup w t h k ms t'
  | setRemove k ms => exact sim_setRemove cfg hup w t h k ms
  | setPop k n => exact sim_setPop cfg hup w t h k n
  | getBits k idx size => exact sim_getBits cfg hup w t h k idx size
  | incrBits k idx size by_ => exact sim_incrBits cfg hup w t h k idx size by_
  | sliceIncr k a b m ttl => exact sim_sliceIncr cfg hup w t h k a b m ttl
  | ping => exact sim_ping cfg hup w t h
  | adv dt => exact sim_adv cfg w t h dt

theorem sim_run (cfg : Cfg) (hup : ∀ n, cfg.down n = false) (ops : List ROp) :
    ∀ (w : World) (t : KS), Inv w t →
      Inv (run cfg w ops).1 (Ref.run cfg t ops).1 ∧ (run cfg w ops).2 = (Ref.run cfg t ops).2 := by
  induction ops with
  | nil => intro w t h; exact ⟨h, rfl⟩
  | cons op ops ih =>
    intro w t h
    obtain ⟨h1, h2⟩ := sim_step cfg hup w t h op
    obtain ⟨h3, h4⟩ := ih _ _ h1
    simp only [run, Ref.run]
    exact ⟨h3, by rw [h2, h4]⟩

theorem inv_init : Inv World.init KS.init := ⟨rfl, by intro s hs; cases hs⟩

end CashewsVerif.Redis
