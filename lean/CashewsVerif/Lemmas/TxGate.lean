import CashewsVerif.Model.TxGate
/- A history under a control state runs as the history of its accepted commands. -/
namespace CashewsVerif

theorem TxSt.runG_eq (name : Nat → List Char) (h : GHist) : ∀ st : TxSt,
    (st.runG name h).1 = (st.runC name (accepted h)).1 ∧
    (st.runG name h).2.filterMap id = (st.runC name (accepted h)).2 := by
  induction h with
  | nil => intro st; exact ⟨rfl, rfl⟩
  | cons cd h ih =>
    intro st
    obtain ⟨c, d⟩ := cd
    cases d with
    | true =>
      have := ih st
      simpa [TxSt.runG, TxSt.stepG, accepted] using this
    | false =>
      have := ih (st.stepC name c).1
      simp only [accepted] at this
      simp [TxSt.runG, TxSt.stepG, accepted, TxSt.runC, this.1, this.2]

theorem Mem.runG_eq (name : Nat → List Char) (h : GHist) : ∀ m : Mem,
    (m.runG name h).1 = (m.runC name (accepted h)).1 ∧
    (m.runG name h).2.filterMap id = (m.runC name (accepted h)).2 := by
  induction h with
  | nil => intro m; exact ⟨rfl, rfl⟩
  | cons cd h ih =>
    intro m
    obtain ⟨c, d⟩ := cd
    cases d with
    | true =>
      have := ih m
      simpa [Mem.runG, Mem.stepG, accepted] using this
    | false =>
      have := ih (m.stepC name c).1
      simp only [accepted] at this
      simp [Mem.runG, Mem.stepG, accepted, Mem.runC, this.1, this.2]

end CashewsVerif
