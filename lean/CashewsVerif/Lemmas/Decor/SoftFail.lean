import CashewsVerif.Lemmas.Decor.Wf
import CashewsVerif.Model.Decor.Soft
import CashewsVerif.Model.Decor.Fail
/- Invariants of the `soft` and `failover` models. -/
namespace CashewsVerif.Decor
open CashewsVerif

namespace Soft

def Inv (c : Cfg) (s : St) : Prop := KeyWf3 c.ttl c.soft s.t

theorem inv_init (c : Cfg) : Inv c init := wf3_init _ _

theorem inv_execute {c : Cfg} (httl : 0 < c.ttl) {s : St} (h : Inv c s) (o : Outcome) (x) :
    Inv c (execute c s o x).1 := by
  unfold execute
  cases o
  · exact wf3_save httl _ _
  · cases x <;> exact h
  · exact h
  · exact h
  · exact h

theorem inv_step {c : Cfg} (httl : 0 < c.ttl) (s : St) (op : DOp) (h : Inv c s) : Inv c (step c s op).1 := by
  cases op with
  | call o =>
    show Inv c (call c s o).1
    unfold call
    split
    · split
      · exact h
      · exact inv_execute httl h o _
    · exact inv_execute httl h o _
  | adv dt => exact wf3_advance h dt
  | done i o => exact h

/-- every call that does not answer from a still-soft-fresh entry executes the function -/
theorem call_exec {c : Cfg} {s : St} (h : Inv c s) (o : Outcome)
    (hold : ∀ st id x, cached3 s.t = some (st, id, x) → st + c.soft ≤ s.t.now) :
    (call c s o).2.exec = true := by
  have hex : ∀ x, (execute c s o x).2.exec = true := by
    intro x; unfold execute; cases o
    · rfl
    · cases x <;> rfl
    · rfl
    · rfl
    · rfl
  unfold call
  split
  · rename_i st id x hc
    have hs := cached3_spec h hc
    have := hold st id x hc
    have hn : ¬ s.t.now < x := by rw [hs.1]; omega
    simp only [hn, if_false]
    exact hex _
  · exact hex _

/-- a call that hands out a stored result: it is younger than `ttl`, and either it is younger than
`soft_ttl` and nothing was executed, or the execution made by this call raised a listed exception -/
theorem call_stored {c : Cfg} {s : St} (h : Inv c s) (o : Outcome) {st id : Nat}
    (hr : (call c s o).2.res = .stored st id) :
    st ≤ s.t.now ∧ s.t.now < st + c.ttl ∧
      ((s.t.now < st + c.soft ∧ (call c s o).2.exec = false) ∨
       (st + c.soft ≤ s.t.now ∧ (call c s o).2.exec = true ∧ o = .listed)) := by
  unfold call at hr ⊢
  split at hr
  · rename_i st0 id0 x hc
    have hs := cached3_spec h hc
    by_cases hn : s.t.now < x
    · simp only [hn, if_true] at hr ⊢
      simp at hr
      obtain ⟨h1, h2⟩ := hr
      subst h1 h2
      refine ⟨hs.2.1, hs.2.2.1, Or.inl ⟨by rw [← hs.1]; exact hn, by simp⟩⟩
    · simp only [hn, if_false] at hr ⊢
      unfold execute at hr ⊢
      cases o
      · simp at hr
      · simp at hr
        obtain ⟨h1, h2⟩ := hr
        subst h1 h2
        refine ⟨hs.2.1, hs.2.2.1, Or.inr ⟨by rw [hs.1] at hn; omega, by simp, by simp⟩⟩
      · simp at hr
      · simp at hr
      · simp at hr
  · rename_i hc
    unfold execute at hr
    cases o <;> simp at hr

/-- a fresh result is the product of an execution made by this call, stamped now -/
theorem call_fresh {c : Cfg} {s : St} (o : Outcome) {st id : Nat}
    (hr : (call c s o).2.res = .fresh st id) :
    st = s.t.now ∧ (o = .ok ∨ o = .rejected) ∧ (call c s o).2.exec = true := by
  have hex : ∀ x, (execute c s o x).2.res = .fresh st id →
      st = s.t.now ∧ (o = .ok ∨ o = .rejected) ∧ (execute c s o x).2.exec = true := by
    intro x hx; unfold execute at hx ⊢; cases o
    · simp at hx; exact ⟨hx.1.symm, Or.inl rfl, rfl⟩
    · cases x <;> simp at hx
    · simp at hx
    · simp at hx; exact ⟨hx.1.symm, Or.inr rfl, rfl⟩
    · simp at hx
  unfold call at hr ⊢
  split at hr
  · rename_i st0 id0 x hc
    by_cases hn : s.t.now < x
    · simp [hn] at hr
    · simp only [hn, if_false] at hr ⊢
      exact hex _ hr
  · rename_i hc
    exact hex _ hr

/-- what a call that executes hands out, by outcome of the execution: a successful execution is answered with its
own result — or with the exception of its store step — and only `ok` changes the store -/
theorem execute_spec (c : Cfg) (s : St) (o : Outcome) (x : Option (Nat × Nat × Nat)) :
    ((o = .ok ∨ o = .rejected) → (execute c s o x).2.res = .fresh s.t.now s.nexec) ∧
    (∀ st l, o = .storeFails st l → (execute c s o x).2.res = .storeErr l) ∧
    (o ≠ .ok → (execute c s o x).1.t = s.t) := by
  unfold execute
  cases o
  · simp
  · cases x <;> simp
  · simp
  · simp
  · simp

theorem execute_exec (c : Cfg) (s : St) (o : Outcome) (x : Option (Nat × Nat × Nat)) :
    (execute c s o x).2.exec = true := by
  unfold execute; cases o
  · rfl
  · cases x <;> rfl
  · rfl
  · rfl
  · rfl

/-- a call that executes is a call of `execute`; one that does not leaves the state alone -/
theorem call_cases (c : Cfg) (s : St) (o : Outcome) :
    ((call c s o).2.exec = true ∧ ∃ x, call c s o = execute c s o x) ∨
    ((call c s o).2.exec = false ∧ (call c s o).1 = s) := by
  unfold call
  cases hc : cached3 s.t with
  | none => exact Or.inl ⟨execute_exec _ _ _ _, _, rfl⟩
  | some p =>
    obtain ⟨st, id, x⟩ := p
    simp only []
    by_cases hn : s.t.now < x
    · simp only [hn, if_true]; exact Or.inr (by simp)
    · simp only [hn, if_false]; exact Or.inl ⟨execute_exec _ _ _ _, _, rfl⟩

end Soft

namespace Fail

def Inv (c : Cfg) (s : St) : Prop := KeyWf2 c.ttl s.t

theorem inv_init (c : Cfg) : Inv c init := wf2_init _

theorem inv_step {c : Cfg} (httl : 0 < c.ttl) (s : St) (op : DOp) (h : Inv c s) : Inv c (step c s op).1 := by
  cases op with
  | call o =>
    show Inv c (call c s o).1
    unfold call
    cases o
    · exact wf2_save httl _ _
    · simp only []; split <;> exact h
    · exact h
    · exact h
    · exact h
  | adv dt => exact wf2_advance h dt
  | done i o => exact h

theorem call_exec (c : Cfg) (s : St) (o : Outcome) : (call c s o).2.exec = true ∧ (call c s o).1.nexec = s.nexec + 1 := by
  unfold call
  cases o
  · exact ⟨rfl, rfl⟩
  · simp only []; split <;> exact ⟨rfl, rfl⟩
  · exact ⟨rfl, rfl⟩
  · exact ⟨rfl, rfl⟩
  · exact ⟨rfl, rfl⟩

/-- a stored result is handed out only when the execution raised a listed exception, and it is younger than ttl -/
theorem call_stored {c : Cfg} {s : St} (h : Inv c s) (o : Outcome) {st id : Nat}
    (hr : (call c s o).2.res = .stored st id) :
    o = .listed ∧ st ≤ s.t.now ∧ s.t.now < st + c.ttl := by
  unfold call at hr
  cases o
  · simp at hr
  · simp only [] at hr
    split at hr
    · rename_i st0 id0 hc
      have hs := cached2_spec h hc
      simp at hr
      obtain ⟨h1, h2⟩ := hr
      subst h1 h2
      exact ⟨rfl, hs.1, hs.2.1⟩
    · simp at hr
  · simp at hr
  · simp at hr
  · simp at hr

/-- a successful execution is answered with its own result — or with the exception of its store step — and only
`ok` changes the store -/
theorem call_spec (c : Cfg) (s : St) (o : Outcome) :
    ((o = .ok ∨ o = .rejected) → (call c s o).2.res = .fresh s.t.now s.nexec) ∧
    (∀ st l, o = .storeFails st l → (call c s o).2.res = .storeErr l) ∧
    (o ≠ .ok → (call c s o).1.t = s.t) := by
  unfold call
  cases o
  · simp
  · simp only []; split <;> simp
  · simp
  · simp
  · simp

/-- conversely: listed exception and a stored result younger than ttl → that result is the answer -/
theorem call_listed {c : Cfg} {s : St} {st id : Nat} (hc : cached2 s.t = some (st, id)) :
    (call c s .listed).2.res = .stored st id := by
  unfold call
  simp [hc]

end Fail
end CashewsVerif.Decor
