import CashewsVerif.Lemmas.Decor.Wf
import CashewsVerif.Model.Decor.Soft
import CashewsVerif.Model.Decor.Fail
/- Invariants of the `soft` and `failover` models. -/
namespace CashewsVerif.Decor
open CashewsVerif

namespace Soft

def Inv (c : Cfg) (s : St) : Prop := KeyWf3 c.ttl c.soft s.t

theorem inv_init (c : Cfg) : Inv c init := wf3_init _ _

theorem inv_execute {c : Cfg} (httl : 0 < c.ttl) {s : St} (h : Inv c s) (o : Outcome) :
    Inv c (execute c s o).1 := by
  unfold execute
  cases o
  · exact wf3_save httl _ _
  · simp only []; split <;> exact h
  · exact h
  · exact h
  · exact h

/-- the state at the moment the function body, started in `s`, has run for `d` ticks -/
abbrev later (s : St) (d : Nat) : St := { s with t := advance s.t d }

theorem inv_later {c : Cfg} {s : St} (h : Inv c s) (d : Nat) : Inv c (later s d) := wf3_advance h d

theorem inv_step {c : Cfg} (httl : 0 < c.ttl) (s : St) (op : DOp) (h : Inv c s) : Inv c (step c s op).1 := by
  cases op with
  | call o d =>
    show Inv c (call c s o d).1
    unfold call
    split
    · split
      · exact h
      · exact inv_execute httl (inv_later h d) o
    · exact inv_execute httl (inv_later h d) o
  | adv dt => exact wf3_advance h dt
  | done i o => exact h

theorem execute_exec (c : Cfg) (s : St) (o : Outcome) : (execute c s o).2.exec = true := by
  unfold execute; cases o
  · rfl
  · simp only []; split <;> rfl
  · rfl
  · rfl
  · rfl

/-- an execution does not move the clock: it acts at the moment the function finished -/
theorem execute_now (c : Cfg) (s : St) (o : Outcome) : (execute c s o).1.t.now = s.t.now := by
  unfold execute; cases o
  · rfl
  · simp only []; split <;> rfl
  · rfl
  · rfl
  · rfl

/-- a call that executes is a call of `execute` at the moment the function finished; one that does not leaves the
state alone, and then the stored result is younger than soft_ttl -/
theorem call_cases (c : Cfg) (s : St) (o : Outcome) (d : Nat) :
    ((call c s o d).2.exec = true ∧ call c s o d = execute c (later s d) o ∧
        ∀ st id x, cached3 s.t = some (st, id, x) → x ≤ s.t.now) ∨
    ((call c s o d).2.exec = false ∧ (call c s o d).1 = s ∧
        ∃ st id x, cached3 s.t = some (st, id, x) ∧ s.t.now < x ∧ (call c s o d).2.res = .stored st id) := by
  unfold call
  cases hc : cached3 s.t with
  | none => exact Or.inl ⟨execute_exec _ _ _, rfl, by simp⟩
  | some p =>
    obtain ⟨st, id, x⟩ := p
    simp only []
    by_cases hn : s.t.now < x
    · rw [if_pos hn]; exact Or.inr ⟨rfl, rfl, st, id, x, rfl, hn, rfl⟩
    · rw [if_neg hn]
      refine Or.inl ⟨execute_exec _ _ _, rfl, ?_⟩
      intro st' id' x' h
      simp at h
      omega

/-- every call that does not answer from a still-soft-fresh entry executes the function -/
theorem call_exec {c : Cfg} {s : St} (h : Inv c s) (o : Outcome) (d : Nat)
    (hold : ∀ st id x, cached3 s.t = some (st, id, x) → st + c.soft ≤ s.t.now) :
    (call c s o d).2.exec = true := by
  rcases call_cases c s o d with ⟨hx, _⟩ | ⟨_, _, st, id, x, hc, hn, _⟩
  · exact hx
  · have hs := cached3_spec h hc
    have := hold st id x hc
    omega

/-- the clock after a call is the instant its answer was handed out -/
theorem call_now (c : Cfg) (s : St) (o : Outcome) (d : Nat) :
    (call c s o d).1.t.now = servedAt s.t.now d (call c s o d).2 := by
  unfold servedAt
  rcases call_cases c s o d with ⟨hx, hcall, _⟩ | ⟨hx, hs, _⟩
  · rw [hx, hcall, execute_now]; simp
  · rw [hx, hs]; simp

/-- an execution hands out a stored result only on a listed exception, and the result is younger than ttl at that
moment (it has just been read again) -/
theorem execute_stored {c : Cfg} {s : St} (h : Inv c s) (o : Outcome) {st id : Nat}
    (hr : (execute c s o).2.res = .stored st id) :
    o = .listed ∧ st ≤ s.t.now ∧ s.t.now < st + c.ttl ∧ ∃ x, cached3 s.t = some (st, id, x) := by
  unfold execute at hr
  cases o
  · simp at hr
  · simp only [] at hr
    split at hr
    · rename_i st0 id0 x0 hc
      have hs := cached3_spec h hc
      simp at hr
      obtain ⟨h1, h2⟩ := hr
      subst h1 h2
      exact ⟨rfl, hs.2.1, hs.2.2.1, x0, hc⟩
    · simp at hr
  · simp at hr
  · simp at hr
  · simp at hr

/-- a call that hands out a stored result `(st, id)`: the result is younger than `ttl` AT THE INSTANT IT IS HANDED OUT,
and either it was younger than `soft_ttl` when the call began and nothing was executed (the answer is immediate), or it
was at least `soft_ttl` old then and the execution made by this call raised a listed exception (the answer comes `d`
ticks after the call began, the result having been read again at that moment) -/
theorem call_stored {c : Cfg} {s : St} (h : Inv c s) (o : Outcome) (d : Nat) {st id : Nat}
    (hr : (call c s o d).2.res = .stored st id) :
    st ≤ servedAt s.t.now d (call c s o d).2 ∧ servedAt s.t.now d (call c s o d).2 < st + c.ttl ∧
      ((s.t.now < st + c.soft ∧ (call c s o d).2.exec = false) ∨
       (st + c.soft ≤ s.t.now ∧ (call c s o d).2.exec = true ∧ o = .listed)) := by
  unfold servedAt
  rcases call_cases c s o d with ⟨hx, hcall, hold⟩ | ⟨hx, _, st0, id0, x0, hc, hn, hres⟩
  · rw [hx]
    rw [hcall] at hr
    obtain ⟨h1, h2, h3, x, hc'⟩ := execute_stored (inv_later h d) o hr
    have hc := cached3_of_advance hc'
    have hs := cached3_spec h hc
    have := hold st id x hc
    simp only [advance_now] at h2 h3
    simp only [if_true]
    exact ⟨h2, h3, Or.inr ⟨by omega, trivial, h1⟩⟩
  · rw [hx]
    rw [hres] at hr
    simp at hr
    obtain ⟨h1, h2⟩ := hr
    subst h1 h2
    have hs := cached3_spec h hc
    simp only [Bool.false_eq_true, if_false]
    exact ⟨hs.2.1, hs.2.2.1, Or.inl ⟨by omega, trivial⟩⟩

/-- a fresh result is the product of an execution made by this call, stamped with the instant it finished -/
theorem call_fresh {c : Cfg} {s : St} (o : Outcome) (d : Nat) {st id : Nat}
    (hr : (call c s o d).2.res = .fresh st id) :
    st = s.t.now + d ∧ (o = .ok ∨ o = .rejected) ∧ (call c s o d).2.exec = true := by
  rcases call_cases c s o d with ⟨hx, hcall, _⟩ | ⟨_, _, st0, id0, x0, _, _, hres⟩
  · refine ⟨?_, ?_, hx⟩ <;>
    · rw [hcall] at hr
      unfold execute at hr
      cases o
      · simp at hr; simp [hr.1.symm]
      · simp only [] at hr; split at hr <;> simp at hr
      · simp at hr
      · simp at hr; simp [hr.1.symm]
      · simp at hr
  · rw [hres] at hr; simp at hr

/-- what a call that executes hands out, by outcome of the execution: a successful execution is answered with its
own result — or with the exception of its store step — and only `ok` changes the store -/
theorem execute_spec (c : Cfg) (s : St) (o : Outcome) :
    ((o = .ok ∨ o = .rejected) → (execute c s o).2.res = .fresh s.t.now s.nexec) ∧
    (∀ st l, o = .storeFails st l → (execute c s o).2.res = .storeErr l) ∧
    (o ≠ .ok → (execute c s o).1.t = s.t) := by
  unfold execute
  cases o
  · simp
  · simp only []; split <;> simp
  · simp
  · simp
  · simp

/-- a listed failure is answered with whatever is readable when the function fails: the stored result if there is
one, the exception otherwise -/
theorem execute_listed (c : Cfg) (s : St) :
    (∀ st id x, cached3 s.t = some (st, id, x) → (execute c s .listed).2.res = .stored st id) ∧
    (cached3 s.t = none → (execute c s .listed).2.res = .raised .listed) := by
  unfold execute
  refine ⟨fun st id x hc => by simp [hc], fun hc => by simp [hc]⟩

end Soft

namespace Fail

def Inv (c : Cfg) (s : St) : Prop := KeyWf2 c.ttl s.t

theorem inv_init (c : Cfg) : Inv c init := wf2_init _

/-- the state at the moment the function body, started in `s`, has run for `d` ticks -/
abbrev later (s : St) (d : Nat) : St := { s with t := advance s.t d }

theorem inv_later {c : Cfg} {s : St} (h : Inv c s) (d : Nat) : Inv c (later s d) := wf2_advance h d

theorem inv_afterExec {c : Cfg} (httl : 0 < c.ttl) {s : St} (h : Inv c s) (o : Outcome) : Inv c (afterExec c s o).1 := by
  unfold afterExec
  cases o
  · exact wf2_save httl _ _
  · simp only []; split <;> exact h
  · exact h
  · exact h
  · exact h

theorem inv_step {c : Cfg} (httl : 0 < c.ttl) (s : St) (op : DOp) (h : Inv c s) : Inv c (step c s op).1 := by
  cases op with
  | call o d => exact inv_afterExec httl (inv_later h d) o
  | adv dt => exact wf2_advance h dt
  | done i o => exact h

theorem afterExec_exec (c : Cfg) (s : St) (o : Outcome) :
    (afterExec c s o).2.exec = true ∧ (afterExec c s o).1.nexec = s.nexec + 1 ∧ (afterExec c s o).1.t.now = s.t.now := by
  unfold afterExec
  cases o
  · exact ⟨rfl, rfl, rfl⟩
  · simp only []; split <;> exact ⟨rfl, rfl, rfl⟩
  · exact ⟨rfl, rfl, rfl⟩
  · exact ⟨rfl, rfl, rfl⟩
  · exact ⟨rfl, rfl, rfl⟩

/-- every call executes, and its answer is handed out `d` ticks after it began -/
theorem call_exec (c : Cfg) (s : St) (o : Outcome) (d : Nat) :
    (call c s o d).2.exec = true ∧ (call c s o d).1.nexec = s.nexec + 1 ∧ (call c s o d).1.t.now = s.t.now + d :=
  afterExec_exec c (later s d) o

theorem call_now (c : Cfg) (s : St) (o : Outcome) (d : Nat) :
    (call c s o d).1.t.now = servedAt s.t.now d (call c s o d).2 := by
  have h := call_exec c s o d
  unfold servedAt
  rw [h.1, h.2.2]; simp

/-- a stored result is handed out only when the execution raised a listed exception, and it is younger than ttl at
the moment it is handed out -/
theorem afterExec_stored {c : Cfg} {s : St} (h : Inv c s) (o : Outcome) {st id : Nat}
    (hr : (afterExec c s o).2.res = .stored st id) :
    o = .listed ∧ st ≤ s.t.now ∧ s.t.now < st + c.ttl := by
  unfold afterExec at hr
  cases o
  · simp at hr
  · simp only [] at hr
    split at hr
    · rename_i st0 id0 hc
      have hs := cached2_spec h hc
      simp at hr
      obtain ⟨h1, h2⟩ := hr
      subst h1 h2
      exact ⟨rfl, hs.1, hs.2.1⟩
    · simp at hr
  · simp at hr
  · simp at hr
  · simp at hr

theorem call_stored {c : Cfg} {s : St} (h : Inv c s) (o : Outcome) (d : Nat) {st id : Nat}
    (hr : (call c s o d).2.res = .stored st id) :
    o = .listed ∧ st ≤ s.t.now + d ∧ s.t.now + d < st + c.ttl :=
  afterExec_stored (inv_later h d) o hr

/-- a successful execution is answered with its own result — or with the exception of its store step — and only
`ok` changes the store -/
theorem afterExec_spec (c : Cfg) (s : St) (o : Outcome) :
    ((o = .ok ∨ o = .rejected) → (afterExec c s o).2.res = .fresh s.t.now s.nexec) ∧
    (∀ st l, o = .storeFails st l → (afterExec c s o).2.res = .storeErr l) ∧
    (o ≠ .ok → (afterExec c s o).1.t = s.t) := by
  unfold afterExec
  cases o
  · simp
  · simp only []; split <;> simp
  · simp
  · simp
  · simp

theorem call_spec (c : Cfg) (s : St) (o : Outcome) (d : Nat) :
    ((o = .ok ∨ o = .rejected) → (call c s o d).2.res = .fresh (s.t.now + d) s.nexec) ∧
    (∀ st l, o = .storeFails st l → (call c s o d).2.res = .storeErr l) ∧
    (o ≠ .ok → (call c s o d).1.t = advance s.t d) :=
  afterExec_spec c (later s d) o

/-- conversely: listed exception and a stored result still younger than ttl when the function fails → that result is
the answer -/
theorem call_listed {c : Cfg} {s : St} {d st id : Nat} (hc : cached2 (advance s.t d) = some (st, id)) :
    (call c s .listed d).2.res = .stored st id := by
  unfold call afterExec
  simp [hc]

/-- … and a stored result that reached its ttl while the function was running is not: the exception propagates -/
theorem call_listed_expired {c : Cfg} {s : St} {d : Nat} (hc : cached2 (advance s.t d) = none) :
    (call c s .listed d).2.res = .raised .listed := by
  unfold call afterExec
  simp [hc]

end Fail
end CashewsVerif.Decor
