import CashewsVerif.Model.Decor.Common
/- Facts about the ideal TTL map and about histories used by the C14 proofs. -/
namespace CashewsVerif.Decor
open CashewsVerif

theorem find_some {t : TtlMap} {k : Key} {e : Entry} :
    t.find k = some e ↔ t.m k = some e ∧ e.live t.now = true := by
  unfold TtlMap.find
  cases h : t.m k with
  | none => simp
  | some e' =>
    by_cases hl : e'.live t.now = true
    · simp [hl]; intro h'; subst h'; exact hl
    · simp [hl]; intro h'; subst h'; simpa using hl

theorem find_none {t : TtlMap} {k : Key} :
    t.find k = none ↔ ∀ e, t.m k = some e → e.live t.now = false := by
  unfold TtlMap.find
  cases h : t.m k with
  | none => simp
  | some e' =>
    by_cases hl : e'.live t.now = true
    · simp [hl]
    · simp [hl]

theorem live_some {v : Val} {d now : Nat} : (⟨v, some d⟩ : Entry).live now = true ↔ now < d := by
  simp [Entry.live]

@[simp] theorem write_now (t : TtlMap) (k : Key) (v : Val) (ttl : Option Nat) : (t.write k v ttl).now = t.now := rfl
@[simp] theorem remove_now (t : TtlMap) (k : Key) : (t.remove k).now = t.now := rfl
@[simp] theorem advance_now (t : TtlMap) (dt : Nat) : (advance t dt).now = t.now + dt := rfl
@[simp] theorem advance_m (t : TtlMap) (dt : Nat) : (advance t dt).m = t.m := rfl

/-- a write with a non-zero TTL: that key gets the value with deadline `now + ttl`, nothing else moves -/
theorem write_m (t : TtlMap) (k : Key) (v : Val) {ttl : Nat} (h : 0 < ttl) (k' : Key) :
    (t.write k v (some ttl)).m k' = if k' = k then some ⟨v, some (t.now + ttl)⟩ else t.m k' := by
  unfold TtlMap.write deadlineOf
  cases ttl with
  | zero => omega
  | succ n => simp

/-- a write without TTL keeps the deadline of a live entry -/
theorem write_none_m (t : TtlMap) (k : Key) (v : Val) (k' : Key) :
    (t.write k v none).m k' = if k' = k then some ⟨v, (t.find k).bind (·.dl)⟩ else t.m k' := by
  unfold TtlMap.write deadlineOf
  simp

theorem remove_m (t : TtlMap) (k k' : Key) : (t.remove k).m k' = if k' = k then none else t.m k' := rfl

@[simp] theorem kAux_ne_kMain : (kAux = kMain) = False := by simp [kAux, kMain]
@[simp] theorem kMain_ne_kAux : (kMain = kAux) = False := by simp [kAux, kMain]

@[simp] theorem unpack3_pack3 (s i e : Nat) : unpack3 (pack3 s i e) = some (s, i, e) := rfl
@[simp] theorem unpack2_pack2 (s i : Nat) : unpack2 (pack2 s i) = some (s, i) := rfl

/-! ### histories -/
section
variable {σ ο α : Type} (step : σ → ο → σ × α)

/-- an invariant that every step preserves (possibly under a hypothesis `H` on the operation about to be
made) holds before every operation of every history and at its end, and the recorded answers are the
step function's -/
theorem trace_inv (Inv : σ → Prop) (H : σ → ο → Prop)
    (hstep : ∀ s o, Inv s → H s o → Inv (step s o).1) :
    ∀ (os : List ο) (s : σ), Inv s → (∀ e ∈ trace step s os, H e.1 e.2.1) →
      Inv (final step s os) ∧ ∀ e ∈ trace step s os, Inv e.1 ∧ e.2.2 = (step e.1 e.2.1).2 := by
  intro os
  induction os with
  | nil => intro s hs _; exact ⟨hs, by simp [trace]⟩
  | cons o os ih =>
    intro s hs hH
    have h0 : H s o := hH (s, o, (step s o).2) (by simp [trace])
    have h1 := ih (step s o).1 (hstep s o hs h0) (fun e he => hH e (by simp [trace, he]))
    refine ⟨h1.1, ?_⟩
    intro e he
    simp only [trace, List.mem_cons] at he
    rcases he with rfl | he
    · exact ⟨hs, rfl⟩
    · exact h1.2 e he

theorem trace_inv' (Inv : σ → Prop) (hstep : ∀ s o, Inv s → Inv (step s o).1) (os : List ο) (s : σ) (hs : Inv s) :
    Inv (final step s os) ∧ ∀ e ∈ trace step s os, Inv e.1 ∧ e.2.2 = (step e.1 e.2.1).2 :=
  trace_inv step Inv (fun _ _ => True) (fun s o h _ => hstep s o h) os s hs (fun _ _ => trivial)

end
end CashewsVerif.Decor
