import CashewsVerif.Lemmas.Decor.Basic
/- Well-formedness of the stored result (shared by the four decorator models). -/
namespace CashewsVerif.Decor
open CashewsVerif

theorem write_m_ne (t : TtlMap) (k : Key) (v : Val) (ttl : Option Nat) {k' : Key} (h : k' ≠ k) :
    (t.write k v ttl).m k' = t.m k' := by
  unfold TtlMap.write
  simp [h]

/-- the entry under the main key, if any, is `[stamp + inner, (stamp, id)]` with deadline `stamp + ttl`,
stored at an instant `stamp` that is not in the future -/
def KeyWf3 (ttl inner : Nat) (t : TtlMap) : Prop :=
  ∀ e, t.m kMain = some e → ∃ st id, e = ⟨pack3 st id (st + inner), some (st + ttl)⟩ ∧ st ≤ t.now

def KeyWf2 (ttl : Nat) (t : TtlMap) : Prop :=
  ∀ e, t.m kMain = some e → ∃ st id, e = ⟨pack2 st id, some (st + ttl)⟩ ∧ st ≤ t.now

/-- `cached3` only looks at the clock and at the entry under the main key -/
theorem cached3_congr {t t' : TtlMap} (h1 : t'.now = t.now) (h2 : t'.m kMain = t.m kMain) : cached3 t' = cached3 t := by
  unfold cached3 TtlMap.find
  rw [h1, h2]

theorem wf3_init (ttl inner : Nat) : KeyWf3 ttl inner TtlMap.init := by
  intro e h; simp [TtlMap.init] at h

theorem wf2_init (ttl : Nat) : KeyWf2 ttl TtlMap.init := by
  intro e h; simp [TtlMap.init] at h

theorem wf3_save {ttl inner : Nat} (h : 0 < ttl) (t : TtlMap) (id : Nat) :
    KeyWf3 ttl inner (t.write kMain (pack3 t.now id (t.now + inner)) (some ttl)) := by
  intro e he
  rw [write_m _ _ _ h] at he
  simp at he
  exact ⟨t.now, id, he.symm, by simp⟩

theorem wf2_save {ttl : Nat} (h : 0 < ttl) (t : TtlMap) (id : Nat) :
    KeyWf2 ttl (t.write kMain (pack2 t.now id) (some ttl)) := by
  intro e he
  rw [write_m _ _ _ h] at he
  simp at he
  exact ⟨t.now, id, he.symm, by simp⟩

theorem wf3_write_aux {ttl inner : Nat} {t : TtlMap} (h : KeyWf3 ttl inner t) (v : Val) (x : Option Nat) :
    KeyWf3 ttl inner (t.write kAux v x) := by
  intro e he
  rw [write_m_ne _ _ _ _ (by simp [kAux, kMain])] at he
  simpa using h e he

theorem wf2_write_aux {ttl : Nat} {t : TtlMap} (h : KeyWf2 ttl t) (v : Val) (x : Option Nat) :
    KeyWf2 ttl (t.write kAux v x) := by
  intro e he
  rw [write_m_ne _ _ _ _ (by simp [kAux, kMain])] at he
  simpa using h e he

theorem wf3_remove_aux {ttl inner : Nat} {t : TtlMap} (h : KeyWf3 ttl inner t) :
    KeyWf3 ttl inner (t.remove kAux) := by
  intro e he
  rw [remove_m] at he
  simp [kAux, kMain] at he
  simpa using h e he

theorem wf2_remove_aux {ttl : Nat} {t : TtlMap} (h : KeyWf2 ttl t) :
    KeyWf2 ttl (t.remove kAux) := by
  intro e he
  rw [remove_m] at he
  simp [kAux, kMain] at he
  simpa using h e he

theorem wf3_advance {ttl inner : Nat} {t : TtlMap} (h : KeyWf3 ttl inner t) (dt : Nat) :
    KeyWf3 ttl inner (advance t dt) := by
  intro e he
  obtain ⟨st, id, h1, h2⟩ := h e he
  exact ⟨st, id, h1, by simp; omega⟩

theorem wf2_advance {ttl : Nat} {t : TtlMap} (h : KeyWf2 ttl t) (dt : Nat) :
    KeyWf2 ttl (advance t dt) := by
  intro e he
  obtain ⟨st, id, h1, h2⟩ := h e he
  exact ⟨st, id, h1, by simp; omega⟩

/-- what a successful read of a well-formed store tells: the inner deadline is `stamp + inner`, the
stamp is not in the future, the hard deadline `stamp + ttl` is still ahead -/
theorem cached3_spec {ttl inner : Nat} {t : TtlMap} (h : KeyWf3 ttl inner t) {s i x : Nat}
    (hc : cached3 t = some (s, i, x)) :
    x = s + inner ∧ s ≤ t.now ∧ t.now < s + ttl ∧
      t.find kMain = some ⟨pack3 s i (s + inner), some (s + ttl)⟩ := by
  unfold cached3 at hc
  cases hf : t.find kMain with
  | none => simp [hf] at hc
  | some e =>
    obtain ⟨hm, hl⟩ := find_some.mp hf
    obtain ⟨st, id, he, hst⟩ := h e hm
    subst he
    simp [hf] at hc
    obtain ⟨h1, h2, h3⟩ := hc
    subst h1 h2 h3
    exact ⟨rfl, hst, live_some.mp hl, rfl⟩

theorem cached3_none {ttl inner : Nat} {t : TtlMap} (h : KeyWf3 ttl inner t) (hc : cached3 t = none) :
    t.find kMain = none := by
  unfold cached3 at hc
  cases hf : t.find kMain with
  | none => rfl
  | some e =>
    obtain ⟨hm, _⟩ := find_some.mp hf
    obtain ⟨st, id, he, _⟩ := h e hm
    subst he
    simp [hf] at hc

/-- what is readable later was readable before (time alone only makes entries expire) -/
theorem cached3_of_advance {t : TtlMap} {dt : Nat} {x : Nat × Nat × Nat} (h : cached3 (advance t dt) = some x) :
    cached3 t = some x := by
  unfold cached3 TtlMap.find at h ⊢
  simp only [advance_m, advance_now] at h
  cases hm : t.m kMain with
  | none => simp [hm] at h
  | some e =>
    simp only [hm] at h ⊢
    by_cases hl : e.live (t.now + dt) = true
    · have hl' : e.live t.now = true := by
        unfold Entry.live at hl ⊢
        cases hd : e.dl with
        | none => simp
        | some dl => simp [hd] at hl ⊢; omega
      simpa [hl, hl'] using h
    · simp [hl] at h

theorem cached2_of_advance {t : TtlMap} {dt : Nat} {x : Nat × Nat} (h : cached2 (advance t dt) = some x) :
    cached2 t = some x := by
  unfold cached2 TtlMap.find at h ⊢
  simp only [advance_m, advance_now] at h
  cases hm : t.m kMain with
  | none => simp [hm] at h
  | some e =>
    simp only [hm] at h ⊢
    by_cases hl : e.live (t.now + dt) = true
    · have hl' : e.live t.now = true := by
        unfold Entry.live at hl ⊢
        cases hd : e.dl with
        | none => simp
        | some dl => simp [hd] at hl ⊢; omega
      simpa [hl, hl'] using h
    · simp [hl] at h

theorem cached2_spec {ttl : Nat} {t : TtlMap} (h : KeyWf2 ttl t) {s i : Nat}
    (hc : cached2 t = some (s, i)) :
    s ≤ t.now ∧ t.now < s + ttl ∧ t.find kMain = some ⟨pack2 s i, some (s + ttl)⟩ := by
  unfold cached2 at hc
  cases hf : t.find kMain with
  | none => simp [hf] at hc
  | some e =>
    obtain ⟨hm, hl⟩ := find_some.mp hf
    obtain ⟨st, id, he, hst⟩ := h e hm
    subst he
    simp [hf] at hc
    obtain ⟨h1, h2⟩ := hc
    subst h1 h2
    exact ⟨hst, live_some.mp hl, rfl⟩

theorem cached2_none {ttl : Nat} {t : TtlMap} (h : KeyWf2 ttl t) (hc : cached2 t = none) :
    t.find kMain = none := by
  unfold cached2 at hc
  cases hf : t.find kMain with
  | none => rfl
  | some e =>
    obtain ⟨hm, _⟩ := find_some.mp hf
    obtain ⟨st, id, he, _⟩ := h e hm
    subst he
    simp [hf] at hc

end CashewsVerif.Decor
