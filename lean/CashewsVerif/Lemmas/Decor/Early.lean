import CashewsVerif.Lemmas.Decor.Wf
import CashewsVerif.Model.Decor.Early
/- Invariants of the `early` model. -/
namespace CashewsVerif.Decor.Early
open CashewsVerif CashewsVerif.Decor

def Inv (c : Cfg) (s : St) : Prop := KeyWf3 c.ttl c.early s.t

theorem inv_init (c : Cfg) : Inv c init := wf3_init _ _

theorem wf_save {c : Cfg} (h : 0 < c.ttl) (t : TtlMap) (id : Nat) : KeyWf3 c.ttl c.early (save c t id) :=
  wf3_save h t id

theorem inv_call {c : Cfg} (httl : 0 < c.ttl) {s : St} (h : Inv c s) (o : Outcome) (d : Nat) :
    Inv c (call c s o d).1 := by
  unfold call
  split
  · cases o <;> first | exact wf_save httl _ _ | exact wf3_advance h d
  · split
    · exact h
    · split
      · exact h
      · split
        · exact wf3_write_aux h _ _
        · cases o <;> first
            | exact wf3_remove_aux (wf_save httl _ _)
            | exact wf3_remove_aux (wf3_advance (wf3_write_aux h _ _) d)

theorem inv_done {c : Cfg} (httl : 0 < c.ttl) {s : St} (h : Inv c s) (i : Nat) (o : Outcome) :
    Inv c (done c s i o).1 := by
  unfold done
  split
  · exact h
  · cases o <;> first
      | exact wf3_remove_aux (wf_save httl _ _)
      | exact wf3_remove_aux h

theorem inv_step {c : Cfg} (httl : 0 < c.ttl) (s : St) (op : DOp) (h : Inv c s) : Inv c (step c s op).1 := by
  cases op with
  | call o d => exact inv_call httl h o d
  | adv dt => exact wf3_advance h dt
  | done i o => exact inv_done httl h i o

@[simp] theorem save_now (c : Cfg) (t : TtlMap) (id : Nat) : (save c t id).now = t.now := rfl

/-- the clock after a call is the instant its answer was handed out -/
theorem call_now (c : Cfg) (s : St) (o : Outcome) (d : Nat) :
    (call c s o d).1.t.now = servedAt s.t.now d (call c s o d).2 := by
  unfold call servedAt
  split
  · cases o <;> simp
  · split
    · simp
    · split
      · simp
      · split
        · simp
        · cases o <;> simp

/-- a value handed out by a call that found nothing stored is the fresh product of its own execution -/
theorem call_none_value {c : Cfg} {s : St} (o : Outcome) (d : Nat) {st id : Nat} (hc : cached3 s.t = none)
    (hr : (call c s o d).2.res = .fresh st id ∨ (call c s o d).2.res = .stored st id) :
    st = s.t.now + d ∧ (call c s o d).2.exec = true ∧ (call c s o d).2.started = false ∧
      (call c s o d).2.res = .fresh st id := by
  revert hr
  unfold call
  simp only [hc]
  cases o <;> simp <;> intro h1 h2 <;> simp [h1, h2]

/-- a value handed out by a call that found a result stored is that result, nothing having been executed — or,
after a foreground refresh, the fresh result of that refresh -/
theorem call_some_value {c : Cfg} {s : St} (o : Outcome) (d : Nat) {st id stamp id0 inner : Nat}
    (hc : cached3 s.t = some (stamp, id0, inner))
    (hr : (call c s o d).2.res = .fresh st id ∨ (call c s o d).2.res = .stored st id) :
    (st = stamp ∧ (call c s o d).2.res = .stored st id ∧ (call c s o d).2.exec = false) ∨
    (st = s.t.now + d ∧ (call c s o d).2.res = .fresh st id ∧ (call c s o d).2.exec = true ∧
      (call c s o d).2.started = true) := by
  revert hr
  unfold call
  simp only [hc]
  by_cases h1 : s.t.now ≤ inner
  · rw [if_pos h1]; simp; intro h2 h3; simp [h2, h3]
  · rw [if_neg h1]
    by_cases h2 : (s.t.find kAux).isSome = true
    · rw [if_pos h2]; simp; intro h2 h3; simp [h2, h3]
    · rw [if_neg h2]
      cases hb : c.bg
      · simp only [Bool.false_eq_true, if_false]
        cases o <;> simp <;> intro h2 h3 <;> simp [h2, h3]
      · simp; intro h2 h3; simp [h2, h3]

/-- whatever value `(st, id)` a call hands out — fresh after an execution of any duration (also a foreground refresh),
or from the store — was produced / stored at an instant `st` not after the instant at which it is handed out, and is
younger than ttl at that instant; a value from the store is handed out at the instant the call began -/
theorem call_age {c : Cfg} (httl : 0 < c.ttl) {s : St} (h : Inv c s) (o : Outcome) (d : Nat) {st id : Nat}
    (hr : (call c s o d).2.res = .fresh st id ∨ (call c s o d).2.res = .stored st id) :
    st ≤ servedAt s.t.now d (call c s o d).2 ∧ servedAt s.t.now d (call c s o d).2 < st + c.ttl ∧
    ((call c s o d).2.res = .fresh st id → st = servedAt s.t.now d (call c s o d).2) ∧
    ((call c s o d).2.res = .stored st id → (call c s o d).2.exec = false) := by
  cases hc : cached3 s.t with
  | none =>
    obtain ⟨h1, h2, _, h4⟩ := call_none_value o d hc hr
    unfold servedAt
    rw [h2, h4]
    simp
    omega
  | some p =>
    obtain ⟨stamp, id0, inner⟩ := p
    have hs := cached3_spec h hc
    have hb := hs.2.1
    have hy := hs.2.2.1
    unfold servedAt
    rcases call_some_value o d hc hr with ⟨h1, h2, h3⟩ | ⟨h1, h2, h3, _⟩
    · subst h1; rw [h3, h2]; simp; exact ⟨hb, hy⟩
    · rw [h3, h2]; simp; omega

/-- a stored result that is not older than `early_ttl` is handed out without executing anything and
without touching the state (immediately: no time passes) -/
theorem call_young {c : Cfg} {s : St} (h : Inv c s) (o : Outcome) (d : Nat) {st id x : Nat}
    (hc : cached3 s.t = some (st, id, x)) (hy : s.t.now ≤ st + c.early) :
    call c s o d = (s, ⟨.stored st id, false, false⟩) := by
  have hs := cached3_spec h hc
  unfold call
  simp only [hc]
  have : s.t.now ≤ x := by rw [hs.1]; exact hy
  simp [this]

/-- a call that finds a stored result answers with it — or, when it waited for a foreground refresh, with what that
refresh produced; so unless a foreground refresh raises, the answer is the stored result or the refreshed one -/
theorem call_from_store {c : Cfg} {s : St} (o : Outcome) (d : Nat) {st id x : Nat}
    (hc : cached3 s.t = some (st, id, x)) :
    ((call c s o d).2.res = .stored st id ∧ (call c s o d).2.exec = false) ∨
    (c.bg = false ∧ (call c s o d).2.exec = true ∧ (call c s o d).2.started = true ∧
      (call c s o d).2.res = o.result (s.t.now + d) s.nexec) := by
  unfold call
  simp only [hc]
  split
  · exact Or.inl ⟨rfl, rfl⟩
  · split
    · exact Or.inl ⟨rfl, rfl⟩
    · split
      · exact Or.inl ⟨rfl, rfl⟩
      · rename_i hbg
        right
        refine ⟨by simpa using hbg, ?_⟩
        cases o <;> simp [Outcome.result]

/-- only an execution with outcome `ok` changes the entry under the result's key: a call whose execution
fails, is turned down by the condition or fails in its store step leaves it as it was -/
theorem call_main {c : Cfg} (hearly : 0 < c.early) (s : St) (o : Outcome) (d : Nat) (ho : o ≠ .ok) :
    (call c s o d).1.t.m kMain = s.t.m kMain := by
  have hw : (s.t.write kAux (.tok 1) (some c.early)).m kMain = s.t.m kMain := by
    rw [write_m _ _ _ hearly]; simp
  unfold call
  split
  · cases o <;> first | exact absurd rfl ho | rfl
  · split
    · rfl
    · split
      · rfl
      · split
        · exact hw
        · cases o <;> first
            | exact absurd rfl ho
            | (simp only []; rw [remove_m]; simpa using hw)

theorem done_main {c : Cfg} (s : St) (i : Nat) (o : Outcome) (ho : o ≠ .ok) :
    (done c s i o).1.t.m kMain = s.t.m kMain ∧ (done c s i o).1.t.now = s.t.now := by
  unfold done
  split
  · exact ⟨rfl, rfl⟩
  · cases o <;> first
      | exact absurd rfl ho
      | (refine ⟨?_, rfl⟩; simp only []; rw [remove_m]; simp)

/-- the answer of a call that finds nothing stored: the result of its own execution (stamped with the instant it
finished) or the exception of its store step -/
theorem call_empty {c : Cfg} {s : St} (o : Outcome) (d : Nat) (hc : cached3 s.t = none) :
    (call c s o d).2.exec = true ∧
    ((o = .ok ∨ o = .rejected) → (call c s o d).2.res = .fresh (s.t.now + d) s.nexec) ∧
    (∀ st l, o = .storeFails st l → (call c s o d).2.res = .storeErr l) := by
  unfold call
  simp only [hc]
  cases o <;> simp

/-- whenever the function runs inside a call — because nothing was stored, or as a foreground refresh — the caller is
handed what that execution produced: its result (stamped with the instant it finished), its exception, or the
exception of its store step -/
theorem call_answer (c : Cfg) (s : St) (o : Outcome) (d : Nat) (hx : (call c s o d).2.exec = true) :
    (call c s o d).2.res = o.result (s.t.now + d) s.nexec ∧
    (((call c s o d).2.started = false ∧ cached3 s.t = none) ∨
     ((call c s o d).2.started = true ∧ c.bg = false ∧ ∃ st id x, cached3 s.t = some (st, id, x) ∧ x < s.t.now)) := by
  revert hx
  unfold call
  cases hc : cached3 s.t with
  | none =>
    simp only []
    intro _
    cases o <;> simp [Outcome.result]
  | some p =>
    obtain ⟨st, id, x⟩ := p
    simp only []
    by_cases h1 : s.t.now ≤ x
    · rw [if_pos h1]; simp
    · rw [if_neg h1]
      by_cases h2 : (s.t.find kAux).isSome = true
      · rw [if_pos h2]; simp
      · rw [if_neg h2]
        cases hb : c.bg
        · simp only [Bool.false_eq_true, if_false]
          intro _
          have : x < s.t.now := by omega
          have hex : ∃ st_1 id_1 x_1, (st = st_1 ∧ id = id_1 ∧ x = x_1) ∧ x_1 < s.t.now := ⟨st, id, x, ⟨rfl, rfl, rfl⟩, this⟩
          cases o <;> simp [Outcome.result] <;> exact hex
        · simp

/-! ### at most one refresh at a time -/

/-- either nothing is in flight, or exactly one refresh is and the lock it took (deadline = its start
+ `early_ttl`) is still the entry under the lock key -/
def Single (c : Cfg) (s : St) : Prop :=
  s.inflight = [] ∨ ∃ id ts v, s.inflight = [(id, ts)] ∧ s.t.m kAux = some ⟨v, some (ts + c.early)⟩

/-- the hypothesis "a refresh completes within early_ttl": whenever a call is made, every refresh in
flight was started less than `early_ttl` ago -/
def Timely (c : Cfg) (s : St) (op : DOp) : Prop :=
  ∀ o d, op = .call o d → ∀ x ∈ s.inflight, s.t.now < x.2 + c.early

theorem single_init (c : Cfg) : Single c init := Or.inl rfl

theorem single_call {c : Cfg} (hearly : 0 < c.early) {s : St} (h : Single c s) (o : Outcome) (d : Nat)
    (ht : Timely c s (.call o d)) : Single c (call c s o d).1 := by
  unfold call
  split
  · cases o <;> exact h
  · split
    · exact h
    · split
      · exact h
      · rename_i hlock
        -- the lock is free: so nothing can be in flight (its lock would still be live)
        have hempty : s.inflight = [] := by
          rcases h with h | ⟨id, ts, v, h1, h2⟩
          · exact h
          · exfalso
            have hlive : s.t.now < ts + c.early := by
              have := ht o d rfl (id, ts) (by simp [h1])
              simpa using this
            have : s.t.find kAux = some ⟨v, some (ts + c.early)⟩ :=
              find_some.mpr ⟨h2, live_some.mpr hlive⟩
            simp [this] at hlock
        split
        · right
          refine ⟨s.nexec, s.t.now, .tok 1, by simp [hempty], ?_⟩
          simp only []
          rw [write_m _ _ _ hearly]
          simp
        · cases o <;> exact Or.inl hempty

theorem single_done {c : Cfg} {s : St} (h : Single c s) (i : Nat) (o : Outcome) : Single c (done c s i o).1 := by
  unfold done
  split
  · exact h
  · rename_i id ts hi
    have hnil : s.inflight.eraseIdx i = [] := by
      rcases h with h | ⟨id', ts', v, h1, _⟩
      · simp [h] at hi
      · rw [h1] at hi ⊢
        cases i with
        | zero => rfl
        | succ n => simp at hi
    cases o <;> exact Or.inl hnil

theorem single_step {c : Cfg} (hearly : 0 < c.early) (s : St) (op : DOp) (h : Single c s) (ht : Timely c s op) :
    Single c (step c s op).1 := by
  cases op with
  | call o d => exact single_call hearly h o d ht
  | adv dt =>
    rcases h with h | ⟨id, ts, v, h1, h2⟩
    · exact Or.inl h
    · exact Or.inr ⟨id, ts, v, h1, h2⟩
  | done i o => exact single_done h i o

theorem single_length {c : Cfg} {s : St} (h : Single c s) : s.inflight.length ≤ 1 := by
  rcases h with h | ⟨id, ts, v, h1, _⟩
  · simp [h]
  · simp [h1]

end CashewsVerif.Decor.Early
