import CashewsVerif.Lemmas.Decor.Wf
import CashewsVerif.Model.Decor.Early
/- Invariants of the `early` model. -/
namespace CashewsVerif.Decor.Early
open CashewsVerif CashewsVerif.Decor

def Inv (c : Cfg) (s : St) : Prop := KeyWf3 c.ttl c.early s.t

theorem inv_init (c : Cfg) : Inv c init := wf3_init _ _

theorem wf_save {c : Cfg} (h : 0 < c.ttl) (t : TtlMap) (id : Nat) : KeyWf3 c.ttl c.early (save c t id) :=
  wf3_save h t id

theorem inv_call {c : Cfg} (httl : 0 < c.ttl) {s : St} (h : Inv c s) (o : Outcome) : Inv c (call c s o).1 := by
  unfold call
  split
  · cases o <;> first | exact wf_save httl _ _ | exact h
  · split
    · exact h
    · split
      · exact h
      · split
        · exact wf3_write_aux h _ _
        · cases o <;> first
            | exact wf3_remove_aux (wf_save httl _ _)
            | exact wf3_remove_aux (wf3_write_aux h _ _)

theorem inv_done {c : Cfg} (httl : 0 < c.ttl) {s : St} (h : Inv c s) (i : Nat) (o : Outcome) :
    Inv c (done c s i o).1 := by
  unfold done
  split
  · exact h
  · cases o <;> first
      | exact wf3_remove_aux (wf_save httl _ _)
      | exact wf3_remove_aux h

theorem inv_step {c : Cfg} (httl : 0 < c.ttl) (s : St) (op : DOp) (h : Inv c s) : Inv c (step c s op).1 := by
  cases op with
  | call o => exact inv_call httl h o
  | adv dt => exact wf3_advance h dt
  | done i o => exact inv_done httl h i o

/-- whatever value a call hands out was stored (or produced) at an instant `s ≤ now` with `now < s + ttl` -/
theorem call_age {c : Cfg} (httl : 0 < c.ttl) {s : St} (h : Inv c s) (o : Outcome) {st id : Nat}
    (hr : (call c s o).2.res = .fresh st id ∨ (call c s o).2.res = .stored st id) :
    st ≤ s.t.now ∧ s.t.now < st + c.ttl := by
  unfold call at hr
  split at hr
  · cases o <;> simp at hr <;>
    · obtain ⟨h1, _⟩ := hr
      subst h1
      omega
  · rename_i stamp id0 inner hc
    have hs := cached3_spec h hc
    have key : ∀ r : Res, (r = .fresh st id ∨ r = .stored st id) → r = .stored stamp id0 →
        st ≤ s.t.now ∧ s.t.now < st + c.ttl := by
      intro r h1 h2
      subst h2
      simp at h1
      obtain ⟨h3, _⟩ := h1
      subst h3
      exact ⟨hs.2.1, hs.2.2.1⟩
    split at hr
    · exact key _ hr rfl
    · split at hr
      · exact key _ hr rfl
      · split at hr
        · exact key _ hr rfl
        · cases o
          · exact key _ hr rfl
          · simp at hr
          · simp at hr
          · exact key _ hr rfl
          · simp at hr

/-- a stored result that is not older than `early_ttl` is handed out without executing anything and
without touching the state -/
theorem call_young {c : Cfg} {s : St} (h : Inv c s) (o : Outcome) {st id x : Nat}
    (hc : cached3 s.t = some (st, id, x)) (hy : s.t.now ≤ st + c.early) :
    call c s o = (s, ⟨.stored st id, false, false⟩) := by
  have hs := cached3_spec h hc
  unfold call
  simp only [hc]
  have : s.t.now ≤ x := by rw [hs.1]; exact hy
  simp [this]

/-- a call that finds a stored result answers with it, unless it is a failing foreground refresh -/
theorem call_from_store {c : Cfg} {s : St} (o : Outcome) {st id x : Nat}
    (hc : cached3 s.t = some (st, id, x)) (hyp : c.bg = true ∨ o.raises = false) :
    (call c s o).2.res = .stored st id := by
  unfold call
  simp only [hc]
  split
  · rfl
  · split
    · rfl
    · split
      · rfl
      · rename_i hbg
        rcases hyp with hyp | hyp
        · exact absurd hyp hbg
        · cases o <;> first | rfl | (simp [Outcome.raises] at hyp)

/-- only an execution with outcome `ok` changes what is stored under the result's key: a call whose execution
fails, is turned down by the condition or fails in its store step leaves it as it was -/
theorem call_main {c : Cfg} (hearly : 0 < c.early) (s : St) (o : Outcome) (ho : o ≠ .ok) :
    (call c s o).1.t.m kMain = s.t.m kMain ∧ (call c s o).1.t.now = s.t.now := by
  have hw : (s.t.write kAux (.tok 1) (some c.early)).m kMain = s.t.m kMain := by
    rw [write_m _ _ _ hearly]; simp
  unfold call
  split
  · cases o <;> first | exact absurd rfl ho | exact ⟨rfl, rfl⟩
  · split
    · exact ⟨rfl, rfl⟩
    · split
      · exact ⟨rfl, rfl⟩
      · split
        · exact ⟨hw, rfl⟩
        · cases o <;> first
            | exact absurd rfl ho
            | (refine ⟨?_, rfl⟩; simp only []; rw [remove_m]; simpa using hw)

theorem done_main {c : Cfg} (s : St) (i : Nat) (o : Outcome) (ho : o ≠ .ok) :
    (done c s i o).1.t.m kMain = s.t.m kMain ∧ (done c s i o).1.t.now = s.t.now := by
  unfold done
  split
  · exact ⟨rfl, rfl⟩
  · cases o <;> first
      | exact absurd rfl ho
      | (refine ⟨?_, rfl⟩; simp only []; rw [remove_m]; simp)

/-- the answer of a call that finds nothing stored: the result of its own execution or the exception of its
store step -/
theorem call_empty {c : Cfg} {s : St} (o : Outcome) (hc : cached3 s.t = none) :
    (call c s o).2.exec = true ∧
    ((o = .ok ∨ o = .rejected) → (call c s o).2.res = .fresh s.t.now s.nexec) ∧
    (∀ st l, o = .storeFails st l → (call c s o).2.res = .storeErr l) := by
  unfold call
  simp only [hc]
  cases o <;> simp

/-- whenever the function runs inside a call, the caller is handed what that execution produced — its result, its
exception, the exception of its store step — or, when it was a foreground refresh that raised nothing, the stored
result the refresh was started for -/
theorem call_answer (c : Cfg) (s : St) (o : Outcome) (hx : (call c s o).2.exec = true) :
    ((call c s o).2.started = false ∧ cached3 s.t = none ∧ (call c s o).2.res = o.result s.t.now s.nexec) ∨
    ((call c s o).2.started = true ∧
      ((o.raises = true ∧ (call c s o).2.res = o.result s.t.now s.nexec) ∨
       (o.raises = false ∧ ∃ st id x, cached3 s.t = some (st, id, x) ∧ (call c s o).2.res = .stored st id))) := by
  revert hx
  unfold call
  cases hc : cached3 s.t with
  | none =>
    simp only []
    intro _
    left
    cases o <;> simp [Outcome.result]
  | some p =>
    obtain ⟨st, id, x⟩ := p
    simp only []
    by_cases h1 : s.t.now ≤ x
    · rw [if_pos h1]; simp
    · rw [if_neg h1]
      by_cases h2 : (s.t.find kAux).isSome = true
      · rw [if_pos h2]; simp
      · rw [if_neg h2]
        cases hb : c.bg
        · simp only [Bool.false_eq_true, if_false]
          intro _
          right
          cases o <;> simp [Outcome.raises, Outcome.result]
        · simp

/-! ### at most one refresh at a time -/

/-- either nothing is in flight, or exactly one refresh is and the lock it took (deadline = its start
+ `early_ttl`) is still the entry under the lock key -/
def Single (c : Cfg) (s : St) : Prop :=
  s.inflight = [] ∨ ∃ id ts v, s.inflight = [(id, ts)] ∧ s.t.m kAux = some ⟨v, some (ts + c.early)⟩

/-- the hypothesis "a refresh completes within early_ttl": whenever a call is made, every refresh in
flight was started less than `early_ttl` ago -/
def Timely (c : Cfg) (s : St) (op : DOp) : Prop :=
  ∀ o, op = .call o → ∀ x ∈ s.inflight, s.t.now < x.2 + c.early

theorem single_init (c : Cfg) : Single c init := Or.inl rfl

theorem single_call {c : Cfg} (hearly : 0 < c.early) {s : St} (h : Single c s) (o : Outcome)
    (ht : Timely c s (.call o)) : Single c (call c s o).1 := by
  unfold call
  split
  · cases o <;> exact h
  · split
    · exact h
    · split
      · exact h
      · rename_i hlock
        -- the lock is free: so nothing can be in flight (its lock would still be live)
        have hempty : s.inflight = [] := by
          rcases h with h | ⟨id, ts, v, h1, h2⟩
          · exact h
          · exfalso
            have hlive : s.t.now < ts + c.early := by
              have := ht o rfl (id, ts) (by simp [h1])
              simpa using this
            have : s.t.find kAux = some ⟨v, some (ts + c.early)⟩ :=
              find_some.mpr ⟨h2, live_some.mpr hlive⟩
            simp [this] at hlock
        split
        · right
          refine ⟨s.nexec, s.t.now, .tok 1, by simp [hempty], ?_⟩
          simp only []
          rw [write_m _ _ _ hearly]
          simp
        · cases o <;> exact Or.inl hempty

theorem single_done {c : Cfg} {s : St} (h : Single c s) (i : Nat) (o : Outcome) : Single c (done c s i o).1 := by
  unfold done
  split
  · exact h
  · rename_i id ts hi
    have hnil : s.inflight.eraseIdx i = [] := by
      rcases h with h | ⟨id', ts', v, h1, _⟩
      · simp [h] at hi
      · rw [h1] at hi ⊢
        cases i with
        | zero => rfl
        | succ n => simp at hi
    cases o <;> exact Or.inl hnil

theorem single_step {c : Cfg} (hearly : 0 < c.early) (s : St) (op : DOp) (h : Single c s) (ht : Timely c s op) :
    Single c (step c s op).1 := by
  cases op with
  | call o => exact single_call hearly h o ht
  | adv dt =>
    rcases h with h | ⟨id, ts, v, h1, h2⟩
    · exact Or.inl h
    · exact Or.inr ⟨id, ts, v, h1, h2⟩
  | done i o => exact single_done h i o

theorem single_length {c : Cfg} {s : St} (h : Single c s) : s.inflight.length ≤ 1 := by
  rcases h with h | ⟨id, ts, v, h1, _⟩
  · simp [h]
  · simp [h1]

end CashewsVerif.Decor.Early
