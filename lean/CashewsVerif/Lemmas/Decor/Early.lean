import CashewsVerif.Lemmas.Decor.Wf
import CashewsVerif.Model.Decor.Early
/- Invariants of the `early` model. -/
namespace CashewsVerif.Decor.Early
open CashewsVerif CashewsVerif.Decor

def Inv (c : Cfg) (s : St) : Prop := KeyWf3 c.ttl c.early s.t

theorem inv_init (c : Cfg) : Inv c init := wf3_init _ _

theorem wf_save {c : Cfg} (h : 0 < c.ttl) (t : TtlMap) (id : Nat) : KeyWf3 c.ttl c.early (save c t id) :=
  wf3_save h t id

@[simp] theorem save_now (c : Cfg) (t : TtlMap) (id : Nat) : (save c t id).now = t.now := rfl

/-! ### `produce`: the function has run inside the call -/

/-- the caller is handed what the execution produced — its result stamped with the instant it finished, its
exception, or the exception of its store step -/
theorem produce_out (c : Cfg) (s : St) (t2 : TtlMap) (o : Outcome) (r : Bool) :
    (produce c s t2 o r).2 = ⟨o.result t2.now s.nexec, true, r⟩ := by
  unfold produce; cases o <;> rfl

theorem produce_now (c : Cfg) (s : St) (t2 : TtlMap) (o : Outcome) (r : Bool) :
    (produce c s t2 o r).1.t.now = t2.now := by
  unfold produce; cases o <;> cases r <;> rfl

theorem produce_inflight (c : Cfg) (s : St) (t2 : TtlMap) (o : Outcome) (r : Bool) :
    (produce c s t2 o r).1.inflight = s.inflight := by
  unfold produce; cases o <;> rfl

theorem produce_inv {c : Cfg} (httl : 0 < c.ttl) (s : St) {t2 : TtlMap} (h : KeyWf3 c.ttl c.early t2) (o : Outcome)
    (r : Bool) : Inv c (produce c s t2 o r).1 := by
  unfold produce
  cases o <;> cases r <;> first
    | exact wf_save httl _ _
    | exact h
    | exact wf3_remove_aux (wf_save httl _ _)
    | exact wf3_remove_aux h

/-- only outcome `ok` changes the entry under the result's key -/
theorem produce_main (c : Cfg) (s : St) (t2 : TtlMap) (o : Outcome) (r : Bool) (ho : o ≠ .ok) :
    (produce c s t2 o r).1.t.m kMain = t2.m kMain := by
  unfold produce
  cases o <;> cases r <;> first
    | exact absurd rfl ho
    | rfl
    | (simp only []; rw [remove_m]; simp)

/-! ### the five ways a call goes -/

/-- the state in which a background refresh has just been started -/
abbrev started (c : Cfg) (s : St) : St :=
  { t := s.t.write kAux (.tok 1) (some c.early), nexec := s.nexec + 1, inflight := s.inflight ++ [(s.nexec, s.t.now)] }

theorem call_cases (c : Cfg) (s : St) (o : Outcome) (d : Nat) :
    -- nothing stored, a recalculation in flight: the call joins it
    (cached3 s.t = none ∧ ∃ rid ts rest, s.inflight = (rid, ts) :: rest ∧ call c s o d = (s, ⟨.joined rid, false, false⟩)) ∨
    -- nothing stored, nothing in flight: the call executes
    (cached3 s.t = none ∧ s.inflight = [] ∧ call c s o d = produce c s (advance s.t d) o false) ∨
    (∃ stamp id0 inner, cached3 s.t = some (stamp, id0, inner) ∧
      -- served from the store, nothing started
      (((s.t.now ≤ inner ∨ s.inflight ≠ [] ∨ (s.t.find kAux).isSome = true) ∧
          call c s o d = (s, ⟨.stored stamp id0, false, false⟩)) ∨
       (inner < s.t.now ∧ s.inflight = [] ∧ (s.t.find kAux).isSome = false ∧
         -- a background refresh is started, served from the store
         ((c.bg = true ∧ call c s o d = (started c s, ⟨.stored stamp id0, false, true⟩)) ∨
         -- a foreground refresh runs inside the call
          (c.bg = false ∧ call c s o d = produce c s (advance (s.t.write kAux (.tok 1) (some c.early)) d) o true))))) := by
  unfold call
  cases hc : cached3 s.t with
  | none =>
    cases hi : s.inflight with
    | nil => exact Or.inr (Or.inl ⟨rfl, rfl, rfl⟩)
    | cons p rest =>
      obtain ⟨rid, ts⟩ := p
      exact Or.inl ⟨rfl, rid, ts, rest, rfl, rfl⟩
  | some p =>
    obtain ⟨stamp, id0, inner⟩ := p
    refine Or.inr (Or.inr ⟨stamp, id0, inner, rfl, ?_⟩)
    simp only []
    by_cases h1 : s.t.now ≤ inner
    · rw [if_pos h1]; exact Or.inl ⟨Or.inl h1, rfl⟩
    · rw [if_neg h1]
      by_cases h2 : s.inflight ≠ []
      · rw [if_pos h2]; exact Or.inl ⟨Or.inr (Or.inl h2), rfl⟩
      · rw [if_neg h2]
        by_cases h3 : (s.t.find kAux).isSome = true
        · rw [if_pos h3]; exact Or.inl ⟨Or.inr (Or.inr h3), rfl⟩
        · rw [if_neg h3]
          refine Or.inr ⟨by omega, by simpa using h2, by simpa using h3, ?_⟩
          cases hb : c.bg
          · exact Or.inr ⟨rfl, by simp⟩
          · exact Or.inl ⟨rfl, by simp⟩

/-! ### invariants -/

theorem inv_call {c : Cfg} (httl : 0 < c.ttl) {s : St} (h : Inv c s) (o : Outcome) (d : Nat) :
    Inv c (call c s o d).1 := by
  rcases call_cases c s o d with ⟨_, _, _, _, _, hcall⟩ | ⟨_, _, hcall⟩ | ⟨_, _, _, _, ⟨_, hcall⟩ | ⟨_, _, _, ⟨_, hcall⟩ | ⟨_, hcall⟩⟩⟩
  · rw [hcall]; exact h
  · rw [hcall]; exact produce_inv httl s (wf3_advance h d) o false
  · rw [hcall]; exact h
  · rw [hcall]; exact wf3_write_aux h _ _
  · rw [hcall]; exact produce_inv httl s (wf3_advance (wf3_write_aux h _ _) d) o true

theorem inv_done {c : Cfg} (httl : 0 < c.ttl) {s : St} (h : Inv c s) (i : Nat) (o : Outcome) :
    Inv c (done c s i o).1 := by
  unfold done
  split
  · exact h
  · cases o <;> first
      | exact wf3_remove_aux (wf_save httl _ _)
      | exact wf3_remove_aux h

theorem inv_step {c : Cfg} (httl : 0 < c.ttl) (s : St) (op : DOp) (h : Inv c s) : Inv c (step c s op).1 := by
  cases op with
  | call o d => exact inv_call httl h o d
  | adv dt => exact wf3_advance h dt
  | done i o => exact inv_done httl h i o

/-- the clock after a call is the instant its answer was handed out (a call that joins a recalculation is parked at
the instant it began; it is answered at the `done`) -/
theorem call_now (c : Cfg) (s : St) (o : Outcome) (d : Nat) :
    (call c s o d).1.t.now = servedAt s.t.now d (call c s o d).2 := by
  unfold servedAt
  rcases call_cases c s o d with ⟨_, _, _, _, _, hcall⟩ | ⟨_, _, hcall⟩ | ⟨_, _, _, _, ⟨_, hcall⟩ | ⟨_, _, _, ⟨_, hcall⟩ | ⟨_, hcall⟩⟩⟩
  · rw [hcall]; simp
  · rw [hcall, produce_now, produce_out]; simp
  · rw [hcall]; simp
  · rw [hcall]; simp
  · rw [hcall, produce_now, produce_out]; simp

/-- whatever value `(st, id)` a call hands out — fresh after an execution of any duration (also a foreground refresh),
or from the store — was produced / stored at an instant `st` not after the instant at which it is handed out, and is
younger than ttl at that instant; a fresh value is stamped with that instant; a value from the store is handed out at
the instant the call began, nothing having run inside the call -/
theorem call_age {c : Cfg} (httl : 0 < c.ttl) {s : St} (h : Inv c s) (o : Outcome) (d : Nat) {st id : Nat}
    (hr : (call c s o d).2.res = .fresh st id ∨ (call c s o d).2.res = .stored st id) :
    st ≤ servedAt s.t.now d (call c s o d).2 ∧ servedAt s.t.now d (call c s o d).2 < st + c.ttl ∧
    ((call c s o d).2.res = .fresh st id → st = servedAt s.t.now d (call c s o d).2) ∧
    ((call c s o d).2.res = .stored st id → (call c s o d).2.exec = false) := by
  have hfresh : ∀ (t2 : TtlMap) (r : Bool), t2.now = s.t.now + d →
      ((produce c s t2 o r).2.res = .fresh st id ∨ (produce c s t2 o r).2.res = .stored st id) →
      st ≤ servedAt s.t.now d (produce c s t2 o r).2 ∧ servedAt s.t.now d (produce c s t2 o r).2 < st + c.ttl ∧
      ((produce c s t2 o r).2.res = .fresh st id → st = servedAt s.t.now d (produce c s t2 o r).2) ∧
      ((produce c s t2 o r).2.res = .stored st id → (produce c s t2 o r).2.exec = false) := by
    intro t2 r hn hv
    rw [produce_out] at hv ⊢
    unfold servedAt
    cases o <;> simp [Outcome.result, hn] at hv ⊢ <;> omega
  have hstored : ∀ (s' : St) (b : Bool) stamp id0 inner, cached3 s.t = some (stamp, id0, inner) →
      ((⟨.stored stamp id0, false, b⟩ : CallOut).res = .fresh st id ∨ (⟨.stored stamp id0, false, b⟩ : CallOut).res = .stored st id) →
      st ≤ servedAt s.t.now d ⟨.stored stamp id0, false, b⟩ ∧ servedAt s.t.now d ⟨.stored stamp id0, false, b⟩ < st + c.ttl ∧
      ((⟨.stored stamp id0, false, b⟩ : CallOut).res = .fresh st id → st = servedAt s.t.now d ⟨.stored stamp id0, false, b⟩) ∧
      ((⟨.stored stamp id0, false, b⟩ : CallOut).res = .stored st id → (⟨.stored stamp id0, false, b⟩ : CallOut).exec = false) := by
    intro _ b stamp id0 inner hc hv
    have hs := cached3_spec h hc
    simp at hv
    obtain ⟨h1, _⟩ := hv
    subst h1
    simp [servedAt]
    exact ⟨hs.2.1, hs.2.2.1⟩
  rcases call_cases c s o d with ⟨_, _, _, _, _, hcall⟩ | ⟨_, _, hcall⟩ | ⟨stamp, id0, inner, hc, ⟨_, hcall⟩ | ⟨_, _, _, ⟨_, hcall⟩ | ⟨_, hcall⟩⟩⟩
  · rw [hcall] at hr; simp at hr
  · rw [hcall] at hr ⊢; exact hfresh _ _ (by simp) hr
  · rw [hcall] at hr ⊢; exact hstored s false stamp id0 inner hc hr
  · rw [hcall] at hr ⊢; exact hstored s true stamp id0 inner hc hr
  · rw [hcall] at hr ⊢; exact hfresh _ _ (by simp) hr

/-- a stored result that is not older than `early_ttl` is handed out without executing anything and
without touching the state (immediately: no time passes) -/
theorem call_young {c : Cfg} {s : St} (h : Inv c s) (o : Outcome) (d : Nat) {st id x : Nat}
    (hc : cached3 s.t = some (st, id, x)) (hy : s.t.now ≤ st + c.early) :
    call c s o d = (s, ⟨.stored st id, false, false⟩) := by
  have hs := cached3_spec h hc
  unfold call
  simp only [hc]
  have : s.t.now ≤ x := by rw [hs.1]; exact hy
  simp [this]

/-- a call that finds a stored result answers with it — or, when it waited for a foreground refresh, with what that
refresh produced -/
theorem call_from_store {c : Cfg} {s : St} (o : Outcome) (d : Nat) {st id x : Nat}
    (hc : cached3 s.t = some (st, id, x)) :
    ((call c s o d).2.res = .stored st id ∧ (call c s o d).2.exec = false) ∨
    (c.bg = false ∧ (call c s o d).2.exec = true ∧ (call c s o d).2.started = true ∧
      (call c s o d).2.res = o.result (s.t.now + d) s.nexec) := by
  rcases call_cases c s o d with ⟨hn, _⟩ | ⟨hn, _⟩ | ⟨stamp, id0, inner, hc', ⟨_, hcall⟩ | ⟨_, _, _, ⟨_, hcall⟩ | ⟨hb, hcall⟩⟩⟩
  · rw [hn] at hc; simp at hc
  · rw [hn] at hc; simp at hc
  · rw [hc] at hc'; simp at hc'; obtain ⟨h1, h2, _⟩ := hc'; subst h1 h2
    rw [hcall]; exact Or.inl ⟨rfl, rfl⟩
  · rw [hc] at hc'; simp at hc'; obtain ⟨h1, h2, _⟩ := hc'; subst h1 h2
    rw [hcall]; exact Or.inl ⟨rfl, rfl⟩
  · rw [hcall, produce_out]; exact Or.inr ⟨hb, rfl, rfl, by simp⟩

/-- a call that finds a stored result while a recalculation of the key is in flight is answered with the stored result
and touches nothing (it does not even try the lock key) -/
theorem call_stale_inflight {c : Cfg} {s : St} (o : Outcome) (d : Nat) {st id x : Nat}
    (hc : cached3 s.t = some (st, id, x)) (hi : s.inflight ≠ []) :
    call c s o d = (s, ⟨.stored st id, false, false⟩) := by
  unfold call
  simp only [hc]
  by_cases h1 : s.t.now ≤ x
  · rw [if_pos h1]
  · rw [if_neg h1, if_pos hi]

/-- a call that finds nothing stored while a recalculation of the key is in flight joins it: nothing is executed,
nothing is started, the state is untouched -/
theorem call_join {c : Cfg} {s : St} (o : Outcome) (d : Nat) {rid ts : Nat} {rest : List (Nat × Nat)}
    (hc : cached3 s.t = none) (hi : s.inflight = (rid, ts) :: rest) :
    call c s o d = (s, ⟨.joined rid, false, false⟩) := by
  unfold call
  simp only [hc, hi]

/-- conversely a call is parked only on a recalculation that is in flight, having found nothing stored -/
theorem call_joined {c : Cfg} {s : St} (o : Outcome) (d : Nat) {rid : Nat}
    (hr : (call c s o d).2.res = .joined rid) :
    cached3 s.t = none ∧ (∃ ts rest, s.inflight = (rid, ts) :: rest) ∧ call c s o d = (s, ⟨.joined rid, false, false⟩) := by
  rcases call_cases c s o d with ⟨hn, rid', ts, rest, hi, hcall⟩ | ⟨_, _, hcall⟩ | ⟨_, _, _, _, ⟨_, hcall⟩ | ⟨_, _, _, ⟨_, hcall⟩ | ⟨_, hcall⟩⟩⟩
  · rw [hcall] at hr; simp at hr; subst hr
    exact ⟨hn, ⟨ts, rest, hi⟩, hcall⟩
  · rw [hcall, produce_out] at hr; cases o <;> simp [Outcome.result] at hr
  · rw [hcall] at hr; simp at hr
  · rw [hcall] at hr; simp at hr
  · rw [hcall, produce_out] at hr; cases o <;> simp [Outcome.result] at hr

/-- only an execution with outcome `ok` changes the entry under the result's key: a call whose execution
fails, is turned down by the condition or fails in its store step leaves it as it was -/
theorem call_main {c : Cfg} (hearly : 0 < c.early) (s : St) (o : Outcome) (d : Nat) (ho : o ≠ .ok) :
    (call c s o d).1.t.m kMain = s.t.m kMain := by
  have hw : (s.t.write kAux (.tok 1) (some c.early)).m kMain = s.t.m kMain := by
    rw [write_m _ _ _ hearly]; simp
  rcases call_cases c s o d with ⟨_, _, _, _, _, hcall⟩ | ⟨_, _, hcall⟩ | ⟨_, _, _, _, ⟨_, hcall⟩ | ⟨_, _, _, ⟨_, hcall⟩ | ⟨_, hcall⟩⟩⟩
  · rw [hcall]
  · rw [hcall, produce_main _ _ _ _ _ ho]; rfl
  · rw [hcall]
  · rw [hcall]; exact hw
  · rw [hcall, produce_main _ _ _ _ _ ho]; simpa using hw

theorem done_main {c : Cfg} (s : St) (i : Nat) (o : Outcome) (ho : o ≠ .ok) :
    (done c s i o).1.t.m kMain = s.t.m kMain ∧ (done c s i o).1.t.now = s.t.now := by
  unfold done
  split
  · exact ⟨rfl, rfl⟩
  · cases o <;> first
      | exact absurd rfl ho
      | (refine ⟨?_, rfl⟩; simp only []; rw [remove_m]; simp)

/-- whenever the function runs inside a call — because nothing was stored (and nothing was in flight), or as a
foreground refresh — the caller is handed what that execution produced: its result (stamped with the instant it
finished), its exception, or the exception of its store step -/
theorem call_answer (c : Cfg) (s : St) (o : Outcome) (d : Nat) (hx : (call c s o d).2.exec = true) :
    (call c s o d).2.res = o.result (s.t.now + d) s.nexec ∧ s.inflight = [] ∧
    (((call c s o d).2.started = false ∧ cached3 s.t = none) ∨
     ((call c s o d).2.started = true ∧ c.bg = false ∧ ∃ st id x, cached3 s.t = some (st, id, x) ∧ x < s.t.now)) := by
  rcases call_cases c s o d with ⟨_, _, _, _, _, hcall⟩ | ⟨hn, hi, hcall⟩ | ⟨stamp, id0, inner, hc, ⟨_, hcall⟩ | ⟨h1, hi, _, ⟨_, hcall⟩ | ⟨hb, hcall⟩⟩⟩
  · rw [hcall] at hx; simp at hx
  · rw [hcall, produce_out]; exact ⟨by simp, hi, Or.inl ⟨rfl, hn⟩⟩
  · rw [hcall] at hx; simp at hx
  · rw [hcall] at hx; simp at hx
  · rw [hcall, produce_out]; exact ⟨by simp, hi, Or.inr ⟨rfl, hb, stamp, id0, inner, hc, h1⟩⟩

/-- a call that finds nothing stored and nothing in flight executes -/
theorem call_cold {c : Cfg} {s : St} (o : Outcome) (d : Nat) (hc : cached3 s.t = none) (hi : s.inflight = []) :
    call c s o d = produce c s (advance s.t d) o false := by
  unfold call
  simp only [hc, hi]

/-! ### at most one recalculation at a time — unconditionally -/

/-- either nothing is in flight, or exactly one recalculation is -/
def Single (s : St) : Prop := s.inflight.length ≤ 1

theorem single_init : Single init := by simp [Single, init]

theorem single_call {c : Cfg} {s : St} (h : Single s) (o : Outcome) (d : Nat) : Single (call c s o d).1 := by
  rcases call_cases c s o d with ⟨_, _, _, _, _, hcall⟩ | ⟨_, _, hcall⟩ | ⟨_, _, _, _, ⟨_, hcall⟩ | ⟨_, hi, _, ⟨_, hcall⟩ | ⟨_, hcall⟩⟩⟩
  · rw [hcall]; exact h
  · rw [hcall]; unfold Single; rw [produce_inflight]; exact h
  · rw [hcall]; exact h
  · rw [hcall]; simp [Single, hi]
  · rw [hcall]; unfold Single; rw [produce_inflight]; exact h

theorem single_done {c : Cfg} {s : St} (h : Single s) (i : Nat) (o : Outcome) : Single (done c s i o).1 := by
  unfold done
  split
  · exact h
  · have : (s.inflight.eraseIdx i).length ≤ 1 := Nat.le_trans (List.length_eraseIdx_le _ _) h
    cases o <;> exact this

theorem single_step {c : Cfg} (s : St) (op : DOp) (h : Single s) : Single (step c s op).1 := by
  cases op with
  | call o d => exact single_call h o d
  | adv dt => exact h
  | done i o => exact single_done h i o

/-- a refresh task is created only when nothing is in flight -/
theorem call_started_alone {c : Cfg} {s : St} (o : Outcome) (d : Nat) (hs : (call c s o d).2.started = true) :
    s.inflight = [] := by
  rcases call_cases c s o d with ⟨_, _, _, _, _, hcall⟩ | ⟨_, hi, hcall⟩ | ⟨_, _, _, _, ⟨_, hcall⟩ | ⟨_, hi, _, _⟩⟩
  · rw [hcall] at hs; simp at hs
  · exact hi
  · rw [hcall] at hs; simp at hs
  · exact hi

end CashewsVerif.Decor.Early
