import CashewsVerif.Lemmas.Decor.Wf
import CashewsVerif.Model.Decor.Hit
/- Invariants of the `hit` model. -/
namespace CashewsVerif.Decor.Hit
open CashewsVerif CashewsVerif.Decor

/-- the counter as it sits in the store (0 when there is none) -/
def ctr (t : TtlMap) : Int :=
  match t.m kAux with
  | some e => (e.val.toInt?).getD 0
  | none => 0

/-- second alternative of the serve-count invariant: a refresh has just been executed and its answer
(the previous result) was the first serve after it -/
def AltB (c : Cfg) (g : Nat) (n : Int) : Prop :=
  0 < c.upd ∧ c.upd ≤ c.hits ∧ (g : Int) ≤ n + 1 ∧ n < c.upd

/-- invariant on the store, with the two counts `g` (serves since the last execution event) and
`k` (calls since the last store) -/
structure TGood (c : Cfg) (t : TtlMap) (g k : Nat) : Prop where
  key : KeyWf2 c.ttl t
  ctrwf : ∀ e, t.m kAux = some e → ∃ n d, e = ⟨.int n, some d⟩ ∧ 1 ≤ n
  order : ∀ st id, cached2 t = some (st, id) → ∀ n d, t.m kAux = some ⟨.int n, some d⟩ → st + c.ttl ≤ d
  bound : g ≤ c.hits
  cnt : ∀ st id, cached2 t = some (st, id) → ctr t = k ∧ ((g : Int) ≤ ctr t ∨ AltB c g (ctr t))

structure Good (c : Cfg) (b : Bool) (s : St) (g k : Nat) : Prop where
  tg : TGood c s.t g k
  fl : b = false → s.inflight ≠ [] → 0 < c.upd ∧ c.upd ≤ c.hits ∧ g ≤ 1

theorem good_init (c : Cfg) (b : Bool) : Good c b init 0 0 := by
  refine ⟨⟨wf2_init _, ?_, ?_, by omega, ?_⟩, ?_⟩
  · intro e h; simp [init, TtlMap.init] at h
  · intro st id h; simp [init, cached2, TtlMap.init, TtlMap.find] at h
  · intro st id h; simp [init, cached2, TtlMap.init, TtlMap.find] at h
  · intro _ h; simp [init] at h

/-- `cached2` only looks at the clock and at the entry under the main key -/
theorem cached2_congr {t t' : TtlMap} (h1 : t'.now = t.now) (h2 : t'.m kMain = t.m kMain) : cached2 t' = cached2 t := by
  unfold cached2 TtlMap.find
  rw [h1, h2]

theorem ctr_of_m {t : TtlMap} {n : Int} {d : Option Nat} (h : t.m kAux = some ⟨.int n, d⟩) : ctr t = n := by
  simp [ctr, h, Val.toInt?]

theorem ctr_of_none {t : TtlMap} (h : t.m kAux = none) : ctr t = 0 := by
  simp [ctr, h]

theorem incr_none {t : TtlMap} (ttl : Nat) (hf : t.find kAux = none) :
    t.incr kAux 1 (some ttl) = (t.write kAux (.int 1) (some ttl), .int 1) := by
  unfold TtlMap.incr
  simp [hf]

theorem incr_some {t : TtlMap} (ttl : Nat) {n : Int} {d : Option Nat} (hf : t.find kAux = some ⟨.int n, d⟩)
    (hn : 1 ≤ n) : t.incr kAux 1 (some ttl) = (t.write kAux (.int (n + 1)) none, .int (n + 1)) := by
  unfold TtlMap.incr
  have hne : ¬ (n + 1 = 1) := by omega
  simp [hf, Val.toInt?, hne]

/-- what `incr(key + ":counter", expire=ttl)` does in a good state -/
theorem incr_facts {c : Cfg} (httl : 0 < c.ttl) {t : TtlMap} {g k : Nat} (h : TGood c t g k) :
    ∃ t1 hh d, t.incr kAux 1 (some c.ttl) = (t1, .int hh) ∧ t1.now = t.now ∧ t1.m kMain = t.m kMain ∧
      1 ≤ hh ∧ t1.m kAux = some ⟨.int hh, some d⟩ ∧
      (∀ st id, cached2 t = some (st, id) → st + c.ttl ≤ d ∧ hh = ctr t + 1) := by
  cases hf : t.find kAux with
  | none =>
    refine ⟨t.write kAux (.int 1) (some c.ttl), 1, t.now + c.ttl, incr_none _ hf, rfl, ?_, by omega, ?_, ?_⟩
    · rw [write_m _ _ _ httl]; simp
    · rw [write_m _ _ _ httl]; simp
    · intro st id hc
      have hs := cached2_spec h.key hc
      refine ⟨by omega, ?_⟩
      -- a counter in the store would outlive the live result, hence be found
      cases hm : t.m kAux with
      | none => simp [ctr, hm]
      | some e =>
        obtain ⟨n, d, he, _⟩ := h.ctrwf e hm
        subst he
        have := h.order st id hc n d hm
        have hl : t.find kAux = some ⟨.int n, some d⟩ := find_some.mpr ⟨hm, live_some.mpr (by omega)⟩
        simp [hf] at hl
  | some e =>
    obtain ⟨hm, hl⟩ := find_some.mp hf
    obtain ⟨n, d, he, hn⟩ := h.ctrwf e hm
    subst he
    refine ⟨t.write kAux (.int (n + 1)) none, n + 1, d, incr_some _ hf hn, rfl, ?_, by omega, ?_, ?_⟩
    · rw [write_m_ne _ _ _ _ (by simp [kAux, kMain])]
    · rw [write_none_m]; simp [hf]
    · intro st id hc
      exact ⟨h.order st id hc n d hm, by rw [ctr_of_m hm]⟩

/-- a state whose counter entry is known -/
theorem tgood_counter {c : Cfg} {t1 : TtlMap} {g' k' : Nat} {hh : Int} {d : Nat}
    (key : KeyWf2 c.ttl t1) (hm : t1.m kAux = some ⟨.int hh, some d⟩) (h1 : 1 ≤ hh)
    (hord : ∀ st id, cached2 t1 = some (st, id) → st + c.ttl ≤ d) (hb : g' ≤ c.hits)
    (hk : ∀ st id, cached2 t1 = some (st, id) → hh = k' ∧ ((g' : Int) ≤ hh ∨ AltB c g' hh)) :
    TGood c t1 g' k' := by
  refine ⟨key, ?_, ?_, hb, ?_⟩
  · intro e he; rw [hm] at he; simp at he; exact ⟨hh, d, he.symm, h1⟩
  · intro st id hc n d' hm'
    rw [hm] at hm'; simp at hm'
    rw [← hm'.2]; exact hord st id hc
  · intro st id hc
    rw [ctr_of_m hm]; exact hk st id hc

/-- a state without counter entry -/
theorem tgood_nocounter {c : Cfg} {t1 : TtlMap} {g' k' : Nat}
    (key : KeyWf2 c.ttl t1) (hm : t1.m kAux = none) (hb : g' ≤ c.hits)
    (hk : ∀ st id, cached2 t1 = some (st, id) → 0 = k' ∧ (g' = 0 ∨ AltB c g' 0)) :
    TGood c t1 g' k' := by
  refine ⟨key, ?_, ?_, hb, ?_⟩
  · intro e he; rw [hm] at he; simp at he
  · intro st id hc n d' hm'; rw [hm] at hm'; simp at hm'
  · intro st id hc
    rw [ctr_of_none hm]
    obtain ⟨h1, h2⟩ := hk st id hc
    refine ⟨by omega, ?_⟩
    rcases h2 with h2 | h2
    · left; omega
    · right; exact h2

theorem save_facts {c : Cfg} (httl : 0 < c.ttl) (t : TtlMap) (id : Nat) :
    KeyWf2 c.ttl (save c t id) ∧ (save c t id).m kAux = none := by
  unfold save
  refine ⟨wf2_save httl (t.remove kAux) id, ?_⟩
  rw [write_m _ _ _ httl]
  simp [remove_m]

/-- the state right after a store -/
theorem tgood_save {c : Cfg} (httl : 0 < c.ttl) (t : TtlMap) (id : Nat) {g' : Nat} (hb : g' ≤ c.hits)
    (hr : g' = 0 ∨ AltB c g' 0) : TGood c (save c t id) g' 0 := by
  obtain ⟨h1, h2⟩ := save_facts httl t id
  exact tgood_nocounter h1 h2 hb (fun _ _ _ => ⟨rfl, hr⟩)

/-- the state after the counter was deleted without a new result being stored (`backend.set` refused it) -/
theorem tgood_reset {c : Cfg} {t : TtlMap} {g k : Nat} (h : TGood c t g k) {g' : Nat} (hb : g' ≤ c.hits)
    (hr : g' = 0 ∨ AltB c g' 0) : TGood c (t.remove kAux) g' 0 := by
  refine tgood_nocounter (wf2_remove_aux h.key) ?_ hb (fun _ _ _ => ⟨rfl, hr⟩)
  rw [remove_m]; simp

theorem tgood_advance {c : Cfg} {t : TtlMap} {g k : Nat} (h : TGood c t g k) (dt : Nat) :
    TGood c (advance t dt) g k := by
  have hc : ∀ st id, cached2 (advance t dt) = some (st, id) → cached2 t = some (st, id) := by
    intro st id hc
    unfold cached2 at hc ⊢
    cases hf : (advance t dt).find kMain with
    | none => simp [hf] at hc
    | some e =>
      obtain ⟨hm, hl⟩ := find_some.mp hf
      simp at hm
      obtain ⟨st', id', he, hst⟩ := h.key e hm
      subst he
      have : t.find kMain = some ⟨pack2 st' id', some (st' + c.ttl)⟩ :=
        find_some.mpr ⟨hm, live_some.mpr (by have := live_some.mp hl; simp at this; omega)⟩
      rw [this]; rw [hf] at hc; exact hc
  refine ⟨wf2_advance h.key dt, h.ctrwf, ?_, h.bound, ?_⟩
  · intro st id hc' n d hm; exact h.order st id (hc st id hc') n d hm
  · intro st id hc'; exact h.cnt st id (hc st id hc')

end CashewsVerif.Decor.Hit
