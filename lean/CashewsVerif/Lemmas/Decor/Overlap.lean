import CashewsVerif.Lemmas.Decor.Wf
import CashewsVerif.Model.Decor.Overlap
/- Invariants of the overlapping-calls models of failover and soft. -/
namespace CashewsVerif.Decor.Overlap
open CashewsVerif CashewsVerif.Decor

theorem failFinish_wf {c : Fail.Cfg} (httl : 0 < c.ttl) {t : TtlMap} (h : KeyWf2 c.ttl t) (id : Nat) (o : Outcome) :
    KeyWf2 c.ttl (failFinish c t id o).1 := by
  unfold failFinish
  cases o
  · exact wf2_save httl _ _
  · simp only []; split <;> exact h
  · exact h
  · exact h
  · exact h

theorem softFinish_wf {c : Soft.Cfg} (httl : 0 < c.ttl) {t : TtlMap} (h : KeyWf3 c.ttl c.soft t) (id : Nat) (o : Outcome) :
    KeyWf3 c.ttl c.soft (softFinish c t id o).1 := by
  unfold softFinish
  cases o
  · exact wf3_save httl _ _
  · simp only []; split <;> exact h
  · exact h
  · exact h
  · exact h

theorem finishWith_t (fin : TtlMap → Nat → Outcome → TtlMap × Res) (P : TtlMap → Prop)
    (hfin : ∀ t id o, P t → P (fin t id o).1) (s : St) (i : Nat) (o : Outcome) (h : P s.t) :
    P (finishWith fin s i o).1.t := by
  unfold finishWith
  split
  · exact h
  · exact hfin _ _ _ h

theorem failStep_wf {c : Fail.Cfg} (httl : 0 < c.ttl) (s : St) (op : COp) (h : KeyWf2 c.ttl s.t) :
    KeyWf2 c.ttl (failStep c s op).1.t := by
  cases op with
  | begin => exact h
  | fin i o =>
    show KeyWf2 c.ttl (finishWith (failFinish c) s i o).1.t
    exact finishWith_t (failFinish c) (KeyWf2 c.ttl) (fun t id o ht => failFinish_wf httl ht id o) s i o h
  | adv dt => exact wf2_advance h dt

theorem softStep_wf {c : Soft.Cfg} (httl : 0 < c.ttl) (s : St) (op : COp) (h : KeyWf3 c.ttl c.soft s.t) :
    KeyWf3 c.ttl c.soft (softStep c s op).1.t := by
  cases op with
  | begin =>
    show KeyWf3 c.ttl c.soft (match cached3 s.t with
      | some (stamp, id0, inner) => if s.t.now < inner then (s, CAns.served (.stored stamp id0)) else enter s
      | none => enter s).1.t
    split
    · split <;> exact h
    · exact h
  | fin i o =>
    show KeyWf3 c.ttl c.soft (finishWith (softFinish c) s i o).1.t
    exact finishWith_t (softFinish c) (KeyWf3 c.ttl c.soft) (fun t id o ht => softFinish_wf httl ht id o) s i o h
  | adv dt => exact wf3_advance h dt

/-- what a finishing failover body hands out -/
theorem failFinish_res {c : Fail.Cfg} {t : TtlMap} (h : KeyWf2 c.ttl t) (id : Nat) (o : Outcome) :
    (∀ st i, (failFinish c t id o).2 = .stored st i → o = .listed ∧ st ≤ t.now ∧ t.now < st + c.ttl) ∧
    (∀ st i, (failFinish c t id o).2 = .fresh st i → st = t.now ∧ i = id ∧ o.returns = true) := by
  unfold failFinish
  cases o
  · simp [Outcome.returns]
  · simp only []
    split
    · rename_i st0 id0 hc
      have hs := cached2_spec h hc
      simp
      exact ⟨hs.1, hs.2.1⟩
    · simp
  · simp
  · simp [Outcome.returns]
  · simp

theorem softFinish_res {c : Soft.Cfg} {t : TtlMap} (h : KeyWf3 c.ttl c.soft t) (id : Nat) (o : Outcome) :
    (∀ st i, (softFinish c t id o).2 = .stored st i → o = .listed ∧ st ≤ t.now ∧ t.now < st + c.ttl) ∧
    (∀ st i, (softFinish c t id o).2 = .fresh st i → st = t.now ∧ i = id ∧ o.returns = true) := by
  unfold softFinish
  cases o
  · simp [Outcome.returns]
  · simp only []
    split
    · rename_i st0 id0 x0 hc
      have hs := cached3_spec h hc
      simp
      exact ⟨hs.2.1, hs.2.2.1⟩
    · simp
  · simp
  · simp [Outcome.returns]
  · simp

end CashewsVerif.Decor.Overlap
