import CashewsVerif.Lemmas.Decor.Hit
/- Every step of the `hit` model preserves the invariant `Good` with the counts updated from the answer. -/
namespace CashewsVerif.Decor.Hit
open CashewsVerif CashewsVerif.Decor

theorem wf2_congr {ttl : Nat} {t t' : TtlMap} (h : KeyWf2 ttl t) (h1 : t'.now = t.now) (h2 : t'.m kMain = t.m kMain) :
    KeyWf2 ttl t' := by
  intro e he
  rw [h2] at he
  obtain ⟨st, id, h3, h4⟩ := h e he
  exact ⟨st, id, h3, by omega⟩

/-- the store after the counter was bumped, with `g'` serves counted and one more call -/
theorem tgood_bumped {c : Cfg} {t t1 : TtlMap} {g k g' : Nat} {hh : Int} {d : Nat} (h : TGood c t g k)
    (hnow : t1.now = t.now) (hmain : t1.m kMain = t.m kMain) (h1 : 1 ≤ hh)
    (hm : t1.m kAux = some ⟨.int hh, some d⟩)
    (hfacts : ∀ st id, cached2 t = some (st, id) → st + c.ttl ≤ d ∧ hh = ctr t + 1)
    (hb : g' ≤ c.hits)
    (hr : ∀ st id, cached2 t = some (st, id) → (g' : Int) ≤ hh ∨ AltB c g' hh) :
    TGood c t1 g' (k + 1) := by
  have hcc := cached2_congr hnow hmain
  refine tgood_counter (wf2_congr h.key hnow hmain) hm h1 ?_ hb ?_
  · intro st id hc; rw [hcc] at hc; exact (hfacts st id hc).1
  · intro st id hc; rw [hcc] at hc
    refine ⟨?_, hr st id hc⟩
    have := (hfacts st id hc).2
    have := (h.cnt st id hc).1
    omega

/-- `execute` (a foreground `_get_and_save`) at the moment the function has finished, `t1` being the store with the
counter bumped when the call began and the clock moved on by the function's duration -/
theorem good_execute {c : Cfg} (httl : 0 < c.ttl) {b : Bool} {s : St} {g k : Nat}
    (hseq : b = false → s.inflight = []) {t1 : TtlMap} (hbump : TGood c t1 0 (k + 1)) (o : Outcome) (d : Nat) :
    Good c b (execute c s t1 o).1 (runAfter b g (.call o d) (.call (execute c s t1 o).2))
      (callsAfter k (.call o d) (.call (execute c s t1 o).2)) := by
  have hfl : ∀ g' : Nat, b = false → s.inflight ≠ [] → 0 < c.upd ∧ c.upd ≤ c.hits ∧ g' ≤ 1 :=
    fun g' hb hne => absurd (hseq hb) hne
  unfold execute
  cases o with
  | ok =>
    refine ⟨?_, hfl _⟩
    simp only [runAfter, callsAfter, isStored, reachedSet, Outcome.reachesSet]
    simp
    exact tgood_save httl t1 _ (by omega) (Or.inl rfl)
  | listed =>
    refine ⟨?_, hfl _⟩
    simp only [runAfter, callsAfter, isStored, reachedSet, Outcome.reachesSet]
    simpa using hbump
  | unlisted =>
    refine ⟨?_, hfl _⟩
    simp only [runAfter, callsAfter, isStored, reachedSet, Outcome.reachesSet]
    simpa using hbump
  | rejected =>
    refine ⟨?_, hfl _⟩
    simp only [runAfter, callsAfter, isStored, reachedSet, Outcome.reachesSet]
    simpa using hbump
  | storeFails stg l =>
    refine ⟨?_, hfl _⟩
    cases stg
    · simp only [runAfter, callsAfter, isStored, reachedSet, Outcome.reachesSet, afterStoreFailure]
      simpa using hbump
    · simp only [runAfter, callsAfter, isStored, reachedSet, Outcome.reachesSet, afterStoreFailure]
      simp
      exact tgood_reset hbump (by omega) (Or.inl rfl)

theorem good_call {c : Cfg} (httl : 0 < c.ttl) {b : Bool} {s : St} {g k : Nat} (h : Good c b s g k)
    (hseq : b = false → s.inflight = []) (o : Outcome) (dur : Nat) :
    Good c b (call c s o dur).1 (runAfter b g (.call o dur) (.call (call c s o dur).2))
      (callsAfter k (.call o dur) (.call (call c s o dur).2)) := by
  obtain ⟨t1, hh, d, hincr, hnow, hmain, h1, hm, hfacts⟩ := incr_facts httl h.tg
  have hfl : ∀ g' : Nat, b = false → s.inflight ≠ [] → 0 < c.upd ∧ c.upd ≤ c.hits ∧ g' ≤ 1 :=
    fun g' hb hne => absurd (hseq hb) hne
  have hexec : TGood c (advance t1 dur) 0 (k + 1) :=
    tgood_advance (tgood_bumped h.tg hnow hmain h1 hm hfacts (by omega) (fun _ _ _ => Or.inl (by omega))) dur
  unfold call
  rw [hincr]
  simp only []
  cases hc : cached2 s.t with
  | none => exact good_execute httl hseq hexec o dur
  | some p =>
    obtain ⟨st, id0⟩ := p
    simp only []
    obtain ⟨hctr, hcnt⟩ := h.tg.cnt st id0 hc
    obtain ⟨_, hhh⟩ := hfacts st id0 hc
    have hbound := h.tg.bound
    by_cases hserve : hh ≠ 0 ∧ hh ≤ (c.hits : Int)
    · rw [if_pos hserve]
      by_cases hupd : c.upd ≠ 0 ∧ hh = (c.upd : Int)
      · rw [if_pos hupd]
        have hu1 : 0 < c.upd := by omega
        have hu2 : c.upd ≤ c.hits := by omega
        cases hbg : c.bg
        · -- foreground refresh
          simp only [Bool.false_eq_true, if_false]
          have hbump0 : TGood c (advance t1 dur) 0 (k + 1) := hexec
          have hbump1 : TGood c (advance t1 dur) 1 (k + 1) :=
            tgood_advance (tgood_bumped h.tg hnow hmain h1 hm hfacts (by omega) (fun _ _ _ => Or.inl (by omega))) dur
          cases o with
          | ok =>
            refine ⟨?_, hfl _⟩
            simp only [runAfter, callsAfter, isStored, reachedSet, Outcome.reachesSet]
            simp
            exact tgood_save httl (advance t1 dur) _ (by omega) (Or.inr ⟨hu1, hu2, by omega, by omega⟩)
          | listed =>
            refine ⟨?_, hfl _⟩
            simp only [runAfter, callsAfter, isStored, reachedSet, Outcome.reachesSet]
            simpa using hbump0
          | unlisted =>
            refine ⟨?_, hfl _⟩
            simp only [runAfter, callsAfter, isStored, reachedSet, Outcome.reachesSet]
            simpa using hbump0
          | rejected =>
            refine ⟨?_, hfl _⟩
            simp only [runAfter, callsAfter, isStored, reachedSet, Outcome.reachesSet]
            simpa using hbump1
          | storeFails stg l =>
            refine ⟨?_, hfl _⟩
            cases stg
            · simp only [runAfter, callsAfter, isStored, reachedSet, Outcome.reachesSet, afterStoreFailure]
              simpa using hbump0
            · simp only [runAfter, callsAfter, isStored, reachedSet, Outcome.reachesSet, afterStoreFailure]
              simp
              exact tgood_reset hbump0 (by omega) (Or.inl rfl)
        · -- background refresh: the task is created, the stored result is the answer
          simp only [if_true]
          refine ⟨?_, ?_⟩
          · simp only [runAfter, callsAfter, isStored, reachedSet]
            simp
            exact tgood_bumped h.tg hnow hmain h1 hm hfacts (by omega) (fun _ _ _ => Or.inl (by omega))
          · intro _ _
            simp only [runAfter, isStored]
            simp
            exact ⟨hu1, hu2⟩
      · rw [if_neg hupd]
        refine ⟨?_, hfl _⟩
        simp only [runAfter, callsAfter, isStored, reachedSet]
        simp
        have hne : c.upd = 0 ∨ hh ≠ (c.upd : Int) := by
          by_cases h0 : c.upd = 0
          · exact Or.inl h0
          · exact Or.inr (fun h' => hupd ⟨h0, h'⟩)
        rcases hcnt with hA | ⟨hB1, hB2, hB3, hB4⟩
        · exact tgood_bumped h.tg hnow hmain h1 hm hfacts (by omega) (fun _ _ _ => Or.inl (by omega))
        · have hlt : hh < (c.upd : Int) := by omega
          exact tgood_bumped h.tg hnow hmain h1 hm hfacts (by omega)
            (fun _ _ _ => Or.inr ⟨hB1, hB2, by omega, hlt⟩)
    · rw [if_neg hserve]
      exact good_execute httl hseq hexec o dur

theorem good_done {c : Cfg} (httl : 0 < c.ttl) {b : Bool} {s : St} {g k : Nat} (h : Good c b s g k)
    (i : Nat) (o : Outcome) :
    Good c b (done c s i o).1 (runAfter b g (.done i o) (.done (done c s i o).2))
      (callsAfter k (.done i o) (.done (done c s i o).2)) := by
  unfold done
  split
  · simpa [runAfter, callsAfter, reachedSet] using h
  · rename_i id hi
    have hne : s.inflight ≠ [] := by intro h0; simp [h0] at hi
    have hsame : Good c b { s with inflight := s.inflight.eraseIdx i } g k := ⟨h.tg, fun hb _ => h.fl hb hne⟩
    -- the refresh got as far as the set: the counter is gone, a new result is there or the old one stayed
    have hreset : ∀ t', (∀ g', g' ≤ c.hits → (g' = 0 ∨ AltB c g' 0) → TGood c t' g' 0) →
        Good c b { s with t := t', inflight := s.inflight.eraseIdx i } (if b then 0 else g) 0 := by
      intro t' ht'
      cases b
      · -- start-only counting: the serve count is kept, it is at most 1 while a refresh is in flight
        obtain ⟨hu1, hu2, hg⟩ := h.fl rfl hne
        refine ⟨?_, fun _ _ => ⟨hu1, hu2, hg⟩⟩
        simp only [Bool.false_eq_true, if_false]
        exact ht' g h.tg.bound (Or.inr ⟨hu1, hu2, by omega, by omega⟩)
      · refine ⟨?_, fun hb => by simp at hb⟩
        simp only [if_true]
        exact ht' 0 (by omega) (Or.inl rfl)
    cases o with
    | ok =>
      simp only [runAfter, callsAfter, reachedSet, Outcome.reachesSet]
      simpa using hreset _ (fun g' hb hr => tgood_save httl s.t id hb hr)
    | listed => simpa [runAfter, callsAfter, reachedSet, Outcome.reachesSet] using hsame
    | unlisted => simpa [runAfter, callsAfter, reachedSet, Outcome.reachesSet] using hsame
    | rejected => simpa [runAfter, callsAfter, reachedSet, Outcome.reachesSet] using hsame
    | storeFails stg l =>
      cases stg
      · simpa [runAfter, callsAfter, reachedSet, Outcome.reachesSet, afterStoreFailure] using hsame
      · simp only [runAfter, callsAfter, reachedSet, Outcome.reachesSet, afterStoreFailure]
        simpa using hreset _ (fun g' hb hr => tgood_reset h.tg hb hr)

/-- the hypothesis of the sequential reading: no call is made while a refresh is in flight -/
def SeqOK (s : St) (op : DOp) : Prop := ∀ o d, op = .call o d → s.inflight = []

theorem good_step {c : Cfg} (httl : 0 < c.ttl) {b : Bool} {s : St} {g k : Nat} (h : Good c b s g k) (op : DOp)
    (hseq : b = false → SeqOK s op) :
    Good c b (step c s op).1 (runAfter b g op (step c s op).2) (callsAfter k op (step c s op).2) := by
  cases op with
  | call o d => exact good_call httl h (fun hb => hseq hb o d rfl) o d
  | adv dt => exact ⟨tgood_advance h.tg dt, h.fl⟩
  | done i o => exact good_done httl h i o

end CashewsVerif.Decor.Hit

namespace CashewsVerif.Decor.Hit
open CashewsVerif CashewsVerif.Decor

def foldCounts (b : Bool) (gk : Nat × Nat) (tr : List (St × DOp × Ans)) : Nat × Nat :=
  tr.foldl (fun gk e => (runAfter b gk.1 e.2.1 e.2.2, callsAfter gk.2 e.2.1 e.2.2)) gk

theorem counts_eq (b : Bool) (tr : List (St × DOp × Ans)) : counts b tr = foldCounts b (0, 0) tr := rfl

/-- `Good` holds along every history (for start-only counting: every *sequential* history) -/
theorem good_run {c : Cfg} (httl : 0 < c.ttl) (b : Bool) :
    ∀ (ops : List DOp) (s : St) (g k : Nat), Good c b s g k →
      (b = false → ∀ e ∈ trace (step c) s ops, SeqOK e.1 e.2.1) →
      Good c b (final (step c) s ops) (foldCounts b (g, k) (trace (step c) s ops)).1
        (foldCounts b (g, k) (trace (step c) s ops)).2 := by
  intro ops
  induction ops with
  | nil => intro s g k h _; exact h
  | cons op ops ih =>
    intro s g k h hseq
    have h1 := good_step httl h op (fun hb => hseq hb (s, op, (step c s op).2) (by simp [trace]))
    have := ih (step c s op).1 _ _ h1 (fun hb e he => hseq hb e (by simp [trace, he]))
    simpa [trace, final, foldCounts] using this

/-- when a call finds a stored result: a refresh task is created exactly when this is the
`update_after`-th call since the store (and `update_after` is not beyond `cache_hits`) -/
theorem call_started {c : Cfg} (httl : 0 < c.ttl) {b : Bool} {s : St} {g k : Nat} (h : Good c b s g k) (o : Outcome)
    (dur : Nat) {st id : Nat} (hc : cached2 s.t = some (st, id)) :
    ((call c s o dur).2.started = true ↔ (k + 1 = c.upd ∧ c.upd ≠ 0 ∧ c.upd ≤ c.hits)) ∧
    (k + 1 ≤ c.hits → (call c s o dur).2.res = .stored st id ∨
        (c.bg = false ∧ o.raises = true ∧ k + 1 = c.upd ∧ (call c s o dur).2.res = o.result (s.t.now + dur) s.nexec)) ∧
    (c.hits < k + 1 → (call c s o dur).2.exec = true ∧ (call c s o dur).2.started = false ∧
        (call c s o dur).2.res = o.result (s.t.now + dur) s.nexec) := by
  obtain ⟨t1, hh, d, hincr, hnow, hmain, h1, hm, hfacts⟩ := incr_facts httl h.tg
  obtain ⟨hctr, _⟩ := h.tg.cnt st id hc
  obtain ⟨_, hhh⟩ := hfacts st id hc
  have hk : hh = (k : Int) + 1 := by omega
  have hex : (execute c s (advance t1 dur) o).2.exec = true ∧ (execute c s (advance t1 dur) o).2.started = false ∧
      (execute c s (advance t1 dur) o).2.res = o.result (s.t.now + dur) s.nexec := by
    unfold execute; cases o <;> simp [Outcome.result, hnow]
  unfold call
  rw [hincr]
  simp only [hc]
  by_cases hserve : hh ≠ 0 ∧ hh ≤ (c.hits : Int)
  · rw [if_pos hserve]
    by_cases hupd : c.upd ≠ 0 ∧ hh = (c.upd : Int)
    · rw [if_pos hupd]
      cases hbg : c.bg
      · simp only [Bool.false_eq_true, if_false]
        cases o
        · refine ⟨by simp; omega, fun _ => Or.inl (by simp), fun hlt => by omega⟩
        · refine ⟨by simp; omega, fun _ => Or.inr ⟨by simp, by simp [Outcome.raises], by omega, by simp [Outcome.result]⟩, fun hlt => by omega⟩
        · refine ⟨by simp; omega, fun _ => Or.inr ⟨by simp, by simp [Outcome.raises], by omega, by simp [Outcome.result]⟩, fun hlt => by omega⟩
        · refine ⟨by simp; omega, fun _ => Or.inl (by simp), fun hlt => by omega⟩
        · refine ⟨by simp; omega, fun _ => Or.inr ⟨by simp, by simp [Outcome.raises], by omega, by simp [Outcome.result]⟩, fun hlt => by omega⟩
      · simp only [if_true]
        refine ⟨by simp; omega, fun _ => Or.inl (by simp), fun hlt => by omega⟩
    · rw [if_neg hupd]
      refine ⟨?_, fun _ => Or.inl (by simp), fun hlt => by omega⟩
      simp
      intro h2 h3
      exfalso
      exact hupd ⟨h3, by omega⟩
  · rw [if_neg hserve]
    refine ⟨?_, fun hle => by omega, fun _ => hex⟩
    rw [hex.2.1]
    simp
    intro h2 h3
    have : ¬ hh ≤ (c.hits : Int) := fun h' => hserve ⟨by omega, h'⟩
    omega

end CashewsVerif.Decor.Hit

/-! ### the store step: what is stored changes only with outcome `ok`; who is answered with what -/
namespace CashewsVerif.Decor.Hit
open CashewsVerif CashewsVerif.Decor

theorem incr_main (t : TtlMap) (by_ : Int) (ttl : Option Nat) :
    (t.incr kAux by_ ttl).1.m kMain = t.m kMain ∧ (t.incr kAux by_ ttl).1.now = t.now := by
  unfold TtlMap.incr
  simp only []
  split
  · exact ⟨rfl, rfl⟩
  · exact ⟨write_m_ne _ _ _ _ (by simp [kAux, kMain]), rfl⟩

theorem afterStoreFailure_main (t : TtlMap) (st : Stage) :
    (afterStoreFailure t st).m kMain = t.m kMain ∧ (afterStoreFailure t st).now = t.now := by
  cases st <;> simp [afterStoreFailure, remove_m]

theorem execute_main (c : Cfg) (s : St) (t1 : TtlMap) (o : Outcome) (ho : o ≠ .ok) :
    (execute c s t1 o).1.t.m kMain = t1.m kMain ∧ (execute c s t1 o).1.t.now = t1.now := by
  unfold execute
  cases o <;> first | exact absurd rfl ho | exact ⟨rfl, rfl⟩ | exact afterStoreFailure_main _ _

theorem execute_answer (c : Cfg) (s : St) (t1 : TtlMap) (o : Outcome) :
    (execute c s t1 o).2 = ⟨o.result t1.now s.nexec, true, false⟩ := by
  unfold execute
  cases o <;> rfl

/-- only an execution with outcome `ok` changes the entry under the result's key -/
theorem call_main (c : Cfg) (s : St) (o : Outcome) (d : Nat) (ho : o ≠ .ok) :
    (call c s o d).1.t.m kMain = s.t.m kMain := by
  have hm := (incr_main s.t 1 (some c.ttl)).1
  have hx : ∀ t1, t1.m kMain = s.t.m kMain → (execute c s (advance t1 d) o).1.t.m kMain = s.t.m kMain := by
    intro t1 h1
    have := (execute_main c s (advance t1 d) o ho).1
    rw [this]; simpa using h1
  unfold call
  rcases hi : s.t.incr kAux 1 (some c.ttl) with ⟨t1, out⟩
  rw [hi] at hm
  simp only [] at hm
  cases out with
  | int h =>
    simp only []
    split
    · split
      · split
        · split
          · exact hm
          · cases o <;> first
              | exact absurd rfl ho
              | (simpa using hm)
              | (have := (afterStoreFailure_main (advance t1 d) ‹Stage›).1; rw [this]; simpa using hm)
        · exact hm
      · exact hx t1 hm
    · exact hx t1 hm
  | _ => exact hm

/-- the clock after a call is the instant its answer was handed out -/
theorem call_now (c : Cfg) (s : St) (o : Outcome) (d : Nat) :
    (call c s o d).1.t.now = servedAt s.t.now d (call c s o d).2 := by
  have hm := (incr_main s.t 1 (some c.ttl)).2
  have hx : ∀ t1, t1.now = s.t.now → (execute c s (advance t1 d) o).1.t.now =
      servedAt s.t.now d (execute c s (advance t1 d) o).2 := by
    intro t1 h1
    rw [execute_answer]
    unfold execute servedAt
    cases o with
    | storeFails stg l => cases stg <;> simp [afterStoreFailure, h1]
    | _ => simp [save, h1]
  unfold call
  rcases hi : s.t.incr kAux 1 (some c.ttl) with ⟨t1, out⟩
  rw [hi] at hm
  simp only [] at hm
  cases out with
  | int h =>
    simp only []
    split
    · split
      · split
        · split
          · simp [servedAt, hm]
          · cases o with
            | storeFails stg l => cases stg <;> simp [servedAt, afterStoreFailure, hm]
            | _ => simp [servedAt, save, hm]
        · simp [servedAt, hm]
      · exact hx t1 hm
    · exact hx t1 hm
  | _ => simp [servedAt, hm]

theorem done_main (c : Cfg) (s : St) (i : Nat) (o : Outcome) (ho : o ≠ .ok) :
    (done c s i o).1.t.m kMain = s.t.m kMain ∧ (done c s i o).1.t.now = s.t.now := by
  unfold done
  split
  · exact ⟨rfl, rfl⟩
  · cases o <;> first | exact absurd rfl ho | exact ⟨rfl, rfl⟩ | exact afterStoreFailure_main _ _

/-- whenever the function runs inside a call, the caller is handed what that execution produced — its result, its
exception, the exception of its store step — or, when it was a foreground refresh that raised nothing, the stored
result the refresh was started for -/
theorem call_answer (c : Cfg) (s : St) (o : Outcome) (d : Nat) (hx : (call c s o d).2.exec = true) :
    ((call c s o d).2.started = false ∧ (call c s o d).2.res = o.result (s.t.now + d) s.nexec) ∨
    ((call c s o d).2.started = true ∧
      ((o.raises = true ∧ (call c s o d).2.res = o.result (s.t.now + d) s.nexec) ∨
       (o.raises = false ∧ ∃ st id, cached2 s.t = some (st, id) ∧ (call c s o d).2.res = .stored st id))) := by
  revert hx
  have hnow := (incr_main s.t 1 (some c.ttl)).2
  unfold call
  rcases hi : s.t.incr kAux 1 (some c.ttl) with ⟨t1, out⟩
  rw [hi] at hnow
  simp only [] at hnow
  cases out with
  | int h =>
    simp only []
    cases hc : cached2 s.t with
    | none => simp only []; intro _; left; rw [execute_answer]; simp [hnow]
    | some p =>
      obtain ⟨st, id⟩ := p
      simp only []
      by_cases hs : h ≠ 0 ∧ h ≤ (c.hits : Int)
      · rw [if_pos hs]
        by_cases hu : c.upd ≠ 0 ∧ h = (c.upd : Int)
        · rw [if_pos hu]
          cases hb : c.bg
          · simp only [Bool.false_eq_true, if_false]
            intro _
            right
            cases o <;> simp [Outcome.raises, Outcome.result]
          · simp
        · rw [if_neg hu]; simp
      · rw [if_neg hs]; intro _; left; rw [execute_answer]; simp [hnow]
  | _ => simp

end CashewsVerif.Decor.Hit
