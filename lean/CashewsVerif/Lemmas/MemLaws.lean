import CashewsVerif.Lemmas.Store
/-
Single-key facts about `_get` / `_delete` of the in-memory model that hold in *every* state
(reachable or not).  Helpers of the any-state laws at the end of `Props/C01.lean`.
-/
namespace CashewsVerif.MemLaws
open CashewsVerif Store

theorem rawGet_of_lookup_none {s : Mem} {k : Key} (h : lookup s.store k = none) :
    (s.rawGet k).2 = none := by
  unfold Mem.rawGet; rw [h]

theorem rawGet_of_lookup_live {s : Mem} {k : Key} {e : Entry} (h : lookup s.store k = some e)
    (hl : e.live s.now = true) : (s.rawGet k).2 = some e.val := by
  unfold Mem.rawGet; rw [h]; simp [hl]

theorem getExpire_of_lookup_none {s : Mem} {k : Key} (h : lookup s.store k = none) :
    s.getExpire k = -2 := by
  unfold Mem.getExpire; rw [h]

theorem rawDelete_lookup (s : Mem) (k : Key) : lookup (s.rawDelete k).1.store k = none := by
  unfold Mem.rawDelete
  split
  · assumption
  · simp

/-- what a read leaves behind for its own key: the same live entry, or nothing -/
theorem rawGet_lookup (s : Mem) (k : Key) :
    (∃ e, lookup s.store k = some e ∧ e.live s.now = true ∧ (s.rawGet k).2 = some e.val ∧
        lookup (s.rawGet k).1.store k = some e) ∨
    ((s.rawGet k).2 = none ∧ lookup (s.rawGet k).1.store k = none) := by
  unfold Mem.rawGet
  split
  · right; simp [*]
  · rename_i e he
    split
    · left; exact ⟨e, he, by assumption, rfl, by simp [lookup_put]⟩
    · right; simp

theorem rawGet_now (s : Mem) (k : Key) : (s.rawGet k).1.now = s.now := by
  unfold Mem.rawGet; split
  · rfl
  · split <;> rfl


theorem lookup_tail_none {s : Store} {k : Key} (h : lookup s k = none) : lookup s.tail k = none := by
  cases s with
  | nil => rfl
  | cons p s =>
    obtain ⟨k', e⟩ := p
    simp only [lookup] at h
    split at h
    · simp at h
    · simpa using h

/-- a write survives its own capacity trim whenever the capacity is at least one -/
theorem lookup_trim_put (cap : Nat) (hc : 0 < cap) (s : Store) (k : Key) (e : Entry) :
    lookup (Mem.trim cap (put s k e)) k = some e := by
  unfold Mem.trim
  split
  · rename_i hlen
    unfold put at hlen ⊢
    cases h : erase s k with
    | nil => simp [h] at hlen; omega
    | cons p r =>
      have hn : lookup (erase s k) k = none := lookup_erase_self s k
      have := lookup_tail_none hn
      rw [h] at this
      simp only [List.cons_append, List.tail_cons]
      rw [lookup_append]
      simp only [List.tail_cons] at this
      simp [this, lookup]
  · simp [lookup_put]

/-- the deadline `_set` computes is strictly ahead of the clock -/
theorem newDeadline_live (s : Mem) (k : Key) (v : Val) (ttl : Option Nat) :
    (⟨v, s.newDeadline k ttl⟩ : Entry).live s.now = true := by
  unfold Mem.newDeadline
  split
  · rename_i d hd
    unfold deadlineOf at hd
    split at hd
    · simp at hd
    · simp at hd
    · simp at hd; subst hd; simp [Entry.live]
  · split
    · rename_i e he
      split
      · rename_i hl
        simpa [Entry.live] using hl
      · simp [Entry.live]
    · simp [Entry.live]

theorem rawSet_then_get (s : Mem) (hc : 0 < s.cap) (k : Key) (v : Val) (ttl : Option Nat) :
    ((s.rawSet k v ttl).rawGet k).2 = some v := by
  have h := lookup_trim_put s.cap hc s.store k ⟨v, s.newDeadline k ttl⟩
  exact rawGet_of_lookup_live (s := s.rawSet k v ttl) h (newDeadline_live s k v ttl)


theorem rawGet_cap (s : Mem) (k : Key) : (s.rawGet k).1.cap = s.cap := by
  unfold Mem.rawGet; split
  · rfl
  · split <;> rfl

/-- the shape of `incr`: it fails on a non-number, else stores and returns old + by -/
theorem incr_shape (s : Mem) (k : Key) (b : Int) (ttl : Option Nat) :
    ((s.step (.incr k b ttl)).2 = .err) ∨
    ∃ c : Int, ((s.rawGet k).2 = none ∧ c = 0 ∨ (s.rawGet k).2 = some (.int c)) ∧
      s.step (.incr k b ttl) =
        ((s.rawGet k).1.rawSet k (.int (c + b)) (if c + b = 1 then ttl else none), .int (c + b)) := by
  simp only [Mem.step]
  cases h : (s.rawGet k).2 with
  | none => right; exact ⟨0, Or.inl ⟨rfl, rfl⟩, by simp⟩
  | some v =>
    cases v with
    | int i => right; exact ⟨i, Or.inr rfl, by simp [Val.toInt?]⟩
    | tok n => left; simp [Val.toInt?]
    | nil => left; simp [Val.toInt?]
    | keys ks => left; simp [Val.toInt?]
    | nums ns => left; simp [Val.toInt?]

end CashewsVerif.MemLaws
