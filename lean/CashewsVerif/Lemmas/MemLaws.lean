import CashewsVerif.Lemmas.Store
/-
Single-key facts about `_get` / `_delete` of the in-memory model that hold in *every* state
(reachable or not).  Helpers of the any-state laws at the end of `Props/C01.lean`.
-/
namespace CashewsVerif.MemLaws
open CashewsVerif Store

theorem rawGet_of_lookup_none {s : Mem} {k : Key} (h : lookup s.store k = none) :
    (s.rawGet k).2 = none := by
  unfold Mem.rawGet; rw [h]

theorem rawGet_of_lookup_live {s : Mem} {k : Key} {e : Entry} (h : lookup s.store k = some e)
    (hl : e.live s.now = true) : (s.rawGet k).2 = some e.val := by
  unfold Mem.rawGet; rw [h]; simp [hl]

theorem getExpire_of_lookup_none {s : Mem} {k : Key} (h : lookup s.store k = none) :
    s.getExpire k = -2 := by
  unfold Mem.getExpire; rw [h]

theorem rawDelete_lookup (s : Mem) (k : Key) : lookup (s.rawDelete k).1.store k = none := by
  unfold Mem.rawDelete
  split
  · assumption
  · simp

/-- what a read leaves behind for its own key: the same live entry, or nothing -/
theorem rawGet_lookup (s : Mem) (k : Key) :
    (∃ e, lookup s.store k = some e ∧ e.live s.now = true ∧ (s.rawGet k).2 = some e.val ∧
        lookup (s.rawGet k).1.store k = some e) ∨
    ((s.rawGet k).2 = none ∧ lookup (s.rawGet k).1.store k = none) := by
  unfold Mem.rawGet
  split
  · right; simp [*]
  · rename_i e he
    split
    · left; exact ⟨e, he, by assumption, rfl, by simp [lookup_put]⟩
    · right; simp

theorem rawGet_now (s : Mem) (k : Key) : (s.rawGet k).1.now = s.now := by
  unfold Mem.rawGet; split
  · rfl
  · split <;> rfl

end CashewsVerif.MemLaws
