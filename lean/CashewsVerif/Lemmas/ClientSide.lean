import CashewsVerif.Model.ClientSide
import CashewsVerif.Lemmas.RedisKS
/- Facts about the client-side model (C20). -/
namespace CashewsVerif.Redis.CS
open CashewsVerif CashewsVerif.Redis

/-- every connected listener processes everything announced to it (a quiescent point) -/
def deliverClient (now : Nat) (c : Client) : Client :=
  c.queue.foldl (fun c m => c.applyMsg now m) { c with queue := [] }

def deliverAll (st : St) : St := { st with cl := fun i => deliverClient (now st) (st.cl i) }

/-- one command followed by complete delivery -/
def qstep (st : St) (op : Op) : St × ROut := (deliverAll (step st op).1, (step st op).2)

def qrun (st : St) : List Op → St × List ROut
  | [] => (st, [])
  | op :: ops => ((qrun (qstep st op).1 ops).1, (qstep st op).2 :: (qrun (qstep st op).1 ops).2)

theorem deliver_eq_step (st : St) (i : Nat) :
    ((step st (.deliver i)).1.cl i) = deliverClient (now st) (st.cl i) := by
  simp [step, upd, deliverClient]

/-! ### announcements -/

@[simp] theorem announce_loc (cl : Nat → Client) (m) (i) : (announce cl m i).loc = (cl i).loc := by
  unfold announce; split <;> rfl
@[simp] theorem announce_marks (cl : Nat → Client) (m) (i) : (announce cl m i).marks = (cl i).marks := by
  unfold announce; split <;> rfl
@[simp] theorem announce_started (cl : Nat → Client) (m) (i) : (announce cl m i).started = (cl i).started := by
  unfold announce; split <;> rfl
@[simp] theorem announce_tracking (cl : Nat → Client) (m) (i) : (announce cl m i).tracking = (cl i).tracking := by
  unfold announce; split <;> rfl
theorem announce_queue (cl : Nat → Client) (m) (i) :
    (announce cl m i).queue = if (cl i).tracking then (cl i).queue ++ [m] else (cl i).queue := by
  unfold announce; split <;> simp_all

theorem announceKeys_fields (cl : Nat → Client) (ks : List String) (i : Nat) :
    (announceKeys cl ks i).loc = (cl i).loc ∧ (announceKeys cl ks i).marks = (cl i).marks ∧
    (announceKeys cl ks i).started = (cl i).started ∧ (announceKeys cl ks i).tracking = (cl i).tracking ∧
    (announceKeys cl ks i).queue = if (cl i).tracking then (cl i).queue ++ ks.map (fun k => Msg.keys [k]) else (cl i).queue := by
  induction ks generalizing cl with
  | nil => simp [announceKeys]
  | cons k ks ih =>
    have := ih (announce cl (.keys [k]))
    simp only [announceKeys, List.foldl_cons] at this ⊢
    obtain ⟨h1, h2, h3, h4, h5⟩ := this
    refine ⟨by rw [h1]; simp, by rw [h2]; simp, by rw [h3]; simp, by rw [h4]; simp, ?_⟩
    rw [h5]
    simp only [announce_tracking, announce_queue]
    split <;> simp

/-! ### what a listener without live marks does with announced keys -/

def Client.noMarks (c : Client) (now : Nat) : Prop := ∀ k, c.marked now k = false

theorem applyKey_noMarks {c : Client} {now : Nat} (h : c.noMarks now) (k : String) :
    c.applyKey now k = c.ldel k ∧ (c.applyKey now k).noMarks now := by
  unfold Client.applyKey
  simp only [h k]
  exact ⟨by simp, fun k' => by simpa [Client.ldel, Client.marked] using h k'⟩

/-- applying announcements for the keys `ks`: exactly those local entries go -/
theorem applyKeys_noMarks (ks : List String) :
    ∀ (c : Client) (now : Nat), c.noMarks now →
      let c' := ks.foldl (fun c k => c.applyMsg now (.keys [k])) c
      (∀ k, c'.loc k = if k ∈ ks then none else c.loc k) ∧ c'.marks = c.marks ∧ c'.started = c.started ∧
      c'.tracking = c.tracking ∧ c'.queue = c.queue := by
  induction ks with
  | nil => intro c now _; simp
  | cons a ks ih =>
    intro c now h
    obtain ⟨e1, e2⟩ := applyKey_noMarks h a
    have := ih (c.applyKey now a) now e2
    simp only [List.foldl_cons, Client.applyMsg, List.foldl_nil] at this ⊢
    rw [e1] at this ⊢
    obtain ⟨h1, h2, h3, h4, h5⟩ := this
    refine ⟨fun k => ?_, h2, h3, h4, h5⟩
    rw [h1 k]
    by_cases hk : k ∈ ks
    · simp [hk]
    · by_cases ha : k = a
      · subst ha; simp [Client.ldel]
      · simp [hk, ha, Client.ldel]

/-! ### the server side: a command is local to the keys it announces -/

theorem find_delMany (s : KS) (l : List String) (k : String) :
    (s.delMany l).find k = if k ∈ l then none else s.find k := by
  induction l generalizing s with
  | nil => simp [KS.delMany]
  | cons a l ih =>
    simp only [KS.delMany, List.foldl] at ih ⊢
    rw [ih, KS.find_del]
    by_cases h1 : k ∈ l <;> by_cases h2 : k = a <;> simp [h1, h2]

/-- the commands a client-side cache sends for the operations of the agreement theorem -/
def csCmd : Cmd → Bool
  | .set _ _ _ _ | .unlink _ | .pexpire _ _ | .incrby _ _ => true
  | .evalsha (some .incrExpire) _ [.num _, .num _] => true
  | .evalsha (some .unlock) _ [_] => true
  | _ => false

/-- `_UNLOCK` on the server: refused (script not loaded / wrong type), or the token does not match and nothing
changes, or the key is there with that token and goes -/
theorem exec_unlock_cases (s : Srv) (k : String) (tok : Bytes) :
    s.exec (.evalsha (some .unlock) k [tok]) = (s, .err) ∨ s.exec (.evalsha (some .unlock) k [tok]) = (s, .int 0) ∨
    (s.ks.present k = true ∧ s.exec (.evalsha (some .unlock) k [tok]) = ({ s with ks := s.ks.delMany [k] }, .int 1)) := by
  by_cases hl : Script.unlock ∈ s.loaded
  · simp only [Srv.exec, hl, if_true, Srv.runUnlock, Srv.execPrim]
    cases hf : s.ks.find k with
    | none => right; left; simp
    | some e =>
      obtain ⟨v, dl⟩ := e
      have hp : s.ks.present k = true := by simp [KS.present, hf]
      cases v with
      | str b =>
        by_cases hb : b = tok
        · right; right; subst hb; simp [hp]
        · right; left; simp [hb]
      | _ => left; rfl
  · left; simp [Srv.exec, hl]

theorem touched_unlock (s : Srv) (k : String) (tok : Bytes) :
    (touched s (.evalsha (some .unlock) k [tok]) = [] ∧ (s.exec (.evalsha (some .unlock) k [tok])).1 = s ∧
      (s.exec (.evalsha (some .unlock) k [tok])).2 ≠ .int 1) ∨
    (touched s (.evalsha (some .unlock) k [tok]) = [k] ∧ s.ks.present k = true ∧
      s.exec (.evalsha (some .unlock) k [tok]) = ({ s with ks := s.ks.delMany [k] }, .int 1)) := by
  rcases exec_unlock_cases s k tok with h | h | ⟨hp, h⟩
  · left; simp only [touched, h]; simp
  · left; simp only [touched, h]; simp
  · right; simp only [touched, h]; exact ⟨trivial, hp, trivial⟩

/-- a command changes the visible keyspace only at the keys it announces, and never the clock -/
theorem exec_outside (s : Srv) (c : Cmd) (hc : csCmd c = true) (k : String) (hk : k ∉ touched s c) :
    (s.exec c).1.ks.find k = s.ks.find k ∧ (s.exec c).1.ks.now = s.ks.now := by
  cases c with
  | set k0 v px cond =>
    simp only [touched] at hk
    by_cases hok : (s.exec (.set k0 v px cond)).2 = .ok
    · simp only [hok, if_true, List.mem_singleton] at hk
      revert hok
      simp only [Srv.exec, Srv.execPrim]
      (repeat' split) <;> simp_all [KS.find_put_ne]
    · revert hok
      simp only [Srv.exec, Srv.execPrim]
      (repeat' split) <;> simp_all
  | unlink ks =>
    simp only [touched, List.mem_filter, not_and] at hk
    simp only [Srv.exec, Srv.execPrim]
    by_cases he : ks.isEmpty = true
    · simp [he]
    · simp only [he]
      refine ⟨?_, by simp⟩
      simp only [Bool.false_eq_true, if_false, find_delMany]
      by_cases hm : k ∈ ks
      · have := hk hm
        simp only [hm, if_true]
        simp only [KS.present, Option.isSome_iff_ne_none, ne_eq, Decidable.not_not] at this
        exact this.symm
      · simp [hm]
  | pexpire k0 ms =>
    simp only [touched] at hk
    simp only [Srv.exec, Srv.execPrim]
    cases hf : s.ks.find k0 with
    | none => simp
    | some e =>
      have hp : s.ks.present k0 = true := by simp [KS.present, hf]
      simp only [hp, if_true, List.mem_singleton] at hk
      by_cases hms : ms ≤ 0 <;> simp [hms, KS.find_put_ne _ _ hk, KS.find_del_ne _ hk]
  | incrby k0 b =>
    simp only [touched] at hk
    by_cases he : (s.exec (.incrby k0 b)).2 = .err
    · revert he
      simp only [Srv.exec, Srv.execPrim]
      (repeat' split) <;> simp_all
    · simp only [he, if_false, List.mem_singleton] at hk
      simp only [Srv.exec, Srv.execPrim]
      (repeat' split) <;> simp_all [KS.find_put_ne]
  | evalsha sha k0 args =>
    -- only `_INCR_EXPIRE` with two numeric arguments is in the alphabet: INCRBY then (maybe) PEXPIRE, both on k0
    match sha, args, hc with
    | some .incrExpire, [.num b, .num ms], _ =>
      by_cases hl : Script.incrExpire ∈ s.loaded
      · have hrun : (s.exec (.evalsha (some .incrExpire) k0 [.num b, .num ms])) = s.runIncrExpire k0 [.num b, .num ms] := by
          simp [Srv.exec, hl]
        rw [hrun]
        simp only [touched, hrun] at hk
        by_cases he : (s.runIncrExpire k0 [.num b, .num ms]).2 = .err
        · have : (s.runIncrExpire k0 [.num b, .num ms]).1 = s := by
            revert he
            simp only [Srv.runIncrExpire]
            cases (s.execPrim (.incrby k0 b)).2 <;> simp
            split <;> simp
          rw [this]; exact ⟨rfl, rfl⟩
        · have hne : k ≠ k0 := by
            intro h; subst h
            revert hk he
            cases (s.runIncrExpire k [.num b, .num ms]).2 <;> simp
            rename_i i; by_cases hi : i = 0 <;> simp [hi]
          -- both primitives are local to k0
          have h1 : ∀ (t : Srv) (c : Cmd), (c = .incrby k0 b ∨ c = .pexpire k0 ms) →
              (t.execPrim c).1.ks.find k = t.ks.find k ∧ (t.execPrim c).1.ks.now = t.ks.now := by
            intro t c hc'
            rcases hc' with rfl | rfl <;> simp only [Srv.execPrim] <;> (repeat' split) <;>
              simp_all [KS.find_put_ne, KS.find_del_ne]
          simp only [Srv.runIncrExpire]
          cases hr : (s.execPrim (.incrby k0 b)).2 with
          | int c =>
            obtain ⟨a1, a2⟩ := h1 s _ (Or.inl rfl)
            by_cases hc1 : c = 1
            · obtain ⟨b1, b2⟩ := h1 (s.execPrim (.incrby k0 b)).1 _ (Or.inr rfl)
              simp only [hc1, if_true]
              exact ⟨b1.trans a1, b2.trans a2⟩
            · simp only [hc1, if_false]; exact ⟨a1, a2⟩
          | _ => exact ⟨rfl, rfl⟩
      · simp [Srv.exec, hl]
    | some .unlock, [tok], _ =>
      rcases touched_unlock s k0 tok with ⟨_, h, _⟩ | ⟨ht, _, h⟩
      · rw [h]; exact ⟨rfl, rfl⟩
      · rw [ht, List.mem_singleton] at hk
        rw [h]
        exact ⟨by simp [find_delMany, hk], by simp⟩
  | _ => simp [csCmd] at hc


theorem execPrim_now (s : Srv) (c : Cmd) (hc : csCmd c = true) : (s.execPrim c).1.ks.now = s.ks.now := by
  cases c <;> simp [csCmd] at hc <;> simp only [Srv.execPrim] <;> (repeat' split) <;> simp_all

theorem exec_now (s : Srv) (c : Cmd) (hc : csCmd c = true) : (s.exec c).1.ks.now = s.ks.now := by
  cases c with
  | evalsha sha k0 args =>
    match sha, args, hc with
    | some .incrExpire, [.num b, .num ms], _ =>
      by_cases hl : Script.incrExpire ∈ s.loaded
      · simp only [Srv.exec, hl, if_true, Srv.runIncrExpire]
        cases hr : (s.execPrim (.incrby k0 b)).2 with
        | int c =>
          have a := execPrim_now s (.incrby k0 b) rfl
          by_cases hc1 : c = 1
          · have b' := execPrim_now (s.execPrim (.incrby k0 b)).1 (.pexpire k0 ms) rfl
            simp only [hc1, if_true]; exact b'.trans a
          · simp only [hc1, if_false]; exact a
        | _ => rfl
      · simp [Srv.exec, hl]
    | some .unlock, [tok], _ =>
      rcases exec_unlock_cases s k0 tok with h | h | ⟨_, h⟩ <;> rw [h] <;> simp
  | set k v px c => exact execPrim_now s _ hc
  | unlink ks => exact execPrim_now s _ hc
  | pexpire k ms => exact execPrim_now s _ hc
  | incrby k b => exact execPrim_now s _ hc
  | _ => simp [csCmd] at hc

/-- what one client-side wire command does to the shared state -/
theorem srvCmd_facts (st0 : St) (c : Cmd) (hc : csCmd c = true) (hq : ∀ j, (st0.cl j).queue = []) :
    now (srvCmd st0 c).1 = now st0 ∧ (srvCmd st0 c).1.isEnc = st0.isEnc ∧ (srvCmd st0 c).2 = (st0.srv.exec c).2 ∧
    (srvCmd st0 c).1.srv = (st0.srv.exec c).1 ∧
    (∀ j, ((srvCmd st0 c).1.cl j).loc = (st0.cl j).loc ∧ ((srvCmd st0 c).1.cl j).marks = (st0.cl j).marks ∧
      ((srvCmd st0 c).1.cl j).started = (st0.cl j).started ∧ ((srvCmd st0 c).1.cl j).tracking = (st0.cl j).tracking ∧
      ((srvCmd st0 c).1.cl j).queue = if (st0.cl j).tracking then (touched st0.srv c).map (fun k => Msg.keys [k]) else []) ∧
    (∀ k, k ∉ touched st0.srv c → srvValue (srvCmd st0 c).1 k = srvValue st0 k) := by
  have hcl : (srvCmd st0 c).1.cl = announceKeys st0.cl (touched st0.srv c) := by
    cases c <;> simp [csCmd] at hc <;> rfl
  have hsrv : (srvCmd st0 c).1.srv = (st0.srv.exec c).1 := rfl
  refine ⟨?_, rfl, rfl, hsrv, ?_, ?_⟩
  · show (srvCmd st0 c).1.srv.ks.now = st0.srv.ks.now
    rw [hsrv]; exact exec_now st0.srv c hc
  · intro j
    obtain ⟨a, b, c', d, e⟩ := announceKeys_fields st0.cl (touched st0.srv c) j
    rw [hcl]
    refine ⟨a, b, c', d, ?_⟩
    rw [e, hq j]; simp
  · intro k hk
    simp only [srvValue, decodeS]
    rw [hsrv, (exec_outside st0.srv c hc k hk).1]
    rfl

/-! ### the invariant of quiescent points -/

def agreeEntry (st : St) (k : String) (e : LEntry) : Prop :=
  match e.val with
  | .val v => srvValue st k = some v
  | .absent => srvValue st k = none

/-- every connected client's live local entries say what the server says -/
def Agree (st : St) : Prop :=
  ∀ i k e, (st.cl i).started = true → (st.cl i).lfind (now st) k = some e → agreeEntry st k e

/-- nothing is in flight: queues are empty; a connected client is tracked and holds no live echo mark -/
def Quiet (st : St) : Prop :=
  ∀ i, (st.cl i).queue = [] ∧ ((st.cl i).started = true → (st.cl i).tracking = true ∧ (st.cl i).noMarks (now st))

def Inv (st : St) : Prop := Quiet st ∧ Agree st

theorem applyMsg_fields (c : Client) (now : Nat) (m : Msg) :
    (c.applyMsg now m).queue = c.queue ∧ (c.applyMsg now m).started = c.started ∧ (c.applyMsg now m).tracking = c.tracking := by
  cases m with
  | flush => simp [Client.applyMsg, Client.lclear]
  | keys ks =>
    simp only [Client.applyMsg]
    induction ks generalizing c with
    | nil => simp
    | cons k ks ih =>
      simp only [List.foldl_cons]
      obtain ⟨h1, h2, h3⟩ := ih (c.applyKey now k)
      have : (c.applyKey now k).queue = c.queue ∧ (c.applyKey now k).started = c.started ∧ (c.applyKey now k).tracking = c.tracking := by
        unfold Client.applyKey; split <;> simp [Client.unmark, Client.ldel]
      exact ⟨h1.trans this.1, h2.trans this.2.1, h3.trans this.2.2⟩

theorem deliverClient_fields (now : Nat) (c : Client) :
    (deliverClient now c).queue = [] ∧ (deliverClient now c).started = c.started ∧ (deliverClient now c).tracking = c.tracking := by
  unfold deliverClient
  generalize c.queue = q
  have : ∀ (q : List Msg) (d : Client), (q.foldl (fun c m => c.applyMsg now m) d).queue = d.queue ∧
      (q.foldl (fun c m => c.applyMsg now m) d).started = d.started ∧ (q.foldl (fun c m => c.applyMsg now m) d).tracking = d.tracking := by
    intro q
    induction q with
    | nil => intro d; simp
    | cons m q ih =>
      intro d
      simp only [List.foldl_cons]
      obtain ⟨a, b, c'⟩ := ih (d.applyMsg now m)
      obtain ⟨x, y, z⟩ := applyMsg_fields d now m
      exact ⟨a.trans x, b.trans y, c'.trans z⟩
  exact this q { c with queue := [] }

/-- delivery to a client without live marks whose queue announces the keys `K` -/
theorem deliverClient_keys (now : Nat) (c : Client) (K : List String) (hq : c.queue = K.map (fun k => Msg.keys [k]))
    (hm : c.noMarks now) :
    (∀ k, (deliverClient now c).loc k = if k ∈ K then none else c.loc k) ∧ (deliverClient now c).marks = c.marks := by
  unfold deliverClient
  rw [hq, List.foldl_map]
  have := applyKeys_noMarks K { c with queue := [] } now (by intro k; exact hm k)
  exact ⟨this.1, this.2.1⟩

theorem srvValue_deliverAll (st : St) (k : String) : srvValue (deliverAll st) k = srvValue st k := rfl

theorem inv_after (st st' : St) (i : Nat) (K : List String) (hinv : Inv st)
    (hnow : now st' = now st)
    (hflags : ∀ j, (st'.cl j).started = (st.cl j).started ∧ (st'.cl j).tracking = (st.cl j).tracking)
    (hqueue : ∀ j, (st'.cl j).queue = if (st.cl j).tracking then K.map (fun k => Msg.keys [k]) else [])
    (hsrv : ∀ k, k ∉ K → srvValue st' k = srvValue st k)
    (hothers : ∀ j, j ≠ i → (st'.cl j).loc = (st.cl j).loc ∧ (st'.cl j).marks = (st.cl j).marks)
    (hwriter : (st.cl i).started = true →
      (deliverClient (now st) (st'.cl i)).noMarks (now st) ∧
      ∀ k e, (deliverClient (now st) (st'.cl i)).lfind (now st) k = some e → agreeEntry st' k e) :
    Inv (deliverAll st') := by
  obtain ⟨hq, ha⟩ := hinv
  have hnow' : now (deliverAll st') = now st := hnow
  constructor
  · intro j
    obtain ⟨f1, f2, f3⟩ := deliverClient_fields (now st') (st'.cl j)
    refine ⟨f1, fun hs => ?_⟩
    have hs' : (st.cl j).started = true := by
      have : (deliverAll st').cl j = deliverClient (now st') (st'.cl j) := rfl
      rw [this, f2, (hflags j).1] at hs; exact hs
    obtain ⟨ht, hm⟩ := (hq j).2 hs'
    refine ⟨?_, ?_⟩
    · show (deliverClient (now st') (st'.cl j)).tracking = true
      rw [f3, (hflags j).2]; exact ht
    · show (deliverClient (now st') (st'.cl j)).noMarks (now (deliverAll st'))
      rw [hnow', hnow]
      by_cases hji : j = i
      · subst hji; exact (hwriter hs').1
      · have hq' := hqueue j
        rw [ht, if_pos rfl] at hq'
        have hm' : (st'.cl j).noMarks (now st) := by
          intro k; simp only [Client.marked, (hothers j hji).2]; exact hm k
        obtain ⟨_, g2⟩ := deliverClient_keys (now st) (st'.cl j) K hq' hm'
        intro k
        simp only [Client.marked, g2, (hothers j hji).2]
        exact hm k
  · intro j k e hs hf
    have hdc : (deliverAll st').cl j = deliverClient (now st') (st'.cl j) := rfl
    obtain ⟨f1, f2, f3⟩ := deliverClient_fields (now st') (st'.cl j)
    have hs' : (st.cl j).started = true := by rw [hdc, f2, (hflags j).1] at hs; exact hs
    rw [hdc, hnow', hnow] at hf
    show agreeEntry st' k e
    by_cases hji : j = i
    · subst hji; exact (hwriter hs').2 k e hf
    · obtain ⟨ht, hm⟩ := (hq j).2 hs'
      have hq' := hqueue j
      rw [ht, if_pos rfl] at hq'
      have hm' : (st'.cl j).noMarks (now st) := by
        intro k; simp only [Client.marked, (hothers j hji).2]; exact hm k
      obtain ⟨g1, _⟩ := deliverClient_keys (now st) (st'.cl j) K hq' hm'
      have hk : k ∉ K := by
        intro hk
        simp [Client.lfind, g1 k, hk] at hf
      have hf' : (st.cl j).lfind (now st) k = some e := by
        simpa [Client.lfind, g1 k, hk, (hothers j hji).1] using hf
      have := ha j k e hs' hf'
      unfold agreeEntry at this ⊢
      rw [hsrv k hk]; exact this

end CashewsVerif.Redis.CS
