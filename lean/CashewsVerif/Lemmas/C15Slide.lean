import CashewsVerif.Lemmas.C15Base
/-
Helper lemmas for C15, sliding log: what `slice_incr` does to its key, and the invariant tying the
stored list to the ideal log of all appended instants.
-/
namespace CashewsVerif.Decor
open CashewsVerif CashewsVerif.Decor.Spec

/-! ### `slice_incr` on its own key -/

theorem logOf_none {t : TtlMap} {k : Nat} (h : t.find k = none) : logOf t k = [] := by
  simp [logOf, h]

theorem logOf_some {t : TtlMap} {k : Nat} {l : List Nat} {dl : Option Nat} (h : t.find k = some ⟨.nums l, dl⟩) :
    logOf t k = l := by
  simp [logOf, h]

/-- the entries `slice_incr` keeps -/
def kept (t : TtlMap) (k period end_ : Nat) : List Nat := (logOf t k).filter (inWindow period end_)

theorem sliceIncr_eq (t : TtlMap) (k period end_ maxv : Nat) (ttl : Option Nat) :
    sliceIncr t k period end_ maxv ttl =
      if (kept t k period end_).length < maxv then
        (t.write k (.nums (kept t k period end_ ++ [end_])) ttl, (kept t k period end_).length + 1)
      else (t.write k (.nums (kept t k period end_)) ttl, (kept t k period end_).length) := rfl

theorem sliceIncr_val (t : TtlMap) (k period end_ maxv : Nat) (ttl : Option Nat) :
    (sliceIncr t k period end_ maxv ttl).2 =
      if (kept t k period end_).length < maxv then (kept t k period end_).length + 1 else (kept t k period end_).length := by
  rw [sliceIncr_eq]
  split <;> rfl

theorem sliceIncr_now (t : TtlMap) (k period end_ maxv : Nat) (ttl : Option Nat) :
    (sliceIncr t k period end_ maxv ttl).1.now = t.now := by
  rw [sliceIncr_eq]
  split <;> rfl

theorem sliceIncr_m_same (t : TtlMap) (k period end_ maxv x : Nat) (hx : 0 < x) :
    (sliceIncr t k period end_ maxv (some x)).1.m k =
      some ⟨.nums (if (kept t k period end_).length < maxv then kept t k period end_ ++ [end_] else kept t k period end_),
            some (t.now + x)⟩ := by
  rw [sliceIncr_eq]
  split <;> simp [TtlMap.write_m_same, TtlMap.deadlineOf_pos _ hx, *]

theorem sliceIncr_m_other (t : TtlMap) {k k' : Nat} (period end_ maxv : Nat) (ttl : Option Nat) (h : k' ≠ k) :
    (sliceIncr t k period end_ maxv ttl).1.m k' = t.m k' := by
  rw [sliceIncr_eq]
  split <;> simp [TtlMap.write_m_other _ _ _ h]

/-! ### list facts -/

theorem filter_filter_of_imp {α} (p q : α → Bool) (l : List α) (h : ∀ a ∈ l, q a = true → p a = true) :
    (l.filter p).filter q = l.filter q := by
  rw [List.filter_filter]
  apply List.filter_congr
  intro a ha
  cases hq : q a
  · simp
  · simp [h a ha hq]

theorem filter_eq_nil_of {α} (p : α → Bool) (l : List α) (h : ∀ a ∈ l, p a = false) : l.filter p = [] := by
  rw [List.filter_eq_nil_iff]
  intro a ha
  simp [h a ha]

/-! ### the stored list is the live part of the ideal log -/

/-- `x ≤ a + period`: the instant `a` is not older than `period` at `x` -/
def notOlder (period x : Nat) (a : Nat) : Bool := decide (x ≤ a + period)

/-- Key `k` holds what is left of the ideal log `lg` (every instant ever appended, in order); it was
    last written at `last`, with TTL `period`.  For every later instant `x` the stored list and the
    ideal log agree on the entries not older than `period`. -/
def LogInv (t : TtlMap) (k period : Nat) (lg : List Nat) (last : Nat) : Prop :=
  (t.m k = none ∧ lg = []) ∨
  (∃ L, t.m k = some ⟨.nums L, some (last + period)⟩ ∧ last ≤ t.now ∧ (∀ a ∈ L, a ≤ last) ∧ (∀ a ∈ lg, a ≤ last) ∧
     ∀ x, last < x → L.filter (notOlder period x) = lg.filter (notOlder period x))

theorem LogInv.frame {t t' : TtlMap} {k period : Nat} {lg : List Nat} {last : Nat}
    (h : LogInv t k period lg last) (hm : t'.m k = t.m k) (hn : t.now ≤ t'.now) : LogInv t' k period lg last := by
  rcases h with ⟨h1, h2⟩ | ⟨L, h1, h2, h3⟩
  · exact .inl ⟨by rw [hm]; exact h1, h2⟩
  · exact .inr ⟨L, by rw [hm]; exact h1, by omega, h3⟩

/-- what `slice_incr` at instant `t.now` keeps: the entries of the ideal log not older than `period`,
    provided the key has not lapsed -/
theorem kept_of_logInv {t : TtlMap} {k period : Nat} {lg : List Nat} {last : Nat}
    (h : LogInv t k period lg last) (hts : t.m k = none ∨ last < t.now) :
    kept t k period t.now = lg.filter (fun a => notOlder period t.now a && decide (t.now < last + period)) := by
  rcases h with ⟨h1, h2⟩ | ⟨L, h1, h2, h3, h4, h5⟩
  · simp [kept, logOf_none (TtlMap.find_none h1), h2]
  · have hlt : last < t.now := by
      rcases hts with h | h
      · rw [h1] at h; cases h
      · exact h
    by_cases hl : t.now < last + period
    · have hf : t.find k = some ⟨.nums L, some (last + period)⟩ := TtlMap.find_live h1 (by simp [Entry.live, hl])
      unfold kept
      rw [logOf_some hf]
      have e1 : L.filter (inWindow period t.now) = L.filter (notOlder period t.now) := by
        apply List.filter_congr
        intro a ha
        have := h3 a ha
        simp [inWindow, notOlder]; omega
      rw [e1, h5 _ hlt]
      apply List.filter_congr
      intro a _
      simp [hl]
    · have hf : t.find k = none := TtlMap.find_dead h1 (by simp [Entry.live]; omega)
      simp [kept, logOf_none hf, hl]

/-- one `slice_incr(key, now - period, now, maxv, expire=period)` keeps the invariant, with the new
    instant appended to the ideal log iff the command appended it -/
theorem logInv_slice {t : TtlMap} {k period : Nat} {lg : List Nat} {last : Nat} (hp : 0 < period)
    (h : LogInv t k period lg last) (hts : t.m k = none ∨ last < t.now) (maxv : Nat) :
    LogInv (sliceIncr t k period t.now maxv (some period)).1 k period
      (if (kept t k period t.now).length < maxv then lg ++ [t.now] else lg) t.now := by
  have hk := kept_of_logInv h hts
  refine .inr ⟨_, sliceIncr_m_same t k period t.now maxv period hp, by rw [sliceIncr_now]; omega, ?_, ?_, ?_⟩
  · intro a ha
    have hkm : ∀ a ∈ kept t k period t.now, a ≤ t.now := by
      intro a ha
      simp only [kept, List.mem_filter, inWindow] at ha
      have := ha.2
      simp at this; omega
    split at ha
    · rcases List.mem_append.mp ha with ha | ha
      · exact hkm a ha
      · simp at ha; omega
    · exact hkm a ha
  · intro a ha
    have hlg : ∀ a ∈ lg, a ≤ t.now := by
      intro a ha
      rcases h with ⟨_, h2⟩ | ⟨L, _, h2, _, h4, _⟩
      · simp [h2] at ha
      · have := h4 a ha; omega
    split at ha
    · rcases List.mem_append.mp ha with ha | ha
      · exact hlg a ha
      · simp at ha; omega
    · exact hlg a ha
  · intro x hx
    -- the part that was kept agrees with the ideal log on everything not older than `period` at `x`
    have hkx : (kept t k period t.now).filter (notOlder period x) = lg.filter (notOlder period x) := by
      rw [hk, List.filter_filter]
      rcases h with ⟨_, h2⟩ | ⟨L, h1, h2, h3, h4, h5⟩
      · simp [h2]
      · apply List.filter_congr
        intro a ha
        have := h4 a ha
        have hlt : last < t.now := by
          rcases hts with h | h
          · rw [h1] at h; cases h
          · exact h
        simp [notOlder]; omega
    split
    · rw [List.filter_append, List.filter_append, hkx]
    · exact hkx

/-! ### the sliding limiter -/
namespace SlideRate

/-- instants of the calls that ran -/
def runsTs (tr : List Ev) : List Nat := (tr.filter (·.ran)).map (·.ts)

theorem runsTs_append (a b : List Ev) : runsTs (a ++ b) = runsTs a ++ runsTs b := by
  simp [runsTs]

theorem countP_ran_ts (q : Nat → Bool) (tr : List Ev) :
    tr.countP (fun e => e.ran && q e.ts) = (runsTs tr).countP q := by
  unfold runsTs
  rw [List.countP_map, List.countP_filter]
  apply List.countP_congr
  intro e _
  simp [Bool.and_comm]

/-- the bound of the property on a trace: half-open intervals always, closed ones for `limit ≥ 2` -/
def Bound (p : Params) (tr : List Ev) : Prop :=
  ∀ x, runsIn tr x p.period ≤ p.limit ∧ (2 ≤ p.limit → runsInClosed tr x p.period ≤ p.limit)

/-- reachable states: the log key mirrors an ideal log that contains every run -/
def SInv (p : Params) (t : TtlMap) (past : List Ev) : Prop :=
  ∃ lg, LogInv t key p.period lg t.now ∧ (runsTs past).Sublist lg ∧ (∀ e ∈ past, e.ts ≤ t.now) ∧
    past.countP (fun e => decide (t.now ≤ e.ts)) ≤ 1

theorem rejects_slice (p : Params) (K : Nat) :
    rejects p (if K < p.limit + 1 then K + 1 else K) = !decide (K < p.limit) := by
  unfold rejects
  rw [Bool.eq_iff_iff]
  split <;> simp <;> omega

theorem call_eq (p : Params) (t : TtlMap) (dt : Nat) :
    call p t dt =
      ((sliceIncr (t.step (.adv dt)).1 key p.period (t.now + dt) (p.limit + 1) (some p.period)).1,
       ⟨t.now + dt, if (kept (t.step (.adv dt)).1 key p.period (t.now + dt)).length < p.limit then .run else .reject⟩) := by
  have hv := sliceIncr_val (t.step (.adv dt)).1 key p.period (t.now + dt) (p.limit + 1) (some p.period)
  show ((sliceIncr (t.step (.adv dt)).1 key p.period (t.now + dt) (p.limit + 1) (some p.period)).1,
      (⟨t.now + dt, if rejects p (sliceIncr (t.step (.adv dt)).1 key p.period (t.now + dt) (p.limit + 1) (some p.period)).2 = true
        then Dec.reject else Dec.run⟩ : Ev)) = _
  rw [hv, rejects_slice]
  congr 2
  by_cases h : (kept (t.step (.adv dt)).1 key p.period (t.now + dt)).length < p.limit <;> simp [h]

theorem step_bound (p : Params) (hp : 0 < p.period) (t : TtlMap) (past : List Ev) (dt : Nat)
    (hinv : SInv p t past) (hb : Bound p past) (hfresh : (past = [] ∧ t.m key = none) ∨ 0 < dt) :
    SInv p (call p t dt).1 (past ++ [(call p t dt).2]) ∧ Bound p (past ++ [(call p t dt).2]) := by
  obtain ⟨lg, hlog, hsub, hts, hone⟩ := hinv
  rw [call_eq]
  -- the state in which the command runs: time has advanced, the store is unchanged
  have hlog0 : LogInv (t.step (.adv dt)).1 key p.period lg t.now :=
    hlog.frame (by rw [TtlMap.adv_m]) (by rw [TtlMap.adv_now]; omega)
  have hts0 : (t.step (.adv dt)).1.m key = none ∨ t.now < (t.step (.adv dt)).1.now := by
    rcases hfresh with ⟨_, h⟩ | h
    · exact .inl (by rw [TtlMap.adv_m]; exact h)
    · exact .inr (by rw [TtlMap.adv_now]; omega)
  have hk := kept_of_logInv hlog0 hts0
  have hstep := logInv_slice hp hlog0 hts0 (p.limit + 1)
  rw [TtlMap.adv_now] at hk hstep
  have hlg : ∀ a ∈ lg, a ≤ t.now := by
    intro a ha
    rcases hlog with ⟨_, h2⟩ | ⟨L, _, _, _, h4, _⟩
    · simp [h2] at ha
    · exact h4 a ha
  generalize hK : kept (t.step (.adv dt)).1 key p.period (t.now + dt) = K at hk hstep
  refine ⟨⟨_, by rw [sliceIncr_now, TtlMap.adv_now]; exact hstep, ?_, ?_, ?_⟩, ?_⟩
  · -- every run is in the ideal log
    rw [runsTs_append]
    by_cases hr : K.length < p.limit
    · have : K.length < p.limit + 1 := by omega
      simp only [hr, this, if_true]
      exact List.Sublist.append hsub (by simp [runsTs, Ev.ran])
    · simp only [hr, if_false]
      have : runsTs [(⟨t.now + dt, .reject⟩ : Ev)] = [] := by simp [runsTs, Ev.ran]
      rw [this, List.append_nil]
      split
      · exact hsub.trans (List.sublist_append_left _ _)
      · exact hsub
  · intro e he
    rw [sliceIncr_now, TtlMap.adv_now]
    rcases List.mem_append.mp he with he | he
    · have := hts e he; omega
    · simp at he; subst he; simp
  · rw [sliceIncr_now, TtlMap.adv_now, List.countP_append]
    have : past.countP (fun e => decide (t.now + dt ≤ e.ts)) = 0 := by
      rcases hfresh with ⟨h, _⟩ | h
      · simp [h]
      · rw [List.countP_eq_zero]
        intro e he
        have := hts e he
        simp; omega
    rw [this]
    simp [List.countP_cons]
  · -- the bound
    intro x
    have hbx := hb x
    by_cases hr : K.length < p.limit
    · simp only [hr, if_true]
      -- runs of the past not older than `period` now are all among the kept entries
      have hA : ∀ q : Nat → Bool, (∀ a, a ≤ t.now → q a = true → (notOlder p.period (t.now + dt) a && decide (t.now + dt < t.now + p.period)) = true) →
          past.countP (fun e => e.ran && q e.ts) ≤ K.length := by
        intro q hq
        rw [countP_ran_ts, hk, ← List.countP_eq_length_filter]
        refine Nat.le_trans (List.Sublist.countP_le hsub) (List.countP_mono_left ?_)
        intro a ha h
        exact hq a (hlg a ha) h
      constructor
      · unfold runsIn
        rw [List.countP_append]
        by_cases hin : x ≤ t.now + dt ∧ t.now + dt < x + p.period
        · have h1 : past.countP (fun e => e.ran && decide (x ≤ e.ts) && decide (e.ts < x + p.period)) ≤ K.length := by
            have := hA (fun a => decide (x ≤ a) && decide (a < x + p.period)) (by
              intro a ha h
              simp [notOlder] at h ⊢
              omega)
            simpa [Bool.and_assoc] using this
          have h2 : [(⟨t.now + dt, .run⟩ : Ev)].countP (fun e => e.ran && decide (x ≤ e.ts) && decide (e.ts < x + p.period)) ≤ 1 :=
            List.countP_le_length
          omega
        · have h2 : [(⟨t.now + dt, .run⟩ : Ev)].countP (fun e => e.ran && decide (x ≤ e.ts) && decide (e.ts < x + p.period)) = 0 := by
            rw [List.countP_eq_zero]
            intro e he
            simp at he; subst he
            simp; omega
          have := hbx.1
          unfold runsIn at this
          omega
      · intro h2l
        unfold runsInClosed
        rw [List.countP_append]
        by_cases hin : x ≤ t.now + dt ∧ t.now + dt ≤ x + p.period
        · have h2 : [(⟨t.now + dt, .run⟩ : Ev)].countP (fun e => e.ran && decide (x ≤ e.ts) && decide (e.ts ≤ x + p.period)) ≤ 1 :=
            List.countP_le_length
          by_cases hlive : t.now + dt < t.now + p.period
          · have h1 : past.countP (fun e => e.ran && decide (x ≤ e.ts) && decide (e.ts ≤ x + p.period)) ≤ K.length := by
              have := hA (fun a => decide (x ≤ a) && decide (a ≤ x + p.period)) (by
                intro a ha h
                simp [notOlder] at h ⊢
                omega)
              simpa [Bool.and_assoc] using this
            omega
          · -- the key has lapsed: only a call made exactly `period` ago can still be in the interval
            have h1 : past.countP (fun e => e.ran && decide (x ≤ e.ts) && decide (e.ts ≤ x + p.period)) ≤ 1 := by
              refine Nat.le_trans (List.countP_mono_left ?_) hone
              intro e he h
              have := hts e he
              simp at h ⊢
              omega
            omega
        · have h2 : [(⟨t.now + dt, .run⟩ : Ev)].countP (fun e => e.ran && decide (x ≤ e.ts) && decide (e.ts ≤ x + p.period)) = 0 := by
            rw [List.countP_eq_zero]
            intro e he
            simp at he; subst he
            simp; omega
          have := hbx.2 h2l
          unfold runsInClosed at this
          omega
    · simp only [hr, if_false]
      have hz : ∀ q : Ev → Bool, [(⟨t.now + dt, .reject⟩ : Ev)].countP (fun e => e.ran && q e) = 0 := by
        intro q
        rw [List.countP_eq_zero]
        intro e he
        simp at he; subst he
        simp [Ev.ran]
      constructor
      · have := hbx.1
        unfold runsIn at this ⊢
        rw [List.countP_append]
        have h0 := hz (fun e => decide (x ≤ e.ts) && decide (e.ts < x + p.period))
        simp only [← Bool.and_assoc] at h0
        omega
      · intro h2l
        have := hbx.2 h2l
        unfold runsInClosed at this ⊢
        rw [List.countP_append]
        have h0 := hz (fun e => decide (x ≤ e.ts) && decide (e.ts ≤ x + p.period))
        simp only [← Bool.and_assoc] at h0
        omega

theorem bound_nil (p : Params) : Bound p [] := by
  intro x
  simp [runsIn, runsInClosed]

theorem sinv_init (p : Params) : SInv p TtlMap.init [] :=
  ⟨[], .inl ⟨rfl, rfl⟩, by simp [runsTs], by simp, by simp⟩

theorem run_bound (p : Params) (hp : 0 < p.period) :
    ∀ (calls : List Nat) (t : TtlMap) (past : List Ev), (∀ dt ∈ calls, 0 < dt) → SInv p t past → Bound p past →
      Bound p (past ++ run p t calls) := by
  intro calls
  induction calls with
  | nil => intro t past _ _ hb; simpa [run] using hb
  | cons dt rest ih =>
    intro t past hpos hinv hb
    obtain ⟨h1, h2⟩ := step_bound p hp t past dt hinv hb (.inr (hpos dt (by simp)))
    have := ih (call p t dt).1 (past ++ [(call p t dt).2]) (fun d hd => hpos d (by simp [hd])) h1 h2
    simpa [run] using this

theorem run_bound_init (p : Params) (hp : 0 < p.period) (calls : List Nat) (h : StrictlyIncreasing calls) :
    Bound p (run p TtlMap.init calls) := by
  cases calls with
  | nil => exact bound_nil p
  | cons dt rest =>
    obtain ⟨h1, h2⟩ := step_bound p hp TtlMap.init [] dt (sinv_init p) (bound_nil p) (.inl ⟨rfl, rfl⟩)
    have := run_bound p hp rest (call p TtlMap.init dt).1 ([] ++ [(call p TtlMap.init dt).2]) h h1 h2
    simpa [run] using this

/-! ### remark: at one and the same instant the limiter admits without bound -/

theorem logOf_after_call (p : Params) (hp : 0 < p.period) (t : TtlMap) (dt : Nat) :
    ∀ a ∈ logOf (call p t dt).1 key, a ≤ t.now + dt ∧
      ((kept (t.step (.adv dt)).1 key p.period (t.now + dt)) = [] → a = t.now + dt) := by
  rw [call_eq]
  have hm := sliceIncr_m_same (t.step (.adv dt)).1 key p.period (t.now + dt) (p.limit + 1) p.period hp
  have hn : (sliceIncr (t.step (.adv dt)).1 key p.period (t.now + dt) (p.limit + 1) (some p.period)).1.now = t.now + dt := by
    rw [sliceIncr_now]; rfl
  have hf := TtlMap.find_live hm (by simp [Entry.live, hn, TtlMap.adv_now, hp])
  intro a ha
  simp only [] at ha
  rw [logOf_some hf] at ha
  have hk : ∀ a ∈ kept (t.step (.adv dt)).1 key p.period (t.now + dt), a < t.now + dt := by
    intro a ha
    simp only [kept, List.mem_filter, inWindow] at ha
    have := ha.2
    simp at this; omega
  split at ha
  · rcases List.mem_append.mp ha with ha | ha
    · exact ⟨by have := hk a ha; omega, fun h => by rw [h] at ha; simp at ha⟩
    · simp at ha; exact ⟨by omega, fun _ => ha⟩
  · exact ⟨by have := hk a ha; omega, fun h => by rw [h] at ha; simp at ha⟩

theorem same_instant_runs (p : Params) (hl : 1 ≤ p.limit) (hp : 0 < p.period) :
    ∀ (n : Nat) (t : TtlMap), (∀ a ∈ logOf t key, t.now ≤ a) →
      ∀ e ∈ run p t (List.replicate n 0), e.dec = .run ∧ e.ts = t.now := by
  intro n
  induction n with
  | zero => intro t _ e he; simp [run] at he
  | succ n ih =>
    intro t hinv e he
    have hk : kept (t.step (.adv 0)).1 key p.period (t.now + 0) = [] := by
      unfold kept
      apply filter_eq_nil_of
      intro a ha
      have : t.now ≤ a := hinv a ha
      simp [inWindow]; omega
    have hc := call_eq p t 0
    rw [hk] at hc
    simp only [List.replicate_succ, run] at he
    rcases List.mem_cons.mp he with rfl | he
    · rw [hc]; simp; omega
    · have hnow : (call p t 0).1.now = t.now := by rw [hc, sliceIncr_now]; rfl
      have := ih (call p t 0).1 (by
        intro a ha
        rw [hnow]
        have := (logOf_after_call p hp t 0 a ha).2 hk
        omega) e he
      rw [hnow] at this
      exact this

end SlideRate

end CashewsVerif.Decor
