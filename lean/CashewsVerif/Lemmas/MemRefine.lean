import CashewsVerif.Lemmas.Store
import CashewsVerif.Spec.TtlMap
/-
`Mem` (lazy expiry, ordered store) refines `TtlMap` (eager ideal map) as long as no
capacity eviction happens.  Refinement relation: the live view of the store is the map.
-/
namespace CashewsVerif
open Store

def Mem.view (s : Mem) (k : Key) : Option Entry := (lookup s.store k).filter (·.live s.now)

theorem TtlMap.find_eq (t : TtlMap) (k : Key) : t.find k = (t.m k).filter (·.live t.now) := by
  unfold TtlMap.find
  cases t.m k <;> simp [Option.filter]

/-- the refinement relation -/
def Refines (s : Mem) (t : TtlMap) : Prop := s.now = t.now ∧ ∀ k, s.view k = t.find k

/-- store keys are distinct and drawn from the key universe `K` -/
def Mem.Within (K : List Key) (s : Mem) : Prop := (keys s.store).Nodup ∧ ∀ k ∈ keys s.store, k ∈ K

namespace Mem

theorem within_length {K : List Key} {s : Mem} (h : s.Within K) : s.store.length ≤ K.length := by
  have := List.Nodup.length_le_of_subset h.1 (fun k hk => h.2 k hk)
  simpa [keys] using this

theorem keys_put (st : Store) (k : Key) (e : Entry) :
    keys (put st k e) = (keys st).filter (· ≠ k) ++ [k] := by
  simp [put, keys, List.map_append]
  simpa [keys] using keys_erase st k

theorem nodup_keys_put {st : Store} (h : (keys st).Nodup) (k : Key) (e : Entry) :
    (keys (put st k e)).Nodup := by
  rw [keys_put]
  refine List.nodup_append.mpr ⟨h.filter _, by simp, ?_⟩
  intro a ha b hb
  simp at hb; subst hb
  simp at ha
  exact ha.2

theorem nodup_keys_erase {st : Store} (h : (keys st).Nodup) (k : Key) :
    (keys (erase st k)).Nodup := by
  rw [keys_erase]; exact h.filter _

theorem within_put {K : List Key} {s : Mem} (h : s.Within K) {k : Key} (hk : k ∈ K) (e : Entry) :
    ({ s with store := put s.store k e } : Mem).Within K := by
  refine ⟨nodup_keys_put h.1 k e, ?_⟩
  intro k' hk'
  simp only [keys_put, List.mem_append, List.mem_filter, List.mem_singleton] at hk'
  rcases hk' with h1 | h1
  · exact h.2 k' h1.1
  · exact h1 ▸ hk

theorem within_erase {K : List Key} {s : Mem} (h : s.Within K) (k : Key) :
    ({ s with store := erase s.store k } : Mem).Within K := by
  refine ⟨nodup_keys_erase h.1 k, ?_⟩
  intro k' hk'
  simp only [keys_erase, List.mem_filter] at hk'
  exact h.2 k' hk'.1

/-! ### rawGet -/

theorem rawGet_now (s : Mem) (k : Key) : (s.rawGet k).1.now = s.now := by
  unfold rawGet; split <;> (try split) <;> rfl

theorem rawGet_cap (s : Mem) (k : Key) : (s.rawGet k).1.cap = s.cap := by
  unfold rawGet; split <;> (try split) <;> rfl

theorem rawGet_view (s : Mem) (k k' : Key) : (s.rawGet k).1.view k' = s.view k' := by
  unfold rawGet view
  split
  · rfl
  · rename_i e he
    split
    · rename_i hl
      simp only [lookup_put]
      by_cases h : k = k'
      · subst h; simp [he]
      · simp [h]
    · rename_i hl
      simp only [lookup_erase]
      by_cases h : k = k'
      · subst h; simp [he, Option.filter, hl]
      · simp [h]

theorem rawGet_out (s : Mem) (k : Key) : (s.rawGet k).2 = (s.view k).map (·.val) := by
  unfold rawGet view
  split
  · rename_i h; simp [h]
  · rename_i e he
    split <;> rename_i hl <;> simp [he, Option.filter, hl]

theorem rawGet_within {K : List Key} {s : Mem} (h : s.Within K) (k : Key) :
    (s.rawGet k).1.Within K := by
  unfold rawGet
  split
  · exact h
  · rename_i e he
    have hk : k ∈ K := h.2 k ((mem_keys_iff_lookup _ _).mpr (by simp [he]))
    split
    · exact within_put h hk e
    · exact within_erase h k

theorem rawGet_refines {s : Mem} {t : TtlMap} (h : Refines s t) (k : Key) :
    Refines (s.rawGet k).1 t ∧ (s.rawGet k).2 = (t.find k).map (·.val) := by
  refine ⟨⟨by rw [rawGet_now]; exact h.1, fun k' => by rw [rawGet_view]; exact h.2 k'⟩, ?_⟩
  rw [rawGet_out, h.2]

/-! ### rawSet -/

theorem newDeadline_eq {s : Mem} {t : TtlMap} (h : Refines s t) (k : Key) (ttl : Option Nat) :
    s.newDeadline k ttl =
      (match deadlineOf t.now ttl with
       | some d => some d
       | none => (t.find k).bind (·.dl)) := by
  unfold newDeadline
  rw [h.1]
  cases hd : deadlineOf t.now ttl with
  | some d => rfl
  | none =>
    simp only
    rw [← h.2 k]
    unfold view
    rw [h.1]
    cases hl : lookup s.store k with
    | none => simp
    | some e =>
      by_cases hv : e.live t.now <;> simp [Option.filter, hv]

theorem rawSet_noevict {K : List Key} {s : Mem} (hw : s.Within K) (hK : K.length ≤ s.cap)
    {k : Key} (hk : k ∈ K) (v : Val) (ttl : Option Nat) :
    s.rawSet k v ttl = { s with store := put s.store k ⟨v, s.newDeadline k ttl⟩ } := by
  unfold rawSet trim
  have h1 := within_length (within_put hw hk ⟨v, s.newDeadline k ttl⟩)
  simp only at h1
  have : ¬ (put s.store k ⟨v, s.newDeadline k ttl⟩).length > s.cap := by omega
  simp [this]

theorem rawSet_within {K : List Key} {s : Mem} (hw : s.Within K) (hK : K.length ≤ s.cap)
    {k : Key} (hk : k ∈ K) (v : Val) (ttl : Option Nat) : (s.rawSet k v ttl).Within K := by
  rw [rawSet_noevict hw hK hk]; exact within_put hw hk _

theorem rawSet_cap (s : Mem) (k : Key) (v : Val) (ttl : Option Nat) :
    (s.rawSet k v ttl).cap = s.cap := rfl

theorem rawSet_refines {K : List Key} {s : Mem} {t : TtlMap} (h : Refines s t)
    (hw : s.Within K) (hK : K.length ≤ s.cap) {k : Key} (hk : k ∈ K) (v : Val) (ttl : Option Nat) :
    Refines (s.rawSet k v ttl) (t.write k v ttl) := by
  rw [rawSet_noevict hw hK hk]
  refine ⟨h.1, fun k' => ?_⟩
  unfold view TtlMap.write
  simp only [lookup_put, TtlMap.find_eq]
  rw [newDeadline_eq h]
  by_cases hkk : k = k'
  · subst hkk; simp only [if_true, h.1, TtlMap.find_eq]
    cases deadlineOf t.now ttl <;> rfl
  · have hkk' : ¬ k' = k := fun h' => hkk h'.symm
    simp only [hkk, hkk', if_false]
    have := h.2 k'
    unfold view at this
    rw [this, TtlMap.find_eq]

/-! ### rawDelete -/

theorem rawDelete_refines {s : Mem} {t : TtlMap} (h : Refines s t) (k : Key) :
    Refines (s.rawDelete k).1 (t.remove k) ∧ (s.rawDelete k).2 = (t.find k).isSome := by
  unfold rawDelete
  have hk := h.2 k
  unfold view at hk
  split
  · rename_i hl
    rw [hl] at hk
    refine ⟨⟨h.1, fun k' => ?_⟩, by rw [← hk]; rfl⟩
    unfold TtlMap.remove
    simp only [TtlMap.find_eq]
    by_cases hkk : k' = k
    · subst hkk; simp [view, hl]
    · simp only [hkk, if_false]; rw [← TtlMap.find_eq]; exact h.2 k'
  · rename_i e hl
    rw [hl] at hk
    refine ⟨⟨h.1, fun k' => ?_⟩, ?_⟩
    · unfold TtlMap.remove view
      simp only [TtlMap.find_eq, lookup_erase]
      by_cases hkk : k = k'
      · subst hkk; simp
      · have hkk' : ¬ k' = k := fun h' => hkk h'.symm
        simp only [hkk, hkk', if_false]
        rw [← TtlMap.find_eq]; exact h.2 k'
    · rw [← hk]
      by_cases hv : e.live s.now <;> simp [Option.filter, hv]

theorem rawDelete_within {K : List Key} {s : Mem} (h : s.Within K) (k : Key) :
    (s.rawDelete k).1.Within K := by
  unfold rawDelete
  split
  · exact h
  · exact within_erase h k

theorem rawDelete_cap (s : Mem) (k : Key) : (s.rawDelete k).1.cap = s.cap := by
  unfold rawDelete; split <;> rfl

end Mem
end CashewsVerif
