import CashewsVerif.Lemmas.TxFind
/-
The concrete transaction (`TxSt`: overlay and backend are `Mem`s, lock keys in the backend, any mode)
refines the abstract one (`ATx` over ideal `TtlMap`s, backend never written before commit).
-/
namespace CashewsVerif
open Store

/-! ### store membership -/
namespace Store

theorem mem_erase {s : Store} {k : Key} {x : Key × Entry} (h : x ∈ erase s k) : x ∈ s := by
  induction s with
  | nil => simp at h
  | cons p s ih =>
    obtain ⟨k0, e0⟩ := p
    by_cases h0 : k0 = k
    · simp only [erase, h0, if_true] at h; exact List.mem_cons_of_mem _ (ih h)
    · simp only [erase, h0, if_false, List.mem_cons] at h
      rcases h with h | h
      · exact h ▸ List.mem_cons_self
      · exact List.mem_cons_of_mem _ (ih h)

theorem mem_of_lookup {s : Store} {k : Key} {e : Entry} (h : lookup s k = some e) : (k, e) ∈ s := by
  induction s with
  | nil => simp at h
  | cons p s ih =>
    obtain ⟨k0, e0⟩ := p
    by_cases h0 : k0 = k
    · simp only [lookup, h0, if_true, Option.some.injEq] at h; subst h; subst h0; exact List.mem_cons_self
    · simp only [lookup, h0, if_false] at h; exact List.mem_cons_of_mem _ (ih h)

theorem mem_put {s : Store} {k : Key} {e : Entry} {x : Key × Entry} (h : x ∈ put s k e) : x ∈ s ∨ x = (k, e) := by
  unfold put at h
  simp only [List.mem_append, List.mem_singleton] at h
  rcases h with h | h
  · exact Or.inl (mem_erase h)
  · exact Or.inr h

end Store

/-! ### a predicate on the deadlines of every entry physically in a store -/

/-- every entry physically in the store has a user key and a deadline satisfying `P` -/
def Mem.AllDl (P : Option Time → Prop) (m : Mem) : Prop := ∀ ke ∈ m.store, reserved ke.1 = false ∧ P ke.2.dl

namespace Mem

theorem rawGet_allDl {P} {s : Mem} (h : s.AllDl P) (k : Key) : (s.rawGet k).1.AllDl P := by
  unfold rawGet
  split
  · exact h
  · rename_i e he
    split
    · intro x hx
      rcases mem_put hx with hx | hx
      · exact h x hx
      · subst hx; exact h _ (mem_of_lookup he)
    · intro x hx; exact h x (mem_erase hx)

theorem newDeadline_P {P : Option Time → Prop} {s : Mem} (h : s.AllDl P) (hP0 : P none) (k : Key) (ttl : Option Nat)
    (hPt : P (deadlineOf s.now ttl)) : P (s.newDeadline k ttl) := by
  unfold newDeadline
  cases hd : deadlineOf s.now ttl with
  | some d => rw [hd] at hPt; exact hPt
  | none =>
    simp only
    cases hl : lookup s.store k with
    | none => exact hP0
    | some e =>
      simp only
      split
      · exact (h _ (mem_of_lookup hl)).2
      · exact hP0

theorem mem_trim {cap : Nat} {st : Store} {x : Key × Entry} (h : x ∈ trim cap st) : x ∈ st := by
  unfold trim at h
  split at h
  · exact List.mem_of_mem_tail h
  · exact h

theorem rawSet_allDl {P : Option Time → Prop} {s : Mem} (h : s.AllDl P) (hP0 : P none) {k : Key} (hr : reserved k = false)
    (v : Val) (ttl : Option Nat) (hPt : P (deadlineOf s.now ttl)) : (s.rawSet k v ttl).AllDl P := by
  intro x hx
  rcases mem_put (mem_trim hx) with hx | hx
  · exact h x hx
  · subst hx; exact ⟨hr, newDeadline_P h hP0 k ttl hPt⟩

theorem rawDelete_allDl {P} {s : Mem} (h : s.AllDl P) (k : Key) : (s.rawDelete k).1.AllDl P := by
  unfold rawDelete
  split
  · exact h
  · intro x hx; exact h x (mem_erase hx)

end Mem

namespace Mem

theorem incr_allDl {P : Option Time → Prop} {s : Mem} (h : s.AllDl P) (hP0 : P none) {k : Key} (hr : reserved k = false) (by_ : Int) (ttl : Option Nat)
    (hPt : P (deadlineOf s.now ttl)) : (s.step (.incr k by_ ttl)).1.AllDl P := by
  have h1 := rawGet_allDl h k
  have hn := rawGet_now s k
  simp only [step]
  generalize s.rawGet k = p at h1 hn
  obtain ⟨s', r⟩ := p
  simp only at h1 hn ⊢
  split
  · exact h1
  · apply rawSet_allDl h1 hP0 hr
    split
    · rw [hn]; exact hPt
    · exact hP0

theorem expire_allDl {P : Option Time → Prop} {s : Mem} (h : s.AllDl P) (hP0 : P none) {k : Key} (hr : reserved k = false) (ttl : Option Nat)
    (hPt : P (deadlineOf s.now ttl)) : (s.step (.expire k ttl)).1.AllDl P := by
  have h1 := rawGet_allDl h k
  have hn1 := rawGet_now s k
  have h2 := rawGet_allDl h1 k
  have hn2 := rawGet_now (s.rawGet k).1 k
  simp only [step]
  split
  · exact h1
  · split
    · exact h2
    · exact rawSet_allDl h2 hP0 hr _ _ (by rw [hn2, hn1]; exact hPt)

theorem getExpire_eq {K s t} (g : Good K s t) {k : Key} (hk : k ∈ K) : s.getExpire k = t.getExpire k := by
  have := (good_step g (.getExpire k) (by simp [Op.keys, hk])).2
  simpa [step, TtlMap.step] using this

end Mem

/-! ### the refinement relation -/

/-- `st` (concrete) is represented by `a` (abstract); `tb` is the ideal map of the *whole* backend store,
lock keys included; `P` is any predicate all overlay deadlines satisfy (instantiated with "still ahead
at the end of the block" where the proviso is needed, with `True` elsewhere). -/
structure TxRef (K : List Key) (P : Option Time → Prop) (st : TxSt) (a : ATx) (tb : TtlMap) : Prop where
  ov    : Good K st.ov a.ov
  b     : Good K st.b tb
  del   : st.del = a.del
  user  : ∀ k, reserved k = false → tb.find k = a.b.find k
  bnow  : tb.now = a.b.now
  locks : ∀ k, reserved k = true →
            tb.find k = none ∨ (k ∈ st.locks ∧ (tb.find k).map (·.val) = some (.tok st.lockId))
  lockKeys : ∀ lk ∈ st.locks, lk ∈ K ∧ reserved lk = true
  fresh : st.ov.AllDl P

namespace TxSt

variable {K : List Key} {P : Option Time → Prop} {st : TxSt} {a : ATx} {tb : TtlMap}

theorem exists_refines (h : TxRef K P st a tb) {k : Key} (_hk : k ∈ K) (hr : reserved k = false) :
    TxRef K P (st.exists_ k).1 a tb ∧ (st.exists_ k).2 = a.present k := by
  have g1 := Mem.good_rawGet h.ov k
  have g2 := Mem.good_rawGet h.b k
  have f1 := Mem.rawGet_allDl h.fresh k
  unfold exists_ ATx.present
  simp only
  rw [g1.2]
  cases ho : a.ov.find k with
  | some e => exact ⟨⟨g1.1, h.b, h.del, h.user, h.bnow, h.locks, h.lockKeys, f1⟩, by simp⟩
  | none =>
    simp only [Option.map_none, Option.isSome_none, Bool.false_eq_true, if_false, Bool.false_or]
    by_cases hd : k ∈ st.del
    · have hd2 : k ∈ a.del := h.del ▸ hd
      simp only [hd, if_true]
      exact ⟨⟨g1.1, h.b, h.del, h.user, h.bnow, h.locks, h.lockKeys, f1⟩, by simp [hd2]⟩
    · have hd2 : k ∉ a.del := h.del ▸ hd
      simp only [hd, if_false]
      rw [g2.2, h.user k hr]
      exact ⟨⟨g1.1, g2.1, h.del, h.user, h.bnow, h.locks, h.lockKeys, f1⟩, by simp [hd2]⟩

theorem put_refines (h : TxRef K P st a tb) {k : Key} (hk : k ∈ K) (hr : reserved k = false) (v : Val) (ttl : Option Nat)
    (hP0 : P none) (hPt : P (deadlineOf st.ov.now ttl)) :
    TxRef K P (st.put k v ttl) (a.put k v ttl) tb :=
  ⟨Mem.good_rawSet h.ov hk v ttl, h.b, by simp [put, ATx.put, h.del], h.user, h.bnow, h.locks, h.lockKeys,
   Mem.rawSet_allDl h.fresh hP0 hr v ttl hPt⟩

theorem exists_ovnow (st : TxSt) (k : Key) : (st.exists_ k).1.ov.now = st.ov.now := by
  unfold exists_
  simp only
  split
  · exact Mem.rawGet_now _ _
  · split <;> exact Mem.rawGet_now _ _

theorem set_refines (h : TxRef K P st a tb) {k : Key} (hk : k ∈ K) (hr : reserved k = false) (v : Val)
    (ttl : Option Nat) (c : Cond) (hP0 : P none) (hPt : P (deadlineOf st.ov.now ttl)) :
    TxRef K P (st.set k v ttl c).1 (a.step (.set k v ttl c)).1 tb ∧
    (st.set k v ttl c).2 = (a.step (.set k v ttl c)).2 := by
  have he := exists_refines h hk hr
  have hn := exists_ovnow st k
  cases c with
  | always => exact ⟨put_refines h hk hr v ttl hP0 hPt, rfl⟩
  | nx =>
    simp only [set, ATx.step]
    rw [he.2]
    by_cases hp : a.present k
    · simp only [hp, if_true]; exact ⟨he.1, trivial⟩
    · have hp' : a.present k = false := by simpa using hp
      simp only [hp', Bool.false_eq_true, if_false]; exact ⟨put_refines he.1 hk hr v ttl hP0 (by rw [hn]; exact hPt), trivial⟩
  | xx =>
    simp only [set, ATx.step]
    rw [he.2]
    by_cases hp : a.present k
    · simp only [hp, if_true]; exact ⟨put_refines he.1 hk hr v ttl hP0 (by rw [hn]; exact hPt), trivial⟩
    · have hp' : a.present k = false := by simpa using hp
      simp only [hp', Bool.false_eq_true, if_false]; exact ⟨he.1, trivial⟩

theorem setMany_refines (kvs : List (Key × Val)) (ttl : Option Nat) (hP0 : P none) :
    ∀ {st : TxSt} {a : ATx}, TxRef K P st a tb → (∀ kv ∈ kvs, kv.1 ∈ K ∧ reserved kv.1 = false) → P (deadlineOf st.ov.now ttl) →
    TxRef K P (st.setMany kvs ttl) (kvs.foldl (fun a kv => a.put kv.1 kv.2 ttl) a) tb := by
  induction kvs with
  | nil => intro st a h _ _; exact h
  | cons kv kvs ih =>
    intro st a h hk hPt
    simp only [setMany, List.foldl_cons]
    exact ih (put_refines h (hk kv (by simp)).1 (hk kv (by simp)).2 kv.2 ttl hP0 hPt) (fun kv' h' => hk kv' (by simp [h'])) hPt

theorem delete_refines (h : TxRef K P st a tb) (k : Key) : TxRef K P (st.delete k) (a.delete k) tb :=
  ⟨(Mem.good_rawDelete h.ov k).1, h.b, by simp [delete, ATx.delete, h.del], h.user, h.bnow, h.locks, h.lockKeys,
   Mem.rawDelete_allDl h.fresh k⟩

theorem deleteMany_refines (ks : List Key) :
    ∀ {st : TxSt} {a : ATx}, TxRef K P st a tb → TxRef K P (st.deleteMany ks) (ks.foldl ATx.delete a) tb := by
  induction ks with
  | nil => intro st a h; exact h
  | cons k ks ih =>
    intro st a h
    simp only [deleteMany, List.foldl_cons]
    exact ih (delete_refines h k)

theorem seed_ovnow (st : TxSt) (k : Key) : (st.seed k).ov.now = st.ov.now := by
  unfold seed
  split
  · exact Mem.rawGet_now _ _
  · exact Mem.rawGet_now _ _

theorem seed_refines (h : TxRef K P st a tb) {k : Key} (hk : k ∈ K) (hr : reserved k = false) (hP0 : P none) :
    TxRef K P (st.seed k) (a.seed k) tb := by
  have g1 := Mem.good_rawGet h.ov k
  have g2 := Mem.good_rawGet h.b k
  have f1 := Mem.rawGet_allDl h.fresh k
  have hiff : ((st.ov.rawGet k).2.isNone ∧ k ∉ st.del) ↔ ((a.ov.find k).isNone ∧ k ∉ a.del) := by
    rw [g1.2, h.del]; simp
  unfold seed ATx.seed
  by_cases hc : (st.ov.rawGet k).2.isNone ∧ k ∉ st.del
  · have hv : (a.b.find k).map (·.val) = (st.b.rawGet k).2 := by rw [g2.2, h.user k hr]
    rw [if_pos hc, if_pos (hiff.mp hc), hv]
    have gs := Mem.good_rawSet g1.1 hk ((st.b.rawGet k).2.getD (.int 0)) none
    have fs := Mem.rawSet_allDl f1 hP0 hr ((st.b.rawGet k).2.getD (.int 0)) none hP0
    exact ⟨gs, g2.1, h.del, h.user, h.bnow, h.locks, h.lockKeys, fs⟩
  · rw [if_neg hc, if_neg (fun x => hc (hiff.mpr x))]
    exact ⟨g1.1, h.b, h.del, h.user, h.bnow, h.locks, h.lockKeys, f1⟩

theorem incr_refines (h : TxRef K P st a tb) {k : Key} (hk : k ∈ K) (hr : reserved k = false) (by_ : Int)
    (ttl : Option Nat) (hP0 : P none) (hPt : P (deadlineOf st.ov.now ttl)) :
    TxRef K P (st.incr k by_ ttl).1 (a.step (.incr k by_ ttl)).1 tb ∧
    (st.incr k by_ ttl).2 = (a.step (.incr k by_ ttl)).2 := by
  have hs := seed_refines h hk hr hP0
  have gi := Mem.good_step hs.ov (.incr k by_ ttl) (by simp [Op.keys, hk])
  have fi := Mem.incr_allDl hs.fresh hP0 hr by_ ttl (by rw [seed_ovnow]; exact hPt)
  refine ⟨⟨gi.1, hs.b, ?_, hs.user, hs.bnow, hs.locks, hs.lockKeys, fi⟩, gi.2⟩
  show List.filter _ (st.seed k).del = List.filter _ (a.seed k).del
  rw [hs.del]

theorem expire_refines (h : TxRef K P st a tb) {k : Key} (hk : k ∈ K) (hr : reserved k = false)
    (ttl : Option Nat) (hP0 : P none) (hPt : P (deadlineOf st.ov.now ttl)) :
    TxRef K P (st.expire k ttl) (a.step (.expire k ttl)).1 tb := by
  have g1 := Mem.good_rawGet h.ov k
  have g2 := Mem.good_rawGet h.b k
  have f1 := Mem.rawGet_allDl h.fresh k
  have hn1 := Mem.rawGet_now st.ov k
  unfold expire
  simp only [ATx.step]
  by_cases hd : k ∈ st.del
  · have hd2 : k ∈ a.del := h.del ▸ hd
    rw [if_pos hd, if_pos hd2]; exact h
  · have hd2 : k ∉ a.del := h.del ▸ hd
    rw [if_neg hd, if_neg hd2, g1.2]
    cases ho : a.ov.find k with
    | some e =>
      simp only [Option.map_some, Option.isSome_some, if_true]
      have ge := Mem.good_step g1.1 (.expire k ttl) (by simp [Op.keys, hk])
      have fe := Mem.expire_allDl f1 hP0 hr ttl (by rw [hn1]; exact hPt)
      simp only [TtlMap.step, ho] at ge
      exact ⟨ge.1, h.b, h.del, h.user, h.bnow, h.locks, h.lockKeys, fe⟩
    | none =>
      simp only [Option.map_none, Option.isSome_none, Bool.false_eq_true, if_false]
      rw [g2.2, h.user k hr]
      cases hb : a.b.find k with
      | none => exact ⟨g1.1, g2.1, h.del, h.user, h.bnow, h.locks, h.lockKeys, f1⟩
      | some e =>
        simp only [Option.map_some]
        exact ⟨Mem.good_rawSet g1.1 hk e.val ttl, g2.1, h.del, h.user, h.bnow, h.locks, h.lockKeys,
          Mem.rawSet_allDl f1 hP0 hr e.val ttl (by rw [hn1]; exact hPt)⟩

theorem get_refines (h : TxRef K P st a tb) {k : Key} (_hk : k ∈ K) (hr : reserved k = false) :
    TxRef K P (st.get k).1 a tb ∧
    (st.get k).2 = (if k ∈ a.del then none else ((a.ov.find k).or (a.b.find k)).map (·.val)) := by
  have g1 := Mem.good_rawGet h.ov k
  have g2 := Mem.good_rawGet h.b k
  have f1 := Mem.rawGet_allDl h.fresh k
  unfold get
  by_cases hd : k ∈ st.del
  · have hd2 : k ∈ a.del := h.del ▸ hd
    rw [if_pos hd, if_pos hd2]; exact ⟨h, rfl⟩
  · have hd2 : k ∉ a.del := h.del ▸ hd
    rw [if_neg hd, if_neg hd2, g1.2]
    cases ho : a.ov.find k with
    | some e => exact ⟨⟨g1.1, h.b, h.del, h.user, h.bnow, h.locks, h.lockKeys, f1⟩, by simp⟩
    | none =>
      simp only [Option.map_none, Option.none_or]
      exact ⟨⟨g1.1, g2.1, h.del, h.user, h.bnow, h.locks, h.lockKeys, f1⟩, by rw [g2.2, h.user k hr]⟩

theorem getMany_refines (ks : List Key) :
    ∀ {st : TxSt}, TxRef K P st a tb → (∀ k ∈ ks, k ∈ K ∧ reserved k = false) →
    TxRef K P (st.getMany ks).1 a tb ∧
    (st.getMany ks).2 = ks.map a.getOne := by
  induction ks with
  | nil => intro st h _; exact ⟨h, rfl⟩
  | cons k ks ih =>
    intro st h hk
    have hkK := (hk k (by simp)).1
    have hr := (hk k (by simp)).2
    have g1 := Mem.good_rawGet h.ov k
    have g2 := Mem.good_rawGet h.b k
    have f1 := Mem.rawGet_allDl h.fresh k
    have hks : ∀ k' ∈ ks, k' ∈ K ∧ reserved k' = false := fun k' h' => hk k' (by simp [h'])
    unfold getMany
    rw [g1.2]
    cases ho : a.ov.find k with
    | some e =>
      simp only [Option.map_some, List.map_cons, ATx.getOne, ho]
      have := ih (st := { st with ov := (st.ov.rawGet k).1 })
        ⟨g1.1, h.b, h.del, h.user, h.bnow, h.locks, h.lockKeys, f1⟩ hks
      exact ⟨this.1, by rw [this.2]⟩
    | none =>
      simp only [Option.map_none, List.map_cons, ATx.getOne, ho]
      have := ih (st := { st with ov := (st.ov.rawGet k).1, b := (st.b.rawGet k).1 })
        ⟨g1.1, g2.1, h.del, h.user, h.bnow, h.locks, h.lockKeys, f1⟩ hks
      refine ⟨this.1, ?_⟩
      rw [this.2, g2.2, h.user k hr, h.del]

theorem getExpire_refines (h : TxRef K P st a tb) {k : Key} (hk : k ∈ K) (hr : reserved k = false) :
    st.getExpire k = a.getExpire k := by
  unfold getExpire ATx.getExpire
  rw [h.del, Mem.getExpire_eq h.ov hk, Mem.getExpire_eq h.b hk]
  have : tb.getExpire k = a.b.getExpire k := by
    unfold TtlMap.getExpire; rw [h.user k hr, h.bnow]
  rw [this]

theorem adv_refines (h : TxRef K P st a tb) (dt : Nat) :
    TxRef K P { st with b := { st.b with now := st.b.now + dt }, ov := { st.ov with now := st.ov.now + dt } }
      { a with b := { a.b with now := a.b.now + dt }, ov := { a.ov with now := a.ov.now + dt } }
      { tb with now := tb.now + dt } := by
  refine ⟨Mem.good_adv h.ov dt, Mem.good_adv h.b dt, h.del, ?_, by simp [h.bnow], ?_, h.lockKeys, h.fresh⟩
  · intro k hr
    rw [TtlMap.find_adv, TtlMap.find_adv, h.user k hr, h.bnow]
  · intro k hr
    rw [TtlMap.find_adv]
    rcases h.locks k hr with h1 | h1
    · left; simp [h1]
    · cases hf : tb.find k with
      | none => left; simp
      | some e =>
        by_cases hl : e.live (tb.now + dt)
        · right; refine ⟨h1.1, ?_⟩
          have := h1.2; rw [hf] at this
          simpa [Option.filter, hl] using this
        · left; simp [Option.filter, hl]

/-- every key a command names is in the universe and is a user key -/
def KeysOk (K : List Key) (op : Op) : Prop := ∀ k ∈ op.keys, k ∈ K ∧ reserved k = false

/-- the base method (no locking) refines the abstract step -/
theorem baseStep_refines (h : TxRef K P st a tb) (op : Op) (hk : KeysOk K op) (hP0 : P none)
    (hPt : ∀ ttl ∈ op.ttls, P (deadlineOf st.ov.now ttl)) :
    ∃ tb', TxRef K P (st.baseStep op).1 (a.step op).1 tb' ∧ (st.baseStep op).2 = (a.step op).2 ∧
      tb' = { tb with now := tb.now + op.dt, m := if op.isTxOp then tb.m else (fun _ => none) } := by
  cases op with
  | set k v ttl c =>
    have hkk := hk k (by simp [Op.keys])
    have := set_refines h hkk.1 hkk.2 v ttl c hP0 (hPt ttl (by simp [Op.ttls]))
    exact ⟨tb, this.1, this.2, by simp [Op.dt, Op.isTxOp]⟩
  | setMany kvs ttl =>
    refine ⟨tb, setMany_refines kvs ttl hP0 h (fun kv hkv => hk kv.1 ?_) (hPt ttl (by simp [Op.ttls])), rfl, by simp [Op.dt, Op.isTxOp]⟩
    simp only [Op.keys, List.mem_map]; exact ⟨kv, hkv, rfl⟩
  | get k =>
    have hkk := hk k (by simp [Op.keys])
    have := get_refines h hkk.1 hkk.2
    refine ⟨tb, this.1, ?_, by simp [Op.dt, Op.isTxOp]⟩
    simp only [baseStep, ATx.step]; rw [this.2]
  | getMany ks =>
    have := getMany_refines ks h (fun k hk' => hk k (by simpa [Op.keys] using hk'))
    refine ⟨tb, this.1, ?_, by simp [Op.dt, Op.isTxOp]⟩
    simp only [baseStep, ATx.step]; rw [this.2]
  | exists_ k =>
    have hkk := hk k (by simp [Op.keys])
    have := exists_refines h hkk.1 hkk.2
    refine ⟨tb, this.1, ?_, by simp [Op.dt, Op.isTxOp]⟩
    simp only [baseStep, ATx.step]; rw [this.2]
  | incr k by_ ttl =>
    have hkk := hk k (by simp [Op.keys])
    have := incr_refines h hkk.1 hkk.2 by_ ttl hP0 (hPt ttl (by simp [Op.ttls]))
    exact ⟨tb, this.1, this.2, by simp [Op.dt, Op.isTxOp]⟩
  | delete k => exact ⟨tb, delete_refines h k, rfl, by simp [Op.dt, Op.isTxOp]⟩
  | deleteMany ks => exact ⟨tb, deleteMany_refines ks h, rfl, by simp [Op.dt, Op.isTxOp]⟩
  | expire k ttl =>
    have hkk := hk k (by simp [Op.keys])
    have := expire_refines h hkk.1 hkk.2 ttl hP0 (hPt ttl (by simp [Op.ttls]))
    refine ⟨tb, this, ?_, by simp [Op.dt, Op.isTxOp]⟩
    simp only [baseStep, ATx.step]
    split <;> (try split) <;> (try split) <;> rfl
  | getExpire k =>
    have hkk := hk k (by simp [Op.keys])
    refine ⟨tb, h, ?_, by simp [Op.dt, Op.isTxOp]⟩
    simp only [baseStep, ATx.step]; rw [getExpire_refines h hkk.1 hkk.2]
  | clear =>
    refine ⟨{ tb with m := fun _ => none }, ⟨Mem.good_clear h.ov, Mem.good_clear h.b, rfl, ?_, h.bnow, ?_, h.lockKeys, ?_⟩, rfl, by simp [Op.dt, Op.isTxOp]⟩
    · intro k _; simp [TtlMap.find, ATx.step]
    · intro k _; left; simp [TtlMap.find]
    · intro x hx; simp [baseStep, clear] at hx
  | adv dt => exact ⟨_, adv_refines h dt, rfl, by simp [Op.dt, Op.isTxOp]⟩
  | purge =>
    refine ⟨tb, ⟨h.ov, Mem.good_sweep _ h.b, h.del, h.user, h.bnow, h.locks, h.lockKeys, h.fresh⟩, rfl, by simp [Op.dt, Op.isTxOp]⟩

/-! ### locks -/

theorem reserved_lockKey (m : TxMode) {k : Key} (hr : reserved k = false) : reserved (lockKey m k) = true := by
  unfold reserved at hr ⊢
  cases m <;> simp only [lockKey] <;> simp at hr ⊢ <;> omega

theorem lockUpdates_proj (st : TxSt) (k : Key) :
    (st.lockUpdates k).1.ov = st.ov ∧ (st.lockUpdates k).1.del = st.del ∧ (st.lockUpdates k).1.mode = st.mode ∧
    (st.lockUpdates k).1.lockId = st.lockId ∧ (st.lockUpdates k).1.timeout = st.timeout := by
  unfold lockUpdates
  split
  · simp
  · split
    · simp
    · split <;> simp

/-- one `_lock_updates`: a single task always gets the lock; only a reserved key of the backend changes -/
theorem lockUpdates_refines (h : TxRef K P st a tb) {k : Key} (hr : reserved k = false)
    (hlk : lockKey st.mode k ∈ K) :
    ∃ tb', TxRef K P (st.lockUpdates k).1 a tb' ∧ (st.lockUpdates k).2 = true := by
  have hres := reserved_lockKey st.mode hr
  unfold lockUpdates
  split
  · exact ⟨tb, h, rfl⟩
  · by_cases hin : lockKey st.mode k ∈ st.locks
    · rw [if_pos hin]; exact ⟨tb, h, rfl⟩
    · rw [if_neg hin]
      have hnone : tb.find (lockKey st.mode k) = none := by
        rcases h.locks _ hres with h1 | h1
        · exact h1
        · exact absurd h1.1 hin
      have gs := Mem.good_step h.b (.set (lockKey st.mode k) (.tok st.lockId) (some st.timeout) .nx)
        (by simp [Op.keys, hlk])
      have ht : tb.step (.set (lockKey st.mode k) (.tok st.lockId) (some st.timeout) .nx) =
          (tb.write (lockKey st.mode k) (.tok st.lockId) (some st.timeout), .bool true) := by
        simp [TtlMap.step, hnone]
      rw [ht] at gs
      simp only [gs.2, if_true]
      refine ⟨_, ⟨h.ov, gs.1, h.del, ?_, by simp [h.bnow], ?_, ?_, h.fresh⟩, trivial⟩
      · intro k' hr'
        rw [TtlMap.find_write, if_neg (fun e => by rw [e, hres] at hr'; exact absurd hr' (by simp))]
        exact h.user k' hr'
      · intro k' hr'
        rw [TtlMap.find_write]
        by_cases e : k' = lockKey st.mode k
        · right; subst e; simp
        · rw [if_neg e]
          rcases h.locks k' hr' with h1 | h1
          · exact Or.inl h1
          · exact Or.inr ⟨List.mem_cons_of_mem _ h1.1, h1.2⟩
      · intro lk hl
        simp only [List.mem_cons] at hl
        rcases hl with hl | hl
        · subst hl; exact ⟨hlk, hres⟩
        · exact h.lockKeys lk hl

theorem lockAll_proj (ks : List Key) : ∀ (st : TxSt),
    (st.lockAll ks).1.ov = st.ov ∧ (st.lockAll ks).1.del = st.del ∧ (st.lockAll ks).1.mode = st.mode ∧
    (st.lockAll ks).1.lockId = st.lockId ∧ (st.lockAll ks).1.timeout = st.timeout := by
  induction ks with
  | nil => intro st; simp [lockAll]
  | cons k ks ih =>
    intro st
    have h1 := lockUpdates_proj st k
    simp only [lockAll]
    split
    · have h2 := ih (st.lockUpdates k).1
      exact ⟨h2.1.trans h1.1, h2.2.1.trans h1.2.1, h2.2.2.1.trans h1.2.2.1, h2.2.2.2.1.trans h1.2.2.2.1,
        h2.2.2.2.2.trans h1.2.2.2.2⟩
    · exact h1

theorem lockAll_refines (ks : List Key) : ∀ {st : TxSt} {tb : TtlMap}, TxRef K P st a tb →
    (∀ k ∈ ks, reserved k = false ∧ lockKey st.mode k ∈ K) →
    ∃ tb', TxRef K P (st.lockAll ks).1 a tb' ∧ (st.lockAll ks).2 = true := by
  induction ks with
  | nil => intro st tb h _; exact ⟨tb, h, rfl⟩
  | cons k ks ih =>
    intro st tb h hk
    obtain ⟨tb1, h1, ok1⟩ := lockUpdates_refines h (hk k (by simp)).1 (hk k (by simp)).2
    simp only [lockAll, ok1, if_true]
    exact ih h1 (fun k' hk' => by rw [(lockUpdates_proj st k).2.2.1]; exact hk k' (by simp [hk']))

theorem writeKeys_subset (op : Op) : ∀ k ∈ writeKeys op, k ∈ op.keys := by
  cases op <;> simp [writeKeys, Op.keys]

/-- the keys a command locks are in the universe too -/
def LockKeysOk (K : List Key) (m : TxMode) (op : Op) : Prop := ∀ k ∈ writeKeys op, lockKey m k ∈ K

/-- **one command inside a transaction, in any mode, refines the abstract step** -/
theorem step_refines (h : TxRef K P st a tb) (op : Op) (hk : KeysOk K op) (hl : LockKeysOk K st.mode op)
    (hP0 : P none) (hPt : ∀ ttl ∈ op.ttls, P (deadlineOf st.ov.now ttl)) :
    ∃ tb', TxRef K P (st.step op).1 (a.step op).1 tb' ∧ (st.step op).2 = (a.step op).2 := by
  obtain ⟨tb1, h1, ok1⟩ := lockAll_refines (writeKeys op) h
    (fun k hk' => ⟨(hk k (writeKeys_subset op k hk')).2, hl k hk'⟩)
  have hp := lockAll_proj (writeKeys op) st
  obtain ⟨tb2, h2, o2, _⟩ := baseStep_refines h1 op hk hP0 (by rw [hp.1]; exact hPt)
  unfold step
  simp only [ok1, if_true]
  exact ⟨tb2, h2, o2⟩

end TxSt
end CashewsVerif
