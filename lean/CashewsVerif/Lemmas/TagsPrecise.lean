import CashewsVerif.Lemmas.TagsInv
/-
Lemmas about the tag model, part 6: the precision half of C12.  Under documented usage (every tag is
registered for the keys it is used with) a key is a member of a tag set only if it physically
exists and carried that tag since its last explicit deletion; hence `delete_tags` leaves alone
the keys that never carried the tag, and those deleted and re-created without it.
-/
namespace CashewsVerif.Tags
open St

/-- membership is justified: a member exists and carried the tag since it was last deleted; and
every tag a key carried is one the registry derives from the key -/
def PInv (cfg : Cfg) (s : St) : Prop :=
  (∀ k t, k ∈ lm s t → t ∈ s.since k ∧ (s.kv k).isSome = true) ∧ (∀ k t, t ∈ s.since k → t ∈ cfg.tagOf k)

theorem pinv_init (cfg : Cfg) : PInv cfg init := by
  constructor
  · intro k t h; simp [lm, init, liveAt, membersOpt] at h
  · intro k t h; simp [init] at h

theorem pinv_rawDelete {cfg : Cfg} {s : St} (k : Nat) (h : PInv cfg s) : PInv cfg (s.rawDelete cfg k).1 := by
  constructor
  · intro k' t hm
    have hm0 := mem_lm_rawDelete hm
    obtain ⟨h1, h2⟩ := h.1 k' t hm0
    refine ⟨by rw [rawDelete_since]; exact h1, ?_⟩
    rw [rawDelete_kv]
    by_cases hk : k' = k
    · subst hk
      exfalso
      rw [lm_rawDelete] at hm
      have : (s.kv k').isSome = true ∧ t ∈ cfg.tagOf k' := ⟨h2, h.2 k' t h1⟩
      rw [if_pos this] at hm
      simp at hm
    · simp [hk, h2]
  · intro k' t ht
    rw [rawDelete_since] at ht
    exact h.2 k' t ht

/-- after `_delete(k)` the key is a member of no tag set -/
theorem not_mem_after_rawDelete {cfg : Cfg} {s : St} (k t : Nat) (h : PInv cfg s) : k ∉ lm (s.rawDelete cfg k).1 t := by
  intro hm
  have := ((pinv_rawDelete k h).1 k t hm).2
  rw [rawDelete_kv] at this
  simp at this

theorem pinv_delKey {cfg : Cfg} {s : St} (k : Nat) (h : PInv cfg s) : PInv cfg (s.delKey cfg k) := by
  have hr := pinv_rawDelete k h
  constructor
  · intro k' t hm
    rw [lm_delKey] at hm
    obtain ⟨h1, h2⟩ := hr.1 k' t hm
    by_cases hk : k' = k
    · subst hk; exact absurd hm (not_mem_after_rawDelete k' t h)
    · refine ⟨?_, ?_⟩
      · rw [delKey_since]; simpa [hk, rawDelete_since] using h1
      · rw [delKey_kv]; rw [rawDelete_kv] at h2; simpa [hk] using h2
  · intro k' t ht
    rw [delKey_since] at ht
    split at ht
    · simp at ht
    · exact h.2 k' t ht

theorem pinv_touch {cfg : Cfg} {s : St} (k : Nat) (h : PInv cfg s) : PInv cfg (s.touch cfg k).1 :=
  touch_preserves cfg s k h (pinv_rawDelete k h)

theorem pinv_writeTagged {cfg : Cfg} {s : St} (k : Nat) (v : Val) (ttl : Option Nat) (tags : List Nat)
    (hreg : ∀ t ∈ tags, t ∈ cfg.tagOf k) (h : PInv cfg s) : PInv cfg (s.writeTagged k v ttl tags) := by
  constructor
  · intro x t hm
    rw [lm_writeTagged] at hm
    rw [writeTagged_since, writeTagged_kv]
    by_cases hx : x = k
    · subst hx
      refine ⟨?_, by simp [rawSet, upd]⟩
      rw [upd_same]
      rcases hm with hm | hm
      · exact List.mem_append_right _ (h.1 x t hm).1
      · exact List.mem_append_left _ hm.2
    · rcases hm with hm | hm
      · obtain ⟨h1, h2⟩ := h.1 x t hm
        exact ⟨by rw [upd_other _ _ hx]; exact h1, by simpa [rawSet, upd, hx] using h2⟩
      · exact absurd hm.1 hx
  · intro k' t ht
    rw [writeTagged_since] at ht
    by_cases hk : k' = k
    · subst hk
      rw [upd_same] at ht
      rcases List.mem_append.mp ht with h' | h'
      · exact hreg t h'
      · exact h.2 k' t h'
    · rw [upd_other _ _ hk] at ht
      exact h.2 k' t ht

theorem pinv_setPop {cfg : Cfg} {s : St} (t c : Nat) (h : PInv cfg s) : PInv cfg (s.setPop t c).1 := by
  constructor
  · intro k t' hm
    rw [lm_setPop] at hm
    have : k ∈ lm s t' := by
      split at hm
      · exact List.mem_of_mem_drop hm
      · exact hm
    exact h.1 k t' this
  · exact h.2

theorem mem_lm_adv {s : St} {dt t x : Nat} (h : x ∈ lm { s with now := s.now + dt } t) : x ∈ lm s t := by
  unfold lm liveAt at *
  simp only at h
  cases he : s.ts t with
  | none => simp [he, membersOpt] at h
  | some e =>
    simp only [he] at h ⊢
    by_cases hl : e.live (s.now + dt) = true
    · simp only [hl, if_true] at h
      simp [live_mono hl, h]
    · simp [hl, membersOpt] at h

theorem pinv_adv {cfg : Cfg} {s : St} (dt : Nat) (h : PInv cfg s) : PInv cfg { s with now := s.now + dt } :=
  ⟨fun k t hm => h.1 k t (mem_lm_adv hm), h.2⟩

theorem pinv_deleteTag {cfg : Cfg} {s : St} (t : Nat) (h : PInv cfg s) : PInv cfg (s.deleteTag cfg t) :=
  loop_preserves cfg (fun _ t c h => pinv_setPop t c h) (fun _ k h => pinv_delKey k h) t _ s h

theorem pinv_step {cfg : Cfg} {s : St} (op : TOp) (hreg : op.registered cfg = true) (h : PInv cfg s) :
    PInv cfg (step cfg s op).1 := by
  have reg_of : ∀ {k : Nat} {tags : List Nat}, (tags.all fun t => (cfg.tagOf k).contains t) = true →
      ∀ t ∈ tags, t ∈ cfg.tagOf k := by
    intro k tags h t ht
    have := List.all_eq_true.mp h t ht
    simpa using this
  cases op with
  | set k v ttl c tags =>
    have hr := reg_of (by simpa [TOp.registered] using hreg)
    simp only [step, wset]
    cases c with
    | always => exact pinv_writeTagged k v ttl tags hr h
    | nx => simp only; split
            · exact pinv_touch k h
            · exact pinv_writeTagged k v ttl tags hr (pinv_touch k h)
    | xx => simp only; split
            · exact pinv_writeTagged k v ttl tags hr (pinv_touch k h)
            · exact pinv_touch k h
  | incr k by_ ttl tags =>
    have hr := reg_of (by simpa [TOp.registered] using hreg)
    simp only [step]
    cases hc : counterOf (s.touch cfg k).2 with
    | none => rw [wincr_err by_ ttl tags hc]; exact pinv_touch k h
    | some c => rw [wincr_ok by_ ttl tags hc]; exact pinv_writeTagged _ _ _ _ hr (pinv_touch k h)
  | call k v ttl tags =>
    have hr := reg_of (by simpa [TOp.registered] using hreg)
    simp only [step, wcall]
    split
    · exact pinv_touch k h
    · exact pinv_writeTagged _ _ _ _ hr (pinv_touch k h)
  | get k => exact pinv_touch k h
  | exists_ k => exact pinv_touch k h
  | delete k => exact pinv_delKey k h
  | deleteMany ks => exact foldl_delKey_preserves cfg (fun _ k h => pinv_delKey k h) ks s h
  | deleteMatch ks =>
    simp only [step, delMatch]
    clear hreg
    induction ks generalizing s with
    | nil => exact h
    | cons k r ih =>
      simp only [List.foldl_cons]
      apply ih
      split
      · exact pinv_delKey k h
      · exact h
  | deleteTags tl =>
    simp only [step, deleteTags]
    clear hreg
    induction tl generalizing s with
    | nil => exact h
    | cons t r ih => exact ih (pinv_deleteTag t h)
  | adv dt => exact pinv_adv dt h
  | purge =>
    simp only [step]
    generalize cfg.keys = ks
    induction ks generalizing s with
    | nil => exact h
    | cons k r ih => exact ih (pinv_touch k h)

theorem pinv_exec {cfg : Cfg} {s : St} (ops : List TOp) (hreg : ∀ op ∈ ops, op.registered cfg = true) (h : PInv cfg s) :
    PInv cfg (exec cfg s ops) := by
  unfold exec
  induction ops generalizing s with
  | nil => exact h
  | cons op r ih =>
    exact ih (fun o ho => hreg o (List.mem_cons_of_mem _ ho)) (pinv_step op (hreg op (List.mem_cons_self ..)) h)

/-- **precision of `delete_tags`**: a key that carried none of the tags since its last explicit
deletion keeps its entry (value and deadline) -/
theorem deleteTags_other {cfg : Cfg} {s : St} (tl : List Nat) (k : Nat) (h : PInv cfg s)
    (hk : ∀ t ∈ tl, t ∉ s.since k) : (s.deleteTags cfg tl).kv k = s.kv k := by
  unfold deleteTags
  induction tl generalizing s with
  | nil => rfl
  | cons t r ih =>
    have hnm : k ∉ lm s t := fun hm => hk t (List.mem_cons_self ..) (h.1 k t hm).1
    have ho := loop_other cfg t k ((lm s t).length + 1) s hnm
    have h1 : (s.deleteTag cfg t).kv k = s.kv k := ho.1
    have h2 : (s.deleteTag cfg t).since k = s.since k := ho.2
    simp only [List.foldl_cons]
    rw [ih (pinv_deleteTag t h) (by intro t' ht'; rw [h2]; exact hk t' (List.mem_cons_of_mem _ ht')), h1]

end CashewsVerif.Tags
