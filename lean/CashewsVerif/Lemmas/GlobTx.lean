import CashewsVerif.Lemmas.Glob
/- Helper lemmas for C13: the transaction overlay's merge against the directly updated store. -/
namespace CashewsVerif.Glob
open CashewsVerif Store

/-- put a list of entries one after the other (what `set` does for each overlay write) -/
def applyPuts (l : Store) (st : Store) : Store := l.foldl (fun st ke => put st ke.1 ke.2) st

theorem lookup_applyPuts {l : Store} (h : (keys l).Nodup) (st : Store) (k : Key) :
    lookup (applyPuts l st) k = (lookup l k).or (lookup st k) := by
  induction l generalizing st with
  | nil => simp [applyPuts]
  | cons p l ih =>
    obtain ⟨k0, e0⟩ := p
    simp only [keys, List.map_cons, List.nodup_cons] at h
    have ih' := ih h.2 (put st k0 e0)
    simp only [applyPuts, List.foldl_cons] at ih' ⊢
    rw [ih', lookup_put]
    by_cases h0 : k0 = k
    · subst h0
      have hn : lookup l k0 = none := by
        cases hl : lookup l k0 with
        | none => rfl
        | some e => exact absurd (List.mem_map.mpr ⟨(k0, e), mem_of_lookup hl, rfl⟩) h.1
      simp [lookup, hn]
    · simp [lookup, h0]

theorem nodup_applyPuts (l : Store) {st : Store} (h : (keys st).Nodup) : (keys (applyPuts l st)).Nodup := by
  induction l generalizing st with
  | nil => exact h
  | cons p l ih =>
    simp only [applyPuts, List.foldl_cons]
    exact ih (Mem.nodup_keys_put h _ _)

theorem lookup_foldl_erase (ks : List Key) (st : Store) (k : Key) :
    lookup (ks.foldl erase st) k = if k ∈ ks then none else lookup st k := by
  induction ks generalizing st with
  | nil => simp
  | cons k0 ks ih =>
    simp only [List.foldl_cons, ih, lookup_erase, List.mem_cons]
    by_cases h1 : k ∈ ks <;> by_cases h0 : k0 = k <;> simp [h1, h0]
    · intro h; exact absurd h.symm h0

theorem nodup_foldl_erase (ks : List Key) {st : Store} (h : (keys st).Nodup) : (keys (ks.foldl erase st)).Nodup := by
  induction ks generalizing st with
  | nil => exact h
  | cons k ks ih => exact ih (Mem.nodup_keys_erase h k)

namespace Tx

theorem direct_eq (t : Tx) :
    t.direct = { now := t.now, cap := 1000,
                 store := applyPuts (t.overlay.filter fun ke => ke.2.live t.now) (t.del.foldl erase t.backend) } := by
  unfold direct
  simp only [foldl_rawDelete_eq, bmem, applyPuts]

theorem direct_now (t : Tx) : t.direct.now = t.now := by rw [direct_eq]

theorem nodup_direct {t : Tx} (hb : (keys t.backend).Nodup) : (keys t.direct.store).Nodup := by
  rw [direct_eq]
  exact nodup_applyPuts _ (nodup_foldl_erase _ hb)

/-- the transaction's merged view of one key: own live write first, else the store's entry
unless its deletion is pending -/
def view (t : Tx) (k : Key) : Option Entry :=
  (t.omem.view k).or (if k ∈ t.del then none else t.bmem.view k)

theorem direct_view {t : Tx} (ho : (keys t.overlay).Nodup) (k : Key) : t.direct.view k = t.view k := by
  rw [direct_eq]
  unfold view
  simp only [Mem.view, omem, bmem]
  rw [lookup_applyPuts (nodup_keys_filter ho _), lookup_filter ho, lookup_foldl_erase]
  cases hl : lookup t.overlay k with
  | none => by_cases hd : k ∈ t.del <;> simp [Option.filter, hd]
  | some e =>
    by_cases hlive : e.live t.now = true
    · simp [Option.filter, hlive]
    · by_cases hd : k ∈ t.del <;> simp [Option.filter, hlive, hd]

theorem mem_scan_iff {name : Nat → List Char} {t : Tx} (hb : (keys t.backend).Nodup) (ho : (keys t.overlay).Nodup)
    (pat : List Char) (k : Key) :
    k ∈ t.scan name pat ↔ (t.view k).isSome ∧ glob pat (name k) = true := by
  unfold scan view
  simp only [List.mem_append, List.mem_filter, Bool.and_eq_true, Bool.not_eq_true', List.contains_eq_mem,
    decide_eq_false_iff_not]
  rw [Glob.mem_scan_iff (m := t.omem) ho, Glob.mem_scan_iff (m := t.bmem) hb]
  cases hov : t.omem.view k with
  | some e =>
    by_cases hg : glob pat (name k) = true <;> simp [hg]
  | none =>
    by_cases hd : k ∈ t.del <;> simp [hd]

theorem nodup_scan {name : Nat → List Char} {t : Tx} (hb : (keys t.backend).Nodup) (ho : (keys t.overlay).Nodup)
    (pat : List Char) : (t.scan name pat).Nodup := by
  unfold scan
  refine List.nodup_append.mpr ⟨Glob.nodup_scan (m := t.omem) ho pat, (Glob.nodup_scan (m := t.bmem) hb pat).filter _, ?_⟩
  intro a ha b hb' hab
  subst hab
  simp only [List.mem_filter, Bool.and_eq_true, Bool.not_eq_true', List.contains_eq_mem, decide_eq_false_iff_not] at hb'
  exact hb'.2.2 ha

end Tx

/-! ### the commands keep store keys distinct -/

theorem nodup_rawGet {m : Mem} (h : (keys m.store).Nodup) (k : Key) : (keys (m.rawGet k).1.store).Nodup := by
  unfold Mem.rawGet
  split
  · exact h
  · split
    · exact Mem.nodup_keys_put h _ _
    · exact Mem.nodup_keys_erase h _

theorem nodup_getMany (ks : List Key) {m : Mem} (h : (keys m.store).Nodup) :
    (keys (m.getMany ks).1.store).Nodup := by
  induction ks generalizing m with
  | nil => exact h
  | cons k ks ih => exact ih (nodup_rawGet h k)

theorem nodup_rawSet {m : Mem} (h : (keys m.store).Nodup) (k : Key) (v : Val) (ttl : Option Nat) :
    (keys (m.rawSet k v ttl).store).Nodup := by
  unfold Mem.rawSet Mem.trim
  have hp := Mem.nodup_keys_put h k ⟨v, m.newDeadline k ttl⟩
  simp only
  split
  · unfold keys at *
    rw [List.map_tail]
    exact hp.sublist (List.tail_sublist _)
  · exact hp

theorem nodup_getMatch {name : Nat → List Char} {bits : Val → Bool} {m : Mem} (h : (keys m.store).Nodup) (pat : List Char) :
    (keys (getMatch name bits m pat).1.store).Nodup := nodup_getMany _ h

/-! ### `get_match`: which pairs come out -/

/-- a pair is yielded iff the key is present for a reader, its text matches, the value it holds is not a
bit-field object, and the second component is *that* value (never the default `none`) -/
theorem mem_getMatch_iff {name : Nat → List Char} {bits : Val → Bool} {m : Mem} (hm : (keys m.store).Nodup)
    (pat : List Char) (k : Key) (v : Option Val) :
    (k, v) ∈ (getMatch name bits m pat).2 ↔
      ∃ e, m.view k = some e ∧ glob pat (name k) = true ∧ bits e.val = false ∧ v = some e.val := by
  rw [getMatch_out hm]
  simp only [List.mem_map, List.mem_filter, sel, Bool.and_eq_true, Prod.mk.injEq, Bool.not_eq_true']
  constructor
  · rintro ⟨⟨k', e⟩, ⟨hmem, ⟨hl, hg⟩, hb⟩, rfl, rfl⟩
    exact ⟨e, by simp [Mem.view, lookup_of_mem hm hmem, Option.filter, hl], hg, hb, rfl⟩
  · rintro ⟨e, hv, hg, hb, rfl⟩
    simp only [Mem.view, Option.filter_eq_some_iff] at hv
    exact ⟨(k, e), ⟨mem_of_lookup hv.1, ⟨hv.2, hg⟩, hb⟩, rfl, rfl⟩

theorem nodup_getMatch_out {name : Nat → List Char} {bits : Val → Bool} {m : Mem} (hm : (keys m.store).Nodup)
    (pat : List Char) : (getMatch name bits m pat).2.Nodup := by
  rw [getMatch_out hm]
  have hk : ((m.store.filter (fun ke => sel name m.now pat ke && !bits ke.2.val)).map (·.1)).Nodup :=
    nodup_keys_filter hm _
  have hp := List.pairwise_map.mp hk
  exact List.pairwise_map.mpr (hp.imp (fun {a b} (hne : a.1 ≠ b.1)
    (heq : (a.1, some a.2.val) = (b.1, some b.2.val)) => hne (congrArg Prod.fst heq)))

/-- the key holds a bit-field object (for a reader: a live entry whose value is one) -/
def holdsBits (bits : Val → Bool) (m : Mem) (k : Key) : Bool :=
  match m.view k with
  | some e => bits e.val
  | none => false

/-- the keys `get_match` yields are the keys `scan` yields, in the same order, minus those holding a bit field -/
theorem getMatch_keys {name : Nat → List Char} {bits : Val → Bool} {m : Mem} (hm : (keys m.store).Nodup)
    (pat : List Char) :
    (getMatch name bits m pat).2.map (·.1) = (scan name m pat).filter (fun k => !holdsBits bits m k) := by
  rw [getMatch_out hm, scan_eq, List.map_map, List.filter_map, List.filter_filter]
  have : ((fun x : Key × Option Val => x.1) ∘ fun ke : Key × Entry => (ke.1, some ke.2.val)) = (·.1) := rfl
  rw [this]
  congr 1
  apply List.filter_congr
  rintro ⟨k, e⟩ hmem
  by_cases hs : sel name m.now pat (k, e) = true
  · have hl : e.live m.now = true := by
      simp only [sel, Bool.and_eq_true] at hs; exact hs.1
    simp [hs, holdsBits, Mem.view, lookup_of_mem hm hmem, Option.filter, hl]
  · simp [hs]

/-- no entry of the store is a bit-field object -/
def NoBits (bits : Val → Bool) (st : Store) : Prop := ∀ ke ∈ st, bits ke.2.val = false

instance (bits : Val → Bool) (st : Store) : Decidable (NoBits bits st) := by unfold NoBits; infer_instance

theorem holdsBits_of_noBits {bits : Val → Bool} {m : Mem} (h : NoBits bits m.store) (k : Key) :
    holdsBits bits m k = false := by
  unfold holdsBits
  cases hv : m.view k with
  | none => rfl
  | some e =>
    simp only [Mem.view, Option.filter_eq_some_iff] at hv
    exact h (k, e) (mem_of_lookup hv.1)

theorem noBits_filter {bits : Val → Bool} {st : Store} (h : NoBits bits st) (P : Key × Entry → Bool) :
    NoBits bits (st.filter P) := fun ke hke => h ke (List.mem_filter.mp hke).1

theorem noBits_erase {bits : Val → Bool} {st : Store} (h : NoBits bits st) (k : Key) : NoBits bits (erase st k) := by
  rw [erase_eq_filter]; exact noBits_filter h _

theorem noBits_put {bits : Val → Bool} {st : Store} (h : NoBits bits st) (k : Key) {e : Entry}
    (he : bits e.val = false) : NoBits bits (put st k e) := by
  intro ke hke
  simp only [put, List.mem_append, List.mem_singleton] at hke
  rcases hke with hke | rfl
  · exact noBits_erase h k ke hke
  · exact he

theorem noBits_rawGet {bits : Val → Bool} {m : Mem} (h : NoBits bits m.store) (k : Key) :
    NoBits bits (m.rawGet k).1.store := by
  unfold Mem.rawGet
  split
  · exact h
  · rename_i e hl
    split
    · exact noBits_put h k (h (k, e) (mem_of_lookup hl))
    · exact noBits_erase h k

theorem noBits_getMany {bits : Val → Bool} (ks : List Key) {m : Mem} (h : NoBits bits m.store) :
    NoBits bits (m.getMany ks).1.store := by
  induction ks generalizing m with
  | nil => exact h
  | cons k ks ih => exact ih (noBits_rawGet h k)

theorem noBits_rawSet {bits : Val → Bool} {m : Mem} (h : NoBits bits m.store) (k : Key) {v : Val}
    (hv : bits v = false) (ttl : Option Nat) : NoBits bits (m.rawSet k v ttl).store := by
  unfold Mem.rawSet Mem.trim
  have hp : NoBits bits (put m.store k ⟨v, m.newDeadline k ttl⟩) := noBits_put h k hv
  simp only
  split
  · intro ke hke; exact hp ke (List.mem_of_mem_tail hke)
  · exact hp

namespace Tx

/-- `get_match` inside a transaction, pair by pair, against the transaction's merged view: provided the overlay
holds no bit-field object (`incr_bits` is proxied to the backend, never buffered), a pair is yielded iff the key
is visible in the transaction, matches, what is visible is not a bit field, and the value is the visible one —
the transaction's own write where there is one, never the store value it shadows. -/
theorem mem_getMatch_iff {name : Nat → List Char} {bits : Val → Bool} {t : Tx} (hb : (keys t.backend).Nodup)
    (ho : (keys t.overlay).Nodup) (hov : NoBits bits t.overlay) (pat : List Char) (k : Key) (v : Option Val) :
    (k, v) ∈ (t.getMatch name bits pat).2 ↔
      ∃ e, t.view k = some e ∧ glob pat (name k) = true ∧ bits e.val = false ∧ v = some e.val := by
  unfold Tx.getMatch
  simp only [List.mem_append, List.mem_filter, Bool.and_eq_true, Bool.not_eq_true', List.contains_eq_mem,
    decide_eq_false_iff_not]
  rw [getMatch_keys (m := t.omem) ho, Glob.mem_getMatch_iff (m := t.omem) ho, Glob.mem_getMatch_iff (m := t.bmem) hb]
  simp only [List.mem_filter, Glob.mem_scan_iff (m := t.omem) ho, holdsBits_of_noBits (m := t.omem) hov]
  unfold Tx.view
  cases hovw : t.omem.view k with
  | some e =>
    by_cases hg : glob pat (name k) = true <;> simp [hg]
  | none =>
    by_cases hdel : k ∈ t.del <;> simp [hdel]

theorem nodup_getMatch_out {name : Nat → List Char} {bits : Val → Bool} {t : Tx} (hb : (keys t.backend).Nodup)
    (ho : (keys t.overlay).Nodup) (pat : List Char) : (t.getMatch name bits pat).2.Nodup := by
  unfold Tx.getMatch
  refine List.nodup_append.mpr ⟨Glob.nodup_getMatch_out (m := t.omem) ho pat,
    (Glob.nodup_getMatch_out (m := t.bmem) hb pat).filter _, ?_⟩
  intro a ha b hb' hab
  subst hab
  simp only [List.mem_filter, Bool.and_eq_true, Bool.not_eq_true', List.contains_eq_mem,
    decide_eq_false_iff_not] at hb'
  exact hb'.2.2 (List.mem_map.mpr ⟨a, ha, rfl⟩)

end Tx

end CashewsVerif.Glob
