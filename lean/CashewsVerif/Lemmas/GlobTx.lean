import CashewsVerif.Lemmas.Glob
/- Helper lemmas for C13: the transaction overlay's merge against the directly updated store. -/
namespace CashewsVerif.Glob
open CashewsVerif Store

/-- put a list of entries one after the other (what `set` does for each overlay write) -/
def applyPuts (l : Store) (st : Store) : Store := l.foldl (fun st ke => put st ke.1 ke.2) st

theorem lookup_applyPuts {l : Store} (h : (keys l).Nodup) (st : Store) (k : Key) :
    lookup (applyPuts l st) k = (lookup l k).or (lookup st k) := by
  induction l generalizing st with
  | nil => simp [applyPuts]
  | cons p l ih =>
    obtain ⟨k0, e0⟩ := p
    simp only [keys, List.map_cons, List.nodup_cons] at h
    have ih' := ih h.2 (put st k0 e0)
    simp only [applyPuts, List.foldl_cons] at ih' ⊢
    rw [ih', lookup_put]
    by_cases h0 : k0 = k
    · subst h0
      have hn : lookup l k0 = none := by
        cases hl : lookup l k0 with
        | none => rfl
        | some e => exact absurd (List.mem_map.mpr ⟨(k0, e), mem_of_lookup hl, rfl⟩) h.1
      simp [lookup, hn]
    · simp [lookup, h0]

theorem nodup_applyPuts (l : Store) {st : Store} (h : (keys st).Nodup) : (keys (applyPuts l st)).Nodup := by
  induction l generalizing st with
  | nil => exact h
  | cons p l ih =>
    simp only [applyPuts, List.foldl_cons]
    exact ih (Mem.nodup_keys_put h _ _)

theorem lookup_foldl_erase (ks : List Key) (st : Store) (k : Key) :
    lookup (ks.foldl erase st) k = if k ∈ ks then none else lookup st k := by
  induction ks generalizing st with
  | nil => simp
  | cons k0 ks ih =>
    simp only [List.foldl_cons, ih, lookup_erase, List.mem_cons]
    by_cases h1 : k ∈ ks <;> by_cases h0 : k0 = k <;> simp [h1, h0]
    · intro h; exact absurd h.symm h0

theorem nodup_foldl_erase (ks : List Key) {st : Store} (h : (keys st).Nodup) : (keys (ks.foldl erase st)).Nodup := by
  induction ks generalizing st with
  | nil => exact h
  | cons k ks ih => exact ih (Mem.nodup_keys_erase h k)

namespace Tx

theorem direct_eq (t : Tx) :
    t.direct = { now := t.now, cap := 1000,
                 store := applyPuts (t.overlay.filter fun ke => ke.2.live t.now) (t.del.foldl erase t.backend) } := by
  unfold direct
  simp only [foldl_rawDelete_eq, bmem, applyPuts]

theorem direct_now (t : Tx) : t.direct.now = t.now := by rw [direct_eq]

theorem nodup_direct {t : Tx} (hb : (keys t.backend).Nodup) : (keys t.direct.store).Nodup := by
  rw [direct_eq]
  exact nodup_applyPuts _ (nodup_foldl_erase _ hb)

/-- the transaction's merged view of one key: own live write first, else the store's entry
unless its deletion is pending -/
def view (t : Tx) (k : Key) : Option Entry :=
  (t.omem.view k).or (if k ∈ t.del then none else t.bmem.view k)

theorem direct_view {t : Tx} (ho : (keys t.overlay).Nodup) (k : Key) : t.direct.view k = t.view k := by
  rw [direct_eq]
  unfold view
  simp only [Mem.view, omem, bmem]
  rw [lookup_applyPuts (nodup_keys_filter ho _), lookup_filter ho, lookup_foldl_erase]
  cases hl : lookup t.overlay k with
  | none => by_cases hd : k ∈ t.del <;> simp [Option.filter, hd]
  | some e =>
    by_cases hlive : e.live t.now = true
    · simp [Option.filter, hlive]
    · by_cases hd : k ∈ t.del <;> simp [Option.filter, hlive, hd]

theorem mem_scan_iff {name : Nat → List Char} {t : Tx} (hb : (keys t.backend).Nodup) (ho : (keys t.overlay).Nodup)
    (pat : List Char) (k : Key) :
    k ∈ t.scan name pat ↔ (t.view k).isSome ∧ glob pat (name k) = true := by
  unfold scan view
  simp only [List.mem_append, List.mem_filter, Bool.and_eq_true, Bool.not_eq_true', List.contains_eq_mem,
    decide_eq_false_iff_not]
  rw [Glob.mem_scan_iff (m := t.omem) ho, Glob.mem_scan_iff (m := t.bmem) hb]
  cases hov : t.omem.view k with
  | some e =>
    by_cases hg : glob pat (name k) = true <;> simp [hg]
  | none =>
    by_cases hd : k ∈ t.del <;> simp [hd]

theorem nodup_scan {name : Nat → List Char} {t : Tx} (hb : (keys t.backend).Nodup) (ho : (keys t.overlay).Nodup)
    (pat : List Char) : (t.scan name pat).Nodup := by
  unfold scan
  refine List.nodup_append.mpr ⟨Glob.nodup_scan (m := t.omem) ho pat, (Glob.nodup_scan (m := t.bmem) hb pat).filter _, ?_⟩
  intro a ha b hb' hab
  subst hab
  simp only [List.mem_filter, Bool.and_eq_true, Bool.not_eq_true', List.contains_eq_mem, decide_eq_false_iff_not] at hb'
  exact hb'.2.2 ha

end Tx

/-! ### the commands keep store keys distinct -/

theorem nodup_rawGet {m : Mem} (h : (keys m.store).Nodup) (k : Key) : (keys (m.rawGet k).1.store).Nodup := by
  unfold Mem.rawGet
  split
  · exact h
  · split
    · exact Mem.nodup_keys_put h _ _
    · exact Mem.nodup_keys_erase h _

theorem nodup_getMany (ks : List Key) {m : Mem} (h : (keys m.store).Nodup) :
    (keys (m.getMany ks).1.store).Nodup := by
  induction ks generalizing m with
  | nil => exact h
  | cons k ks ih => exact ih (nodup_rawGet h k)

theorem nodup_rawSet {m : Mem} (h : (keys m.store).Nodup) (k : Key) (v : Val) (ttl : Option Nat) :
    (keys (m.rawSet k v ttl).store).Nodup := by
  unfold Mem.rawSet Mem.trim
  have hp := Mem.nodup_keys_put h k ⟨v, m.newDeadline k ttl⟩
  simp only
  split
  · unfold keys at *
    rw [List.map_tail]
    exact hp.sublist (List.tail_sublist _)
  · exact hp

theorem nodup_getMatch {name : Nat → List Char} {m : Mem} (h : (keys m.store).Nodup) (pat : List Char) :
    (keys (getMatch name m pat).1.store).Nodup := nodup_getMany _ h

end CashewsVerif.Glob
