import CashewsVerif.Lemmas.ClientSideInv
/- C20: preservation of the quiescent-point invariant by `set_lock`, `unlock`, `incr` with a TTL (the `_INCR_EXPIRE`
script), `set_many` and an explicit `deliver`; the invariant along every history of the model (`inv2_qrun`). -/
set_option linter.unusedSimpArgs false
namespace CashewsVerif.Redis.CS
open CashewsVerif CashewsVerif.Redis

/-- loading a script changes nothing the invariant talks about -/
theorem inv_loaded (st : St) (hinv : Inv st) (l : List Script) :
    Inv ({ st with srv := { st.srv with loaded := l } } : St) := hinv

/-- a lock token the read path hands back as it is: digits, or a payload the serializer decodes -/
def TokOK (isEnc : String → Bool) : Bytes → Prop
  | .num _ => True
  | .blob h => isEnc h = true

theorem decode_tok (st : St) (tok : Bytes) (h : TokOK st.isEnc tok) : decodeS st tok = some (tokVal tok) := by
  cases tok with
  | num i => rfl
  | blob x => simp [TokOK] at h; simp [decodeS, tokVal, h]

/-- SET with any expiry argument: accepted (the value is there) or refused (nothing changed) -/
theorem exec_set_cases' (s : Srv) (k : String) (b : Bytes) (px : Option Nat) (cond : Cond) :
    ((s.exec (.set k b px cond)).2 = .ok ∧ ∃ dl, (s.exec (.set k b px cond)).1.ks.find k = some ⟨.str b, dl⟩) ∨
    ((s.exec (.set k b px cond)).2 ≠ .ok ∧ (s.exec (.set k b px cond)).1 = s) := by
  cases px with
  | none => exact exec_set_cases s k b none cond
  | some x =>
    cases x with
    | zero => right; simp [Srv.exec, Srv.execPrim]
    | succ y => exact exec_set_cases s k b (some (y + 1)) cond

theorem inv_setLock (st : St) (hinv : Inv st) (i : Nat) (k : String) (tok : Bytes) (ms : Nat)
    (hdec : TokOK st.isEnc tok) : Inv (qstep st (.setLock i k tok ms)).1 := by
  simp only [qstep, step]
  generalize hst0 : ({ st with cl := upd st.cl i ((st.cl i).mark (now st) k) } : St) = st0
  have h0srv : st0.srv = st.srv := by subst hst0; rfl
  have h0enc : st0.isEnc = st.isEnc := by subst hst0; rfl
  have h0cl : ∀ j, j ≠ i → st0.cl j = st.cl j := by intro j hj; subst hst0; simp [upd, hj]
  have hcli : st0.cl i = (st.cl i).mark (now st) k := by subst hst0; simp [upd]
  have h0i : (st0.cl i).queue = [] ∧ (st0.cl i).started = (st.cl i).started ∧ (st0.cl i).tracking = (st.cl i).tracking := by
    rw [hcli]; exact ⟨(hinv.1 i).1, rfl, rfl⟩
  generalize hst1 : (srvCmd st0 (.set k tok (some ms) .nx)).1 = st1
  rcases exec_set_cases' st.srv k tok (some ms) .nx with ⟨hok, dl, hfind⟩ | ⟨hno, hsame⟩
  · -- the lock is taken: the holder's mark swallows its own echo, the others drop their copies
    obtain ⟨a1, a2, a3, a4, a5, b1, b2, b3, b4⟩ := after_write st st0 st1
      { st1 with cl := upd st1.cl i ((st1.cl i).lset (now st) k (.val (tokVal tok)) (some ms)) } i _ rfl hinv h0srv h0enc h0cl h0i
      hst1.symm rfl rfl (fun j hj => by simp [upd, hj]) (by simp [upd, Client.lset])
    have hK : touched st.srv (.set k tok (some ms) .nx) = [k] := by simp [touched, hok]
    rw [hK] at a3 a4
    have hr : (srvCmd st0 (.set k tok (some ms) .nx)).2 = .ok := b4.trans hok
    simp only [hr, if_true]
    refine inv_after st _ i [k] hinv a1 a2 a3 a4 a5 ?_
    intro hs
    have htr : (st.cl i).tracking = true := ((hinv.1 i).2 hs).1
    have hnm : (st.cl i).noMarks (now st) := ((hinv.1 i).2 hs).2
    generalize hci : (({ st1 with cl := upd st1.cl i ((st1.cl i).lset (now st) k (.val (tokVal tok)) (some ms)) } : St).cl i) = ci
    have hqi : ci.queue = [Msg.keys [k]] := by rw [← hci, a3 i, htr]; rfl
    have hmi : ci.marks = ((st.cl i).mark (now st) k).marks := by
      rw [← hci]; simp only [upd, if_true, Client.lset]; rw [b2, hcli]
    have hli : ci.loc = ((st.cl i).lset (now st) k (.val (tokVal tok)) (some ms)).loc := by
      rw [← hci]; simp only [upd, if_true, Client.lset, Client.lfind]; rw [b1, hcli]; rfl
    have hmk : ci.marked (now st) k = true := by
      simp only [Client.marked, hmi]; exact marked_mark_self _ _ _
    have hd : deliverClient (now st) ci = ({ ci with queue := [] } : Client).unmark k := by
      simp only [deliverClient, hqi, List.foldl_cons, List.foldl_nil, Client.applyMsg, Client.applyKey]
      have : ({ ci with queue := [] } : Client).marked (now st) k = true := hmk
      simp [this]
    rw [hd]
    refine ⟨?_, ?_⟩
    · intro k'
      by_cases hk : k' = k
      · subst hk; simp [Client.unmark, Client.marked]
      · have := hnm k'
        simpa [Client.unmark, Client.marked, hmi, Client.mark, hk] using this
    · intro k' e he
      have he' : ((st.cl i).lset (now st) k (.val (tokVal tok)) (some ms)).lfind (now st) k' = some e := by
        simpa [Client.lfind, Client.unmark, hli] using he
      rcases lfind_lset he' with ⟨rfl, hval⟩ | ⟨hne, hold⟩
      · unfold agreeEntry; rw [hval]
        show srvValue st1 k' = some (tokVal tok)
        have henc1 : st1.isEnc = st.isEnc := by rw [← hst1]; exact h0enc
        simp only [srvValue, b3, hfind]
        have := decode_tok st tok hdec
        cases tok with
        | num x => rfl
        | blob h => simpa [decodeS, tokVal, henc1] using this
      · have := hinv.2 i k' e hs hold
        unfold agreeEntry at this ⊢
        rw [a4 k' (by simpa using hne)]
        exact this
  · -- refused: the server is untouched, the mark is taken back, the local copy was never written
    obtain ⟨a1, a2, a3, a4, a5, b1, b2, b3, b4⟩ := after_write st st0 st1
      { st1 with cl := upd st1.cl i ((st1.cl i).unmark k) } i _ rfl hinv h0srv h0enc h0cl h0i hst1.symm
      rfl rfl (fun j hj => by simp [upd, hj]) (by simp [upd, Client.unmark])
    have hK : touched st.srv (.set k tok (some ms) .nx) = [] := by simp [touched, hno]
    rw [hK] at a3 a4
    have hr : (srvCmd st0 (.set k tok (some ms) .nx)).2 ≠ .ok := by rw [b4]; exact hno
    simp only [hr, if_false]
    refine inv_after st _ i [] hinv a1 a2 a3 a4 a5 ?_
    intro hs
    have hnm : (st.cl i).noMarks (now st) := ((hinv.1 i).2 hs).2
    generalize hci : (({ st1 with cl := upd st1.cl i ((st1.cl i).unmark k) } : St).cl i) = ci
    have hqi : ci.queue = [] := by rw [← hci, a3 i]; simp
    obtain ⟨d1, d2⟩ := deliverClient_nil (now st) ci hqi
    have hmi : ci.marks = (((st.cl i).mark (now st) k).unmark k).marks := by
      rw [← hci]; simp only [upd, if_true, Client.unmark]; rw [b2, hcli]
    have hli : ci.loc = (st.cl i).loc := by
      rw [← hci]; simp only [upd, if_true, Client.unmark]; rw [b1, hcli]; rfl
    refine ⟨?_, ?_⟩
    · intro k'
      simp only [Client.marked, d2, hmi, Client.unmark, Client.mark]
      by_cases hk : k' = k
      · simp [hk]
      · have := hnm k'; simpa [Client.marked, hk] using this
    · intro k' e he
      have he' : (st.cl i).lfind (now st) k' = some e := by simpa [Client.lfind, d1, hli] using he
      have := hinv.2 i k' e hs he'
      unfold agreeEntry at this ⊢
      rw [a4 k' (by simp)]
      exact this

/-- what `Memory.unlock` leaves of the local copy is part of what was there -/
theorem lfind_unlockLocal (c : Client) (now : Nat) (k : String) (tok : Bytes) :
    let c' := match c.lfind now k with
      | some ⟨.val v, _⟩ => if v = tokVal tok then c.ldel k else c
      | _ => c
    (c'.queue = c.queue ∧ c'.started = c.started ∧ c'.tracking = c.tracking ∧ c'.marks = c.marks) ∧
    ∀ k' e, c'.lfind now k' = some e → c.lfind now k' = some e := by
  intro c'
  have hdel : ∀ k' e, (c.ldel k).lfind now k' = some e → c.lfind now k' = some e := by
    intro k' e h
    by_cases hk : k' = k
    · simp [Client.lfind, Client.ldel, hk] at h
    · simpa [Client.lfind, Client.ldel, hk] using h
  show (c'.queue = c.queue ∧ c'.started = c.started ∧ c'.tracking = c.tracking ∧ c'.marks = c.marks) ∧
    ∀ k' e, c'.lfind now k' = some e → c.lfind now k' = some e
  simp only [c']
  split
  · split
    · exact ⟨⟨rfl, rfl, rfl, rfl⟩, hdel⟩
    · exact ⟨⟨rfl, rfl, rfl, rfl⟩, fun _ _ h => h⟩
  · exact ⟨⟨rfl, rfl, rfl, rfl⟩, fun _ _ h => h⟩

theorem inv_unlock_with (st : St) (hinv : Inv st) (i : Nat) (k : String) (tok : Bytes) (c' : Client)
    (hf : c'.queue = (st.cl i).queue ∧ c'.started = (st.cl i).started ∧ c'.tracking = (st.cl i).tracking ∧
      c'.marks = (st.cl i).marks)
    (hsub : ∀ k' e, c'.lfind (now st) k' = some e → (st.cl i).lfind (now st) k' = some e) :
    Inv (deliverAll (srvCmd ({ st with cl := upd st.cl i c', srv := { st.srv with loaded := Script.unlock :: st.srv.loaded } } : St)
      (.evalsha (some .unlock) k [tok])).1) := by
  obtain ⟨q1, q2, q3, q4⟩ := hf
  -- the state in which the script is known to the server
  generalize hstL : ({ st with srv := { st.srv with loaded := Script.unlock :: st.srv.loaded } } : St) = stL
  have hinvL : Inv stL := by subst hstL; exact inv_loaded st hinv _
  have hnowL : now stL = now st := by subst hstL; rfl
  have hclL : stL.cl = st.cl := by subst hstL; rfl
  have hvalL : ∀ k, srvValue stL k = srvValue st k := by intro k; subst hstL; rfl
  generalize hst0 : ({ st with cl := upd st.cl i c', srv := { st.srv with loaded := Script.unlock :: st.srv.loaded } } : St) = st0
  have h0srv : st0.srv = stL.srv := by subst hst0 hstL; rfl
  have h0enc : st0.isEnc = stL.isEnc := by subst hst0 hstL; rfl
  have h0cl : ∀ j, j ≠ i → st0.cl j = stL.cl j := by intro j hj; subst hst0 hstL; simp [upd, hj]
  have hcli : st0.cl i = c' := by subst hst0; simp [upd]
  have h0i : (st0.cl i).queue = [] ∧ (st0.cl i).started = (stL.cl i).started ∧ (st0.cl i).tracking = (stL.cl i).tracking := by
    rw [hcli, q1, q2, q3, hclL]; exact ⟨(hinv.1 i).1, rfl, rfl⟩
  generalize hst1 : (srvCmd st0 (.evalsha (some .unlock) k [tok])).1 = st1
  obtain ⟨a1, a2, a3, a4, a5, b1, b2, b3, b4⟩ := after_write stL st0 st1 st1 i (.evalsha (some .unlock) k [tok]) rfl hinvL h0srv h0enc
    h0cl h0i hst1.symm rfl rfl (fun _ _ => rfl) ⟨rfl, rfl, rfl⟩
  have hfinal : Inv (deliverAll st1) := by
    refine inv_after stL st1 i _ hinvL a1 a2 a3 a4 a5 ?_
    intro hs
    have htr : (stL.cl i).tracking = true := ((hinvL.1 i).2 hs).1
    have hnm : (stL.cl i).noMarks (now stL) := ((hinvL.1 i).2 hs).2
    have hq := a3 i
    rw [htr, if_pos rfl] at hq
    have hm1 : (st1.cl i).noMarks (now stL) := by
      intro k'; simp only [Client.marked, b2, hcli, q4]; rw [← hclL]; exact hnm k'
    obtain ⟨g1, g2⟩ := deliverClient_keys (now stL) (st1.cl i) _ hq hm1
    refine ⟨?_, ?_⟩
    · intro k'; simp only [Client.marked, g2]; exact hm1 k'
    · intro k' e he
      have hk : k' ∉ touched stL.srv (.evalsha (some .unlock) k [tok]) := by
        intro hk; simp [Client.lfind, g1 k', hk] at he
      have he' : c'.lfind (now stL) k' = some e := by
        simpa [Client.lfind, g1 k', hk, b1, hcli] using he
      rw [hnowL] at he'
      have hold := hsub k' e he'
      have := hinvL.2 i k' e hs (by rw [hclL, hnowL]; exact hold)
      unfold agreeEntry at this ⊢
      rw [a4 k' hk]; exact this
  exact hfinal

theorem inv_unlock (st : St) (hinv : Inv st) (i : Nat) (k : String) (tok : Bytes) :
    Inv (qstep st (.unlock i k tok)).1 := by
  simp only [qstep, step]
  exact inv_unlock_with st hinv i k tok _ (lfind_unlockLocal (st.cl i) (now st) k tok).1
    (lfind_unlockLocal (st.cl i) (now st) k tok).2

/-- `_INCR_EXPIRE` (loaded, positive TTL argument) either fails and changes nothing, or leaves the new number under the key -/
theorem exec_incrExpire_cases (s : Srv) (hl : Script.incrExpire ∈ s.loaded) (k : String) (b : Int) (ms : Nat) (hms : 0 < ms) :
    ((s.exec (.evalsha (some .incrExpire) k [.num b, .num ms])).2 = .err ∧
      (s.exec (.evalsha (some .incrExpire) k [.num b, .num ms])).1 = s) ∨
    (∃ n dl, (s.exec (.evalsha (some .incrExpire) k [.num b, .num ms])).2 = .int n ∧
      (s.exec (.evalsha (some .incrExpire) k [.num b, .num ms])).1.ks.find k = some ⟨.str (.num n), dl⟩) := by
  have hrun : s.exec (.evalsha (some .incrExpire) k [.num b, .num ms]) = s.runIncrExpire k [.num b, .num ms] := by
    simp [Srv.exec, hl]
  rw [hrun]
  simp only [Srv.runIncrExpire]
  have hE : s.exec (.incrby k b) = s.execPrim (.incrby k b) := rfl
  rcases exec_incrby_cases s k b with ⟨herr, _⟩ | ⟨n, dl, hint, hfind⟩
  · rw [hE] at herr
    left; simp [herr]
  · rw [hE] at hint hfind
    right
    by_cases hn : n = 1
    · refine ⟨n, some ((s.execPrim (.incrby k b)).1.ks.now + ms), by simp [hint, hn], ?_⟩
      have := exec_pexpire_find (s.execPrim (.incrby k b)).1 k ms hms
      have hE2 : (s.execPrim (.incrby k b)).1.exec (.pexpire k ms) = (s.execPrim (.incrby k b)).1.execPrim (.pexpire k ms) := rfl
      rw [hE2, hfind] at this
      simp only [hint, hn, if_true]
      rw [this]; simp [hn]
    · exact ⟨n, dl, by simp [hint, hn], by simp [hint, hn, hfind]⟩

theorem inv_incrTtl (st : St) (hinv : Inv st) (i : Nat) (k : String) (b : Int) (ttl : Option Nat) (ms : Nat)
    (hp : pxOf ttl = some ms) : Inv (qstep st (.incr i k b ttl)).1 := by
  have hms : 0 < ms := by
    unfold pxOf at hp; split at hp
    · rw [← Option.some.inj hp]; omega
    · simp at hp
  simp only [qstep, step, hp]
  generalize hstL : ({ st with srv := { st.srv with loaded := Script.incrExpire :: st.srv.loaded } } : St) = stL
  have hinvL : Inv stL := by subst hstL; exact inv_loaded st hinv _
  have hnowL : now st = now stL := by subst hstL; rfl
  have hload : Script.incrExpire ∈ stL.srv.loaded := by subst hstL; simp
  rw [hnowL]
  clear hnowL hstL hinv st
  -- from here on the proof is the one of `inv_incr`, with the script in the place of INCRBY
  generalize hcmd : Cmd.evalsha (some Script.incrExpire) k [Bytes.num b, Bytes.num (ms : Int)] = cmd
  have hcs : csCmd cmd = true := by subst hcmd; rfl
  have h0i : (stL.cl i).queue = [] ∧ (stL.cl i).started = (stL.cl i).started ∧ (stL.cl i).tracking = (stL.cl i).tracking :=
    ⟨(hinvL.1 i).1, rfl, rfl⟩
  generalize hst1 : (srvCmd stL cmd).1 = st1
  have hcases := exec_incrExpire_cases stL.srv hload k b ms hms
  rw [hcmd] at hcases
  rcases hcases with ⟨herr, hsame⟩ | ⟨n, dl, hint, hfind⟩
  · obtain ⟨a1, a2, a3, a4, a5, b1, b2, b3, b4⟩ := after_write stL stL st1 st1 i cmd hcs hinvL rfl rfl (fun _ _ => rfl) h0i
      hst1.symm rfl rfl (fun _ _ => rfl) ⟨rfl, rfl, rfl⟩
    have hK : touched stL.srv cmd = [] := by subst hcmd; simp only [touched, herr]
    rw [hK] at a3 a4
    have hr : (srvCmd stL cmd).2 = .err := b4.trans herr
    simp only [hr]
    refine inv_after stL st1 i [] hinvL a1 a2 a3 a4 a5 ?_
    intro hs
    have hqi : (st1.cl i).queue = [] := by rw [a3 i]; simp
    obtain ⟨d1, d2⟩ := deliverClient_nil (now stL) (st1.cl i) hqi
    refine ⟨?_, ?_⟩
    · intro k'; simp only [Client.marked, d2, b2]; exact ((hinvL.1 i).2 hs).2 k'
    · intro k' e he
      have he' : (stL.cl i).lfind (now stL) k' = some e := by simpa [Client.lfind, d1, b1] using he
      have := hinvL.2 i k' e hs he'
      unfold agreeEntry at this ⊢
      rw [a4 k' (by simp)]; exact this
  · have hK : touched stL.srv cmd = [k] := by
      subst hcmd; simp only [touched, hint]
      by_cases hn : n = 0 <;> simp [hn]
    by_cases hn : n = 0
    · obtain ⟨a1, a2, a3, a4, a5, b1, b2, b3, b4⟩ := after_write stL stL st1 st1 i cmd hcs hinvL rfl rfl (fun _ _ => rfl) h0i
        hst1.symm rfl rfl (fun _ _ => rfl) ⟨rfl, rfl, rfl⟩
      rw [hK] at a3 a4
      have hr : (srvCmd stL cmd).2 = .int n := b4.trans hint
      simp only [hr, hn, ne_eq, not_true_eq_false, if_false]
      refine inv_after stL st1 i [k] hinvL a1 a2 a3 a4 a5 ?_
      intro hs
      have htr := ((hinvL.1 i).2 hs).1
      have hnm := ((hinvL.1 i).2 hs).2
      have hq := a3 i
      rw [htr, if_pos rfl] at hq
      have hm1 : (st1.cl i).noMarks (now stL) := by intro k'; simp only [Client.marked, b2]; exact hnm k'
      obtain ⟨g1, g2⟩ := deliverClient_keys (now stL) (st1.cl i) _ hq hm1
      refine ⟨?_, ?_⟩
      · intro k'; simp only [Client.marked, g2]; exact hm1 k'
      · intro k' e he
        have hk : k' ∉ [k] := by intro hk; simp [Client.lfind, g1 k', hk] at he
        have he' : (stL.cl i).lfind (now stL) k' = some e := by simpa [Client.lfind, g1 k', hk, b1] using he
        have := hinvL.2 i k' e hs he'
        unfold agreeEntry at this ⊢
        rw [a4 k' hk]; exact this
    · obtain ⟨a1, a2, a3, a4, a5, b1, b2, b3, b4⟩ := after_write stL stL st1
        { st1 with cl := upd st1.cl i (((st1.cl i).lset (now stL) k (.val (.int n)) ttl).mark (now stL) k) } i cmd hcs hinvL
        rfl rfl (fun _ _ => rfl) h0i hst1.symm rfl rfl (fun j hj => by simp [upd, hj]) (by simp [upd, Client.lset, Client.mark])
      rw [hK] at a3 a4
      have hr : (srvCmd stL cmd).2 = .int n := b4.trans hint
      simp only [hr, hn, ne_eq, not_false_eq_true, if_true]
      refine inv_after stL _ i [k] hinvL a1 a2 a3 a4 a5 ?_
      intro hs
      have htr : (stL.cl i).tracking = true := ((hinvL.1 i).2 hs).1
      have hnm : (stL.cl i).noMarks (now stL) := ((hinvL.1 i).2 hs).2
      generalize hci : (({ st1 with cl := upd st1.cl i (((st1.cl i).lset (now stL) k (.val (.int n)) ttl).mark (now stL) k) } : St).cl i) = ci
      have hqi : ci.queue = [Msg.keys [k]] := by rw [← hci, a3 i, htr]; rfl
      have hmi : ci.marks = ((stL.cl i).mark (now stL) k).marks := by
        rw [← hci]; simp only [upd, if_true, Client.lset, Client.mark]; rw [b2]
      have hli : ci.loc = ((stL.cl i).lset (now stL) k (.val (.int n)) ttl).loc := by
        rw [← hci]; simp only [upd, if_true, Client.lset, Client.lfind, Client.mark]; rw [b1]
      have hmk : ci.marked (now stL) k = true := by
        simp only [Client.marked, hmi]; exact marked_mark_self _ _ _
      have hd : deliverClient (now stL) ci = ({ ci with queue := [] } : Client).unmark k := by
        simp only [deliverClient, hqi, List.foldl_cons, List.foldl_nil, Client.applyMsg, Client.applyKey]
        have : ({ ci with queue := [] } : Client).marked (now stL) k = true := hmk
        simp [this]
      rw [hd]
      refine ⟨?_, ?_⟩
      · intro k'
        by_cases hk : k' = k
        · subst hk; simp [Client.unmark, Client.marked]
        · have := hnm k'
          simpa [Client.unmark, Client.marked, hmi, Client.mark, hk] using this
      · intro k' e he
        have he' : ((stL.cl i).lset (now stL) k (.val (.int n)) ttl).lfind (now stL) k' = some e := by
          simpa [Client.lfind, Client.unmark, hli] using he
        rcases lfind_lset he' with ⟨rfl, hval⟩ | ⟨hne, hold⟩
        · unfold agreeEntry; rw [hval]
          show srvValue st1 k' = some (.int n)
          simp only [srvValue, b3, hfind]; rfl
        · have := hinvL.2 i k' e hs hold
          unfold agreeEntry at this ⊢
          rw [a4 k' (by simpa using hne)]; exact this

/-- an explicit `deliver` at a quiescent point finds nothing to process -/
theorem inv_deliver (st : St) (hinv : Inv st) (i : Nat) : Inv (qstep st (.deliver i)).1 := by
  simp only [qstep, step]
  have hq : (st.cl i).queue = [] := (hinv.1 i).1
  rw [hq, List.foldl_nil]
  refine inv_local_only st _ i hinv rfl rfl (fun j hj => by simp [upd, hj]) ?_ ?_
  · simp only [upd, if_true]
    exact ⟨trivial, trivial, trivial, fun hs => ((hinv.1 i).2 hs).2⟩
  · intro hs k e he
    simp only [upd, if_true] at he
    exact hinv.2 i k e hs he

/-! ### `set_many` -/

/-- a value the serializer reads back (C09) -/
def DecV (isEnc : String → Bool) : CVal → Prop
  | .int _ => True
  | .obj h => isEnc h = true

/-- what a listener does with announced keys, whatever marks it holds: local entries only disappear, and a key that is
still marked afterwards was marked before and was not announced -/
theorem applyKeys_general (L : List String) (now : Nat) :
    ∀ (c : Client), let c' := L.foldl (fun c k => c.applyMsg now (.keys [k])) c
      (∀ k, c'.loc k = c.loc k ∨ c'.loc k = none) ∧
      (∀ k, c'.marked now k = true → c.marked now k = true ∧ k ∉ L) := by
  induction L with
  | nil => intro c; exact ⟨fun _ => Or.inl rfl, fun _ h => ⟨h, by simp⟩⟩
  | cons a L ih =>
    intro c
    simp only [List.foldl_cons, Client.applyMsg, List.foldl_nil]
    obtain ⟨h1, h2⟩ := ih (c.applyKey now a)
    simp only [Client.applyMsg, List.foldl_cons, List.foldl_nil] at h1 h2
    have hloc : ∀ k, (c.applyKey now a).loc k = c.loc k ∨ (c.applyKey now a).loc k = none := by
      intro k; unfold Client.applyKey
      split
      · left; rfl
      · by_cases hk : k = a
        · right; simp [Client.ldel, hk]
        · left; simp [Client.ldel, hk]
    have hmk : ∀ k, (c.applyKey now a).marked now k = true → c.marked now k = true ∧ k ≠ a := by
      intro k; unfold Client.applyKey
      split
      · intro h
        by_cases hk : k = a
        · simp [Client.unmark, Client.marked, hk] at h
        · refine ⟨?_, hk⟩; simpa [Client.unmark, Client.marked, hk] using h
      · rename_i hna
        intro h
        have h' : c.marked now k = true := by simpa [Client.ldel, Client.marked] using h
        refine ⟨h', ?_⟩
        intro hk; rw [hk] at h'; exact hna h'
    refine ⟨fun k => ?_, fun k h => ?_⟩
    · rcases h1 k with e | e
      · rw [e]; exact hloc k
      · right; exact e
    · obtain ⟨g1, g2⟩ := h2 k h
      obtain ⟨g3, g4⟩ := hmk k g1
      exact ⟨g3, by simp [g4, g2]⟩

theorem deliverClient_general (now : Nat) (c : Client) (K : List String) (hq : c.queue = K.map (fun k => Msg.keys [k])) :
    (∀ k, (deliverClient now c).loc k = c.loc k ∨ (deliverClient now c).loc k = none) ∧
    (∀ k, (deliverClient now c).marked now k = true → c.marked now k = true ∧ k ∉ K) := by
  unfold deliverClient
  rw [hq, List.foldl_map]
  exact applyKeys_general K now { c with queue := [] }

/-- an unconditional SET with cashews' expiry argument is always accepted -/
theorem exec_set_always (s : Srv) (k : String) (b : Bytes) (ttl : Option Nat) :
    (s.exec (.set k b (pxOf ttl) .always)).2 = .ok ∧
    (∃ dl, (s.exec (.set k b (pxOf ttl) .always)).1.ks.find k = some ⟨.str b, dl⟩) ∧
    (∀ k', k' ≠ k → (s.exec (.set k b (pxOf ttl) .always)).1.ks.find k' = s.ks.find k') ∧
    (s.exec (.set k b (pxOf ttl) .always)).1.ks.now = s.ks.now ∧
    touched s (.set k b (pxOf ttl) .always) = [k] := by
  have hok : (s.exec (.set k b (pxOf ttl) .always)).2 = .ok := by
    have hpx : pxOf ttl ≠ some 0 := by unfold pxOf; split <;> simp
    simp only [Srv.exec, Srv.execPrim]
    cases hp : pxOf ttl with
    | none => simp
    | some x =>
      cases x with
      | zero => exact absurd hp hpx
      | succ y => simp
  have hK : touched s (.set k b (pxOf ttl) .always) = [k] := by simp [touched, hok]
  refine ⟨hok, ?_, ?_, exec_now s _ rfl, hK⟩
  · rcases exec_set_cases s k b ttl .always with ⟨_, h⟩ | ⟨h, _⟩
    · exact h
    · exact absurd hok h
  · intro k' hk'
    exact (exec_outside s _ rfl k' (by rw [hK]; simpa using hk')).1

def setCmds (kvs : List (String × CVal)) (ttl : Option Nat) : List Cmd :=
  kvs.map fun kv => .set kv.1 (encode kv.2) (pxOf ttl) .always

/-- the pipeline of SETs, seen from the clients: every key is announced once per SET, nothing else moves -/
theorem srvMulti_sets (kvs : List (String × CVal)) (ttl : Option Nat) :
    ∀ (st0 : St), let st1 := srvMulti st0 (setCmds kvs ttl)
      st1.srv = st0.srv.execMulti (setCmds kvs ttl) ∧ st1.isEnc = st0.isEnc ∧
      ∀ j, (st1.cl j).loc = (st0.cl j).loc ∧ (st1.cl j).marks = (st0.cl j).marks ∧
        (st1.cl j).started = (st0.cl j).started ∧ (st1.cl j).tracking = (st0.cl j).tracking ∧
        (st1.cl j).queue = if (st0.cl j).tracking then (st0.cl j).queue ++ (kvs.map (·.1)).map (fun k => Msg.keys [k])
                           else (st0.cl j).queue := by
  induction kvs with
  | nil => intro st0; simp [setCmds, srvMulti, Srv.execMulti]
  | cons kv kvs ih =>
    intro st0
    have hstep : srvMulti st0 (setCmds (kv :: kvs) ttl) =
        srvMulti (srvCmd st0 (.set kv.1 (encode kv.2) (pxOf ttl) .always)).1 (setCmds kvs ttl) := by
      simp [srvMulti, setCmds]
    have hexec : st0.srv.execMulti (setCmds (kv :: kvs) ttl) =
        (st0.srv.exec (.set kv.1 (encode kv.2) (pxOf ttl) .always)).1.execMulti (setCmds kvs ttl) := by
      simp [Srv.execMulti, setCmds]
    obtain ⟨i1, i2, i3⟩ := ih (srvCmd st0 (.set kv.1 (encode kv.2) (pxOf ttl) .always)).1
    have hcl : (srvCmd st0 (.set kv.1 (encode kv.2) (pxOf ttl) .always)).1.cl = announceKeys st0.cl [kv.1] := by
      have := (exec_set_always st0.srv kv.1 (encode kv.2) ttl).2.2.2.2
      show announceKeys st0.cl (touched st0.srv _) = _
      rw [this]
    simp only [hstep, hexec]
    refine ⟨i1, i2, fun j => ?_⟩
    obtain ⟨f1, f2, f3, f4, f5⟩ := announceKeys_fields st0.cl [kv.1] j
    obtain ⟨j1, j2, j3, j4, j5⟩ := i3 j
    rw [hcl] at j1 j2 j3 j4 j5
    refine ⟨j1.trans f1, j2.trans f2, j3.trans f3, j4.trans f4, ?_⟩
    rw [j5, f4, f5]
    split <;> simp

/-- …and from the keyspace: the clock stands still, keys outside the pipeline are untouched -/
theorem execMulti_sets (kvs : List (String × CVal)) (ttl : Option Nat) :
    ∀ (s0 : Srv), (s0.execMulti (setCmds kvs ttl)).ks.now = s0.ks.now ∧
      ∀ k, k ∉ kvs.map (·.1) → (s0.execMulti (setCmds kvs ttl)).ks.find k = s0.ks.find k := by
  induction kvs with
  | nil => intro s0; simp [setCmds, Srv.execMulti]
  | cons kv kvs ih =>
    intro s0
    have hexec : s0.execMulti (setCmds (kv :: kvs) ttl) =
        (s0.exec (.set kv.1 (encode kv.2) (pxOf ttl) .always)).1.execMulti (setCmds kvs ttl) := by
      simp [Srv.execMulti, setCmds]
    obtain ⟨_, _, e3, e4, _⟩ := exec_set_always s0 kv.1 (encode kv.2) ttl
    obtain ⟨i1, i2⟩ := ih (s0.exec (.set kv.1 (encode kv.2) (pxOf ttl) .always)).1
    rw [hexec]
    refine ⟨i1.trans e4, fun k hk => ?_⟩
    simp only [List.map_cons, List.mem_cons, not_or] at hk
    rw [i2 k hk.2, e3 k hk.1]

def sval (isEnc : String → Bool) (s : Srv) (k : String) : Option CVal :=
  srvValue ({ srv := s, cl := fun _ => Client.init, isEnc := isEnc } : St) k

theorem srvValue_eq_sval (st : St) (k : String) : srvValue st k = sval st.isEnc st.srv k := rfl

theorem sval_congr (isEnc : String → Bool) (s s' : Srv) (k : String) (h : s'.ks.find k = s.ks.find k) :
    sval isEnc s' k = sval isEnc s k := by
  simp [sval, srvValue, h, decodeS]

/-- the writer's local copy and the server, written pair by pair: every live local entry afterwards is either an old one
under a key the pipeline did not touch, or the value the server now holds -/
theorem setMany_joint (isEnc : String → Bool) (now : Nat) (ttl : Option Nat) (c0 : Client) (s0 : Srv)
    (kvs : List (String × CVal)) (hdec : ∀ kv ∈ kvs, DecV isEnc kv.2) :
    ∀ (c : Client) (s : Srv),
      (∀ k' e, c.lfind now k' = some e →
        (c0.lfind now k' = some e ∧ s.ks.find k' = s0.ks.find k') ∨ (∃ v, e.val = .val v ∧ sval isEnc s k' = some v)) →
      let c' := kvs.foldl (fun c kv => (c.lset now kv.1 (.val kv.2) ttl).mark now kv.1) c
      let s' := s.execMulti (setCmds kvs ttl)
      (∀ k' e, c'.lfind now k' = some e →
        (c0.lfind now k' = some e ∧ s'.ks.find k' = s0.ks.find k') ∨ (∃ v, e.val = .val v ∧ sval isEnc s' k' = some v)) ∧
      (c'.queue = c.queue ∧ c'.started = c.started ∧ c'.tracking = c.tracking) ∧
      (∀ k, k ∉ kvs.map (·.1) → c'.marks k = c.marks k) := by
  induction kvs with
  | nil => intro c s h; exact ⟨h, ⟨rfl, rfl, rfl⟩, fun _ _ => rfl⟩
  | cons kv kvs ih =>
    intro c s h
    have hexec : s.execMulti (setCmds (kv :: kvs) ttl) =
        (s.exec (.set kv.1 (encode kv.2) (pxOf ttl) .always)).1.execMulti (setCmds kvs ttl) := by
      simp [Srv.execMulti, setCmds]
    obtain ⟨_, ⟨dl, e2⟩, e3, _, _⟩ := exec_set_always s kv.1 (encode kv.2) ttl
    have hstep : ∀ k' e, ((c.lset now kv.1 (.val kv.2) ttl).mark now kv.1).lfind now k' = some e →
        (c0.lfind now k' = some e ∧ (s.exec (.set kv.1 (encode kv.2) (pxOf ttl) .always)).1.ks.find k' = s0.ks.find k') ∨
        (∃ v, e.val = .val v ∧ sval isEnc (s.exec (.set kv.1 (encode kv.2) (pxOf ttl) .always)).1 k' = some v) := by
      intro k' e he
      have he' : (c.lset now kv.1 (.val kv.2) ttl).lfind now k' = some e := he
      rcases lfind_lset he' with ⟨rfl, hval⟩ | ⟨hne, hold⟩
      · right
        refine ⟨kv.2, hval, ?_⟩
        have hd := hdec kv (by simp)
        simp only [sval, srvValue, e2]
        cases hv : kv.2 with
        | int x => rfl
        | obj x => rw [hv] at hd; simp only [DecV] at hd; simp [encode, decodeS, hd]
      · rcases h k' e hold with ⟨g1, g2⟩ | ⟨v, g1, g2⟩
        · left; exact ⟨g1, (e3 k' hne).trans g2⟩
        · right; exact ⟨v, g1, (sval_congr isEnc _ _ k' (e3 k' hne)).trans g2⟩
    obtain ⟨r1, r2, r3⟩ := ih (fun kv' hkv' => hdec kv' (by simp [hkv'])) _ _ hstep
    simp only [List.foldl_cons, hexec]
    refine ⟨r1, ?_, ?_⟩
    · obtain ⟨q1, q2, q3⟩ := r2
      exact ⟨q1, q2, q3⟩
    · intro k hk
      simp only [List.map_cons, List.mem_cons, not_or] at hk
      rw [r3 k hk.2]
      simp [Client.mark, Client.lset, hk.1]

theorem inv_setMany (st : St) (hinv : Inv st) (i : Nat) (kvs : List (String × CVal)) (ttl : Option Nat)
    (hdec : ∀ kv ∈ kvs, DecV st.isEnc kv.2) : Inv (qstep st (.setMany i kvs ttl)).1 := by
  simp only [qstep, step]
  obtain ⟨r1, ⟨q1, q2, q3⟩, r3⟩ := setMany_joint st.isEnc (now st) ttl (st.cl i) st.srv kvs hdec (st.cl i) st.srv
    (fun k' e h => Or.inl ⟨h, rfl⟩)
  generalize hc : kvs.foldl (fun c kv => (c.lset (now st) kv.1 (.val kv.2) ttl).mark (now st) kv.1) (st.cl i) = c
    at r1 q1 q2 q3 r3
  show Inv (deliverAll (srvMulti ({ st with cl := upd st.cl i c } : St) (setCmds kvs ttl)))
  generalize hst0 : ({ st with cl := upd st.cl i c } : St) = st0
  have h0srv : st0.srv = st.srv := by subst hst0; rfl
  have h0enc : st0.isEnc = st.isEnc := by subst hst0; rfl
  have h0cl : ∀ j, j ≠ i → st0.cl j = st.cl j := by intro j hj; subst hst0; simp [upd, hj]
  have hcli : st0.cl i = c := by subst hst0; simp [upd]
  have h0q : ∀ j, (st0.cl j).queue = [] ∧ (st0.cl j).started = (st.cl j).started ∧ (st0.cl j).tracking = (st.cl j).tracking := by
    intro j
    by_cases hj : j = i
    · subst hj; rw [hcli, q1, q2, q3]; exact ⟨(hinv.1 j).1, rfl, rfl⟩
    · rw [h0cl j hj]; exact ⟨(hinv.1 j).1, rfl, rfl⟩
  obtain ⟨m1, m2, m3⟩ := srvMulti_sets kvs ttl st0
  generalize hst1 : srvMulti st0 (setCmds kvs ttl) = st1 at m1 m2 m3
  rw [h0srv] at m1
  obtain ⟨e1, e2⟩ := execMulti_sets kvs ttl st.srv
  have henc1 : st1.isEnc = st.isEnc := m2.trans h0enc
  have hval : ∀ k, st1.srv.ks.find k = st.srv.ks.find k → srvValue st1 k = srvValue st k := by
    intro k hk
    rw [srvValue_eq_sval, srvValue_eq_sval, henc1]
    exact sval_congr _ _ _ k hk
  refine inv_after st st1 i (kvs.map (·.1)) hinv ?_ ?_ ?_ ?_ ?_ ?_
  · show st1.srv.ks.now = st.srv.ks.now
    rw [m1]; exact e1
  · intro j
    obtain ⟨_, _, j3, j4, _⟩ := m3 j
    exact ⟨j3.trans (h0q j).2.1, j4.trans (h0q j).2.2⟩
  · intro j
    obtain ⟨_, _, _, _, j5⟩ := m3 j
    rw [j5, (h0q j).1, (h0q j).2.2]; simp
  · intro k hk
    apply hval
    rw [m1]; exact e2 k hk
  · intro j hj
    obtain ⟨j1, j2, _, _, _⟩ := m3 j
    rw [j1, j2, h0cl j hj]; exact ⟨rfl, rfl⟩
  · intro hs
    have htr : (st.cl i).tracking = true := ((hinv.1 i).2 hs).1
    have hnm : (st.cl i).noMarks (now st) := ((hinv.1 i).2 hs).2
    obtain ⟨j1, j2, _, _, j5⟩ := m3 i
    rw [hcli] at j1 j2
    have hq : (st1.cl i).queue = (kvs.map (·.1)).map (fun k => Msg.keys [k]) := by
      rw [j5, (h0q i).1, (h0q i).2.2, htr]; simp
    obtain ⟨g1, g2⟩ := deliverClient_general (now st) (st1.cl i) _ hq
    refine ⟨?_, ?_⟩
    · intro k
      cases hmk : (deliverClient (now st) (st1.cl i)).marked (now st) k with
      | false => rfl
      | true =>
        exfalso
        obtain ⟨h1, h2⟩ := g2 k hmk
        have : (st.cl i).marked (now st) k = true := by
          simpa [Client.marked, j2, r3 k h2] using h1
        rw [hnm k] at this; exact Bool.false_ne_true this
    · intro k' e he
      have he1 : c.lfind (now st) k' = some e := by
        rcases g1 k' with h | h
        · simpa [Client.lfind, h, j1] using he
        · simp [Client.lfind, h] at he
      rcases r1 k' e he1 with ⟨o1, o2⟩ | ⟨v, o1, o2⟩
      · have := hinv.2 i k' e hs o1
        unfold agreeEntry at this ⊢
        rw [hval k' (by rw [m1]; exact o2)]; exact this
      · unfold agreeEntry; rw [o1]
        show srvValue st1 k' = some v
        rw [srvValue_eq_sval, henc1, m1]; exact o2

/-! ### `scan`, `get_match`, `get_expire` -/

theorem inv_scan (st : St) (hinv : Inv st) (i : Nat) (pat : String) : Inv (qstep st (.scan i pat)).1 := by
  simp only [qstep, step]
  exact inv_local_only st st i hinv rfl rfl (fun _ _ => rfl) ⟨(hinv.1 i).1, rfl, rfl, fun hs => ((hinv.1 i).2 hs).2⟩
    (fun hs k e he => hinv.2 i k e hs he)

theorem inv_getMatch (st : St) (hinv : Inv st) (i : Nat) (pat : String) : Inv (qstep st (.getMatch i pat)).1 :=
  inv_getManyCore st hinv i _

theorem lfind_ldel {c : Client} {now : Nat} {k k' : String} {e : LEntry} (h : (c.ldel k).lfind now k' = some e) :
    c.lfind now k' = some e := by
  by_cases hk : k' = k
  · simp [Client.lfind, Client.ldel, hk] at h
  · simpa [Client.lfind, Client.ldel, hk] using h

theorem agreeEntry_val {st : St} {k : String} {e e' : LEntry} (hv : e'.val = e.val) (h : agreeEntry st k e) :
    agreeEntry st k e' := by
  unfold agreeEntry at h ⊢; rw [hv]; exact h

/-- `get_expire` only re-times (or forgets) an entry of the caller's local copy -/
theorem inv_getExpire (st : St) (hinv : Inv st) (i : Nat) (k : String) : Inv (qstep st (.getExpire i k)).1 := by
  have hsame : Inv (deliverAll st) :=
    inv_local_only st st i hinv rfl rfl (fun _ _ => rfl) ⟨(hinv.1 i).1, rfl, rfl, fun hs => ((hinv.1 i).2 hs).2⟩
      (fun hs k e he => hinv.2 i k e hs he)
  simp only [qstep, step]
  split
  · exact hsame
  · split
    · rename_i t _
      refine inv_local_only st _ i hinv rfl rfl (fun j hj => by simp [upd, hj]) ?_ ?_
      · simp only [upd, if_true]
        split
        · exact ⟨(hinv.1 i).1, rfl, rfl, fun hs => ((hinv.1 i).2 hs).2⟩
        · split
          · exact ⟨(hinv.1 i).1, rfl, rfl, fun hs => ((hinv.1 i).2 hs).2⟩
          · exact ⟨(hinv.1 i).1, rfl, rfl, fun hs => ((hinv.1 i).2 hs).2⟩
      · intro hs k' e' he
        simp only [upd, if_true] at he
        split at he
        · exact hinv.2 i k' e' hs he
        · rename_i e hf
          split at he
          · exact hinv.2 i k' e' hs (lfind_ldel he)
          · rcases lfind_lset he with ⟨rfl, hval⟩ | ⟨_, hold⟩
            · exact agreeEntry_val hval (hinv.2 i k' e hs hf)
            · exact hinv.2 i k' e' hs hold
    · exact hsame

/-! ### every command of the model -/

/-- side conditions on the ARGUMENTS of a command — no command of the model is excluded: what is written can be read
back (the serializer decodes its own output, C09; a lock token is digits or such a payload: the read path hands a raw token
back as "nothing", so a raw token in a local copy could not agree with any read). -/
def WF (isEnc : String → Bool) : Op → Prop
  | .set _ _ v _ _ => DecV isEnc v
  | .setMany _ kvs _ => ∀ kv ∈ kvs, DecV isEnc kv.2
  | .setLock _ _ tok _ => TokOK isEnc tok
  | _ => True

theorem srvMulti_isEnc (cs : List Cmd) : ∀ st : St, (srvMulti st cs).isEnc = st.isEnc := by
  induction cs with
  | nil => intro st; rfl
  | cons c cs ih => intro st; simp only [srvMulti, List.foldl_cons] at ih ⊢; rw [ih]; rfl

theorem srvMulti_srv (cs : List Cmd) : ∀ st : St, (srvMulti st cs).srv = st.srv.execMulti cs := by
  induction cs with
  | nil => intro st; rfl
  | cons c cs ih => intro st; simp only [srvMulti, Srv.execMulti, List.foldl_cons] at ih ⊢; rw [ih]; rfl

theorem domOK_execMulti (cs : List Cmd) (hcs : ∀ c ∈ cs, csCmd c = true) :
    ∀ s : Srv, DomOK s.ks → DomOK (s.execMulti cs).ks := by
  induction cs with
  | nil => intro s h; exact h
  | cons c cs ih =>
    intro s h
    simp only [Srv.execMulti, List.foldl_cons] at ih ⊢
    exact ih (fun c' hc' => hcs c' (by simp [hc'])) _ (domOK_exec s c (hcs c (by simp)) h)

theorem qstep_isEnc (st : St) (op : Op) : (qstep st op).1.isEnc = st.isEnc := by
  cases op <;> simp only [qstep, deliverAll, step] <;> (repeat' split) <;> first | rfl | exact srvMulti_isEnc _ _

theorem inv2_qstep (st : St) (h : Inv2 st) (op : Op) (hc : WF st.isEnc op) : Inv2 (qstep st op).1 := by
  obtain ⟨hinv, hdom⟩ := h
  cases op with
  | get i k =>
    refine ⟨inv_get st hinv i k, ?_⟩
    simp only [qstep, deliverAll, step]; (repeat' split) <;> exact hdom
  | exists_ i k =>
    refine ⟨inv_exists st hinv i k, ?_⟩
    simp only [qstep, deliverAll, step]; (repeat' split) <;> exact hdom
  | set i k v ttl cond =>
    have hdec : Dec st v := by
      cases v with
      | int _ => trivial
      | obj h => exact hc
    refine ⟨inv_set st hinv i k v ttl cond hdec, ?_⟩
    simp only [qstep, deliverAll, step]
    split <;> exact domOK_exec _ _ rfl hdom
  | setMany i kvs ttl =>
    refine ⟨inv_setMany st hinv i kvs ttl hc, ?_⟩
    simp only [qstep, deliverAll, step]
    rw [srvMulti_srv]
    exact domOK_execMulti _ (by intro c hc'; simp only [List.mem_map] at hc'; obtain ⟨kv, _, rfl⟩ := hc'; rfl) _ hdom
  | delete i k =>
    refine ⟨inv_delete st hinv i k, ?_⟩
    simp only [qstep, deliverAll, step]
    exact domOK_exec _ _ rfl hdom
  | getMany i ks => exact ⟨inv_getMany st hinv i ks, hdom⟩
  | getMatch i pat => exact ⟨inv_getMatch st hinv i pat, hdom⟩
  | scan i pat => exact ⟨inv_scan st hinv i pat, hdom⟩
  | getExpire i k =>
    refine ⟨inv_getExpire st hinv i k, ?_⟩
    simp only [qstep, deliverAll, step]; (repeat' split) <;> exact hdom
  | incr i k b ttl =>
    cases hp : pxOf ttl with
    | none =>
      refine ⟨inv_incr st hinv i k b ttl hp, ?_⟩
      simp only [qstep, deliverAll, step, hp]
      (repeat' split) <;> exact domOK_exec _ _ rfl hdom
    | some ms =>
      refine ⟨inv_incrTtl st hinv i k b ttl ms hp, ?_⟩
      simp only [qstep, deliverAll, step, hp]
      (repeat' split) <;> exact domOK_exec _ _ rfl hdom
  | deleteMany i ks =>
    refine ⟨inv_deleteMany st hinv i ks, ?_⟩
    simp only [qstep, deliverAll, step]
    split
    · exact hdom
    · exact domOK_exec _ _ rfl hdom
  | deleteMatch i pat =>
    refine ⟨inv_deleteMatch st hinv i pat, ?_⟩
    simp only [qstep, deliverAll, step]
    split <;> exact domOK_exec _ _ rfl hdom
  | expire i k ms =>
    refine ⟨inv_expire st hinv i k ms, ?_⟩
    simp only [qstep, deliverAll, step]
    exact domOK_exec _ _ rfl hdom
  | clear i =>
    refine ⟨inv_clear st hinv i, ?_⟩
    simp only [qstep, deliverAll, step, srvCmd, Srv.exec, Srv.execPrim, KS.flush]
    intro k hk; simp at hk
  | setLock i k tok ms =>
    refine ⟨inv_setLock st hinv i k tok ms hc, ?_⟩
    simp only [qstep, deliverAll, step]
    split <;> exact domOK_exec _ _ rfl hdom
  | unlock i k tok =>
    refine ⟨inv_unlock st hinv i k tok, ?_⟩
    simp only [qstep, deliverAll, step]
    exact domOK_exec _ _ rfl hdom
  | deliver i => exact ⟨inv_deliver st hinv i, hdom⟩
  | drop i => exact ⟨inv_drop st hinv i, hdom⟩
  | reconnect i => exact ⟨inv_reconnect st hinv i, hdom⟩
  | adv dt =>
    refine ⟨inv_adv st hinv hdom dt, ?_⟩
    simp only [qstep, deliverAll, step, advance, Srv.adv]
    exact domOK_adv hdom dt

theorem inv2_qrun (ops : List Op) : ∀ (st : St), Inv2 st → (∀ op ∈ ops, WF st.isEnc op) → Inv2 (qrun st ops).1 := by
  induction ops with
  | nil => intro st h _; exact h
  | cons op ops ih =>
    intro st h hc
    simp only [qrun]
    apply ih _ (inv2_qstep st h op (hc op (by simp)))
    intro op' hop'
    rw [qstep_isEnc st op]
    exact hc op' (by simp [hop'])

end CashewsVerif.Redis.CS
