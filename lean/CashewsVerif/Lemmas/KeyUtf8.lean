import CashewsVerif.Lemmas.Key
/-
The strict UTF-8 decoder of the key model is injective: what it accepts is exactly the encoding
of what it returns.  Consequence (Props/C08): two different bytes values render alike only when
one of them is valid UTF-8 and the other is not (the hex fallback) — the shape of the known finding.
-/
namespace CashewsVerif.KeyModel

/-- UTF-8 encoding of one code point -/
def encodeChar (c : Char) : List Nat :=
  let n := c.toNat
  if n < 128 then [n]
  else if n < 2048 then [192 + n / 64, 128 + n % 64]
  else if n < 65536 then [224 + n / 4096, 128 + n / 64 % 64, 128 + n % 64]
  else [240 + n / 262144, 128 + n / 4096 % 64, 128 + n / 64 % 64, 128 + n % 64]

def utf8Encode : Str → List Nat
  | [] => []
  | c :: r => encodeChar c ++ utf8Encode r

theorem toNat_ofNat_valid (n : Nat) (h : n.isValidChar) : (Char.ofNat n).toNat = n := by
  simp [Char.ofNat, h, Char.ofNatAux, Char.toNat]

theorem decode_cons {r : List Nat} {c : Char} {s : Str}
    (h : Option.map (fun x => c :: x) (utf8Decode r) = some s) :
    ∃ s', utf8Decode r = some s' ∧ s = c :: s' := by
  cases hr : utf8Decode r with
  | none => simp [hr] at h
  | some s' => exact ⟨s', rfl, by simpa [hr] using h.symm⟩

theorem utf8Encode_of_decode (xs : List Nat) (s : Str) (h : utf8Decode xs = some s) :
    utf8Encode s = xs := by
  fun_induction utf8Decode xs generalizing s with
  | case1 => simp at h; subst h; rfl
  | case2 b r hb ih =>
    obtain ⟨s', hs', rfl⟩ := decode_cons h
    have hv : b.isValidChar := by simp [Nat.isValidChar]; omega
    simp only [utf8Encode, encodeChar, toNat_ofNat_valid b hv, hb, if_true, ih s' hs']
    rfl
  | case3 b hb1 hb2 b1 r' hc ih =>
    obtain ⟨s', hs', rfl⟩ := decode_cons h
    simp only [isCont, Bool.and_eq_true, decide_eq_true_eq] at hb2 hc
    have hv : ((b - 192) * 64 + (b1 - 128)).isValidChar := by simp [Nat.isValidChar]; omega
    simp only [utf8Encode, encodeChar, toNat_ofNat_valid _ hv, ih s' hs']
    rw [if_neg (by omega), if_pos (by omega)]
    simp only [List.cons_append, List.nil_append, List.cons.injEq, and_true]
    omega
  | case4 => simp at h
  | case5 => simp at h
  | case6 b hb1 hb2 hb3 b1 b2 r' hc ih =>
    obtain ⟨s', hs', rfl⟩ := decode_cons h
    simp only [isCont, Bool.and_eq_true, Bool.or_eq_true, decide_eq_true_eq, ne_eq] at hb3 hc
    have hv : ((b - 224) * 4096 + (b1 - 128) * 64 + (b2 - 128)).isValidChar := by
      simp [Nat.isValidChar]; omega
    simp only [utf8Encode, encodeChar, toNat_ofNat_valid _ hv, ih s' hs']
    rw [if_neg (by omega), if_neg (by omega), if_pos (by omega)]
    simp only [List.cons_append, List.nil_append, List.cons.injEq, and_true]
    omega
  | case7 => simp at h
  | case8 => simp at h
  | case9 b hb1 hb2 hb3 hb4 b1 b2 b3 r' hc ih =>
    obtain ⟨s', hs', rfl⟩ := decode_cons h
    simp only [isCont, Bool.and_eq_true, Bool.or_eq_true, decide_eq_true_eq, ne_eq] at hb4 hc
    have hv : ((b - 240) * 262144 + (b1 - 128) * 4096 + (b2 - 128) * 64 + (b3 - 128)).isValidChar := by
      simp [Nat.isValidChar]; omega
    simp only [utf8Encode, encodeChar, toNat_ofNat_valid _ hv, ih s' hs']
    rw [if_neg (by omega), if_neg (by omega), if_neg (by omega)]
    simp only [List.cons_append, List.nil_append, List.cons.injEq, and_true]
    omega
  | case10 => simp at h
  | case11 => simp at h
  | case12 => simp at h

/-- `bytes.decode()` is injective on what it accepts -/
theorem utf8Decode_injective (xs ys : List Nat) (s : Str)
    (hx : utf8Decode xs = some s) (hy : utf8Decode ys = some s) : xs = ys := by
  rw [← utf8Encode_of_decode xs s hx, ← utf8Encode_of_decode ys s hy]

end CashewsVerif.KeyModel
