import CashewsVerif.Model.TtlFacade
import CashewsVerif.Lemmas.Ttl
/-
`ttl_to_seconds` (Model/Ttl.lean `Plain.ticks`) gives every spelling the duration it denotes.  The string cases are
C02's parser lemmas `ttlFromStr_render` / `ttlFromStr_digits` (Lemmas/Ttl.lean; Props/C02 `ttl_segments`,
`ttl_forms_agree` are their corollaries) - reused, not re-proved.
-/
namespace CashewsVerif.Ttl

theorem Denotes.ticks_eq {p : Plain} {t : Nat} (h : Denotes p t) : p.ticks = some t := by
  cases h with
  | int n => rfl
  | float t => rfl
  | delta d => rfl
  | segments segs => simp [Plain.ticks, ttlFromStr_render]
  | digits n => simp [Plain.ticks, ttlFromStr_digits]

theorem DenotesOpt.lower_eq {e : Option Plain} {t : Option Nat} (h : DenotesOpt e t) : lowerOpt e = some t := by
  cases h with
  | absent => rfl
  | given hd => simp [lowerOpt, hd.ticks_eq]

theorem DenotesAt.ticks_eq {args : Nat} {sp : Spelling} {t : Nat} (h : DenotesAt args sp t) : sp.ticks args 0 = some t := by
  cases h with
  | plain hd => simpa [Spelling.ticks] using hd.ticks_eq
  | callable hd => simpa [Spelling.ticks] using hd.ticks_eq

end CashewsVerif.Ttl

namespace CashewsVerif
open Ttl

theorem Spells.lower_eq {fop : FOp} {op : Op} (h : Spells fop op) : fop.lower = some op := by
  cases h with
  | set k v c hd => simp [FOp.lower, DenotesOpt.lower_eq hd]
  | setMany kvs hd => simp [FOp.lower, DenotesOpt.lower_eq hd]
  | expire k hd => simp [FOp.lower, hd.ticks_eq]
  | other op => rfl

theorem SpellsAll.mapM_lower {fops : List FOp} {ops : List Op} (h : SpellsAll fops ops) :
    fops.mapM FOp.lower = some ops := by
  induction h with
  | nil => rfl
  | cons hd _ ih => simp [List.mapM_cons, hd.lower_eq, ih]

end CashewsVerif
