import CashewsVerif.Lemmas.TxRefine
import CashewsVerif.Lemmas.TxWf
/-
Commit, rollback and lock release of the concrete transaction, in terms of the ideal maps.
-/
namespace CashewsVerif
open Store

namespace TtlMap

theorem foldl_remove_now (ks : List Key) : ∀ t : TtlMap, (ks.foldl remove t).now = t.now := by
  induction ks with
  | nil => intro t; rfl
  | cons k ks ih => intro t; simp only [List.foldl_cons]; rw [ih]; rfl

theorem find_foldl_remove (ks : List Key) : ∀ (t : TtlMap) (k : Key),
    (ks.foldl remove t).find k = if k ∈ ks then none else t.find k := by
  induction ks with
  | nil => intro t k; simp
  | cons k0 ks ih =>
    intro t k
    simp only [List.foldl_cons]
    rw [ih, find_remove]
    by_cases h1 : k ∈ ks
    · simp [h1]
    · by_cases h2 : k = k0 <;> simp [h1, h2]

/-- what `commitEntry` does to the ideal map -/
def commitT (now : Time) (t : TtlMap) (ke : Key × Entry) : TtlMap :=
  match ke.2.dl with
  | none => t.write ke.1 ke.2.val none
  | some d => if d ≤ now then t else t.write ke.1 ke.2.val (some (d - now))

theorem commitT_now (now : Time) (t : TtlMap) (ke : Key × Entry) : (commitT now t ke).now = t.now := by
  unfold commitT; split
  · rfl
  · split <;> rfl

theorem foldl_commitT_now (now : Time) (L : Store) : ∀ t : TtlMap, (L.foldl (commitT now) t).now = t.now := by
  induction L with
  | nil => intro t; rfl
  | cons ke L ih => intro t; simp only [List.foldl_cons]; rw [ih, commitT_now]

/-- the entry a committed overlay entry becomes -/
def committed (t : TtlMap) (k : Key) (e : Entry) : Entry :=
  ⟨e.val, match e.dl with
    | some d => some d
    | none => (t.find k).bind (·.dl)⟩

theorem find_commitT (t : TtlMap) (ke : Key × Entry) (k' : Key) :
    (commitT t.now t ke).find k' =
      if k' = ke.1 ∧ ke.2.live t.now = true then some (committed t ke.1 ke.2) else t.find k' := by
  obtain ⟨k, e⟩ := ke
  unfold commitT committed Entry.live
  cases hd : e.dl with
  | none =>
    simp only [find_write, writeDl, deadlineOf, and_true]
  | some d =>
    simp only
    by_cases hle : d ≤ t.now
    · have : ¬ t.now < d := by omega
      simp [hle, this]
    · have hlt : t.now < d := by omega
      have hdl : deadlineOf t.now (some (d - t.now)) = some d := by
        have : d - t.now = (d - t.now - 1) + 1 := by omega
        rw [this]; simp only [deadlineOf]; congr 1; omega
      simp only [hle, if_false, find_write, writeDl, hdl, hlt, decide_true, and_true]

theorem find_foldl_commitT (L : Store) (hnd : (keys L).Nodup) : ∀ (t : TtlMap) (k' : Key),
    (L.foldl (commitT t.now) t).find k' =
      match lookup L k' with
      | some e => if e.live t.now = true then some (committed t k' e) else t.find k'
      | none => t.find k' := by
  induction L with
  | nil => intro t k'; simp
  | cons ke L ih =>
    intro t k'
    obtain ⟨k, e⟩ := ke
    simp only [keys, List.map_cons, List.nodup_cons] at hnd
    have hnd' : (keys L).Nodup := hnd.2
    simp only [List.foldl_cons]
    have hnow : (commitT t.now t (k, e)).now = t.now := commitT_now _ _ _
    have := ih hnd' (commitT t.now t (k, e)) k'
    rw [hnow] at this
    rw [this]
    by_cases hk : k = k'
    · subst hk
      have hl : lookup L k = none := by
        cases hl : lookup L k with
        | none => rfl
        | some e' =>
          exact absurd ((mem_keys_iff_lookup L k).mpr (by simp [hl])) hnd.1
      simp only [hl, lookup, if_true, find_commitT, true_and]
    · have hk' : ¬ k' = k := fun h => hk h.symm
      simp only [lookup, hk, if_false]
      cases hl : lookup L k' with
      | none => simp only [find_commitT, hk', false_and, if_false]
      | some e' =>
        simp only [find_commitT, hk', false_and, if_false, committed]

end TtlMap

namespace Store

theorem lookup_of_mem_nodup {s : Store} (hnd : (keys s).Nodup) {k : Key} {e : Entry} (h : (k, e) ∈ s) :
    lookup s k = some e := by
  induction s with
  | nil => simp at h
  | cons p s ih =>
    obtain ⟨k0, e0⟩ := p
    simp only [keys, List.map_cons, List.nodup_cons] at hnd
    simp only [List.mem_cons, Prod.mk.injEq] at h
    rcases h with h | h
    · simp [lookup, h.1, h.2]
    · have hne : k0 ≠ k := by
        intro e'; subst e'
        exact hnd.1 (List.mem_map.mpr ⟨(k0, e), h, rfl⟩)
      simp only [lookup, hne, if_false]
      exact ih hnd.2 h

end Store

namespace TxSt

theorem mem_expiredKeys (now : Time) (s : Store) (k : Key) :
    k ∈ expiredKeys now s ↔ ∃ e, (k, e) ∈ s ∧ e.live now = false := by
  induction s with
  | nil => simp [expiredKeys]
  | cons p s ih =>
    obtain ⟨k0, e0⟩ := p
    unfold expiredKeys
    cases hd : e0.dl with
    | none =>
      simp only [ih, List.mem_cons, Prod.mk.injEq]
      constructor
      · rintro ⟨e, h1, h2⟩; exact ⟨e, Or.inr h1, h2⟩
      · rintro ⟨e, h1 | h1, h2⟩
        · rw [h1.2] at h2; simp [Entry.live, hd] at h2
        · exact ⟨e, h1, h2⟩
    | some d =>
      simp only
      by_cases hle : d ≤ now
      · simp only [hle, if_true, List.mem_cons, ih, Prod.mk.injEq]
        constructor
        · rintro (h | ⟨e, h1, h2⟩)
          · exact ⟨e0, Or.inl ⟨h, rfl⟩, by simp [Entry.live, hd]; omega⟩
          · exact ⟨e, Or.inr h1, h2⟩
        · rintro ⟨e, h1 | h1, h2⟩
          · exact Or.inl h1.1
          · exact Or.inr ⟨e, h1, h2⟩
      · simp only [hle, if_false, ih, List.mem_cons, Prod.mk.injEq]
        constructor
        · rintro ⟨e, h1, h2⟩; exact ⟨e, Or.inr h1, h2⟩
        · rintro ⟨e, h1 | h1, h2⟩
          · rw [h1.2] at h2; simp [Entry.live, hd] at h2; omega
          · exact ⟨e, h1, h2⟩

theorem commitEntry_good {K : List Key} {b : Mem} {t : TtlMap} (g : Good K b t) (ke : Key × Entry) (hk : ke.1 ∈ K) :
    Good K (commitEntry t.now b ke) (TtlMap.commitT t.now t ke) := by
  unfold commitEntry TtlMap.commitT
  cases hd : ke.2.dl with
  | none => exact Mem.good_rawSet g hk _ _
  | some d =>
    simp only
    split
    · exact g
    · exact Mem.good_rawSet g hk _ _

theorem foldl_commitEntry_good {K : List Key} (L : Store) (hL : ∀ ke ∈ L, ke.1 ∈ K) :
    ∀ {b : Mem} {t : TtlMap}, Good K b t →
    Good K (L.foldl (commitEntry t.now) b) (L.foldl (TtlMap.commitT t.now) t) := by
  induction L with
  | nil => intro b t g; exact g
  | cons ke L ih =>
    intro b t g
    simp only [List.foldl_cons]
    have g1 := commitEntry_good g ke (hL ke (by simp))
    have := ih (fun ke' h' => hL ke' (by simp [h'])) g1
    rw [TtlMap.commitT_now] at this
    exact this

variable {K : List Key} {P : Option Time → Prop} {st : TxSt} {a : ATx} {tb : TtlMap}

theorem clocks (h : TxRef K P st a tb) (hw : a.Wf) :
    st.ov.now = tb.now ∧ st.b.now = tb.now ∧ a.ov.now = tb.now := by
  have h1 := h.ov.ref.1
  have h2 := h.b.ref.1
  have h3 := hw.clock
  have h4 := h.bnow
  omega

/-- **commit, on the ideal maps**: the backend after `commitBase` is, on user keys, the point-wise commit of
the abstract transaction whose pending deletes are extended by the overlay keys that had already
expired; reserved keys are untouched. -/
theorem commitBase_refines (h : TxRef K P st a tb) (hw : a.Wf) :
    ∃ tb', Good K st.commitBase.b tb' ∧ tb'.now = tb.now ∧
      (∀ k, reserved k = true → tb'.find k = tb.find k) ∧
      (∀ k, reserved k = false →
        tb'.find k = ({ a with del := a.del ++ expiredKeys st.b.now st.ov.store } : ATx).commitAt k) := by
  obtain ⟨c1, c2, c3⟩ := clocks h hw
  let X := expiredKeys st.b.now st.ov.store
  let t1 := (st.del ++ X).foldl TtlMap.remove tb
  have ht1now : t1.now = tb.now := TtlMap.foldl_remove_now _ _
  have g1 : Good K ((st.del ++ X).foldl (fun s k => (s.rawDelete k).1) st.b) t1 := Mem.good_deleteMany _ h.b
  have hL : ∀ ke ∈ st.ov.store, ke.1 ∈ K := fun ke hke =>
    h.ov.within.2 ke.1 (List.mem_map.mpr ⟨ke, hke, rfl⟩)
  have g2 := foldl_commitEntry_good st.ov.store hL g1
  rw [ht1now, ← c2] at g2
  have hfind := TtlMap.find_foldl_commitT st.ov.store h.ov.within.1 t1
  rw [ht1now, ← c2] at hfind
  have hview : ∀ k, a.ov.find k = (lookup st.ov.store k).filter (·.live st.b.now) := by
    intro k; rw [← h.ov.ref.2 k]; unfold Mem.view; rw [c1, ← c2]
  have hX : ∀ k e, lookup st.ov.store k = some e → e.live st.b.now = false → k ∈ X :=
    fun k e hl hlive => (mem_expiredKeys _ _ _).mpr ⟨e, mem_of_lookup hl, hlive⟩
  have hXuser : ∀ k ∈ X, reserved k = false := by
    intro k hk
    obtain ⟨e, he, _⟩ := (mem_expiredKeys _ _ _).mp hk
    exact (h.fresh _ he).1
  refine ⟨_, g2, by rw [TtlMap.foldl_commitT_now, ht1now], ?_, ?_⟩
  · intro k hr
    rw [hfind]
    have hov : a.ov.find k = none := hw.ovUser k hr
    have hnd : k ∉ st.del ++ X := by
      intro hmem
      rcases List.mem_append.mp hmem with h1 | h1
      · have := hw.delUser k (h.del ▸ h1); rw [hr] at this; exact absurd this (by simp)
      · have := hXuser k h1; rw [hr] at this; exact absurd this (by simp)
    have ht1 : t1.find k = tb.find k := by
      show ((st.del ++ X).foldl TtlMap.remove tb).find k = _
      rw [TtlMap.find_foldl_remove, if_neg hnd]
    rw [hview] at hov
    cases hl : lookup st.ov.store k with
    | none => simp only [ht1]
    | some e =>
      rw [hl] at hov
      by_cases hlive : e.live st.b.now
      · simp [Option.filter, hlive] at hov
      · simp only [hlive, Bool.false_eq_true, if_false, ht1]
  · intro k hr
    rw [hfind]
    have ht1 : t1.find k = if k ∈ a.del ++ X then none else tb.find k := by
      show ((st.del ++ X).foldl TtlMap.remove tb).find k = _
      rw [TtlMap.find_foldl_remove, h.del]
    unfold ATx.commitAt
    simp only
    rw [hview, ← h.user k hr]
    cases hl : lookup st.ov.store k with
    | none => simp only [Option.filter_none, ht1]; rfl
    | some e =>
      by_cases hlive : e.live st.b.now
      · simp only [hlive, if_true, Option.filter, TtlMap.committed, ht1]
        congr 2
        cases e.dl with
        | some d => rfl
        | none => simp only; split <;> simp
      · have hlive' : e.live st.b.now = false := by simpa using hlive
        have hin : k ∈ a.del ++ X := List.mem_append.mpr (Or.inr (hX k e hl hlive'))
        simp only [hlive', Bool.false_eq_true, if_false, Option.filter, ht1, hin, if_true]
        exact (if_pos hin).symm

/-- releasing the locks removes exactly the lock keys that still carry this transaction's token -/
theorem unlock_refines (id : Nat) (ls : List Key) : ∀ {b : Mem} {tb : TtlMap}, Good K b tb → (∀ lk ∈ ls, lk ∈ K) →
    ∃ tb', Good K (ls.foldl (unlockOne id) b) tb' ∧ tb'.now = tb.now ∧
      ∀ k, tb'.find k = if k ∈ ls ∧ (tb.find k).map (·.val) = some (.tok id) then none else tb.find k := by
  induction ls with
  | nil => intro b tb g _; exact ⟨tb, g, rfl, fun k => by simp⟩
  | cons lk ls ih =>
    intro b tb g hk
    have g1 := Mem.good_rawGet g lk
    simp only [List.foldl_cons]
    by_cases hv : (tb.find lk).map (·.val) = some (.tok id)
    · have hu : unlockOne id b lk = ((b.rawGet lk).1.rawDelete lk).1 := by
        unfold unlockOne; rw [g1.2, if_pos hv]
      rw [hu]
      obtain ⟨tb', g', hn, hf⟩ := ih (Mem.good_rawDelete g1.1 lk).1 (fun lk' h' => hk lk' (by simp [h']))
      refine ⟨tb', g', by rw [hn]; rfl, fun k => ?_⟩
      rw [hf, TtlMap.find_remove]
      by_cases hkk : k = lk
      · subst hkk; simp [hv]
      · simp [hkk]
    · have hu : unlockOne id b lk = (b.rawGet lk).1 := by
        unfold unlockOne; rw [g1.2, if_neg hv]
      rw [hu]
      obtain ⟨tb', g', hn, hf⟩ := ih g1.1 (fun lk' h' => hk lk' (by simp [h']))
      refine ⟨tb', g', hn, fun k => ?_⟩
      rw [hf]
      by_cases hkk : k = lk
      · subst hkk; simp [hv]
      · simp [hkk]

/-- after `_unlock_updates` under the lock invariant: no reserved key is live, user keys are untouched -/
theorem unlockAll_core {st : TxSt} {tb : TtlMap} (g : Good K st.b tb)
    (hlocks : ∀ k, reserved k = true →
      tb.find k = none ∨ (k ∈ st.locks ∧ (tb.find k).map (·.val) = some (.tok st.lockId)))
    (hkeys : ∀ lk ∈ st.locks, lk ∈ K ∧ reserved lk = true) :
    ∃ tb', Good K st.unlockAll.b tb' ∧ tb'.now = tb.now ∧
      (∀ k, reserved k = true → tb'.find k = none) ∧ (∀ k, reserved k = false → tb'.find k = tb.find k) := by
  obtain ⟨tb', g', hn, hf⟩ := unlock_refines st.lockId st.locks g (fun lk hl => (hkeys lk hl).1)
  refine ⟨tb', g', hn, fun k hr => ?_, fun k hr => ?_⟩
  · rw [hf]
    rcases hlocks k hr with h1 | h1
    · simp [h1]
    · simp [h1.1, h1.2]
  · rw [hf]
    have : k ∉ st.locks := fun hin => by
      have := (hkeys k hin).2; rw [hr] at this; exact absurd this (by simp)
    simp [this]

/-- **commit in any mode**: user keys hold the point-wise commit, no lock key survives -/
theorem commit_refines (h : TxRef K P st a tb) (hw : a.Wf) :
    ∃ tb', Good K st.commit.b tb' ∧ tb'.now = tb.now ∧
      (∀ k, reserved k = true → tb'.find k = none) ∧
      (∀ k, reserved k = false →
        tb'.find k = ({ a with del := a.del ++ expiredKeys st.b.now st.ov.store } : ATx).commitAt k) := by
  obtain ⟨tb1, g1, hn1, hres1, huser1⟩ := commitBase_refines h hw
  have hlocks : ∀ k, reserved k = true →
      tb1.find k = none ∨ (k ∈ st.commitBase.locks ∧ (tb1.find k).map (·.val) = some (.tok st.commitBase.lockId)) := by
    intro k hr; rw [hres1 k hr]; exact h.locks k hr
  obtain ⟨tb2, g2, hn2, hres2, huser2⟩ := unlockAll_core (st := st.commitBase) g1 hlocks h.lockKeys
  exact ⟨tb2, g2, by rw [hn2, hn1], hres2, fun k hr => by rw [huser2 k hr, huser1 k hr]⟩

/-- **rollback in any mode**: user keys are what they were, no lock key survives -/
theorem rollback_refines (h : TxRef K P st a tb) :
    ∃ tb', Good K st.rollback.b tb' ∧ tb'.now = tb.now ∧
      (∀ k, reserved k = true → tb'.find k = none) ∧ (∀ k, reserved k = false → tb'.find k = a.b.find k) := by
  obtain ⟨tb2, g2, hn2, hres2, huser2⟩ := unlockAll_core (st := st.clearLocal) h.b h.locks h.lockKeys
  exact ⟨tb2, g2, hn2, hres2, fun k hr => by rw [huser2 k hr, h.user k hr]⟩

theorem expiredKeys_nil {now : Time} {s : Store} (h : ∀ ke ∈ s, ke.2.live now = true) : expiredKeys now s = [] := by
  cases hx : expiredKeys now s with
  | nil => rfl
  | cons k ks =>
    have : k ∈ expiredKeys now s := by rw [hx]; simp
    obtain ⟨e, he, hl⟩ := (mem_expiredKeys _ _ _).mp this
    rw [h _ he] at hl; exact absurd hl (by simp)

end TxSt
end CashewsVerif
