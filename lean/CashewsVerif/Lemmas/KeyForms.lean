import CashewsVerif.Lemmas.Key
/-
Call forms (C08, part 1): leaving out a keyword argument that equals the parameter's default does not
change the call's bound arguments after `apply_defaults`.
-/
namespace CashewsVerif.KeyModel

/-! ## item lists -/

theorem get?_erase_self {α : Type} (l : List (Str × α)) (n : Str) : get? (erase l n) n = none := by
  induction l with
  | nil => rfl
  | cons x r ih =>
    obtain ⟨k, v⟩ := x
    simp only [erase]
    split
    · exact ih
    · rename_i hk
      simp [get?, hk, ih]

theorem get?_erase_ne {α : Type} (l : List (Str × α)) (n m : Str) (h : m ≠ n) :
    get? (erase l n) m = get? l m := by
  induction l with
  | nil => rfl
  | cons x r ih =>
    obtain ⟨k, v⟩ := x
    simp only [erase]
    split
    · rename_i hk
      subst hk
      simp [get?, ih, Ne.symm h]
    · simp [get?, ih]

theorem erase_of_get?_none {α : Type} (l : List (Str × α)) (n : Str) (h : get? l n = none) :
    erase l n = l := by
  induction l with
  | nil => rfl
  | cons x r ih =>
    obtain ⟨k, v⟩ := x
    simp only [get?] at h
    split at h
    · simp at h
    · rename_i hk
      simp [erase, hk, ih h]

theorem erase_comm {α : Type} (l : List (Str × α)) (n m : Str) :
    erase (erase l n) m = erase (erase l m) n := by
  induction l with
  | nil => rfl
  | cons x r ih =>
    obtain ⟨k, v⟩ := x
    by_cases h1 : k = n
    · subst h1
      by_cases h2 : k = m
      · subst h2; simp [erase]
      · simp [erase, h2, ih]
    · by_cases h2 : k = m
      · subst h2; simp [erase, h1, ih]
      · simp [erase, h1, h2, ih]

theorem get?_erase_none {α : Type} (l : List (Str × α)) (n m : Str) (h : get? l m = none) :
    get? (erase l n) m = none := by
  by_cases hm : m = n
  · subst hm; exact get?_erase_self l m
  · rw [get?_erase_ne l n m hm]; exact h

/-! ## the positional loop does not look at a keyword argument of a defaulted parameter it does not consume -/

theorem bindPos_erase (kw : Dict) (n : Str) (ps : List Param) (as : List PyVal) (r : Bound × List Param)
    (h : bindPos false kw ps as = some r)
    (hd : ∀ q ∈ ps, q.name = n → q.dflt.isSome = true) :
    bindPos false (erase kw n) ps as = some r := by
  induction ps generalizing as r with
  | nil => cases as <;> simp_all [bindPos]
  | cons p rest ih =>
    cases as with
    | nil =>
      simp only [bindPos] at h ⊢
      by_cases hk : p.kind = .varPos
      · simpa [hk] using h
      · simp only [hk, if_false] at h ⊢
        by_cases hn : p.name = n
        · have := hd p (by simp) hn
          simp only [this, Bool.or_true, Bool.true_or, if_true] at h ⊢
          exact h
        · rw [get?_erase_ne kw n p.name hn]
          exact h
    | cons a as' =>
      simp only [bindPos] at h ⊢
      split
      all_goals (rename_i hk; simp only [hk] at h)
      · exact h
      · exact h
      · exact h
      · split at h
        · simp at h
        · rename_i hg
          have hg' : (get? kw p.name) = none := by
            cases hh : get? kw p.name with
            | none => rfl
            | some _ => simp [hh] at hg
          rw [get?_erase_none kw n p.name hg']
          simp only [Option.isSome_none, Bool.false_eq_true, if_false]
          cases hb : bindPos false kw rest as' with
          | none => simp [hb] at h
          | some br =>
            rw [ih as' br hb (fun q hq => hd q (by simp [hq]))]
            simpa [hb] using h

/-- what the positional loop binds are parameters that were *not* given by keyword, or `*args` -/
theorem bindPos_names (pt : Bool) (kw : Dict) (ps : List Param) (as : List PyVal) (b : Bound) (rest : List Param)
    (h : bindPos pt kw ps as = some (b, rest)) (m : Str) (hm : get? b m ≠ none) :
    ∃ q ∈ ps, q.name = m ∧ (q.kind = .varPos ∨ get? kw m = none) := by
  induction ps generalizing as b rest with
  | nil => cases as <;> simp_all [bindPos, get?]
  | cons p ps' ih =>
    cases as with
    | nil =>
      simp only [bindPos] at h
      split at h
      · simp at h; obtain ⟨rfl, _⟩ := h; simp [get?] at hm
      · split at h
        · simp at h; obtain ⟨rfl, _⟩ := h; simp [get?] at hm
        · simp at h
    | cons a as' =>
      simp only [bindPos] at h
      split at h
      · simp at h
      · simp at h
      · rename_i hk
        simp at h
        obtain ⟨rfl, _⟩ := h
        simp only [get?] at hm
        split at hm
        · rename_i e; exact ⟨p, by simp, e, Or.inl hk⟩
        · simp at hm
      · split at h
        · simp at h
        · rename_i hg
          cases hb : bindPos pt kw ps' as' with
          | none => simp [hb] at h
          | some br =>
            simp only [hb, Option.map_some, Option.some.injEq, Prod.mk.injEq] at h
            obtain ⟨rfl, _⟩ := h
            simp only [get?] at hm
            split at hm
            · rename_i e
              refine ⟨p, by simp, e, Or.inr ?_⟩
              cases hh : get? kw p.name with
              | none => rw [← e]; exact hh
              | some _ => simp [hh] at hg
            · obtain ⟨q, hq, h1, h2⟩ := ih as' br.1 br.2 (by simp [hb]) hm
              exact ⟨q, by simp [hq], h1, h2⟩

/-- the parameters left for the keyword loop are a suffix that still contains every plain parameter
that was given by keyword -/
theorem bindPos_rest (pt : Bool) (kw : Dict) (ps : List Param) (as : List PyVal) (b : Bound) (rest : List Param)
    (h : bindPos pt kw ps as = some (b, rest)) :
    (∀ q ∈ rest, q ∈ ps) ∧ ∀ q ∈ ps, q.kind ≠ .varPos → (get? kw q.name).isSome = true → q ∈ rest := by
  induction ps generalizing as b rest with
  | nil => cases as <;> simp_all [bindPos]
  | cons p ps' ih =>
    cases as with
    | nil =>
      simp only [bindPos] at h
      split at h
      · rename_i hk
        simp at h; obtain ⟨_, rfl⟩ := h
        refine ⟨fun q hq => by simp [hq], fun q hq hkq _ => ?_⟩
        simp only [List.mem_cons] at hq
        rcases hq with rfl | hq
        · exact absurd hk hkq
        · exact hq
      · split at h
        · simp at h; obtain ⟨_, rfl⟩ := h
          exact ⟨fun q hq => hq, fun q hq _ _ => hq⟩
        · simp at h
    | cons a as' =>
      simp only [bindPos] at h
      split at h
      · simp at h
      · simp at h
      · rename_i hk
        simp at h
        obtain ⟨_, rfl⟩ := h
        refine ⟨fun q hq => by simp [hq], fun q hq hkq _ => ?_⟩
        simp only [List.mem_cons] at hq
        rcases hq with rfl | hq
        · exact absurd hk hkq
        · exact hq
      · split at h
        · simp at h
        · rename_i hg
          cases hb : bindPos pt kw ps' as' with
          | none => simp [hb] at h
          | some br =>
            simp only [hb, Option.map_some, Option.some.injEq, Prod.mk.injEq] at h
            obtain ⟨_, rfl⟩ := h
            obtain ⟨i1, i2⟩ := ih as' br.1 br.2 (by simp [hb])
            refine ⟨fun q hq => by simp [i1 q hq], fun q hq hkq hs => ?_⟩
            simp only [List.mem_cons] at hq
            rcases hq with rfl | hq
            · simp [hs] at hg
            · exact i2 q hq hkq hs

/-! ## the keyword loop -/

/-- what is left over was among the keyword arguments -/
theorem bindKw_left (pt : Bool) (ps : List Param) (kw : Dict) (kp : Option Str) (b : Bound) (left : Dict) (kp' : Option Str)
    (h : bindKw pt ps kw kp = some (b, left, kp')) (m : Str) (hm : get? kw m = none) : get? left m = none := by
  induction ps generalizing kw kp b with
  | nil => simp [bindKw] at h; obtain ⟨_, rfl, _⟩ := h; exact hm
  | cons p rest ih =>
    unfold bindKw at h
    split at h
    · exact ih _ _ _ h hm
    · exact ih _ _ _ h hm
    · split at h
      · cases hb : bindKw pt rest (erase kw p.name) kp with
        | none => simp [hb] at h
        | some br =>
          simp only [hb, Option.map_some, Option.some.injEq, Prod.mk.injEq] at h
          obtain ⟨_, h2⟩ := h
          have : br.2 = (left, kp') := h2
          exact ih (erase kw p.name) kp br.1 (by rw [hb]; congr 1; exact Prod.ext rfl this) (get?_erase_none kw p.name m hm)
      · split at h
        · simp at h
        · exact ih _ _ _ h hm

theorem bindKw_erase (n : Str) (ps : List Param) (kw : Dict) (kp : Option Str) (b : Bound) (left : Dict) (kp' : Option Str)
    (h : bindKw false ps kw kp = some (b, left, kp'))
    (hd : ∀ q ∈ ps, q.name = n → q.dflt.isSome = true) :
    ∃ b', bindKw false ps (erase kw n) kp = some (b', erase left n, kp') ∧ ∀ m, m ≠ n → get? b' m = get? b m := by
  induction ps generalizing kw kp b with
  | nil =>
    simp [bindKw] at h
    obtain ⟨rfl, rfl, rfl⟩ := h
    exact ⟨[], by simp [bindKw], fun _ _ => rfl⟩
  | cons p rest ih =>
    have hd' : ∀ q ∈ rest, q.name = n → q.dflt.isSome = true := fun q hq => hd q (by simp [hq])
    unfold bindKw at h ⊢
    split
    · rename_i hk
      simp only [hk] at h
      exact ih _ _ _ h hd'
    · rename_i hk
      simp only [hk] at h
      exact ih _ _ _ h hd'
    · rename_i hk1 hk2
      split at h
      · exact absurd ‹_› hk1
      · exact absurd ‹_› hk2
      · by_cases hn : p.name = n
        · -- the parameter whose keyword argument is dropped
          rw [hn, get?_erase_self]
          have hdp := hd p (by simp) hn
          simp only [Bool.not_false, Bool.true_and, Option.isNone_iff_eq_none]
          cases hdf : p.dflt with
          | none => simp [hdf] at hdp
          | some dv =>
            simp only [reduceCtorEq, if_false]
            rw [hn] at h
            cases hg : get? kw n with
            | some w =>
              simp only [hg] at h
              cases hb : bindKw false rest (erase kw n) kp with
              | none => simp [hb] at h
              | some br =>
                simp only [hb, Option.map_some, Option.some.injEq, Prod.mk.injEq] at h
                obtain ⟨rfl, h2⟩ := h
                have h2' : br = (br.1, left, kp') := Prod.ext rfl h2
                have hl : get? left n = none :=
                  bindKw_left false rest (erase kw n) kp br.1 left kp' (by rw [hb, ← h2']) n (get?_erase_self kw n)
                refine ⟨br.1, by rw [erase_of_get?_none left n hl, ← h2'], fun m hm => ?_⟩
                simp [get?, Ne.symm hm]
            | none =>
              simp only [hg, hdf] at h
              simp only [Bool.not_false, Bool.true_and, Option.isNone_some, Bool.false_eq_true, if_false] at h
              have hl : get? left n = none := bindKw_left false rest kw kp b left kp' h n hg
              rw [erase_of_get?_none kw n hg, erase_of_get?_none left n hl]
              exact ⟨b, h, fun _ _ => rfl⟩
        · rw [get?_erase_ne kw n p.name hn]
          cases hg : get? kw p.name with
          | some w =>
            simp only [hg] at h ⊢
            cases hb : bindKw false rest (erase kw p.name) kp with
            | none => simp [hb] at h
            | some br =>
              simp only [hb, Option.map_some, Option.some.injEq, Prod.mk.injEq] at h
              obtain ⟨rfl, h2⟩ := h
              have h2' : br = (br.1, left, kp') := Prod.ext rfl h2
              obtain ⟨b', e1, e2⟩ := ih (erase kw p.name) kp br.1 (by rw [hb, ← h2']) hd'
              rw [erase_comm kw n p.name, e1]
              refine ⟨(p.name, .one w) :: b', rfl, fun m hm => ?_⟩
              simp only [get?]
              split
              · rfl
              · exact e2 m hm
          | none =>
            simp only [hg] at h ⊢
            split at h
            · simp at h
            · rename_i hc
              rw [if_neg hc]
              exact ih _ _ _ h hd'

/-- a keyword argument that is not there is not bound -/
theorem bindKw_bound_none (pt : Bool) (ps : List Param) (kw : Dict) (kp : Option Str) (b : Bound) (left : Dict) (kp' : Option Str)
    (h : bindKw pt ps kw kp = some (b, left, kp')) (m : Str) (hm : get? kw m = none) : get? b m = none := by
  induction ps generalizing kw kp b with
  | nil => simp [bindKw] at h; obtain ⟨rfl, _, _⟩ := h; rfl
  | cons p rest ih =>
    unfold bindKw at h
    split at h
    · exact ih _ _ _ h hm
    · exact ih _ _ _ h hm
    · split at h
      · rename_i w hw
        cases hb : bindKw pt rest (erase kw p.name) kp with
        | none => simp [hb] at h
        | some br =>
          simp only [hb, Option.map_some, Option.some.injEq, Prod.mk.injEq] at h
          obtain ⟨rfl, h2⟩ := h
          have h2' : br = (br.1, left, kp') := Prod.ext rfl h2
          have hne : p.name ≠ m := by
            intro e; rw [e, hm] at hw; simp at hw
          simp only [get?, hne, if_false]
          exact ih (erase kw p.name) kp br.1 (by rw [hb, ← h2']) (get?_erase_none kw p.name m hm)
      · split at h
        · simp at h
        · exact ih _ _ _ h hm

/-- the first plain parameter called `n` takes the keyword argument `n` -/
theorem bindKw_bound_some (pt : Bool) (n : Str) (ps : List Param) (kw : Dict) (kp : Option Str) (b : Bound) (left : Dict) (kp' : Option Str)
    (h : bindKw pt ps kw kp = some (b, left, kp'))
    (hq : ∃ q ∈ ps, q.name = n ∧ q.kind ≠ .varPos ∧ q.kind ≠ .varKw) :
    get? b n = (get? kw n).map .one ∧ get? left n = none := by
  induction ps generalizing kw kp b with
  | nil => simp at hq
  | cons p rest ih =>
    obtain ⟨q, hqm, hqn, hq1, hq2⟩ := hq
    unfold bindKw at h
    split at h
    · rename_i hk
      have : q ∈ rest := by
        simp only [List.mem_cons] at hqm
        rcases hqm with rfl | hqm
        · exact absurd hk hq2
        · exact hqm
      exact ih _ _ _ h ⟨q, this, hqn, hq1, hq2⟩
    · rename_i hk
      have : q ∈ rest := by
        simp only [List.mem_cons] at hqm
        rcases hqm with rfl | hqm
        · exact absurd hk hq1
        · exact hqm
      exact ih _ _ _ h ⟨q, this, hqn, hq1, hq2⟩
    · by_cases hn : p.name = n
      · subst hn
        split at h
        · rename_i w hw
          cases hb : bindKw pt rest (erase kw p.name) kp with
          | none => simp [hb] at h
          | some br =>
            simp only [hb, Option.map_some, Option.some.injEq, Prod.mk.injEq] at h
            obtain ⟨rfl, h2⟩ := h
            have h2' : br = (br.1, left, kp') := Prod.ext rfl h2
            refine ⟨by simp [get?, hw], ?_⟩
            exact bindKw_left pt rest (erase kw p.name) kp br.1 left kp' (by rw [hb, ← h2']) p.name (get?_erase_self kw p.name)
        · rename_i hw
          split at h
          · simp at h
          · rw [hw]
            exact ⟨bindKw_bound_none pt rest kw kp b left kp' h p.name hw, bindKw_left pt rest kw kp b left kp' h p.name hw⟩
      · have hqr : q ∈ rest := by
          simp only [List.mem_cons] at hqm
          rcases hqm with rfl | hqm
          · exact absurd hqn hn
          · exact hqm
        split at h
        · rename_i w hw
          cases hb : bindKw pt rest (erase kw p.name) kp with
          | none => simp [hb] at h
          | some br =>
            simp only [hb, Option.map_some, Option.some.injEq, Prod.mk.injEq] at h
            obtain ⟨rfl, h2⟩ := h
            have h2' : br = (br.1, left, kp') := Prod.ext rfl h2
            have := ih (erase kw p.name) kp br.1 (by rw [hb, ← h2']) ⟨q, hqr, hqn, hq1, hq2⟩
            rw [get?_erase_ne kw p.name n (Ne.symm hn)] at this
            exact ⟨by simp [get?, hn, this.1], this.2⟩
        · split at h
          · simp at h
          · exact ih _ _ _ h ⟨q, hqr, hqn, hq1, hq2⟩

/-- the `**kwargs` parameter the keyword loop reports is one of the parameters it saw -/
theorem bindKw_kwparam (pt : Bool) (ps : List Param) (kw : Dict) (kp : Option Str) (b : Bound) (left : Dict) (kp' : Option Str)
    (h : bindKw pt ps kw kp = some (b, left, kp')) :
    kp' = kp ∨ ∃ q ∈ ps, q.kind = .varKw ∧ kp' = some q.name := by
  induction ps generalizing kw kp b with
  | nil => simp [bindKw] at h; exact Or.inl h.2.2.symm
  | cons p rest ih =>
    have lift : ∀ kw kp b, bindKw pt rest kw kp = some (b, left, kp') → kp' = kp ∨ ∃ q ∈ p :: rest, q.kind = .varKw ∧ kp' = some q.name := by
      intro kw kp b hh
      rcases ih kw kp b hh with e | ⟨q, hq, h1, h2⟩
      · exact Or.inl e
      · exact Or.inr ⟨q, by simp [hq], h1, h2⟩
    unfold bindKw at h
    split at h
    · rename_i hk
      rcases ih _ _ _ h with e | ⟨q, hq, h1, h2⟩
      · exact Or.inr ⟨p, by simp, hk, e⟩
      · exact Or.inr ⟨q, by simp [hq], h1, h2⟩
    · exact lift _ _ _ h
    · split at h
      · cases hb : bindKw pt rest (erase kw p.name) kp with
        | none => simp [hb] at h
        | some br =>
          simp only [hb, Option.map_some, Option.some.injEq, Prod.mk.injEq] at h
          obtain ⟨_, h2⟩ := h
          have h2' : br = (br.1, left, kp') := Prod.ext rfl h2
          exact lift (erase kw p.name) kp br.1 (by rw [hb, ← h2'])
      · split at h
        · simp at h
        · exact lift _ _ _ h

/-! ## `apply_defaults` only looks parameters up by name -/

/-- what `apply_defaults` leaves for parameter `q` -/
def entryOf (q : Param) (b : Bound) : Option BVal :=
  match get? b q.name with
  | some v => some v
  | none =>
    match q.dflt with
    | some d => some (.one d)
    | none =>
      match q.kind with
      | .varPos => some (.star [])
      | .varKw => some (.kw [])
      | _ => none

theorem applyDefaults_congr (sig : Sig) (b b' : Bound) (h : ∀ q ∈ sig, entryOf q b = entryOf q b') :
    applyDefaults sig b = applyDefaults sig b' := by
  induction sig with
  | nil => rfl
  | cons p rest ih =>
    have hp := h p (by simp)
    have ihr := ih (fun q hq => h q (by simp [hq]))
    unfold entryOf at hp
    unfold applyDefaults
    cases h1 : get? b p.name <;> cases h2 : get? b' p.name <;> simp only [h1, h2] at hp ⊢
    · cases hd : p.dflt with
      | some d => simp [ihr]
      | none => cases hk : p.kind <;> simp [ihr]
    · cases hd : p.dflt with
      | some d => simp only [hd] at hp; simp at hp; simp [← hp, ihr]
      | none =>
        simp only [hd] at hp
        cases hk : p.kind <;> simp only [hk] at hp <;> simp at hp <;> simp [← hp, ihr]
    · cases hd : p.dflt with
      | some d => simp only [hd] at hp; simp at hp; simp [hp, ihr]
      | none =>
        simp only [hd] at hp
        cases hk : p.kind <;> simp only [hk] at hp <;> simp at hp <;> simp [hp, ihr]
    · simp at hp
      simp [hp, ihr]

theorem name_inj_of_nodup (sig : Sig) (hnd : (sig.map (·.name)).Nodup) (p q : Param) (hp : p ∈ sig) (hq : q ∈ sig)
    (h : p.name = q.name) : p = q := by
  induction sig with
  | nil => simp at hp
  | cons x rest ih =>
    simp only [List.map_cons, List.nodup_cons, List.mem_map, not_exists, not_and] at hnd
    simp only [List.mem_cons] at hp hq
    rcases hp with rfl | hp <;> rcases hq with rfl | hq
    · rfl
    · exact absurd h.symm (hnd.1 q hq)
    · exact absurd h (hnd.1 p hp)
    · exact ih hnd.2 hp hq

/-- **Omitting a keyword argument that equals the parameter's default** leaves the bound arguments
(after `apply_defaults`) unchanged — for every signature with distinct parameter names. -/
theorem boundArgs_omit_default (sig : Sig) (hnd : (sig.map (·.name)).Nodup) (args : List PyVal) (kw : Dict)
    (p : Param) (hp : p ∈ sig) (hk : p.kind = .pos ∨ p.kind = .kwOnly) (v : PyVal) (hdf : p.dflt = some v)
    (hkw : get? kw p.name = some v) (hb : boundArgs sig ⟨args, kw⟩ ≠ none) :
    boundArgs sig ⟨args, erase kw p.name⟩ = boundArgs sig ⟨args, kw⟩ := by
  have hk1 : p.kind ≠ .varPos := by rcases hk with h | h <;> simp [h]
  have hk2 : p.kind ≠ .varKw := by rcases hk with h | h <;> simp [h]
  have hd : ∀ q ∈ sig, q.name = p.name → q.dflt.isSome = true := by
    intro q hq e
    rw [name_inj_of_nodup sig hnd q p hq hp e, hdf]; rfl
  unfold boundArgs bind at hb ⊢
  simp only at hb ⊢
  cases h1 : bindPos false kw sig args with
  | none => simp [h1] at hb
  | some r1 =>
    obtain ⟨b1, rest⟩ := r1
    rw [bindPos_erase kw p.name sig args (b1, rest) h1 hd]
    simp only [h1] at hb ⊢
    obtain ⟨rsub, rmem⟩ := bindPos_rest false kw sig args b1 rest h1
    have hprest : p ∈ rest := rmem p hp hk1 (by simp [hkw])
    cases h2 : bindKw false rest kw none with
    | none => simp [h2] at hb
    | some r2 =>
      obtain ⟨b2, left, kp⟩ := r2
      obtain ⟨b2', e1, e2⟩ := bindKw_erase p.name rest kw none b2 left kp h2 (fun q hq => hd q (rsub q hq))
      obtain ⟨g1, g2⟩ := bindKw_bound_some false p.name rest kw none b2 left kp h2 ⟨p, hprest, rfl, hk1, hk2⟩
      rw [erase_of_get?_none left p.name g2] at e1
      rw [e1]
      simp only [h2] at hb ⊢
      have hb1 : get? b1 p.name = none := by
        cases hh : get? b1 p.name with
        | none => rfl
        | some x =>
          obtain ⟨q, hq, qn, qk⟩ := bindPos_names false kw sig args b1 rest h1 p.name (by simp [hh])
          have := name_inj_of_nodup sig hnd q p hq hp qn
          subst this
          rcases qk with qk | qk
          · exact absurd qk hk1
          · rw [hkw] at qk; simp at qk
      have hb2' : get? b2' p.name = none :=
        bindKw_bound_none false rest (erase kw p.name) none b2' left kp e1 p.name (get?_erase_self kw p.name)
      -- the two bindings agree on every parameter of the signature once defaults are applied
      have agree : ∀ (tail : Bound), get? tail p.name = none → ∀ q ∈ sig,
          entryOf q (b1 ++ b2' ++ tail) = entryOf q (b1 ++ b2 ++ tail) := by
        intro tail ht q hq
        by_cases hqn : q.name = p.name
        · have := name_inj_of_nodup sig hnd q p hq hp hqn
          subst this
          simp [entryOf, get?_append, hb1, hb2', g1, hkw, ht, hdf]
        · simp [entryOf, get?_append, e2 q.name hqn]
      by_cases hl : left.isEmpty = true
      · simp only [hl, if_true]
        have := applyDefaults_congr sig _ _ (agree [] rfl)
        simpa using congrArg some this
      · simp only [hl]
        cases kp with
        | none => rfl
        | some nkw =>
          have hne : nkw ≠ p.name := by
            rcases bindKw_kwparam false rest kw none b2 left (some nkw) h2 with e | ⟨q, hq, qk, qn⟩
            · simp at e
            · intro e
              simp only [Option.some.injEq] at qn
              have := name_inj_of_nodup sig hnd q p (rsub q hq) hp (by rw [← qn, e])
              subst this
              exact absurd qk hk2
          have := applyDefaults_congr sig _ _ (agree [(nkw, .kw left)] (by simp [get?, hne]))
          simpa using congrArg some this

/-! ## the last positional argument written as a keyword argument -/

theorem bindPos_nil_args (pt : Bool) (kw : Dict) (ps : List Param) (b : Bound) (r : List Param)
    (h : bindPos pt kw ps [] = some (b, r)) :
    b = [] ∧ ∀ (pt2 : Bool) (kw2 : Dict) (kp : Option Str), bindKw pt2 r kw2 kp = bindKw pt2 ps kw2 kp := by
  cases ps with
  | nil => simp [bindPos] at h; obtain ⟨rfl, rfl⟩ := h; exact ⟨rfl, fun _ _ _ => rfl⟩
  | cons p rest =>
    simp only [bindPos] at h
    split at h
    · rename_i hk
      simp at h; obtain ⟨rfl, rfl⟩ := h
      refine ⟨rfl, fun pt2 kw2 kp => ?_⟩
      conv => rhs; unfold bindKw
      simp [hk]
    · split at h
      · simp at h; obtain ⟨rfl, rfl⟩ := h; exact ⟨rfl, fun _ _ _ => rfl⟩
      · simp at h

theorem bindPos_last_as_keyword (kw kw' : Dict) (p : Param) (post : List Param) (a : PyVal)
    (hp : p.kind = .pos) (hk1 : get? kw' p.name = some a) (hk2 : erase kw' p.name = kw)
    (pre : List Param) (as : List PyVal) (hlen : pre.length = as.length)
    (hpre : ∀ q ∈ pre, q.kind = .pos) (hnd : ∀ q ∈ pre, q.name ≠ p.name)
    (b : Bound) (r : List Param) (h : bindPos false kw (pre ++ p :: post) (as ++ [a]) = some (b, r)) :
    ∃ e, b = e ++ [(p.name, .one a)] ∧ bindPos false kw' (pre ++ p :: post) as = some (e, p :: post) ∧
      ∀ (pt2 : Bool) (kw2 : Dict) (kp : Option Str), bindKw pt2 r kw2 kp = bindKw pt2 post kw2 kp := by
  induction pre generalizing as b with
  | nil =>
    cases as with
    | cons _ _ => simp at hlen
    | nil =>
      simp only [List.nil_append, bindPos, hp] at h ⊢
      split at h
      · simp at h
      · cases hb : bindPos false kw post [] with
        | none => simp [hb] at h
        | some br =>
          simp only [hb, Option.map_some, Option.some.injEq, Prod.mk.injEq] at h
          obtain ⟨rfl, rfl⟩ := h
          obtain ⟨e0, e1⟩ := bindPos_nil_args false kw post br.1 br.2 (by simp [hb])
          refine ⟨[], by simp [e0], ?_, e1⟩
          simp [hk1]
  | cons q pre' ih =>
    cases as with
    | nil => simp at hlen
    | cons x as' =>
      have hq : q.kind = .pos := hpre q (by simp)
      simp only [List.cons_append, bindPos, hq] at h ⊢
      split at h
      · simp at h
      · rename_i hg
        have hg' : get? kw q.name = none := by
          cases hh : get? kw q.name with
          | none => rfl
          | some _ => simp [hh] at hg
        have hqn : q.name ≠ p.name := hnd q (by simp)
        have : get? kw' q.name = none := by
          rw [← get?_erase_ne kw' p.name q.name hqn, hk2]; exact hg'
        simp only [this, Option.isSome_none, Bool.false_eq_true, if_false]
        cases hb : bindPos false kw (pre' ++ p :: post) (as' ++ [a]) with
        | none => simp [hb] at h
        | some br =>
          simp only [hb, Option.map_some, Option.some.injEq, Prod.mk.injEq] at h
          obtain ⟨rfl, rfl⟩ := h
          obtain ⟨e, e1, e2, e3⟩ := ih as' (by simpa using hlen) (fun q hq => hpre q (by simp [hq]))
            (fun q hq => hnd q (by simp [hq])) br.1 (by simp [hb])
          refine ⟨(q.name, .one x) :: e, by simp [e1], by simp [e2], e3⟩

/-- **Writing the last positional argument as a keyword argument** (anywhere among the keyword
arguments) binds the call the same way: `f(x₁ … xₖ, a, **kw)` and `f(x₁ … xₖ, p=a, **kw)` when `a`
lands on the positional-or-keyword parameter `p`. -/
theorem bind_last_positional_as_keyword (pre post : List Param) (p : Param) (as : List PyVal) (a : PyVal)
    (kw kw' : Dict) (hlen : pre.length = as.length) (hpre : ∀ q ∈ pre, q.kind = .pos) (hp : p.kind = .pos)
    (hnd : ∀ q ∈ pre, q.name ≠ p.name)
    (hk1 : get? kw' p.name = some a) (hk2 : erase kw' p.name = kw)
    (hb : bind false (pre ++ p :: post) ⟨as ++ [a], kw⟩ ≠ none) :
    bind false (pre ++ p :: post) ⟨as, kw'⟩ = bind false (pre ++ p :: post) ⟨as ++ [a], kw⟩ := by
  unfold bind at hb ⊢
  simp only at hb ⊢
  cases h1 : bindPos false kw (pre ++ p :: post) (as ++ [a]) with
  | none => simp [h1] at hb
  | some r1 =>
    obtain ⟨b1, rest⟩ := r1
    obtain ⟨e, e1, e2, e3⟩ := bindPos_last_as_keyword kw kw' p post a hp hk1 hk2 pre as hlen hpre hnd b1 rest h1
    rw [e2]
    simp only
    have : bindKw false (p :: post) kw' none =
        (bindKw false post kw none).map fun r => ((p.name, .one a) :: r.1, r.2) := by
      conv => lhs; unfold bindKw
      simp [hp, hk1, hk2]
    rw [this, e3]
    cases h2 : bindKw false post kw none with
    | none => simp
    | some r2 =>
      obtain ⟨b2, left, kp⟩ := r2
      simp only [Option.map_some, e1, List.append_assoc, List.cons_append, List.nil_append]

end CashewsVerif.KeyModel
