import CashewsVerif.Lemmas.LockInv
/- Instantiation helper for the in-memory model, concrete traces and two deliberately broken
backends used by the examples and the "contract is needed" theorems of Props/C06.lean. -/
namespace CashewsVerif.Lock

/-- the protocol over the empty in-memory backend model is a start state -/
theorem mem_start (cap : Nat) (K : List Key) (hK : K.length ≤ cap) :
    Start memOps (MemOk K) (init (Mem.init cap)) :=
  ⟨⟨⟨by simp [Mem.init, Store.keys, init], by simp [Mem.init, Store.keys, init]⟩, hK⟩,
    fun k => by simp [memOps, memOwner, init, Mem.init], fun _ => rfl⟩

/-- the same with several backends (`n` keys each) in any state of health -/
theorem mem_start_routed (cap : Nat) (K : List Key) (hK : K.length ≤ cap) (n : Nat) (hl : Nat → Health) :
    Start memOps (MemOk K) { initRouted (Mem.init cap) n with health := hl } :=
  ⟨⟨⟨by simp [Mem.init, Store.keys, init, initRouted], by simp [Mem.init, Store.keys, init, initRouted]⟩, hK⟩,
    fun k => by simp [memOps, memOwner, init, initRouted, Mem.init], fun _ => rfl⟩

/-- two tasks on key 0 (ttl 1 s), the second waits; the first leaves in time (by an exception); the
second gets in; a foreign unlock in between -/
def trGood : List Act :=
  [.enter 0 0 0 (some 8) true, .attempt 0, .enter 1 1 0 (some 8) true, .attempt 1, .tick 4,
   .foreignUnlock 0 7, .leave 0 (.exc .user), .attempt 1, .probe 0, .leave 1 .normal, .probe 0]

/-- an overstayer: task 0 holds key 0 past its ttl, task 1 acquires at the deadline, task 0 is
cancelled late, task 2 (wait=False) is refused -/
def trOverstay : List Act :=
  [.enter 0 0 0 (some 8) true, .attempt 0, .enter 1 1 0 (some 8) true, .attempt 1, .tick 8, .attempt 1,
   .leave 0 .cancel, .enter 2 2 0 (some 8) false, .attempt 2, .probe 0]

/-- A overstays, B acquires, A leaves late, C tries -/
def trThree : List Act :=
  [.enter 0 0 0 (some 8) true, .attempt 0, .enter 1 1 0 (some 16) true, .tick 8, .attempt 1, .tick 2,
   .leave 0 .normal, .enter 2 2 0 (some 16) true, .attempt 2]

/-- the defect D7 as a backend: `unlock` deletes whatever is stored, ignoring the presented value -/
def tokenBlindOps : LockOps TtlMap :=
  { ttlOps with unlock := fun t k _ => (t.remove k, (t.find k).isSome) }

/-- the defect D1 as a backend: `set_lock` refuses whenever the key is stored, expired or not -/
def rawMembershipOps : LockOps TtlMap :=
  { ttlOps with
    setLock := fun t k v ttl => if (t.m k).isSome then (t, false) else (t.write k v ttl, true) }

/-! ### transactions -/

/-- threads 0 and 1 each open a FAST transaction, write an application key into their overlay and then
contend for key 0 (thread 1 does not wait); thread 2, in a LOCKED transaction, waits, and gets in after
thread 0 left and committed -/
def trTx : List Act :=
  [.txBegin 0 .fast, .txSet 0 50 1, .txBegin 1 .fast, .txBegin 2 .locked,
   .enter 0 0 0 (some 8) true, .attempt 0, .enter 1 1 0 (some 8) false, .attempt 1,
   .enter 2 2 0 (some 8) true, .attempt 2, .leave 0 .normal, .txEnd 0 true, .attempt 2, .txEnd 1 false]

/-- The seeded defect as a semantics (`TransactionBackend.set_lock = self.set(key, value, expire, exist=False)`):
inside a transaction the attempt tests the thread's overlay and the shared store, and WRITES INTO THE
OVERLAY; `unlock` of such a lock drops the overlay entry. -/
def stepPrivate (s : LockSt TtlMap) : Act → LockSt TtlMap × LOut
  | .attempt t =>
    match s.tasks t, s.tx (s.thr t) with
    | .trying key ttl wait tok, some c =>
      if c.overlay.any (·.1 == key) || (ttlOps.owner s.be key).isSome then
        if wait then (s, .retry) else (setTask s t .failed, .locked)
      else
        (setTask (setTx s (s.thr t) (some { c with overlay := (key, tok) :: c.overlay })) t
          (.inside key tok (deadlineOf s.be.now ttl)), .acquired)
    | _, _ => step ttlOps s (.attempt t)
  | .leave t how =>
    match s.tasks t, s.tx (s.thr t) with
    | .inside key _ _, some c =>
      if c.overlay.any (·.1 == key) then
        (setTask (setTx s (s.thr t) (some { c with overlay := c.overlay.filter (·.1 != key) })) t .done,
          .released true)
      else step ttlOps s (.leave t how)
    | _, _ => step ttlOps s (.leave t how)
  | a => step ttlOps s a

def runPrivate (s : LockSt TtlMap) : List Act → LockSt TtlMap
  | [] => s
  | a :: as => runPrivate (stepPrivate s a).1 as

/-- two threads, each in its own FAST transaction, ask for key 0 -/
def trTwoTx : List Act :=
  [.txBegin 0 .fast, .txBegin 1 .fast, .enter 0 0 0 (some 8) true, .attempt 0,
   .enter 1 1 0 (some 8) false, .attempt 1]

/-- thread 0 in a LOCKED transaction, thread 1 in none -/
def trTxAndPlain : List Act :=
  [.txBegin 0 .locked, .enter 0 0 0 (some 8) true, .attempt 0, .enter 1 1 0 (some 8) false, .attempt 1]

/-! ### several backends -/

/-- backends 0 and 1 (100 keys each); key 100 lives on backend 1.  Backend 0 is switched off entirely
(`cache.disable(prefix=…)`), then two tasks contend for key 100, the second one without waiting. -/
def trOtherBackendOff : List Act :=
  [.setHealth 0 ⟨false, false⟩, .enter 0 0 100 (some 8) true, .attempt 0, .enter 1 1 100 (some 8) false,
   .attempt 1, .enter 2 2 100 (some 8) true, .attempt 2]

/-- the OWNING backend loses its PING (outage, or `Command.PING` disabled) while task 0 is inside -/
def trOwnerDown : List Act :=
  [.enter 0 0 100 (some 8) true, .attempt 0, .setHealth 1 ⟨true, false⟩, .enter 1 1 100 (some 8) false,
   .attempt 1, .leave 1 .normal, .leave 0 .normal]

/-- `Command.SET_LOCK` disabled on the owning backend: no locking at all -/
def trSetLockOff : List Act :=
  [.setHealth 1 ⟨false, true⟩, .enter 0 0 100 (some 8) true, .attempt 0, .enter 1 1 100 (some 8) false,
   .attempt 1, .probe 100, .leave 0 (.exc .user), .leave 1 .normal]

/-- The other seeded defect as a semantics: the probe asks EVERY configured backend (`n` of them) and
reports "no answer" as soon as one of them is silent. -/
def stepProbeAll (n : Nat) (s : LockSt TtlMap) : Act → LockSt TtlMap × LOut
  | .attempt t =>
    match s.tasks t with
    | .trying key ttl wait tok =>
      attemptCore ttlOps s t key ttl wait tok
        ⟨(s.health (s.route key)).setLock, (List.range n).all fun b => (s.health b).ping⟩
    | _ => (s, .ignored)
  | a => step ttlOps s a

def runProbeAll (n : Nat) (s : LockSt TtlMap) : List Act → LockSt TtlMap
  | [] => s
  | a :: as => runProbeAll n (stepProbeAll n s a).1 as

/-! ### exits -/

/-- The seeded defect as a semantics: leaving with `CacheBackendInteractionError` skips the unlock ("the
backend went away, the lease runs out by itself") - whichever backend it was that failed. -/
def stepLostBackend (s : LockSt TtlMap) : Act → LockSt TtlMap × LOut
  | .leave t (.exc .backendInteraction) =>
    match s.tasks t with
    | .inside _ _ _ => (setTask s t .done, .unit)
    | _ => step ttlOps s (.leave t (.exc .backendInteraction))
  | a => step ttlOps s a

def runLostBackend (s : LockSt TtlMap) : List Act → LockSt TtlMap
  | [] => s
  | a :: as => runLostBackend (stepLostBackend s a).1 as

/-- task 0 holds key 0 (ttl 10 s) and its body ends with `c`; a later caller (wait=False) tries -/
def trBodyRaises (c : ExcClass) : List Act :=
  [.enter 0 0 0 (some 80) true, .attempt 0, .tick 1, .leave 0 (.exc c), .enter 1 1 0 (some 80) false, .attempt 1]

def ExcClass.all : List ExcClass :=
  [.user, .cacheError, .backendNotAvailable, .notConfigured, .unsupportedPickler, .unSecureData, .signIsMissing,
   .wrongKey, .tagNotRegistered, .locked, .backendInteraction, .rateLimit, .circuitBreakerOpen, .baseException, .other]

theorem ExcClass.mem_all (c : ExcClass) : c ∈ ExcClass.all := by cases c <;> simp [ExcClass.all]

end CashewsVerif.Lock
