import CashewsVerif.Lemmas.LockInv
/- Instantiation helper for the in-memory model, concrete traces and two deliberately broken
backends used by the examples and the "contract is needed" theorems of Props/C06.lean. -/
namespace CashewsVerif.Lock

/-- the protocol over the empty in-memory backend model is a start state -/
theorem mem_start (cap : Nat) (K : List Key) (hK : K.length ≤ cap) :
    Start memOps (MemOk K) (init (Mem.init cap)) :=
  ⟨⟨⟨by simp [Mem.init, Store.keys, init], by simp [Mem.init, Store.keys, init]⟩, hK⟩,
    fun k => by simp [memOps, memOwner, init, Mem.init], fun _ => rfl⟩

/-- two tasks on key 0 (ttl 1 s), the second waits; the first leaves in time (by an exception); the
second gets in; a foreign unlock in between -/
def trGood : List Act :=
  [.enter 0 0 (some 8) true, .attempt 0, .enter 1 0 (some 8) true, .attempt 1, .tick 4,
   .foreignUnlock 0 7, .leave 0 .exc, .attempt 1, .probe 0, .leave 1 .normal, .probe 0]

/-- an overstayer: task 0 holds key 0 past its ttl, task 1 acquires at the deadline, task 0 is
cancelled late, task 2 (wait=False) is refused -/
def trOverstay : List Act :=
  [.enter 0 0 (some 8) true, .attempt 0, .enter 1 0 (some 8) true, .attempt 1, .tick 8, .attempt 1,
   .leave 0 .cancel, .enter 2 0 (some 8) false, .attempt 2, .probe 0]

/-- A overstays, B acquires, A leaves late, C tries -/
def trThree : List Act :=
  [.enter 0 0 (some 8) true, .attempt 0, .enter 1 0 (some 16) true, .tick 8, .attempt 1, .tick 2,
   .leave 0 .normal, .enter 2 0 (some 16) true, .attempt 2]

/-- the defect D7 as a backend: `unlock` deletes whatever is stored, ignoring the presented value -/
def tokenBlindOps : LockOps TtlMap :=
  { ttlOps with unlock := fun t k _ => (t.remove k, (t.find k).isSome) }

/-- the defect D1 as a backend: `set_lock` refuses whenever the key is stored, expired or not -/
def rawMembershipOps : LockOps TtlMap :=
  { ttlOps with
    setLock := fun t k v ttl => if (t.m k).isSome then (t, false) else (t.write k v ttl, true) }

end CashewsVerif.Lock
