import CashewsVerif.Lemmas.TxSchedCounter
/- A transaction in locked / serializable mode that has buffered a write holds a lock: its store mutations
(the commit) happen inside its write phase. -/
namespace CashewsVerif.TxSched

/-- while local code runs -/
def WLb (t : Task) : Prop := t.mode ≠ .fast → (t.ov ≠ [] ∨ t.del ≠ []) → t.locks ≠ []

/-- of a parked task -/
structure WLp (t : Task) : Prop where
  locks : t.active = true → t.mode ≠ .fast →
    (t.ov ≠ [] ∨ t.del ≠ [] ∨ (∃ k n, t.pc = .seedGet k n) ∨ (∃ k, t.pc = .expGet k) ∨ ∃ k v e, t.pc = .existsGet k v e) →
      t.locks ≠ []
  cdel : t.pc = .commitDel → t.del ≠ []
  cset : t.pc = .commitSet → t.ov ≠ []
  mdel : t.pc = .midDel → t.del ≠ []
  mset : t.pc = .midSet → t.ov ≠ []

theorem holds_locks_ne {t : Task} {k : Nat} (hm : t.mode ≠ .fast) (h : holds t k = true) : t.locks ≠ [] := by
  have := holds_mem hm h
  intro e; rw [e] at this; cases this

theorem WLp.body {t : Task} (h : WLp t) (ha : t.active = true) : WLb t :=
  fun hm ho => h.locks ha hm (by rcases ho with h1 | h1; exact Or.inl h1; exact Or.inr (Or.inl h1))

theorem WLb_setxApply {t : Task} (h : t.mode ≠ .fast → t.locks ≠ []) (k : Nat) (v : Int) (e p : Bool) :
    WLb (setxApply t k v e p) := by
  have g := setxApply_frame t k v e p
  intro hm _
  rw [g.2.2.2.2.2.1]
  exact h (by rw [← g.2.1]; exact hm)

theorem WLb_localCmd {t t' : Task} {c : Cmd} (h : WLb t) (hl : localCmd t c = some t') : WLb t' := by
  cases c <;> simp only [localCmd] at hl
  case set k v =>
    split at hl <;> simp at hl; subst hl
    rename_i hh; simp at hh
    exact fun hm _ => holds_locks_ne hm hh.2
  case incr k n =>
    split at hl
    · rename_i hh; simp at hh
      split at hl
      · simp at hl; subst hl; exact fun hm _ => holds_locks_ne hm hh.2
      · split at hl <;> simp at hl
        subst hl; exact fun hm _ => holds_locks_ne hm hh.2
    · simp at hl
  case get k =>
    split at hl
    · split at hl
      · simp at hl; subst hl; exact h
      · split at hl <;> simp at hl
        subst hl; exact h
    · simp at hl
  case delete k =>
    split at hl <;> simp at hl; subst hl
    rename_i hh; simp at hh
    exact fun hm _ => holds_locks_ne hm hh.2
  case expire k =>
    split at hl
    · split at hl
      · simp at hl; subst hl; exact h
      · split at hl <;> simp at hl
        subst hl; exact h
    · simp at hl
  case setx k v e =>
    split at hl
    · rename_i hh; simp at hh
      split at hl
      · simp at hl; subst hl; exact WLb_setxApply (fun hm => holds_locks_ne hm hh.2) _ _ _ _
      · split at hl <;> simp at hl
        subst hl; exact WLb_setxApply (fun hm => holds_locks_ne hm hh.2) _ _ _ _
    · simp at hl
  case sleep d => simp at hl
  case raise => simp at hl
  case nestIn f => simp at hl; subst hl; exact h
  case nestOut => simp at hl; subst hl; exact h
  case commit =>
    split at hl
    · split at hl <;> simp at hl
      subst hl; exact h
    · simp at hl; subst hl; exact h
  case rollback =>
    split at hl
    · split at hl <;> simp at hl
      subst hl
      exact fun _ ho => by rcases ho with a | a <;> simp at a
    · simp at hl; subst hl; exact h

theorem WLp_inactive {t : Task} (h : t.active = false) (h1 : t.pc ≠ .commitDel) (h2 : t.pc ≠ .commitSet) : WLp t :=
  ⟨fun ha => (by rw [h] at ha; cases ha), fun e => absurd e h1, fun e => absurd e h2,
   fun e => by simp [Task.active, e] at h, fun e => by simp [Task.active, e] at h⟩

theorem WLp_abort (t : Task) (o : Outcome) : WLp (abort t o) := by
  unfold abort; split <;> exact WLp_inactive (by simp [Task.active]) (by simp) (by simp)

theorem WLp_afterCommit (t : Task) : WLp (afterCommit t) := by
  unfold afterCommit; split <;> exact WLp_inactive (by simp [Task.active]) (by simp) (by simp)

/-- a parked state whose pc is neither a commit step nor a seed read -/
theorem WLp_plainpc {t : Task} (h : WLb t) (prog : List Cmd) (pc : PC) (h1 : pc ≠ .commitDel) (h2 : pc ≠ .commitSet)
    (h3 : ∀ k n, pc ≠ .seedGet k n) (h4 : ∀ k, pc ≠ .expGet k := by simp)
    (h5 : ∀ k v e, pc ≠ .existsGet k v e := by simp) (h6 : pc ≠ .midDel := by simp) (h7 : pc ≠ .midSet := by simp) :
    WLp { t with prog := prog, pc := pc } :=
  ⟨fun _ hm ho => h hm (by
      rcases ho with a | a | ⟨k, n, a⟩ | ⟨k, a⟩ | ⟨k, v, e, a⟩
      · exact Or.inl a
      · exact Or.inr a
      · exact absurd a (h3 k n)
      · exact absurd a (h4 k)
      · exact absurd a (h5 k v e)),
   fun e => absurd e h1, fun e => absurd e h2, fun e => absurd e h6, fun e => absurd e h7⟩

theorem WLp_lockOrFail {t : Task} (h : WLb t) (k : Nat) (prog : List Cmd) : WLp (lockOrFail t k prog) := by
  unfold lockOrFail; split
  · exact WLp_abort _ _
  · exact WLp_plainpc h _ _ (by simp) (by simp) (by simp)

theorem WLp_settle (now : Nat) (prog : List Cmd) (t : Task) (h : WLb t) : WLp (settle now prog t) := by
  refine settle_ind (R := fun _ t => WLb t) (P := WLp) now ?_ ?_ ?_ prog t h
  · intro t c rest t' h hl; exact WLb_localCmd h hl
  · intro t h
    unfold endOfProg
    split
    · split
      · rename_i hd
        exact ⟨fun _ hm _ => h hm (Or.inr hd), fun _ => hd, fun e => by simp at e, fun e => by simp at e, fun e => by simp at e⟩
      · rename_i hd
        split
        · rename_i ho
          exact ⟨fun _ hm _ => h hm (Or.inl ho), fun e => by simp at e, fun _ => ho, fun e => by simp at e, fun e => by simp at e⟩
        · exact WLp_afterCommit _
    · exact WLp_inactive (by simp [Task.active]) (by simp) (by simp)
  · intro t c rest h hl
    cases c <;> simp only [park]
    case sleep d => exact WLp_plainpc h _ _ (by simp) (by simp) (by simp)
    case raise => exact WLp_abort _ _
    case set k v => split; exact WLp_lockOrFail h _ _; exact WLp_plainpc h _ _ (by simp) (by simp) (by simp)
    case delete k => split; exact WLp_lockOrFail h _ _; exact WLp_plainpc h _ _ (by simp) (by simp) (by simp)
    case incr k n =>
      split
      · split
        · rename_i hh
          exact ⟨fun _ hm _ => holds_locks_ne hm hh, fun e => by simp at e, fun e => by simp at e, fun e => by simp at e, fun e => by simp at e⟩
        · exact WLp_lockOrFail h _ _
      · exact WLp_plainpc h _ _ (by simp) (by simp) (by simp)
    case get k => split <;> exact WLp_plainpc h _ _ (by simp) (by simp) (by simp)
    case expire k =>
      split
      · split
        · rename_i hh
          exact ⟨fun _ hm _ => holds_locks_ne hm hh, fun e => by simp at e, fun e => by simp at e, fun e => by simp at e, fun e => by simp at e⟩
        · exact WLp_lockOrFail h _ _
      · exact WLp_plainpc h _ _ (by simp) (by simp) (by simp)
    case setx k v e =>
      split
      · split
        · rename_i hh
          exact ⟨fun _ hm _ => holds_locks_ne hm hh, fun e => by simp at e, fun e => by simp at e, fun e => by simp at e, fun e => by simp at e⟩
        · exact WLp_lockOrFail h _ _
      · exact WLp_plainpc h _ _ (by simp) (by simp) (by simp)
    case nestIn f => simp [localCmd] at hl
    case nestOut => simp [localCmd] at hl
    case commit =>
      split
      · rename_i hd
        exact ⟨fun _ hm _ => h hm (Or.inr hd), fun e => by simp at e, fun e => by simp at e, fun _ => hd, fun e => by simp at e⟩
      · split
        · rename_i ho
          exact ⟨fun _ hm _ => h hm (Or.inl ho), fun e => by simp at e, fun e => by simp at e, fun e => by simp at e, fun _ => ho⟩
        · rename_i hd ho
          have hd' : t.del = [] := by simpa using hd
          have ho' : t.ov = [] := by simpa using ho
          exact ⟨fun _ _ hx => by rcases hx with a | a | ⟨k, n, a⟩ | ⟨k, a⟩ | ⟨k, v, e, a⟩ <;> simp [hd', ho'] at a,
            fun e => by simp at e, fun e => by simp at e, fun e => by simp at e, fun e => by simp at e⟩
    case rollback =>
      exact ⟨fun _ _ hx => by rcases hx with a | a | ⟨k, n, a⟩ | ⟨k, a⟩ | ⟨k, v, e, a⟩ <;> simp at a,
        fun e => by simp at e, fun e => by simp at e, fun e => by simp at e, fun e => by simp at e⟩

theorem WLp_afterMid (now : Nat) (t : Task) : WLp (afterMid now t) := by
  unfold afterMid
  split
  · exact WLp_settle now _ _ (fun _ ho => by rcases ho with a | a <;> simp at a)
  · exact ⟨fun _ _ hx => by rcases hx with a | a | ⟨k, n, a⟩ | ⟨k, a⟩ | ⟨k, v, e, a⟩ <;> simp at a,
      fun e => by simp at e, fun e => by simp at e, fun e => by simp at e, fun e => by simp at e⟩

theorem WLp_cancelTask {t : Task} (h : WLp t) : WLp (cancelTask t) := by
  unfold cancelTask
  split <;> first | exact WLp_abort _ _ | exact h

theorem WLp_taskStep {t : Task} (hti : t.TI) (h : WLp t) (tid now : Nat) (store : Store) (lock : Locks) :
    WLp (taskStep tid now store lock t).task := by
  cases hpc : t.pc
  case start =>
    have hcf := TI.noctx_of_pc hti (by simp [hpc, PC.txOk])
    have hn := hti.noctx hcf
    rw [taskStep_start _ _ _ _ _ hpc]
    refine WLp_settle now _ _ ?_
    split <;> exact fun _ ho => by rcases ho with a | a <;> simp [hn.2.1, hn.2.2] at a
  case lockTry k left =>
    cases hf : lockFree lock (lockKeyOf t.mode k) now
    · rw [taskStep_lockTry_busy _ _ _ _ _ hpc hf]
      exact WLp_plainpc (t := t) (h.body (by simp [Task.active, hpc])) t.prog _ (by simp) (by simp) (by simp)
    · rw [taskStep_lockTry_free _ _ _ _ _ hpc hf]
      refine WLp_settle now _ _ (fun _ _ => ?_)
      intro e
      have : lockKeyOf t.mode k ∈ insertLock (lockKeyOf t.mode k) t.locks := mem_insertLock.mpr (Or.inl rfl)
      have e' : insertLock (lockKeyOf t.mode k) t.locks = [] := e
      rw [e'] at this; cases this
  case lockSleep k left w => rw [taskStep_lockSleep _ _ _ _ _ hpc]; exact h
  case bodySleep w => rw [taskStep_bodySleep _ _ _ _ _ hpc]; exact h
  case finished o => rw [taskStep_finished _ _ _ _ _ hpc]; exact h
  case seedGet k n =>
    rw [taskStep_seedGet _ _ _ _ _ hpc]
    exact WLp_settle now _ _ (fun hm _ => h.locks (by simp [Task.active, hpc]) hm (Or.inr (Or.inr (Or.inl ⟨k, n, hpc⟩))))
  case readGet k =>
    rw [taskStep_readGet _ _ _ _ _ hpc]
    exact WLp_settle now _ _ (h.body (by simp [Task.active, hpc]))
  case expGet k =>
    rw [taskStep_expGet _ _ _ _ _ hpc]
    refine WLp_settle now _ _ (fun hm _ => ?_)
    rw [(expBuffer_frame t k (store k)).2.2.2.2.2.1]
    exact h.locks (by simp [Task.active, hpc]) (by rw [← (expBuffer_frame t k (store k)).2.1]; exact hm) (Or.inr (Or.inr (Or.inr (Or.inl ⟨k, hpc⟩))))
  case existsGet k v e =>
    rw [taskStep_existsGet _ _ _ _ _ hpc]
    refine WLp_settle now _ _ (WLb_setxApply (t := { t with reads := t.reads ++ [store k] }) (fun hm => ?_) _ _ _ _)
    exact h.locks (by simp [Task.active, hpc]) hm (Or.inr (Or.inr (Or.inr (Or.inr ⟨k, v, e, hpc⟩))))
  case direct c =>
    have hb := h.body (by simp [Task.active, hpc])
    rw [taskStep_direct _ _ _ _ _ hpc]
    cases c <;> simp only [directStep]
    case setx k v e => exact WLp_settle now _ _ hb
    case expire k => exact WLp_settle now _ _ hb
    case set k v => exact WLp_settle now _ _ hb
    case incr k n => exact WLp_settle now _ _ hb
    case get k => exact WLp_settle now _ _ hb
    case delete k => exact WLp_settle now _ _ hb
    all_goals exact h
  case commitDel =>
    rw [taskStep_commitDel _ _ _ _ _ hpc]
    dsimp only
    split
    · rename_i ho
      exact ⟨fun _ hm _ => h.body (by simp [Task.active, hpc]) hm (Or.inl ho), fun e => by simp at e, fun _ => ho,
        fun e => by simp at e, fun e => by simp at e⟩
    · exact WLp_afterCommit _
  case commitSet => rw [taskStep_commitSet _ _ _ _ _ hpc]; exact WLp_afterCommit _
  case unlocking ls o =>
    cases ls with
    | nil =>
      rw [taskStep_unlocking_nil _ _ _ _ _ hpc]
      exact WLp_inactive (by simp [Task.active]) (by simp) (by simp)
    | cons l rest =>
      rw [taskStep_unlocking_cons _ _ _ _ _ hpc]
      by_cases hr : rest = []
      · exact WLp_inactive (by simp [Task.active, hr]) (by simp [hr]) (by simp [hr])
      · exact WLp_inactive (by simp [Task.active, hr]) (by simp [hr]) (by simp [hr])
  case midDel =>
    rw [taskStep_midDel _ _ _ _ _ hpc]
    dsimp only
    split
    · rename_i ho
      exact ⟨fun _ hm _ => h.body (by simp [Task.active, hpc]) hm (Or.inl ho), fun e => by simp at e, fun e => by simp at e,
        fun e => by simp at e, fun _ => ho⟩
    · exact WLp_afterMid _ _
  case midSet => rw [taskStep_midSet _ _ _ _ _ hpc]; exact WLp_afterMid _ _
  case midUnlock ls =>
    have hb := h.body (by simp [Task.active, hpc])
    cases ls with
    | nil => rw [taskStep_midUnlock_nil _ _ _ _ _ hpc]; exact WLp_settle now _ _ hb
    | cons l rest =>
      rw [taskStep_midUnlock_cons _ _ _ _ _ hpc]
      by_cases hr : rest = []
      · simp only [hr, if_true]; exact WLp_settle now _ _ hb
      · simp only [hr, if_false]
        exact WLp_plainpc (t := t) hb t.prog _ (by simp) (by simp) (by simp)

theorem WLp_wake {t : Task} (h : WLp t) (now : Nat) : WLp (wake now t) := by
  unfold wake
  split
  · rename_i w hpc
    split
    · exact WLp_settle now _ _ (h.body (by simp [Task.active, hpc]))
    · exact h
  · rename_i k left w hpc
    split
    · split
      · exact WLp_abort _ _
      · exact WLp_plainpc (t := t) (h.body (by simp [Task.active, hpc])) t.prog _ (by simp) (by simp) (by simp)
    · exact h
  · exact h

theorem WLp_run (store : Store) (ts : List Task) (hf : ∀ t ∈ ts, t.Fresh) (sched : List Act) (i : Nat) :
    WLp (((World.init store ts).run sched).tasks i) := by
  have := run_invariant (P := fun w => w.AllTI ∧ ∀ i, WLp (w.tasks i)) ?_ sched (World.init store ts) ⟨AllTI_init store ts hf, ?_⟩
  · exact this.2 i
  · intro w a ⟨hti, h⟩
    refine ⟨AllTI_step w a hti, fun j => ?_⟩
    cases a with
    | adv d => exact WLp_wake (h j) _
    | cancel tid =>
      show WLp (if j = tid then cancelTask (w.tasks j) else w.tasks j)
      split
      · exact WLp_cancelTask (h j)
      · exact h j
    | run tid =>
      show WLp ((w.runTask tid).tasks j)
      by_cases hj : j = tid
      · subst hj; rw [runTask_tasks_self]; exact WLp_taskStep (hti j) (h j) _ _ _ _
      · rw [runTask_tasks_ne w tid hj]; exact h j
  · intro j
    rcases init_task_cases store ts j with ⟨_, t, ht, e⟩ | ⟨_, e⟩
    · rw [e]
      have f := hf t ht
      exact ⟨fun _ _ ho => (by rcases ho with a | a | ⟨k, n, a⟩ | ⟨k, a⟩ | ⟨k, v, e, a⟩ <;> simp [f.ov, f.del, f.pc] at a),
        fun e' => (by rw [f.pc] at e'; cases e'), fun e' => (by rw [f.pc] at e'; cases e'),
        fun e' => (by rw [f.pc] at e'; cases e'), fun e' => (by rw [f.pc] at e'; cases e')⟩
    · rw [e]; exact WLp_inactive (by simp [Task.inert, Task.active]) (by simp [Task.inert]) (by simp [Task.inert])

end CashewsVerif.TxSched
