import CashewsVerif.Lemmas.RedisRefine
/- The three cursor loops of backend.py (`scan`, `get_match`, `delete_match`) against a server that pages its
SCAN replies: with the connection up they compute exactly the reference's "all visible keys matching the pattern". -/
namespace CashewsVerif.Redis
open KS


theorem visKeys_append (s : KS) (pat) (a b : List String) :
    Srv.visKeys s pat (a ++ b) = Srv.visKeys s pat a ++ Srv.visKeys s pat b := by
  simp [Srv.visKeys]

/-- one SCAN page with the connection up -/
theorem call_scan_up (cfg : Cfg) (hup : ∀ n, cfg.down n = false) (w : World) (cur : Nat) (pat : String) (n : Nat) :
    call cfg (.scan cur (some pat) (some (n + 1))) w =
      ({ w with calls := w.calls + 1, log := w.log ++ [.one (.scan cur (some pat) (some (n + 1)))] },
       .ok (.scan (if cur + (n + 1) < w.srv.ks.dom.length then cur + (n + 1) else 0)
              (Srv.visKeys w.srv.ks (some pat) ((w.srv.ks.dom.drop cur).take (n + 1))))) := by
  simp [call, clientCall, hup, Srv.exec, Srv.execPrim]

theorem scanLoop_up (cfg : Cfg) (hup : ∀ n, cfg.down n = false) (pat : String) (n : Nat) :
    ∀ (fuel cur : Nat) (acc : List String) (w : World), w.srv.ks.dom.length - cur < fuel →
      ∃ w', scanLoop cfg pat (n + 1) fuel cur acc w = (w', .ok (acc ++ Srv.visKeys w.srv.ks (some pat) (w.srv.ks.dom.drop cur)))
        ∧ w'.srv = w.srv ∧ w'.cached = w.cached := by
  intro fuel
  induction fuel with
  | zero => intro cur acc w h; omega
  | succ f ih =>
    intro cur acc w h
    simp only [scanLoop, M.bind, call_scan_up cfg hup]
    by_cases hlt : cur + (n + 1) < w.srv.ks.dom.length
    · have hne : cur + (n + 1) ≠ 0 := by omega
      simp only [hlt, if_true, hne, if_false]
      obtain ⟨w', h1, h2, h3⟩ := ih (cur + (n + 1)) (acc ++ Srv.visKeys w.srv.ks (some pat) ((w.srv.ks.dom.drop cur).take (n + 1)))
        { w with calls := w.calls + 1, log := w.log ++ [.one (.scan cur (some pat) (some (n + 1)))] } (by simp; omega)
      refine ⟨w', ?_, h2, h3⟩
      rw [h1]
      simp only [List.append_assoc, ← visKeys_append]
      congr 4
      rw [← List.drop_drop, List.take_append_drop]
    · simp only [hlt, if_false, if_true, M.pure]
      refine ⟨{ w with calls := w.calls + 1, log := w.log ++ [.one (.scan cur (some pat) (some (n + 1)))] }, ?_, rfl, rfl⟩
      rw [List.take_of_length_le]
      simp; omega



/-- `get_many` with the connection up: the string values of the keys, decoded -/
theorem getMany_up (cfg : Cfg) (hup : ∀ n, cfg.down n = false) (w : World) (ks : List String) :
    ∃ w', getMany cfg ks w = (w', .ok (ks.map (Ref.strValue cfg w.srv.ks))) ∧ w'.srv = w.srv ∧ w'.cached = w.cached := by
  cases ks with
  | nil => exact ⟨w, by simp [getMany, M.pure], rfl, rfl⟩
  | cons k ks =>
    refine ⟨{ w with calls := w.calls + 1, log := w.log ++ [.one (.mget (k :: ks))] }, ?_, rfl, rfl⟩
    simp [getMany, M.bind, M.pure, call, clientCall, hup, Srv.exec, Srv.execPrim, Ref.strValue]
    refine ⟨?_, ?_⟩
    · cases hf : w.srv.ks.find k with
      | none => rfl
      | some e => obtain ⟨v, dl⟩ := e; cases v <;> rfl
    · intro a _
      cases hf : w.srv.ks.find a with
      | none => rfl
      | some e => obtain ⟨v, dl⟩ := e; cases v <;> rfl

theorem pairsOf_map (keys : List String) (f : String → Option CVal) :
    pairsOf keys (keys.map f) = keys.filterMap fun k => (f k).map fun v => (k, v) := by
  induction keys with
  | nil => rfl
  | cons k ks ih =>
    simp only [pairsOf, List.map_cons, List.zip_cons_cons, List.filterMap_cons] at ih ⊢
    cases f k <;> simp [ih]

def pairsRef (cfg : Cfg) (ks : KS) (pat : String) (l : List String) : List (String × CVal) :=
  (Srv.visKeys ks (some pat) l).filterMap fun k => (Ref.strValue cfg ks k).map fun v => (k, v)

theorem pairsRef_append (cfg ks pat) (a b : List String) :
    pairsRef cfg ks pat (a ++ b) = pairsRef cfg ks pat a ++ pairsRef cfg ks pat b := by
  simp [pairsRef, visKeys_append]

theorem getMatchLoop_up (cfg : Cfg) (hup : ∀ n, cfg.down n = false) (pat : String) (n : Nat) :
    ∀ (fuel cur : Nat) (acc : List (String × CVal)) (w : World), w.srv.ks.dom.length - cur < fuel →
      ∃ w', getMatchLoop cfg pat (n + 1) fuel cur acc w = (w', .ok (acc ++ pairsRef cfg w.srv.ks pat (w.srv.ks.dom.drop cur)))
        ∧ w'.srv = w.srv ∧ w'.cached = w.cached := by
  intro fuel
  induction fuel with
  | zero => intro cur acc w h; omega
  | succ f ih =>
    intro cur acc w h
    simp only [getMatchLoop, M.bind, call_scan_up cfg hup]
    generalize hw1 : ({ w with calls := w.calls + 1, log := w.log ++ [.one (.scan cur (some pat) (some (n + 1)))] } : World) = w1
    have hs1 : w1.srv = w.srv := by subst hw1; rfl
    have hc1 : w1.cached = w.cached := by subst hw1; rfl
    generalize hpage : (w.srv.ks.dom.drop cur).take (n + 1) = page
    -- the pairs of this page, whether or not it is empty
    have hpairs : ∀ keys, keys = Srv.visKeys w.srv.ks (some pat) page →
        pairsOf keys (keys.map (Ref.strValue cfg w.srv.ks)) = pairsRef cfg w.srv.ks pat page := by
      intro keys hk; subst hk; rw [pairsOf_map]; rfl
    by_cases hlt : cur + (n + 1) < w.srv.ks.dom.length
    · have hne : cur + (n + 1) ≠ 0 := by omega
      have hdrop : w.srv.ks.dom.drop cur = page ++ w.srv.ks.dom.drop (cur + (n + 1)) := by
        rw [← hpage, ← List.drop_drop, List.take_append_drop]
      simp only [hlt, if_true, hne, if_false]
      by_cases hke : (Srv.visKeys w.srv.ks (some pat) page).isEmpty = true
      · simp only [hke, if_true]
        obtain ⟨w', h1, h2, h3⟩ := ih (cur + (n + 1)) acc w1 (by rw [hs1]; omega)
        refine ⟨w', ?_, h2.trans hs1, h3.trans hc1⟩
        rw [h1, hs1, hdrop, pairsRef_append]
        have : pairsRef cfg w.srv.ks pat page = [] := by
          have : Srv.visKeys w.srv.ks (some pat) page = [] := by simpa using hke
          simp [pairsRef, this]
        rw [this]; simp
      · simp only [hke]
        obtain ⟨w2, g1, g2, g3⟩ := getMany_up cfg hup w1 (Srv.visKeys w.srv.ks (some pat) page)
        rw [hs1] at g1
        simp only [M.bind, g1, Bool.false_eq_true, if_false]
        obtain ⟨w', h1, h2, h3⟩ := ih (cur + (n + 1))
          (acc ++ pairsOf (Srv.visKeys w.srv.ks (some pat) page) ((Srv.visKeys w.srv.ks (some pat) page).map (Ref.strValue cfg w.srv.ks)))
          w2 (by rw [g2, hs1]; omega)
        refine ⟨w', ?_, h2.trans (g2.trans hs1), h3.trans (g3.trans hc1)⟩
        rw [h1, g2, hs1, hpairs _ rfl, hdrop, pairsRef_append, List.append_assoc]
    · have hdrop : w.srv.ks.dom.drop cur = page := by
        rw [← hpage, List.take_of_length_le]; simp; omega
      simp only [hlt, if_false, if_true, M.pure]
      by_cases hke : (Srv.visKeys w.srv.ks (some pat) page).isEmpty = true
      · simp only [hke, if_true]
        refine ⟨w1, ?_, hs1, hc1⟩
        have : pairsRef cfg w.srv.ks pat page = [] := by
          have : Srv.visKeys w.srv.ks (some pat) page = [] := by simpa using hke
          simp [pairsRef, this]
        rw [hdrop, this]; simp [M.pure]
      · simp only [hke]
        obtain ⟨w2, g1, g2, g3⟩ := getMany_up cfg hup w1 (Srv.visKeys w.srv.ks (some pat) page)
        rw [hs1] at g1
        simp only [M.bind, g1, Bool.false_eq_true, if_false]
        refine ⟨w2, ?_, g2.trans hs1, g3.trans hc1⟩
        rw [hpairs _ rfl, hdrop]; rfl



theorem delMany_m (s : KS) (l : List String) (k : String) :
    (s.delMany l).m k = if k ∈ l then none else s.m k := by
  induction l generalizing s with
  | nil => simp [delMany]
  | cons a l ih =>
    simp only [delMany, List.foldl] at ih ⊢
    rw [ih]
    by_cases h1 : k ∈ l
    · simp [h1]
    · by_cases h2 : k = a
      · subst h2; simp [del]
      · simp [h1, del, h2]

/-- the matching predicate of a pattern on the keyspace the command started from -/
def Mt (ks0 : KS) (pat : String) (k : String) : Bool := ks0.present k && glob pat k

/-- loop invariant of `delete_match`: exactly the matching keys among the first `cur` scanned positions are gone -/
def DInv (ks0 : KS) (pat : String) (cur : Nat) (ksc : KS) : Prop :=
  ksc.now = ks0.now ∧ ksc.dom = ks0.dom ∧
  ∀ k, ksc.m k = if decide (k ∈ ks0.dom.take cur) && Mt ks0 pat k then none else ks0.m k

theorem DInv.present {ks0 pat cur ksc} (h : DInv ks0 pat cur ksc) (k : String) :
    ksc.present k = (ks0.present k && !(decide (k ∈ ks0.dom.take cur) && Mt ks0 pat k)) := by
  obtain ⟨h1, _, h3⟩ := h
  simp only [KS.present, KS.find, h3, h1]
  by_cases hc : (decide (k ∈ ks0.dom.take cur) && Mt ks0 pat k) = true <;> simp [hc]

theorem DInv.visKeys {ks0 pat cur ksc} (h : DInv ks0 pat cur ksc) (page : List String) :
    Srv.visKeys ksc (some pat) page = page.filter fun k => Mt ks0 pat k && !decide (k ∈ ks0.dom.take cur) := by
  simp only [Srv.visKeys]
  apply List.filter_congr
  intro k _
  rw [h.present]
  simp only [Mt]
  by_cases a : ks0.present k <;> by_cases b : glob pat k <;> by_cases c : k ∈ ks0.dom.take cur <;> simp [a, b, c]

theorem DInv.step {ks0 pat cur ksc} (h : DInv ks0 pat cur ksc) (n : Nat) :
    DInv ks0 pat (cur + n) (ksc.delMany (Srv.visKeys ksc (some pat) ((ks0.dom.drop cur).take n))) := by
  refine ⟨by simp [h.1], by simp [h.2.1], ?_⟩
  intro k
  rw [delMany_m, h.visKeys, h.2.2, List.take_add]
  by_cases a : Mt ks0 pat k <;> by_cases c : k ∈ ks0.dom.take cur <;> by_cases d : k ∈ (ks0.dom.drop cur).take n <;>
    simp [a, c, d, List.mem_filter]

theorem DInv.final {ks0 pat cur ksc} (h : DInv ks0 pat cur ksc) (hc : ks0.dom.length ≤ cur) :
    ksc = ks0.delMany (Ref.matching ks0 pat) := by
  apply KS.ext'
  · simp [h.1]
  · funext k
    rw [h.2.2, delMany_m, List.take_of_length_le hc]
    simp only [Ref.matching, List.mem_filter, Mt]
    by_cases a : k ∈ ks0.dom <;> by_cases b : ks0.present k <;> by_cases c : glob pat k <;> simp [a, b, c]
  · simp [h.2.1]

/-- a pass over a keyspace without visible matching keys deletes nothing and ends -/
theorem delMatchLoop_clean (cfg : Cfg) (hup : ∀ n, cfg.down n = false) (pat : String) :
    ∀ (fuel cur : Nat) (w : World), (∀ k ∈ w.srv.ks.dom, (w.srv.ks.present k && glob pat k) = false) →
      w.srv.ks.dom.length - cur < fuel →
      ∃ w', delMatchLoop cfg pat fuel cur w = (w', .ok ()) ∧ w'.srv = w.srv ∧ w'.cached = w.cached := by
  intro fuel
  induction fuel with
  | zero => intro cur w _ h; omega
  | succ f ih =>
    intro cur w hclean h
    have hk : Srv.visKeys w.srv.ks (some pat) ((w.srv.ks.dom.drop cur).take (99 + 1)) = [] := by
      simp only [Srv.visKeys, List.filter_eq_nil_iff]
      intro k hk
      have : k ∈ w.srv.ks.dom := List.mem_of_mem_drop (List.mem_of_mem_take hk)
      simpa using hclean k this
    simp only [delMatchLoop, M.bind, call_scan_up cfg hup w cur pat 99, hk, List.isEmpty_nil, if_true]
    by_cases hlt : cur + (99 + 1) < w.srv.ks.dom.length
    · have hne : cur + (99 + 1) ≠ 0 := by omega
      simp only [hlt, if_true, hne, if_false]
      obtain ⟨w', h1, h2, h3⟩ := ih (cur + (99 + 1))
        { w with calls := w.calls + 1, log := w.log ++ [.one (.scan cur (some pat) (some (99 + 1)))] } hclean (by simp; omega)
      exact ⟨w', h1, h2, h3⟩
    · simp only [hlt, if_false, if_true]
      exact ⟨_, rfl, rfl, rfl⟩

theorem call_unlink_up (cfg : Cfg) (hup : ∀ n, cfg.down n = false) (w : World) (keys : List String) (hne : keys.isEmpty = false) :
    ∃ w2 r, call cfg (.unlink keys) w = (w2, .ok r) ∧ w2.srv.ks = w.srv.ks.delMany keys ∧ w2.srv.loaded = w.srv.loaded ∧
      w2.cached = w.cached := by
  refine ⟨{ w with srv := { w.srv with ks := w.srv.ks.delMany keys }, calls := w.calls + 1, log := w.log ++ [.one (.unlink keys)] },
    .int (keys.filter w.srv.ks.present).length, ?_, rfl, rfl, rfl⟩
  simp [call, clientCall, hup, Srv.exec, Srv.execPrim, hne]

theorem delMatchLoop_up (cfg : Cfg) (hup : ∀ n, cfg.down n = false) (pat : String) (ks0 : KS) :
    ∀ (fuel cur : Nat) (w : World), DInv ks0 pat cur w.srv.ks →
      (ks0.dom.length - cur) + (ks0.dom.length + 1) < fuel →
      ∃ w', delMatchLoop cfg pat fuel cur w = (w', .ok ()) ∧ w'.srv.ks = ks0.delMany (Ref.matching ks0 pat) ∧
        w'.srv.loaded = w.srv.loaded ∧ w'.cached = w.cached := by
  intro fuel
  induction fuel with
  | zero => intro cur w _ h; omega
  | succ f ih =>
    intro cur w hinv h
    have hdom : w.srv.ks.dom = ks0.dom := hinv.2.1
    simp only [delMatchLoop, M.bind, call_scan_up cfg hup w cur pat 99]
    generalize hw1 : ({ w with calls := w.calls + 1, log := w.log ++ [.one (.scan cur (some pat) (some (99 + 1)))] } : World) = w1
    have hs1 : w1.srv = w.srv := by subst hw1; rfl
    have hc1 : w1.cached = w.cached := by subst hw1; rfl
    generalize hkeys : Srv.visKeys w.srv.ks (some pat) ((w.srv.ks.dom.drop cur).take (99 + 1)) = keys
    have hstep := hinv.step (99 + 1)
    rw [← hdom, hkeys] at hstep
    by_cases hke : keys.isEmpty = true
    · have hnil : keys = [] := by simpa using hke
      have hstep' : DInv ks0 pat (cur + (99 + 1)) w.srv.ks := by simpa [hnil, delMany] using hstep
      simp only [hke, if_true]
      by_cases hlt : cur + (99 + 1) < w.srv.ks.dom.length
      · have hne : cur + (99 + 1) ≠ 0 := by omega
        simp only [hlt, if_true, hne, if_false]
        obtain ⟨w', h1, h2, h3, h4⟩ := ih (cur + (99 + 1)) w1 (by rw [hs1]; exact hstep') (by rw [hdom] at hlt; omega)
        exact ⟨w', h1, h2, by rw [h3, hs1], by rw [h4, hc1]⟩
      · simp only [hlt, if_false, if_true, M.pure]
        refine ⟨w1, rfl, ?_, by rw [hs1], hc1⟩
        rw [hs1]
        exact hstep'.final (by rw [hdom] at hlt; omega)
    · have hke' : keys.isEmpty = false := by simpa using hke
      obtain ⟨w2, r2, hcall, hs2, hl2, hc2⟩ := call_unlink_up cfg hup w1 keys hke'
      simp only [hke', Bool.false_eq_true, if_false, M.bind, hcall]
      rw [hs1] at hs2 hl2
      rw [hc1] at hc2
      by_cases hlt : cur + (99 + 1) < w.srv.ks.dom.length
      · simp only [hlt, if_true]
        obtain ⟨w', h1, h2, h3, h4⟩ := ih (cur + (99 + 1)) w2 (by rw [hs2]; exact hstep) (by rw [hdom] at hlt; omega)
        exact ⟨w', h1, h2, by rw [h3, hl2], by rw [h4, hc2]⟩
      · simp only [hlt, if_false]
        have hfin := hstep.final (by rw [hdom] at hlt; omega)
        -- the keyspace is now clean: a second pass from cursor 0 deletes nothing
        have hclean : ∀ k ∈ w2.srv.ks.dom, (w2.srv.ks.present k && glob pat k) = false := by
          intro k hk
          rw [hs2, hfin] at hk ⊢
          rw [present_delMany]
          simp only [delMany_dom] at hk
          simp only [Ref.matching, List.contains_eq_mem, List.mem_filter]
          by_cases a : ks0.present k <;> by_cases b : glob pat k <;> simp [a, b, hk]
        obtain ⟨w', h1, h2, h3⟩ := delMatchLoop_clean cfg hup pat f 0 w2 hclean (by
          rw [hs2]; simp only [delMany_dom, hdom]; omega)
        refine ⟨w', h1, ?_, by rw [h2, hl2], by rw [h3, hc2]⟩
        rw [h2, hs2, hfin]



section
variable (cfg : Cfg) (hup : ∀ n, cfg.down n = false) (w : World) (t : KS) (h : Inv w t)
include hup h

theorem sim_scan (pat count) : Sim cfg w t (.scan pat count) := by
  obtain ⟨rfl, hc⟩ := h
  cases count with
  | zero =>
    cases hs : cfg.suppress <;>
      simp [Sim, Inv, step, stepM, M.bind, M.pure, domLen, scanLoop, call, clientCall, hup, Srv.exec, Srv.execPrim, outOf,
        failed, isPing, fallback, Ref.step, Ref.failOut, hs] <;> exact hc
  | succ n =>
    obtain ⟨w', h1, h2, h3⟩ := scanLoop_up cfg hup pat n (w.srv.ks.dom.length + 2) 0 [] w (by omega)
    simp only [Sim, Inv, step, stepM, M.bind, M.pure, domLen, h1, outOf, Ref.step]
    simp [h2, h3, Ref.matching, Srv.visKeys]
    exact hc

theorem sim_getMatch (pat count) : Sim cfg w t (.getMatch pat count) := by
  obtain ⟨rfl, hc⟩ := h
  cases count with
  | zero =>
    cases hs : cfg.suppress <;>
      simp [Sim, Inv, step, stepM, M.bind, M.pure, domLen, getMatchLoop, call, clientCall, hup, Srv.exec, Srv.execPrim, outOf,
        failed, isPing, fallback, Ref.step, Ref.failOut, hs] <;> exact hc
  | succ n =>
    obtain ⟨w', h1, h2, h3⟩ := getMatchLoop_up cfg hup pat n (w.srv.ks.dom.length + 2) 0 [] w (by omega)
    simp only [Sim, Inv, step, stepM, M.bind, M.pure, domLen, h1, outOf, Ref.step]
    simp [h2, h3, Ref.matching, Srv.visKeys, pairsRef]
    exact hc

theorem sim_deleteMatch (pat) : Sim cfg w t (.deleteMatch pat) := by
  obtain ⟨rfl, hc⟩ := h
  by_cases hstar : '*' ∈ pat.toList
  · have h0 : DInv w.srv.ks pat 0 w.srv.ks := ⟨rfl, rfl, by intro k; simp⟩
    obtain ⟨w', h1, h2, h3, h4⟩ := delMatchLoop_up cfg hup pat w.srv.ks (2 * w.srv.ks.dom.length + 8) 0 w h0 (by omega)
    simp [Sim, Inv, step, stepM, hstar, M.bind, M.pure, domLen, h1, outOf, Ref.step]
    refine ⟨h2, ?_⟩
    intro s hs; rw [h3]; exact hc s (h4 ▸ hs)
  · cases hs : cfg.suppress <;> cases hk : w.srv.ks.present pat <;>
      simp [Sim, Inv, step, stepM, hstar, M.bind, M.pure, call, clientCall, hup, Srv.exec, Srv.execPrim, outOf, failed,
        isPing, fallback, Ref.step, KS.delMany, hs, hk] <;> exact hc

end
end CashewsVerif.Redis
