import CashewsVerif.Model.Tags
/-
Lemmas about the tag model, part 1: the set commands seen through the *live view* `lm` of a tag
set, frame facts (which command touches which field), and the coverage relation `Cov` behind the
completeness half of C12.
-/
namespace CashewsVerif.Tags
open St

/-! ### small facts -/

theorem upd_same {α} (m : Nat → α) (k : Nat) (a : α) : upd m k a k = a := by simp [upd]
theorem upd_other {α} (m : Nat → α) {k k' : Nat} (a : α) (h : k' ≠ k) : upd m k a k' = m k' := by simp [upd, h]

theorem mem_insertKey {x k : Nat} {l : List Nat} : x ∈ insertKey k l ↔ x = k ∨ x ∈ l := by
  induction l with
  | nil => simp [insertKey]
  | cons y ys ih =>
    unfold insertKey
    split
    · simp
    · split
      · rename_i h; subst h; simp
      · simp [ih]; grind

theorem live_mono {e : Entry} {n d : Nat} (h : e.live (n + d) = true) : e.live n = true := by
  unfold Entry.live at *
  split at h <;> simp_all
  omega

theorem deadlineOf_gt {now : Nat} {ttl : Option Nat} {d : Nat} (h : deadlineOf now ttl = some d) : now < d := by
  unfold deadlineOf at h
  split at h <;> simp at h
  omega

/-- the members of tag set `t` as the set commands see them (an expired set is an empty one) -/
def lm (s : St) (t : Nat) : List Nat := membersOpt (liveAt s.now s.ts t)

theorem liveAt_some {now : Nat} {m : Nat → Option Entry} {k : Nat} {e : Entry}
    (h : m k = some e) (hl : e.live now = true) : liveAt now m k = some e := by
  simp [liveAt, h, hl]

theorem liveAt_eq_some {now : Nat} {m : Nat → Option Entry} {k : Nat} {e : Entry}
    (h : liveAt now m k = some e) : m k = some e ∧ e.live now = true := by
  unfold liveAt at h
  split at h
  · split at h <;> simp_all
  · simp at h

theorem liveAt_none_of {now : Nat} {m : Nat → Option Entry} {k : Nat} (h : m k = none) : liveAt now m k = none := by
  simp [liveAt, h]

/-! ### frame facts: the set commands only change `ts` -/

@[simp] theorem setAdd_now (s : St) (t k : Nat) (ttl) : (s.setAdd t k ttl).now = s.now := rfl
@[simp] theorem setAdd_kv (s : St) (t k : Nat) (ttl) : (s.setAdd t k ttl).kv = s.kv := rfl
@[simp] theorem setAdd_last (s : St) (t k : Nat) (ttl) : (s.setAdd t k ttl).last = s.last := rfl
@[simp] theorem setAdd_since (s : St) (t k : Nat) (ttl) : (s.setAdd t k ttl).since = s.since := rfl
@[simp] theorem setRemove_now (s : St) (t k : Nat) : (s.setRemove t k).now = s.now := rfl
@[simp] theorem setRemove_kv (s : St) (t k : Nat) : (s.setRemove t k).kv = s.kv := rfl
@[simp] theorem setRemove_last (s : St) (t k : Nat) : (s.setRemove t k).last = s.last := rfl
@[simp] theorem setRemove_since (s : St) (t k : Nat) : (s.setRemove t k).since = s.since := rfl
@[simp] theorem setPop_now (s : St) (t c : Nat) : (s.setPop t c).1.now = s.now := rfl
@[simp] theorem setPop_kv (s : St) (t c : Nat) : (s.setPop t c).1.kv = s.kv := rfl
@[simp] theorem setPop_last (s : St) (t c : Nat) : (s.setPop t c).1.last = s.last := rfl
@[simp] theorem setPop_since (s : St) (t c : Nat) : (s.setPop t c).1.since = s.since := rfl
@[simp] theorem setPop_out (s : St) (t c : Nat) : (s.setPop t c).2 = (lm s t).take c := rfl

theorem setAdd_ts_other (s : St) {t t' : Nat} (k : Nat) (ttl) (h : t' ≠ t) : (s.setAdd t k ttl).ts t' = s.ts t' := by
  simp [setAdd, upd, h]
theorem setRemove_ts_other (s : St) {t t' : Nat} (k : Nat) (h : t' ≠ t) : (s.setRemove t k).ts t' = s.ts t' := by
  simp [setRemove, upd, h]
theorem setPop_ts_other (s : St) {t t' : Nat} (c : Nat) (h : t' ≠ t) : (s.setPop t c).1.ts t' = s.ts t' := by
  simp [setPop, upd, h]

/-! ### the live view under the set commands -/

theorem live_inherit (now : Nat) (m : Nat → Option Entry) (t : Nat) (v : Val) :
    (⟨v, (liveAt now m t).bind (·.dl)⟩ : Entry).live now = true := by
  cases hc : liveAt now m t with
  | none => simp [Entry.live]
  | some e =>
    have := (liveAt_eq_some hc).2
    simpa [Entry.live] using this

theorem lm_other {s s' : St} {t : Nat} (hn : s'.now = s.now) (ht : s'.ts t = s.ts t) : lm s' t = lm s t := by
  unfold lm liveAt; rw [hn, ht]

theorem lm_setRemove (s : St) (t t' k : Nat) :
    lm (s.setRemove t' k) t = if t = t' then (lm s t).filter (· ≠ k) else lm s t := by
  by_cases h : t = t'
  · subst h
    simp only [if_true]
    show membersOpt (liveAt s.now (upd s.ts t _) t) = _
    rw [liveAt_some (upd_same ..) (live_inherit ..)]
    rfl
  · simp only [h, if_false]
    exact lm_other rfl (setRemove_ts_other s k h)

theorem lm_setPop (s : St) (t t' c : Nat) :
    lm (s.setPop t' c).1 t = if t = t' then (lm s t).drop c else lm s t := by
  by_cases h : t = t'
  · subst h
    simp only [if_true]
    show membersOpt (liveAt s.now (upd s.ts t _) t) = _
    rw [liveAt_some (upd_same ..) (live_inherit ..)]
    rfl
  · simp only [h, if_false]
    exact lm_other rfl (setPop_ts_other s c h)

theorem setAdd_live (s : St) (t k : Nat) (ttl : Option Nat) :
    ∃ e, (s.setAdd t k ttl).ts t = some e ∧ e.live s.now = true ∧ members e = insertKey k (lm s t) := by
  unfold setAdd
  simp only [upd_same]
  refine ⟨_, rfl, ?_, rfl⟩
  cases hc : liveAt s.now s.ts t with
  | none =>
    simp only
    cases hd : deadlineOf s.now ttl with
    | none => simp [Entry.live]
    | some d => simpa [Entry.live] using deadlineOf_gt hd
  | some e =>
    have hl := (liveAt_eq_some hc).2
    simp only
    cases he : e.dl with
    | none => simp [Entry.live]
    | some d =>
      cases hd : deadlineOf s.now ttl with
      | none => simp [Entry.live]
      | some d' =>
        have := deadlineOf_gt hd
        simp [Entry.live]; omega

theorem lm_setAdd (s : St) (t t' k : Nat) (ttl : Option Nat) :
    lm (s.setAdd t' k ttl) t = if t = t' then insertKey k (lm s t) else lm s t := by
  by_cases h : t = t'
  · subst h
    simp only [if_true]
    obtain ⟨e, h1, h2, h3⟩ := setAdd_live s t k ttl
    unfold lm
    rw [setAdd_now, liveAt_some h1 h2]
    exact h3
  · simp only [h, if_false]
    exact lm_other rfl (setAdd_ts_other s k ttl h)

end CashewsVerif.Tags
