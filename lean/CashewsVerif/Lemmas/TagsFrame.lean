import CashewsVerif.Lemmas.Tags
/-
Lemmas about the tag model, part 2: what `prune`, `_delete`, `_get`, `_set` and the wrapper's
tagging loop do to each field of the state and to the live view of the tag sets.
-/
namespace CashewsVerif.Tags
open St

/-- `prune` over an explicit tag list -/
def pruneL (l : List Nat) (s : St) (k : Nat) : St := l.foldl (fun s t => s.setRemove t k) s

theorem prune_eq (cfg : Cfg) (s : St) (k : Nat) : s.prune cfg k = pruneL (cfg.tagOf k) s k := rfl

theorem pruneL_frame (l : List Nat) (s : St) (k : Nat) :
    (pruneL l s k).now = s.now ∧ (pruneL l s k).kv = s.kv ∧ (pruneL l s k).last = s.last ∧ (pruneL l s k).since = s.since := by
  induction l generalizing s with
  | nil => simp [pruneL]
  | cons t r ih =>
    have := ih (s.setRemove t k)
    simpa [pruneL] using this

theorem lm_pruneL (l : List Nat) (s : St) (k t : Nat) :
    lm (pruneL l s k) t = if t ∈ l then (lm s t).filter (· ≠ k) else lm s t := by
  induction l generalizing s with
  | nil => simp [pruneL]
  | cons t0 r ih =>
    have h := ih (s.setRemove t0 k)
    simp only [pruneL, List.foldl_cons] at h ⊢
    rw [h, lm_setRemove]
    by_cases h1 : t = t0 <;> by_cases h2 : t ∈ r <;> simp [h1, h2, List.filter_filter]

/-! ### `_delete` -/

theorem rawDelete_frame (cfg : Cfg) (s : St) (k : Nat) :
    (s.rawDelete cfg k).1.now = s.now ∧ (s.rawDelete cfg k).1.last = s.last ∧ (s.rawDelete cfg k).1.since = s.since := by
  unfold rawDelete
  split
  · simp
  · have := pruneL_frame (cfg.tagOf k) { s with kv := upd s.kv k none } k
    simp only [prune_eq]
    exact ⟨this.1, this.2.2.1, this.2.2.2⟩

@[simp] theorem rawDelete_now (cfg : Cfg) (s : St) (k : Nat) : (s.rawDelete cfg k).1.now = s.now := (rawDelete_frame cfg s k).1
@[simp] theorem rawDelete_last (cfg : Cfg) (s : St) (k : Nat) : (s.rawDelete cfg k).1.last = s.last := (rawDelete_frame cfg s k).2.1
@[simp] theorem rawDelete_since (cfg : Cfg) (s : St) (k : Nat) : (s.rawDelete cfg k).1.since = s.since := (rawDelete_frame cfg s k).2.2

theorem rawDelete_kv (cfg : Cfg) (s : St) (k k' : Nat) :
    (s.rawDelete cfg k).1.kv k' = if k' = k then none else s.kv k' := by
  unfold rawDelete
  split
  · rename_i h
    by_cases hk : k' = k
    · subst hk; simp [h]
    · simp [hk]
  · have := (pruneL_frame (cfg.tagOf k) { s with kv := upd s.kv k none } k).2.1
    simp only [prune_eq, this, upd]

theorem lm_rawDelete (cfg : Cfg) (s : St) (k t : Nat) :
    lm (s.rawDelete cfg k).1 t =
      if (s.kv k).isSome ∧ t ∈ cfg.tagOf k then (lm s t).filter (· ≠ k) else lm s t := by
  unfold rawDelete
  split
  · rename_i h; simp [h]
  · rename_i e h
    simp only [prune_eq, lm_pruneL, h, Option.isSome_some, true_and]
    have : lm { s with kv := upd s.kv k none } t = lm s t := lm_other rfl rfl
    rw [this]

theorem mem_lm_rawDelete {cfg : Cfg} {s : St} {k t x : Nat} (h : x ∈ lm (s.rawDelete cfg k).1 t) : x ∈ lm s t := by
  rw [lm_rawDelete] at h
  split at h
  · exact (List.mem_filter.mp h).1
  · exact h

theorem mem_lm_rawDelete_of_ne {cfg : Cfg} {s : St} {k t x : Nat} (h : x ∈ lm s t) (hne : x ≠ k) :
    x ∈ lm (s.rawDelete cfg k).1 t := by
  rw [lm_rawDelete]
  split
  · exact List.mem_filter.mpr ⟨h, by simpa using hne⟩
  · exact h

theorem length_lm_rawDelete (cfg : Cfg) (s : St) (k t : Nat) : (lm (s.rawDelete cfg k).1 t).length ≤ (lm s t).length := by
  rw [lm_rawDelete]
  split
  · exact List.length_filter_le _ _
  · exact Nat.le_refl _

/-! ### `_get` -/

theorem touch_cases (cfg : Cfg) (s : St) (k : Nat) :
    ((s.touch cfg k).1 = s ∨ (s.touch cfg k).1 = (s.rawDelete cfg k).1) ∧ (s.touch cfg k).2 = readable s k := by
  unfold touch readable liveAt
  cases h : s.kv k with
  | none => simp
  | some e =>
    by_cases hl : e.live s.now = true
    · simp [hl]
    · simp [hl]

theorem touch_out (cfg : Cfg) (s : St) (k : Nat) : (s.touch cfg k).2 = readable s k := (touch_cases cfg s k).2

/-- a property of states kept by `_delete` is kept by `_get` -/
theorem touch_preserves {P : St → Prop} (cfg : Cfg) (s : St) (k : Nat) (h : P s) (hd : P (s.rawDelete cfg k).1) :
    P (s.touch cfg k).1 := by
  rcases (touch_cases cfg s k).1 with h' | h' <;> rw [h'] <;> assumption

theorem touch_readable (cfg : Cfg) (s : St) (k : Nat) : readable (s.touch cfg k).1 k = readable s k := by
  unfold touch readable liveAt
  cases h : s.kv k with
  | none => simp [h]
  | some e =>
    by_cases hl : e.live s.now = true
    · simp [hl, h]
    · simp [hl, rawDelete_kv]

/-! ### `_set` and the tagging loop -/

@[simp] theorem rawSet_now (s : St) (k : Nat) (v ttl) : (s.rawSet k v ttl).now = s.now := rfl
@[simp] theorem rawSet_ts (s : St) (k : Nat) (v ttl) : (s.rawSet k v ttl).ts = s.ts := rfl
@[simp] theorem rawSet_last (s : St) (k : Nat) (v ttl) : (s.rawSet k v ttl).last = s.last := rfl
@[simp] theorem rawSet_since (s : St) (k : Nat) (v ttl) : (s.rawSet k v ttl).since = s.since := rfl

theorem tagAll_frame (tags : List Nat) (s : St) (k : Nat) (ttl : Option Nat) :
    (s.tagAll tags k ttl).now = s.now ∧ (s.tagAll tags k ttl).kv = s.kv ∧
    (s.tagAll tags k ttl).last = s.last ∧ (s.tagAll tags k ttl).since = s.since := by
  induction tags generalizing s with
  | nil => simp [tagAll]
  | cons t r ih =>
    have := ih (s.setAdd t k ttl)
    simpa [tagAll] using this

theorem lm_tagAll (tags : List Nat) (s : St) (k t : Nat) (ttl : Option Nat) (x : Nat) :
    x ∈ lm (s.tagAll tags k ttl) t ↔ x ∈ lm s t ∨ (x = k ∧ t ∈ tags) := by
  induction tags generalizing s with
  | nil => simp [tagAll]
  | cons t0 r ih =>
    have h := ih (s.setAdd t0 k ttl)
    simp only [tagAll, List.foldl_cons] at h ⊢
    rw [h, lm_setAdd]
    by_cases h1 : t = t0
    · subst h1; simp [mem_insertKey]; grind
    · simp [h1]

end CashewsVerif.Tags
