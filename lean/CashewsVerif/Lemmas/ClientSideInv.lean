import CashewsVerif.Lemmas.ClientSide
/- C20: the quiescent-point invariant is preserved command by command. -/
set_option linter.unusedSimpArgs false
namespace CashewsVerif.Redis.CS
open CashewsVerif CashewsVerif.Redis

theorem deliverClient_nil (now : Nat) (c : Client) (h : c.queue = []) :
    (deliverClient now c).loc = c.loc ∧ (deliverClient now c).marks = c.marks := by
  unfold deliverClient; rw [h]; exact ⟨rfl, rfl⟩

/-- a live entry of a local copy after `lset k v`: it is the new one at `k`, an old one elsewhere -/
theorem lfind_lset {c : Client} {now : Nat} {k k' : String} {v : LVal} {ttl : Option Nat} {e : LEntry}
    (h : (c.lset now k v ttl).lfind now k' = some e) :
    (k' = k ∧ e.val = v) ∨ (k' ≠ k ∧ c.lfind now k' = some e) := by
  by_cases hk : k' = k
  · subst hk
    left
    simp only [Client.lset, Client.lfind, if_true, Option.filter_eq_some_iff] at h
    refine ⟨rfl, ?_⟩
    have := Option.some.inj h.1
    rw [← this]
  · right
    refine ⟨hk, ?_⟩
    simpa [Client.lset, Client.lfind, hk] using h

/-- a step that announces nothing and only touches the local copy of client `i` -/
theorem inv_local_only (st st' : St) (i : Nat) (hinv : Inv st)
    (hsrv : st'.srv = st.srv) (henc : st'.isEnc = st.isEnc)
    (hothers : ∀ j, j ≠ i → st'.cl j = st.cl j)
    (hi : (st'.cl i).queue = [] ∧ (st'.cl i).started = (st.cl i).started ∧ (st'.cl i).tracking = (st.cl i).tracking ∧
          ((st.cl i).started = true → (st'.cl i).noMarks (now st)))
    (hloc : (st.cl i).started = true → ∀ k e, (st'.cl i).lfind (now st) k = some e → agreeEntry st k e) :
    Inv (deliverAll st') := by
  have hnow : now st' = now st := by simp [now, hsrv]
  have hval : ∀ k, srvValue st' k = srvValue st k := by intro k; simp [srvValue, decodeS, hsrv, henc]
  refine inv_after st st' i [] hinv hnow ?_ ?_ (fun k _ => hval k) ?_ ?_
  · intro j
    by_cases hj : j = i
    · subst hj; exact ⟨hi.2.1, hi.2.2.1⟩
    · rw [hothers j hj]; exact ⟨rfl, rfl⟩
  · intro j
    by_cases hj : j = i
    · subst hj; simp [hi.1]
    · rw [hothers j hj]; simp [(hinv.1 j).1]
  · intro j hj; rw [hothers j hj]; exact ⟨rfl, rfl⟩
  · intro hs
    obtain ⟨d1, d2⟩ := deliverClient_nil (now st) (st'.cl i) hi.1
    refine ⟨?_, ?_⟩
    · intro k; simp only [Client.marked, d2]; exact hi.2.2.2 hs k
    · intro k e he
      have : (st'.cl i).lfind (now st) k = some e := by simpa [Client.lfind, d1] using he
      have := hloc hs k e this
      unfold agreeEntry at this ⊢
      rw [hval k]; exact this

theorem inv_get (st : St) (hinv : Inv st) (i : Nat) (k : String) : Inv (qstep st (.get i k)).1 := by
  simp only [qstep, step]
  split
  · -- local hit: nothing changes
    exact inv_local_only st st i hinv rfl rfl (fun _ _ => rfl) ⟨(hinv.1 i).1, rfl, rfl, fun hs => ((hinv.1 i).2 hs).2⟩ (fun hs k e he => hinv.2 i k e hs he)
  · exact inv_local_only st st i hinv rfl rfl (fun _ _ => rfl) ⟨(hinv.1 i).1, rfl, rfl, fun hs => ((hinv.1 i).2 hs).2⟩ (fun hs k e he => hinv.2 i k e hs he)
  · rename_i hmiss
    split
    · rename_i v hv
      refine inv_local_only st _ i hinv rfl rfl (fun j hj => by simp [upd, hj]) ?_ ?_
      · refine ⟨?_, ?_, ?_, fun hs => ?_⟩ <;> simp only [upd, if_true, Client.lset]
        · exact (hinv.1 i).1
        · exact ((hinv.1 i).2 hs).2
      · intro hs k' e he
        simp only [upd, if_true] at he
        rcases lfind_lset he with ⟨rfl, hval⟩ | ⟨_, hold⟩
        · unfold agreeEntry; rw [hval]; exact hv
        · exact hinv.2 i k' e hs hold
    · rename_i hv
      refine inv_local_only st _ i hinv rfl rfl (fun j hj => by simp [upd, hj]) ?_ ?_
      · refine ⟨?_, ?_, ?_, fun hs => ?_⟩ <;> simp only [upd, if_true, Client.lset]
        · exact (hinv.1 i).1
        · exact ((hinv.1 i).2 hs).2
      · intro hs k' e he
        simp only [upd, if_true] at he
        rcases lfind_lset he with ⟨rfl, hval⟩ | ⟨_, hold⟩
        · unfold agreeEntry; rw [hval]; exact hv
        · exact hinv.2 i k' e hs hold

/-- the serializer reads back what it wrote (C09): the payload of a written object is decodable -/
def Dec (st : St) : CVal → Prop
  | .int _ => True
  | .obj h => st.isEnc h = true

theorem decode_encode (st : St) (v : CVal) (h : Dec st v) : decodeS st (encode v) = some v := by
  cases v with
  | int i => rfl
  | obj x => simp [encode, decodeS, Dec] at h ⊢; exact h

theorem inv_exists (st : St) (hinv : Inv st) (i : Nat) (k : String) : Inv (qstep st (.exists_ i k)).1 := by
  simp only [qstep, step]
  split <;>
    exact inv_local_only st st i hinv rfl rfl (fun _ _ => rfl) ⟨(hinv.1 i).1, rfl, rfl, fun hs => ((hinv.1 i).2 hs).2⟩
      (fun hs k e he => hinv.2 i k e hs he)

/-- an accepted SET leaves exactly that value under the key; a refused one leaves the server alone -/
theorem exec_set_cases (s : Srv) (k : String) (b : Bytes) (ttl : Option Nat) (cond : Cond) :
    ((s.exec (.set k b (pxOf ttl) cond)).2 = .ok ∧
      ∃ dl, (s.exec (.set k b (pxOf ttl) cond)).1.ks.find k = some ⟨.str b, dl⟩) ∨
    ((s.exec (.set k b (pxOf ttl) cond)).2 ≠ .ok ∧ (s.exec (.set k b (pxOf ttl) cond)).1 = s) := by
  have hpx : pxOf ttl ≠ some 0 := by unfold pxOf; split <;> simp
  have hlive : ∀ dl : Option Nat, (dl = none ∨ ∃ y, dl = some (s.ks.now + (y + 1))) →
      (s.ks.put k ⟨.str b, dl⟩).find k = some ⟨.str b, dl⟩ := by
    intro dl h
    apply KS.find_put_self_live
    rcases h with rfl | ⟨y, rfl⟩
    · rfl
    · simp [REntry.live]
  simp only [Srv.exec, Srv.execPrim]
  cases hp : pxOf ttl with
  | none =>
    cases cond <;> cases hk : s.ks.present k <;> simp [hk] <;> exact ⟨_, hlive none (Or.inl rfl)⟩
  | some x =>
    cases x with
    | zero => exact absurd hp hpx
    | succ y =>
      cases cond <;> cases hk : s.ks.present k <;> simp [hk] <;> exact ⟨_, hlive _ (Or.inr ⟨y, rfl⟩)⟩

theorem marked_mark_self (c : Client) (now : Nat) (k : String) : (c.mark now k).marked now k = true := by
  simp [Client.mark, Client.marked, MARK_MS]

/-- the shape of the state after a write by client `i` that announced the keys `K` and then touched only `i`'s own
local copy and marks: everything `inv_after` wants to know except the writer's own agreement -/
theorem after_write (st st0 st1 st2 : St) (i : Nat) (c : Cmd) (hc : csCmd c = true) (hinv : Inv st)
    (h0srv : st0.srv = st.srv) (h0enc : st0.isEnc = st.isEnc) (h0cl : ∀ j, j ≠ i → st0.cl j = st.cl j)
    (h0i : (st0.cl i).queue = [] ∧ (st0.cl i).started = (st.cl i).started ∧ (st0.cl i).tracking = (st.cl i).tracking)
    (h1 : st1 = (srvCmd st0 c).1)
    (h2srv : st2.srv = st1.srv) (h2enc : st2.isEnc = st1.isEnc) (h2cl : ∀ j, j ≠ i → st2.cl j = st1.cl j)
    (h2i : (st2.cl i).queue = (st1.cl i).queue ∧ (st2.cl i).started = (st1.cl i).started ∧
           (st2.cl i).tracking = (st1.cl i).tracking) :
    now st2 = now st ∧
    (∀ j, (st2.cl j).started = (st.cl j).started ∧ (st2.cl j).tracking = (st.cl j).tracking) ∧
    (∀ j, (st2.cl j).queue = if (st.cl j).tracking then (touched st.srv c).map (fun k => Msg.keys [k]) else []) ∧
    (∀ k, k ∉ touched st.srv c → srvValue st2 k = srvValue st k) ∧
    (∀ j, j ≠ i → (st2.cl j).loc = (st.cl j).loc ∧ (st2.cl j).marks = (st.cl j).marks) ∧
    (st1.cl i).loc = (st0.cl i).loc ∧ (st1.cl i).marks = (st0.cl i).marks ∧ st1.srv = (st.srv.exec c).1 ∧
    (srvCmd st0 c).2 = (st.srv.exec c).2 := by
  have hq0 : ∀ j, (st0.cl j).queue = [] := by
    intro j; by_cases hj : j = i
    · subst hj; exact h0i.1
    · rw [h0cl j hj]; exact (hinv.1 j).1
  obtain ⟨f1, f2, f3, f4, f5, f6⟩ := srvCmd_facts st0 c hc hq0
  rw [← h1] at f1 f2 f4 f5 f6
  rw [h0srv] at f3 f4 f5 f6
  have hfl : ∀ j, (st0.cl j).started = (st.cl j).started ∧ (st0.cl j).tracking = (st.cl j).tracking := by
    intro j; by_cases hj : j = i
    · subst hj; exact ⟨h0i.2.1, h0i.2.2⟩
    · rw [h0cl j hj]; exact ⟨rfl, rfl⟩
  refine ⟨?_, ?_, ?_, ?_, ?_, (f5 i).1, (f5 i).2.1, f4, f3⟩
  · simp only [now, h2srv]; rw [show st1.srv.ks.now = now st1 from rfl, f1]; simp [now, h0srv]
  · intro j
    by_cases hj : j = i
    · subst hj; rw [h2i.2.1, h2i.2.2, (f5 j).2.2.1, (f5 j).2.2.2.1]; exact hfl j
    · rw [h2cl j hj, (f5 j).2.2.1, (f5 j).2.2.2.1]; exact hfl j
  · intro j
    by_cases hj : j = i
    · subst hj; rw [h2i.1, (f5 j).2.2.2.2, (hfl j).2]
    · rw [h2cl j hj, (f5 j).2.2.2.2, (hfl j).2]
  · intro k hk
    have : srvValue st2 k = srvValue st1 k := by simp [srvValue, decodeS, h2srv, h2enc]
    rw [this, f6 k hk]; simp [srvValue, decodeS, h0srv, h0enc]
  · intro j hj
    rw [h2cl j hj, (f5 j).1, (f5 j).2.1, h0cl j hj]; exact ⟨rfl, rfl⟩

theorem inv_set (st : St) (hinv : Inv st) (i : Nat) (k : String) (v : CVal) (ttl : Option Nat) (cond : Cond)
    (hdec : Dec st v) : Inv (qstep st (.set i k v ttl cond)).1 := by
  simp only [qstep, step]
  generalize hst0 : ({ st with cl := upd st.cl i ((st.cl i).mark (now st) k) } : St) = st0
  have h0srv : st0.srv = st.srv := by subst hst0; rfl
  have h0enc : st0.isEnc = st.isEnc := by subst hst0; rfl
  have h0cl : ∀ j, j ≠ i → st0.cl j = st.cl j := by intro j hj; subst hst0; simp [upd, hj]
  have hcli : st0.cl i = (st.cl i).mark (now st) k := by subst hst0; simp [upd]
  have h0i : (st0.cl i).queue = [] ∧ (st0.cl i).started = (st.cl i).started ∧ (st0.cl i).tracking = (st.cl i).tracking := by
    rw [hcli]; exact ⟨(hinv.1 i).1, rfl, rfl⟩
  generalize hst1 : (srvCmd st0 (.set k (encode v) (pxOf ttl) cond)).1 = st1
  rcases exec_set_cases st.srv k (encode v) ttl cond with ⟨hok, dl, hfind⟩ | ⟨hno, hsame⟩
  · -- accepted: the writer's mark swallows its own echo, the others drop their copies
    obtain ⟨a1, a2, a3, a4, a5, b1, b2, b3, b4⟩ := after_write st st0 st1
      { st1 with cl := upd st1.cl i ((st1.cl i).lset (now st) k (.val v) ttl) } i _ rfl hinv h0srv h0enc h0cl h0i hst1.symm
      rfl rfl (fun j hj => by simp [upd, hj]) (by simp [upd, Client.lset])
    have hK : touched st.srv (.set k (encode v) (pxOf ttl) cond) = [k] := by simp [touched, hok]
    rw [hK] at a3 a4
    have hr : (srvCmd st0 (.set k (encode v) (pxOf ttl) cond)).2 = .ok := b4.trans hok
    simp only [hr, if_true]
    refine inv_after st _ i [k] hinv a1 a2 a3 a4 a5 ?_
    intro hs
    have htr : (st.cl i).tracking = true := ((hinv.1 i).2 hs).1
    have hnm : (st.cl i).noMarks (now st) := ((hinv.1 i).2 hs).2
    generalize hci : (({ st1 with cl := upd st1.cl i ((st1.cl i).lset (now st) k (.val v) ttl) } : St).cl i) = ci
    have hqi : ci.queue = [Msg.keys [k]] := by rw [← hci, a3 i, htr]; rfl
    have hmi : ci.marks = ((st.cl i).mark (now st) k).marks := by
      rw [← hci]; simp only [upd, if_true, Client.lset]; rw [b2, hcli]
    have hli : ci.loc = ((st.cl i).lset (now st) k (.val v) ttl).loc := by
      rw [← hci]; simp only [upd, if_true, Client.lset, Client.lfind]; rw [b1, hcli]; rfl
    have hmk : ci.marked (now st) k = true := by
      simp only [Client.marked, hmi]; exact marked_mark_self _ _ _
    have hd : deliverClient (now st) ci = ({ ci with queue := [] } : Client).unmark k := by
      simp only [deliverClient, hqi, List.foldl_cons, List.foldl_nil, Client.applyMsg, Client.applyKey]
      have : ({ ci with queue := [] } : Client).marked (now st) k = true := hmk
      simp [this]
    rw [hd]
    refine ⟨?_, ?_⟩
    · intro k'
      by_cases hk : k' = k
      · subst hk; simp [Client.unmark, Client.marked]
      · have := hnm k'
        simpa [Client.unmark, Client.marked, hmi, Client.mark, hk] using this
    · intro k' e he
      have he' : ((st.cl i).lset (now st) k (.val v) ttl).lfind (now st) k' = some e := by
        simpa [Client.lfind, Client.unmark, hli] using he
      rcases lfind_lset he' with ⟨rfl, hval⟩ | ⟨hne, hold⟩
      · unfold agreeEntry; rw [hval]
        show srvValue st1 k' = some v
        have henc1 : st1.isEnc = st.isEnc := by rw [← hst1]; exact h0enc
        simp only [srvValue, b3, hfind]
        have := decode_encode st v hdec
        cases v with
        | int x => rfl
        | obj h => simpa [decodeS, encode, henc1] using this
      · have := hinv.2 i k' e hs hold
        unfold agreeEntry at this ⊢
        rw [a4 k' (by simpa using hne)]
        exact this
  · -- refused: the server is untouched, the mark is taken back, the local copy was never written
    obtain ⟨a1, a2, a3, a4, a5, b1, b2, b3, b4⟩ := after_write st st0 st1
      { st1 with cl := upd st1.cl i ((st1.cl i).unmark k) } i _ rfl hinv h0srv h0enc h0cl h0i hst1.symm
      rfl rfl (fun j hj => by simp [upd, hj]) (by simp [upd, Client.unmark])
    have hK : touched st.srv (.set k (encode v) (pxOf ttl) cond) = [] := by simp [touched, hno]
    rw [hK] at a3 a4
    have hr : (srvCmd st0 (.set k (encode v) (pxOf ttl) cond)).2 ≠ .ok := by rw [b4]; exact hno
    simp only [hr, if_false]
    refine inv_after st _ i [] hinv a1 a2 a3 a4 a5 ?_
    intro hs
    have hnm : (st.cl i).noMarks (now st) := ((hinv.1 i).2 hs).2
    generalize hci : (({ st1 with cl := upd st1.cl i ((st1.cl i).unmark k) } : St).cl i) = ci
    have hqi : ci.queue = [] := by rw [← hci, a3 i]; simp
    obtain ⟨d1, d2⟩ := deliverClient_nil (now st) ci hqi
    have hmi : ci.marks = (((st.cl i).mark (now st) k).unmark k).marks := by
      rw [← hci]; simp only [upd, if_true, Client.unmark]; rw [b2, hcli]
    have hli : ci.loc = (st.cl i).loc := by
      rw [← hci]; simp only [upd, if_true, Client.unmark]; rw [b1, hcli]; rfl
    refine ⟨?_, ?_⟩
    · intro k'
      simp only [Client.marked, d2, hmi, Client.unmark, Client.mark]
      by_cases hk : k' = k
      · simp [hk]
      · have := hnm k'; simpa [Client.marked, hk] using this
    · intro k' e he
      have he' : (st.cl i).lfind (now st) k' = some e := by simpa [Client.lfind, d1, hli] using he
      have := hinv.2 i k' e hs he'
      unfold agreeEntry at this ⊢
      rw [a4 k' (by simp)]
      exact this


theorem srvValue_of_absent (st : St) (k : String) (h : st.srv.ks.present k = false) : srvValue st k = none := by
  simp only [KS.present, Option.isSome_eq_false_iff, Option.isNone_iff_eq_none] at h
  simp [srvValue, h]

theorem inv_delete (st : St) (hinv : Inv st) (i : Nat) (k : String) : Inv (qstep st (.delete i k)).1 := by
  simp only [qstep, step]
  generalize hst0 : ({ st with cl := upd st.cl i ((st.cl i).lset (now st) k .absent none) } : St) = st0
  have h0srv : st0.srv = st.srv := by subst hst0; rfl
  have h0enc : st0.isEnc = st.isEnc := by subst hst0; rfl
  have h0cl : ∀ j, j ≠ i → st0.cl j = st.cl j := by intro j hj; subst hst0; simp [upd, hj]
  have hcli : st0.cl i = (st.cl i).lset (now st) k .absent none := by subst hst0; simp [upd]
  have h0i : (st0.cl i).queue = [] ∧ (st0.cl i).started = (st.cl i).started ∧ (st0.cl i).tracking = (st.cl i).tracking := by
    rw [hcli]; exact ⟨(hinv.1 i).1, rfl, rfl⟩
  generalize hst1 : (srvCmd st0 (.unlink [k])).1 = st1
  obtain ⟨a1, a2, a3, a4, a5, b1, b2, b3, b4⟩ := after_write st st0 st1 st1 i (.unlink [k]) rfl hinv h0srv h0enc h0cl h0i hst1.symm
    rfl rfl (fun _ _ => rfl) ⟨rfl, rfl, rfl⟩
  refine inv_after st st1 i _ hinv a1 a2 a3 a4 a5 ?_
  intro hs
  have htr : (st.cl i).tracking = true := ((hinv.1 i).2 hs).1
  have hnm : (st.cl i).noMarks (now st) := ((hinv.1 i).2 hs).2
  have hq := a3 i
  rw [htr, if_pos rfl] at hq
  have hm1 : (st1.cl i).noMarks (now st) := by
    intro k'; simp only [Client.marked, b2, hcli, Client.lset]; exact hnm k'
  obtain ⟨g1, g2⟩ := deliverClient_keys (now st) (st1.cl i) _ hq hm1
  refine ⟨?_, ?_⟩
  · intro k'; simp only [Client.marked, g2]; exact hm1 k'
  · intro k' e he
    have hk : k' ∉ touched st.srv (.unlink [k]) := by
      intro hk; simp [Client.lfind, g1 k', hk] at he
    have he' : ((st.cl i).lset (now st) k .absent none).lfind (now st) k' = some e := by
      simpa [Client.lfind, g1 k', hk, b1, hcli] using he
    unfold agreeEntry
    rw [a4 k' hk]
    rcases lfind_lset he' with ⟨rfl, hval⟩ | ⟨hne, hold⟩
    · rw [hval]
      -- not announced, so it was not there
      apply srvValue_of_absent
      simp only [touched, List.mem_filter, List.mem_singleton, true_and] at hk
      simpa using hk
    · exact hinv.2 i k' e hs hold

/-- `expire` with a non-positive time (as repaired, D37): the server deletes the key, the caller remembers "absent" -/
theorem inv_expire_zero (st : St) (hinv : Inv st) (i : Nat) (k : String) :
    Inv (deliverAll (srvCmd ({ st with cl := upd st.cl i ((st.cl i).lset (now st) k .absent none) } : St) (.pexpire k 0)).1) := by
  generalize hst0 : ({ st with cl := upd st.cl i ((st.cl i).lset (now st) k .absent none) } : St) = st0
  have h0srv : st0.srv = st.srv := by subst hst0; rfl
  have h0enc : st0.isEnc = st.isEnc := by subst hst0; rfl
  have h0cl : ∀ j, j ≠ i → st0.cl j = st.cl j := by intro j hj; subst hst0; simp [upd, hj]
  have hcli : st0.cl i = (st.cl i).lset (now st) k .absent none := by subst hst0; simp [upd]
  have h0i : (st0.cl i).queue = [] ∧ (st0.cl i).started = (st.cl i).started ∧ (st0.cl i).tracking = (st.cl i).tracking := by
    rw [hcli]; exact ⟨(hinv.1 i).1, rfl, rfl⟩
  generalize hst1 : (srvCmd st0 (.pexpire k 0)).1 = st1
  obtain ⟨a1, a2, a3, a4, a5, b1, b2, b3, b4⟩ := after_write st st0 st1 st1 i (.pexpire k 0) rfl hinv h0srv h0enc h0cl h0i hst1.symm
    rfl rfl (fun _ _ => rfl) ⟨rfl, rfl, rfl⟩
  refine inv_after st st1 i _ hinv a1 a2 a3 a4 a5 ?_
  intro hs
  have htr : (st.cl i).tracking = true := ((hinv.1 i).2 hs).1
  have hnm : (st.cl i).noMarks (now st) := ((hinv.1 i).2 hs).2
  have hq := a3 i
  rw [htr, if_pos rfl] at hq
  have hm1 : (st1.cl i).noMarks (now st) := by
    intro k'; simp only [Client.marked, b2, hcli, Client.lset]; exact hnm k'
  obtain ⟨g1, g2⟩ := deliverClient_keys (now st) (st1.cl i) _ hq hm1
  refine ⟨?_, ?_⟩
  · intro k'; simp only [Client.marked, g2]; exact hm1 k'
  · intro k' e he
    have hk : k' ∉ touched st.srv (.pexpire k 0) := by
      intro hk; simp [Client.lfind, g1 k', hk] at he
    have he' : ((st.cl i).lset (now st) k .absent none).lfind (now st) k' = some e := by
      simpa [Client.lfind, g1 k', hk, b1, hcli] using he
    unfold agreeEntry
    rw [a4 k' hk]
    rcases lfind_lset he' with ⟨rfl, hval⟩ | ⟨hne, hold⟩
    · rw [hval]
      -- not announced, so it was not there
      apply srvValue_of_absent
      simp only [touched] at hk
      cases hp : st.srv.ks.present k' with
      | false => rfl
      | true => simp [hp] at hk
    · exact hinv.2 i k' e hs hold

/-- every stored key is listed (so that expiry can find it) -/
def DomOK (s : KS) : Prop := ∀ k, (s.m k).isSome = true → k ∈ s.dom

theorem domOK_put {s : KS} (h : DomOK s) (k e) : DomOK (s.put k e) := by
  intro k' hk'
  simp only [KS.put] at hk' ⊢
  by_cases hkk : k' = k
  · subst hkk; by_cases hm : k' ∈ s.dom <;> simp [hm]
  · simp only [hkk, if_false] at hk'
    have := h k' hk'
    by_cases hm : k ∈ s.dom <;> simp [hm, this]

theorem domOK_del {s : KS} (h : DomOK s) (k) : DomOK (s.del k) := by
  intro k' hk'
  simp only [KS.del] at hk' ⊢
  by_cases hkk : k' = k
  · simp [hkk] at hk'
  · simp only [hkk, if_false] at hk'; exact h k' hk'

theorem domOK_delMany {s : KS} (h : DomOK s) (ks : List String) : DomOK (s.delMany ks) := by
  induction ks generalizing s with
  | nil => exact h
  | cons a l ih => simp only [KS.delMany, List.foldl_cons] at ih ⊢; exact ih (domOK_del h a)

theorem domOK_execPrim (s : Srv) (c : Cmd) (hc : csCmd c = true) (h : DomOK s.ks) : DomOK (s.execPrim c).1.ks := by
  cases c <;> simp [csCmd] at hc <;> simp only [Srv.execPrim] <;> (repeat' split) <;>
    first | exact h | exact domOK_put h _ _ | exact domOK_del h _ | exact domOK_delMany h _

theorem domOK_exec (s : Srv) (c : Cmd) (hc : csCmd c = true) (h : DomOK s.ks) : DomOK (s.exec c).1.ks := by
  cases c with
  | evalsha sha k0 args =>
    match sha, args, hc with
    | some .incrExpire, [.num b, .num ms], _ =>
      by_cases hl : Script.incrExpire ∈ s.loaded
      · simp only [Srv.exec, hl, if_true, Srv.runIncrExpire]
        have a := domOK_execPrim s (.incrby k0 b) rfl h
        cases hr : (s.execPrim (.incrby k0 b)).2 with
        | int c =>
          by_cases hc1 : c = 1
          · simp only [hc1, if_true]; exact domOK_execPrim _ (.pexpire k0 ms) rfl a
          · simp only [hc1, if_false]; exact a
        | _ => exact h
      · simpa [Srv.exec, hl] using h
    | some .unlock, [tok], _ =>
      rcases exec_unlock_cases s k0 tok with h' | h' | ⟨_, h'⟩ <;> rw [h']
      · exact h
      · exact h
      · exact domOK_delMany h _
  | set k v px c => exact domOK_execPrim s _ hc h
  | unlink ks => exact domOK_execPrim s _ hc h
  | pexpire k ms => exact domOK_execPrim s _ hc h
  | incrby k b => exact domOK_execPrim s _ hc h
  | _ => simp [csCmd] at hc

theorem live_mono {e : REntry} {t dt : Nat} (h : e.live (t + dt) = true) : e.live t = true := by
  unfold REntry.live at h ⊢
  cases hd : e.dl with
  | none => rfl
  | some d => rw [hd] at h; simp only [decide_eq_true_eq] at h ⊢; omega

theorem llive_mono {e : LEntry} {t dt : Nat} (h : e.live (t + dt) = true) : e.live t = true := by
  unfold LEntry.live at h ⊢
  cases hd : e.dl with
  | none => rfl
  | some d => rw [hd] at h; simp only [decide_eq_true_eq] at h ⊢; omega

theorem find_adv (s : KS) (dt : Nat) (k : String) :
    (s.adv dt).find k = (s.find k).filter fun e => e.live (s.now + dt) := by
  simp only [KS.find, KS.adv]
  cases h : s.m k with
  | none => simp
  | some e =>
    by_cases h1 : e.live (s.now + dt) = true
    · have := live_mono h1
      simp [Option.filter, h1, this]
    · by_cases h2 : e.live s.now = true <;> simp [Option.filter, h1, h2]

theorem inv_adv (st : St) (hinv : Inv st) (hdom : DomOK st.srv.ks) (dt : Nat) : Inv (qstep st (.adv dt)).1 := by
  simp only [qstep, step]
  obtain ⟨hq, ha⟩ := hinv
  generalize hg : (st.srv.ks.dom.filter fun k => st.srv.ks.present k && !((st.srv.ks.adv dt).present k)) = gone
  have hst' : advance st dt = { st with srv := st.srv.adv dt, cl := announceKeys st.cl gone } := by
    simp only [advance, hg]
  rw [hst']
  have hnow' : now ({ st with srv := st.srv.adv dt, cl := announceKeys st.cl gone } : St) = now st + dt := rfl
  have hfields := fun j => announceKeys_fields st.cl gone j
  have hmono : ∀ (c : Client), c.noMarks (now st) → c.noMarks (now st + dt) := by
    intro c h k
    have := h k
    simp only [Client.marked] at this ⊢
    cases hm : c.marks k with
    | none => rfl
    | some d => simp [hm] at this ⊢; omega
  constructor
  · intro j
    obtain ⟨f1, f2, f3⟩ := deliverClient_fields (now st + dt) (announceKeys st.cl gone j)
    obtain ⟨g1, g2, g3, g4, g5⟩ := hfields j
    refine ⟨f1, fun hs => ?_⟩
    have hs' : (st.cl j).started = true := by
      have : (deliverAll ({ st with srv := st.srv.adv dt, cl := announceKeys st.cl gone } : St)).cl j =
          deliverClient (now st + dt) (announceKeys st.cl gone j) := rfl
      rw [this, f2, g3] at hs; exact hs
    obtain ⟨ht, hm⟩ := (hq j).2 hs'
    refine ⟨?_, ?_⟩
    · show (deliverClient (now st + dt) (announceKeys st.cl gone j)).tracking = true
      rw [f3, g4]; exact ht
    · show (deliverClient (now st + dt) (announceKeys st.cl gone j)).noMarks (now st + dt)
      have hq' : (announceKeys st.cl gone j).queue = gone.map (fun k => Msg.keys [k]) := by
        rw [g5, ht, (hq j).1]; simp
      have hm' : (announceKeys st.cl gone j).noMarks (now st + dt) := by
        intro k; simp only [Client.marked, g2]; exact hmono _ hm k
      obtain ⟨_, d2⟩ := deliverClient_keys (now st + dt) _ gone hq' hm'
      intro k; simp only [Client.marked, d2]; exact hm' k
  · intro j k e hs hf
    obtain ⟨f1, f2, f3⟩ := deliverClient_fields (now st + dt) (announceKeys st.cl gone j)
    obtain ⟨g1, g2, g3, g4, g5⟩ := hfields j
    have hdc : (deliverAll ({ st with srv := st.srv.adv dt, cl := announceKeys st.cl gone } : St)).cl j =
        deliverClient (now st + dt) (announceKeys st.cl gone j) := rfl
    have hs' : (st.cl j).started = true := by rw [hdc, f2, g3] at hs; exact hs
    obtain ⟨ht, hm⟩ := (hq j).2 hs'
    have hq' : (announceKeys st.cl gone j).queue = gone.map (fun k => Msg.keys [k]) := by
      rw [g5, ht, (hq j).1]; simp
    have hm' : (announceKeys st.cl gone j).noMarks (now st + dt) := by
      intro k; simp only [Client.marked, g2]; exact hmono _ hm k
    obtain ⟨d1, _⟩ := deliverClient_keys (now st + dt) _ gone hq' hm'
    have hf' : (deliverClient (now st + dt) (announceKeys st.cl gone j)).lfind (now st + dt) k = some e := by
      rw [hdc] at hf; exact hf
    have hk : k ∉ gone := by
      intro hk; simp [Client.lfind, d1 k, hk] at hf'
    have hloc : ((st.cl j).loc k).filter (fun e => e.live (now st + dt)) = some e := by
      simpa [Client.lfind, d1 k, hk, g1] using hf'
    have hold : (st.cl j).lfind (now st) k = some e := by
      simp only [Option.filter_eq_some_iff] at hloc
      simp only [Client.lfind, Option.filter_eq_some_iff]
      exact ⟨hloc.1, llive_mono hloc.2⟩
    have hagree := ha j k e hs' hold
    -- the server side of key k after the advance
    have hfind : (st.srv.ks.adv dt).find k = (st.srv.ks.find k).filter fun e => e.live (st.srv.ks.now + dt) := find_adv _ _ _
    show agreeEntry ({ st with srv := st.srv.adv dt, cl := _ } : St) k e
    unfold agreeEntry at hagree ⊢
    cases hv : e.val with
    | absent =>
      rw [hv] at hagree
      simp only [srvValue] at hagree ⊢
      show (match (st.srv.ks.adv dt).find k with | some ⟨.str b, _⟩ => decodeS _ b | _ => none) = none
      rw [hfind]
      cases hfk : st.srv.ks.find k with
      | none => simp
      | some se =>
        rw [hfk] at hagree
        by_cases hl : se.live (st.srv.ks.now + dt) = true
        · simp only [Option.filter, hl, if_true]; exact hagree
        · simp [Option.filter, hl]
    | val v =>
      rw [hv] at hagree
      simp only [srvValue] at hagree ⊢
      show (match (st.srv.ks.adv dt).find k with | some ⟨.str b, _⟩ => decodeS _ b | _ => none) = some v
      cases hfk : st.srv.ks.find k with
      | none => rw [hfk] at hagree; simp at hagree
      | some se =>
        rw [hfk] at hagree
        -- still visible: otherwise it would have been announced and the local entry dropped
        have hpres : st.srv.ks.present k = true := by simp [KS.present, hfk]
        have hmem : k ∈ st.srv.ks.dom := by
          apply hdom
          simp only [KS.find, Option.filter_eq_some_iff] at hfk
          simp [hfk.1]
        have hstill : (st.srv.ks.adv dt).present k = true := by
          by_cases hnot : (st.srv.ks.adv dt).present k = true
          · exact hnot
          · exfalso
            apply hk
            rw [← hg]
            simp only [List.mem_filter]
            exact ⟨hmem, by simp [hpres, hnot]⟩
        have hl : se.live (st.srv.ks.now + dt) = true := by
          simp only [KS.present, hfind, hfk, Option.filter] at hstill
          by_cases hl : se.live (st.srv.ks.now + dt) = true
          · exact hl
          · simp [hl] at hstill
        rw [hfind, hfk]
        simp only [Option.filter, hl, if_true]
        exact hagree

theorem inv_clear (st : St) (hinv : Inv st) (i : Nat) : Inv (qstep st (.clear i)).1 := by
  obtain ⟨hq, ha⟩ := hinv
  simp only [qstep, step, srvCmd]
  generalize hcl0 : upd st.cl i (st.cl i).lclear = cl0
  have h0 : ∀ j, (cl0 j).queue = [] ∧ (cl0 j).started = (st.cl j).started ∧ (cl0 j).tracking = (st.cl j).tracking ∧
      (cl0 j).marks = (st.cl j).marks := by
    intro j; subst hcl0
    by_cases hj : j = i
    · subst hj; simp [upd, Client.lclear, (hq j).1]
    · simp [upd, hj, (hq j).1]
  have hdel : ∀ j, (st.cl j).tracking = true →
      (deliverClient (now st) (announce cl0 .flush j)).loc = (fun _ => none) ∧
      (deliverClient (now st) (announce cl0 .flush j)).marks = (st.cl j).marks := by
    intro j ht
    have hqq : (announce cl0 .flush j).queue = [Msg.flush] := by
      rw [announce_queue, (h0 j).2.2.1, ht, (h0 j).1]; rfl
    refine ⟨?_, ?_⟩ <;> simp only [deliverClient, hqq, List.foldl_cons, List.foldl_nil, Client.applyMsg, Client.lclear]
    simp [(h0 j).2.2.2]
  constructor
  · intro j
    obtain ⟨f1, f2, f3⟩ := deliverClient_fields (now st) (announce cl0 .flush j)
    refine ⟨f1, fun hs => ?_⟩
    have hs' : (st.cl j).started = true := by
      have : (deliverClient (now st) (announce cl0 .flush j)).started = true := hs
      rw [f2, announce_started, (h0 j).2.1] at this; exact this
    obtain ⟨ht, hm⟩ := (hq j).2 hs'
    refine ⟨?_, ?_⟩
    · show (deliverClient (now st) (announce cl0 .flush j)).tracking = true
      rw [f3, announce_tracking, (h0 j).2.2.1]; exact ht
    · intro k
      show (deliverClient (now st) (announce cl0 .flush j)).marked (now st) k = false
      simp only [Client.marked, (hdel j ht).2]; exact hm k
  · intro j k e hs hf
    obtain ⟨f1, f2, f3⟩ := deliverClient_fields (now st) (announce cl0 .flush j)
    have hs' : (st.cl j).started = true := by
      have : (deliverClient (now st) (announce cl0 .flush j)).started = true := hs
      rw [f2, announce_started, (h0 j).2.1] at this; exact this
    obtain ⟨ht, _⟩ := (hq j).2 hs'
    have : (deliverClient (now st) (announce cl0 .flush j)).lfind (now st) k = some e := hf
    simp [Client.lfind, (hdel j ht).1] at this

theorem inv_drop (st : St) (hinv : Inv st) (i : Nat) : Inv (qstep st (.drop i)).1 := by
  obtain ⟨hq, ha⟩ := hinv
  simp only [qstep, step]
  have hcl : ∀ j, (deliverAll ({ st with cl := upd st.cl i { (st.cl i).lclear with started := false, tracking := false, queue := [] } } : St)).cl j =
      if j = i then { (st.cl i).lclear with started := false, tracking := false, queue := [] } else st.cl j := by
    intro j
    simp only [deliverAll, upd, deliverClient]
    by_cases hj : j = i
    · simp [hj]
    · simp only [hj, if_false, (hq j).1, List.foldl_nil]
      have := (hq j).1
      cases hc : st.cl j; simp_all
  constructor
  · intro j
    rw [hcl j]
    by_cases hj : j = i
    · simp [hj]
    · simp only [hj, if_false]; exact hq j
  · intro j k e hs hf
    rw [hcl j] at hs hf
    by_cases hj : j = i
    · simp [hj] at hs
    · simp only [hj, if_false] at hs hf
      exact ha j k e hs hf

theorem inv_reconnect (st : St) (hinv : Inv st) (i : Nat) : Inv (qstep st (.reconnect i)).1 := by
  obtain ⟨hq, ha⟩ := hinv
  simp only [qstep, step]
  have hcl : ∀ j, (deliverAll ({ st with cl := upd st.cl i { (st.cl i).lclear with started := true, tracking := true, queue := [], marks := fun _ => none } } : St)).cl j =
      if j = i then { (st.cl i).lclear with started := true, tracking := true, queue := [], marks := fun _ => none } else st.cl j := by
    intro j
    simp only [deliverAll, upd, deliverClient]
    by_cases hj : j = i
    · simp [hj]
    · simp only [hj, if_false, (hq j).1, List.foldl_nil]
      have := (hq j).1
      cases hc : st.cl j; simp_all
  constructor
  · intro j
    rw [hcl j]
    by_cases hj : j = i
    · simp [hj, Client.noMarks, Client.marked]
    · simp only [hj, if_false]; exact hq j
  · intro j k e hs hf
    rw [hcl j] at hs hf
    by_cases hj : j = i
    · simp [hj, Client.lfind, Client.lclear] at hf
    · simp only [hj, if_false] at hs hf
      exact ha j k e hs hf


/-- INCRBY either fails and changes nothing, or leaves the new number under the key -/
theorem exec_incrby_cases (s : Srv) (k : String) (b : Int) :
    ((s.exec (.incrby k b)).2 = .err ∧ (s.exec (.incrby k b)).1 = s) ∨
    (∃ n dl, (s.exec (.incrby k b)).2 = .int n ∧ (s.exec (.incrby k b)).1.ks.find k = some ⟨.str (.num n), dl⟩) := by
  simp only [Srv.exec, Srv.execPrim]
  cases hf : s.ks.find k with
  | none => right; exact ⟨b, none, rfl, KS.find_put_self_live _ _ _ rfl⟩
  | some e =>
    obtain ⟨v, dl⟩ := e
    cases v with
    | str x =>
      cases x with
      | num i => right; exact ⟨i + b, dl, rfl, KS.find_put_self_live _ _ _ ((by have := KS.find_live hf; simpa [REntry.live] using this))⟩
      | blob h => left; exact ⟨rfl, rfl⟩
    | _ => left; exact ⟨rfl, rfl⟩

theorem inv_incr (st : St) (hinv : Inv st) (i : Nat) (k : String) (b : Int) (ttl : Option Nat) (hp : pxOf ttl = none) :
    Inv (qstep st (.incr i k b ttl)).1 := by
  simp only [qstep, step, hp]
  have h0i : (st.cl i).queue = [] ∧ (st.cl i).started = (st.cl i).started ∧ (st.cl i).tracking = (st.cl i).tracking :=
    ⟨(hinv.1 i).1, rfl, rfl⟩
  generalize hst1 : (srvCmd st (.incrby k b)).1 = st1
  rcases exec_incrby_cases st.srv k b with ⟨herr, hsame⟩ | ⟨n, dl, hint, hfind⟩
  · -- refused (wrong type / not a number): nothing happens anywhere
    obtain ⟨a1, a2, a3, a4, a5, b1, b2, b3, b4⟩ := after_write st st st1 st1 i (.incrby k b) rfl hinv rfl rfl (fun _ _ => rfl) h0i
      hst1.symm rfl rfl (fun _ _ => rfl) ⟨rfl, rfl, rfl⟩
    have hK : touched st.srv (.incrby k b) = [] := by simp [touched, herr]
    rw [hK] at a3 a4
    have hr : (srvCmd st (.incrby k b)).2 = .err := b4.trans herr
    simp only [hr]
    refine inv_after st st1 i [] hinv a1 a2 a3 a4 a5 ?_
    intro hs
    have hqi : (st1.cl i).queue = [] := by rw [a3 i]; simp
    obtain ⟨d1, d2⟩ := deliverClient_nil (now st) (st1.cl i) hqi
    refine ⟨?_, ?_⟩
    · intro k'; simp only [Client.marked, d2, b2]; exact ((hinv.1 i).2 hs).2 k'
    · intro k' e he
      have he' : (st.cl i).lfind (now st) k' = some e := by simpa [Client.lfind, d1, b1] using he
      have := hinv.2 i k' e hs he'
      unfold agreeEntry at this ⊢
      rw [a4 k' (by simp)]; exact this
  · have hK : touched st.srv (.incrby k b) = [k] := by simp [touched, hint]
    by_cases hn : n = 0
    · -- the counter reached 0: nothing is remembered locally, the echo drops the writer's copy like everybody's
      obtain ⟨a1, a2, a3, a4, a5, b1, b2, b3, b4⟩ := after_write st st st1 st1 i (.incrby k b) rfl hinv rfl rfl (fun _ _ => rfl) h0i
        hst1.symm rfl rfl (fun _ _ => rfl) ⟨rfl, rfl, rfl⟩
      rw [hK] at a3 a4
      have hr : (srvCmd st (.incrby k b)).2 = .int n := b4.trans hint
      simp only [hr, hn, ne_eq, not_true_eq_false, if_false]
      refine inv_after st st1 i [k] hinv a1 a2 a3 a4 a5 ?_
      intro hs
      have htr := ((hinv.1 i).2 hs).1
      have hnm := ((hinv.1 i).2 hs).2
      have hq := a3 i
      rw [htr, if_pos rfl] at hq
      have hm1 : (st1.cl i).noMarks (now st) := by intro k'; simp only [Client.marked, b2]; exact hnm k'
      obtain ⟨g1, g2⟩ := deliverClient_keys (now st) (st1.cl i) _ hq hm1
      refine ⟨?_, ?_⟩
      · intro k'; simp only [Client.marked, g2]; exact hm1 k'
      · intro k' e he
        have hk : k' ∉ [k] := by intro hk; simp [Client.lfind, g1 k', hk] at he
        have he' : (st.cl i).lfind (now st) k' = some e := by simpa [Client.lfind, g1 k', hk, b1] using he
        have := hinv.2 i k' e hs he'
        unfold agreeEntry at this ⊢
        rw [a4 k' hk]; exact this
    · -- the new number is remembered and marked; the mark swallows the echo
      obtain ⟨a1, a2, a3, a4, a5, b1, b2, b3, b4⟩ := after_write st st st1
        { st1 with cl := upd st1.cl i (((st1.cl i).lset (now st) k (.val (.int n)) ttl).mark (now st) k) } i (.incrby k b) rfl hinv
        rfl rfl (fun _ _ => rfl) h0i hst1.symm rfl rfl (fun j hj => by simp [upd, hj]) (by simp [upd, Client.lset, Client.mark])
      rw [hK] at a3 a4
      have hr : (srvCmd st (.incrby k b)).2 = .int n := b4.trans hint
      simp only [hr, hn, ne_eq, not_false_eq_true, if_true]
      refine inv_after st _ i [k] hinv a1 a2 a3 a4 a5 ?_
      intro hs
      have htr : (st.cl i).tracking = true := ((hinv.1 i).2 hs).1
      have hnm : (st.cl i).noMarks (now st) := ((hinv.1 i).2 hs).2
      generalize hci : (({ st1 with cl := upd st1.cl i (((st1.cl i).lset (now st) k (.val (.int n)) ttl).mark (now st) k) } : St).cl i) = ci
      have hqi : ci.queue = [Msg.keys [k]] := by rw [← hci, a3 i, htr]; rfl
      have hmi : ci.marks = ((st.cl i).mark (now st) k).marks := by
        rw [← hci]; simp only [upd, if_true, Client.lset, Client.mark]; rw [b2]
      have hli : ci.loc = ((st.cl i).lset (now st) k (.val (.int n)) ttl).loc := by
        rw [← hci]; simp only [upd, if_true, Client.lset, Client.lfind, Client.mark]; rw [b1]
      have hmk : ci.marked (now st) k = true := by
        simp only [Client.marked, hmi]; exact marked_mark_self _ _ _
      have hd : deliverClient (now st) ci = ({ ci with queue := [] } : Client).unmark k := by
        simp only [deliverClient, hqi, List.foldl_cons, List.foldl_nil, Client.applyMsg, Client.applyKey]
        have : ({ ci with queue := [] } : Client).marked (now st) k = true := hmk
        simp [this]
      rw [hd]
      refine ⟨?_, ?_⟩
      · intro k'
        by_cases hk : k' = k
        · subst hk; simp [Client.unmark, Client.marked]
        · have := hnm k'
          simpa [Client.unmark, Client.marked, hmi, Client.mark, hk] using this
      · intro k' e he
        have he' : ((st.cl i).lset (now st) k (.val (.int n)) ttl).lfind (now st) k' = some e := by
          simpa [Client.lfind, Client.unmark, hli] using he
        rcases lfind_lset he' with ⟨rfl, hval⟩ | ⟨hne, hold⟩
        · unfold agreeEntry; rw [hval]
          show srvValue st1 k' = some (.int n)
          simp only [srvValue, b3, hfind]; rfl
        · have := hinv.2 i k' e hs hold
          unfold agreeEntry at this ⊢
          rw [a4 k' (by simpa using hne)]; exact this


theorem foldl_absent_fields (now : Nat) (ks : List String) :
    ∀ (c : Client), let c' := ks.foldl (fun c k => c.lset now k .absent none) c
      c'.queue = c.queue ∧ c'.started = c.started ∧ c'.tracking = c.tracking ∧ c'.marks = c.marks := by
  induction ks with
  | nil => intro c; exact ⟨rfl, rfl, rfl, rfl⟩
  | cons a ks ih => intro c; simp only [List.foldl_cons]; exact ih (c.lset now a .absent none)

theorem lfind_foldl_absent (now : Nat) (ks : List String) :
    ∀ (c : Client) (k' : String) (e : LEntry),
      (ks.foldl (fun c k => c.lset now k .absent none) c).lfind now k' = some e →
      (k' ∈ ks ∧ e.val = .absent) ∨ (k' ∉ ks ∧ c.lfind now k' = some e) := by
  induction ks with
  | nil => intro c k' e h; exact Or.inr ⟨by simp, h⟩
  | cons a ks ih =>
    intro c k' e h
    simp only [List.foldl_cons] at h
    rcases ih _ k' e h with ⟨hm, hv⟩ | ⟨hm, hf⟩
    · exact Or.inl ⟨by simp [hm], hv⟩
    · rcases lfind_lset hf with ⟨rfl, hv⟩ | ⟨hne, hold⟩
      · exact Or.inl ⟨by simp, hv⟩
      · exact Or.inr ⟨by simp [hm, hne], hold⟩

theorem inv_deleteMany (st : St) (hinv : Inv st) (i : Nat) (ks : List String) : Inv (qstep st (.deleteMany i ks)).1 := by
  simp only [qstep, step]
  generalize hc : ks.foldl (fun c k => c.lset (now st) k .absent none) (st.cl i) = c
  obtain ⟨q1, q2, q3, q4⟩ := foldl_absent_fields (now st) ks (st.cl i)
  rw [hc] at q1 q2 q3 q4
  generalize hst0 : ({ st with cl := upd st.cl i c } : St) = st0
  have h0srv : st0.srv = st.srv := by subst hst0; rfl
  have h0enc : st0.isEnc = st.isEnc := by subst hst0; rfl
  have h0cl : ∀ j, j ≠ i → st0.cl j = st.cl j := by intro j hj; subst hst0; simp [upd, hj]
  have hcli : st0.cl i = c := by subst hst0; simp [upd]
  have h0i : (st0.cl i).queue = [] ∧ (st0.cl i).started = (st.cl i).started ∧ (st0.cl i).tracking = (st.cl i).tracking := by
    rw [hcli, q1, q2, q3]; exact ⟨(hinv.1 i).1, rfl, rfl⟩
  by_cases hks : ks.isEmpty = true
  · -- nothing to delete: nothing changes
    have : ks = [] := by simpa using hks
    subst this
    simp only [List.isEmpty_nil, if_true]
    simp only [List.foldl_nil] at hc
    subst hc
    refine inv_local_only st st0 i hinv h0srv h0enc h0cl ⟨h0i.1, h0i.2.1, h0i.2.2, fun hs => ?_⟩ ?_
    · intro k; simp only [Client.marked, hcli]; exact ((hinv.1 i).2 hs).2 k
    · intro hs k e he; rw [hcli] at he; exact hinv.2 i k e hs he
  · simp only [hks, Bool.false_eq_true, if_false]
    generalize hst1 : (srvCmd st0 (.unlink ks)).1 = st1
    obtain ⟨a1, a2, a3, a4, a5, b1, b2, b3, b4⟩ := after_write st st0 st1 st1 i (.unlink ks) rfl hinv h0srv h0enc h0cl h0i hst1.symm
      rfl rfl (fun _ _ => rfl) ⟨rfl, rfl, rfl⟩
    refine inv_after st st1 i _ hinv a1 a2 a3 a4 a5 ?_
    intro hs
    have htr : (st.cl i).tracking = true := ((hinv.1 i).2 hs).1
    have hnm : (st.cl i).noMarks (now st) := ((hinv.1 i).2 hs).2
    have hq := a3 i
    rw [htr, if_pos rfl] at hq
    have hm1 : (st1.cl i).noMarks (now st) := by
      intro k'; simp only [Client.marked, b2, hcli, q4]; exact hnm k'
    obtain ⟨g1, g2⟩ := deliverClient_keys (now st) (st1.cl i) _ hq hm1
    refine ⟨?_, ?_⟩
    · intro k'; simp only [Client.marked, g2]; exact hm1 k'
    · intro k' e he
      have hk : k' ∉ touched st.srv (.unlink ks) := by
        intro hk; simp [Client.lfind, g1 k', hk] at he
      have he' : c.lfind (now st) k' = some e := by
        simpa [Client.lfind, g1 k', hk, b1, hcli] using he
      unfold agreeEntry
      rw [a4 k' hk]
      rw [← hc] at he'
      rcases lfind_foldl_absent (now st) ks (st.cl i) k' e he' with ⟨hm, hval⟩ | ⟨_, hold⟩
      · rw [hval]
        apply srvValue_of_absent
        simp only [touched, List.mem_filter, not_and] at hk
        simpa using hk hm
      · exact hinv.2 i k' e hs hold


/-- a pattern delete: the writer forgets its matching local entries and the server unlinks the list `L` -/
theorem inv_unlink_after_ldelMatch (st : St) (hinv : Inv st) (i : Nat) (pat : String) (L : List String) :
    Inv (deliverAll (srvCmd ({ st with cl := upd st.cl i ((st.cl i).ldelMatch pat) } : St) (.unlink L)).1) := by
  generalize hst0 : ({ st with cl := upd st.cl i ((st.cl i).ldelMatch pat) } : St) = st0
  have h0srv : st0.srv = st.srv := by subst hst0; rfl
  have h0enc : st0.isEnc = st.isEnc := by subst hst0; rfl
  have h0cl : ∀ j, j ≠ i → st0.cl j = st.cl j := by intro j hj; subst hst0; simp [upd, hj]
  have hcli : st0.cl i = (st.cl i).ldelMatch pat := by subst hst0; simp [upd]
  have h0i : (st0.cl i).queue = [] ∧ (st0.cl i).started = (st.cl i).started ∧ (st0.cl i).tracking = (st.cl i).tracking := by
    rw [hcli]; exact ⟨(hinv.1 i).1, rfl, rfl⟩
  generalize hst1 : (srvCmd st0 (.unlink L)).1 = st1
  obtain ⟨a1, a2, a3, a4, a5, b1, b2, b3, b4⟩ := after_write st st0 st1 st1 i (.unlink L) rfl hinv h0srv h0enc h0cl h0i hst1.symm
    rfl rfl (fun _ _ => rfl) ⟨rfl, rfl, rfl⟩
  refine inv_after st st1 i _ hinv a1 a2 a3 a4 a5 ?_
  intro hs
  have htr : (st.cl i).tracking = true := ((hinv.1 i).2 hs).1
  have hnm : (st.cl i).noMarks (now st) := ((hinv.1 i).2 hs).2
  have hq := a3 i
  rw [htr, if_pos rfl] at hq
  have hm1 : (st1.cl i).noMarks (now st) := by
    intro k'; simp only [Client.marked, b2, hcli, Client.ldelMatch]; exact hnm k'
  obtain ⟨g1, g2⟩ := deliverClient_keys (now st) (st1.cl i) _ hq hm1
  refine ⟨?_, ?_⟩
  · intro k'; simp only [Client.marked, g2]; exact hm1 k'
  · intro k' e he
    have hk : k' ∉ touched st.srv (.unlink L) := by
      intro hk; simp [Client.lfind, g1 k', hk] at he
    have he' : (st.cl i).lfind (now st) k' = some e := by
      have : ((st.cl i).ldelMatch pat).lfind (now st) k' = some e := by
        simpa [Client.lfind, g1 k', hk, b1, hcli] using he
      simp only [Client.lfind, Client.ldelMatch] at this ⊢
      by_cases hg : glob pat k' = true
      · simp [hg] at this
      · simpa [hg] using this
    have := hinv.2 i k' e hs he'
    unfold agreeEntry at this ⊢
    rw [a4 k' hk]; exact this

theorem inv_deleteMatch (st : St) (hinv : Inv st) (i : Nat) (pat : String) : Inv (qstep st (.deleteMatch i pat)).1 := by
  simp only [qstep, step]
  split
  · exact inv_unlink_after_ldelMatch st hinv i pat _
  · exact inv_unlink_after_ldelMatch st hinv i pat _


/-- a positive PEXPIRE keeps the value -/
theorem exec_pexpire_find (s : Srv) (k : String) (ms : Nat) (hms : 0 < ms) :
    (s.exec (.pexpire k ms)).1.ks.find k = (s.ks.find k).map fun e => { e with dl := some (s.ks.now + ms) } := by
  simp only [Srv.exec, Srv.execPrim]
  cases hf : s.ks.find k with
  | none => simp [hf]
  | some e =>
    have h1 : ¬ ((ms : Int) ≤ 0) := by omega
    simp only [h1, if_false, Option.map_some, Int.toNat_natCast]
    apply KS.find_put_self_live
    simp [REntry.live]; omega

theorem inv_expire_with (st : St) (hinv : Inv st) (i : Nat) (k : String) (ms : Nat) (hms : 0 < ms) (c' : Client)
    (hc' : (match (st.cl i).lfind (now st) k with
      | some ⟨.val _, _⟩ => ((st.cl i).lexpire (now st) k ms).mark (now st) k
      | _ => st.cl i) = c') :
    Inv (deliverAll (srvCmd ({ st with cl := upd st.cl i c' } : St) (.pexpire k ms)).1) := by
  have hfields : c'.queue = (st.cl i).queue ∧ c'.started = (st.cl i).started ∧ c'.tracking = (st.cl i).tracking := by
    rw [← hc']
    split
    · rename_i v dl hf
      refine ⟨?_, ?_, ?_⟩ <;> simp [Client.lexpire, hf, Client.lset, Client.mark]
    · exact ⟨rfl, rfl, rfl⟩
  generalize hst0 : ({ st with cl := upd st.cl i c' } : St) = st0
  have h0srv : st0.srv = st.srv := by subst hst0; rfl
  have h0enc : st0.isEnc = st.isEnc := by subst hst0; rfl
  have h0cl : ∀ j, j ≠ i → st0.cl j = st.cl j := by intro j hj; subst hst0; simp [upd, hj]
  have hcli : st0.cl i = c' := by subst hst0; simp [upd]
  have h0i : (st0.cl i).queue = [] ∧ (st0.cl i).started = (st.cl i).started ∧ (st0.cl i).tracking = (st.cl i).tracking := by
    rw [hcli, hfields.1, hfields.2.1, hfields.2.2]; exact ⟨(hinv.1 i).1, rfl, rfl⟩
  generalize hst1 : (srvCmd st0 (.pexpire k ms)).1 = st1
  obtain ⟨a1, a2, a3, a4, a5, b1, b2, b3, b4⟩ := after_write st st0 st1 st1 i (.pexpire k ms) rfl hinv h0srv h0enc h0cl h0i hst1.symm
    rfl rfl (fun _ _ => rfl) ⟨rfl, rfl, rfl⟩
  refine inv_after st st1 i _ hinv a1 a2 a3 a4 a5 ?_
  intro hs
  have htr : (st.cl i).tracking = true := ((hinv.1 i).2 hs).1
  have hnm : (st.cl i).noMarks (now st) := ((hinv.1 i).2 hs).2
  have hq := a3 i
  rw [htr, if_pos rfl] at hq
  -- the value of k on the server is what it was
  have hval_k : srvValue st1 k = srvValue st k := by
    simp only [srvValue, b3, exec_pexpire_find st.srv k ms hms]
    have henc1 : st1.isEnc = st.isEnc := by rw [← hst1]; exact h0enc
    cases hf : st.srv.ks.find k with
    | none => rfl
    | some e => obtain ⟨v, dl⟩ := e; cases v <;> simp [decodeS, henc1]
  have hval : ∀ k', srvValue st1 k' = srvValue st k' := by
    intro k'
    by_cases hk : k' = k
    · subst hk; exact hval_k
    · apply a4; simp only [touched]; split <;> simp [hk]
  cases hlf : (st.cl i).lfind (now st) k with
  | some e =>
    obtain ⟨lv, ldl⟩ := e
    cases lv with
    | val v =>
      -- re-timed locally and marked; the key is on the server (agreement), so the echo comes and the mark swallows it
      have hsv : srvValue st k = some v := by
        have := hinv.2 i k _ hs hlf; simpa [agreeEntry] using this
      have hpres : st.srv.ks.present k = true := by
        simp only [srvValue] at hsv
        cases hfk : st.srv.ks.find k with
        | none => simp [hfk] at hsv
        | some se => simp [KS.present, hfk]
      have hK : touched st.srv (.pexpire k ms) = [k] := by simp [touched, hpres]
      rw [hK] at hq
      have hle : (st.cl i).lexpire (now st) k ms = (st.cl i).lset (now st) k (.val v) (some ms) := by
        simp only [Client.lexpire, hlf]
      have hc'' : c' = ((st.cl i).lset (now st) k (.val v) (some ms)).mark (now st) k := by rw [← hc', hlf, hle]
      have hmk : (st1.cl i).marked (now st) k = true := by
        simp only [Client.marked, b2, hcli, hc'']; exact marked_mark_self _ _ _
      have hd : deliverClient (now st) (st1.cl i) = ({ st1.cl i with queue := [] } : Client).unmark k := by
        simp only [deliverClient, hq, List.map_cons, List.map_nil, List.foldl_cons, List.foldl_nil, Client.applyMsg, Client.applyKey]
        have : ({ st1.cl i with queue := [] } : Client).marked (now st) k = true := hmk
        simp [this]
      rw [hd]
      refine ⟨?_, ?_⟩
      · intro k'
        by_cases hk : k' = k
        · subst hk; simp [Client.unmark, Client.marked]
        · have := hnm k'
          simpa [Client.unmark, Client.marked, b2, hcli, hc'', Client.mark, Client.lset, hk] using this
      · intro k' e he
        have he' : ((st.cl i).lset (now st) k (.val v) (some ms)).lfind (now st) k' = some e := by
          simpa [Client.lfind, Client.unmark, b1, hcli, hc'', Client.mark] using he
        unfold agreeEntry
        rw [hval k']
        rcases lfind_lset he' with ⟨rfl, hv⟩ | ⟨_, hold⟩
        · rw [hv]; exact hsv
        · exact hinv.2 i k' e hs hold
    | absent =>
      have hc'' : c' = st.cl i := by rw [← hc', hlf]
      have hm1 : (st1.cl i).noMarks (now st) := by intro k'; simp only [Client.marked, b2, hcli, hc'']; exact hnm k'
      obtain ⟨g1, g2⟩ := deliverClient_keys (now st) (st1.cl i) _ hq hm1
      refine ⟨fun k' => by simp only [Client.marked, g2]; exact hm1 k', ?_⟩
      intro k' e he
      have hk : k' ∉ touched st.srv (.pexpire k ms) := by intro hk; simp [Client.lfind, g1 k', hk] at he
      have he' : (st.cl i).lfind (now st) k' = some e := by simpa [Client.lfind, g1 k', hk, b1, hcli, hc''] using he
      have := hinv.2 i k' e hs he'
      unfold agreeEntry at this ⊢
      rw [hval k']; exact this
  | none =>
    have hc'' : c' = st.cl i := by rw [← hc', hlf]
    have hm1 : (st1.cl i).noMarks (now st) := by intro k'; simp only [Client.marked, b2, hcli, hc'']; exact hnm k'
    obtain ⟨g1, g2⟩ := deliverClient_keys (now st) (st1.cl i) _ hq hm1
    refine ⟨fun k' => by simp only [Client.marked, g2]; exact hm1 k', ?_⟩
    intro k' e he
    have hk : k' ∉ touched st.srv (.pexpire k ms) := by intro hk; simp [Client.lfind, g1 k', hk] at he
    have he' : (st.cl i).lfind (now st) k' = some e := by simpa [Client.lfind, g1 k', hk, b1, hcli, hc''] using he
    have := hinv.2 i k' e hs he'
    unfold agreeEntry at this ⊢
    rw [hval k']; exact this

theorem inv_expire (st : St) (hinv : Inv st) (i : Nat) (k : String) (ms : Nat) :
    Inv (qstep st (.expire i k ms)).1 := by
  by_cases hz : ms = 0
  · subst hz
    simp only [qstep, step, if_true]
    exact inv_expire_zero st hinv i k
  have hms : 0 < ms := Nat.pos_of_ne_zero hz
  simp only [qstep, step, hz, if_false]
  split
  · rename_i v dl hf
    exact inv_expire_with st hinv i k ms hms _ (by rw [hf])
  · rename_i hne
    refine inv_expire_with st hinv i k ms hms _ ?_
    split
    · rename_i v dl hf; exact absurd hf (hne v dl)
    · rfl


/-- the local copy after a `get_many`: the misses are remembered, one key after the other -/
def gmStep (st : St) (c : Client) (c' : Client) (k : String) : Client :=
  match (if c.started then c.lfind (now st) k else none) with
  | some _ => c'
  | none => match srvValue st k with
    | some v => c'.lset (now st) k (.val v) none
    | none => c'.lset (now st) k .absent none

theorem gmStep_ok (st : St) (c c' : Client) (k : String)
    (hf : c'.queue = c.queue ∧ c'.started = c.started ∧ c'.tracking = c.tracking ∧ c'.marks = c.marks)
    (hP : ∀ k' e, c'.lfind (now st) k' = some e → agreeEntry st k' e) :
    ((gmStep st c c' k).queue = c.queue ∧ (gmStep st c c' k).started = c.started ∧ (gmStep st c c' k).tracking = c.tracking ∧
      (gmStep st c c' k).marks = c.marks) ∧
    (∀ k' e, (gmStep st c c' k).lfind (now st) k' = some e → agreeEntry st k' e) := by
  unfold gmStep
  split
  · exact ⟨hf, hP⟩
  · split
    · rename_i v hv
      refine ⟨by simpa [Client.lset] using hf, fun k' e he => ?_⟩
      rcases lfind_lset he with ⟨rfl, hval⟩ | ⟨_, hold⟩
      · unfold agreeEntry; rw [hval]; exact hv
      · exact hP k' e hold
    · rename_i hv
      refine ⟨by simpa [Client.lset] using hf, fun k' e he => ?_⟩
      rcases lfind_lset he with ⟨rfl, hval⟩ | ⟨_, hold⟩
      · unfold agreeEntry; rw [hval]; exact hv
      · exact hP k' e hold

theorem gmFold_ok (st : St) (c : Client) (ks : List String) :
    ∀ c', (c'.queue = c.queue ∧ c'.started = c.started ∧ c'.tracking = c.tracking ∧ c'.marks = c.marks) →
      (∀ k' e, c'.lfind (now st) k' = some e → agreeEntry st k' e) →
      let r := ks.foldl (gmStep st c) c'
      (r.queue = c.queue ∧ r.started = c.started ∧ r.tracking = c.tracking ∧ r.marks = c.marks) ∧
      (∀ k' e, r.lfind (now st) k' = some e → agreeEntry st k' e) := by
  induction ks with
  | nil => intro c' hf hP; exact ⟨hf, hP⟩
  | cons a ks ih =>
    intro c' hf hP
    simp only [List.foldl_cons]
    obtain ⟨h1, h2⟩ := gmStep_ok st c c' a hf hP
    exact ih _ h1 h2

theorem inv_getManyCore (st : St) (hinv : Inv st) (i : Nat) (ks : List String) : Inv (deliverAll (getManyCore st i ks).1) := by
  show Inv (deliverAll ({ st with cl := upd st.cl i (ks.foldl (gmStep st (st.cl i)) (st.cl i)) } : St))
  by_cases hs : (st.cl i).started = true
  · obtain ⟨⟨q1, q2, q3, q4⟩, hP⟩ := gmFold_ok st (st.cl i) ks (st.cl i) ⟨rfl, rfl, rfl, rfl⟩ (fun k' e he => hinv.2 i k' e hs he)
    refine inv_local_only st _ i hinv rfl rfl (fun j hj => by simp [upd, hj]) ?_ ?_
    · simp only [upd, if_true]
      refine ⟨q1.trans (hinv.1 i).1, q2, q3, fun hs' k => ?_⟩
      simp only [Client.marked, q4]; exact ((hinv.1 i).2 hs').2 k
    · intro _ k' e he
      simp only [upd, if_true] at he
      exact hP k' e he
  · -- a stopped client: nothing is claimed about its local copy
    have hfields : ∀ (c' : Client), (c'.queue = (st.cl i).queue ∧ c'.started = (st.cl i).started ∧ c'.tracking = (st.cl i).tracking ∧
        c'.marks = (st.cl i).marks) →
        let r := ks.foldl (gmStep st (st.cl i)) c'
        r.queue = (st.cl i).queue ∧ r.started = (st.cl i).started ∧ r.tracking = (st.cl i).tracking ∧ r.marks = (st.cl i).marks := by
      induction ks with
      | nil => intro c' h; exact h
      | cons a ks ih =>
        intro c' h
        simp only [List.foldl_cons]
        apply ih
        unfold gmStep
        split
        · exact h
        · split <;> simpa [Client.lset] using h
    obtain ⟨q1, q2, q3, q4⟩ := hfields (st.cl i) ⟨rfl, rfl, rfl, rfl⟩
    refine inv_local_only st _ i hinv rfl rfl (fun j hj => by simp [upd, hj]) ?_ ?_
    · simp only [upd, if_true]
      exact ⟨q1.trans (hinv.1 i).1, q2, q3, fun hs' => absurd hs' hs⟩
    · intro hs'; exact absurd hs' hs

theorem inv_getMany (st : St) (hinv : Inv st) (i : Nat) (ks : List String) : Inv (qstep st (.getMany i ks)).1 :=
  inv_getManyCore st hinv i ks

/-- under agreement `get_many` answers what the server holds, key by key -/
theorem getManyCore_eq_server (st : St) (ha : Agree st) (i : Nat) (ks : List String) :
    (getManyCore st i ks).2 = ks.map (srvValue st) := by
  simp only [getManyCore]
  apply List.map_congr_left
  intro k _
  cases hs : (st.cl i).started with
  | false => simp
  | true =>
    simp only [if_true]
    cases hf : (st.cl i).lfind (now st) k with
    | none => rfl
    | some e =>
      have := ha i k e hs hf
      obtain ⟨v, dl⟩ := e
      cases v with
      | val x => simp only [agreeEntry] at this; simp [this]
      | absent => simp only [agreeEntry] at this; simp [this]

theorem getMany_eq_server (st : St) (ha : Agree st) (i : Nat) (ks : List String) :
    (step st (.getMany i ks)).2 = .vals (ks.map (srvValue st)) := by
  simp only [step, getManyCore_eq_server st ha i ks]

/-- the full invariant carried along a history -/
def Inv2 (st : St) : Prop := Inv st ∧ DomOK st.srv.ks

theorem domOK_adv {s : KS} (h : DomOK s) (dt : Nat) : DomOK (s.adv dt) := by
  intro k hk
  simp only [KS.adv] at hk ⊢
  apply h
  cases hm : s.m k with
  | none => simp [hm] at hk
  | some e => rfl

theorem inv2_init (isEnc : String → Bool) : Inv2 (St.init isEnc) := by
  refine ⟨⟨fun i => ⟨rfl, fun _ => ⟨rfl, fun k => rfl⟩⟩, ?_⟩, ?_⟩
  · intro i k e _ hf; simp [St.init, Client.init, Client.lfind] at hf
  · intro k hk; simp [St.init, Srv.init, KS.init] at hk

/-- under agreement a read answers what the server holds -/
theorem get_eq_server (st : St) (ha : Agree st) (i : Nat) (k : String) :
    (step st (.get i k)).2 = .val (srvValue st k) := by
  simp only [step]
  cases hs : (st.cl i).started with
  | false =>
    simp only [Bool.false_eq_true, if_false]
    cases hv : srvValue st k <;> rfl
  | true =>
    simp only [if_true]
    cases hf : (st.cl i).lfind (now st) k with
    | none => simp only; cases hv : srvValue st k <;> rfl
    | some e =>
      have := ha i k e hs hf
      obtain ⟨v, dl⟩ := e
      cases v with
      | val x => simp only [agreeEntry] at this; simp [this]
      | absent => simp only [agreeEntry] at this; simp [this]

theorem exists_eq_server (st : St) (ha : Agree st) (i : Nat) (k : String) :
    (step st (.exists_ i k)).2 = .bool (st.srv.ks.present k) := by
  simp only [step]
  cases hs : (st.cl i).started with
  | false => simp
  | true =>
    simp only [if_true]
    cases hf : (st.cl i).lfind (now st) k with
    | none => rfl
    | some e =>
      have := ha i k e hs hf
      obtain ⟨v, dl⟩ := e
      cases v with
      | absent => rfl
      | val x =>
        simp only [agreeEntry, srvValue] at this
        have hp : st.srv.ks.present k = true := by
          cases hfk : st.srv.ks.find k with
          | none => simp [hfk] at this
          | some se => simp [KS.present, hfk]
        simp [hp]

end CashewsVerif.Redis.CS
