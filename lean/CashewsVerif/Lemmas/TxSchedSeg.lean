import CashewsVerif.Lemmas.TxSchedOwn
import CashewsVerif.Lemmas.TxSchedCounter
/- Segments: what the ghost bookkeeping of the spec (`done`, `pend`, `cinc`) says about a body, and how a task's durable
increments (`cinc`) are tied to its program — used to derive the statements about whole blocks (no explicit
`tx.commit()` / `tx.rollback()`) from the general ones. -/
namespace CashewsVerif.TxSched

/-- `tx.commit()` / `tx.rollback()` called by the body itself -/
def Cmd.explicit : Cmd → Bool
  | .commit => true
  | .rollback => true
  | _ => false

/-- the body never ends a segment itself: the block is committed or rolled back as a whole by `__aexit__` -/
def NoExplicit (p : List Cmd) : Prop := ∀ c ∈ p, c.explicit = false

/-- what one command does to the increment bookkeeping `(pend, cinc)` -/
def gstep : Cmd → List (Nat × Int) × List (Nat × Int) → List (Nat × Int) × List (Nat × Int)
  | .incr k n, (pe, ci) => (pe ++ [(k, n)], ci)
  | .commit, (pe, ci) => ([], ci ++ pe)
  | .rollback, (_, ci) => ([], ci)
  | _, x => x

/-- one command of the spec: the run continues from some state whose bookkeeping is `gstep` of the old one -/
theorem spec_step {c : Cmd} {r : List Cmd} {rd : List (Option Int)} {s s' : BodySt} {u : List (Option Int)}
    (h : specBody (c :: r) rd s = .normal s' u) :
    ∃ rd1 s1, specBody r rd1 s1 = .normal s' u ∧ (s1.pend, s1.cinc) = gstep c (s.pend, s.cinc) ∧
      (c.explicit = false → s1.done = s.done) := by
  cases c <;> simp only [specBody] at h
  case set k v => exact ⟨_, _, h, rfl, fun _ => rfl⟩
  case incr k n =>
    cases hg : s.ov.get k with
    | some v => simp only [hg] at h; exact ⟨_, _, h, rfl, fun _ => rfl⟩
    | none =>
      simp only [hg] at h
      by_cases hd : k ∈ s.del
      · simp only [hd, if_true] at h; exact ⟨_, _, h, rfl, fun _ => rfl⟩
      · simp only [hd, if_false] at h
        cases rd with
        | nil => simp at h
        | cons x rd' => exact ⟨_, _, h, rfl, fun _ => rfl⟩
  case get k =>
    by_cases hd : k ∈ s.del
    · simp only [hd, if_true] at h; exact ⟨_, _, h, rfl, fun _ => rfl⟩
    · simp only [hd, if_false] at h
      cases hg : s.ov.get k with
      | some v => simp only [hg] at h; exact ⟨_, _, h, rfl, fun _ => rfl⟩
      | none =>
        simp only [hg] at h
        cases rd with
        | nil => simp at h
        | cons x rd' => exact ⟨_, _, h, rfl, fun _ => rfl⟩
  case delete k => exact ⟨_, _, h, rfl, fun _ => rfl⟩
  case expire k =>
    by_cases hd : k ∈ s.del
    · simp only [hd, if_true] at h; exact ⟨_, _, h, rfl, fun _ => rfl⟩
    · simp only [hd, if_false] at h
      cases hg : s.ov.get k with
      | some v => simp only [hg] at h; exact ⟨_, _, h, rfl, fun _ => rfl⟩
      | none =>
        simp only [hg] at h
        cases rd with
        | nil => simp at h
        | cons x rd' =>
          cases x with
          | none => exact ⟨_, _, h, rfl, fun _ => rfl⟩
          | some v => exact ⟨_, _, h, rfl, fun _ => rfl⟩
  case setx k v e =>
    have hx : ∀ p, ((setxSpec s k v e p).pend, (setxSpec s k v e p).cinc) = (s.pend, s.cinc) ∧
        (setxSpec s k v e p).done = s.done := by
      intro p; unfold setxSpec; split <;> simp
    cases hg : s.ov.get k with
    | some v0 => simp only [hg] at h; exact ⟨_, _, h, (hx _).1, fun _ => (hx _).2⟩
    | none =>
      simp only [hg] at h
      by_cases hd : k ∈ s.del
      · simp only [hd, if_true] at h; exact ⟨_, _, h, (hx _).1, fun _ => (hx _).2⟩
      · simp only [hd, if_false] at h
        cases rd with
        | nil => simp at h
        | cons x rd' => exact ⟨_, _, h, (hx _).1, fun _ => (hx _).2⟩
  case sleep d => exact ⟨_, _, h, rfl, fun _ => rfl⟩
  case raise b => simp at h
  case nestIn f => exact ⟨_, _, h, rfl, fun _ => rfl⟩
  case nestOut => exact ⟨_, _, h, rfl, fun _ => rfl⟩
  case commit => exact ⟨_, _, h, rfl, fun hx => by simp [Cmd.explicit] at hx⟩
  case rollback => exact ⟨_, _, h, rfl, fun hx => by simp [Cmd.explicit] at hx⟩

/-- a body without explicit commit / rollback: nothing is made durable on the way, and the pending increments grow by
exactly the increments of the program -/
theorem spec_whole (p : List Cmd) : ∀ (rd : List (Option Int)) (s s' : BodySt) (u : List (Option Int)),
    specBody p rd s = .normal s' u → NoExplicit p →
      s'.done = s.done ∧ s'.cinc = s.cinc ∧ ∀ k, isum k s'.pend = isum k s.pend + incrTotal k p := by
  induction p with
  | nil =>
    intro rd s s' u h _
    simp only [specBody, BodyRes.normal.injEq] at h
    obtain ⟨rfl, _⟩ := h
    exact ⟨rfl, rfl, fun k => by simp [incrTotal]⟩
  | cons c r ih =>
    intro rd s s' u h hn
    obtain ⟨rd1, s1, h1, hg, hd⟩ := spec_step h
    have hc : c.explicit = false := hn c List.mem_cons_self
    obtain ⟨a1, a2, a3⟩ := ih rd1 s1 s' u h1 (fun c' hc' => hn c' (List.mem_cons_of_mem _ hc'))
    have hpc : s1.cinc = s.cinc ∧ ∀ k, isum k s1.pend + incrTotal k r = isum k s.pend + incrTotal k (c :: r) := by
      cases c <;> simp only [gstep, Prod.mk.injEq] at hg <;> (try simp [Cmd.explicit] at hc)
      case incr k' n =>
        refine ⟨hg.2, fun k => ?_⟩
        rw [hg.1, isum_append, isum_single]
        simp only [incrTotal]; omega
      all_goals exact ⟨hg.2, fun k => by rw [hg.1]; simp [incrTotal]⟩
    refine ⟨a1.trans (hd hc), a2.trans hpc.1, fun k => ?_⟩
    rw [a3 k]; exact hpc.2 k

/-- a body that never writes `k`: no increment of `k` is ever pending or made durable -/
theorem spec_nowrite (k : Nat) (p : List Cmd) : ∀ (rd : List (Option Int)) (s s' : BodySt) (u : List (Option Int)),
    specBody p rd s = .normal s' u → (∀ c ∈ p, c.writes k = false) → isum k s.pend = 0 →
      isum k s'.pend = 0 ∧ isum k s'.cinc = isum k s.cinc := by
  induction p with
  | nil =>
    intro rd s s' u h _ h0
    simp only [specBody, BodyRes.normal.injEq] at h
    obtain ⟨rfl, _⟩ := h
    exact ⟨h0, rfl⟩
  | cons c r ih =>
    intro rd s s' u h hn h0
    obtain ⟨rd1, s1, h1, hg, _hd⟩ := spec_step h
    have hc : c.writes k = false := hn c List.mem_cons_self
    have hpc : isum k s1.pend = 0 ∧ isum k s1.cinc = isum k s.cinc := by
      cases c <;> simp only [gstep, Prod.mk.injEq] at hg
      case incr k' n =>
        have hne : k' ≠ k := by simpa [Cmd.writes] using hc
        rw [hg.1, hg.2, isum_append, isum_single]; simp [hne, h0]
      case commit => rw [hg.1, hg.2, isum_append]; simp [h0]
      case rollback => rw [hg.1, hg.2]; simp
      all_goals rw [hg.1, hg.2]; exact ⟨h0, rfl⟩
    obtain ⟨a1, a2⟩ := ih rd1 s1 s' u h1 (fun c' hc' => hn c' (List.mem_cons_of_mem _ hc')) hpc.1
    exact ⟨a1, a2.trans hpc.2⟩

/-- **a task's durable increments are the spec's**: in every state of a task inside its transaction there is an executed
part `p` of its program (a prefix) whose spec run gives its durable increments — those of the explicitly committed
segments, plus those of the last segment once the commit that `__aexit__` runs has reached the store -/
theorem cinc_char {p0 : List Cmd} {t : Task} {mine : List Mut} (h : OWpark p0 t mine) :
    ∃ p s, p <+: p0 ∧ specBody p t.reads {} = .normal s [] ∧
      ((t.committed = false ∧ t.cinc = s.cinc) ∨ (t.committed = true ∧ p = p0 ∧ t.cinc = s.cinc ++ s.pend)) := by
  have ofPre : ∀ rem, Pre p0 rem t → t.committed = false →
      ∃ p s, p <+: p0 ∧ specBody p t.reads {} = .normal s [] ∧
        ((t.committed = false ∧ t.cinc = s.cinc) ∨ (t.committed = true ∧ p = p0 ∧ t.cinc = s.cinc ++ s.pend)) := by
    intro rem ⟨p, hp, hs⟩ hc
    exact ⟨p, t.bst, ⟨rem, hp.symm⟩, hs, Or.inl ⟨hc, rfl⟩⟩
  have ofDone : ∀ o, Done p0 t.reads mine t.cinc o → (t.committed = true ↔ ∃ rs, o = .returned rs) →
      ∃ p s, p <+: p0 ∧ specBody p t.reads {} = .normal s [] ∧
        ((t.committed = false ∧ t.cinc = s.cinc) ∨ (t.committed = true ∧ p = p0 ∧ t.cinc = s.cinc ++ s.pend)) := by
    intro o hd hco
    have hnc : (∀ rs, o ≠ .returned rs) → t.committed = false := by
      intro hne
      cases hcm : t.committed
      · rfl
      · obtain ⟨rs, e⟩ := hco.mp hcm; exact absurd e (hne rs)
    have ofStopped : ∀ Q, Stopped p0 t.reads mine t.cinc Q → t.committed = false →
        ∃ p s, p <+: p0 ∧ specBody p t.reads {} = .normal s [] ∧
          ((t.committed = false ∧ t.cinc = s.cinc) ∨ (t.committed = true ∧ p = p0 ∧ t.cinc = s.cinc ++ s.pend)) := by
      intro Q ⟨p, rest, s, hp, _, hs, _, hci⟩ hc
      exact ⟨p, s, ⟨rest, hp.symm⟩, hs, Or.inl ⟨hc, hci⟩⟩
    cases o with
    | returned rs =>
      obtain ⟨s, hs, _, _, hci⟩ := hd
      exact ⟨p0, s, List.prefix_refl _, hs, Or.inr ⟨hco.mpr ⟨rs, rfl⟩, rfl, hci⟩⟩
    | raised e => exact ofStopped _ hd.2 (hnc (by simp))
    | raisedLocked => exact ofStopped _ hd (hnc (by simp))
    | cancelled => exact ofStopped _ hd (hnc (by simp))
  cases hpc : t.pc <;> simp only [OWpark, hpc] at h
  case lockTry k a => exact ofPre _ h.2 (by simp [Task.committed, hpc])
  case lockSleep k a w => exact ofPre _ h.2 (by simp [Task.committed, hpc])
  case bodySleep w => exact ofPre _ h.2 (by simp [Task.committed, hpc])
  case seedGet k n => exact ofPre _ h.2.1 (by simp [Task.committed, hpc])
  case readGet k => exact ofPre _ h.2.1 (by simp [Task.committed, hpc])
  case expGet k => exact ofPre _ h.2.1 (by simp [Task.committed, hpc])
  case existsGet k v e => exact ofPre _ h.2.1 (by simp [Task.committed, hpc])
  case midDel => exact ofPre _ h.2.1 (by simp [Task.committed, hpc])
  case midSet => exact ofPre _ h.2.1 (by simp [Task.committed, hpc])
  case midUnlock ls => exact ofPre _ h.2 (by simp [Task.committed, hpc])
  case commitDel =>
    exact ⟨p0, t.bst, List.prefix_refl _, h.2.1, Or.inl ⟨by simp [Task.committed, hpc], rfl⟩⟩
  case commitSet =>
    exact ⟨p0, t.bst, List.prefix_refl _, h.2.1, Or.inl ⟨by simp [Task.committed, hpc], rfl⟩⟩
  case unlocking ls o => exact ofDone o h (by cases o <;> simp [Task.committed, hpc])
  case finished o => exact ofDone o h (by cases o <;> simp [Task.committed, hpc])

theorem noExplicit_prefix {p p0 : List Cmd} (hp : p <+: p0) (h : NoExplicit p0) : NoExplicit p :=
  fun c hc => h c (hp.subset hc)

/-- whole blocks: a transaction's durable increments of `k` are all the increments of its program once its commit has
reached the store, and none before (or ever, if it does not commit) -/
theorem contrib_whole {k : Nat} {p0 : List Cmd} {t : Task} {mine : List Mut} (h : OWfull p0 t mine) (htx : t.isTx = true)
    (hn : NoExplicit p0) : contrib k t = if t.committed = true then incrTotal k p0 else 0 := by
  unfold contrib
  rw [if_pos htx]
  cases hc : t.ctx
  · obtain ⟨hpc, _, _, _, _, _, _, _, _, hci⟩ := h.pre hc
    simp [hci, Task.committed, hpc]
  · obtain ⟨p, s, hp, hs, hcase⟩ := cinc_char (h.post hc)
    have hw := spec_whole p _ _ _ _ hs (noExplicit_prefix hp hn)
    rcases hcase with ⟨hco, hci⟩ | ⟨hco, hpe, hci⟩
    · rw [hco, hci, hw.2.1]; simp
    · rw [hco, hci, isum_append, hw.2.1, hw.2.2 k, ← hpe]; simp

/-- a transaction that never writes `k` contributes nothing to it -/
theorem contrib_nowrite {k : Nat} {p0 : List Cmd} {t : Task} {mine : List Mut} (h : OWfull p0 t mine) (htx : t.isTx = true)
    (hn : ∀ c ∈ p0, c.writes k = false) : contrib k t = 0 := by
  unfold contrib
  rw [if_pos htx]
  cases hc : t.ctx
  · obtain ⟨_, _, _, _, _, _, _, _, _, hci⟩ := h.pre hc
    simp [hci]
  · obtain ⟨p, s, hp, hs, hcase⟩ := cinc_char (h.post hc)
    have hw := spec_nowrite k p _ _ _ _ hs (fun c hc' => hn c (hp.subset hc')) rfl
    rcases hcase with ⟨_, hci⟩ | ⟨_, _, hci⟩
    · rw [hci, hw.2]; rfl
    · rw [hci, isum_append, hw.2, hw.1]; rfl

end CashewsVerif.TxSched
