import CashewsVerif.Lemmas.LruOrder
/-
C11: how a key can leave the store.

  Disj     the `gone` list and the store are disjoint (a key written again is off the list), and every
           held key has been used
  Leaves   relative to a start state `x0`: every key `x0` held is still held, or is on the `gone` list, or
           an eviction of it has been recorded
-/
namespace CashewsVerif
open Store

namespace Store

theorem lookup_of_mem {s : Store} (h : (keys s).Nodup) {k : Key} {e : Entry} (hm : (k, e) ∈ s) :
    lookup s k = some e := by
  induction s with
  | nil => simp at hm
  | cons p s ih =>
    obtain ⟨k0, e0⟩ := p
    simp only [keys, List.map_cons, List.nodup_cons] at h
    rcases List.mem_cons.mp hm with hm | hm
    · simp only [Prod.mk.injEq] at hm
      simp [lookup, hm.1, hm.2]
    · have hk : k ∈ keys s := List.mem_map.mpr ⟨(k, e), hm, rfl⟩
      have h0 : k0 ≠ k := fun e' => h.1 (by simpa [keys, e'] using hk)
      simp only [lookup, h0, if_false]
      exact ih h.2 hm

theorem not_mem_keys_of_sublist {s t : Store} (h : (keys s).Sublist (keys t)) {k : Key} (hk : k ∉ keys t) :
    k ∉ keys s := fun hs => hk (h.subset hs)

end Store

namespace Lru

/-- the `gone` list and the store are disjoint; held keys have been used -/
structure Disj (x : Lru) : Prop where
  inv : Inv x
  gone : ∀ k ∈ x.gone, k ∉ keys x.mem.store
  used : ∀ k ∈ keys x.mem.store, k ∈ x.log

theorem mem_keys_of_lookup {s : Store} {k : Key} {e : Entry} (h : lookup s k = some e) : k ∈ keys s :=
  (mem_keys_iff_lookup s k).mpr (by simp [h])

theorem disj_closed : Closed Disj := by
  refine ⟨?_, ?_, ?_, ?_, ?_, ?_⟩
  · intro x k h
    have hi := inv_gGet x k h.inv
    cases hl : lookup x.mem.store k with
    | none => rw [gGet_absent hl] at hi ⊢; exact h
    | some e =>
      by_cases hlive : e.live x.mem.now = true
      · rw [gGet_hit hl hlive] at hi ⊢
        refine ⟨hi, ?_, ?_⟩
        · intro k' hk' hmem
          rcases (mem_keys_put _ _ _ _).mp hmem with h1 | h1
          · subst h1; exact h.gone k' hk' (mem_keys_of_lookup hl)
          · exact h.gone k' hk' h1
        · intro k' hmem
          rcases (mem_keys_put _ _ _ _).mp hmem with h1 | h1
          · subst h1; exact List.mem_cons_self
          · exact List.mem_cons_of_mem _ (h.used k' h1)
      · have hdead : e.live x.mem.now = false := by simpa using hlive
        rw [gGet_dead hl hdead] at hi ⊢
        refine ⟨hi, ?_, ?_⟩
        · intro k' hk' hmem
          have hm := (mem_keys_erase _ _ _).mp hmem
          rcases List.mem_cons.mp hk' with h1 | h1
          · exact hm.1 h1
          · exact h.gone k' h1 hm.2
        · intro k' hmem
          exact h.used k' ((mem_keys_erase _ _ _).mp hmem).2
  · intro x k v ttl h
    refine ⟨inv_gSet x k v ttl h.inv, ?_, ?_⟩
    · intro k' hk' hmem
      simp only [gSet, List.mem_filter] at hk'
      have hne : k' ≠ k := by simpa using hk'.2
      have h1 : k' ∈ keys (put x.mem.store k ⟨v, x.mem.newDeadline k ttl⟩) :=
        (keys_trim_sublist _ _).subset hmem
      rcases (mem_keys_put _ _ _ _).mp h1 with h2 | h2
      · exact hne h2
      · exact h.gone k' hk'.1 h2
    · intro k' hmem
      have h1 : k' ∈ keys (put x.mem.store k ⟨v, x.mem.newDeadline k ttl⟩) :=
        (keys_trim_sublist _ _).subset hmem
      rcases (mem_keys_put _ _ _ _).mp h1 with h2 | h2
      · subst h2; exact List.mem_cons_self
      · exact List.mem_cons_of_mem _ (h.used k' h2)
  · intro x k h
    have hi := inv_gDelete x k h.inv
    cases hl : lookup x.mem.store k with
    | none => rw [gDelete_absent hl] at hi ⊢; exact h
    | some e =>
      rw [gDelete_present hl] at hi ⊢
      refine ⟨hi, ?_, ?_⟩
      · intro k' hk' hmem
        have hm := (mem_keys_erase _ _ _).mp hmem
        rcases List.mem_cons.mp hk' with h1 | h1
        · exact hm.1 h1
        · exact h.gone k' h1 hm.2
      · intro k' hmem
        exact h.used k' ((mem_keys_erase _ _ _).mp hmem).2
  · intro x h
    exact ⟨inv_gClear x h.inv, by simp [gClear, keys], by simp [gClear, keys]⟩
  · intro x dt h
    exact ⟨inv_gAdv x dt h.inv, h.gone, h.used⟩
  · intro x h
    have hi := inv_gPurge x h.inv
    have hp := Mem.purge_eq x.mem h.inv.ord.nodup
    unfold gPurge at hi ⊢
    rw [hp] at hi ⊢
    refine ⟨hi, ?_, ?_⟩
    · intro k' hk' hmem
      simp only at hk' hmem
      obtain ⟨e2, he2⟩ := mem_keys_exists hmem
      have he2' := List.mem_filter.mp he2
      rcases List.mem_append.mp hk' with h1 | h1
      · obtain ⟨e1, he1⟩ := mem_keys_exists h1
        have he1' := List.mem_filter.mp he1
        have l1 := lookup_of_mem h.inv.ord.nodup he1'.1
        have l2 := lookup_of_mem h.inv.ord.nodup he2'.1
        rw [l1] at l2
        simp only [Option.some.injEq] at l2
        subst l2
        have a := he1'.2
        have b := he2'.2
        simp only at a b
        rw [b] at a
        simp at a
      · exact h.gone k' h1 (List.mem_map.mpr ⟨(k', e2), he2'.1, rfl⟩)
    · intro k' hmem
      exact h.used k' ((keys_filter_sublist _ _).subset hmem)

theorem disj_init (cap : Nat) : Disj (Lru.init cap) :=
  ⟨inv_init cap, by simp [init], by simp [init, Mem.init, keys]⟩

theorem disj_run (cap : Nat) (ops : List Op) : Disj ((Lru.init cap).run ops).1 :=
  disj_closed.run ops _ (disj_init cap)

/-- relative to `x0`: the eviction records only grow (`new` = those made since `x0`), and every key `x0`
held is still held, or on the `gone` list, or the victim of one of the new records -/
def Leaves (x0 x : Lru) : Prop :=
  Disj x ∧ ∃ new, x.evs = new ++ x0.evs ∧
    ∀ k ∈ keys x0.mem.store, k ∈ keys x.mem.store ∨ k ∈ x.gone ∨ ∃ lg, (k, lg) ∈ new

theorem leaves_refl {x0 : Lru} (h : Disj x0) : Leaves x0 x0 :=
  ⟨h, [], rfl, fun _ hk => Or.inl hk⟩

theorem leaves_closed (x0 : Lru) : Closed (Leaves x0) := by
  refine ⟨?_, ?_, ?_, ?_, ?_, ?_⟩
  · intro x k ⟨hd, new, hev, hacc⟩
    refine ⟨disj_closed.get x k hd, ?_⟩
    cases hl : lookup x.mem.store k with
    | none => rw [gGet_absent hl]; exact ⟨new, hev, hacc⟩
    | some e =>
      by_cases hlive : e.live x.mem.now = true
      · rw [gGet_hit hl hlive]
        refine ⟨new, hev, fun k' hk' => ?_⟩
        rcases hacc k' hk' with h1 | h1 | h1
        · left; exact (mem_keys_put _ _ _ _).mpr (Or.inr h1)
        · right; left; exact h1
        · right; right; exact h1
      · have hdead : e.live x.mem.now = false := by simpa using hlive
        rw [gGet_dead hl hdead]
        refine ⟨new, hev, fun k' hk' => ?_⟩
        rcases hacc k' hk' with h1 | h1 | h1
        · by_cases hkk : k' = k
          · right; left; simp [hkk]
          · left; exact (mem_keys_erase _ _ _).mpr ⟨hkk, h1⟩
        · right; left; exact List.mem_cons_of_mem _ h1
        · right; right; exact h1
  · intro x k v ttl ⟨hd, new, hev, hacc⟩
    refine ⟨disj_closed.set x k v ttl hd, ?_⟩
    -- the records after this `_set`
    have hnew : ∃ new', (x.gSet k v ttl).evs = new' ++ x0.evs ∧ (∀ ev ∈ new, ev ∈ new') ∧
        ∀ kv, victim? x.mem.cap (put x.mem.store k ⟨v, x.mem.newDeadline k ttl⟩) = some kv →
          (kv, k :: x.log) ∈ new' := by
      simp only [gSet]
      cases hv : victim? x.mem.cap (put x.mem.store k ⟨v, x.mem.newDeadline k ttl⟩) with
      | none => exact ⟨new, hev, fun _ h => h, by simp⟩
      | some kv =>
        refine ⟨(kv, k :: x.log) :: new, by simp [hev], fun _ h => List.mem_cons_of_mem _ h, ?_⟩
        intro kv' h'
        simp only [Option.some.injEq] at h'
        subst h'
        exact List.mem_cons_self
    obtain ⟨new', hev', hsub, hvic⟩ := hnew
    refine ⟨new', hev', fun k' hk' => ?_⟩
    have key : k' ∈ keys (put x.mem.store k ⟨v, x.mem.newDeadline k ttl⟩) →
        k' ∈ keys (x.gSet k v ttl).mem.store ∨ k' ∈ (x.gSet k v ttl).gone ∨ ∃ lg, (k', lg) ∈ new' := by
      intro hmem
      rcases trim_cases x.mem.cap _ hmem with h1 | h1
      · exact Or.inl h1
      · exact Or.inr (Or.inr ⟨_, hvic k' h1⟩)
    rcases hacc k' hk' with h1 | h1 | h1
    · exact key ((mem_keys_put _ _ _ _).mpr (Or.inr h1))
    · by_cases hkk : k' = k
      · exact key ((mem_keys_put _ _ _ _).mpr (Or.inl hkk))
      · right; left
        simp only [gSet, List.mem_filter]
        exact ⟨h1, by simpa using hkk⟩
    · obtain ⟨lg, hlg⟩ := h1
      exact Or.inr (Or.inr ⟨lg, hsub _ hlg⟩)
  · intro x k ⟨hd, new, hev, hacc⟩
    refine ⟨disj_closed.del x k hd, ?_⟩
    cases hl : lookup x.mem.store k with
    | none => rw [gDelete_absent hl]; exact ⟨new, hev, hacc⟩
    | some e =>
      rw [gDelete_present hl]
      refine ⟨new, hev, fun k' hk' => ?_⟩
      rcases hacc k' hk' with h1 | h1 | h1
      · by_cases hkk : k' = k
        · right; left; simp [hkk]
        · left; exact (mem_keys_erase _ _ _).mpr ⟨hkk, h1⟩
      · right; left; exact List.mem_cons_of_mem _ h1
      · right; right; exact h1
  · intro x ⟨hd, new, hev, hacc⟩
    refine ⟨disj_closed.clear x hd, new, hev, fun k' hk' => ?_⟩
    rcases hacc k' hk' with h1 | h1 | h1
    · right; left; exact List.mem_append_left _ h1
    · right; left; exact List.mem_append_right _ h1
    · right; right; exact h1
  · intro x dt ⟨hd, new, hev, hacc⟩
    exact ⟨disj_closed.adv x dt hd, new, hev, hacc⟩
  · intro x ⟨hd, new, hev, hacc⟩
    refine ⟨disj_closed.purge x hd, ?_⟩
    have hp := Mem.purge_eq x.mem hd.inv.ord.nodup
    unfold gPurge
    rw [hp]
    refine ⟨new, hev, fun k' hk' => ?_⟩
    rcases hacc k' hk' with h1 | h1 | h1
    · obtain ⟨e, he⟩ := mem_keys_exists h1
      by_cases hlive : e.live x.mem.now = true
      · left
        have : (k', e) ∈ x.mem.store.filter (fun p => p.2.live x.mem.now) := List.mem_filter.mpr ⟨he, hlive⟩
        exact List.mem_map.mpr ⟨(k', e), this, rfl⟩
      · right; left
        have : (k', e) ∈ x.mem.store.filter (fun p => !p.2.live x.mem.now) :=
          List.mem_filter.mpr ⟨he, by simpa using hlive⟩
        exact List.mem_append_left _ (List.mem_map.mpr ⟨(k', e), this, rfl⟩)
    · right; left; exact List.mem_append_right _ h1
    · right; right; exact h1

theorem run_snoc (ops : List Op) (op : Op) : ∀ x : Lru,
    (x.run (ops ++ [op])).1 = ((x.run ops).1.step op).1 := by
  induction ops with
  | nil => intro x; simp [run]
  | cons o ops ih => intro x; simp only [List.cons_append, run]; exact ih _

end Lru
end CashewsVerif
