import CashewsVerif.Lemmas.TxRun
import CashewsVerif.Lemmas.TxSim
/- Whole-run simulation and the link from the decidable proviso `NoDeadlineCrossed` to its use in the proofs. -/
namespace CashewsVerif
open Store

namespace TtlMap

theorem foldl_write_now (kvs : List (Key × Val)) (ttl : Option Nat) : ∀ t : TtlMap,
    (kvs.foldl (fun t kv => t.write kv.1 kv.2 ttl) t).now = t.now := by
  induction kvs with
  | nil => intro t; rfl
  | cons kv kvs ih => intro t; simp only [List.foldl_cons]; rw [ih]; rfl

theorem step_now (t : TtlMap) (op : Op) : (t.step op).1.now = t.now + op.dt := by
  cases op with
  | set k v ttl c =>
    cases c <;> simp only [step, Op.dt, Nat.add_zero]
    · rfl
    · split <;> rfl
    · split <;> rfl
  | setMany kvs ttl => simp only [step, foldl_write_now, Op.dt, Nat.add_zero]
  | get k => rfl
  | getMany ks => rfl
  | exists_ k => rfl
  | incr k by_ ttl =>
    simp only [step, Op.dt, Nat.add_zero]
    unfold incr; simp only; split <;> rfl
  | delete k => rfl
  | deleteMany ks => simp only [step, foldl_remove_now, Op.dt, Nat.add_zero]
  | expire k ttl => simp only [step, Op.dt, Nat.add_zero]; split <;> rfl
  | getExpire k => rfl
  | clear => rfl
  | adv dt => rfl
  | purge => rfl

end TtlMap

theorem endTime_ge (ops : List Op) : ∀ now : Time, now ≤ endTime now ops := by
  induction ops with
  | nil => intro now; exact Nat.le_refl _
  | cons op ops ih => intro now; simp only [endTime]; exact Nat.le_trans (Nat.le_add_right _ _) (ih _)

/-- **a whole transaction: every answer equals the answer of direct execution** (on the ideal maps) -/
theorem sim_run {T : Time} (ops : List Op) : ∀ {a : ATx} {t : TtlMap}, Sim T a t →
    (∀ op ∈ ops, op.isTxOp = true) → assignedOk T t.now ops = true → endTime t.now ops ≤ T →
    Sim T (a.run ops).1 (t.run ops).1 ∧ obsAll ops (a.run ops).2 = obsAll ops (t.run ops).2 := by
  induction ops with
  | nil => intro a t h _ _ _; exact ⟨h, rfl⟩
  | cons op ops ih =>
    intro a t h htx has hend
    simp only [assignedOk, Bool.and_eq_true, List.all_eq_true] at has
    simp only [endTime] at hend
    have hle : t.now + op.dt ≤ T := Nat.le_trans (endTime_ge ops _) hend
    have h1 := sim_step h op (htx op (by simp)) has.1 hle
    have hn := TtlMap.step_now t op
    have h2 := ih h1.1 (fun op' h' => htx op' (by simp [h'])) (by rw [hn]; exact has.2) (by rw [hn]; exact hend)
    simp only [ATx.run, TtlMap.run, obsAll]
    exact ⟨h2.1, by rw [h1.2, h2.2]⟩

theorem storeStable_mem {now T : Time} {s : Store} (h : storeStable now T s = true) {k : Key} {e : Entry}
    (hm : (k, e) ∈ s) {d : Time} (hd : e.dl = some d) : d ≤ now ∨ T < d := by
  induction s with
  | nil => simp at hm
  | cons p s ih =>
    obtain ⟨k0, e0⟩ := p
    simp only [storeStable, Bool.and_eq_true] at h
    simp only [List.mem_cons, Prod.mk.injEq] at hm
    rcases hm with hm | hm
    · have h1 := h.1
      rw [← hm.2, hd] at h1
      simpa using h1
    · exact ih h.2 hm

/-- the proviso puts every live deadline of the store beyond the end of the block -/
theorem toTtl_stable {b : Mem} {T : Time} (h : storeStable b.now T b.store = true) :
    ∀ k e, b.toTtl.find k = some e → dlAfter T e.dl = true := by
  intro k e he
  rw [TtlMap.find_eq] at he
  simp only [Mem.toTtl] at he
  cases hl : lookup b.store k with
  | none => rw [hl] at he; simp at he
  | some e' =>
    rw [hl] at he
    by_cases hlive : e'.live b.now
    · simp only [Option.filter, hlive, if_true, Option.some.injEq] at he
      subst he
      unfold dlAfter
      cases hd : e'.dl with
      | none => rfl
      | some d =>
        have := storeStable_mem h (mem_of_lookup hl) hd
        simp only [Entry.live, hd, decide_eq_true_eq] at hlive
        simp only [decide_eq_true_eq]; omega
    · simp [Option.filter, hlive] at he

/-- the relation holds when the transaction begins -/
theorem sim_begin {b : Mem} {ops : List Op} (h : NoDeadlineCrossed b ops = true) :
    Sim (endTime b.now ops) (ATx.begin_ b.toTtl) b.toTtl := by
  simp only [NoDeadlineCrossed, Bool.and_eq_true] at h
  have hst := toTtl_stable h.1
  refine ⟨rfl, rfl, endTime_ge ops b.now, hst, ?_, hst, ?_, ?_⟩
  · intro k e he; simp [ATx.begin_, TtlMap.find] at he
  · intro k _ hk; simp [ATx.begin_] at hk
  · intro k _
    have : (ATx.begin_ b.toTtl).view k = b.toTtl.find k := by
      simp only [ATx.view, ATx.begin_, List.not_mem_nil, if_false]
      have : ({ now := b.toTtl.now, m := fun _ => none } : TtlMap).find k = none := by simp [TtlMap.find]
      rw [this]; rfl
    rw [this]

end CashewsVerif
