import CashewsVerif.Lemmas.TxSchedLocks
/- No lost increments: the counter invariant. -/
namespace CashewsVerif.TxSched

/-- sum of the increments a program applies to `k` -/
def incrTotal (k : Nat) : List Cmd → Int
  | [] => 0
  | .incr k' n :: r => (if k' = k then n else 0) + incrTotal k r
  | _ :: r => incrTotal k r

/-- writes `k` otherwise than by `incr` -/
def Cmd.clobbers (k : Nat) : Cmd → Bool
  | .set k' _ => k' == k
  | .delete k' => k' == k
  | .setx k' _ _ => k' == k
  | _ => false

/-- writes `k` at all -/
def Cmd.writes (k : Nat) : Cmd → Bool
  | .set k' _ => k' == k
  | .delete k' => k' == k
  | .incr k' _ => k' == k
  | .setx k' _ _ => k' == k
  | _ => false

/-- `k` is a pure counter for this task: transactions only `incr` it, tasks outside a transaction do not write it -/
def OnlyIncr (k : Nat) (isTx : Bool) (prog : List Cmd) : Prop :=
  if isTx then ∀ c ∈ prog, c.clobbers k = false else ∀ c ∈ prog, c.writes k = false

/-- what a parked task still has to execute -/
def Task.rem (t : Task) : List Cmd :=
  match t.pc with
  | .seedGet k n => .incr k n :: t.prog
  | .expGet k => .expire k :: t.prog
  | .existsGet k v e => .setx k v e :: t.prog
  | .direct c => c :: t.prog
  | _ => t.prog

/-- its commit has reached the store -/
def Task.committed (t : Task) : Bool :=
  match t.pc with
  | .unlocking _ (.returned _) => true
  | .finished (.returned _) => true
  | _ => false

/-- still before the end of its commit / rollback -/
def Task.active (t : Task) : Bool :=
  match t.pc with
  | .unlocking _ _ => false
  | .finished _ => false
  | _ => true

def csum (f : Nat → Int) : Nat → Int
  | 0 => 0
  | n + 1 => csum f n + f n

theorem csum_congr {f g : Nat → Int} {n : Nat} (h : ∀ i, i < n → f i = g i) : csum f n = csum g n := by
  induction n with
  | zero => rfl
  | succ n ih =>
    simp only [csum]
    rw [ih (fun i hi => h i (by omega)), h n (by omega)]

theorem csum_update {f g : Nat → Int} {n t : Nat} (ht : t < n) (h : ∀ i, i ≠ t → f i = g i) :
    csum g n = csum f n + (g t - f t) := by
  induction n with
  | zero => omega
  | succ n ih =>
    simp only [csum]
    by_cases htn : t = n
    · subst htn
      rw [csum_congr (f := g) (g := f) (fun i hi => (h i (by omega)).symm)]
      omega
    · rw [ih (by omega), h n (fun h' => htn h'.symm)]
      omega

theorem setxApply_cinc (t : Task) (k : Nat) (v : Int) (e p : Bool) : (setxApply t k v e p).cinc = t.cinc := by
  unfold setxApply; split <;> rfl

theorem expBuffer_cinc (t : Task) (k : Nat) (cur : Option Int) :
    (expBuffer t k cur).cinc = t.cinc ∧ (expBuffer t k cur).pend = t.pend := by
  cases cur <;> simp [expBuffer]

theorem isum_append (k : Nat) (l m : List (Nat × Int)) : isum k (l ++ m) = isum k l + isum k m := by
  induction l with
  | nil => simp [isum]
  | cons p l ih =>
    obtain ⟨k', n⟩ := p
    simp only [List.cons_append, isum, ih]; omega

@[simp] theorem isum_nil (k : Nat) : isum k [] = 0 := rfl

theorem isum_single (k k' : Nat) (n : Int) : isum k [(k', n)] = if k' = k then n else 0 := by simp [isum]

/-- the body relation while local code runs: `rem` is what is left, `S` the store's counter value: if the task has
`k` buffered, it holds `k`'s lock and the buffered value is the store's value plus the increments the task has issued
since its last commit / rollback (`pend`); if not, it has no increment of `k` pending -/
structure CBody (k : Nat) (S : Int) (rem : List Cmd) (t : Task) : Prop where
  noclob : ∀ c ∈ rem, c.clobbers k = false
  nodel : k ∉ t.del
  some_ : ∀ v, t.ov.get k = some v → lockKeyOf t.mode k ∈ t.locks ∧ v = S + isum k t.pend
  none_ : t.ov.get k = none → isum k t.pend = 0

/-- the counter invariant of one parked task -/
structure CI (k : Nat) (S : Int) (t : Task) : Prop where
  plain : t.isTx = false → ∀ c ∈ t.rem, c.writes k = false
  start : t.isTx = true → t.pc = .start → OnlyIncr k true t.prog ∧ t.pend = []
  body : t.ctx = true → t.active = true → CBody k S t.rem t
  seed : ∀ n, t.pc = .seedGet k n → t.ov.get k = none ∧ lockKeyOf t.mode k ∈ t.locks
  txpc : t.isTx = true → t.ctx = false → t.pc = .start
  eseed : t.pc = .expGet k → t.ov.get k = none ∧ lockKeyOf t.mode k ∈ t.locks

theorem CBody_rest {k : Nat} {S : Int} {c : Cmd} {rest : List Cmd} {t : Task} (h : CBody k S (c :: rest) t) :
    CBody k S rest t :=
  ⟨fun c' hc' => h.noclob c' (List.mem_cons_of_mem _ hc'), h.nodel, h.some_, h.none_⟩

theorem CBody_setxApply {k : Nat} {S : Int} {rem : List Cmd} {t : Task} (h : CBody k S rem t)
    {k' : Nat} (hne : k' ≠ k) (v : Int) (e p : Bool) : CBody k S rem (setxApply t k' v e p) := by
  unfold setxApply
  split
  · refine ⟨h.noclob, ?_, ?_, ?_⟩
    · simp [h.nodel]
    · intro v' hv; simp only [AL.get_put, hne, if_false] at hv; exact h.some_ v' hv
    · intro hv; simp only [AL.get_put, hne, if_false] at hv; exact h.none_ hv
  · exact ⟨h.noclob, h.nodel, h.some_, h.none_⟩

/-- an empty buffer satisfies the body relation whatever the store holds -/
theorem CBody_empty {k : Nat} {S : Int} {rem : List Cmd} {t : Task} (hn : ∀ c ∈ rem, c.clobbers k = false)
    (ho : t.ov = []) (hd : t.del = []) (hp : t.pend = []) : CBody k S rem t :=
  ⟨hn, by simp [hd], fun v hv => by simp [ho] at hv, fun _ => by simp [hp]⟩

theorem CBody_localCmd {k : Nat} {S : Int} {c : Cmd} {rest : List Cmd} {t t' : Task}
    (h : CBody k S (c :: rest) t) (hl : localCmd t c = some t') :
    CBody k S rest t' ∧ isum k t'.cinc = isum k t.cinc := by
  have hrest : ∀ c' ∈ rest, c'.clobbers k = false := fun c' hc' => h.noclob c' (List.mem_cons_of_mem _ hc')
  have hc := h.noclob c (List.mem_cons_self)
  have h' := CBody_rest h
  cases c <;> simp only [localCmd] at hl
  case set k' v =>
    split at hl <;> simp at hl; subst hl
    have hne : k' ≠ k := by simpa [Cmd.clobbers] using hc
    refine ⟨⟨hrest, ?_, ?_, ?_⟩, rfl⟩
    · simp [h.nodel]
    · intro v' hv; simp only [AL.get_put, hne, if_false] at hv; exact h.some_ v' hv
    · intro hv; simp only [AL.get_put, hne, if_false] at hv; exact h.none_ hv
  case incr k' n =>
    split at hl
    · split at hl
      · rename_i v0 hv0
        simp at hl; subst hl
        refine ⟨⟨hrest, h.nodel, ?_, ?_⟩, rfl⟩
        · intro v' hv
          simp only [AL.get_put] at hv
          by_cases hk : k' = k
          · subst hk
            simp at hv; subst hv
            have := h.some_ v0 hv0
            simp only [isum_append, isum_single, if_true]
            exact ⟨this.1, by omega⟩
          · simp only [hk, if_false] at hv
            simpa [isum_append, isum_single, hk] using h.some_ v' hv
        · intro hv
          simp only [AL.get_put] at hv
          by_cases hk : k' = k
          · simp [hk] at hv
          · simp only [hk, if_false] at hv
            simpa [isum_append, isum_single, hk] using h.none_ hv
      · split at hl <;> simp at hl
        subst hl
        rename_i hov hdel
        have hk : k' ≠ k := fun e => h.nodel (e ▸ hdel)
        refine ⟨⟨hrest, by simp [h.nodel], ?_, ?_⟩, rfl⟩
        · intro v' hv; simp only [AL.get_put, hk, if_false] at hv; simpa [isum_append, isum_single, hk] using h.some_ v' hv
        · intro hv; simp only [AL.get_put, hk, if_false] at hv; simpa [isum_append, isum_single, hk] using h.none_ hv
    · simp at hl
  case get k' =>
    split at hl
    · split at hl
      · simp at hl; subst hl
        exact ⟨⟨hrest, h.nodel, h.some_, h.none_⟩, rfl⟩
      · split at hl <;> simp at hl
        subst hl
        exact ⟨⟨hrest, h.nodel, h.some_, h.none_⟩, rfl⟩
    · simp at hl
  case delete k' =>
    split at hl <;> simp at hl; subst hl
    have hne : k' ≠ k := by simpa [Cmd.clobbers] using hc
    refine ⟨⟨hrest, ?_, ?_, ?_⟩, rfl⟩
    · simp [h.nodel, Ne.symm hne]
    · intro v' hv; simp only [AL.get_erase, hne, if_false] at hv; exact h.some_ v' hv
    · intro hv; simp only [AL.get_erase, hne, if_false] at hv; exact h.none_ hv
  case expire k' =>
    split at hl
    · split at hl
      · simp at hl; subst hl
        exact ⟨h', rfl⟩
      · split at hl <;> simp at hl
        subst hl
        exact ⟨h', rfl⟩
    · simp at hl
  case setx k' v e =>
    have hne : k' ≠ k := by simpa [Cmd.clobbers] using hc
    have g := fun p => setxApply_cinc t k' v e p
    split at hl
    · split at hl
      · simp at hl; subst hl; exact ⟨CBody_setxApply h' hne _ _ _, by rw [g]⟩
      · split at hl <;> simp at hl
        subst hl; exact ⟨CBody_setxApply h' hne _ _ _, by rw [g]⟩
    · simp at hl
  case sleep d => simp at hl
  case raise b => simp at hl
  case nestIn f =>
    simp at hl; subst hl
    exact ⟨⟨hrest, h.nodel, h.some_, h.none_⟩, rfl⟩
  case nestOut =>
    simp at hl; subst hl
    exact ⟨⟨hrest, h.nodel, h.some_, h.none_⟩, rfl⟩
  case commit =>
    split at hl
    · split at hl <;> simp at hl
      subst hl
      rename_i hcond
      have h0 : isum k t.pend = 0 := h.none_ (by simp [hcond.2.1])
      refine ⟨CBody_empty hrest hcond.2.1 hcond.1 rfl, ?_⟩
      simp [isum_append, h0]
    · simp at hl; subst hl; exact ⟨h', rfl⟩
  case rollback =>
    split at hl
    · split at hl <;> simp at hl
      subst hl
      exact ⟨CBody_empty hrest rfl rfl rfl, rfl⟩
    · simp at hl; subst hl; exact ⟨h', rfl⟩

/-- what `settle` delivers for a task inside its transaction; `C` = the task's durable increments of `k` before -/
structure CPark (k : Nat) (S C : Int) (t : Task) : Prop where
  ctx : t.ctx = true
  body : t.active = true → CBody k S t.rem t
  seed : ∀ n, t.pc = .seedGet k n → t.ov.get k = none ∧ lockKeyOf t.mode k ∈ t.locks
  csame : isum k t.cinc = C
  nostart : t.pc ≠ .start
  eseed : t.pc = .expGet k → t.ov.get k = none ∧ lockKeyOf t.mode k ∈ t.locks

theorem CPark_abort {k : Nat} {S C : Int} {t : Task} (hc : t.ctx = true) (o : Outcome) (hC : isum k t.cinc = C) :
    CPark k S C (abort t o) := by
  unfold abort
  split <;> refine ⟨hc, ?_, ?_, ?_, ?_, ?_⟩ <;> simp [Task.active, hC]

theorem CPark_afterCommit {k : Nat} {S C : Int} {t : Task} (hc : t.ctx = true) (h0 : isum k t.pend = 0)
    (hC : isum k t.cinc = C) : CPark k S C (afterCommit t) := by
  unfold afterCommit
  split <;> refine ⟨hc, ?_, ?_, ?_, ?_, ?_⟩ <;> simp [Task.active, isum_append, h0, hC]

theorem CPark_settle {k : Nat} {S C : Int} (now : Nat) (prog : List Cmd) (t : Task)
    (hc : t.ctx = true) (hm : t.mode ≠ .fast) (h : CBody k S prog t) (hC0 : isum k t.cinc = C) :
    CPark k S C (settle now prog t) := by
  subst hC0
  refine settle_ind (R := fun rem t' => t'.ctx = true ∧ t'.mode ≠ .fast ∧ CBody k S rem t' ∧ isum k t'.cinc = isum k t.cinc)
    (P := CPark k S (isum k t.cinc)) now ?_ ?_ ?_ prog t ⟨hc, hm, h, rfl⟩
  · intro t c rest t' ⟨hc, hm, h, hC⟩ hl
    have f := localCmd_frame hl
    have g := CBody_localCmd h hl
    exact ⟨f.2.2.2.2.1.trans hc, by rw [f.2.1]; exact hm, g.1, g.2.trans hC⟩
  · intro t ⟨hc, hm, h, hC⟩
    unfold endOfProg
    rw [if_pos hc]
    split
    · refine ⟨hc, ?_, ?_, ?_, ?_, ?_⟩ <;> simp [Task.active, Task.rem, hC]
      exact ⟨h.noclob, h.nodel, h.some_, h.none_⟩
    · split
      · refine ⟨hc, ?_, ?_, ?_, ?_, ?_⟩ <;> simp [Task.active, Task.rem, hC]
        exact ⟨h.noclob, h.nodel, h.some_, h.none_⟩
      · rename_i hov
        have hov' : t.ov = [] := by simpa using hov
        have h0 : isum k t.pend = 0 := h.none_ (by simp [hov'])
        exact CPark_afterCommit (t := { t with prog := [] }) hc h0 hC
  · intro t c rest ⟨hc, hm, h, hC⟩ hl
    have hr := CBody_rest h
    cases c <;> simp only [park] <;> (try rw [if_pos hc])
    case sleep d =>
      refine ⟨hc, ?_, ?_, ?_, ?_, ?_⟩ <;> simp [Task.active, Task.rem, hC]
      exact ⟨hr.noclob, hr.nodel, hr.some_, hr.none_⟩
    case raise b => exact CPark_abort hc _ hC
    case set k' v =>
      unfold lockOrFail; split
      · exact CPark_abort hc _ hC
      · refine ⟨hc, ?_, ?_, ?_, ?_, ?_⟩ <;> simp [Task.active, Task.rem, hC]
        exact ⟨h.noclob, h.nodel, h.some_, h.none_⟩
    case delete k' =>
      unfold lockOrFail; split
      · exact CPark_abort hc _ hC
      · refine ⟨hc, ?_, ?_, ?_, ?_, ?_⟩ <;> simp [Task.active, Task.rem, hC]
        exact ⟨h.noclob, h.nodel, h.some_, h.none_⟩
    case incr k' n =>
      split
      · rename_i hh
        simp only [localCmd, hc, hh, Bool.and_self, if_true] at hl
        refine ⟨hc, ?_, ?_, ?_, ?_, ?_⟩ <;> simp [Task.active, Task.rem, hC]
        · exact ⟨h.noclob, h.nodel, h.some_, h.none_⟩
        · intro hk
          subst hk
          refine ⟨?_, ?_⟩
          · cases hg : t.ov.get k' with
            | none => rfl
            | some v => simp [hg] at hl
          · have : holds t k' = true := hh
            unfold holds at this
            simp [hm] at this
            simpa using this
      · unfold lockOrFail; split
        · exact CPark_abort hc _ hC
        · refine ⟨hc, ?_, ?_, ?_, ?_, ?_⟩ <;> simp [Task.active, Task.rem, hC]
          exact ⟨h.noclob, h.nodel, h.some_, h.none_⟩
    case get k' =>
      refine ⟨hc, ?_, ?_, ?_, ?_, ?_⟩ <;> simp [Task.active, Task.rem, hC]
      exact ⟨hr.noclob, hr.nodel, hr.some_, hr.none_⟩
    case expire k' =>
      split
      · rename_i hh
        simp only [localCmd, hc, hh, Bool.and_self, if_true] at hl
        refine ⟨hc, ?_, ?_, ?_, ?_, ?_⟩ <;> simp [Task.active, Task.rem, hC]
        · exact ⟨h.noclob, h.nodel, h.some_, h.none_⟩
        · intro hk
          subst hk
          refine ⟨?_, ?_⟩
          · cases hg : t.ov.get k' with
            | none => rfl
            | some v => simp [hg] at hl
          · have : holds t k' = true := hh
            unfold holds at this
            simp [hm] at this
            simpa using this
      · unfold lockOrFail; split
        · exact CPark_abort hc _ hC
        · refine ⟨hc, ?_, ?_, ?_, ?_, ?_⟩ <;> simp [Task.active, Task.rem, hC]
          exact ⟨h.noclob, h.nodel, h.some_, h.none_⟩
    case setx k' v e =>
      split
      · refine ⟨hc, ?_, ?_, ?_, ?_, ?_⟩ <;> simp [Task.active, Task.rem, hC]
        exact ⟨h.noclob, h.nodel, h.some_, h.none_⟩
      · unfold lockOrFail; split
        · exact CPark_abort hc _ hC
        · refine ⟨hc, ?_, ?_, ?_, ?_, ?_⟩ <;> simp [Task.active, Task.rem, hC]
          exact ⟨h.noclob, h.nodel, h.some_, h.none_⟩
    case nestIn f => simp [localCmd] at hl
    case nestOut => simp [localCmd] at hl
    case commit =>
      split
      · refine ⟨hc, ?_, ?_, ?_, ?_, ?_⟩ <;> simp [Task.active, Task.rem, hC]
        exact ⟨hr.noclob, hr.nodel, hr.some_, hr.none_⟩
      · split
        · refine ⟨hc, ?_, ?_, ?_, ?_, ?_⟩ <;> simp [Task.active, Task.rem, hC]
          exact ⟨hr.noclob, hr.nodel, hr.some_, hr.none_⟩
        · rename_i hd ho
          have hd' : t.del = [] := by simpa using hd
          have ho' : t.ov = [] := by simpa using ho
          have h0 : isum k t.pend = 0 := h.none_ (by simp [ho'])
          refine ⟨hc, ?_, ?_, ?_, ?_, ?_⟩ <;> simp [Task.active, Task.rem, hC, isum_append, h0]
          exact CBody_empty hr.noclob ho' hd' rfl
    case rollback =>
      refine ⟨hc, ?_, ?_, ?_, ?_, ?_⟩ <;> simp [Task.active, Task.rem, hC]
      exact CBody_empty hr.noclob rfl rfl rfl

/-- an explicit commit has flushed the buffer: the body goes on with an empty one, whatever the store holds now -/
theorem CPark_afterMid {k : Nat} {S' C : Int} (now : Nat) {t : Task} (hc : t.ctx = true) (hm : t.mode ≠ .fast)
    (hn : ∀ c ∈ t.prog, c.clobbers k = false) (hC : isum k t.cinc + isum k t.pend = C) :
    CPark k S' C (afterMid now t) := by
  unfold afterMid
  split
  · exact CPark_settle now t.prog _ hc hm (CBody_empty hn rfl rfl rfl) (by simp [isum_append, hC])
  · refine ⟨hc, ?_, ?_, ?_, ?_, ?_⟩ <;> simp [Task.active, Task.rem, isum_append, hC]
    exact CBody_empty hn rfl rfl rfl

theorem CI_of_CPark {k : Nat} {S C : Int} {t : Task} (h : CPark k S C t) (htx : t.isTx = true) : CI k S t :=
  { plain := fun hp => by rw [htx] at hp; cases hp
    start := fun _ hs => absurd hs h.nostart
    body := fun _ ha => h.body ha
    seed := h.seed
    txpc := fun _ hc => by rw [h.ctx] at hc; cases hc
    eseed := h.eseed }

theorem rem_abort (t : Task) (o : Outcome) : (abort t o).rem = [] := by
  unfold abort; split <;> simp [Task.rem]

/-- a task outside any transaction: settling keeps "does not write k" for what is left -/
theorem plain_settle {k : Nat} (now : Nat) (prog : List Cmd) (t : Task) (hc : t.ctx = false)
    (h : ∀ c ∈ prog, c.writes k = false) : ∀ c ∈ (settle now prog t).rem, c.writes k = false := by
  refine settle_ind (R := fun rem t => t.ctx = false ∧ ∀ c ∈ rem, c.writes k = false)
    (P := fun t' => ∀ c ∈ t'.rem, c.writes k = false) now ?_ ?_ ?_ prog t ⟨hc, h⟩
  · intro t c rest t' ⟨hc, h⟩ hl
    exact ⟨(localCmd_frame hl).2.2.2.2.1.trans hc, fun c' hc' => h c' (List.mem_cons_of_mem _ hc')⟩
  · intro t ⟨hc, _⟩
    unfold endOfProg
    simp [hc, Task.rem]
  · intro t c rest ⟨hc, h⟩ hl
    have hrest : ∀ c' ∈ rest, c'.writes k = false := fun c' hc' => h c' (List.mem_cons_of_mem _ hc')
    have hcw := h c List.mem_cons_self
    cases c <;> simp only [park, hc]
    case raise b => rw [rem_abort]; simp
    case nestIn f => simp [localCmd] at hl
    case nestOut => simp [localCmd] at hl
    case commit => simp [localCmd, hc] at hl
    case rollback => simp [localCmd, hc] at hl
    all_goals simp_all [Task.rem]

/-- what a transaction has added to the counter so far: its increments of `k` that a commit has made durable -/
def contrib (k : Nat) (t : Task) : Int :=
  if t.isTx = true then isum k t.cinc else 0

/-- the facts about one step of one task that the counter invariant needs -/
structure CStep (k : Nat) (S : Int) (t : Task) (E : Eff) : Prop where
  ci : CI k ((E.store k).getD 0) E.task
  delta : (E.store k).getD 0 = S + (contrib k E.task - contrib k t)
  changed : (E.store k).getD 0 ≠ S → t.ctx = true ∧ t.active = true ∧ ∃ v, t.ov.get k = some v
  isTx : E.task.isTx = t.isTx
  mode : E.task.mode = t.mode

/-- the step leaves the store's `k` alone and the task comes out of `settle` inside its transaction -/
theorem CStep_of_CPark {k : Nat} {S : Int} {t : Task} {E : Eff}
    (hst : (E.store k).getD 0 = S) (hp : CPark k S (isum k t.cinc) E.task)
    (htx : E.task.isTx = true) (hi : E.task.isTx = t.isTx) (hm : E.task.mode = t.mode) :
    CStep k S t E :=
  { ci := by rw [hst]; exact CI_of_CPark hp htx
    delta := by rw [hst]; simp [contrib, htx, ← hi, hp.csame]
    changed := fun h => absurd hst h
    isTx := hi, mode := hm }

/-- same for a task outside any transaction -/
theorem CStep_plain {k : Nat} {S : Int} {t : Task} {E : Eff}
    (hst : (E.store k).getD 0 = S) (hti : E.task.TI) (hntx : t.isTx = false)
    (hrem : ∀ c ∈ E.task.rem, c.writes k = false) (hi : E.task.isTx = t.isTx) (hm : E.task.mode = t.mode) :
    CStep k S t E := by
  have hntx' : E.task.isTx = false := hi.trans hntx
  have hcf : E.task.ctx = false := hti.plain_ctx hntx'
  refine { ci := ?_, delta := ?_, changed := fun h => absurd hst h, isTx := hi, mode := hm }
  · refine { plain := fun _ => hrem, start := ?_, body := ?_, seed := ?_, txpc := ?_, eseed := ?_ }
    · intro h; rw [hntx'] at h; cases h
    · intro h; rw [hcf] at h; cases h
    · intro n hpc; have := hti.noctx_pc hcf; simp [hpc, PC.plainOk] at this
    · intro h; rw [hntx'] at h; cases h
    · intro hpc; have := hti.noctx_pc hcf; simp [hpc, PC.plainOk] at this
  · rw [hst]; simp [contrib, hntx, hntx']

/-- the task itself is unchanged apart from its pc, which stays among the active, non-start ones; store unchanged -/
theorem CStep_same {k : Nat} {S : Int} {t : Task} {E : Eff}
    (hst : (E.store k).getD 0 = S) (hci : CI k S E.task)
    (hco : E.task.cinc = t.cinc) (hi : E.task.isTx = t.isTx) (hm : E.task.mode = t.mode) :
    CStep k S t E :=
  { ci := by rw [hst]; exact hci
    delta := by rw [hst]; simp [contrib, hco, hi]
    changed := fun h => absurd hst h
    isTx := hi, mode := hm }

theorem CBody_of_eq {k : Nat} {S : Int} {rem : List Cmd} {t t' : Task} (h : CBody k S rem t)
    (hd : t'.del = t.del) (ho : t'.ov = t.ov) (hm : t'.mode = t.mode) (hl : t'.locks = t.locks) (hp : t'.pend = t.pend) :
    CBody k S rem t' :=
  ⟨h.noclob, by rw [hd]; exact h.nodel, by rw [ho, hm, hl, hp]; exact h.some_, by rw [ho, hp]; exact h.none_⟩

/-- a parked transactional task whose pc is replaced by another non-start one -/
theorem CI_repc {k : Nat} {S : Int} {t : Task} (pc' : PC) (hc : t.ctx = true) (htx : t.isTx = true)
    (hb : ({ t with pc := pc' } : Task).active = true → CBody k S ({ t with pc := pc' } : Task).rem t)
    (hseed : ∀ n, pc' ≠ .seedGet k n) (hstart : pc' ≠ .start) (heseed : pc' ≠ .expGet k) : CI k S { t with pc := pc' } :=
  { plain := fun h => by rw [show ({ t with pc := pc' } : Task).isTx = t.isTx from rfl, htx] at h; cases h
    start := fun _ h => absurd h hstart
    body := fun _ ha => CBody_of_eq (hb ha) rfl rfl rfl rfl rfl
    seed := fun n h => absurd h (hseed n)
    txpc := fun _ h => by rw [show ({ t with pc := pc' } : Task).ctx = t.ctx from rfl, hc] at h; cases h
    eseed := fun h => absurd h heseed }

theorem holds_mem {t : Task} {k : Nat} (hm : t.mode ≠ .fast) (h : holds t k = true) : lockKeyOf t.mode k ∈ t.locks := by
  unfold holds at h
  simpa [hm] using h

theorem counter_taskStep {k : Nat} {S : Int} {t : Task} (hti : t.TI) (hci : CI k S t)
    (hmf : t.isTx = true → t.mode ≠ .fast) (tid now : Nat) (store : Store) (lock : Locks)
    (hS : (store k).getD 0 = S) : CStep k S t (taskStep tid now store lock t) := by
  have hTI' := TI_taskStep hti tid now store lock
  cases hpc : t.pc
  case start =>
    have hcf := TI.noctx_of_pc hti (by simp [hpc, PC.txOk])
    have hov := (hti.noctx hcf).2.1
    have hdel := (hti.noctx hcf).2.2
    cases htx : t.isTx
    · rw [taskStep_start_plain _ _ _ _ _ hpc htx] at hTI' ⊢
      have f := Frame_settle now t.prog t
      refine CStep_plain hS hTI' htx ?_ f.isTx f.mode
      refine plain_settle now t.prog t hcf ?_
      have := hci.plain htx
      simpa [Task.rem, hpc] using this
    · rw [taskStep_start_tx _ _ _ _ _ hpc htx] at hTI' ⊢
      have hst := hci.start htx hpc
      have hoi : ∀ c ∈ t.prog, c.clobbers k = false := by simpa [OnlyIncr] using hst.1
      refine CStep_of_CPark hS ?_ ((Frame_settle _ _ _).isTx.trans htx) (Frame_settle _ _ _).isTx (Frame_settle _ _ _).mode
      exact CPark_settle now _ _ rfl (hmf htx) (CBody_empty hoi hov hdel hst.2) rfl
  case lockTry k' left =>
    have hc := TI.ctx_of_pc hti (by simp [hpc, PC.plainOk])
    have htx := (hti.ctx_tx hc)
    have hb := hci.body hc (by simp [Task.active, hpc])
    have hrem : t.rem = t.prog := by simp [Task.rem, hpc]
    rw [hrem] at hb
    cases hf : lockFree lock (lockKeyOf t.mode k') now
    · rw [taskStep_lockTry_busy _ _ _ _ _ hpc hf]
      refine CStep_same hS ?_ rfl rfl rfl
      exact CI_repc _ hc htx (fun _ => by simpa [Task.rem] using hb) (by simp) (by simp) (by simp)
    · rw [taskStep_lockTry_free _ _ _ _ _ hpc hf]
      refine CStep_of_CPark hS ?_ ((Frame_settle _ _ _).isTx.trans htx) (Frame_settle _ _ _).isTx (Frame_settle _ _ _).mode
      refine CPark_settle now _ _ hc (hmf htx) ⟨hb.noclob, hb.nodel, ?_, hb.none_⟩ rfl
      intro v hv
      have := hb.some_ v hv
      exact ⟨mem_insertLock.mpr (Or.inr this.1), this.2⟩
  case lockSleep k' left wk =>
    rw [taskStep_lockSleep _ _ _ _ _ hpc]
    exact CStep_same hS hci rfl rfl rfl
  case bodySleep wk =>
    rw [taskStep_bodySleep _ _ _ _ _ hpc]
    exact CStep_same hS hci rfl rfl rfl
  case finished o =>
    rw [taskStep_finished _ _ _ _ _ hpc]
    exact CStep_same hS hci rfl rfl rfl
  case seedGet k' n =>
    have hc := TI.ctx_of_pc hti (by simp [hpc, PC.plainOk])
    have htx := (hti.ctx_tx hc)
    have hb := hci.body hc (by simp [Task.active, hpc])
    have hrem : t.rem = .incr k' n :: t.prog := by simp [Task.rem, hpc]
    rw [hrem] at hb
    rw [taskStep_seedGet _ _ _ _ _ hpc]
    refine CStep_of_CPark hS ?_ ((Frame_settle _ _ _).isTx.trans htx) (Frame_settle _ _ _).isTx (Frame_settle _ _ _).mode
    refine CPark_settle now _ _ hc (hmf htx) ⟨fun c hc' => hb.noclob c (List.mem_cons_of_mem _ hc'), hb.nodel, ?_, ?_⟩ rfl
    · intro v hv
      simp only [AL.get_put] at hv
      by_cases hk : k' = k
      · subst hk
        simp at hv
        have hs := hci.seed n hpc
        have hn := hb.none_ hs.1
        simp only [isum_append, isum_single, if_true]
        exact ⟨hs.2, by rw [← hv, hS]; omega⟩
      · simp only [hk, if_false] at hv
        have := hb.some_ v hv
        simpa [isum_append, isum_single, hk] using this
    · intro hv
      simp only [AL.get_put] at hv
      by_cases hk : k' = k
      · simp [hk] at hv
      · simp only [hk, if_false] at hv
        simpa [isum_append, isum_single, hk] using hb.none_ hv
  case readGet k' =>
    have hc := TI.ctx_of_pc hti (by simp [hpc, PC.plainOk])
    have htx := (hti.ctx_tx hc)
    have hb := hci.body hc (by simp [Task.active, hpc])
    have hrem : t.rem = t.prog := by simp [Task.rem, hpc]
    rw [hrem] at hb
    rw [taskStep_readGet _ _ _ _ _ hpc]
    refine CStep_of_CPark hS ?_ ((Frame_settle _ _ _).isTx.trans htx) (Frame_settle _ _ _).isTx (Frame_settle _ _ _).mode
    exact CPark_settle now _ _ hc (hmf htx) ⟨hb.noclob, hb.nodel, hb.some_, hb.none_⟩ rfl
  case expGet k' =>
    have hc := TI.ctx_of_pc hti (by simp [hpc, PC.plainOk])
    have htx := (hti.ctx_tx hc)
    have hb := hci.body hc (by simp [Task.active, hpc])
    have hrem : t.rem = .expire k' :: t.prog := by simp [Task.rem, hpc]
    rw [hrem] at hb
    rw [taskStep_expGet _ _ _ _ _ hpc]
    have f := Frame_settle_expBuffer now t k' (store k')
    have e := expBuffer_frame t k' (store k')
    have ec := expBuffer_cinc t k' (store k')
    refine CStep_of_CPark hS ?_ (f.isTx.trans htx) f.isTx f.mode
    refine CPark_settle now _ _ (e.2.2.2.2.1.trans hc) (by rw [e.2.1]; exact hmf htx) ?_ (by rw [ec.1])
    rw [e.2.2.2.2.2.2.1]
    refine ⟨fun c hc' => hb.noclob c (List.mem_cons_of_mem _ hc'), by rw [e.2.2.2.2.2.2.2.1]; exact hb.nodel, ?_, ?_⟩
    · intro v hv
      rw [e.2.1, e.2.2.2.2.2.1, ec.2]
      cases hs : store k' with
      | none =>
        simp only [hs, expBuffer] at hv
        exact hb.some_ v hv
      | some v0 =>
        simp only [hs, expBuffer, AL.get_put] at hv
        by_cases hk : k' = k
        · subst hk
          simp at hv
          have hsd := hci.eseed hpc
          have hn := hb.none_ hsd.1
          refine ⟨hsd.2, ?_⟩
          rw [← hS, hs, ← hv, hn]; simp
        · simp only [hk, if_false] at hv
          exact hb.some_ v hv
    · intro hv
      rw [ec.2]
      cases hs : store k' with
      | none =>
        simp only [hs, expBuffer] at hv
        exact hb.none_ hv
      | some v0 =>
        simp only [hs, expBuffer, AL.get_put] at hv
        by_cases hk : k' = k
        · simp [hk] at hv
        · simp only [hk, if_false] at hv
          exact hb.none_ hv
  case existsGet k' v e =>
    have hc := TI.ctx_of_pc hti (by simp [hpc, PC.plainOk])
    have htx := (hti.ctx_tx hc)
    have hb := hci.body hc (by simp [Task.active, hpc])
    have hrem : t.rem = .setx k' v e :: t.prog := by simp [Task.rem, hpc]
    rw [hrem] at hb
    have hne : k' ≠ k := by simpa [Cmd.clobbers] using hb.noclob _ List.mem_cons_self
    rw [taskStep_existsGet _ _ _ _ _ hpc]
    have f := Frame_settle_setx now t k' v e (store k').isSome (store k')
    have g := setxApply_frame { t with reads := t.reads ++ [store k'] } k' v e (store k').isSome
    have gc := setxApply_cinc { t with reads := t.reads ++ [store k'] } k' v e (store k').isSome
    refine CStep_of_CPark hS ?_ (f.isTx.trans htx) f.isTx f.mode
    refine CPark_settle now _ _ (g.2.2.2.2.1.trans hc) (by rw [g.2.1]; exact hmf htx) ?_ (by rw [gc])
    rw [g.2.2.2.2.2.2.2.2.1]
    refine CBody_setxApply (t := { t with reads := t.reads ++ [store k'] }) ?_ hne _ _ _
    exact ⟨fun c hc' => hb.noclob c (List.mem_cons_of_mem _ hc'), hb.nodel, hb.some_, hb.none_⟩
  case direct c =>
    have hcf := TI.noctx_of_pc hti (by simp [hpc, PC.txOk])
    have hntx : t.isTx = false := by
      cases htx : t.isTx
      · rfl
      · have := hci.txpc htx hcf; rw [hpc] at this; cases this
    have hw := hci.plain hntx
    have hrem : t.rem = c :: t.prog := by simp [Task.rem, hpc]
    rw [hrem] at hw
    have hcw := hw c List.mem_cons_self
    have hrest : ∀ c' ∈ t.prog, c'.writes k = false := fun c' hc' => hw c' (List.mem_cons_of_mem _ hc')
    rw [taskStep_direct _ _ _ _ _ hpc] at hTI' ⊢
    cases c <;> simp only [directStep] at hTI' ⊢
    case set k' v =>
      have hne : k ≠ k' := by simp [Cmd.writes] at hcw; exact fun h => hcw h.symm
      have f := Frame_settle now t.prog t
      exact CStep_plain (by simp [Mut.apply, hne, hS]) hTI' hntx (plain_settle now _ _ hcf hrest) f.isTx f.mode
    case incr k' n =>
      have hne : k ≠ k' := by simp [Cmd.writes] at hcw; exact fun h => hcw h.symm
      exact CStep_plain (by simp [Mut.apply, hne, hS]) hTI' hntx (plain_settle now _ _ hcf hrest)
        (Frame_settle _ _ _).isTx (Frame_settle _ _ _).mode
    case get k' =>
      exact CStep_plain hS hTI' hntx (plain_settle now _ _ hcf hrest) (Frame_settle _ _ _).isTx (Frame_settle _ _ _).mode
    case delete k' =>
      have hne : k ≠ k' := by simp [Cmd.writes] at hcw; exact fun h => hcw h.symm
      have f := Frame_settle now t.prog t
      exact CStep_plain (by simp [Mut.apply, hne, hS]) hTI' hntx (plain_settle now _ _ hcf hrest) f.isTx f.mode
    case expire k' =>
      exact CStep_plain hS hTI' hntx (plain_settle now _ _ hcf hrest) (Frame_settle _ _ _).isTx (Frame_settle _ _ _).mode
    case setx k' v e =>
      have hne : k ≠ k' := by simp [Cmd.writes] at hcw; exact fun h => hcw h.symm
      exact CStep_plain (by dsimp only; split <;> simp [Mut.apply, hne, hS]) hTI' hntx (plain_settle now _ _ hcf hrest)
        (Frame_settle _ _ _).isTx (Frame_settle _ _ _).mode
    all_goals exact CStep_same hS hci rfl rfl rfl
  case commitDel =>
    have hc := TI.ctx_of_pc hti (by simp [hpc, PC.plainOk])
    have htx := (hti.ctx_tx hc)
    have hb := hci.body hc (by simp [Task.active, hpc])
    have hrem : t.rem = t.prog := by simp [Task.rem, hpc]
    rw [hrem] at hb
    rw [taskStep_commitDel _ _ _ _ _ hpc]
    have hst : ((Mut.delMany t.del).apply store k).getD 0 = S := by simp [Mut.apply, hb.nodel, hS]
    split
    · refine CStep_same hst ?_ rfl rfl rfl
      exact CI_repc _ hc htx (fun _ => by simpa [Task.rem] using hb) (by simp) (by simp) (by simp)
    · rename_i hov
      have hov' : t.ov = [] := by simpa using hov
      have h0 : isum k t.pend = 0 := hb.none_ (by simp [hov'])
      have f := Frame_afterCommit t
      exact CStep_of_CPark hst (CPark_afterCommit hc h0 rfl) (f.isTx.trans htx) f.isTx f.mode
  case commitSet =>
    have hc := TI.ctx_of_pc hti (by simp [hpc, PC.plainOk])
    have htx := (hti.ctx_tx hc)
    have hb := hci.body hc (by simp [Task.active, hpc])
    have hrem : t.rem = t.prog := by simp [Task.rem, hpc]
    rw [hrem] at hb
    rw [taskStep_commitSet _ _ _ _ _ hpc]
    have f := Frame_afterCommit t
    have hcinc : (afterCommit t).cinc = t.cinc ++ t.pend := by unfold afterCommit; split <;> rfl
    cases hg : t.ov.get k with
    | none =>
      have h0 : isum k t.pend = 0 := hb.none_ hg
      have hst : ((Mut.setMany t.ov).apply store k).getD 0 = S := by simp [Mut.apply, hg, hS]
      exact CStep_of_CPark hst (CPark_afterCommit hc h0 rfl) (f.isTx.trans htx) f.isTx f.mode
    | some v =>
      have hv := (hb.some_ v hg).2
      have hst : ((Mut.setMany t.ov).apply store k).getD 0 = S + isum k t.pend := by simp [Mut.apply, hg, hv]
      refine { ci := ?_, delta := ?_, changed := fun _ => ⟨hc, by simp [Task.active, hpc], v, hg⟩, isTx := f.isTx, mode := f.mode }
      · dsimp only
        refine { plain := ?_, start := ?_, body := ?_, seed := ?_, txpc := ?_, eseed := ?_ }
        · intro h; rw [f.isTx, htx] at h; cases h
        · intro _ h; unfold afterCommit at h; split at h <;> simp at h
        · intro _ h; unfold afterCommit at h; split at h <;> simp [Task.active] at h
        · intro n h; unfold afterCommit at h; split at h <;> simp at h
        · intro _ h; rw [f.ctx, hc] at h; cases h
        · intro h; unfold afterCommit at h; split at h <;> simp at h
      · dsimp only
        rw [hst]
        simp only [contrib, f.isTx, htx, hcinc, isum_append, if_true]
        omega
  case unlocking ls o =>
    have hc := TI.ctx_of_pc hti (by simp [hpc, PC.plainOk])
    have htx := (hti.ctx_tx hc)
    cases ls with
    | nil =>
      rw [taskStep_unlocking_nil _ _ _ _ _ hpc]
      refine CStep_same hS ?_ rfl rfl rfl
      exact CI_repc _ hc htx (fun h => by simp [Task.active] at h) (by simp) (by simp) (by simp)
    | cons l rest =>
      rw [taskStep_unlocking_cons _ _ _ _ _ hpc]
      refine CStep_same hS ?_ rfl rfl rfl
      refine CI_repc _ hc htx (fun h => ?_) (by intro n; split <;> simp) (by split <;> simp) (by split <;> simp)
      split at h <;> simp [Task.active] at h
  case midDel =>
    have hc := TI.ctx_of_pc hti (by simp [hpc, PC.plainOk])
    have htx := (hti.ctx_tx hc)
    have hb := hci.body hc (by simp [Task.active, hpc])
    have hrem : t.rem = t.prog := by simp [Task.rem, hpc]
    rw [hrem] at hb
    rw [taskStep_midDel _ _ _ _ _ hpc]
    have hst : ((Mut.delMany t.del).apply store k).getD 0 = S := by simp [Mut.apply, hb.nodel, hS]
    split
    · refine CStep_same hst ?_ rfl rfl rfl
      exact CI_repc _ hc htx (fun _ => by simpa [Task.rem] using hb) (by simp) (by simp) (by simp)
    · rename_i hov
      have hov' : t.ov = [] := by simpa using hov
      have h0 : isum k t.pend = 0 := hb.none_ (by simp [hov'])
      have f := Frame_afterMid now t
      have hp : CPark k S (isum k t.cinc) (afterMid now t) :=
        CPark_afterMid now hc (hmf htx) hb.noclob (by rw [h0, Int.add_zero])
      exact CStep_of_CPark hst hp (f.isTx.trans htx) f.isTx f.mode
  case midSet =>
    have hc := TI.ctx_of_pc hti (by simp [hpc, PC.plainOk])
    have htx := (hti.ctx_tx hc)
    have hb := hci.body hc (by simp [Task.active, hpc])
    have hrem : t.rem = t.prog := by simp [Task.rem, hpc]
    rw [hrem] at hb
    rw [taskStep_midSet _ _ _ _ _ hpc]
    have f := Frame_afterMid now t
    cases hg : t.ov.get k with
    | none =>
      have h0 : isum k t.pend = 0 := hb.none_ hg
      have hst : ((Mut.setMany t.ov).apply store k).getD 0 = S := by simp [Mut.apply, hg, hS]
      have hp : CPark k S (isum k t.cinc) (afterMid now t) :=
        CPark_afterMid now hc (hmf htx) hb.noclob (by rw [h0, Int.add_zero])
      exact CStep_of_CPark hst hp (f.isTx.trans htx) f.isTx f.mode
    | some v =>
      have hv := (hb.some_ v hg).2
      have hst : ((Mut.setMany t.ov).apply store k).getD 0 = S + isum k t.pend := by simp [Mut.apply, hg, hv]
      have hp : CPark k (S + isum k t.pend) (isum k t.cinc + isum k t.pend) (afterMid now t) :=
        CPark_afterMid now hc (hmf htx) hb.noclob rfl
      refine { ci := ?_, delta := ?_, changed := fun _ => ⟨hc, by simp [Task.active, hpc], v, hg⟩, isTx := f.isTx, mode := f.mode }
      · dsimp only
        rw [hst]
        exact CI_of_CPark hp (f.isTx.trans htx)
      · dsimp only
        rw [hst]
        simp only [contrib, f.isTx, htx, hp.csame, if_true]
        omega
  case midUnlock ls =>
    have hc := TI.ctx_of_pc hti (by simp [hpc, PC.plainOk])
    have htx := (hti.ctx_tx hc)
    have hb := hci.body hc (by simp [Task.active, hpc])
    have hrem : t.rem = t.prog := by simp [Task.rem, hpc]
    rw [hrem] at hb
    cases ls with
    | nil =>
      rw [taskStep_midUnlock_nil _ _ _ _ _ hpc]
      exact CStep_of_CPark hS (CPark_settle now _ _ hc (hmf htx) hb rfl) ((Frame_settle _ _ _).isTx.trans htx)
        (Frame_settle _ _ _).isTx (Frame_settle _ _ _).mode
    | cons l rest =>
      rw [taskStep_midUnlock_cons _ _ _ _ _ hpc]
      by_cases hr : rest = []
      · simp only [hr, if_true]
        exact CStep_of_CPark hS (CPark_settle now _ _ hc (hmf htx) hb rfl) ((Frame_settle _ _ _).isTx.trans htx)
          (Frame_settle _ _ _).isTx (Frame_settle _ _ _).mode
      · simp only [hr, if_false]
        refine CStep_same hS ?_ rfl rfl rfl
        exact CI_repc _ hc htx (fun _ => by simpa [Task.rem] using hb) (by simp) (by simp) (by simp)

theorem counter_wake {k : Nat} {S : Int} {t : Task} (hti : t.TI) (hci : CI k S t)
    (hmf : t.isTx = true → t.mode ≠ .fast) (now : Nat) :
    CI k S (wake now t) ∧ contrib k (wake now t) = contrib k t := by
  unfold wake
  split
  · rename_i wk hpc
    split
    · rename_i hw
      have hTI' : (settle now t.prog t).TI := BodyTI_settle now _ hti.body
      cases htx : t.isTx
      · have hcf := hti.plain_ctx htx
        have f := Frame_settle now t.prog t
        have hrem := plain_settle (k := k) now t.prog t hcf (by simpa [Task.rem, hpc] using hci.plain htx)
        have hs : CStep k S t { store := fun _ => some S, lock := fun _ => none, task := settle now t.prog t } :=
          CStep_plain (by simp) hTI' htx hrem f.isTx f.mode
        have := hs.ci
        simp at this
        exact ⟨this, by simp [contrib, htx, f.isTx]⟩
      · have hc : t.ctx = true := by
          cases hc : t.ctx
          · have := hci.txpc htx hc; rw [hpc] at this; cases this
          · rfl
        have hb := hci.body hc (by simp [Task.active, hpc])
        rw [show t.rem = t.prog by simp [Task.rem, hpc]] at hb
        have hp : CPark k S (isum k t.cinc) (settle now t.prog t) := CPark_settle now t.prog t hc (hmf htx) hb rfl
        have f := Frame_settle now t.prog t
        exact ⟨CI_of_CPark hp (f.isTx.trans htx), by simp [contrib, f.isTx, htx, hp.csame]⟩
    · exact ⟨hci, rfl⟩
  · rename_i k' left wk hpc
    have hc := TI.ctx_of_pc hti (by simp [hpc, PC.plainOk])
    have htx := hti.ctx_tx hc
    split
    · split
      · have hp : CPark k S (isum k t.cinc) (abort t .raisedLocked) := CPark_abort hc _ rfl
        have f := Frame_abort t .raisedLocked
        exact ⟨CI_of_CPark hp (f.isTx.trans htx), by simp [contrib, f.isTx, htx, hp.csame]⟩
      · have hb := hci.body hc (by simp [Task.active, hpc])
        rw [show t.rem = t.prog by simp [Task.rem, hpc]] at hb
        refine ⟨CI_repc _ hc htx (fun _ => by simpa [Task.rem] using hb) (by simp) (by simp) (by simp), ?_⟩
        simp [contrib]
    · exact ⟨hci, rfl⟩
  · exact ⟨hci, rfl⟩

/-- a cancelled task: its buffer is dropped, what it had made durable stays -/
theorem counter_cancel {k : Nat} {S : Int} {t : Task} (hti : t.TI) (hci : CI k S t) :
    CI k S (cancelTask t) ∧ contrib k (cancelTask t) = contrib k t := by
  have key : (∃ k' a, t.pc = .lockTry k' a) ∨ (∃ k' a w, t.pc = .lockSleep k' a w) ∨ (∃ k' n, t.pc = .seedGet k' n) ∨
      (∃ k', t.pc = .readGet k') ∨ (∃ k', t.pc = .expGet k') ∨ (∃ k' v e, t.pc = .existsGet k' v e) ∨
      (∃ w, t.pc = .bodySleep w) ∨ (∃ c, t.pc = .direct c) → 
      CI k S (abort t .cancelled) ∧ contrib k (abort t .cancelled) = contrib k t := by
    intro hpcs
    have f := Frame_abort t .cancelled
    cases htx : t.isTx
    · have hcf := hti.plain_ctx htx
      have hl := (hti.noctx hcf).1
      have hab : abort t .cancelled = { t with ov := [], del := [], pend := [], prog := [], pc := .finished .cancelled } := by
        simp [abort, hl]
      rw [hab]
      refine ⟨?_, by simp [contrib, htx]⟩
      refine { plain := ?_, start := ?_, body := ?_, seed := ?_, txpc := ?_, eseed := ?_ } <;> simp [Task.rem, htx, hcf]
    · have hc : t.ctx = true := by
        cases hc : t.ctx
        · have := hci.txpc htx hc
          rcases hpcs with ⟨_, _, h⟩ | ⟨_, _, _, h⟩ | ⟨_, _, h⟩ | ⟨_, h⟩ | ⟨_, h⟩ | ⟨_, _, _, h⟩ | ⟨_, h⟩ | ⟨_, h⟩ <;>
            (rw [h] at this; cases this)
        · rfl
      have hp : CPark k S (isum k t.cinc) (abort t .cancelled) := CPark_abort hc _ rfl
      exact ⟨CI_of_CPark hp (f.isTx.trans htx), by simp [contrib, f.isTx, htx, hp.csame]⟩
  unfold cancelTask
  split
  · rename_i k' a hpc; exact key (Or.inl ⟨k', a, hpc⟩)
  · rename_i k' a w hpc; exact key (Or.inr (Or.inl ⟨k', a, w, hpc⟩))
  · rename_i k' n hpc; exact key (Or.inr (Or.inr (Or.inl ⟨k', n, hpc⟩)))
  · rename_i k' hpc; exact key (Or.inr (Or.inr (Or.inr (Or.inl ⟨k', hpc⟩))))
  · rename_i k' hpc; exact key (Or.inr (Or.inr (Or.inr (Or.inr (Or.inl ⟨k', hpc⟩)))))
  · rename_i k' v e hpc; exact key (Or.inr (Or.inr (Or.inr (Or.inr (Or.inr (Or.inl ⟨k', v, e, hpc⟩))))))
  · rename_i w hpc; exact key (Or.inr (Or.inr (Or.inr (Or.inr (Or.inr (Or.inr (Or.inl ⟨w, hpc⟩)))))))
  · rename_i c hpc; exact key (Or.inr (Or.inr (Or.inr (Or.inr (Or.inr (Or.inr (Or.inr ⟨c, hpc⟩)))))))
  · exact ⟨hci, rfl⟩

/-- the value of the counter in the store (absent = 0, as `incr` reads it) -/
def World.cval (w : World) (k : Nat) : Int := (w.store k).getD 0

/-- **the counter invariant**: `k`'s value is its initial value plus the increments of `k` that the transactions'
commits (the one at the end of the block, and explicit `tx.commit()`s inside it) have made durable -/
structure World.CounterInv (k : Nat) (m : Mode) (init : Int) (n : Nat) (w : World) : Prop where
  ci : ∀ i, CI k (w.cval k) (w.tasks i)
  sum : w.cval k = init + csum (fun i => contrib k (w.tasks i)) n
  modes : ∀ i, (w.tasks i).isTx = true → (w.tasks i).mode = m
  inert : ∀ i, n ≤ i → ∃ o, (w.tasks i).pc = .finished o

/-- changing the store's value does not disturb a task that has not buffered `k` -/
theorem CI_change {k : Nat} {S S' : Int} {t : Task} (h : CI k S t)
    (hn : t.ctx = true → t.active = true → t.ov.get k = none) : CI k S' t :=
  { plain := h.plain, start := h.start, seed := h.seed, txpc := h.txpc, eseed := h.eseed
    body := fun hc ha => by
      have hb := h.body hc ha
      exact ⟨hb.noclob, hb.nodel, fun v hv => (by rw [hn hc ha] at hv; cases hv), hb.none_⟩ }

theorem CounterInv_step {k : Nat} {m : Mode} (hm : m ≠ .fast) {init : Int} {n : Nat}
    (w : World) (a : Act) (hti : w.AllTI) (hli : w.LockInv) (h : w.CounterInv k m init n) :
    (w.step a).CounterInv k m init n := by
  cases a with
  | adv d =>
    have hw := fun i => counter_wake (hti i) (h.ci i) (fun htx => by rw [h.modes i htx]; exact hm) (w.now + d)
    have hf := fun i => wake_frame (w.now + d) (w.tasks i)
    refine ⟨fun i => (hw i).1, ?_, ?_, ?_⟩
    · show w.cval k = _
      rw [h.sum]
      congr 1
      exact csum_congr (fun i _ => ((hw i).2).symm)
    · intro i htx
      show (wake (w.now + d) (w.tasks i)).mode = m
      rw [(hf i).2.1]; exact h.modes i (by rw [← (hf i).1]; exact htx)
    · intro i hi
      obtain ⟨o, ho⟩ := h.inert i hi
      exact ⟨o, by show (wake (w.now + d) (w.tasks i)).pc = _; simp [wake, ho]⟩
  | cancel tid =>
    have hw := fun i => counter_cancel (hti i) (h.ci i)
    have hf := fun i => cancel_frame (w.tasks i)
    have hstep : ∀ i, (w.step (.cancel tid)).tasks i = if i = tid then cancelTask (w.tasks i) else w.tasks i := fun _ => rfl
    refine ⟨?_, ?_, ?_, ?_⟩
    · intro i
      show CI k (w.cval k) ((w.step (.cancel tid)).tasks i)
      rw [hstep]; split
      · exact (hw i).1
      · exact h.ci i
    · show w.cval k = _
      rw [h.sum]
      congr 1
      refine csum_congr (fun i _ => ?_)
      rw [hstep]; split
      · exact ((hw i).2).symm
      · rfl
    · intro i htx
      rw [hstep] at htx ⊢
      split at htx
      · rename_i hit
        rw [if_pos hit, (hf i).2.1]; exact h.modes i (by rw [← (hf i).1]; exact htx)
      · rename_i hit
        rw [if_neg hit]; exact h.modes i htx
    · intro i hi
      obtain ⟨o, ho⟩ := h.inert i hi
      refine ⟨o, ?_⟩
      rw [hstep]; split
      · simp [cancelTask, ho]
      · exact ho
  | run tid =>
    show (w.runTask tid).CounterInv k m init n
    have hs := counter_taskStep (hti tid) (h.ci tid) (fun htx => by rw [h.modes tid htx]; exact hm)
      tid w.now w.store w.lock (S := w.cval k) rfl
    have hcv : (w.runTask tid).cval k = ((taskStep tid w.now w.store w.lock (w.tasks tid)).store k).getD 0 := rfl
    refine ⟨?_, ?_, ?_, ?_⟩
    · intro i
      by_cases hi : i = tid
      · subst hi; rw [hcv]; simp only [runTask_tasks_self]; exact hs.ci
      · simp only [runTask_tasks_ne w tid hi]
        by_cases hch : (w.runTask tid).cval k = w.cval k
        · rw [hch]; exact h.ci i
        · refine CI_change (h.ci i) ?_
          intro hc ha
          obtain ⟨hct, hat, v, hv⟩ := hs.changed (by rw [← hcv]; exact hch)
          cases hg : (w.tasks i).ov.get k with
          | none => rfl
          | some v' =>
            exfalso
            have h1 := ((h.ci i).body hc ha).some_ v' hg
            have h2 := ((h.ci tid).body hct hat).some_ v hv
            rw [h.modes i ((hti i).ctx_tx hc)] at h1
            rw [h.modes tid ((hti tid).ctx_tx hct)] at h2
            have hheld : ∀ j, (w.tasks j).active = true → lockKeyOf m k ∈ (w.tasks j).locks → lockKeyOf m k ∈ (w.tasks j).held := by
              intro j hj hl
              unfold Task.held
              split
              · rename_i hpc; simp [Task.active, hpc] at hj
              · exact List.mem_append_left _ hl
              · exact hl
            exact hi (hli.exclusive (hheld i ha h1.1) (hheld tid hat h2.1))
    · rw [hcv, hs.delta, h.sum]
      by_cases htn : tid < n
      · rw [csum_update (f := fun i => contrib k (w.tasks i))
            (g := fun i => contrib k ((w.runTask tid).tasks i)) htn
            (fun i hi => by simp only [runTask_tasks_ne w tid hi])]
        simp only [runTask_tasks_self]
        omega
      · obtain ⟨o, ho⟩ := h.inert tid (by omega)
        have : taskStep tid w.now w.store w.lock (w.tasks tid) = { store := w.store, lock := w.lock, task := w.tasks tid } :=
          taskStep_finished _ _ _ _ _ ho
        rw [this]
        dsimp only
        rw [csum_congr (f := fun i => contrib k ((w.runTask tid).tasks i)) (g := fun i => contrib k (w.tasks i))
          (fun i hi => by rw [runTask_tasks_ne w tid (by omega)])]
        omega
    · intro i htx
      by_cases hi : i = tid
      · subst hi
        simp only [runTask_tasks_self] at htx ⊢
        rw [hs.mode]; exact h.modes i (by rw [← hs.isTx]; exact htx)
      · simp only [runTask_tasks_ne w tid hi] at htx ⊢
        exact h.modes i htx
    · intro i hi
      obtain ⟨o, ho⟩ := h.inert i hi
      by_cases hit : i = tid
      · subst hit
        exact ⟨o, by simp only [runTask_tasks_self, taskStep_finished _ _ _ _ _ ho]; exact ho⟩
      · exact ⟨o, by simp only [runTask_tasks_ne w tid hit]; exact ho⟩

theorem csum_zero {f : Nat → Int} {n : Nat} (h : ∀ i, i < n → f i = 0) : csum f n = 0 := by
  induction n with
  | zero => rfl
  | succ n ih => simp only [csum]; rw [ih (fun i hi => h i (by omega)), h n (by omega)]; rfl

/-- the program task `i` starts with -/
def progOf (ts : List Task) (i : Nat) : List Cmd := (ts.getD i Task.inert).prog

theorem init_task_cases (store : Store) (ts : List Task) (i : Nat) :
    (i < ts.length ∧ ∃ t ∈ ts, (World.init store ts).tasks i = t) ∨
    (ts.length ≤ i ∧ (World.init store ts).tasks i = Task.inert) := by
  by_cases hi : i < ts.length
  · left
    refine ⟨hi, ts[i], List.getElem_mem hi, ?_⟩
    show ts.getD i Task.inert = _
    rw [List.getD_eq_getElem?_getD, List.getElem?_eq_getElem hi]; rfl
  · right
    refine ⟨by omega, ?_⟩
    show ts.getD i Task.inert = _
    rw [List.getD_eq_getElem?_getD, List.getElem?_eq_none (by omega)]; rfl

theorem CounterInv_init (store : Store) (ts : List Task) (hf : ∀ t ∈ ts, t.Fresh) (k : Nat) (m : Mode)
    (hmodes : ∀ t ∈ ts, t.isTx = true → t.mode = m) (honly : ∀ t ∈ ts, OnlyIncr k t.isTx t.prog) :
    (World.init store ts).CounterInv k m ((store k).getD 0) ts.length := by
  refine ⟨?_, ?_, ?_, ?_⟩
  · intro i
    rcases init_task_cases store ts i with ⟨_, t, ht, e⟩ | ⟨_, e⟩
    · rw [e]
      have f := hf t ht
      have ho := honly t ht
      refine { plain := ?_, start := ?_, body := ?_, seed := ?_, txpc := ?_, eseed := ?_ }
      · intro hx; rw [hx] at ho; simpa [Task.rem, f.pc, OnlyIncr] using ho
      · intro hx _; rw [hx] at ho; exact ⟨ho, f.pend⟩
      · intro hc; rw [f.ctx] at hc; cases hc
      · intro n hpc; rw [f.pc] at hpc; cases hpc
      · intro _ _; exact f.pc
      · intro hpc; rw [f.pc] at hpc; cases hpc
    · rw [e]
      refine { plain := ?_, start := ?_, body := ?_, seed := ?_, txpc := ?_, eseed := ?_ } <;>
        simp [Task.inert, Task.rem]
  · show (store k).getD 0 = _
    rw [csum_zero]; · simp
    intro i _
    rcases init_task_cases store ts i with ⟨_, t, ht, e⟩ | ⟨_, e⟩
    · rw [e]; simp [contrib, (hf t ht).cinc]
    · rw [e]; simp [contrib, Task.inert]
  · intro i htx
    rcases init_task_cases store ts i with ⟨_, t, ht, e⟩ | ⟨_, e⟩
    · rw [e] at htx ⊢; exact hmodes t ht htx
    · rw [e] at htx; simp [Task.inert] at htx
  · intro i hi
    rcases init_task_cases store ts i with ⟨hlt, _⟩ | ⟨_, e⟩
    · omega
    · exact ⟨_, by rw [e]; rfl⟩

/-- all three invariants along every schedule that stays within the timeouts -/
theorem counter_run (store : Store) (ts : List Task) (hf : ∀ t ∈ ts, t.Fresh) (k : Nat) (m : Mode) (hm : m ≠ .fast)
    (hmodes : ∀ t ∈ ts, t.isTx = true → t.mode = m) (honly : ∀ t ∈ ts, OnlyIncr k t.isTx t.prog)
    (sched : List Act) (hs : WithinTimeout (World.init store ts) sched) :
    ((World.init store ts).run sched).CounterInv k m ((store k).getD 0) ts.length := by
  have := run_invariant_under
    (P := fun w => w.AllTI ∧ w.LockInv ∧ w.CounterInv k m ((store k).getD 0) ts.length) (S := World.Safe)
    (fun w a hp hsafe => ⟨AllTI_step w a hp.1, LockInv_step w a hp.1 hp.2.1 hsafe, CounterInv_step hm w a hp.1 hp.2.1 hp.2.2⟩)
    sched _ ⟨AllTI_init store ts hf, LockInv_init store ts hf, CounterInv_init store ts hf k m hmodes honly⟩ hs
  exact this.2.2

end CashewsVerif.TxSched
