import CashewsVerif.Lemmas.TxSchedLocks
/- No lost increments: the counter invariant. -/
namespace CashewsVerif.TxSched

/-- sum of the increments a program applies to `k` -/
def incrTotal (k : Nat) : List Cmd → Int
  | [] => 0
  | .incr k' n :: r => (if k' = k then n else 0) + incrTotal k r
  | _ :: r => incrTotal k r

/-- writes `k` otherwise than by `incr` -/
def Cmd.clobbers (k : Nat) : Cmd → Bool
  | .set k' _ => k' == k
  | .delete k' => k' == k
  | .setx k' _ _ => k' == k
  | _ => false

/-- writes `k` at all -/
def Cmd.writes (k : Nat) : Cmd → Bool
  | .set k' _ => k' == k
  | .delete k' => k' == k
  | .incr k' _ => k' == k
  | .setx k' _ _ => k' == k
  | _ => false

/-- `k` is a pure counter for this task: transactions only `incr` it, tasks outside a transaction do not write it -/
def OnlyIncr (k : Nat) (isTx : Bool) (prog : List Cmd) : Prop :=
  if isTx then ∀ c ∈ prog, c.clobbers k = false else ∀ c ∈ prog, c.writes k = false

/-- what a parked task still has to execute -/
def Task.rem (t : Task) : List Cmd :=
  match t.pc with
  | .seedGet k n => .incr k n :: t.prog
  | .expGet k => .expire k :: t.prog
  | .existsGet k v e => .setx k v e :: t.prog
  | .direct c => c :: t.prog
  | _ => t.prog

/-- its commit has reached the store -/
def Task.committed (t : Task) : Bool :=
  match t.pc with
  | .unlocking _ (.returned _) => true
  | .finished (.returned _) => true
  | _ => false

/-- still before the end of its commit / rollback -/
def Task.active (t : Task) : Bool :=
  match t.pc with
  | .unlocking _ _ => false
  | .finished _ => false
  | _ => true

def csum (f : Nat → Int) : Nat → Int
  | 0 => 0
  | n + 1 => csum f n + f n

theorem csum_congr {f g : Nat → Int} {n : Nat} (h : ∀ i, i < n → f i = g i) : csum f n = csum g n := by
  induction n with
  | zero => rfl
  | succ n ih =>
    simp only [csum]
    rw [ih (fun i hi => h i (by omega)), h n (by omega)]

theorem csum_update {f g : Nat → Int} {n t : Nat} (ht : t < n) (h : ∀ i, i ≠ t → f i = g i) :
    csum g n = csum f n + (g t - f t) := by
  induction n with
  | zero => omega
  | succ n ih =>
    simp only [csum]
    by_cases htn : t = n
    · subst htn
      rw [csum_congr (f := g) (g := f) (fun i hi => (h i (by omega)).symm)]
      omega
    · rw [ih (by omega), h n (fun h' => htn h'.symm)]
      omega

/-- the body relation while local code runs: `rem` is what is left, `S` the store's counter value,
`T0` the total of the task's original program, `lk` the lock protecting `k` -/
structure CBody (k : Nat) (S T0 : Int) (rem : List Cmd) (t : Task) : Prop where
  noclob : ∀ c ∈ rem, c.clobbers k = false
  nodel : k ∉ t.del
  some_ : ∀ v, t.ov.get k = some v → lockKeyOf t.mode k ∈ t.locks ∧ v + incrTotal k rem = S + T0
  none_ : t.ov.get k = none → incrTotal k rem = T0

/-- the counter invariant of one parked task -/
structure CI (k : Nat) (S : Int) (p0 : List Cmd) (t : Task) : Prop where
  plain : t.isTx = false → ∀ c ∈ t.rem, c.writes k = false
  start : t.isTx = true → t.pc = .start → t.prog = p0 ∧ OnlyIncr k true p0
  body : t.ctx = true → t.active = true → CBody k S (incrTotal k p0) t.rem t
  seed : ∀ n, t.pc = .seedGet k n → t.ov.get k = none ∧ lockKeyOf t.mode k ∈ t.locks
  txpc : t.isTx = true → t.ctx = false → t.pc = .start
  commitp : (t.pc = .commitDel ∨ t.pc = .commitSet) → t.prog = []
  eseed : t.pc = .expGet k → t.ov.get k = none ∧ lockKeyOf t.mode k ∈ t.locks

theorem CBody_setxApply {k : Nat} {S T0 : Int} {rem : List Cmd} {t : Task} (h : CBody k S T0 rem t)
    {k' : Nat} (hne : k' ≠ k) (v : Int) (e p : Bool) : CBody k S T0 rem (setxApply t k' v e p) := by
  unfold setxApply
  split
  · refine ⟨h.noclob, ?_, ?_, ?_⟩
    · simp [h.nodel]
    · intro v' hv; simp only [AL.get_put, hne, if_false] at hv; exact h.some_ v' hv
    · intro hv; simp only [AL.get_put, hne, if_false] at hv; exact h.none_ hv
  · exact ⟨h.noclob, h.nodel, h.some_, h.none_⟩

theorem CBody_localCmd {k : Nat} {S T0 : Int} {c : Cmd} {rest : List Cmd} {t t' : Task}
    (h : CBody k S T0 (c :: rest) t) (hl : localCmd t c = some t') : CBody k S T0 rest t' := by
  have hrest : ∀ c' ∈ rest, c'.clobbers k = false := fun c' hc' => h.noclob c' (List.mem_cons_of_mem _ hc')
  have hc := h.noclob c (List.mem_cons_self)
  cases c <;> simp only [localCmd] at hl
  case set k' v =>
    split at hl <;> simp at hl; subst hl
    have hne : k' ≠ k := by simpa [Cmd.clobbers] using hc
    refine ⟨hrest, ?_, ?_, ?_⟩
    · simp [h.nodel]
    · intro v' hv; simp only [AL.get_put, hne, if_false] at hv; simpa [incrTotal] using h.some_ v' hv
    · intro hv; simp only [AL.get_put, hne, if_false] at hv; simpa [incrTotal] using h.none_ hv
  case incr k' n =>
    split at hl
    · split at hl
      · rename_i v0 hv0
        simp at hl; subst hl
        refine ⟨hrest, h.nodel, ?_, ?_⟩
        · intro v' hv
          simp only [AL.get_put] at hv
          by_cases hk : k' = k
          · subst hk
            simp at hv; subst hv
            have := h.some_ v0 hv0
            simp [incrTotal] at this ⊢
            exact ⟨this.1, by omega⟩
          · simp only [hk, if_false] at hv
            simpa [incrTotal, hk] using h.some_ v' hv
        · intro hv
          simp only [AL.get_put] at hv
          by_cases hk : k' = k
          · simp [hk] at hv
          · simp only [hk, if_false] at hv
            simpa [incrTotal, hk] using h.none_ hv
      · split at hl <;> simp at hl
        subst hl
        rename_i hov hdel
        have hk : k' ≠ k := fun e => h.nodel (e ▸ hdel)
        refine ⟨hrest, by simp [h.nodel], ?_, ?_⟩
        · intro v' hv; simp only [AL.get_put, hk, if_false] at hv; simpa [incrTotal, hk] using h.some_ v' hv
        · intro hv; simp only [AL.get_put, hk, if_false] at hv; simpa [incrTotal, hk] using h.none_ hv
    · simp at hl
  case get k' =>
    split at hl
    · split at hl
      · simp at hl; subst hl
        exact ⟨hrest, h.nodel, fun v' hv => by simpa [incrTotal] using h.some_ v' hv, fun hv => by simpa [incrTotal] using h.none_ hv⟩
      · split at hl <;> simp at hl
        subst hl
        exact ⟨hrest, h.nodel, fun v' hv => by simpa [incrTotal] using h.some_ v' hv, fun hv => by simpa [incrTotal] using h.none_ hv⟩
    · simp at hl
  case delete k' =>
    split at hl <;> simp at hl; subst hl
    have hne : k' ≠ k := by simpa [Cmd.clobbers] using hc
    refine ⟨hrest, ?_, ?_, ?_⟩
    · simp [h.nodel, Ne.symm hne]
    · intro v' hv; simp only [AL.get_erase, hne, if_false] at hv; simpa [incrTotal] using h.some_ v' hv
    · intro hv; simp only [AL.get_erase, hne, if_false] at hv; simpa [incrTotal] using h.none_ hv
  case expire k' =>
    split at hl
    · split at hl
      · simp at hl; subst hl
        exact ⟨hrest, h.nodel, fun v' hv => by simpa [incrTotal] using h.some_ v' hv, fun hv => by simpa [incrTotal] using h.none_ hv⟩
      · split at hl <;> simp at hl
        subst hl
        exact ⟨hrest, h.nodel, fun v' hv => by simpa [incrTotal] using h.some_ v' hv, fun hv => by simpa [incrTotal] using h.none_ hv⟩
    · simp at hl
  case setx k' v e =>
    have hne : k' ≠ k := by simpa [Cmd.clobbers] using hc
    have h' : CBody k S T0 rest t :=
      ⟨hrest, h.nodel, fun v' hv => by simpa [incrTotal] using h.some_ v' hv, fun hv => by simpa [incrTotal] using h.none_ hv⟩
    split at hl
    · split at hl
      · simp at hl; subst hl; exact CBody_setxApply h' hne _ _ _
      · split at hl <;> simp at hl
        subst hl; exact CBody_setxApply h' hne _ _ _
    · simp at hl
  case sleep d => simp at hl
  case raise => simp at hl
  case nestIn f =>
    simp at hl; subst hl
    exact ⟨hrest, h.nodel, fun v' hv => by simpa [incrTotal] using h.some_ v' hv, fun hv => by simpa [incrTotal] using h.none_ hv⟩
  case nestOut =>
    simp at hl; subst hl
    exact ⟨hrest, h.nodel, fun v' hv => by simpa [incrTotal] using h.some_ v' hv, fun hv => by simpa [incrTotal] using h.none_ hv⟩

/-- what `settle` delivers for a task inside its transaction -/
structure CPark (k : Nat) (S T0 : Int) (t : Task) : Prop where
  ctx : t.ctx = true
  body : t.active = true → CBody k S T0 t.rem t
  seed : ∀ n, t.pc = .seedGet k n → t.ov.get k = none ∧ lockKeyOf t.mode k ∈ t.locks
  comm : t.committed = true → T0 = 0
  nostart : t.pc ≠ .start
  commitp : (t.pc = .commitDel ∨ t.pc = .commitSet) → t.prog = []
  eseed : t.pc = .expGet k → t.ov.get k = none ∧ lockKeyOf t.mode k ∈ t.locks

theorem CPark_abort {k : Nat} {S T0 : Int} {t : Task} (hc : t.ctx = true) (o : Outcome)
    (ho : ∀ rs, o ≠ .returned rs) : CPark k S T0 (abort t o) := by
  unfold abort
  split <;> refine ⟨hc, ?_, ?_, ?_, ?_, ?_, ?_⟩ <;> simp [Task.active, Task.committed]
  all_goals cases o <;> simp_all

theorem CPark_afterCommit {k : Nat} {S T0 : Int} {t : Task} (hc : t.ctx = true) (h0 : T0 = 0) :
    CPark k S T0 (afterCommit t) := by
  unfold afterCommit
  split <;> refine ⟨hc, ?_, ?_, ?_, ?_, ?_, ?_⟩ <;> simp [Task.active, Task.committed, h0]

theorem CPark_settle {k : Nat} {S T0 : Int} (now : Nat) (prog : List Cmd) (t : Task)
    (hc : t.ctx = true) (hm : t.mode ≠ .fast) (h : CBody k S T0 prog t) : CPark k S T0 (settle now prog t) := by
  refine settle_ind (R := fun rem t => t.ctx = true ∧ t.mode ≠ .fast ∧ CBody k S T0 rem t) (P := CPark k S T0) now
    ?_ ?_ ?_ prog t ⟨hc, hm, h⟩
  · intro t c rest t' ⟨hc, hm, h⟩ hl
    have f := localCmd_frame hl
    exact ⟨f.2.2.2.2.1.trans hc, by rw [f.2.1]; exact hm, CBody_localCmd h hl⟩
  · intro t ⟨hc, hm, h⟩
    unfold endOfProg
    rw [if_pos hc]
    split
    · refine ⟨hc, ?_, ?_, ?_, ?_, ?_, ?_⟩ <;> simp [Task.active, Task.committed, Task.rem]
      exact ⟨h.noclob, h.nodel, h.some_, h.none_⟩
    · split
      · refine ⟨hc, ?_, ?_, ?_, ?_, ?_, ?_⟩ <;> simp [Task.active, Task.committed, Task.rem]
        exact ⟨h.noclob, h.nodel, h.some_, h.none_⟩
      · rename_i hov
        have hov' : t.ov = [] := by simpa using hov
        have h0 : T0 = 0 := by
          have := h.none_ (by simp [hov'])
          simpa [incrTotal] using this.symm
        exact CPark_afterCommit (t := { t with prog := [] }) hc h0
  · intro t c rest ⟨hc, hm, h⟩ hl
    have hrest : ∀ c' ∈ rest, c'.clobbers k = false := fun c' hc' => h.noclob c' (List.mem_cons_of_mem _ hc')
    cases c <;> simp only [park] <;> (try rw [if_pos hc])
    case sleep d =>
      refine ⟨hc, ?_, ?_, ?_, ?_, ?_, ?_⟩ <;> simp [Task.active, Task.committed, Task.rem]
      exact ⟨hrest, h.nodel, fun v hv => by simpa [incrTotal] using h.some_ v hv, fun hv => by simpa [incrTotal] using h.none_ hv⟩
    case raise => exact CPark_abort hc _ (by simp)
    case set k' v =>
      unfold lockOrFail; split
      · exact CPark_abort hc _ (by simp)
      · refine ⟨hc, ?_, ?_, ?_, ?_, ?_, ?_⟩ <;> simp [Task.active, Task.committed, Task.rem]
        exact ⟨h.noclob, h.nodel, h.some_, h.none_⟩
    case delete k' =>
      unfold lockOrFail; split
      · exact CPark_abort hc _ (by simp)
      · refine ⟨hc, ?_, ?_, ?_, ?_, ?_, ?_⟩ <;> simp [Task.active, Task.committed, Task.rem]
        exact ⟨h.noclob, h.nodel, h.some_, h.none_⟩
    case incr k' n =>
      split
      · rename_i hh
        simp only [localCmd, hc, hh, Bool.and_self, if_true] at hl
        refine ⟨hc, ?_, ?_, ?_, ?_, ?_, ?_⟩ <;> simp [Task.active, Task.committed, Task.rem]
        · exact ⟨h.noclob, h.nodel, h.some_, h.none_⟩
        · intro hk
          subst hk
          refine ⟨?_, ?_⟩
          · cases hg : t.ov.get k' with
            | none => rfl
            | some v => simp [hg] at hl
          · have : holds t k' = true := hh
            unfold holds at this
            simp [hm] at this
            simpa using this
      · unfold lockOrFail; split
        · exact CPark_abort hc _ (by simp)
        · refine ⟨hc, ?_, ?_, ?_, ?_, ?_, ?_⟩ <;> simp [Task.active, Task.committed, Task.rem]
          exact ⟨h.noclob, h.nodel, h.some_, h.none_⟩
    case get k' =>
      refine ⟨hc, ?_, ?_, ?_, ?_, ?_, ?_⟩ <;> simp [Task.active, Task.committed, Task.rem]
      exact ⟨hrest, h.nodel, fun v hv => by simpa [incrTotal] using h.some_ v hv, fun hv => by simpa [incrTotal] using h.none_ hv⟩
    case expire k' =>
      split
      · rename_i hh
        simp only [localCmd, hc, hh, Bool.and_self, if_true] at hl
        refine ⟨hc, ?_, ?_, ?_, ?_, ?_, ?_⟩ <;> simp [Task.active, Task.committed, Task.rem]
        · exact ⟨h.noclob, h.nodel, h.some_, h.none_⟩
        · intro hk
          subst hk
          refine ⟨?_, ?_⟩
          · cases hg : t.ov.get k' with
            | none => rfl
            | some v => simp [hg] at hl
          · have : holds t k' = true := hh
            unfold holds at this
            simp [hm] at this
            simpa using this
      · unfold lockOrFail; split
        · exact CPark_abort hc _ (by simp)
        · refine ⟨hc, ?_, ?_, ?_, ?_, ?_, ?_⟩ <;> simp [Task.active, Task.committed, Task.rem]
          exact ⟨h.noclob, h.nodel, h.some_, h.none_⟩
    case setx k' v e =>
      split
      · refine ⟨hc, ?_, ?_, ?_, ?_, ?_, ?_⟩ <;> simp [Task.active, Task.committed, Task.rem]
        exact ⟨h.noclob, h.nodel, h.some_, h.none_⟩
      · unfold lockOrFail; split
        · exact CPark_abort hc _ (by simp)
        · refine ⟨hc, ?_, ?_, ?_, ?_, ?_, ?_⟩ <;> simp [Task.active, Task.committed, Task.rem]
          exact ⟨h.noclob, h.nodel, h.some_, h.none_⟩
    case nestIn f => simp [localCmd] at hl
    case nestOut => simp [localCmd] at hl

theorem CI_of_CPark {k : Nat} {S : Int} {p0 : List Cmd} {t : Task} (h : CPark k S (incrTotal k p0) t)
    (htx : t.isTx = true) : CI k S p0 t :=
  { plain := fun hp => by rw [htx] at hp; cases hp
    start := fun _ hs => absurd hs h.nostart
    body := fun _ ha => h.body ha
    seed := h.seed
    txpc := fun _ hc => by rw [h.ctx] at hc; cases hc
    commitp := h.commitp
    eseed := h.eseed }

theorem rem_abort (t : Task) (o : Outcome) : (abort t o).rem = [] := by
  unfold abort; split <;> simp [Task.rem]

/-- a task outside any transaction: settling keeps "does not write k" for what is left -/
theorem plain_settle {k : Nat} (now : Nat) (prog : List Cmd) (t : Task) (hc : t.ctx = false)
    (h : ∀ c ∈ prog, c.writes k = false) : ∀ c ∈ (settle now prog t).rem, c.writes k = false := by
  refine settle_ind (R := fun rem t => t.ctx = false ∧ ∀ c ∈ rem, c.writes k = false)
    (P := fun t' => ∀ c ∈ t'.rem, c.writes k = false) now ?_ ?_ ?_ prog t ⟨hc, h⟩
  · intro t c rest t' ⟨hc, h⟩ hl
    exact ⟨(localCmd_frame hl).2.2.2.2.1.trans hc, fun c' hc' => h c' (List.mem_cons_of_mem _ hc')⟩
  · intro t ⟨hc, _⟩
    unfold endOfProg
    simp [hc, Task.rem]
  · intro t c rest ⟨hc, h⟩ hl
    have hrest : ∀ c' ∈ rest, c'.writes k = false := fun c' hc' => h c' (List.mem_cons_of_mem _ hc')
    have hcw := h c List.mem_cons_self
    cases c <;> simp only [park, hc]
    case raise => rw [rem_abort]; simp
    case nestIn f => simp [localCmd] at hl
    case nestOut => simp [localCmd] at hl
    all_goals simp_all [Task.rem]

/-- what a committed transaction adds to the counter -/
def contrib (k : Nat) (p0 : List Cmd) (t : Task) : Int :=
  if t.isTx = true ∧ t.committed = true then incrTotal k p0 else 0

theorem contrib_zero_of_CPark {k : Nat} {S : Int} {p0 : List Cmd} {t : Task} (h : CPark k S (incrTotal k p0) t) :
    contrib k p0 t = 0 := by
  unfold contrib
  split
  · rename_i hh; exact h.comm hh.2
  · rfl

theorem contrib_of_not_committed {k : Nat} {p0 : List Cmd} {t : Task} (h : t.committed = false) : contrib k p0 t = 0 := by
  simp [contrib, h]

/-- the facts about one step of one task that the counter invariant needs -/
structure CStep (k : Nat) (p0 : List Cmd) (S : Int) (t : Task) (E : Eff) : Prop where
  ci : CI k ((E.store k).getD 0) p0 E.task
  delta : (E.store k).getD 0 = S + (contrib k p0 E.task - contrib k p0 t)
  changed : (E.store k).getD 0 ≠ S → t.ctx = true ∧ t.active = true ∧ ∃ v, t.ov.get k = some v
  isTx : E.task.isTx = t.isTx
  mode : E.task.mode = t.mode

/-- the step leaves the store's `k` alone and the task comes out of `settle` inside its transaction -/
theorem CStep_of_CPark {k : Nat} {p0 : List Cmd} {S : Int} {t : Task} {E : Eff}
    (hst : (E.store k).getD 0 = S) (hp : CPark k S (incrTotal k p0) E.task)
    (htx : E.task.isTx = true) (hnc : t.committed = false) (hi : E.task.isTx = t.isTx) (hm : E.task.mode = t.mode) :
    CStep k p0 S t E :=
  { ci := by rw [hst]; exact CI_of_CPark hp htx
    delta := by rw [hst, contrib_zero_of_CPark hp, contrib_of_not_committed hnc]; omega
    changed := fun h => absurd hst h
    isTx := hi, mode := hm }

/-- same for a task outside any transaction -/
theorem CStep_plain {k : Nat} {p0 : List Cmd} {S : Int} {t : Task} {E : Eff}
    (hst : (E.store k).getD 0 = S) (hti : E.task.TI) (hntx : t.isTx = false)
    (hrem : ∀ c ∈ E.task.rem, c.writes k = false) (hi : E.task.isTx = t.isTx) (hm : E.task.mode = t.mode) :
    CStep k p0 S t E := by
  have hntx' : E.task.isTx = false := hi.trans hntx
  have hcf : E.task.ctx = false := hti.plain_ctx hntx'
  refine { ci := ?_, delta := ?_, changed := fun h => absurd hst h, isTx := hi, mode := hm }
  · refine { plain := fun _ => hrem, start := ?_, body := ?_, seed := ?_, txpc := ?_, commitp := ?_, eseed := ?_ }
    · intro h; rw [hntx'] at h; cases h
    · intro h; rw [hcf] at h; cases h
    · intro n hpc; have := hti.noctx_pc hcf; simp [hpc, PC.plainOk] at this
    · intro h; rw [hntx'] at h; cases h
    · intro hpc; have := hti.noctx_pc hcf; rcases hpc with hpc | hpc <;> simp [hpc, PC.plainOk] at this
    · intro hpc; have := hti.noctx_pc hcf; simp [hpc, PC.plainOk] at this
  · rw [hst]; simp [contrib, hntx, hntx']

/-- the task itself is unchanged apart from its pc, which stays among the active, non-start ones; store unchanged -/
theorem CStep_same {k : Nat} {p0 : List Cmd} {S : Int} {t : Task} {E : Eff}
    (hst : (E.store k).getD 0 = S) (hci : CI k S p0 E.task)
    (hco : E.task.committed = t.committed) (hi : E.task.isTx = t.isTx) (hm : E.task.mode = t.mode) :
    CStep k p0 S t E :=
  { ci := by rw [hst]; exact hci
    delta := by rw [hst]; simp [contrib, hco, hi]
    changed := fun h => absurd hst h
    isTx := hi, mode := hm }

theorem CBody_of_eq {k : Nat} {S T0 : Int} {rem : List Cmd} {t t' : Task} (h : CBody k S T0 rem t)
    (hd : t'.del = t.del) (ho : t'.ov = t.ov) (hm : t'.mode = t.mode) (hl : t'.locks = t.locks) :
    CBody k S T0 rem t' :=
  ⟨h.noclob, by rw [hd]; exact h.nodel, by rw [ho, hm, hl]; exact h.some_, by rw [ho]; exact h.none_⟩

/-- a parked transactional task whose pc is replaced by another non-start one -/
theorem CI_repc {k : Nat} {S : Int} {p0 : List Cmd} {t : Task} (pc' : PC) (hc : t.ctx = true) (htx : t.isTx = true)
    (hb : ({ t with pc := pc' } : Task).active = true →
      CBody k S (incrTotal k p0) ({ t with pc := pc' } : Task).rem t)
    (hseed : ∀ n, pc' ≠ .seedGet k n) (hstart : pc' ≠ .start)
    (hcp : (pc' = .commitDel ∨ pc' = .commitSet) → t.prog = []) (heseed : pc' ≠ .expGet k) : CI k S p0 { t with pc := pc' } :=
  { plain := fun h => by rw [show ({ t with pc := pc' } : Task).isTx = t.isTx from rfl, htx] at h; cases h
    start := fun _ h => absurd h hstart
    body := fun _ ha => CBody_of_eq (hb ha) rfl rfl rfl rfl
    seed := fun n h => absurd h (hseed n)
    txpc := fun _ h => by rw [show ({ t with pc := pc' } : Task).ctx = t.ctx from rfl, hc] at h; cases h
    commitp := hcp
    eseed := fun h => absurd h heseed }

theorem holds_mem {t : Task} {k : Nat} (hm : t.mode ≠ .fast) (h : holds t k = true) : lockKeyOf t.mode k ∈ t.locks := by
  unfold holds at h
  simpa [hm] using h

theorem counter_taskStep {k : Nat} {p0 : List Cmd} {S : Int} {t : Task} (hti : t.TI) (hci : CI k S p0 t)
    (hmf : t.isTx = true → t.mode ≠ .fast) (tid now : Nat) (store : Store) (lock : Locks)
    (hS : (store k).getD 0 = S) : CStep k p0 S t (taskStep tid now store lock t) := by
  have hTI' := TI_taskStep hti tid now store lock
  cases hpc : t.pc
  case start =>
    have hcf := TI.noctx_of_pc hti (by simp [hpc, PC.txOk])
    have hov := (hti.noctx hcf).2.1
    have hdel := (hti.noctx hcf).2.2
    cases htx : t.isTx
    · rw [taskStep_start_plain _ _ _ _ _ hpc htx] at hTI' ⊢
      have f := Frame_settle now t.prog t
      refine CStep_plain hS hTI' htx ?_ f.isTx f.mode
      refine plain_settle now t.prog t hcf ?_
      have := hci.plain htx
      simpa [Task.rem, hpc] using this
    · rw [taskStep_start_tx _ _ _ _ _ hpc htx] at hTI' ⊢
      have hst := hci.start htx hpc
      have hoi : ∀ c ∈ p0, c.clobbers k = false := by simpa [OnlyIncr] using hst.2
      refine CStep_of_CPark hS ?_ ((Frame_settle _ _ _).isTx.trans htx) (by simp [Task.committed, hpc])
        (Frame_settle _ _ _).isTx (Frame_settle _ _ _).mode
      refine CPark_settle now _ _ rfl (hmf htx) ⟨by rw [hst.1]; exact hoi, by simp [hdel], ?_, ?_⟩
      · intro v hv; simp [hov] at hv
      · intro _; rw [hst.1]
  case lockTry k' left =>
    have hc := TI.ctx_of_pc hti (by simp [hpc, PC.plainOk])
    have htx := (hti.ctx_tx hc)
    have hb := hci.body hc (by simp [Task.active, hpc])
    have hrem : t.rem = t.prog := by simp [Task.rem, hpc]
    rw [hrem] at hb
    cases hf : lockFree lock (lockKeyOf t.mode k') now
    · rw [taskStep_lockTry_busy _ _ _ _ _ hpc hf]
      refine CStep_same hS ?_ (by simp [Task.committed, hpc]) rfl rfl
      exact CI_repc _ hc htx (fun _ => by simpa [Task.rem] using hb) (by simp) (by simp) (by simp) (by simp)
    · rw [taskStep_lockTry_free _ _ _ _ _ hpc hf]
      refine CStep_of_CPark hS ?_ ((Frame_settle _ _ _).isTx.trans htx) (by simp [Task.committed, hpc])
        (Frame_settle _ _ _).isTx (Frame_settle _ _ _).mode
      refine CPark_settle now _ _ hc (hmf htx) ⟨hb.noclob, hb.nodel, ?_, hb.none_⟩
      intro v hv
      have := hb.some_ v hv
      exact ⟨mem_insertLock.mpr (Or.inr this.1), this.2⟩
  case lockSleep k' left wk =>
    rw [taskStep_lockSleep _ _ _ _ _ hpc]
    exact CStep_same hS hci rfl rfl rfl
  case bodySleep wk =>
    rw [taskStep_bodySleep _ _ _ _ _ hpc]
    exact CStep_same hS hci rfl rfl rfl
  case finished o =>
    rw [taskStep_finished _ _ _ _ _ hpc]
    exact CStep_same hS hci rfl rfl rfl
  case seedGet k' n =>
    have hc := TI.ctx_of_pc hti (by simp [hpc, PC.plainOk])
    have htx := (hti.ctx_tx hc)
    have hb := hci.body hc (by simp [Task.active, hpc])
    have hrem : t.rem = .incr k' n :: t.prog := by simp [Task.rem, hpc]
    rw [hrem] at hb
    rw [taskStep_seedGet _ _ _ _ _ hpc]
    refine CStep_of_CPark hS ?_ ((Frame_settle _ _ _).isTx.trans htx) (by simp [Task.committed, hpc])
      (Frame_settle _ _ _).isTx (Frame_settle _ _ _).mode
    refine CPark_settle now _ _ hc (hmf htx) ⟨fun c hc' => hb.noclob c (List.mem_cons_of_mem _ hc'), hb.nodel, ?_, ?_⟩
    · intro v hv
      simp only [AL.get_put] at hv
      by_cases hk : k' = k
      · subst hk
        simp at hv
        have hs := hci.seed n hpc
        have hn := hb.none_ hs.1
        simp [incrTotal] at hn
        exact ⟨hs.2, by rw [← hv, hS]; omega⟩
      · simp only [hk, if_false] at hv
        have := hb.some_ v hv
        simpa [incrTotal, hk] using this
    · intro hv
      simp only [AL.get_put] at hv
      by_cases hk : k' = k
      · simp [hk] at hv
      · simp only [hk, if_false] at hv
        simpa [incrTotal, hk] using hb.none_ hv
  case readGet k' =>
    have hc := TI.ctx_of_pc hti (by simp [hpc, PC.plainOk])
    have htx := (hti.ctx_tx hc)
    have hb := hci.body hc (by simp [Task.active, hpc])
    have hrem : t.rem = t.prog := by simp [Task.rem, hpc]
    rw [hrem] at hb
    rw [taskStep_readGet _ _ _ _ _ hpc]
    refine CStep_of_CPark hS ?_ ((Frame_settle _ _ _).isTx.trans htx) (by simp [Task.committed, hpc])
      (Frame_settle _ _ _).isTx (Frame_settle _ _ _).mode
    exact CPark_settle now _ _ hc (hmf htx) ⟨hb.noclob, hb.nodel, hb.some_, hb.none_⟩
  case expGet k' =>
    have hc := TI.ctx_of_pc hti (by simp [hpc, PC.plainOk])
    have htx := (hti.ctx_tx hc)
    have hb := hci.body hc (by simp [Task.active, hpc])
    have hrem : t.rem = .expire k' :: t.prog := by simp [Task.rem, hpc]
    rw [hrem] at hb
    rw [taskStep_expGet _ _ _ _ _ hpc]
    have f := Frame_settle_expBuffer now t k' (store k')
    have e := expBuffer_frame t k' (store k')
    refine CStep_of_CPark hS ?_ (f.isTx.trans htx) (by simp [Task.committed, hpc]) f.isTx f.mode
    refine CPark_settle now _ _ (e.2.2.2.2.1.trans hc) (by rw [e.2.1]; exact hmf htx) ?_
    rw [e.2.2.2.2.2.2.1]
    refine ⟨fun c hc' => hb.noclob c (List.mem_cons_of_mem _ hc'), by rw [e.2.2.2.2.2.2.2.1]; exact hb.nodel, ?_, ?_⟩
    · intro v hv
      rw [e.2.1, e.2.2.2.2.2.1]
      cases hs : store k' with
      | none =>
        simp only [hs, expBuffer] at hv
        simpa [incrTotal] using hb.some_ v hv
      | some v0 =>
        simp only [hs, expBuffer, AL.get_put] at hv
        by_cases hk : k' = k
        · subst hk
          simp at hv
          have hsd := hci.eseed hpc
          have hn := hb.none_ hsd.1
          simp [incrTotal] at hn
          refine ⟨hsd.2, ?_⟩
          rw [← hS, hs, ← hv, hn]; rfl
        · simp only [hk, if_false] at hv
          simpa [incrTotal] using hb.some_ v hv
    · intro hv
      cases hs : store k' with
      | none =>
        simp only [hs, expBuffer] at hv
        simpa [incrTotal] using hb.none_ hv
      | some v0 =>
        simp only [hs, expBuffer, AL.get_put] at hv
        by_cases hk : k' = k
        · simp [hk] at hv
        · simp only [hk, if_false] at hv
          simpa [incrTotal] using hb.none_ hv
  case existsGet k' v e =>
    have hc := TI.ctx_of_pc hti (by simp [hpc, PC.plainOk])
    have htx := (hti.ctx_tx hc)
    have hb := hci.body hc (by simp [Task.active, hpc])
    have hrem : t.rem = .setx k' v e :: t.prog := by simp [Task.rem, hpc]
    rw [hrem] at hb
    have hne : k' ≠ k := by simpa [Cmd.clobbers] using hb.noclob _ List.mem_cons_self
    rw [taskStep_existsGet _ _ _ _ _ hpc]
    have f := Frame_settle_setx now t k' v e (store k').isSome (store k')
    have g := setxApply_frame { t with reads := t.reads ++ [store k'] } k' v e (store k').isSome
    refine CStep_of_CPark hS ?_ (f.isTx.trans htx) (by simp [Task.committed, hpc]) f.isTx f.mode
    refine CPark_settle now _ _ (g.2.2.2.2.1.trans hc) (by rw [g.2.1]; exact hmf htx) ?_
    rw [g.2.2.2.2.2.2.2.2.1]
    refine CBody_setxApply (t := { t with reads := t.reads ++ [store k'] }) ?_ hne _ _ _
    exact ⟨fun c hc' => hb.noclob c (List.mem_cons_of_mem _ hc'), hb.nodel,
      fun v' hv => by simpa [incrTotal] using hb.some_ v' hv, fun hv => by simpa [incrTotal] using hb.none_ hv⟩
  case direct c =>
    have hcf := TI.noctx_of_pc hti (by simp [hpc, PC.txOk])
    have hntx : t.isTx = false := by
      cases htx : t.isTx
      · rfl
      · have := hci.txpc htx hcf; rw [hpc] at this; cases this
    have hw := hci.plain hntx
    have hrem : t.rem = c :: t.prog := by simp [Task.rem, hpc]
    rw [hrem] at hw
    have hcw := hw c List.mem_cons_self
    have hrest : ∀ c' ∈ t.prog, c'.writes k = false := fun c' hc' => hw c' (List.mem_cons_of_mem _ hc')
    rw [taskStep_direct _ _ _ _ _ hpc] at hTI' ⊢
    cases c <;> simp only [directStep] at hTI' ⊢
    case set k' v =>
      have hne : k ≠ k' := by simp [Cmd.writes] at hcw; exact fun h => hcw h.symm
      have f := Frame_settle now t.prog t
      exact CStep_plain (by simp [Mut.apply, hne, hS]) hTI' hntx (plain_settle now _ _ hcf hrest) f.isTx f.mode
    case incr k' n =>
      have hne : k ≠ k' := by simp [Cmd.writes] at hcw; exact fun h => hcw h.symm
      exact CStep_plain (by simp [Mut.apply, hne, hS]) hTI' hntx (plain_settle now _ _ hcf hrest)
        (Frame_settle _ _ _).isTx (Frame_settle _ _ _).mode
    case get k' =>
      exact CStep_plain hS hTI' hntx (plain_settle now _ _ hcf hrest) (Frame_settle _ _ _).isTx (Frame_settle _ _ _).mode
    case delete k' =>
      have hne : k ≠ k' := by simp [Cmd.writes] at hcw; exact fun h => hcw h.symm
      have f := Frame_settle now t.prog t
      exact CStep_plain (by simp [Mut.apply, hne, hS]) hTI' hntx (plain_settle now _ _ hcf hrest) f.isTx f.mode
    case expire k' =>
      exact CStep_plain hS hTI' hntx (plain_settle now _ _ hcf hrest) (Frame_settle _ _ _).isTx (Frame_settle _ _ _).mode
    case setx k' v e =>
      have hne : k ≠ k' := by simp [Cmd.writes] at hcw; exact fun h => hcw h.symm
      exact CStep_plain (by dsimp only; split <;> simp [Mut.apply, hne, hS]) hTI' hntx (plain_settle now _ _ hcf hrest)
        (Frame_settle _ _ _).isTx (Frame_settle _ _ _).mode
    all_goals exact CStep_same hS hci rfl rfl rfl
  case commitDel =>
    have hc := TI.ctx_of_pc hti (by simp [hpc, PC.plainOk])
    have htx := (hti.ctx_tx hc)
    have hb := hci.body hc (by simp [Task.active, hpc])
    have hprog := hci.commitp (Or.inl hpc)
    have hrem : t.rem = [] := by simp [Task.rem, hpc, hprog]
    rw [hrem] at hb
    rw [taskStep_commitDel _ _ _ _ _ hpc]
    have hst : ((Mut.delMany t.del).apply store k).getD 0 = S := by simp [Mut.apply, hb.nodel, hS]
    split
    · refine CStep_same hst ?_ (by simp [Task.committed, hpc]) rfl rfl
      exact CI_repc _ hc htx (fun _ => by simpa [Task.rem, hprog] using hb) (by simp) (by simp) (fun _ => hprog) (by simp)
    · rename_i hov
      have hov' : t.ov = [] := by simpa using hov
      have h0 : incrTotal k p0 = 0 := by
        have := hb.none_ (by simp [hov'])
        simpa [incrTotal] using this.symm
      have f := Frame_afterCommit t
      exact CStep_of_CPark hst (CPark_afterCommit hc h0) (f.isTx.trans htx) (by simp [Task.committed, hpc]) f.isTx f.mode
  case commitSet =>
    have hc := TI.ctx_of_pc hti (by simp [hpc, PC.plainOk])
    have htx := (hti.ctx_tx hc)
    have hb := hci.body hc (by simp [Task.active, hpc])
    have hprog := hci.commitp (Or.inr hpc)
    have hrem : t.rem = [] := by simp [Task.rem, hpc, hprog]
    rw [hrem] at hb
    rw [taskStep_commitSet _ _ _ _ _ hpc]
    have f := Frame_afterCommit t
    have hcomm : (afterCommit t).committed = true := by unfold afterCommit; split <;> simp [Task.committed]
    have hnc : t.committed = false := by simp [Task.committed, hpc]
    cases hg : t.ov.get k with
    | none =>
      have h0 : incrTotal k p0 = 0 := by simpa [incrTotal] using (hb.none_ hg).symm
      have hst : ((Mut.setMany t.ov).apply store k).getD 0 = S := by simp [Mut.apply, hg, hS]
      exact CStep_of_CPark hst (CPark_afterCommit hc h0) (f.isTx.trans htx) hnc f.isTx f.mode
    | some v =>
      have hv := (hb.some_ v hg).2
      simp [incrTotal] at hv
      have hst : ((Mut.setMany t.ov).apply store k).getD 0 = S + incrTotal k p0 := by simp [Mut.apply, hg, hv]
      refine { ci := ?_, delta := ?_, changed := fun _ => ⟨hc, by simp [Task.active, hpc], v, hg⟩, isTx := f.isTx, mode := f.mode }
      · dsimp only
        refine { plain := ?_, start := ?_, body := ?_, seed := ?_, txpc := ?_, commitp := ?_, eseed := ?_ }
        · intro h; rw [f.isTx, htx] at h; cases h
        · intro _ h; unfold afterCommit at h; split at h <;> simp at h
        · intro _ h; unfold afterCommit at h; split at h <;> simp [Task.active] at h
        · intro n h; unfold afterCommit at h; split at h <;> simp at h
        · intro _ h; rw [f.ctx, hc] at h; cases h
        · intro h; unfold afterCommit at h; split at h <;> simp at h
        · intro h; unfold afterCommit at h; split at h <;> simp at h
      · dsimp only
        rw [hst]
        simp [contrib, hcomm, hnc, f.isTx, htx]
  case unlocking ls o =>
    have hc := TI.ctx_of_pc hti (by simp [hpc, PC.plainOk])
    have htx := (hti.ctx_tx hc)
    cases ls with
    | nil =>
      rw [taskStep_unlocking_nil _ _ _ _ _ hpc]
      refine CStep_same hS ?_ (by cases o <;> simp [Task.committed, hpc]) rfl rfl
      exact CI_repc _ hc htx (fun h => by simp [Task.active] at h) (by simp) (by simp) (by simp) (by simp)
    | cons l rest =>
      rw [taskStep_unlocking_cons _ _ _ _ _ hpc]
      refine CStep_same hS ?_ (by by_cases hr : rest = [] <;> cases o <;> simp [Task.committed, hpc, hr]) rfl rfl
      refine CI_repc _ hc htx (fun h => ?_) (by intro n; split <;> simp) (by split <;> simp) (by split <;> simp) (by split <;> simp)
      split at h <;> simp [Task.active] at h

theorem counter_wake {k : Nat} {p0 : List Cmd} {S : Int} {t : Task} (hti : t.TI) (hci : CI k S p0 t)
    (hmf : t.isTx = true → t.mode ≠ .fast) (now : Nat) :
    CI k S p0 (wake now t) ∧ contrib k p0 (wake now t) = contrib k p0 t := by
  unfold wake
  split
  · rename_i wk hpc
    split
    · rename_i hw
      have hTI' : (settle now t.prog t).TI := BodyTI_settle now _ hti.body
      have hnc : t.committed = false := by simp [Task.committed, hpc]
      cases htx : t.isTx
      · have hcf := hti.plain_ctx htx
        have f := Frame_settle now t.prog t
        have hrem := plain_settle (k := k) now t.prog t hcf (by simpa [Task.rem, hpc] using hci.plain htx)
        have hs : CStep k p0 S t { store := fun _ => some S, lock := fun _ => none, task := settle now t.prog t } :=
          CStep_plain (by simp) hTI' htx hrem f.isTx f.mode
        have := hs.ci
        simp at this
        exact ⟨this, by simp [contrib, htx, f.isTx]⟩
      · have hc : t.ctx = true := by
          cases hc : t.ctx
          · have := hci.txpc htx hc; rw [hpc] at this; cases this
          · rfl
        have hb := hci.body hc (by simp [Task.active, hpc])
        rw [show t.rem = t.prog by simp [Task.rem, hpc]] at hb
        have hp := CPark_settle now t.prog t hc (hmf htx) hb
        have f := Frame_settle now t.prog t
        exact ⟨CI_of_CPark hp (f.isTx.trans htx), by rw [contrib_zero_of_CPark hp, contrib_of_not_committed hnc]⟩
    · exact ⟨hci, rfl⟩
  · rename_i k' left wk hpc
    have hc := TI.ctx_of_pc hti (by simp [hpc, PC.plainOk])
    have htx := hti.ctx_tx hc
    have hnc : t.committed = false := by simp [Task.committed, hpc]
    split
    · split
      · have hp : CPark k S (incrTotal k p0) (abort t .raisedLocked) := CPark_abort hc _ (by simp)
        have f := Frame_abort t .raisedLocked
        exact ⟨CI_of_CPark hp (f.isTx.trans htx), by rw [contrib_zero_of_CPark hp, contrib_of_not_committed hnc]⟩
      · have hb := hci.body hc (by simp [Task.active, hpc])
        rw [show t.rem = t.prog by simp [Task.rem, hpc]] at hb
        refine ⟨CI_repc _ hc htx (fun _ => by simpa [Task.rem] using hb) (by simp) (by simp) (by simp) (by simp), ?_⟩
        simp [contrib, Task.committed, hpc]
    · exact ⟨hci, rfl⟩
  · exact ⟨hci, rfl⟩

/-- the value of the counter in the store (absent = 0, as `incr` reads it) -/
def World.cval (w : World) (k : Nat) : Int := (w.store k).getD 0

/-- **the counter invariant**: `k`'s value is its initial value plus the totals of the transactions whose commit
has reached the store -/
structure World.CounterInv (k : Nat) (m : Mode) (init : Int) (p0 : Nat → List Cmd) (n : Nat) (w : World) : Prop where
  ci : ∀ i, CI k (w.cval k) (p0 i) (w.tasks i)
  sum : w.cval k = init + csum (fun i => contrib k (p0 i) (w.tasks i)) n
  modes : ∀ i, (w.tasks i).isTx = true → (w.tasks i).mode = m
  inert : ∀ i, n ≤ i → ∃ o, (w.tasks i).pc = .finished o

/-- changing the store's value does not disturb a task that has not buffered `k` -/
theorem CI_change {k : Nat} {S S' : Int} {p0 : List Cmd} {t : Task} (h : CI k S p0 t)
    (hn : t.ctx = true → t.active = true → t.ov.get k = none) : CI k S' p0 t :=
  { plain := h.plain, start := h.start, seed := h.seed, txpc := h.txpc, commitp := h.commitp, eseed := h.eseed
    body := fun hc ha => by
      have hb := h.body hc ha
      exact ⟨hb.noclob, hb.nodel, fun v hv => (by rw [hn hc ha] at hv; cases hv), hb.none_⟩ }

theorem CounterInv_step {k : Nat} {m : Mode} (hm : m ≠ .fast) {init : Int} {p0 : Nat → List Cmd} {n : Nat}
    (w : World) (a : Act) (hti : w.AllTI) (hli : w.LockInv) (h : w.CounterInv k m init p0 n) :
    (w.step a).CounterInv k m init p0 n := by
  cases a with
  | adv d =>
    have hw := fun i => counter_wake (hti i) (h.ci i) (fun htx => by rw [h.modes i htx]; exact hm) (w.now + d)
    have hf := fun i => wake_frame (w.now + d) (w.tasks i)
    refine ⟨fun i => (hw i).1, ?_, ?_, ?_⟩
    · show w.cval k = _
      rw [h.sum]
      congr 1
      exact csum_congr (fun i _ => ((hw i).2).symm)
    · intro i htx
      show (wake (w.now + d) (w.tasks i)).mode = m
      rw [(hf i).2.1]; exact h.modes i (by rw [← (hf i).1]; exact htx)
    · intro i hi
      obtain ⟨o, ho⟩ := h.inert i hi
      exact ⟨o, by show (wake (w.now + d) (w.tasks i)).pc = _; simp [wake, ho]⟩
  | run tid =>
    show (w.runTask tid).CounterInv k m init p0 n
    have hs := counter_taskStep (hti tid) (h.ci tid) (fun htx => by rw [h.modes tid htx]; exact hm)
      tid w.now w.store w.lock (S := w.cval k) rfl
    have hcv : (w.runTask tid).cval k = ((taskStep tid w.now w.store w.lock (w.tasks tid)).store k).getD 0 := rfl
    refine ⟨?_, ?_, ?_, ?_⟩
    · intro i
      by_cases hi : i = tid
      · subst hi; rw [hcv]; simp only [runTask_tasks_self]; exact hs.ci
      · simp only [runTask_tasks_ne w tid hi]
        by_cases hch : (w.runTask tid).cval k = w.cval k
        · rw [hch]; exact h.ci i
        · refine CI_change (h.ci i) ?_
          intro hc ha
          obtain ⟨hct, hat, v, hv⟩ := hs.changed (by rw [← hcv]; exact hch)
          cases hg : (w.tasks i).ov.get k with
          | none => rfl
          | some v' =>
            exfalso
            have h1 := ((h.ci i).body hc ha).some_ v' hg
            have h2 := ((h.ci tid).body hct hat).some_ v hv
            rw [h.modes i ((hti i).ctx_tx hc)] at h1
            rw [h.modes tid ((hti tid).ctx_tx hct)] at h2
            have hheld : ∀ j, (w.tasks j).active = true → lockKeyOf m k ∈ (w.tasks j).locks → lockKeyOf m k ∈ (w.tasks j).held := by
              intro j hj hl
              unfold Task.held
              split
              · rename_i hpc; simp [Task.active, hpc] at hj
              · exact hl
            exact hi (hli.exclusive (hheld i ha h1.1) (hheld tid hat h2.1))
    · rw [hcv, hs.delta, h.sum]
      by_cases htn : tid < n
      · rw [csum_update (f := fun i => contrib k (p0 i) (w.tasks i))
            (g := fun i => contrib k (p0 i) ((w.runTask tid).tasks i)) htn
            (fun i hi => by simp only [runTask_tasks_ne w tid hi])]
        simp only [runTask_tasks_self]
        omega
      · obtain ⟨o, ho⟩ := h.inert tid (by omega)
        have : taskStep tid w.now w.store w.lock (w.tasks tid) = { store := w.store, lock := w.lock, task := w.tasks tid } :=
          taskStep_finished _ _ _ _ _ ho
        rw [this]
        dsimp only
        rw [csum_congr (f := fun i => contrib k (p0 i) ((w.runTask tid).tasks i)) (g := fun i => contrib k (p0 i) (w.tasks i))
          (fun i hi => by rw [runTask_tasks_ne w tid (by omega)])]
        omega
    · intro i htx
      by_cases hi : i = tid
      · subst hi
        simp only [runTask_tasks_self] at htx ⊢
        rw [hs.mode]; exact h.modes i (by rw [← hs.isTx]; exact htx)
      · simp only [runTask_tasks_ne w tid hi] at htx ⊢
        exact h.modes i htx
    · intro i hi
      obtain ⟨o, ho⟩ := h.inert i hi
      by_cases hit : i = tid
      · subst hit
        exact ⟨o, by simp only [runTask_tasks_self, taskStep_finished _ _ _ _ _ ho]; exact ho⟩
      · exact ⟨o, by simp only [runTask_tasks_ne w tid hit]; exact ho⟩

theorem csum_zero {f : Nat → Int} {n : Nat} (h : ∀ i, i < n → f i = 0) : csum f n = 0 := by
  induction n with
  | zero => rfl
  | succ n ih => simp only [csum]; rw [ih (fun i hi => h i (by omega)), h n (by omega)]; rfl

/-- the program task `i` starts with -/
def progOf (ts : List Task) (i : Nat) : List Cmd := (ts.getD i Task.inert).prog

theorem init_task_cases (store : Store) (ts : List Task) (i : Nat) :
    (i < ts.length ∧ ∃ t ∈ ts, (World.init store ts).tasks i = t) ∨
    (ts.length ≤ i ∧ (World.init store ts).tasks i = Task.inert) := by
  by_cases hi : i < ts.length
  · left
    refine ⟨hi, ts[i], List.getElem_mem hi, ?_⟩
    show ts.getD i Task.inert = _
    rw [List.getD_eq_getElem?_getD, List.getElem?_eq_getElem hi]; rfl
  · right
    refine ⟨by omega, ?_⟩
    show ts.getD i Task.inert = _
    rw [List.getD_eq_getElem?_getD, List.getElem?_eq_none (by omega)]; rfl

theorem CounterInv_init (store : Store) (ts : List Task) (hf : ∀ t ∈ ts, t.Fresh) (k : Nat) (m : Mode)
    (hmodes : ∀ t ∈ ts, t.isTx = true → t.mode = m) (honly : ∀ t ∈ ts, OnlyIncr k t.isTx t.prog) :
    (World.init store ts).CounterInv k m ((store k).getD 0) (progOf ts) ts.length := by
  refine ⟨?_, ?_, ?_, ?_⟩
  · intro i
    have hp : progOf ts i = ((World.init store ts).tasks i).prog := rfl
    rcases init_task_cases store ts i with ⟨_, t, ht, e⟩ | ⟨_, e⟩
    · rw [hp, e]
      have f := hf t ht
      have ho := honly t ht
      refine { plain := ?_, start := ?_, body := ?_, seed := ?_, txpc := ?_, commitp := ?_, eseed := ?_ }
      · intro hx; rw [hx] at ho; simpa [Task.rem, f.pc, OnlyIncr] using ho
      · intro hx _; rw [hx] at ho; exact ⟨rfl, ho⟩
      · intro hc; rw [f.ctx] at hc; cases hc
      · intro n hpc; rw [f.pc] at hpc; cases hpc
      · intro _ _; exact f.pc
      · intro hpc; rw [f.pc] at hpc; rcases hpc with hpc | hpc <;> cases hpc
      · intro hpc; rw [f.pc] at hpc; cases hpc
    · rw [hp, e]
      refine { plain := ?_, start := ?_, body := ?_, seed := ?_, txpc := ?_, commitp := ?_, eseed := ?_ } <;>
        simp [Task.inert, Task.rem]
  · show (store k).getD 0 = _
    rw [csum_zero]; · simp
    intro i _
    rcases init_task_cases store ts i with ⟨_, t, ht, e⟩ | ⟨_, e⟩
    · rw [e]; simp [contrib, Task.committed, (hf t ht).pc]
    · rw [e]; simp [contrib, Task.inert]
  · intro i htx
    rcases init_task_cases store ts i with ⟨_, t, ht, e⟩ | ⟨_, e⟩
    · rw [e] at htx ⊢; exact hmodes t ht htx
    · rw [e] at htx; simp [Task.inert] at htx
  · intro i hi
    rcases init_task_cases store ts i with ⟨hlt, _⟩ | ⟨_, e⟩
    · omega
    · exact ⟨_, by rw [e]; rfl⟩

/-- all three invariants along every schedule that stays within the timeouts -/
theorem counter_run (store : Store) (ts : List Task) (hf : ∀ t ∈ ts, t.Fresh) (k : Nat) (m : Mode) (hm : m ≠ .fast)
    (hmodes : ∀ t ∈ ts, t.isTx = true → t.mode = m) (honly : ∀ t ∈ ts, OnlyIncr k t.isTx t.prog)
    (sched : List Act) (hs : WithinTimeout (World.init store ts) sched) :
    ((World.init store ts).run sched).CounterInv k m ((store k).getD 0) (progOf ts) ts.length := by
  have := run_invariant_under
    (P := fun w => w.AllTI ∧ w.LockInv ∧ w.CounterInv k m ((store k).getD 0) (progOf ts) ts.length) (S := World.Safe)
    (fun w a hp hsafe => ⟨AllTI_step w a hp.1, LockInv_step w a hp.1 hp.2.1 hsafe, CounterInv_step hm w a hp.1 hp.2.1 hp.2.2⟩)
    sched _ ⟨AllTI_init store ts hf, LockInv_init store ts hf, CounterInv_init store ts hf k m hmodes honly⟩ hs
  exact this.2.2

end CashewsVerif.TxSched
