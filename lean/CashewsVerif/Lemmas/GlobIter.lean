import CashewsVerif.Lemmas.Glob
/- The step-wise iteration of `Memory.scan` (`Glob.scanNext`, `Glob.scanSteps`): it works on its snapshot only. -/
namespace CashewsVerif.Glob
open Store

/-- the step's own selection: live at the instant of the step, and matching -/
def selAt (name : Nat → List Char) (pat : List Char) (now : Nat) (ke : Key × Entry) : Bool :=
  ke.2.live now && matchRe (translate pat) (name ke.1)

theorem scanNext_some {name : Nat → List Char} {pat : List Char} {now : Nat} : ∀ {snap : Store} {k : Nat} {r : Store},
    scanNext name pat now snap = (some k, r) →
    ∃ pre e, snap = pre ++ (k, e) :: r ∧ selAt name pat now (k, e) = true ∧ ∀ x ∈ pre, selAt name pat now x = false := by
  intro snap
  induction snap with
  | nil => intro k r h; simp [scanNext] at h
  | cons x snap ih =>
    intro k r h
    obtain ⟨k0, e0⟩ := x
    by_cases hs : (e0.live now && matchRe (translate pat) (name k0)) = true
    · simp only [scanNext, hs, if_true, Prod.mk.injEq, Option.some.injEq] at h
      obtain ⟨rfl, rfl⟩ := h
      exact ⟨[], e0, rfl, hs, by simp⟩
    · simp only [scanNext, hs] at h
      obtain ⟨pre, e, h1, h2, h3⟩ := ih h
      refine ⟨(k0, e0) :: pre, e, by rw [h1]; rfl, h2, ?_⟩
      intro y hy
      simp only [List.mem_cons] at hy
      rcases hy with hy | hy
      · subst hy; simpa [selAt] using hs
      · exact h3 y hy

theorem scanNext_none {name : Nat → List Char} {pat : List Char} {now : Nat} : ∀ {snap r : Store},
    scanNext name pat now snap = (none, r) → ∀ x ∈ snap, selAt name pat now x = false := by
  intro snap
  induction snap with
  | nil => intro r _ x hx; simp at hx
  | cons y snap ih =>
    intro r h x hx
    obtain ⟨k0, e0⟩ := y
    by_cases hs : (e0.live now && matchRe (translate pat) (name k0)) = true
    · simp [scanNext, hs] at h
    · simp only [scanNext, hs] at h
      simp only [List.mem_cons] at hx
      rcases hx with hx | hx
      · subst hx; simpa [selAt] using hs
      · exact ih h x hx

/-- every yielded key is a key of the snapshot whose name the pattern matches -/
theorem scanSteps_sound (name : Nat → List Char) (pat : List Char) : ∀ (nows : List Nat) (snap : Store) (k : Nat),
    k ∈ scanSteps name pat nows snap → ∃ e, (k, e) ∈ snap ∧ glob pat (name k) = true := by
  intro nows
  induction nows with
  | nil => intro snap k h; simp [scanSteps] at h
  | cons now nows ih =>
    intro snap k h
    unfold scanSteps at h
    cases hn : scanNext name pat now snap with
    | mk o r =>
      rw [hn] at h
      cases o with
      | none => simp at h
      | some k0 =>
        obtain ⟨pre, e, h1, h2, _⟩ := scanNext_some hn
        simp only [List.mem_cons] at h
        rcases h with h | h
        · subst h
          refine ⟨e, by rw [h1]; simp, ?_⟩
          simp only [selAt, Bool.and_eq_true] at h2
          rw [glob_eq_matchRe]; exact h2.2
        · obtain ⟨e', he', hg⟩ := ih r k h
          exact ⟨e', by rw [h1]; simp [he'], hg⟩

/-- no key is yielded twice -/
theorem scanSteps_nodup (name : Nat → List Char) (pat : List Char) : ∀ (nows : List Nat) (snap : Store),
    (keys snap).Nodup → (scanSteps name pat nows snap).Nodup := by
  intro nows
  induction nows with
  | nil => intro snap _; simp [scanSteps]
  | cons now nows ih =>
    intro snap hnd
    unfold scanSteps
    cases hn : scanNext name pat now snap with
    | mk o r =>
      cases o with
      | none => simp
      | some k0 =>
        obtain ⟨pre, e, h1, _, _⟩ := scanNext_some hn
        have hk : keys snap = keys pre ++ k0 :: keys r := by rw [h1]; simp [keys]
        rw [hk] at hnd
        have hnd2 := (List.nodup_append.mp hnd).2.1
        simp only [List.nodup_cons] at hnd2
        refine List.nodup_cons.mpr ⟨fun hin => ?_, ih r hnd2.2⟩
        obtain ⟨e', he', _⟩ := scanSteps_sound name pat nows r k0 hin
        exact hnd2.1 (List.mem_map.mpr ⟨(k0, e'), he', rfl⟩)

theorem live_mono {e : Entry} {now T : Nat} (h : e.live T = true) (hle : now ≤ T) : e.live now = true := by
  unfold Entry.live at *
  cases hd : e.dl with
  | none => rfl
  | some d => rw [hd] at h; simp at h ⊢; omega

/-- **a key of the snapshot that matches and whose entry is still live at the end `T` of the iteration is yielded**,
provided the consumer asks until the iteration is over -/
theorem scanSteps_complete (name : Nat → List Char) (pat : List Char) (T : Nat) : ∀ (nows : List Nat) (snap : Store),
    snap.length < nows.length → (∀ now ∈ nows, now ≤ T) →
    ∀ k e, (k, e) ∈ snap → e.live T = true → glob pat (name k) = true → k ∈ scanSteps name pat nows snap := by
  intro nows
  induction nows with
  | nil => intro snap hl; simp at hl
  | cons now nows ih =>
    intro snap hl hT k e hmem hlive hg
    have hsel : selAt name pat now (k, e) = true := by
      simp only [selAt, Bool.and_eq_true]
      exact ⟨live_mono hlive (hT now (by simp)), by rw [← glob_eq_matchRe]; exact hg⟩
    unfold scanSteps
    cases hn : scanNext name pat now snap with
    | mk o r =>
      cases o with
      | none => have := scanNext_none hn (k, e) hmem; rw [hsel] at this; exact absurd this (by simp)
      | some k0 =>
        obtain ⟨pre, e0, h1, _, h3⟩ := scanNext_some hn
        rw [h1] at hmem hl
        simp only [List.mem_append, List.mem_cons] at hmem
        simp only [List.mem_cons]
        rcases hmem with hm | hm | hm
        · have := h3 _ hm; rw [hsel] at this; exact absurd this (by simp)
        · left; exact (Prod.mk.inj hm).1
        · right
          refine ih r ?_ (fun n hn' => hT n (by simp [hn'])) k e hm hlive hg
          simp only [List.length_append, List.length_cons] at hl
          omega

/-- consumed in one go (every step at the same instant) the iteration is `scan` -/
theorem scanSteps_const (name : Nat → List Char) (pat : List Char) (now : Nat) : ∀ (n : Nat) (snap : Store),
    snap.length < n → scanSteps name pat (List.replicate n now) snap =
      (snap.filter fun ke => ke.2.live now && matchRe (translate pat) (name ke.1)).map (·.1) := by
  intro n
  induction n with
  | zero => intro snap h; simp at h
  | succ n ih =>
    intro snap hl
    simp only [List.replicate_succ]
    unfold scanSteps
    cases hn : scanNext name pat now snap with
    | mk o r =>
      cases o with
      | none =>
        have := scanNext_none hn
        simp only
        symm
        rw [List.map_eq_nil_iff, List.filter_eq_nil_iff]
        intro x hx
        have := this x hx
        simpa [selAt] using this
      | some k0 =>
        obtain ⟨pre, e0, h1, h2, h3⟩ := scanNext_some hn
        simp only
        have hpre : pre.filter (fun ke => ke.2.live now && matchRe (translate pat) (name ke.1)) = [] := by
          rw [List.filter_eq_nil_iff]; intro x hx; have := h3 x hx; simpa [selAt] using this
        have h2' : (e0.live now && matchRe (translate pat) (name k0)) = true := h2
        rw [h1, List.filter_append, hpre, List.filter_cons, h2']
        simp only [List.nil_append, if_true, List.map_cons]
        rw [ih r (by rw [h1] at hl; simp only [List.length_append, List.length_cons] at hl; omega)]

end CashewsVerif.Glob
