import CashewsVerif.Model.Routed
namespace CashewsVerif

theorem lastLookup_zip_map {α} (f : Key → α) (l : List Key) (k : Key) :
    lastLookup (l.zip (l.map f)) k = if k ∈ l then some (f k) else none := by
  induction l with
  | nil => simp [lastLookup]
  | cons a rest ih =>
    simp only [List.map_cons, List.zip_cons_cons, lastLookup, ih]
    by_cases h : k ∈ rest
    · simp [h]
    · by_cases ha : a = k
      · subst ha; simp [h]
      · have : ¬ k = a := fun e => ha e.symm
        simp [h, ha, this]

theorem lastLookup_append {α} (x y : List (Key × α)) (k : Key) :
    lastLookup (x ++ y) k = match lastLookup y k with | some v => some v | none => lastLookup x k := by
  induction x with
  | nil => simp [lastLookup]; cases lastLookup y k <;> rfl
  | cons p x ih =>
    obtain ⟨k', v⟩ := p
    simp only [List.cons_append, lastLookup, ih]
    cases lastLookup y k <;> rfl

/-- if each backend answers its group position by position, the facade answers the request position by position,
whatever the order in which the keys of the two backends are mixed -/
theorem facadeGetMany_positional (r : Key → Bool) (ga gb : List Key → List (Option Val)) (fa fb : Key → Option Val)
    (ks : List Key) (ha : ga (ks.filter fun k => !r k) = (ks.filter fun k => !r k).map fa)
    (hb : gb (ks.filter r) = (ks.filter r).map fb) :
    facadeGetMany r ga gb ks = ks.map fun k => if r k then fb k else fa k := by
  unfold facadeGetMany
  simp only [ha, hb]
  apply List.map_congr_left
  intro k hk
  have key : ∀ bf : Bool, (lastLookup (if bf = true then
        (ks.filter r).zip ((ks.filter r).map fb) ++ (ks.filter fun k => !r k).zip ((ks.filter fun k => !r k).map fa)
      else (ks.filter fun k => !r k).zip ((ks.filter fun k => !r k).map fa) ++ (ks.filter r).zip ((ks.filter r).map fb))
      k).getD none = if r k then fb k else fa k := by
    intro bf
    by_cases hr : r k = true
    · have h1 : k ∈ ks.filter r := List.mem_filter.mpr ⟨hk, hr⟩
      have h2 : ¬ k ∈ ks.filter (fun k => !r k) := by simp [List.mem_filter, hr]
      cases bf <;> simp [lastLookup_append, lastLookup_zip_map, h1, h2, hr]
    · have hr' : r k = false := by simpa using hr
      have h1 : ¬ k ∈ ks.filter r := by simp [List.mem_filter, hr']
      have h2 : k ∈ ks.filter (fun k => !r k) := List.mem_filter.mpr ⟨hk, by simp [hr']⟩
      cases bf <;> simp [lastLookup_append, lastLookup_zip_map, h1, h2, hr']
  exact key _

end CashewsVerif
