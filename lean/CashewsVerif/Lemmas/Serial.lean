import CashewsVerif.Model.Serial
/-
Helper lemmas about the framing functions of `Model/Serial.lean` (used by Props/C09 and Props/C10).
-/
namespace CashewsVerif.Serial

variable {α : Type}

/-! ### `split(sep, 1)` -/

theorem splitFirst_append (sep : UInt8) (a b : Bytes) (h : sep ∉ a) :
    splitFirst sep (a ++ sep :: b) = some (a, b) := by
  induction a with
  | nil => simp [splitFirst]
  | cons c r ih =>
    have hc : c ≠ sep := fun e => h (by simp [e])
    have hr : sep ∉ r := fun m => h (by simp [m])
    simp [splitFirst, hc, ih hr]

theorem splitFirst_some {sep : UInt8} {l a b : Bytes} (h : splitFirst sep l = some (a, b)) :
    l = a ++ sep :: b ∧ sep ∉ a := by
  induction l generalizing a b with
  | nil => simp [splitFirst] at h
  | cons c r ih =>
    unfold splitFirst at h
    by_cases hc : c = sep
    · simp [hc] at h
      obtain ⟨rfl, rfl⟩ := h
      simp [hc]
    · simp only [hc, if_false] at h
      cases hs : splitFirst sep r with
      | none => simp [hs] at h
      | some ab =>
        obtain ⟨a', b'⟩ := ab
        simp [hs] at h
        obtain ⟨rfl, rfl⟩ := h
        have := ih hs
        refine ⟨by simp [this.1], ?_⟩
        intro m
        rcases List.mem_cons.mp m with e | m
        · exact hc e.symm
        · exact this.2 m

theorem splitFirst_none {sep : UInt8} {l : Bytes} : splitFirst sep l = none ↔ sep ∉ l := by
  induction l with
  | nil => simp [splitFirst]
  | cons c r ih =>
    unfold splitFirst
    by_cases hc : c = sep
    · simp [hc]
    · have hc' : ¬ sep = c := fun e => hc e.symm
      cases hs : splitFirst sep r with
      | none => simp [hc, hc', ih.mp hs]
      | some ab =>
        have : sep ∈ r := by
          apply Decidable.byContradiction
          intro hn
          rw [ih.mpr hn] at hs
          cases hs
        obtain ⟨a', b'⟩ := ab
        simp [hc, this]

/-! ### digits, hex -/

theorem colon_not_digit : isDigit colon = false := by decide
theorem us_not_hex : isLowerHexChar us = false := by decide

/-- anything that contains a `:` is not a digit string: neither a custom-encoded payload
(`type:payload`) nor a signed blob (`label:sig_payload`) can take the digit shortcut -/
theorem isDigits_with_colon (a b : Bytes) : isDigits (a ++ colon :: b) = false := by
  simp [isDigits, List.all_append, colon_not_digit]

theorem colon_ne_minus : (colon = minus) = False := by decide

/-- … nor the integer shortcut (optional leading `-`) -/
theorem isIntLit_with_colon (a b : Bytes) : isIntLit (a ++ colon :: b) = false := by
  unfold isIntLit
  rw [isDigits_with_colon]
  cases a with
  | nil => simp [colon_ne_minus]
  | cons x r => simp [isDigits_with_colon]

theorem us_not_mem_of_hex {b : Bytes} (h : isLowerHex b = true) : us ∉ b := by
  intro m
  have := (List.all_eq_true.mp h) us m
  rw [us_not_hex] at this
  cases this

theorem hexChar_lower (n : Nat) (h : n < 16) : isLowerHexChar (hexChar n) = true := by
  have : ∀ n : Fin 16, isLowerHexChar (hexChar n.val) = true := by decide
  exact this ⟨n, h⟩

/-- whatever the raw digest, its `hexdigest()` is lower-case hex -/
theorem isLowerHex_hexdigest (raw : Bytes) : isLowerHex (hexdigest raw) = true := by
  unfold isLowerHex hexdigest
  induction raw with
  | nil => rfl
  | cons b r ih =>
    have h1 : b.toNat / 16 < 16 := by have := b.toNat_lt; omega
    have h2 : b.toNat % 16 < 16 := by omega
    simp only [List.flatMap_cons, List.all_append, List.all_cons, List.all_nil, Bool.and_true]
    rw [hexChar_lower _ h1, hexChar_lower _ h2]
    simpa using ih

/-- `f"{n:x}"` is lower-case hex -/
theorem isLowerHex_natHex (n : Nat) : isLowerHex (natHex n) = true := by
  induction n using Nat.strongRecOn with
  | _ n ih =>
    unfold natHex
    by_cases h : n < 16
    · simp [h, isLowerHex, hexChar_lower n h]
    · have h2 : n % 16 < 16 := by omega
      have := ih (n / 16) (by omega)
      simp only [h, if_false]
      unfold isLowerHex at this ⊢
      simp [List.all_append, this, hexChar_lower _ h2]

/-- every MAC of the shape `HashSigner._digestmods` builds satisfies the hex hypothesis -/
theorem isLowerHex_macOfRaw (raw : Digest → Bytes → Bytes → Bytes) (d : Digest) (s m : Bytes) :
    isLowerHex (macOfRaw raw d s m) = true := by
  cases d <;> simp [macOfRaw, simpleSign, isLowerHex_hexdigest, isLowerHex_natHex]

/-! ### labels -/

theorem label_no_us (d : Digest) : us ∉ d.label := by cases d <;> decide
theorem label_no_colon (d : Digest) : colon ∉ d.label := by cases d <;> decide
theorem parseLabel_label (d : Digest) : parseLabel d.label = some d := by cases d <;> decide

theorem parseLabel_some {b : Bytes} {d : Digest} (h : parseLabel b = some d) : b = d.label := by
  unfold parseLabel at h
  split at h
  · cases h; assumption
  · split at h
    · cases h; assumption
    · split at h
      · cases h; assumption
      · split at h
        · cases h; assumption
        · cases h

/-! ### check_sign -/

/-- the header `label:sig` of a signed blob is recognised, provided the signature has no `_`
(for the split of the blob) -/
theorem signAndDigest_label (s : Signer) (d : Digest) (sig : Bytes) :
    signAndDigest s (d.label ++ colon :: sig) = some (sig, d) := by
  simp [signAndDigest, splitFirst_append colon _ sig (label_no_colon d), parseLabel_label]

theorem checkHash_sign_of_no_us (cfg : Cfg α) (s : Signer) (key p : Bytes)
    (h : us ∉ cfg.mac s.digest s.secret (key ++ p)) :
    checkHash cfg s key (hashSign cfg s key p) = .ok p := by
  have hsplit : splitFirst us (hashSign cfg s key p)
      = some (s.digest.label ++ colon :: genSign cfg s s.digest key p, p) := by
    have : hashSign cfg s key p = (s.digest.label ++ colon :: genSign cfg s s.digest key p) ++ us :: p := by
      simp [hashSign]
    rw [this]
    apply splitFirst_append
    intro m
    rcases List.mem_append.mp m with m | m
    · exact label_no_us _ m
    · rcases List.mem_cons.mp m with e | m
      · revert e; decide
      · exact h m
  simp [checkHash, hsplit, signAndDigest_label]

/-- what a successful `check_sign` says about the blob: it is `[label:]sig_payload`, split at the
first `_`, and the signature is the MAC of `key ‖ payload` under the reader's secret. -/
theorem checkHash_ok {cfg : Cfg α} {s : Signer} {key b p : Bytes} (h : checkHash cfg s key b = .ok p) :
    ∃ hdr d, b = hdr ++ us :: p ∧ us ∉ hdr ∧
      ((hdr = d.label ++ colon :: cfg.mac d s.secret (key ++ p)) ∨
       (colon ∉ hdr ∧ d = s.digest ∧ hdr = cfg.mac d s.secret (key ++ p))) := by
  unfold checkHash at h
  cases hs : splitFirst us b with
  | none => simp [hs] at h
  | some hp =>
    obtain ⟨hdr, p'⟩ := hp
    simp only [hs] at h
    cases hd : signAndDigest s hdr with
    | none => simp [hd] at h
    | some sd =>
      obtain ⟨sig, d⟩ := sd
      simp only [hd] at h
      by_cases hm : genSign cfg s d key p' = sig
      · simp [hm] at h
        subst h
        have hb := splitFirst_some hs
        refine ⟨hdr, d, hb.1, hb.2, ?_⟩
        unfold signAndDigest at hd
        cases hc : splitFirst colon hdr with
        | none =>
          simp [hc] at hd
          right
          refine ⟨splitFirst_none.mp hc, hd.2.symm, ?_⟩
          rw [hd.1, ← hm]; rfl
        | some ls =>
          obtain ⟨lab, sg⟩ := ls
          simp only [hc] at hd
          cases hl : parseLabel lab with
          | none => simp [hl] at hd
          | some d' =>
            simp [hl] at hd
            left
            have := (splitFirst_some hc).1
            rw [this, parseLabel_some hl, hd.2, hd.1, ← hm]; rfl
      · simp [hm] at h

end CashewsVerif.Serial

namespace CashewsVerif.Serial
variable {α : Type}

/-! ### consequences of a successful / failed check for `decode` -/

theorem checkHash_tagged {cfg : Cfg α} {s : Signer} {key : Bytes} (d : Digest) (sig rest : Bytes)
    (hus : us ∉ sig) :
    checkHash cfg s key (d.label ++ colon :: (sig ++ us :: rest))
      = if cfg.mac d s.secret (key ++ rest) = sig then .ok rest else .unsecure := by
  have hsplit : splitFirst us (d.label ++ colon :: (sig ++ us :: rest)) = some (d.label ++ colon :: sig, rest) := by
    have : d.label ++ colon :: (sig ++ us :: rest) = (d.label ++ colon :: sig) ++ us :: rest := by simp
    rw [this]
    apply splitFirst_append
    intro m
    rcases List.mem_append.mp m with m | m
    · exact label_no_us _ m
    · rcases List.mem_cons.mp m with e | m
      · revert e; decide
      · exact hus m
  by_cases hm : cfg.mac d s.secret (key ++ rest) = sig <;>
    simp [checkHash, hsplit, signAndDigest_label, genSign, hm]

/-- a MAC that is injective in (secret, message) — used only to show that the collision-freeness
hypothesis of C10 is satisfiable: every secret byte is escaped, a 0 separates secret and message -/
def pairMac (_ : Digest) (s m : Bytes) : Bytes := (s.flatMap fun b => [1, b]) ++ 0 :: m

theorem pairMac_injective (d : Digest) (s s' m m' : Bytes) (h : pairMac d s m = pairMac d s' m') :
    s = s' ∧ m = m' := by
  unfold pairMac at h
  induction s generalizing s' with
  | nil =>
    cases s' with
    | nil => simpa using h
    | cons b r => simp at h
  | cons a r ih =>
    cases s' with
    | nil => simp at h
    | cons b r' =>
      simp only [List.flatMap_cons, List.cons_append, List.nil_append, List.cons.injEq, true_and] at h
      have := ih r' h.2
      exact ⟨by rw [h.1, this.1], this.2⟩


/-- whichever signer is configured (`NullSigner` included), checking what `sign` produced returns the payload -/
theorem checkSign_sign (cfg : Cfg α) (hhex : ∀ d s m, isLowerHex (cfg.mac d s m) = true) (key p b : Bytes)
    (h : sign cfg key (.bytes p) = some (.bytes b)) : checkSign cfg key b = .ok p := by
  unfold sign at h
  unfold checkSign
  cases hs : cfg.signer with
  | none => simp [hs] at h; simp [h]
  | some s =>
    simp [hs] at h
    subst h
    exact checkHash_sign_of_no_us cfg s key p (us_not_mem_of_hex (hhex _ _ _))

/-- decoding a signed-or-not blob whose payload is `p`: the digit shortcut is skipped, the
signature verifies, and either the custom decoder or `loads p` decides -/
theorem decode_signed (cfg : Cfg α) (reg : Registry α) (hhex : ∀ d s m, isLowerHex (cfg.mac d s m) = true) (key p b : Bytes)
    (hsig : sign cfg key (.bytes p) = some (.bytes b)) (hnd : isIntLit b = false) :
    decode cfg reg key (.bytes b) false
      = if isCustomEncoded reg p then customDecode reg p else postLoads reg p (cfg.pickler.loads p) := by
  have := checkSign_sign cfg hhex key p b hsig
  by_cases hc : isCustomEncoded reg p = true <;> simp [decode, preLoads, hnd, this, hc]

/-- `tag:payload` with a registered, colon-free tag is recognised as custom-encoded -/
theorem isCustomEncoded_tagged (reg : Registry α) (htags : ∀ tag c, reg tag = some c → colon ∉ tag)
    (tag payload : Bytes) (c : Codec α) (hreg : reg tag = some c) :
    isCustomEncoded reg (tag ++ colon :: payload) = true := by
  simp [isCustomEncoded, splitFirst_append colon _ _ (htags _ c hreg), hreg]


/-- the stored object `w` is a byte string of the form `[label:]sig_p` — split at its first `_` — and
`sig` is the MAC, under the reader's secret `s.secret` and the digest named by the label (the configured
digest when there is no label), of `key ‖ p` -/
def VerifiedPayload (cfg : Cfg α) (s : Signer) (key : Bytes) (w : Val α) (p : Bytes) : Prop :=
  ∃ b hdr d, w = .bytes b ∧ b = hdr ++ us :: p ∧ us ∉ hdr ∧
    ((hdr = d.label ++ colon :: cfg.mac d s.secret (key ++ p)) ∨
     (colon ∉ hdr ∧ d = s.digest ∧ hdr = cfg.mac d s.secret (key ++ p)))

theorem verified_of_check (cfg : Cfg α) (reg : Registry α) (s : Signer) (hs : cfg.signer = some s)
    (key : Bytes) (w : Val α) (same : Bool) (p : Bytes)
    (h : preLoads cfg reg key w same = .loads p ∨ preLoads cfg reg key w same = .custom p) :
    VerifiedPayload cfg s key w p := by
  unfold preLoads at h
  cases same with
  | true => simp at h
  | false =>
    cases w with
    | int i => simp at h
    | obj x => simp at h
    | bytes b =>
      simp only [Bool.false_eq_true, if_false] at h
      by_cases hd : isIntLit b = true
      · simp [hd] at h
      · simp only [hd] at h
        cases hc : checkSign cfg key b with
        | missing => simp [hc] at h
        | unsecure => simp [hc] at h
        | ok p' =>
          have hp : p' = p := by
            simp only [hc] at h
            by_cases hce : isCustomEncoded reg p' = true
            · simp [hce] at h; exact h
            · simp [hce] at h; exact h
          subst hp
          simp only [checkSign, hs] at hc
          obtain ⟨hdr, d, h1, h2, h3⟩ := checkHash_ok hc
          exact ⟨b, hdr, d, rfl, h1, h2, h3⟩


end CashewsVerif.Serial


namespace CashewsVerif.Serial
variable {α : Type}

/-! ### the class-level registry over time -/

theorem Registry.le_refl (r : Registry α) : r.le r := fun _ _ h => h

theorem Registry.le_trans {a b c : Registry α} (h1 : a.le b) (h2 : b.le c) : a.le c :=
  fun tag x h => h2 tag x (h1 tag x h)

theorem Registry.register_same (r : Registry α) (tag : Bytes) (c : Codec α) : r.register tag c tag = some c := by
  simp [Registry.register]

theorem Registry.register_other (r : Registry α) (tag t : Bytes) (c : Codec α) (h : t ≠ tag) :
    r.register tag c t = r t := by
  simp [Registry.register, h]

/-- registering a name that was not bound keeps every earlier pair -/
theorem Registry.le_register_fresh (r : Registry α) (tag : Bytes) (c : Codec α) (h : r tag = none) :
    r.le (r.register tag c) := by
  intro t x hx
  by_cases e : t = tag
  · subst e; rw [h] at hx; cases hx
  · rw [Registry.register_other r tag t c e]; exact hx

/-- registering a name again with the very same pair changes nothing -/
theorem Registry.le_register_again (r : Registry α) (tag : Bytes) (c : Codec α) (h : r tag = some c) :
    r.le (r.register tag c) := by
  intro t x hx
  by_cases e : t = tag
  · subst e; rw [h] at hx; rw [Registry.register_same]; exact hx
  · rw [Registry.register_other r tag t c e]; exact hx

/-- a run of registrations each of which binds a name that the ORIGINAL registry `r` did not bind (the same new
name may be bound several times, by different pairs): every pair of `r` survives -/
theorem Registry.le_registerAll (r : Registry α) (l : List (Bytes × Codec α)) (h : ∀ tc ∈ l, r tc.1 = none) :
    r.le (r.registerAll l) := by
  suffices H : ∀ (l : List (Bytes × Codec α)) (r' : Registry α), r.le r' → (∀ tc ∈ l, r tc.1 = none) →
      r.le (r'.registerAll l) from H l r (Registry.le_refl r) h
  intro l
  induction l with
  | nil => intro r' h' _; exact h'
  | cons tc rest ih =>
    intro r' h' hl
    simp only [Registry.registerAll, List.foldl_cons]
    apply ih
    · intro t x hx
      by_cases e : t = tc.1
      · subst e; rw [hl tc (by simp)] at hx; cases hx
      · rw [Registry.register_other r' tc.1 t tc.2 e]; exact h' t x hx
    · intro tc' m; exact hl tc' (by simp [m])


/-! ### the store glue: writes under other keys, deletions of other keys -/

theorem SStore.get_set_other (cfg : Cfg α) (rw rr : Registry α) (st : SStore α) (k k' : Bytes) (v : Val α) (hne : k ≠ k') :
    (st.set cfg rw k v).get cfg rr k' = st.get cfg rr k' := by
  unfold SStore.set
  cases encode cfg rw k v with
  | none => rfl
  | some w => simp [SStore.get, SStore.lookup, hne]

theorem SStore.get_setMany_other (cfg : Cfg α) (rw rr : Registry α) (ps : List (Bytes × Val α)) (st : SStore α) (k : Bytes)
    (hk : k ∉ ps.map (·.1)) : (SStore.setMany cfg rw st ps).get cfg rr k = st.get cfg rr k := by
  induction ps generalizing st with
  | nil => rfl
  | cons p r ih =>
    simp only [List.map_cons, List.mem_cons, not_or] at hk
    simp only [SStore.setMany, List.foldl_cons]
    have := ih (st.set cfg rw p.1 p.2) hk.2
    simp only [SStore.setMany] at this
    rw [this, SStore.get_set_other cfg rw rr st p.1 k p.2 (fun e => hk.1 e.symm)]

theorem SStore.lookup_filter_keep (st : SStore α) (p : Bytes → Bool) (k : Bytes) (hk : p k = true) :
    SStore.lookup (st.filter fun kv => p kv.1) k = SStore.lookup st k := by
  induction st with
  | nil => rfl
  | cons kv r ih =>
    by_cases hp : p kv.1 = true
    · simp only [List.filter_cons, hp, if_true, SStore.lookup]
      split <;> simp [ih]
    · have hne : kv.1 ≠ k := fun e => hp (by rw [e]; exact hk)
      simp only [List.filter_cons, hp, SStore.lookup, hne, if_false]
      exact ih

end CashewsVerif.Serial
