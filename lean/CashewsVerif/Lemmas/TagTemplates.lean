import CashewsVerif.Model.TagTemplates
/-
The registry's regular expression recovers the writer's field values when the template is well
separated and the values contain no separator: the match is then unique (a counting argument:
the key has exactly as many separator characters as the template's literals, so no group can
have swallowed one; separator-free groups are then determined piece by piece).
-/
namespace CashewsVerif.TagTpl

def litLen : Tpl → Nat
  | [] => 0
  | .lit cs :: r => cs.length + litLen r
  | .fld _ :: r => litLen r

def asgSep (isSep : Char → Bool) : List (Nat × List Char) → Nat
  | [] => 0
  | p :: r => p.2.countP isSep + asgSep isSep r

theorem matches_nil_inv {key : List Char} {asg} (h : Matches [] key asg) : key = [] ∧ asg = [] := by
  cases h; exact ⟨rfl, rfl⟩

theorem matches_lit_inv {cs : List Char} {r : Tpl} {key : List Char} {asg} (h : Matches (.lit cs :: r) key asg) :
    ∃ key', key = cs ++ key' ∧ Matches r key' asg := by
  cases h with
  | lit _ h' => exact ⟨_, rfl, h'⟩

theorem matches_fld_inv {f : Nat} {r : Tpl} {key : List Char} {asg} (h : Matches (.fld f :: r) key asg) :
    ∃ v key' asg', key = v ++ key' ∧ asg = (f, v) :: asg' ∧ Matches r key' asg' := by
  cases h with
  | fld _ v h' => exact ⟨v, _, _, rfl, rfl, h'⟩

theorem render_matches (val : Nat → List Char) (tpl : Tpl) : Matches tpl (render val tpl) (intended val tpl) := by
  induction tpl with
  | nil => exact .nil
  | cons s r ih =>
    cases s with
    | lit cs => exact .lit cs ih
    | fld f => exact .fld f (val f) ih

theorem wellSeparated_tail {isSep : Char → Bool} {s : Seg} {r : Tpl} (h : WellSeparated isSep (s :: r) = true) :
    WellSeparated isSep r = true := by
  cases s with
  | lit cs => simp [WellSeparated] at h; exact h.2
  | fld f =>
    cases r with
    | nil => rfl
    | cons s' r' =>
      cases s' with
      | lit cs => cases cs with
        | nil => simp [WellSeparated] at h
        | cons c cs => simpa [WellSeparated] using h
      | fld g => simp [WellSeparated] at h

theorem wellSeparated_lit {isSep : Char → Bool} {cs : List Char} {r : Tpl} (h : WellSeparated isSep (.lit cs :: r) = true) :
    ∀ c ∈ cs, isSep c = true := by
  simp [WellSeparated] at h; exact h.1

theorem sepFree_tail {isSep : Char → Bool} {val : Nat → List Char} {s : Seg} {r : Tpl} (h : SepFreeVals isSep val (s :: r)) :
    SepFreeVals isSep val r := by
  intro f hf
  apply h f
  cases s <;> simp [fields, hf]

/-- a well-separated template rendered with separator-free values has exactly its literal characters as separators -/
theorem render_count {isSep : Char → Bool} {val : Nat → List Char} : ∀ tpl : Tpl, WellSeparated isSep tpl = true →
    SepFreeVals isSep val tpl → (render val tpl).countP isSep = litLen tpl := by
  intro tpl
  induction tpl with
  | nil => intros; rfl
  | cons s r ih =>
    intro hw hv
    have ihr := ih (wellSeparated_tail hw) (sepFree_tail hv)
    cases s with
    | lit cs =>
      have : cs.countP isSep = cs.length := List.countP_eq_length.mpr (fun c hc => wellSeparated_lit hw c hc)
      simp [render, litLen, List.countP_append, this, ihr]
    | fld f =>
      have : (val f).countP isSep = 0 := by
        rw [List.countP_eq_zero]
        intro c hc
        simpa using hv f (by simp [fields]) c hc
      simp [render, litLen, List.countP_append, this, ihr]

/-- any match accounts for the separators of the key: those of the literals plus those inside groups -/
theorem matches_count {isSep : Char → Bool} {tpl : Tpl} {key : List Char} {asg} (hm : Matches tpl key asg) :
    WellSeparated isSep tpl = true → key.countP isSep = litLen tpl + asgSep isSep asg := by
  induction hm with
  | nil => intro; rfl
  | lit cs _ ih =>
    intro hw
    have : cs.countP isSep = cs.length := List.countP_eq_length.mpr (fun c hc => wellSeparated_lit hw c hc)
    rw [List.countP_append, this, ih (wellSeparated_tail hw)]
    simp [litLen]; omega
  | fld f v _ ih =>
    intro hw
    rw [List.countP_append, ih (wellSeparated_tail hw)]
    simp [litLen, asgSep]; omega

theorem asgSep_zero {isSep : Char → Bool} {asg : List (Nat × List Char)} (h : asgSep isSep asg = 0) :
    ∀ p ∈ asg, ∀ c ∈ p.2, isSep c = false := by
  induction asg with
  | nil => intro p hp; simp at hp
  | cons q r ih =>
    simp only [asgSep] at h
    intro p hp
    rcases List.mem_cons.mp hp with h' | h'
    · subst h'
      have : p.2.countP isSep = 0 := by omega
      rw [List.countP_eq_zero] at this
      intro c hc
      simpa using this c hc
    · exact ih (by omega) p h'

/-- two separator-free prefixes followed by the same separator are the same prefix -/
theorem sepfree_prefix_unique {isSep : Char → Bool} {c : Char} (hc : isSep c = true) :
    ∀ (a b x y : List Char), (∀ d ∈ a, isSep d = false) → (∀ d ∈ b, isSep d = false) →
      a ++ c :: x = b ++ c :: y → a = b ∧ x = y := by
  intro a
  induction a with
  | nil =>
    intro b x y _ hb h
    cases b with
    | nil => simp at h; exact ⟨rfl, h⟩
    | cons b0 b' =>
      simp at h
      have := hb b0 (by simp)
      rw [← h.1, hc] at this; cases this
  | cons a0 a' ih =>
    intro b x y ha hb h
    cases b with
    | nil =>
      simp at h
      have := ha a0 (by simp)
      rw [h.1, hc] at this; cases this
    | cons b0 b' =>
      simp at h
      obtain ⟨h1, h2⟩ := ih b' x y (fun d hd => ha d (by simp [hd])) (fun d hd => hb d (by simp [hd])) h.2
      exact ⟨by rw [h.1, h1], h2⟩

theorem match_unique_sepfree {isSep : Char → Bool} {val : Nat → List Char} : ∀ tpl : Tpl,
    WellSeparated isSep tpl = true → SepFreeVals isSep val tpl →
    ∀ asg, (∀ p ∈ asg, ∀ c ∈ p.2, isSep c = false) → Matches tpl (render val tpl) asg → asg = intended val tpl := by
  intro tpl
  induction tpl with
  | nil =>
    intro _ _ asg _ hm
    exact (matches_nil_inv hm).2
  | cons s r ih =>
    intro hw hv asg hfree hm
    have ihr := ih (wellSeparated_tail hw) (sepFree_tail hv)
    cases s with
    | lit cs =>
      obtain ⟨key', hk, hm'⟩ := matches_lit_inv hm
      have : key' = render val r := by
        simp only [render] at hk
        exact (List.append_cancel_left hk).symm
      subst this
      exact ihr asg hfree hm'
    | fld f =>
      obtain ⟨v, key', asg', hk, ha, hm'⟩ := matches_fld_inv hm
      subst ha
      have hvfree : ∀ d ∈ v, isSep d = false := hfree (f, v) (by simp)
      have hffree : ∀ d ∈ val f, isSep d = false := hv f (by simp [fields])
      have hrest : ∀ p ∈ asg', ∀ c ∈ p.2, isSep c = false := fun p hp => hfree p (by simp [hp])
      simp only [render] at hk
      have key : v = val f ∧ key' = render val r := by
        cases r with
        | nil =>
          obtain ⟨h1, _⟩ := matches_nil_inv hm'
          subst h1
          simp [render] at hk
          exact ⟨hk.symm, rfl⟩
        | cons s' r' =>
          cases s' with
          | fld g => simp [WellSeparated] at hw
          | lit cs =>
            cases cs with
            | nil => simp [WellSeparated] at hw
            | cons c cs' =>
              obtain ⟨key'', hk'', _⟩ := matches_lit_inv hm'
              subst hk''
              have hsep : isSep c = true := wellSeparated_lit (wellSeparated_tail hw) c (by simp)
              simp only [render, List.cons_append] at hk
              obtain ⟨h1, h2⟩ := sepfree_prefix_unique hsep (val f) v _ _ hffree hvfree hk
              refine ⟨h1.symm, ?_⟩
              simp only [render, List.cons_append]
              rw [h2]
      obtain ⟨h1, h2⟩ := key
      subst h1 h2
      have := ihr asg' hrest hm'
      simp [intended, fields] at this ⊢
      exact this

/-- **uniqueness of the registry's match** -/
theorem match_unique {isSep : Char → Bool} {val : Nat → List Char} (tpl : Tpl)
    (hw : WellSeparated isSep tpl = true) (hv : SepFreeVals isSep val tpl)
    (asg : List (Nat × List Char)) (hm : Matches tpl (render val tpl) asg) : asg = intended val tpl := by
  apply match_unique_sepfree tpl hw hv asg _ hm
  apply asgSep_zero
  have h1 := matches_count (isSep := isSep) hm hw
  have h2 := render_count (val := val) tpl hw hv
  omega

theorem lookup_intended (val : Nat → List Char) (tpl : Tpl) (f : Nat) (hf : f ∈ fields tpl) :
    lookup (intended val tpl) f = val f := by
  unfold lookup intended
  generalize fields tpl = fs at hf
  induction fs with
  | nil => simp at hf
  | cons g r ih =>
    simp only [List.map_cons, List.find?_cons]
    by_cases hg : g = f
    · subst hg; simp
    · have hf' : f ∈ r := by
        rcases List.mem_cons.mp hf with h | h
        · exact absurd h.symm hg
        · exact h
      simp only [hg, decide_false]
      exact ih hf'

theorem render_congr {v1 v2 : Nat → List Char} (tpl : Tpl) (h : ∀ f ∈ fields tpl, v1 f = v2 f) :
    render v1 tpl = render v2 tpl := by
  induction tpl with
  | nil => rfl
  | cons s r ih =>
    cases s with
    | lit cs => simp only [render]; rw [ih (fun f hf => h f (by simp [fields, hf]))]
    | fld f =>
      simp only [render]
      rw [h f (by simp [fields]), ih (fun g hg => h g (by simp [fields, hg]))]

end CashewsVerif.TagTpl
