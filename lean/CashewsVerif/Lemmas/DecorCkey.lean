import Mathlib.Data.Nat.Pairing
import CashewsVerif.Model.Decor.Outcome
/- `ckey` (slot code of the iterator's marker and chunk keys) is Mathlib's pairing function, hence injective. -/
namespace CashewsVerif.Decor

theorem ckey_eq_pair (k j : Nat) : ckey k j = Nat.pair k j := rfl

theorem ckey_inj {k j k' j' : Nat} : ckey k j = ckey k' j' ↔ k = k' ∧ j = j' := by
  simp only [ckey_eq_pair]; exact Nat.pair_eq_pair

theorem ckey_ne_of_slot {k j j' : Nat} (h : j ≠ j') (k' : Nat) : ckey k j ≠ ckey k' j' := by
  intro hc; exact h (ckey_inj.mp hc).2

theorem ckey_ne_of_key {k k' : Nat} (h : k ≠ k') (j j' : Nat) : ckey k j ≠ ckey k' j' := by
  intro hc; exact h (ckey_inj.mp hc).1

end CashewsVerif.Decor
