import CashewsVerif.Lemmas.Route
/-
Lemmas for C17 (multi-key commands): the per-backend grouping hands every backend exactly the
keys routed to it, in the caller's order; the `get_many` re-assembly is positional.
-/
namespace CashewsVerif.Route

section Group
variable {κ : Type}

/-- the keys collected for backend `b` so far -/
def groupOf (g : List (Nat × List κ)) (b : Nat) : List κ := (dictGet b g).getD []

theorem groupOf_addToGroup (b b' : Nat) (k : κ) : ∀ g : List (Nat × List κ),
    groupOf (addToGroup b k g) b' = if b = b' then groupOf g b' ++ [k] else groupOf g b'
  | [] => by
    by_cases h : b = b' <;> simp [addToGroup, groupOf, dictGet, h]
  | (a, ks) :: r => by
    have ih := groupOf_addToGroup b b' k r
    unfold groupOf at ih ⊢
    simp only [addToGroup]
    by_cases h : a = b
    · subst h
      by_cases h' : a = b' <;> simp [dictGet, h']
    · by_cases h' : a = b'
      · subst h'
        have : ¬ b = a := fun e => h e.symm
        simp [dictGet, h, this]
      · simp only [h, if_false, dictGet, h']
        exact ih

theorem addToGroup_keys (b : Nat) (k : κ) : ∀ g : List (Nat × List κ),
    (addToGroup b k g).map (·.1) = if b ∈ g.map (·.1) then g.map (·.1) else g.map (·.1) ++ [b]
  | [] => by simp [addToGroup]
  | (a, ks) :: r => by
    simp only [addToGroup]
    by_cases h : a = b
    · subst h
      simp
    · have h' : ¬ b = a := fun e => h e.symm
      simp only [h, if_false, List.map_cons, List.mem_cons, h', false_or, addToGroup_keys b k r]
      split <;> simp

theorem addToGroup_nodup {b : Nat} {k : κ} {g : List (Nat × List κ)} (h : (g.map (·.1)).Nodup) :
    ((addToGroup b k g).map (·.1)).Nodup := by
  rw [addToGroup_keys]
  split
  · exact h
  · rename_i hb
    rw [List.nodup_append]
    refine ⟨h, by simp, ?_⟩
    intro a ha c hc
    simp at hc
    subst hc
    intro e
    subst e
    exact hb ha

/-- every group of the accumulator is non-empty and holds only keys routed to its backend -/
def GroupsOk (route : κ → Option Nat) (g : List (Nat × List κ)) : Prop :=
  (g.map (·.1)).Nodup ∧ ∀ b ks, (b, ks) ∈ g → ks ≠ [] ∧ ∀ k ∈ ks, route k = some b

theorem mem_addToGroup {b : Nat} {k : κ} : ∀ {g : List (Nat × List κ)} {b' : Nat} {ks : List κ},
    (b', ks) ∈ addToGroup b k g →
    (b', ks) ∈ g ∨ (b' = b ∧ ∃ ks0, ks = ks0 ++ [k] ∧ (ks0 = [] ∨ (b, ks0) ∈ g))
  | [], b', ks, h => by
    simp only [addToGroup, List.mem_singleton, Prod.mk.injEq] at h
    exact Or.inr ⟨h.1, [], by simp [h.2], Or.inl rfl⟩
  | (a, as) :: r, b', ks, h => by
    simp only [addToGroup] at h
    split at h
    · rename_i e
      subst e
      rcases List.mem_cons.1 h with h | h
      · simp only [Prod.mk.injEq] at h
        exact Or.inr ⟨h.1, as, h.2, Or.inr (by simp)⟩
      · exact Or.inl (List.mem_cons_of_mem _ h)
    · rcases List.mem_cons.1 h with h | h
      · exact Or.inl (by rw [h]; simp)
      · rcases mem_addToGroup h with h | ⟨h1, ks0, h2, h3⟩
        · exact Or.inl (List.mem_cons_of_mem _ h)
        · refine Or.inr ⟨h1, ks0, h2, ?_⟩
          rcases h3 with h3 | h3
          · exact Or.inl h3
          · exact Or.inr (List.mem_cons_of_mem _ h3)

theorem groupsOk_addToGroup {route : κ → Option Nat} {g : List (Nat × List κ)} {b : Nat} {k : κ}
    (h : GroupsOk route g) (hk : route k = some b) : GroupsOk route (addToGroup b k g) := by
  refine ⟨addToGroup_nodup h.1, ?_⟩
  intro b' ks hm
  rcases mem_addToGroup hm with hm | ⟨rfl, ks0, rfl, h3⟩
  · exact h.2 b' ks hm
  · refine ⟨by simp, ?_⟩
    intro k' hk'
    rcases List.mem_append.1 hk' with hk' | hk'
    · rcases h3 with rfl | h3
      · simp at hk'
      · exact (h.2 _ _ h3).2 k' hk'
    · simp at hk'
      subst hk'
      exact hk

theorem groupFrom_spec [DecidableEq κ] {route : κ → Option Nat} :
    ∀ {keys : List κ} {g g' : List (Nat × List κ)}, GroupsOk route g →
    groupFrom route g keys = some g' →
    GroupsOk route g' ∧
      ∀ b, groupOf g' b = groupOf g b ++ keys.filter (fun k => decide (route k = some b))
  | [], g, g', hg, h => by
    simp only [groupFrom, Option.some.injEq] at h
    subst h
    exact ⟨hg, by simp⟩
  | k :: ks, g, g', hg, h => by
    simp only [groupFrom] at h
    split at h
    · simp at h
    · rename_i b hb
      obtain ⟨h1, h2⟩ := groupFrom_spec (groupsOk_addToGroup hg hb) h
      refine ⟨h1, ?_⟩
      intro b'
      rw [h2 b', groupOf_addToGroup]
      by_cases e : b = b'
      · subst e
        simp [hb]
      · have : ¬ route k = some b' := by
          rw [hb]
          simpa using e
        simp [e, this]

theorem groupFrom_none {route : κ → Option Nat} :
    ∀ {keys : List κ} {g : List (Nat × List κ)},
    groupFrom route g keys = none ↔ ∃ k ∈ keys, route k = none
  | [], g => by simp [groupFrom]
  | k :: ks, g => by
    simp only [groupFrom]
    split
    · rename_i hk
      simp [hk]
    · rename_i b hb
      rw [groupFrom_none (keys := ks)]
      constructor
      · rintro ⟨k', h1, h2⟩
        exact ⟨k', List.mem_cons_of_mem _ h1, h2⟩
      · rintro ⟨k', h1, h2⟩
        rcases List.mem_cons.1 h1 with rfl | h1
        · rw [hb] at h2
          simp at h2
        · exact ⟨k', h1, h2⟩

theorem groupsOk_nil (route : κ → Option Nat) : GroupsOk route ([] : List (Nat × List κ)) := by
  simp [GroupsOk]

/-- **grouping**: every backend gets exactly the keys routed to it, in the caller's order; groups
are non-empty and there is one group per backend -/
theorem groupKeys_spec [DecidableEq κ] {route : κ → Option Nat} {keys : List κ}
    {g : List (Nat × List κ)} (h : groupKeys route keys = some g) :
    GroupsOk route g ∧ ∀ b, groupOf g b = keys.filter (fun k => decide (route k = some b)) := by
  obtain ⟨h1, h2⟩ := groupFrom_spec (groupsOk_nil route) h
  refine ⟨h1, ?_⟩
  intro b
  simpa [groupOf, dictGet] using h2 b

theorem groupKeys_none {route : κ → Option Nat} {keys : List κ} :
    groupKeys route keys = none ↔ ∃ k ∈ keys, route k = none := groupFrom_none

theorem groupOf_of_mem {g : List (Nat × List κ)} {b : Nat} {ks : List κ}
    (hn : (g.map (·.1)).Nodup) (hm : (b, ks) ∈ g) : groupOf g b = ks := by
  simp [groupOf, dictGet_of_mem hn hm]

theorem mem_of_groupOf_ne_nil {g : List (Nat × List κ)} {b : Nat} (h : groupOf g b ≠ []) :
    (b, groupOf g b) ∈ g := by
  unfold groupOf at h ⊢
  cases hd : dictGet b g with
  | none => simp [hd] at h
  | some ks => simpa using mem_of_dictGet hd

end Group

/-! ### re-assembly of `get_many` -/

section Assemble
variable {κ ν : Type} [DecidableEq κ]

theorem dictGet_dictUpdateZip (f : κ → ν) (k : κ) : ∀ (ks : List κ) (d : List (κ × ν)),
    dictGet k (dictUpdateZip d ks (ks.map f)) = if k ∈ ks then some (f k) else dictGet k d
  | [], d => by simp [dictUpdateZip]
  | a :: as, d => by
    simp only [List.map_cons, dictUpdateZip]
    rw [dictGet_dictUpdateZip f k as, dictGet_dictSet]
    by_cases h1 : k ∈ as
    · simp [h1]
    · by_cases h2 : a = k
      · subst h2
        simp [h1]
      · have : ¬ k = a := fun e => h2 e.symm
        simp [h1, h2, this]

/-- if group number `i` is answered by `ks_i.map f` for one per-key function `f`, the result dict
maps every grouped key to `f key` and leaves the others alone -/
theorem dictGet_assembleFrom (f : κ → ν) (resp : Nat → List ν) (k : κ) :
    ∀ (groups : List (Nat × List κ)) (i0 : Nat) (d : List (κ × ν)),
    (∀ i (h : i < groups.length), resp (i0 + i) = (groups[i]).2.map f) →
    dictGet k (assembleFrom resp i0 d groups) =
      if k ∈ groups.flatMap (·.2) then some (f k) else dictGet k d
  | [], i0, d, _ => by simp [assembleFrom]
  | (b, ks) :: r, i0, d, h => by
    simp only [assembleFrom]
    have h0 : resp i0 = ks.map f := by
      have := h 0 (by simp)
      simpa only [Nat.add_zero, List.getElem_cons_zero] using this
    have hr : ∀ i (hi : i < r.length), resp (i0 + 1 + i) = (r[i]).2.map f := by
      intro i hi
      have := h (i + 1) (by simp; omega)
      simpa only [Nat.add_assoc, Nat.add_comm 1 i, List.getElem_cons_succ] using this
    rw [dictGet_assembleFrom f resp k r (i0 + 1) _ hr, h0, dictGet_dictUpdateZip]
    by_cases h1 : k ∈ r.flatMap (·.2)
    · simp [h1]
    · by_cases h2 : k ∈ ks <;> simp [h1, h2]

/-- mapping the values commutes with the dict primitives (the facade never looks at values) -/
theorem dictSet_map (e : ν → ν') (k : κ) (v : ν) : ∀ d : List (κ × ν),
    dictSet k (e v) (d.map fun p => (p.1, e p.2)) = (dictSet k v d).map fun p => (p.1, e p.2)
  | [] => by simp [dictSet]
  | (a, w) :: r => by
    simp only [List.map_cons, dictSet]
    by_cases h : a = k
    · simp [h]
    · simp [h, dictSet_map e k v r]

theorem dictGet_map (e : ν → ν') (k : κ) : ∀ d : List (κ × ν),
    dictGet k (d.map fun p => (p.1, e p.2)) = (dictGet k d).map e
  | [] => by simp [dictGet]
  | (a, w) :: r => by
    simp only [List.map_cons, dictGet]
    by_cases h : a = k
    · simp [h]
    · simp [h, dictGet_map e k r]

theorem dictUpdateZip_map (e : ν → ν') : ∀ (ks : List κ) (vs : List ν) (d : List (κ × ν)),
    dictUpdateZip (d.map fun p => (p.1, e p.2)) ks (vs.map e) =
      (dictUpdateZip d ks vs).map fun p => (p.1, e p.2)
  | [], vs, d => by simp [dictUpdateZip]
  | _ :: _, [], d => by simp [dictUpdateZip]
  | k :: ks, v :: vs, d => by
    simp only [List.map_cons, dictUpdateZip]
    rw [dictSet_map, dictUpdateZip_map e ks vs]

theorem assembleFrom_map (e : ν → ν') (resp : Nat → List ν) :
    ∀ (groups : List (Nat × List κ)) (i0 : Nat) (d : List (κ × ν)),
    assembleFrom (fun i => (resp i).map e) i0 (d.map fun p => (p.1, e p.2)) groups =
      (assembleFrom resp i0 d groups).map fun p => (p.1, e p.2)
  | [], _, _ => by simp [assembleFrom]
  | (b, ks) :: r, i0, d => by
    simp only [assembleFrom]
    rw [dictUpdateZip_map, assembleFrom_map e resp r]

/-- evaluating the slots afterwards = assembling evaluated answers -/
theorem getManyResult_map (e : ν → ν') (groups : List (Nat × List κ)) (resp : Nat → List ν)
    (keys : List κ) :
    getManyResult groups (fun i => (resp i).map e) keys =
      (getManyResult groups resp keys).map (Option.map e) := by
  unfold getManyResult
  have := assembleFrom_map e resp groups 0 []
  simp only [List.map_nil] at this
  simp only [this, List.map_map]
  apply List.map_congr_left
  intro k _
  simp [dictGet_map]

/-- **positional re-assembly**: when every group call answers positionally with a per-key value,
the facade answers `f key` at the position of `key`, whatever the interleaving of backends -/
theorem getManyResult_positional {route : κ → Option Nat} {keys : List κ}
    {groups : List (Nat × List κ)} (hg : groupKeys route keys = some groups)
    (f : κ → ν) (resp : Nat → List ν)
    (hresp : ∀ i (h : i < groups.length), resp i = (groups[i]).2.map f) :
    getManyResult groups resp keys = keys.map fun k => some (f k) := by
  unfold getManyResult
  apply List.map_congr_left
  intro k hk
  rw [dictGet_assembleFrom f resp k groups 0 [] (by simpa using hresp)]
  obtain ⟨hok, hspec⟩ := groupKeys_spec hg
  have hin : k ∈ groups.flatMap (·.2) := by
    cases hr : route k with
    | none =>
      exact absurd (groupKeys_none.2 ⟨k, hk, hr⟩) (by rw [hg]; simp)
    | some b =>
      have hkb : k ∈ groupOf groups b := by
        rw [hspec b]
        simp [hk, hr]
      have hne : groupOf groups b ≠ [] := List.ne_nil_of_mem hkb
      exact List.mem_flatMap.2 ⟨_, mem_of_groupOf_ne_nil hne, hkb⟩
  simp [hin]

end Assemble

end CashewsVerif.Route
