import CashewsVerif.Model.Mem
/- Basic facts about the association-list store. -/
namespace CashewsVerif.Store

@[simp] theorem lookup_nil (k : Key) : lookup [] k = none := rfl
@[simp] theorem erase_nil (k : Key) : erase [] k = [] := rfl

@[simp] theorem lookup_erase_self (s : Store) (k : Key) : lookup (erase s k) k = none := by
  induction s with
  | nil => rfl
  | cons p s ih =>
    obtain ⟨k', e⟩ := p
    by_cases h : k' = k <;> simp [erase, lookup, h, ih]

theorem lookup_erase_ne (s : Store) {k k' : Key} (h : k ≠ k') :
    lookup (erase s k) k' = lookup s k' := by
  induction s with
  | nil => rfl
  | cons p s ih =>
    obtain ⟨k0, e⟩ := p
    by_cases h0 : k0 = k
    · subst h0; simp [erase, lookup, h, ih]
    · by_cases h1 : k0 = k'
      · subst h1; simp [erase, lookup, h0]
      · simp [erase, lookup, h0, h1, ih]

theorem lookup_append (s t : Store) (k : Key) :
    lookup (s ++ t) k = (lookup s k).or (lookup t k) := by
  induction s with
  | nil => simp
  | cons p s ih =>
    obtain ⟨k0, e⟩ := p
    by_cases h0 : k0 = k <;> simp [lookup, h0, ih]

theorem lookup_put (s : Store) (k k' : Key) (e : Entry) :
    lookup (put s k e) k' = if k = k' then some e else lookup s k' := by
  unfold put
  rw [lookup_append]
  by_cases h : k = k'
  · subst h; simp [lookup]
  · simp [lookup_erase_ne s h, lookup, h]

theorem lookup_erase (s : Store) (k k' : Key) :
    lookup (erase s k) k' = if k = k' then none else lookup s k' := by
  by_cases h : k = k'
  · subst h; simp
  · simp [lookup_erase_ne s h, h]

theorem mem_keys_iff_lookup (s : Store) (k : Key) : k ∈ keys s ↔ (lookup s k).isSome := by
  induction s with
  | nil => simp [keys]
  | cons p s ih =>
    obtain ⟨k0, e⟩ := p
    by_cases h0 : k0 = k
    · simp [keys, lookup, h0]
    · have : k ≠ k0 := fun h => h0 h.symm
      simp [keys, lookup, h0, this] at ih ⊢
      exact ih

theorem keys_erase (s : Store) (k : Key) : keys (erase s k) = (keys s).filter (· ≠ k) := by
  induction s with
  | nil => rfl
  | cons p s ih =>
    obtain ⟨k0, e⟩ := p
    by_cases h0 : k0 = k
    · simp [erase, keys, h0] at ih ⊢; exact ih
    · simp [erase, keys, h0] at ih ⊢; exact ih

theorem length_erase_le (s : Store) (k : Key) : (erase s k).length ≤ s.length := by
  induction s with
  | nil => simp
  | cons p s ih =>
    obtain ⟨k0, e⟩ := p
    by_cases h0 : k0 = k <;> simp [erase, h0] <;> omega

theorem erase_of_not_mem (s : Store) (k : Key) (h : k ∉ keys s) : erase s k = s := by
  induction s with
  | nil => rfl
  | cons p s ih =>
    obtain ⟨k0, e⟩ := p
    simp [keys] at h
    have h0 : k0 ≠ k := fun h' => h.1 h'.symm
    simp [erase, h0]
    exact ih (by simpa [keys] using h.2)

end CashewsVerif.Store
