import CashewsVerif.Model.Sweep
import CashewsVerif.Lemmas.MemStep
import CashewsVerif.Lemmas.LruPurge
/-
Purge sweeps next to the application (Model/Sweep.lean): what follows from the atomicity assumption, and
what does not need it.
-/
namespace CashewsVerif
open Store

def Ev.keys : Ev → List Key
  | .cmd op => op.keys
  | .recheck k => [k]
  | .stale k => [k]

/-- the application commands of a command-granularity history (ticks dropped) -/
def Item.cmds : List Item → List Op
  | [] => []
  | .cmd op :: r => op :: Item.cmds r
  | .tick :: r => Item.cmds r

def Ev.isStale : Ev → Bool
  | .stale _ => true
  | _ => false

namespace Mem

/-! ### command granularity = the `Op` histories all theorems quantify over -/

theorem runItems_state (h : List Item) : ∀ s : Mem, (s.runItems h).1 = (s.run (h.map Item.toOp)).1 := by
  induction h with
  | nil => intro s; rfl
  | cons it r ih =>
    intro s
    cases it with
    | cmd op => simp only [runItems, List.map_cons, Item.toOp, run]; exact ih _
    | tick => simp only [runItems, List.map_cons, Item.toOp, run, step]; exact ih _

/-! ### contiguous micro-steps are one `purge` -/

theorem runEv_append (a : List Ev) : ∀ (s : Mem) (b : List Ev),
    s.runEv (a ++ b) = ((s.runEv a).1.runEv b |>.1, (s.runEv a).2 ++ ((s.runEv a).1.runEv b).2) := by
  induction a with
  | nil => intro s b; simp [runEv]
  | cons ev r ih =>
    intro s b
    cases ev with
    | cmd op => simp only [List.cons_append, runEv, ih, List.cons_append]
    | recheck k => simp only [List.cons_append, runEv, ih]
    | stale k => simp only [List.cons_append, runEv, ih]

theorem runEv_recheck_block (ks : List Key) : ∀ s : Mem,
    s.runEv (ks.map .recheck) = (ks.foldl (fun s k => (s.rawGet k).1) s, []) := by
  induction ks with
  | nil => intro s; rfl
  | cons k ks ih => intro s; simp only [List.map_cons, runEv, List.foldl_cons, ih]

theorem runEv_stale_block (ks : List Key) : ∀ s : Mem,
    s.runEv (ks.map .stale) = (ks.foldl (fun s k => (s.rawDelete k).1) s, []) := by
  induction ks with
  | nil => intro s; rfl
  | cons k ks ih => intro s; simp only [List.map_cons, runEv, List.foldl_cons, ih]

/-- the micro-steps of one re-checking sweep, uninterrupted, are the model's `purge` -/
theorem recheck_block_eq_purge (s : Mem) (r : List Ev) :
    s.runEv ((keys s.store).map .recheck ++ r) = s.purge.runEv r := by
  rw [runEv_append, runEv_recheck_block]
  simp [purge]

theorem atomic_history (h : List Item) : ∀ s : Mem, s.runEv (s.atomicEvents h) = s.runItems h := by
  induction h with
  | nil => intro s; rfl
  | cons it r ih =>
    intro s
    cases it with
    | cmd op => simp only [atomicEvents, runEv, runItems, ih]
    | tick => simp only [atomicEvents, runItems, recheck_block_eq_purge, ih]

/-! ### a snapshot sweep, uninterrupted, is the model's `purge` too -/

theorem foldl_erase_store (ks : List Key) : ∀ s : Mem,
    ks.foldl (fun s k => (s.rawDelete k).1) s = { s with store := ks.foldl erase s.store } := by
  induction ks with
  | nil => intro s; rfl
  | cons k ks ih =>
    intro s
    simp only [List.foldl_cons]
    rw [ih]
    have : (s.rawDelete k).1 = { s with store := erase s.store k } := by
      unfold rawDelete
      cases hl : lookup s.store k with
      | none =>
        have : k ∉ keys s.store := by
          intro hm; have := (mem_keys_iff_lookup _ _).mp hm; simp [hl] at this
        simp [erase_of_not_mem _ _ this]
      | some e => simp
    rw [this]

theorem erase_eq_filter (st : Store) (k : Key) : erase st k = st.filter (fun p => p.1 ≠ k) := by
  induction st with
  | nil => rfl
  | cons p st ih =>
    obtain ⟨k', e⟩ := p
    by_cases h : k' = k
    · subst h; simp [erase, ih]
    · simp [erase, h, ih]

theorem foldl_erase_eq_filter (ks : List Key) : ∀ st : Store,
    ks.foldl erase st = st.filter (fun p => !decide (p.1 ∈ ks)) := by
  induction ks with
  | nil => intro st; exact (List.filter_eq_self.mpr (by simp)).symm
  | cons k ks ih =>
    intro st
    simp only [List.foldl_cons, ih, erase_eq_filter, List.filter_filter]
    apply List.filter_congr
    intro p _
    by_cases h1 : p.1 = k <;> by_cases h2 : p.1 ∈ ks <;> simp [h1, h2]

/-- with distinct keys, "its key is not among the keys of the expired entries" = "it is live" -/
theorem not_mem_expired_iff (st : Store) (now : Time) (h : (keys st).Nodup) :
    ∀ p ∈ st, (p.1 ∉ keys (st.filter (fun q => !q.2.live now))) ↔ p.2.live now = true := by
  induction st with
  | nil => intro p hp; simp at hp
  | cons q st ih =>
    obtain ⟨kq, eq⟩ := q
    have hnd : kq ∉ keys st ∧ (keys st).Nodup := by simpa [keys] using h
    intro p hp
    have sub : ∀ k, k ∈ keys (st.filter (fun q => !q.2.live now)) → k ∈ keys st := by
      intro k hk
      simp only [keys, List.mem_map, List.mem_filter] at hk ⊢
      obtain ⟨a, ⟨ha, _⟩, rfl⟩ := hk
      exact ⟨a, ha, rfl⟩
    rcases List.mem_cons.mp hp with rfl | hp'
    · by_cases hl : eq.live now = true
      · simp only [List.filter_cons, hl, Bool.not_true, Bool.false_eq_true, if_false, iff_true]
        exact fun hm => hnd.1 (sub _ hm)
      · have hl' : eq.live now = false := by simpa using hl
        simp [hl', keys]
    · have hpk : p.1 ∈ keys st := by
        simp only [keys, List.mem_map]; exact ⟨p, hp', rfl⟩
      have hne : p.1 ≠ kq := fun he => hnd.1 (he ▸ hpk)
      by_cases hl : eq.live now = true
      · simp only [List.filter_cons, hl, Bool.not_true, Bool.false_eq_true, if_false]
        exact ih hnd.2 p hp'
      · have hl' : eq.live now = false := by simpa using hl
        simp only [List.filter_cons, hl', Bool.not_false, if_true, keys, List.map_cons, List.mem_cons, not_or]
        constructor
        · intro hh; exact (ih hnd.2 p hp').mp hh.2
        · intro hh; exact ⟨hne, (ih hnd.2 p hp').mpr hh⟩

theorem stale_block_eq_purge (s : Mem) (h : (keys s.store).Nodup) (r : List Ev) :
    s.runEv (s.expiredKeys.map .stale ++ r) = s.purge.runEv r := by
  rw [runEv_append, runEv_stale_block, foldl_erase_store, foldl_erase_eq_filter, purge_eq s h]
  have : s.store.filter (fun p => !decide (p.1 ∈ s.expiredKeys)) = s.store.filter (fun p => p.2.live s.now) := by
    apply List.filter_congr
    intro p hp
    have hiff := not_mem_expired_iff s.store s.now h p hp
    unfold expiredKeys
    by_cases hl : p.2.live s.now = true
    · simp [hl, hiff.mpr hl]
    · have hl' : p.2.live s.now = false := by simpa using hl
      have hm : p.1 ∈ keys (s.store.filter (fun q => !q.2.live s.now)) := by
        apply Classical.byContradiction
        intro hh; exact hl (hiff.mp hh)
      simp [hl', hm]
  rw [this]
  simp

/-! ### re-checking micro-steps are invisible to the ideal map wherever they fall -/

theorem good_runEv {K} (evs : List Ev) :
    ∀ {s : Mem} {t : TtlMap}, Good K s t → (∀ ev ∈ evs, ev.isStale = false ∧ ∀ k ∈ ev.keys, k ∈ K) →
    Good K (s.runEv evs).1 (t.run (Ev.cmds evs)).1 ∧ (s.runEv evs).2 = (t.run (Ev.cmds evs)).2 := by
  induction evs with
  | nil => intro s t g _; exact ⟨g, rfl⟩
  | cons ev r ih =>
    intro s t g hk
    have hr : ∀ ev' ∈ r, ev'.isStale = false ∧ ∀ k ∈ ev'.keys, k ∈ K := fun ev' h' => hk ev' (by simp [h'])
    cases ev with
    | cmd op =>
      have h1 := good_step g op (by simpa [Ev.keys] using (hk (.cmd op) (by simp)).2)
      have h2 := ih h1.1 hr
      simp only [runEv, Ev.cmds, TtlMap.run]
      exact ⟨h2.1, by rw [h1.2, h2.2]⟩
    | recheck k =>
      simp only [runEv, Ev.cmds]
      exact ih (good_rawGet g k).1 hr
    | stale k =>
      have := (hk (.stale k) (by simp)).1
      simp [Ev.isStale] at this

/-- the same at command granularity: ticks (atomic sweeps) anywhere -/
theorem good_runItems {K} (h : List Item) :
    ∀ {s : Mem} {t : TtlMap}, Good K s t → (∀ it ∈ h, ∀ k ∈ it.toOp.keys, k ∈ K) →
    Good K (s.runItems h).1 (t.run (Item.cmds h)).1 ∧ (s.runItems h).2 = (t.run (Item.cmds h)).2 := by
  induction h with
  | nil => intro s t g _; exact ⟨g, rfl⟩
  | cons it r ih =>
    intro s t g hk
    have hr : ∀ it' ∈ r, ∀ k ∈ it'.toOp.keys, k ∈ K := fun it' h' => hk it' (by simp [h'])
    cases it with
    | cmd op =>
      have h1 := good_step g op (by simpa [Item.toOp] using hk (.cmd op) (by simp))
      have h2 := ih h1.1 hr
      simp only [runItems, Item.cmds, TtlMap.run]
      exact ⟨h2.1, by rw [h1.2, h2.2]⟩
    | tick =>
      simp only [runItems, Item.cmds]
      exact ih (good_sweep _ g) hr

theorem run_append_state (a : List Op) : ∀ (s : Mem) (b : List Op),
    (s.run (a ++ b)).1 = ((s.run a).1.run b).1 := by
  induction a with
  | nil => intro s b; rfl
  | cons op a ih => intro s b; simp only [List.cons_append, run, ih]

end Mem
end CashewsVerif
