import CashewsVerif.Lemmas.TxProps
/-
The overlay and the pending deletes of a transaction evolve as a function of (overlay, pending deletes,
live view of the store's user keys) only — hence identically in the three modes.
-/
namespace CashewsVerif
open Store

namespace TxSt

/-- same private state -/
def SameOv (s1 s2 : TxSt) : Prop := s1.ov = s2.ov ∧ s1.del = s2.del

/-- same live view of the keys in `ks` -/
def SameB (s1 s2 : TxSt) (ks : List Key) : Prop := ∀ k ∈ ks, s1.b.view k = s2.b.view k

/-- `get_expire` of the in-memory store is a function of the live view -/
theorem getExpire_view (s : Mem) (k : Key) :
    s.getExpire k = (match s.view k with
      | none => -2
      | some e => match e.dl with
        | none => -1
        | some d => roundTicks (d - s.now)) := by
  unfold Mem.getExpire Mem.view
  cases hl : lookup s.store k with
  | none => simp
  | some e =>
    unfold Entry.live
    cases hd : e.dl with
    | none => simp [Option.filter, hd]
    | some d =>
      by_cases hdn : d ≤ s.now
      · have : ¬ s.now < d := Nat.not_lt.mpr hdn
        simp [Option.filter, hd, hdn, this]
      · have : s.now < d := Nat.lt_of_not_le hdn
        simp [Option.filter, hd, hdn, this]

theorem rawGet_out_congr {b1 b2 : Mem} {k : Key} (h : b1.view k = b2.view k) : (b1.rawGet k).2 = (b2.rawGet k).2 := by
  rw [Mem.rawGet_out, Mem.rawGet_out, h]

theorem exists_same {s1 s2 : TxSt} {k : Key} (h : SameOv s1 s2) (hb : s1.b.view k = s2.b.view k) :
    SameOv (s1.exists_ k).1 (s2.exists_ k).1 ∧ (s1.exists_ k).2 = (s2.exists_ k).2 ∧
    (∀ k', (s1.exists_ k).1.b.view k' = s1.b.view k') ∧ (∀ k', (s2.exists_ k).1.b.view k' = s2.b.view k') := by
  obtain ⟨h1, h2⟩ := h
  have hview : ∀ (s : TxSt) k', (s.exists_ k).1.b.view k' = s.b.view k' := by
    intro s k'
    unfold exists_; simp only
    split
    · rfl
    · split
      · rfl
      · exact Mem.rawGet_view _ _ _
  refine ⟨?_, ?_, hview s1, hview s2⟩
  · unfold exists_ SameOv; simp only
    rw [h1, h2, rawGet_out_congr hb]
    split
    · exact ⟨rfl, rfl⟩
    · split <;> exact ⟨rfl, rfl⟩
  · unfold exists_; simp only
    rw [h1, h2, rawGet_out_congr hb]
    split
    · rfl
    · split <;> rfl

theorem put_same {s1 s2 : TxSt} (h : SameOv s1 s2) (k : Key) (v : Val) (ttl : Option Nat) :
    SameOv (s1.put k v ttl) (s2.put k v ttl) := by
  obtain ⟨h1, h2⟩ := h
  exact ⟨by simp [put, h1], by simp [put, h2]⟩

theorem getMany_same (ks : List Key) : ∀ {s1 s2 : TxSt}, SameOv s1 s2 → SameB s1 s2 ks →
    SameOv (s1.getMany ks).1 (s2.getMany ks).1 ∧ (s1.getMany ks).2 = (s2.getMany ks).2 := by
  induction ks with
  | nil => intro s1 s2 h _; exact ⟨h, rfl⟩
  | cons k ks ih =>
    intro s1 s2 h hb
    obtain ⟨h1, h2⟩ := h
    have hk := hb k (by simp)
    unfold getMany
    rw [h1]
    cases hr : (s2.ov.rawGet k).2 with
    | some v =>
      simp only
      have := ih (s1 := { s1 with ov := (s2.ov.rawGet k).1 }) (s2 := { s2 with ov := (s2.ov.rawGet k).1 })
        ⟨rfl, h2⟩ (fun k' hk' => hb k' (by simp [hk']))
      exact ⟨this.1, by rw [this.2]⟩
    | none =>
      simp only
      have := ih (s1 := { s1 with ov := (s2.ov.rawGet k).1, b := (s1.b.rawGet k).1 })
        (s2 := { s2 with ov := (s2.ov.rawGet k).1, b := (s2.b.rawGet k).1 })
        ⟨rfl, h2⟩ (fun k' hk' => by
          show (s1.b.rawGet k).1.view k' = (s2.b.rawGet k).1.view k'
          rw [Mem.rawGet_view, Mem.rawGet_view]; exact hb k' (by simp [hk']))
      exact ⟨this.1, by rw [this.2, h2, rawGet_out_congr hk]⟩

/-- the base method: private state and answer are determined by private state and the store's view of the
command's keys -/
theorem baseStep_same {s1 s2 : TxSt} (op : Op) (h : SameOv s1 s2) (hb : SameB s1 s2 op.keys)
    (hnow : s1.b.now = s2.b.now) :
    SameOv (s1.baseStep op).1 (s2.baseStep op).1 ∧ (s1.baseStep op).2 = (s2.baseStep op).2 := by
  obtain ⟨h1, h2⟩ := h
  cases op with
  | set k v ttl c =>
    have hk := hb k (by simp [Op.keys])
    have he := exists_same ⟨h1, h2⟩ hk
    cases c with
    | always => exact ⟨put_same ⟨h1, h2⟩ k v ttl, rfl⟩
    | nx =>
      simp only [baseStep, set]
      rw [he.2.1]
      split
      · exact ⟨he.1, rfl⟩
      · exact ⟨put_same he.1 k v ttl, rfl⟩
    | xx =>
      simp only [baseStep, set]
      rw [he.2.1]
      split
      · exact ⟨put_same he.1 k v ttl, rfl⟩
      · exact ⟨he.1, rfl⟩
  | setMany kvs ttl =>
    refine ⟨?_, rfl⟩
    simp only [baseStep, setMany]
    have : ∀ (kvs : List (Key × Val)) (s1 s2 : TxSt), SameOv s1 s2 →
        SameOv (kvs.foldl (fun s kv => s.put kv.1 kv.2 ttl) s1) (kvs.foldl (fun s kv => s.put kv.1 kv.2 ttl) s2) := by
      intro kvs; induction kvs with
      | nil => intro s1 s2 h; exact h
      | cons kv kvs ih => intro s1 s2 h; simp only [List.foldl_cons]; exact ih _ _ (put_same h _ _ _)
    exact this kvs s1 s2 ⟨h1, h2⟩
  | get k =>
    have hk := hb k (by simp [Op.keys])
    simp only [baseStep, get]
    rw [h1, h2]
    split
    · exact ⟨⟨h1, h2⟩, rfl⟩
    · cases (s2.ov.rawGet k).2 with
      | some v => exact ⟨⟨rfl, rfl⟩, rfl⟩
      | none => exact ⟨⟨rfl, rfl⟩, by simp only; rw [rawGet_out_congr hk]⟩
  | getMany ks =>
    have := getMany_same ks ⟨h1, h2⟩ (fun k hk => hb k (by simpa [Op.keys] using hk))
    simp only [baseStep]
    exact ⟨this.1, by rw [this.2]⟩
  | exists_ k =>
    have he := exists_same ⟨h1, h2⟩ (hb k (by simp [Op.keys]))
    simp only [baseStep]
    exact ⟨he.1, by rw [he.2.1]⟩
  | incr k by_ ttl =>
    have hk := hb k (by simp [Op.keys])
    have hseed : SameOv (s1.seed k) (s2.seed k) := by
      unfold seed
      rw [h1, h2, rawGet_out_congr hk]
      split
      · exact ⟨rfl, rfl⟩
      · exact ⟨rfl, rfl⟩
    simp only [baseStep, incr]
    rw [hseed.1, hseed.2]
    exact ⟨⟨rfl, rfl⟩, rfl⟩
  | delete k => exact ⟨⟨by simp [baseStep, delete, h1], by simp [baseStep, delete, h2]⟩, rfl⟩
  | deleteMany ks =>
    refine ⟨?_, rfl⟩
    simp only [baseStep, deleteMany]
    have : ∀ (ks : List Key) (s1 s2 : TxSt), SameOv s1 s2 → SameOv (ks.foldl delete s1) (ks.foldl delete s2) := by
      intro ks; induction ks with
      | nil => intro s1 s2 h; exact h
      | cons k ks ih =>
        intro s1 s2 h; simp only [List.foldl_cons]
        exact ih _ _ ⟨by simp [delete, h.1], by simp [delete, h.2]⟩
    exact this ks s1 s2 ⟨h1, h2⟩
  | expire k ttl =>
    have hk := hb k (by simp [Op.keys])
    refine ⟨?_, rfl⟩
    simp only [baseStep, expire]
    rw [h1, h2, rawGet_out_congr hk]
    split
    · exact ⟨h1, h2⟩
    · split
      · exact ⟨rfl, rfl⟩
      · split <;> exact ⟨rfl, rfl⟩
  | getExpire k =>
    have hk := hb k (by simp [Op.keys])
    refine ⟨⟨h1, h2⟩, ?_⟩
    simp only [baseStep, getExpire]
    rw [h1, h2]
    have : s1.b.getExpire k = s2.b.getExpire k := by
      rw [getExpire_view, getExpire_view, hk, hnow]
    rw [this]
  | clear => exact ⟨⟨by simp [baseStep, clear, h1], by simp [baseStep, clear]⟩, rfl⟩
  | adv dt => exact ⟨⟨by simp [baseStep, h1], h2⟩, rfl⟩
  | purge => exact ⟨⟨h1, h2⟩, rfl⟩

variable {K : List Key} {P : Option Time → Prop}

/-- one command: two transactions with the same private state, both refining the same abstract state
(whatever their modes and lock ids), keep the same private state -/
theorem step_same {s1 s2 : TxSt} {a : ATx} {t1 t2 : TtlMap} (r1 : TxRef K P s1 a t1) (r2 : TxRef K P s2 a t2)
    (h : SameOv s1 s2) (op : Op) (hop : OpOk K op) : SameOv (s1.step op).1 (s2.step op).1 := by
  have hl := fun (s : TxSt) k hk => (⟨(hop.1 k (writeKeys_subset op k hk)).2, hop.2.1 k hk s.mode⟩ :
    reserved k = false ∧ lockKey s.mode k ∈ K)
  obtain ⟨t1', r1', ok1⟩ := lockAll_refines (writeKeys op) r1 (hl s1)
  obtain ⟨t2', r2', ok2⟩ := lockAll_refines (writeKeys op) r2 (hl s2)
  have p1 := lockAll_proj (writeKeys op) s1
  have p2 := lockAll_proj (writeKeys op) s2
  have hs : SameOv (s1.lockAll (writeKeys op)).1 (s2.lockAll (writeKeys op)).1 :=
    ⟨by rw [p1.1, p2.1, h.1], by rw [p1.2.1, p2.2.1, h.2]⟩
  have hb : SameB (s1.lockAll (writeKeys op)).1 (s2.lockAll (writeKeys op)).1 op.keys := by
    intro k hk
    have hu := (hop.1 k hk).2
    rw [r1'.b.ref.2 k, r2'.b.ref.2 k, r1'.user k hu, r2'.user k hu]
  have hnow : (s1.lockAll (writeKeys op)).1.b.now = (s2.lockAll (writeKeys op)).1.b.now := by
    rw [r1'.b.ref.1, r2'.b.ref.1, r1'.bnow, r2'.bnow]
  unfold step
  simp only [ok1, ok2, if_true]
  exact (baseStep_same op hs hb hnow).1

theorem run_same (hP0 : P none) (ops : List Op) : ∀ {s1 s2 : TxSt} {a : ATx} {t1 t2 : TtlMap},
    TxRef K P s1 a t1 → TxRef K P s2 a t2 → a.Wf → SameOv s1 s2 → (∀ op ∈ ops, OpOk K op) →
    TtlsOk P a.b.now ops → SameOv (s1.run ops).1 (s2.run ops).1 := by
  induction ops with
  | nil => intro s1 s2 a t1 t2 _ _ _ h _ _; exact h
  | cons op ops ih =>
    intro s1 s2 a t1 t2 r1 r2 hw h hok ht
    have hop := hok op (by simp)
    have hn1 : s1.ov.now = a.b.now := by rw [r1.ov.ref.1, hw.clock]
    have hn2 : s2.ov.now = a.b.now := by rw [r2.ov.ref.1, hw.clock]
    obtain ⟨t1', r1', _⟩ := step_refines r1 op hop.1 (fun k hk => hop.2.1 k hk s1.mode) hP0 (by rw [hn1]; exact ht.1)
    obtain ⟨t2', r2', _⟩ := step_refines r2 op hop.1 (fun k hk => hop.2.1 k hk s2.mode) hP0 (by rw [hn2]; exact ht.1)
    have hw1 := ATx.wf_step hw op (opOk_user hop)
    have hb1 : (a.step op).1.b.now = a.b.now + op.dt := by rw [ATx.step_b a op hop.2.2]
    simp only [run]
    exact ih r1' r2' hw1 (step_same r1 r2 h op hop) (fun op' h' => hok op' (by simp [h'])) (by rw [hb1]; exact ht.2)

end TxSt

/-- overlay and pending deletes after any run do not depend on the mode, the lock id or the timeout -/
theorem sameOv_reach {K b ops} (h : TxSetup K b ops) (m1 m2 : TxMode) (id1 id2 t1 t2 : Nat) :
    TxSt.SameOv ((TxSt.begin_ b m1 id1 t1).run ops).1 ((TxSt.begin_ b m2 id2 t2).run ops).1 :=
  TxSt.run_same (P := fun _ => True) trivial ops
    (TxSt.begin_refines h.within h.fits h.fitsOv h.free m1 id1 t1)
    (TxSt.begin_refines h.within h.fits h.fitsOv h.free m2 id2 t2)
    (ATx.wf_begin _) ⟨rfl, rfl⟩ h.ops (ttlsOk_true ops _)

end CashewsVerif
