import CashewsVerif.Lemmas.TxSchedLocks
import CashewsVerif.Spec.TxBody
/- Own writes only: the step machine (parking, locking, sleeping) computes the sequential meaning of the body. -/
namespace CashewsVerif.TxSched

def Task.bst (t : Task) : BodySt :=
  { ov := t.ov, del := t.del, results := t.results, done := t.cmuts, pend := t.pend, cinc := t.cinc }

/-- the spec is compositional: a part that ran to its end on exactly the reads `rd` can be continued -/
theorem specBody_append (p q : List Cmd) (fr : List (Option Int)) :
    ∀ (rd : List (Option Int)) (s s' : BodySt), specBody p rd s = .normal s' [] →
      specBody (p ++ q) (rd ++ fr) s = specBody q fr s' := by
  induction p with
  | nil =>
    intro rd s s' h
    simp only [specBody, BodyRes.normal.injEq] at h
    obtain ⟨rfl, rfl⟩ := h
    rfl
  | cons c r ih =>
    intro rd s s' h
    cases c <;> simp only [specBody, List.cons_append] at h ⊢
    case set k v => exact ih _ _ _ h
    case incr k n =>
      cases hg : s.ov.get k with
      | some v => simp only [hg] at h ⊢; exact ih _ _ _ h
      | none =>
        simp only [hg] at h ⊢
        by_cases hd : k ∈ s.del
        · simp only [hd, if_true] at h ⊢; exact ih _ _ _ h
        · simp only [hd, if_false] at h ⊢
          cases rd with
          | nil => simp at h
          | cons x rd' => simp only [List.cons_append] at h ⊢; exact ih _ _ _ h
    case get k =>
      by_cases hd : k ∈ s.del
      · simp only [hd, if_true] at h ⊢; exact ih _ _ _ h
      · simp only [hd, if_false] at h ⊢
        cases hg : s.ov.get k with
        | some v => simp only [hg] at h ⊢; exact ih _ _ _ h
        | none =>
          simp only [hg] at h ⊢
          cases rd with
          | nil => simp at h
          | cons x rd' => simp only [List.cons_append] at h ⊢; exact ih _ _ _ h
    case delete k => exact ih _ _ _ h
    case expire k =>
      by_cases hd : k ∈ s.del
      · simp only [hd, if_true] at h ⊢; exact ih _ _ _ h
      · simp only [hd, if_false] at h ⊢
        cases hg : s.ov.get k with
        | some v => simp only [hg] at h ⊢; exact ih _ _ _ h
        | none =>
          simp only [hg] at h ⊢
          cases rd with
          | nil => simp at h
          | cons x rd' =>
            cases x with
            | none => simp only [List.cons_append] at h ⊢; exact ih _ _ _ h
            | some v => simp only [List.cons_append] at h ⊢; exact ih _ _ _ h
    case setx k v e =>
      cases hg : s.ov.get k with
      | some v0 => simp only [hg] at h ⊢; exact ih _ _ _ h
      | none =>
        simp only [hg] at h ⊢
        by_cases hd : k ∈ s.del
        · simp only [hd, if_true] at h ⊢; exact ih _ _ _ h
        · simp only [hd, if_false] at h ⊢
          cases rd with
          | nil => simp at h
          | cons x rd' => simp only [List.cons_append] at h ⊢; exact ih _ _ _ h
    case sleep d => exact ih _ _ _ h
    case raise b => simp at h
    case nestIn f => exact ih _ _ _ h
    case nestOut => exact ih _ _ _ h
    case commit => exact ih _ _ _ h
    case rollback => exact ih _ _ _ h

/-- "the task has so far done what the spec does": its program is `p ++ rem`, and the spec run of the executed part `p`
on the reads so far ends in the task's buffer, results and ghosts -/
def Pre (p0 rem : List Cmd) (t : Task) : Prop :=
  ∃ p, p0 = p ++ rem ∧ specBody p t.reads {} = .normal t.bst []

/-- the body stopped before its end, at `rest` (of which `Q` holds): only its explicit commits reached the store -/
def Stopped (p0 : List Cmd) (reads : List (Option Int)) (mine : List Mut) (cinc : List (Nat × Int))
    (Q : List Cmd → Prop) : Prop :=
  ∃ p rest s, p0 = p ++ rest ∧ Q rest ∧ specBody p reads {} = .normal s [] ∧ mine = s.done ∧ cinc = s.cinc

/-- what must hold when a task is done, by outcome (`mine` = the store mutations made by its steps, `cinc` = its
increments made durable) -/
def Done (p0 : List Cmd) (reads : List (Option Int)) (mine : List Mut) (cinc : List (Nat × Int)) : Outcome → Prop
  | .returned rs => ∃ s, specBody p0 reads {} = .normal s [] ∧ rs = s.results ∧ mine = s.done ++ commitMuts s ∧
      cinc = s.cinc ++ s.pend
  | .raised e => specBody p0 reads {} = .raised ∧ Stopped p0 reads mine cinc (fun rest => ∃ r, rest = .raise e :: r)
  | .raisedLocked => Stopped p0 reads mine cinc (fun _ => True)
  | .cancelled => Stopped p0 reads mine cinc (fun _ => True)

/-- the invariant of a parked task inside its transaction; `mine` = the store mutations its steps made so far -/
def OWpark (p0 : List Cmd) (t : Task) (mine : List Mut) : Prop :=
  match t.pc with
  | .lockTry _ _ => mine = t.cmuts ∧ Pre p0 t.prog t
  | .lockSleep _ _ _ => mine = t.cmuts ∧ Pre p0 t.prog t
  | .bodySleep _ => mine = t.cmuts ∧ Pre p0 t.prog t
  | .seedGet k n => mine = t.cmuts ∧ Pre p0 (.incr k n :: t.prog) t ∧ t.ov.get k = none ∧ k ∉ t.del
  | .readGet k => mine = t.cmuts ∧ Pre p0 (.get k :: t.prog) t ∧ t.ov.get k = none ∧ k ∉ t.del
  | .expGet k => mine = t.cmuts ∧ Pre p0 (.expire k :: t.prog) t ∧ t.ov.get k = none ∧ k ∉ t.del
  | .existsGet k v e => mine = t.cmuts ∧ Pre p0 (.setx k v e :: t.prog) t ∧ t.ov.get k = none ∧ k ∉ t.del
  | .commitDel => mine = t.cmuts ∧ specBody p0 t.reads {} = .normal t.bst [] ∧ t.del ≠ []
  | .commitSet => mine = t.cmuts ++ (if t.del ≠ [] then [Mut.delMany t.del] else []) ∧
      specBody p0 t.reads {} = .normal t.bst [] ∧ t.ov ≠ []
  | .unlocking _ o => Done p0 t.reads mine t.cinc o
  | .finished o => Done p0 t.reads mine t.cinc o
  | .midDel => mine = t.cmuts ∧ Pre p0 (.commit :: t.prog) t ∧ t.del ≠ []
  | .midSet => mine = t.cmuts ++ (if t.del ≠ [] then [Mut.delMany t.del] else []) ∧ Pre p0 (.commit :: t.prog) t ∧ t.ov ≠ []
  | .midUnlock _ => mine = t.cmuts ∧ Pre p0 t.prog t
  | .start => False
  | .direct _ => False

theorem bst_setxApply (t : Task) (k : Nat) (v : Int) (e p : Bool) :
    (setxApply t k v e p).bst = setxSpec t.bst k v e p ∧ (setxApply t k v e p).reads = t.reads := by
  unfold setxApply setxSpec
  split <;> simp [Task.bst]

theorem spec_localCmd {t t' : Task} {c : Cmd} (hc : t.ctx = true) (hl : localCmd t c = some t') (rest : List Cmd)
    (fr : List (Option Int)) :
    specBody (c :: rest) fr t.bst = specBody rest fr t'.bst ∧ t'.reads = t.reads ∧ t'.cmuts = t.cmuts := by
  cases c <;> simp only [localCmd] at hl
  case set k v => split at hl <;> simp at hl; subst hl; simp [specBody, Task.bst]
  case incr k n =>
    split at hl
    · split at hl
      · rename_i v hv
        simp at hl; subst hl; simp [specBody, Task.bst, hv]
      · rename_i hv
        split at hl <;> simp at hl
        subst hl
        rename_i hd
        simp [specBody, Task.bst, hv, hd]
    · simp at hl
  case get k =>
    rw [if_pos hc] at hl
    split at hl
    · rename_i hd
      simp at hl; subst hl; simp [specBody, Task.bst, hd]
    · rename_i hd
      split at hl <;> simp at hl
      subst hl
      rename_i v hv
      simp [specBody, Task.bst, hd, hv]
  case delete k => split at hl <;> simp at hl; subst hl; simp [specBody, Task.bst]
  case expire k =>
    split at hl
    · split at hl
      · rename_i hd
        simp at hl; subst hl; simp [specBody, Task.bst, hd]
      · rename_i hd
        split at hl <;> simp at hl
        subst hl
        rename_i v hv
        simp [specBody, Task.bst, hd, hv]
    · simp at hl
  case setx k v e =>
    split at hl
    · split at hl
      · rename_i v0 hv
        simp at hl; subst hl
        have b := bst_setxApply t k v e true
        rw [b.1, b.2]
        have hv' : t.bst.ov.get k = some v0 := hv
        refine ⟨by simp [specBody, hv'], rfl, ?_⟩
        unfold setxApply; split <;> rfl
      · rename_i hv
        split at hl <;> simp at hl
        subst hl
        rename_i hd
        have b := bst_setxApply t k v e false
        rw [b.1, b.2]
        have hv' : t.bst.ov.get k = none := hv
        have hd' : k ∈ t.bst.del := hd
        refine ⟨by simp [specBody, hv', hd'], rfl, ?_⟩
        unfold setxApply; split <;> rfl
    · simp at hl
  case sleep d => simp at hl
  case raise b => simp at hl
  case nestIn f => simp at hl; subst hl; simp [specBody, Task.bst]
  case nestOut => simp at hl; subst hl; simp [specBody, Task.bst]
  case commit =>
    rw [if_pos hc] at hl
    split at hl <;> simp at hl
    subst hl
    rename_i hcond
    simp [specBody, Task.bst, hcond.1, hcond.2.1, commitMutsOf]
  case rollback =>
    rw [if_pos hc] at hl
    split at hl <;> simp at hl
    subst hl
    simp [specBody, Task.bst]

/-- one more command of the body has been executed: `t1` is the task afterwards, `fr` what its backend read returned -/
theorem Pre_extend {p0 : List Cmd} {c : Cmd} {rest : List Cmd} {t t1 : Task} (h : Pre p0 (c :: rest) t)
    (fr : List (Option Int)) (hs : specBody [c] fr t.bst = .normal t1.bst []) (hr : t1.reads = t.reads ++ fr) :
    Pre p0 rest t1 := by
  obtain ⟨p, hp, hsp⟩ := h
  refine ⟨p ++ [c], by simp [hp], ?_⟩
  rw [hr, specBody_append p [c] fr _ _ _ hsp]
  exact hs

theorem Pre_localCmd {p0 : List Cmd} {c : Cmd} {rest : List Cmd} {t t' : Task} (hc : t.ctx = true)
    (h : Pre p0 (c :: rest) t) (hl : localCmd t c = some t') : Pre p0 rest t' := by
  have g := spec_localCmd hc hl [] []
  refine Pre_extend h [] ?_ (by simp [g.2.1])
  rw [g.1]; rfl

theorem Pre_end {p0 : List Cmd} {t : Task} (h : Pre p0 [] t) : specBody p0 t.reads {} = .normal t.bst [] := by
  obtain ⟨p, hp, hsp⟩ := h
  simpa [hp] using hsp

theorem Pre_raise {p0 : List Cmd} {b : Exc} {rest : List Cmd} {t : Task} (h : Pre p0 (.raise b :: rest) t) :
    specBody p0 t.reads {} = .raised := by
  obtain ⟨p, hp, hsp⟩ := h
  have := specBody_append p (.raise b :: rest) [] _ _ _ hsp
  rw [hp]
  simpa [specBody] using this

theorem Pre_stopped {p0 rem : List Cmd} {t : Task} (h : Pre p0 rem t) {Q : List Cmd → Prop} (hq : Q rem) :
    Stopped p0 t.reads t.cmuts t.cinc Q := by
  obtain ⟨p, hp, hsp⟩ := h
  exact ⟨p, rem, t.bst, hp, hq, hsp, rfl, rfl⟩

/-- a task whose only change is its stale `pc` / `prog` (and locks) -/
theorem Pre_congr {p0 rem : List Cmd} {t t' : Task} (h : Pre p0 rem t) (hb : t'.bst = t.bst) (hr : t'.reads = t.reads) :
    Pre p0 rem t' := by
  obtain ⟨p, hp, hsp⟩ := h
  exact ⟨p, hp, by rw [hr, hb]; exact hsp⟩

theorem abort_keeps (t : Task) (o : Outcome) :
    (abort t o).reads = t.reads ∧ (abort t o).cmuts = t.cmuts ∧ (abort t o).cinc = t.cinc := by
  unfold abort; split <;> simp

/-- interrupted (LockedError, cancellation): only the explicit commits so far reached the store -/
theorem OWpark_abort_stop {p0 rem : List Cmd} {t : Task} {mine : List Mut} (hm : mine = t.cmuts) (h : Pre p0 rem t)
    (o : Outcome) (ho : o = .raisedLocked ∨ o = .cancelled) : OWpark p0 (abort t o) mine := by
  have hs := Pre_stopped h (Q := fun _ => True) trivial
  have k := abort_keeps t o
  have hd : Done p0 (abort t o).reads mine (abort t o).cinc o := by
    rw [k.1, k.2.2, hm]
    rcases ho with rfl | rfl <;> exact hs
  unfold abort at hd ⊢
  split <;> simp_all [OWpark]

theorem OWpark_abort_body {p0 : List Cmd} {b : Exc} {rest : List Cmd} {t : Task} {mine : List Mut}
    (hm : mine = t.cmuts) (h : Pre p0 (.raise b :: rest) t) :
    OWpark p0 (abort t (.raised b)) mine := by
  have hs := Pre_stopped h (Q := fun r => ∃ r', r = .raise b :: r') ⟨rest, rfl⟩
  have hr := Pre_raise h
  have k := abort_keeps t (.raised b)
  have hd : Done p0 (abort t (.raised b)).reads mine (abort t (.raised b)).cinc (.raised b) := by
    rw [k.1, k.2.2, hm]
    exact ⟨hr, hs⟩
  unfold abort at hd ⊢
  split <;> simp_all [OWpark]

theorem OWpark_afterCommit {p0 : List Cmd} {t : Task} {mine : List Mut}
    (h : specBody p0 t.reads {} = .normal t.bst []) (hm : mine = t.cmuts ++ commitMuts t.bst) :
    OWpark p0 (afterCommit t) mine := by
  unfold afterCommit; split <;> simp only [OWpark, Done] <;> exact ⟨t.bst, h, rfl, hm, rfl⟩

theorem OWpark_lockOrFail {p0 : List Cmd} {t : Task} {k : Nat} {prog : List Cmd} {mine : List Mut}
    (hm : mine = t.cmuts) (h : Pre p0 prog t) : OWpark p0 (lockOrFail t k prog) mine := by
  unfold lockOrFail
  split
  · exact OWpark_abort_stop hm h _ (Or.inl rfl)
  · simp only [OWpark]; exact ⟨hm, Pre_congr h rfl rfl⟩

theorem OWpark_settle {p0 : List Cmd} (now : Nat) (prog : List Cmd) (t : Task) {mine : List Mut} (hc : t.ctx = true)
    (hm : mine = t.cmuts) (h : Pre p0 prog t) : OWpark p0 (settle now prog t) mine := by
  refine settle_ind (R := fun rem t => t.ctx = true ∧ mine = t.cmuts ∧ Pre p0 rem t) (P := fun t' => OWpark p0 t' mine) now
    ?_ ?_ ?_ prog t ⟨hc, hm, h⟩
  · intro t c rest t' ⟨hc, hm, h⟩ hl
    exact ⟨(localCmd_frame hl).2.2.2.2.1.trans hc, hm.trans (spec_localCmd hc hl [] []).2.2.symm, Pre_localCmd hc h hl⟩
  · intro t ⟨hc, hm, h⟩
    have h0 := Pre_end h
    unfold endOfProg
    rw [if_pos hc]
    split
    · rename_i hd
      simp only [OWpark]; exact ⟨hm, h0, hd⟩
    · rename_i hd
      split
      · rename_i ho
        simp only [OWpark]
        refine ⟨?_, h0, ho⟩
        simp at hd; simp [hd, hm]
      · rename_i ho
        refine OWpark_afterCommit (t := { t with prog := [] }) h0 ?_
        simp at hd ho
        simp [commitMuts, commitMutsOf, Task.bst, hd, ho, hm]
  · intro t c rest ⟨hc, hm, h⟩ hl
    cases c <;> simp only [park] <;> (try rw [if_pos hc])
    case sleep d =>
      simp only [OWpark]
      refine ⟨hm, Pre_congr (t := { t with prog := rest }) ?_ rfl rfl⟩
      exact Pre_extend h [] (by simp [specBody, Task.bst]) (by simp)
    case raise b => exact OWpark_abort_body hm h
    case set k v => exact OWpark_lockOrFail hm h
    case delete k => exact OWpark_lockOrFail hm h
    case incr k n =>
      split
      · rename_i hh
        simp only [localCmd, hc, hh, Bool.and_self, if_true] at hl
        simp only [OWpark]
        refine ⟨hm, Pre_congr h rfl rfl, ?_, ?_⟩
        · cases hg : t.ov.get k with
          | none => rfl
          | some v => simp [hg] at hl
        · intro hd
          cases hg : t.ov.get k with
          | none => simp [hg, hd] at hl
          | some v => simp [hg] at hl
      · exact OWpark_lockOrFail hm h
    case get k =>
      simp only [localCmd, hc, if_true] at hl
      simp only [OWpark]
      refine ⟨hm, Pre_congr h rfl rfl, ?_, ?_⟩
      · by_cases hd : k ∈ t.del
        · simp [hd] at hl
        · cases hg : t.ov.get k with
          | none => rfl
          | some v => simp [hd, hg] at hl
      · intro hd; simp [hd] at hl
    case expire k =>
      split
      · rename_i hh
        simp only [localCmd, hc, hh, Bool.and_self, if_true] at hl
        simp only [OWpark]
        refine ⟨hm, Pre_congr h rfl rfl, ?_, ?_⟩
        · by_cases hd : k ∈ t.del
          · simp [hd] at hl
          · cases hg : t.ov.get k with
            | none => rfl
            | some v => simp [hd, hg] at hl
        · intro hd; simp [hd] at hl
      · exact OWpark_lockOrFail hm h
    case setx k v e =>
      split
      · rename_i hh
        simp only [localCmd, hc, hh, Bool.and_self, if_true] at hl
        simp only [OWpark]
        refine ⟨hm, Pre_congr h rfl rfl, ?_, ?_⟩
        · cases hg : t.ov.get k with
          | none => rfl
          | some v => simp [hg] at hl
        · intro hd
          cases hg : t.ov.get k with
          | none => simp [hg, hd] at hl
          | some v => simp [hg] at hl
      · exact OWpark_lockOrFail hm h
    case nestIn f => simp [localCmd] at hl
    case nestOut => simp [localCmd] at hl
    case commit =>
      split
      · rename_i hd
        simp only [OWpark]; exact ⟨hm, Pre_congr h rfl rfl, hd⟩
      · rename_i hd
        split
        · rename_i ho
          simp only [OWpark]
          refine ⟨?_, Pre_congr h rfl rfl, ho⟩
          simp at hd; simp [hd, hm]
        · rename_i ho
          have hd' : t.del = [] := by simpa using hd
          have ho' : t.ov = [] := by simpa using ho
          simp only [OWpark]
          refine ⟨hm, ?_⟩
          refine Pre_extend h [] ?_ (by simp)
          simp [specBody, Task.bst, hd', ho', commitMutsOf]
    case rollback =>
      simp only [OWpark]
      refine ⟨hm, ?_⟩
      refine Pre_extend h [] ?_ (by simp)
      simp [specBody, Task.bst]

/-- an explicit `tx.commit()` has issued its backend commands -/
theorem OWpark_afterMid {p0 : List Cmd} (now : Nat) {t : Task} {mine : List Mut} (hc : t.ctx = true)
    (hm : mine = t.cmuts ++ commitMutsOf t.ov t.del) (h : Pre p0 (.commit :: t.prog) t) :
    OWpark p0 (afterMid now t) mine := by
  have hp : ∀ t1 : Task, t1.bst = (⟨[], [], t.results, t.cmuts ++ commitMutsOf t.ov t.del, [], t.cinc ++ t.pend⟩ : BodySt) →
      t1.reads = t.reads → Pre p0 t.prog t1 := by
    intro t1 hb hr
    refine Pre_extend h [] ?_ (by simp [hr])
    rw [hb]; simp [specBody, Task.bst]
  unfold afterMid
  split
  · exact OWpark_settle now _ _ hc hm (hp _ rfl rfl)
  · simp only [OWpark]
    exact ⟨hm, hp _ rfl rfl⟩

theorem taskStep_isTx (tid now : Nat) (store : Store) (lock : Locks) (t : Task) :
    (taskStep tid now store lock t).task.isTx = t.isTx ∧
    (t.ctx = true → (taskStep tid now store lock t).task.ctx = true) := by
  cases hpc : t.pc
  case start =>
    cases htx : t.isTx
    · rw [taskStep_start_plain _ _ _ _ _ hpc htx]
      exact ⟨(Frame_settle _ _ _).isTx.trans htx, fun hc => (Frame_settle _ _ _).ctx.trans hc⟩
    · rw [taskStep_start_tx _ _ _ _ _ hpc htx]
      exact ⟨(Frame_settle _ _ _).isTx.trans htx, fun _ => (Frame_settle _ _ _).ctx⟩
  case lockTry k left =>
    cases hf : lockFree lock (lockKeyOf t.mode k) now
    · rw [taskStep_lockTry_busy _ _ _ _ _ hpc hf]; exact ⟨rfl, id⟩
    · rw [taskStep_lockTry_free _ _ _ _ _ hpc hf]
      exact ⟨(Frame_settle _ _ _).isTx, fun hc => (Frame_settle _ _ _).ctx.trans hc⟩
  case lockSleep k left w => rw [taskStep_lockSleep _ _ _ _ _ hpc]; exact ⟨rfl, id⟩
  case bodySleep w => rw [taskStep_bodySleep _ _ _ _ _ hpc]; exact ⟨rfl, id⟩
  case finished o => rw [taskStep_finished _ _ _ _ _ hpc]; exact ⟨rfl, id⟩
  case seedGet k n =>
    rw [taskStep_seedGet _ _ _ _ _ hpc]
    exact ⟨(Frame_settle _ _ _).isTx, fun hc => (Frame_settle _ _ _).ctx.trans hc⟩
  case readGet k =>
    rw [taskStep_readGet _ _ _ _ _ hpc]
    exact ⟨(Frame_settle _ _ _).isTx, fun hc => (Frame_settle _ _ _).ctx.trans hc⟩
  case expGet k =>
    rw [taskStep_expGet _ _ _ _ _ hpc]
    exact ⟨(Frame_settle_expBuffer _ _ _ _).isTx, fun hc => (Frame_settle_expBuffer _ _ _ _).ctx.trans hc⟩
  case existsGet k v e =>
    rw [taskStep_existsGet _ _ _ _ _ hpc]
    exact ⟨(Frame_settle_setx _ _ _ _ _ _ _).isTx, fun hc => (Frame_settle_setx _ _ _ _ _ _ _).ctx.trans hc⟩
  case direct c =>
    rw [taskStep_direct _ _ _ _ _ hpc]
    cases c <;> simp only [directStep]
    case setx k v e => exact ⟨(Frame_settle _ _ _).isTx, fun hc => (Frame_settle _ _ _).ctx.trans hc⟩
    case expire k => exact ⟨(Frame_settle _ _ _).isTx, fun hc => (Frame_settle _ _ _).ctx.trans hc⟩
    case set k v => exact ⟨(Frame_settle _ _ _).isTx, fun hc => (Frame_settle _ _ _).ctx.trans hc⟩
    case incr k n => exact ⟨(Frame_settle _ _ _).isTx, fun hc => (Frame_settle _ _ _).ctx.trans hc⟩
    case get k => exact ⟨(Frame_settle _ _ _).isTx, fun hc => (Frame_settle _ _ _).ctx.trans hc⟩
    case delete k => exact ⟨(Frame_settle _ _ _).isTx, fun hc => (Frame_settle _ _ _).ctx.trans hc⟩
    all_goals exact ⟨trivial, id⟩
  case commitDel =>
    rw [taskStep_commitDel _ _ _ _ _ hpc]
    dsimp only
    split
    · exact ⟨rfl, id⟩
    · exact ⟨(Frame_afterCommit _).isTx, fun hc => (Frame_afterCommit _).ctx.trans hc⟩
  case commitSet =>
    rw [taskStep_commitSet _ _ _ _ _ hpc]
    exact ⟨(Frame_afterCommit _).isTx, fun hc => (Frame_afterCommit _).ctx.trans hc⟩
  case unlocking ls o =>
    cases ls with
    | nil => rw [taskStep_unlocking_nil _ _ _ _ _ hpc]; exact ⟨rfl, id⟩
    | cons l rest => rw [taskStep_unlocking_cons _ _ _ _ _ hpc]; exact ⟨rfl, id⟩
  case midDel =>
    rw [taskStep_midDel _ _ _ _ _ hpc]
    dsimp only
    split
    · exact ⟨rfl, id⟩
    · exact ⟨(Frame_afterMid _ _).isTx, fun hc => (Frame_afterMid _ _).ctx.trans hc⟩
  case midSet =>
    rw [taskStep_midSet _ _ _ _ _ hpc]
    exact ⟨(Frame_afterMid _ _).isTx, fun hc => (Frame_afterMid _ _).ctx.trans hc⟩
  case midUnlock ls =>
    cases ls with
    | nil =>
      rw [taskStep_midUnlock_nil _ _ _ _ _ hpc]
      exact ⟨(Frame_settle _ _ _).isTx, fun hc => (Frame_settle _ _ _).ctx.trans hc⟩
    | cons l rest =>
      rw [taskStep_midUnlock_cons _ _ _ _ _ hpc]
      dsimp only
      split
      · exact ⟨(Frame_settle _ _ _).isTx, fun hc => (Frame_settle _ _ _).ctx.trans hc⟩
      · exact ⟨rfl, id⟩

/-- one step of a task inside its transaction keeps the invariant; `mine` grows by the step's mutations -/
theorem OW_taskStep {p0 : List Cmd} {t : Task} {mine : List Mut} (hc : t.ctx = true) (h : OWpark p0 t mine)
    (tid now : Nat) (store : Store) (lock : Locks) :
    OWpark p0 (taskStep tid now store lock t).task (mine ++ (taskStep tid now store lock t).muts) := by
  cases hpc : t.pc <;> simp only [OWpark, hpc] at h
  case lockTry k left =>
    obtain ⟨hm, hcont⟩ := h
    cases hf : lockFree lock (lockKeyOf t.mode k) now
    · rw [taskStep_lockTry_busy _ _ _ _ _ hpc hf]
      simp only [OWpark, List.append_nil]; exact ⟨hm, Pre_congr hcont rfl rfl⟩
    · rw [taskStep_lockTry_free _ _ _ _ _ hpc hf]
      simp only [List.append_nil]
      exact OWpark_settle now _ _ hc hm (Pre_congr hcont rfl rfl)
  case lockSleep k left w =>
    rw [taskStep_lockSleep _ _ _ _ _ hpc]
    simp only [OWpark, hpc, List.append_nil]; exact h
  case bodySleep w =>
    rw [taskStep_bodySleep _ _ _ _ _ hpc]
    simp only [OWpark, hpc, List.append_nil]; exact h
  case finished o =>
    rw [taskStep_finished _ _ _ _ _ hpc]
    simp only [OWpark, hpc, List.append_nil]; exact h
  case seedGet k n =>
    obtain ⟨hm, hcont, hov, hdel⟩ := h
    rw [taskStep_seedGet _ _ _ _ _ hpc]
    simp only [List.append_nil]
    refine OWpark_settle now _ _ hc hm (Pre_extend hcont [store k] ?_ rfl)
    simp [specBody, Task.bst, hov, hdel]
  case readGet k =>
    obtain ⟨hm, hcont, hov, hdel⟩ := h
    rw [taskStep_readGet _ _ _ _ _ hpc]
    simp only [List.append_nil]
    refine OWpark_settle now _ _ hc hm (Pre_extend hcont [store k] ?_ rfl)
    simp [specBody, Task.bst, hov, hdel]
  case expGet k =>
    obtain ⟨hm, hcont, hov, hdel⟩ := h
    rw [taskStep_expGet _ _ _ _ _ hpc]
    simp only [List.append_nil]
    have e := expBuffer_frame t k (store k)
    have hcm : (expBuffer t k (store k)).cmuts = t.cmuts := by cases store k <;> rfl
    refine OWpark_settle now _ _ (e.2.2.2.2.1.trans hc) (hm.trans hcm.symm) ?_
    rw [e.2.2.2.2.2.2.1]
    refine Pre_extend hcont [store k] ?_ e.2.2.2.2.2.2.2.2.2
    cases hs : store k with
    | none => simp [specBody, Task.bst, hov, hdel, expBuffer]
    | some v => simp [specBody, Task.bst, hov, hdel, expBuffer]
  case existsGet k v e =>
    obtain ⟨hm, hcont, hov, hdel⟩ := h
    rw [taskStep_existsGet _ _ _ _ _ hpc]
    simp only [List.append_nil]
    have g := setxApply_frame { t with reads := t.reads ++ [store k] } k v e (store k).isSome
    have b := bst_setxApply { t with reads := t.reads ++ [store k] } k v e (store k).isSome
    have hcm : (setxApply { t with reads := t.reads ++ [store k] } k v e (store k).isSome).cmuts = t.cmuts := by
      unfold setxApply; split <;> rfl
    refine OWpark_settle now _ _ (g.2.2.2.2.1.trans hc) (hm.trans hcm.symm) ?_
    rw [g.2.2.2.2.2.2.2.2.1]
    refine Pre_extend hcont [store k] ?_ b.2
    rw [b.1]
    have hov' : t.bst.ov.get k = none := hov
    have hdel' : k ∉ t.bst.del := hdel
    simp only [specBody, hov', hdel', if_false]
    rfl
  case commitDel =>
    obtain ⟨hm, hspec, hdel⟩ := h
    rw [taskStep_commitDel _ _ _ _ _ hpc]
    dsimp only
    split
    · rename_i hov
      simp only [OWpark]
      exact ⟨by simp [hdel, hm], hspec, hov⟩
    · rename_i hov
      refine OWpark_afterCommit hspec ?_
      simp at hov
      simp [commitMuts, commitMutsOf, Task.bst, hdel, hov, hm]
  case commitSet =>
    obtain ⟨hm, hspec, hov⟩ := h
    rw [taskStep_commitSet _ _ _ _ _ hpc]
    refine OWpark_afterCommit hspec ?_
    rw [hm]
    by_cases hd : t.del = [] <;> simp [commitMuts, commitMutsOf, Task.bst, hov, hd]
  case unlocking ls o =>
    cases ls with
    | nil =>
      rw [taskStep_unlocking_nil _ _ _ _ _ hpc]
      simp only [OWpark, List.append_nil]; exact h
    | cons l rest =>
      rw [taskStep_unlocking_cons _ _ _ _ _ hpc]
      simp only [List.append_nil]
      by_cases hr : rest = []
      · simp only [OWpark, hr, if_true]; exact h
      · simp only [OWpark, hr, if_false]; exact h
  case midDel =>
    obtain ⟨hm, hpre, hdel⟩ := h
    rw [taskStep_midDel _ _ _ _ _ hpc]
    dsimp only
    split
    · rename_i hov
      simp only [OWpark]
      exact ⟨by simp [hdel, hm], Pre_congr hpre rfl rfl, hov⟩
    · rename_i hov
      refine OWpark_afterMid now hc ?_ hpre
      simp at hov
      simp [commitMutsOf, hdel, hov, hm]
  case midSet =>
    obtain ⟨hm, hpre, hov⟩ := h
    rw [taskStep_midSet _ _ _ _ _ hpc]
    refine OWpark_afterMid now hc ?_ hpre
    rw [hm]
    by_cases hd : t.del = [] <;> simp [commitMutsOf, hov, hd]
  case midUnlock ls =>
    obtain ⟨hm, hpre⟩ := h
    cases ls with
    | nil =>
      rw [taskStep_midUnlock_nil _ _ _ _ _ hpc]
      simp only [List.append_nil]
      exact OWpark_settle now _ _ hc hm hpre
    | cons l rest =>
      rw [taskStep_midUnlock_cons _ _ _ _ _ hpc]
      simp only [List.append_nil]
      by_cases hr : rest = []
      · simp only [hr, if_true]; exact OWpark_settle now _ _ hc hm hpre
      · simp only [OWpark, hr, if_false]; exact ⟨hm, Pre_congr hpre rfl rfl⟩

/-- the first step of a transactional task -/
theorem OW_start {p0 : List Cmd} {t : Task} (hpc : t.pc = .start) (htx : t.isTx = true) (hprog : t.prog = p0)
    (hov : t.ov = []) (hdel : t.del = []) (hres : t.results = []) (hreads : t.reads = [])
    (hcm : t.cmuts = []) (hpe : t.pend = []) (hci : t.cinc = [])
    (tid now : Nat) (store : Store) (lock : Locks) :
    OWpark p0 (taskStep tid now store lock t).task [] ∧ (taskStep tid now store lock t).muts = [] ∧
    (taskStep tid now store lock t).task.ctx = true := by
  rw [taskStep_start_tx _ _ _ _ _ hpc htx]
  refine ⟨OWpark_settle now _ _ rfl (by simp [hcm]) ?_, rfl, (Frame_settle _ _ _).ctx⟩
  refine ⟨[], by simp [hprog], ?_⟩
  simp [specBody, Task.bst, hov, hdel, hres, hreads, hcm, hpe, hci]

theorem OW_wake {p0 : List Cmd} {t : Task} {mine : List Mut} (hc : t.ctx = true) (h : OWpark p0 t mine) (now : Nat) :
    OWpark p0 (wake now t) mine := by
  unfold wake
  split
  · rename_i w hpc
    split
    · simp only [OWpark, hpc] at h
      exact OWpark_settle now _ _ hc h.1 h.2
    · exact h
  · rename_i k left w hpc
    split
    · simp only [OWpark, hpc] at h
      split
      · exact OWpark_abort_stop h.1 h.2 _ (Or.inl rfl)
      · simp only [OWpark]; exact ⟨h.1, Pre_congr h.2 rfl rfl⟩
    · exact h
  · exact h

/-- the task is cancelled while suspended inside its body -/
theorem OW_cancel {p0 : List Cmd} {t : Task} {mine : List Mut} (h : OWpark p0 t mine) :
    OWpark p0 (cancelTask t) mine := by
  unfold cancelTask
  split
  all_goals first
    | exact h
    | (rename_i hpc; simp only [OWpark, hpc] at h; exact OWpark_abort_stop h.1 h.2.1 _ (Or.inr rfl))
    | (rename_i hpc; simp only [OWpark, hpc] at h; exact OWpark_abort_stop h.1 h.2 _ (Or.inr rfl))
    | (rename_i hpc; simp only [OWpark, hpc] at h)

/-- the store mutations made by the steps of task `i` so far, in order -/
def mineOf (w : World) (i : Nat) : List Mut := (w.log.filter (fun e => e.1 == i)).map (·.2)

theorem mineOf_runTask_self (w : World) (tid : Nat) :
    mineOf (w.runTask tid) tid = mineOf w tid ++ (taskStep tid w.now w.store w.lock (w.tasks tid)).muts := by
  simp [mineOf, List.filter_append, List.filter_map, Function.comp_def]

theorem mineOf_runTask_ne (w : World) (tid : Nat) {i : Nat} (h : i ≠ tid) :
    mineOf (w.runTask tid) i = mineOf w i := by
  have : ∀ l : List Mut, List.filter (fun e : Nat × Mut => e.1 == i) (l.map (fun m => (tid, m))) = [] := by
    intro l; simp [List.filter_map, Function.comp_def, Ne.symm h]
  simp [mineOf, List.filter_append, this]

/-- the invariant of a transactional task, before and after it entered its block -/
structure OWfull (p0 : List Cmd) (t : Task) (mine : List Mut) : Prop where
  pre : t.ctx = false → t.pc = .start ∧ t.prog = p0 ∧ t.ov = [] ∧ t.del = [] ∧ t.results = [] ∧ t.reads = [] ∧ mine = [] ∧
    t.cmuts = [] ∧ t.pend = [] ∧ t.cinc = []
  post : t.ctx = true → OWpark p0 t mine

def World.OwnInv (p0 : Nat → List Cmd) (w : World) : Prop :=
  ∀ i, (w.tasks i).isTx = true → OWfull (p0 i) (w.tasks i) (mineOf w i)

theorem OwnInv_step (p0 : Nat → List Cmd) (w : World) (a : Act) (h : w.OwnInv p0) : (w.step a).OwnInv p0 := by
  intro i htx
  cases a with
  | adv d =>
    have f := wake_frame (w.now + d) (w.tasks i)
    have htx' : (w.tasks i).isTx = true := by rw [← f.1]; exact htx
    have hi := h i htx'
    show OWfull (p0 i) (wake (w.now + d) (w.tasks i)) (mineOf w i)
    constructor
    · intro hc
      have hc' : (w.tasks i).ctx = false := by rw [← f.2.2.2.2.1]; exact hc
      have hp := hi.pre hc'
      have : wake (w.now + d) (w.tasks i) = w.tasks i := by simp [wake, hp.1]
      rw [this]; exact hp
    · intro hc
      have hc' : (w.tasks i).ctx = true := by rw [← f.2.2.2.2.1]; exact hc
      exact OW_wake hc' (hi.post hc') _
  | cancel tid =>
    have hstep : (w.step (.cancel tid)).tasks i = if i = tid then cancelTask (w.tasks i) else w.tasks i := rfl
    show OWfull (p0 i) ((w.step (.cancel tid)).tasks i) (mineOf w i)
    rw [hstep] at htx ⊢
    split
    · have f := cancel_frame (w.tasks i)
      rename_i hit
      rw [if_pos hit] at htx
      have htx' : (w.tasks i).isTx = true := by rw [← f.1]; exact htx
      have hi := h i htx'
      constructor
      · intro hc
        have hc' : (w.tasks i).ctx = false := by rw [← f.2.2.2.2.1]; exact hc
        have hp := hi.pre hc'
        have : cancelTask (w.tasks i) = w.tasks i := by simp [cancelTask, hp.1]
        rw [this]; exact hp
      · intro hc
        have hc' : (w.tasks i).ctx = true := by rw [← f.2.2.2.2.1]; exact hc
        exact OW_cancel (hi.post hc')
    · rename_i hit
      rw [if_neg hit] at htx
      exact h i htx
  | run tid =>
    show OWfull (p0 i) ((w.runTask tid).tasks i) (mineOf (w.runTask tid) i)
    by_cases hit : i = tid
    · subst hit
      have hf := taskStep_isTx i w.now w.store w.lock (w.tasks i)
      simp only [World.step, runTask_tasks_self] at htx
      have htx' : (w.tasks i).isTx = true := by rw [← hf.1]; exact htx
      have hi := h i htx'
      rw [mineOf_runTask_self]
      simp only [runTask_tasks_self]
      cases hc : (w.tasks i).ctx
      · obtain ⟨hpc, hprog, hov, hdel, hres, hreads, hm, hcm, hpe, hci⟩ := hi.pre hc
        have hs := OW_start hpc htx' hprog hov hdel hres hreads hcm hpe hci i w.now w.store w.lock
        rw [hm, hs.2.1]
        exact ⟨fun hc' => (by rw [hs.2.2] at hc'; cases hc'), fun _ => hs.1⟩
      · have := OW_taskStep hc (hi.post hc) i w.now w.store w.lock
        exact ⟨fun hc' => (by rw [hf.2 hc] at hc'; cases hc'), fun _ => this⟩
    · simp only [World.step, runTask_tasks_ne w tid hit] at htx ⊢
      rw [mineOf_runTask_ne w tid hit]
      exact h i htx

theorem OwnInv_init (store : Store) (ts : List Task) (hf : ∀ t ∈ ts, t.Fresh) :
    (World.init store ts).OwnInv (fun i => (ts.getD i Task.inert).prog) := by
  intro i htx
  have hcases : (∃ t ∈ ts, (World.init store ts).tasks i = t) ∨ (World.init store ts).tasks i = Task.inert := by
    by_cases hi : i < ts.length
    · left
      refine ⟨ts[i], List.getElem_mem hi, ?_⟩
      show ts.getD i Task.inert = _
      rw [List.getD_eq_getElem?_getD, List.getElem?_eq_getElem hi]; rfl
    · right
      show ts.getD i Task.inert = _
      rw [List.getD_eq_getElem?_getD, List.getElem?_eq_none (by omega)]; rfl
  have hp : (ts.getD i Task.inert).prog = ((World.init store ts).tasks i).prog := rfl
  rcases hcases with ⟨t, ht, e⟩ | e
  · have f := hf t ht
    simp only [hp]
    rw [e]
    exact ⟨fun _ => ⟨f.pc, rfl, f.ov, f.del, f.results, f.reads, rfl, f.cmuts, f.pend, f.cinc⟩, fun hc => by rw [f.ctx] at hc; cases hc⟩
  · rw [e] at htx; simp [Task.inert] at htx

theorem own_run (store : Store) (ts : List Task) (hf : ∀ t ∈ ts, t.Fresh) (sched : List Act) :
    ((World.init store ts).run sched).OwnInv (fun i => (ts.getD i Task.inert).prog) :=
  run_invariant (P := World.OwnInv _) (fun w a h => OwnInv_step _ w a h) sched _ (OwnInv_init store ts hf)

/-- every change of the store is in the log -/
theorem taskStep_store (tid now : Nat) (store : Store) (lock : Locks) (t : Task) :
    (taskStep tid now store lock t).store = (taskStep tid now store lock t).muts.foldl Mut.apply store := by
  cases hpc : t.pc
  case start => rw [taskStep_start _ _ _ _ _ hpc]; rfl
  case lockTry k left =>
    cases hf : lockFree lock (lockKeyOf t.mode k) now
    · rw [taskStep_lockTry_busy _ _ _ _ _ hpc hf]; rfl
    · rw [taskStep_lockTry_free _ _ _ _ _ hpc hf]; rfl
  case lockSleep k left w => rw [taskStep_lockSleep _ _ _ _ _ hpc]; rfl
  case bodySleep w => rw [taskStep_bodySleep _ _ _ _ _ hpc]; rfl
  case finished o => rw [taskStep_finished _ _ _ _ _ hpc]; rfl
  case seedGet k n => rw [taskStep_seedGet _ _ _ _ _ hpc]; rfl
  case readGet k => rw [taskStep_readGet _ _ _ _ _ hpc]; rfl
  case expGet k => rw [taskStep_expGet _ _ _ _ _ hpc]; rfl
  case existsGet k v e => rw [taskStep_existsGet _ _ _ _ _ hpc]; rfl
  case direct c =>
    rw [taskStep_direct _ _ _ _ _ hpc]
    cases c
    case setx k v e => simp only [directStep]; split <;> rfl
    all_goals rfl
  case commitDel => rw [taskStep_commitDel _ _ _ _ _ hpc]; rfl
  case commitSet => rw [taskStep_commitSet _ _ _ _ _ hpc]; rfl
  case unlocking ls o =>
    cases ls with
    | nil => rw [taskStep_unlocking_nil _ _ _ _ _ hpc]; rfl
    | cons l rest => rw [taskStep_unlocking_cons _ _ _ _ _ hpc]; rfl
  case midDel => rw [taskStep_midDel _ _ _ _ _ hpc]; rfl
  case midSet => rw [taskStep_midSet _ _ _ _ _ hpc]; rfl
  case midUnlock ls =>
    cases ls with
    | nil => rw [taskStep_midUnlock_nil _ _ _ _ _ hpc]; rfl
    | cons l rest => rw [taskStep_midUnlock_cons _ _ _ _ _ hpc]; rfl

theorem store_eq_log_run (store : Store) (ts : List Task) (sched : List Act) :
    ((World.init store ts).run sched).store =
      (((World.init store ts).run sched).log.map (·.2)).foldl Mut.apply store := by
  refine run_invariant (P := fun w => w.store = (w.log.map (·.2)).foldl Mut.apply store) ?_ sched _ rfl
  intro w a h
  cases a with
  | adv d => exact h
  | cancel tid => exact h
  | run tid =>
    show (w.runTask tid).store = ((w.runTask tid).log.map (·.2)).foldl Mut.apply store
    simp only [runTask_store, runTask_log, List.map_append, List.foldl_append, List.map_map]
    rw [taskStep_store, ← h]
    congr 1
    simp [Function.comp_def]

/-- the `isTx` flag of a task never changes -/
theorem isTx_run (store : Store) (ts : List Task) (sched : List Act) (i : Nat) :
    (((World.init store ts).run sched).tasks i).isTx = ((World.init store ts).tasks i).isTx := by
  refine run_invariant (P := fun w => (w.tasks i).isTx = ((World.init store ts).tasks i).isTx) ?_ sched _ rfl
  intro w a h
  cases a with
  | adv d => exact (wake_frame (w.now + d) (w.tasks i)).1.trans h
  | cancel tid =>
    show (if i = tid then cancelTask (w.tasks i) else w.tasks i).isTx = _
    split
    · exact (cancel_frame (w.tasks i)).1.trans h
    · exact h
  | run tid =>
    show ((w.runTask tid).tasks i).isTx = _
    by_cases hi : i = tid
    · subst hi; rw [runTask_tasks_self, (taskStep_isTx _ _ _ _ _).1]; exact h
    · rw [runTask_tasks_ne w tid hi]; exact h


end CashewsVerif.TxSched
